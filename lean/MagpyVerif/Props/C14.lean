/-
Props/C14.lean — returned fields obey the integral laws of magnetostatics.
Proved: the LOCAL (differential) forms of both laws for the Dipole kernel and for the Sphere:
div B = 0 and curl H = 0 at every point off the dipole position, resp. off the sphere surface
(all partial derivatives as `HasDerivAt` of one-variable sections of the model functions);
the interface conditions of the Sphere solution (normal B and tangential H continuous
across |x| = R), which together with B_in − μ₀H_in = J (C02) are what make the flux and
circulation laws hold for surfaces/loops that cut the boundary.
Straight current segment (`current_polyline_Hfield`, one row): div H = 0 at every observer off the
carrier line, for every placement of the segment (`segment_div_free`; canonical placement on the
z-axis with the explicit azimuthal closed form: `segmentH_canonical_eq`, `segment_div_free_canonical`).
Curl-freeness is NOT claimed for a segment: the field of an open finite segment is not curl-free.
Cuboid (`magnet_cuboid_Bfield` port `cuboidB`, and the `BHJM_magnet_cuboid` row `bhjmCuboid`): all nine
partial derivatives exist at every observer off the six face planes (inside and outside, every octant),
with an explicit Jacobian (`cuboid_partials`), and div B = 0, curl H = 0 (also div H = 0, curl B = 0)
there (`cuboid_div_free`, `cuboid_H_curl_free`, `cuboid_div_curl_free`, `cuboid_curl_free_outside`,
`cuboid_wrapper_div_curl_free`; Lemmas/CuboidDiv.lean).
Triangle sheet (`triangle_Bfield` port `triangleB`, `BHJM_triangle` row `bhjmTriangle`), and with it Tetrahedron and the rows of
TriangularMesh (sums of sheets, plus the polarization inside): at every observer OFF THE PLANE of the triangle at which the code does
not clamp the solid angle (`|Ω| < 6.2831853`, strictly) and which is strictly outside the three `on_edge` tolerance tubes
(`TriDiv.TriClear`), all nine partial derivatives exist, with the explicit Jacobian `TriDiv.triJac`
(`σ/(4π)·(n ⊗ ∇Ω + Σ_i (L_i × n) ⊗ ∇I_i)`, `∇Ω = −Σ_i β_i R_i × L_i` the Biot–Savart sum over the boundary), its trace vanishes
(div B = 0) and it is symmetric (curl H = 0): `triangle_partials`, `triangle_div_free`, `triangle_curl_free`,
`triangle_div_curl_free`; `tetra_H_curl_free`, `tetra_B_div_free` (off the four face planes; the inside mask is locally constant
there), `trimesh_row_div_free`, `trimesh_row_H_curl_free` (Lemmas/TriangleDiv.lean).
INTEGRAL forms (section `integral_laws`, Lemmas/BoxLaws.lean, Lemmas/BoxLawsCuboid.lean).  Proved, at the carrier ℝ, with
the flux written as the six iterated interval integrals over the faces (`boxFlux6`; `boxFlux` pairs opposite faces)
and the circulation as the four line integrals along the sides (`rectCircZ4/X4/Y4`; `rectCircZ/X/Y` pair opposite sides):
  * generic: Gauss for a closed axis-aligned box and Green/Stokes for an axis-aligned rectangle in a coordinate plane,
    from existence + continuity ON THE CLOSED BOX of the relevant partial derivatives and div = 0 resp. (curl)_n = 0 there
    (`box_flux_zero_of_div_free`, `rect_circulation_zero_of_curl_free`; 1-D fundamental theorem + Fubini);
  * Dipole: boxes / filled rectangles that do not contain the dipole position (`dipole_box_flux_zero`,
    `dipole_rect_circulation_zero`, `dipole_rect_circulation_zero_z`);
  * Cuboid closed form `cuboidB` / `cuboidHfield` and the wrapper row `bhjmCuboid`: boxes and rectangles inside ONE of the 27
    cells cut out by the six face planes — strictly inside the magnet (B, not H, is solenoidal there) or in an outside
    cell — resp. clear of the wrapper's 1e-15 shells (`cuboid_box_flux_zero`, `cuboid_rect_circulation_zero`,
    `cuboid_wrapper_box_laws`);
  * Sphere: boxes and rectangles strictly inside or strictly outside the ball (`sphere_box_laws_inside`, `sphere_box_laws_outside`).
  * Triangle sheet (`bhjmTriangle`), Tetrahedron (`bhjmTetra`: four sheets, chirality fix, inside test) and the sheet sum of a TriangularMesh
    row plus a constant (`meshRowSheets … + c`): closed boxes / rectangles EVERY point of which satisfies `TriDiv.TriClear` w.r.t. every
    face — beside a sheet, entirely outside or entirely INSIDE a Tetrahedron (`tetra_B_on_box`: there `B = Σ sheets + J`, the inside test is
    constant on the box) — `triangle_box_flux_zero`, `triangle_rect_circulation_zero`, `tetra_box_flux_zero`,
    `tetra_rect_circulation_zero`, `trimesh_row_box_flux_zero`, `trimesh_row_rect_circulation_zero`; the hypothesis follows from the
    checkable `BoxLaws.TriFarBox` (eight corners on one side of the plane with `|N| ≥ m`, `16ρ₀²ρ₁²ρ₂² ≤ 1e16·m²`, `1e-30·l²|A|² < m²`:
    `triFarBox_triClear`; Lemmas/BoxLawsTriangle.lean);
  * boxes CUTTING a boundary: the generic splitting theorem `BoxLaws.box_flux_zero_of_split_x` (field piecewise smooth on the
    two sides of a plane `x = c`, NORMAL component continuous across it, tangential components free to jump); for the Cuboid
    closed form only the case of a face that carries no charge, `cuboid_box_flux_crossing_tangential` (`pol.x = 0`, box
    straddling the face `x = dim.x/2`; B jumps there by the tangential J), and the conditional
    `cuboid_box_flux_crossing_partial` (continuity of B_n across the face as an explicit hypothesis).
NOT proved: surfaces other than axis-aligned boxes and loops other than axis-aligned rectangles (Mathlib v4.33 has the
divergence theorem for boxes only, no general Stokes theorem); boxes CUTTING a CHARGED face of the Cuboid (`J·n ≠ 0`: needs
the one-sided smooth continuations of the closed form up to the face, see the FULL comment at
`cuboid_box_flux_crossing_partial`), any cut for the wrapper row `bhjmCuboid` (its 1e-15 shells have positive
measure), rectangles cutting a Cuboid face (circulation), boxes / rectangles cutting the Sphere surface (pointwise
interface conditions only: `sphere_interface_model`); boxes enclosing the Dipole position; Ampère's law with a threading current (Circle, closed Polyline:
linking-number form); every integral statement for Segment/Polyline, Circle, Cylinder, CylinderSegment and collections; for
Triangle / Tetrahedron / TriangularMesh rows every box or rectangle that meets the (extended) plane of a face — through a sheet, across
the surface of a body — or the clamp band / an `on_edge` tube; the inside mask of a TriangularMesh row is a parameter (what it adds is a
constant on the box by hypothesis), no integral statement for the `bhjmTrimesh` batch.
/- FULL: zero flux of B through every closed surface and circulation of H = linked current for
   every loop, all classes.  Needs C01 for every class plus Gauss/Stokes for general surfaces;
   not shown by theorem beyond the cases listed above.  The flux/circulation quadrature oracle checks boxes and loops
   of sizes 1e-2…1e2 of the source, in free space, inside magnets and cutting their boundary. -/
-/
import MagpyVerif.Lemmas.KernReal
import MagpyVerif.Lemmas.DipoleCalc
import MagpyVerif.Props.C13
import MagpyVerif.Lemmas.SegmentDiv
import MagpyVerif.Lemmas.CuboidDiv
import MagpyVerif.Lemmas.BoxLaws
import MagpyVerif.Lemmas.BoxLawsCuboid
import MagpyVerif.Lemmas.TriangleDiv
import MagpyVerif.Lemmas.BoxLawsTriangle
import MagpyVerif.Props.C01
namespace MagpyVerif.C14
open MagpyVerif MagpyVerif.Kern

/-- C14 (interface conditions across the sphere surface |x| = R): the normal component of B and
the tangential component of H are continuous — the jump conditions that make the flux law and
the circulation law hold for surfaces and loops cutting through the boundary. -/
theorem sphere_interface (R : ℝ) (hR : 0 < R) (pol x : V3 ℝ) (hx : Kern.norm x = R) :
    V3.dot (sphereOutB R pol x) x = V3.dot (vs (2 / 3) pol) x ∧
    V3.cross (vd (sphereOutB R pol x) mu0R) x = V3.cross (vd (vs (2 / 3) pol - pol) mu0R) x := by
  have hsq := norm_sq x
  have hmu : mu0R ≠ 0 := mu0R_pos.ne'
  have hR' : R ≠ 0 := hR.ne'
  simp only [sphereOutB, hx] at *
  have hxx : x.x * x.x = R * R - x.y * x.y - x.z * x.z := by linarith
  constructor
  · simp only [V3.dot, vs, vd, V3.sub_x, V3.sub_y, V3.sub_z]
    field_simp
    linear_combination (-3 * (pol.x * x.x + pol.y * x.y + pol.z * x.z)) * hsq
  · apply V3.ext' <;> simp only [V3.cross, V3.dot, vs, vd, V3.sub_x, V3.sub_y, V3.sub_z] <;> field_simp <;> ring

/-! (added by the audit) `sphere_interface` is about `sphereOutB`, a formula written separately in Lemmas/KernReal.lean, and a
hand-written inside value; nothing above ties either to the model `bhjmSphere` the driver runs.  The tie, and the interface
conditions stated on the model: -/
theorem sphereOutB_is_model (d : ℝ) (pol x : V3 ℝ) (hout : |d| / 2 < Kern.norm x) :
    bhjmSphere .B d pol x = sphereOutB (|d| / 2) pol x ∧
    bhjmSphere .H d pol x = vd (sphereOutB (|d| / 2) pol x) mu0R := by
  constructor <;>
  simp only [bhjmSphere, sphereOutB, lt_real, abs_real, n, ofNat_real, Nat.cast_ofNat, hout, decide_true, if_true, mu0_real]

theorem sphere_surface_is_inside_formula (d : ℝ) (pol x : V3 ℝ) (hin : ¬ |d| / 2 < Kern.norm x) :
    bhjmSphere .B d pol x = vs (2 / 3) pol ∧
    bhjmSphere .H d pol x = vd (vs (2 / 3) pol - pol) mu0R := by
  constructor <;>
  simp only [bhjmSphere, lt_real, abs_real, n, ofNat_real, Nat.cast_ofNat, hin, decide_false, if_false,
    Bool.false_eq_true, mu0_real]

/-- interface conditions on the model: the outside branch continued to |x| = |d|/2 has the same normal B and
tangential H as what `bhjmSphere` returns there (its inside branch) -/
theorem sphere_interface_model (d : ℝ) (hd : d ≠ 0) (pol x : V3 ℝ) (hx : Kern.norm x = |d| / 2) :
    V3.dot (sphereOutB (|d| / 2) pol x) x = V3.dot (bhjmSphere .B d pol x) x ∧
    V3.cross (vd (sphereOutB (|d| / 2) pol x) mu0R) x = V3.cross (bhjmSphere .H d pol x) x := by
  have hR : 0 < |d| / 2 := by positivity
  have hin : ¬ |d| / 2 < Kern.norm x := by rw [hx]; exact lt_irrefl _
  obtain ⟨hB, hH⟩ := sphere_surface_is_inside_formula d pol x hin
  rw [hB, hH]
  exact sphere_interface (|d| / 2) hR pol x hx

example : (2 : ℝ) ≠ 0 ∧ Kern.norm (⟨0, 0, 1⟩ : V3 ℝ) = |(2 : ℝ)| / 2 := by
  refine ⟨two_ne_zero, ?_⟩
  simp [Kern.norm]

/-- inside the ball B − μ₀H = J: the term that closes the flux law inside the magnet -/
theorem sphere_inside_B_minus_mu0H (d : ℝ) (pol x : V3 ℝ) (hin : ¬ |d| / 2 < Kern.norm x) :
    bhjmSphere .B d pol x - vs mu0R (bhjmSphere .H d pol x) = pol := by
  have hmu : mu0R ≠ 0 := mu0R_pos.ne'
  simp only [bhjmSphere, lt_real, abs_real, n, ofNat_real, Nat.cast_ofNat, hin, decide_false, if_false,
    Bool.false_eq_true, mu0_real]
  apply V3.ext' <;> simp [vs, vd] <;> field_simp <;> ring
-- non-vacuity (audit): strictly inside, and exactly on the surface
example : ¬ |(2 : ℝ)| / 2 < Kern.norm (⟨0, 0, 1 / 2⟩ : V3 ℝ) := by rw [norm_axis_z (1 / 2) (by norm_num)]; norm_num
example : ¬ |(2 : ℝ)| / 2 < Kern.norm (⟨0, 0, 1⟩ : V3 ℝ) := by rw [norm_axis_z 1 (by norm_num)]; norm_num

/-! ### local forms of the two laws: Dipole -/

/-- C14 (Dipole, local form of the flux law).  At every point (x,y,z) other than the dipole
position the three partial derivatives ∂Hx/∂x, ∂Hy/∂y, ∂Hz/∂z of `dipole_Hfield` exist and add
up to zero: div H = 0, hence div B = μ₀ div H = 0 (`dipole_B_div_free`).  By Gauss's theorem this
is what makes the flux of B through any closed surface not containing the dipole vanish. -/
theorem dipole_div_free (m : V3 ℝ) (x y z : ℝ) (hx : (⟨x, y, z⟩ : V3 ℝ) ≠ ⟨0, 0, 0⟩) :
    ∃ dxx dyy dzz : ℝ,
      HasDerivAt (fun t => (dipoleH m ⟨t, y, z⟩).x) dxx x ∧
      HasDerivAt (fun t => (dipoleH m ⟨x, t, z⟩).y) dyy y ∧
      HasDerivAt (fun t => (dipoleH m ⟨x, y, t⟩).z) dzz z ∧
      dxx + dyy + dzz = 0 :=
  (dipoleH_hasPartials m ⟨x, y, z⟩ (norm_ne_zero_of_ne hx)).divFreeAt
    (dipoleJac_div m _ (norm_ne_zero_of_ne hx))

/-- the same statement with Mathlib's `deriv`: the divergence of `dipole_Hfield`, written as the sum
of the derivatives of its three coordinate sections, is 0 off the dipole position -/
theorem dipole_div_free_deriv (m : V3 ℝ) (x y z : ℝ) (hx : (⟨x, y, z⟩ : V3 ℝ) ≠ ⟨0, 0, 0⟩) :
    deriv (fun t => (dipoleH m ⟨t, y, z⟩).x) x + deriv (fun t => (dipoleH m ⟨x, t, z⟩).y) y
      + deriv (fun t => (dipoleH m ⟨x, y, t⟩).z) z = 0 := by
  obtain ⟨a, b, c, ha, hb, hc, h⟩ := dipole_div_free m x y z hx
  rw [ha.deriv, hb.deriv, hc.deriv]
  exact h

/-- non-vacuity: the point (0,0,1) is off the dipole, the field of the moment (0,0,1) is not zero
there, and the single partial ∂Hz/∂z is not zero (so the vanishing of the sum is not trivial) -/
example : ∃ dxx dyy dzz : ℝ,
    HasDerivAt (fun t => (dipoleH ⟨0, 0, 1⟩ (⟨t, 0, 1⟩ : V3 ℝ)).x) dxx 0 ∧
    HasDerivAt (fun t => (dipoleH ⟨0, 0, 1⟩ (⟨0, t, 1⟩ : V3 ℝ)).y) dyy 0 ∧
    HasDerivAt (fun t => (dipoleH ⟨0, 0, 1⟩ (⟨0, 0, t⟩ : V3 ℝ)).z) dzz 1 ∧
    dxx + dyy + dzz = 0 := dipole_div_free ⟨0, 0, 1⟩ 0 0 1 (by simp)
example : (dipoleH ⟨0, 0, 1⟩ (⟨0, 0, 1⟩ : V3 ℝ)).z = 1 / (2 * Real.pi) := by
  have h := norm_axis_z 1 zero_le_one
  simp only [dipoleH, vs, vd, n, ofNat_real, pi_real, V3.dot, V3.sub_z, Nat.cast_ofNat, h]
  field_simp; ring
example : (dipoleJac ⟨0, 0, 1⟩ (⟨0, 0, 1⟩ : V3 ℝ)).r3.z = -6 / (4 * Real.pi) := by
  have h := norm_axis_z 1 zero_le_one
  simp only [dipoleJac, dipoleJ, V3.dot, h]
  ring

/-- C14 (Dipole, local form of Ampère's law without currents).  At every point other than the
dipole position the six mixed partial derivatives of `dipole_Hfield` exist and the three
components of curl H vanish: ∂Hz/∂y − ∂Hy/∂z = 0, ∂Hx/∂z − ∂Hz/∂x = 0, ∂Hy/∂x − ∂Hx/∂y = 0.
By Stokes's theorem this is what makes the circulation of H around any loop that bounds a
surface avoiding the dipole vanish. -/
theorem dipole_curl_free (m : V3 ℝ) (x y z : ℝ) (hx : (⟨x, y, z⟩ : V3 ℝ) ≠ ⟨0, 0, 0⟩) :
    ∃ dzy dyz dxz dzx dyx dxy : ℝ,
      HasDerivAt (fun t => (dipoleH m ⟨x, t, z⟩).z) dzy y ∧
      HasDerivAt (fun t => (dipoleH m ⟨x, y, t⟩).y) dyz z ∧
      HasDerivAt (fun t => (dipoleH m ⟨x, y, t⟩).x) dxz z ∧
      HasDerivAt (fun t => (dipoleH m ⟨t, y, z⟩).z) dzx x ∧
      HasDerivAt (fun t => (dipoleH m ⟨t, y, z⟩).y) dyx x ∧
      HasDerivAt (fun t => (dipoleH m ⟨x, t, z⟩).x) dxy y ∧
      dzy - dyz = 0 ∧ dxz - dzx = 0 ∧ dyx - dxy = 0 :=
  (dipoleH_hasPartials m ⟨x, y, z⟩ (norm_ne_zero_of_ne hx)).curlFreeAt (dipoleJac_curl m _)

/-- non-vacuity: at (1,0,1) the mixed partial ∂Hx/∂z of the moment (0,0,1) is not zero -/
example : CurlFreeAt (dipoleH ⟨0, 0, 1⟩) ⟨1, 0, 1⟩ := dipole_curl_free ⟨0, 0, 1⟩ 1 0 1 (by simp)
example : (dipoleJac ⟨0, 0, 1⟩ (⟨1, 0, 1⟩ : V3 ℝ)).r1.z ≠ 0 := by
  have h2 : Kern.norm (⟨1, 0, 1⟩ : V3 ℝ) * Kern.norm (⟨1, 0, 1⟩ : V3 ℝ) = 2 := by
    rw [norm_sq]; norm_num
  have hr : 0 < Kern.norm (⟨1, 0, 1⟩ : V3 ℝ) := norm_pos_of_ne (by simp)
  simp only [dipoleJac, dipoleJ, V3.dot]
  generalize Kern.norm (⟨1, 0, 1⟩ : V3 ℝ) = r at *
  have hπ : Real.pi ≠ 0 := Real.pi_ne_zero
  have hr0 : r ≠ 0 := hr.ne'
  have h7 : r ^ 7 = r ^ 5 * 2 := by rw [← h2]; ring
  rw [h7]
  field_simp
  norm_num
  exact hr0

/-- the same two laws for what `BHJM_dipole` returns: div B = 0 for `field="B"` (B = μ₀H) and
curl H = 0 for `field="H"`, at every point off the dipole position -/
theorem dipole_wrapper_div_curl_free (m p : V3 ℝ) (hp : p ≠ ⟨0, 0, 0⟩) :
    DivFreeAt (bhjmDipole .B m) p ∧ CurlFreeAt (bhjmDipole .H m) p := by
  have h0 := norm_ne_zero_of_ne hp
  have h := dipoleH_hasPartials m p h0
  refine ⟨(h.const_smul mu0R).divFreeAt ?_, h.curlFreeAt (dipoleJac_curl m p)⟩
  rw [jacDiv_scale, dipoleJac_div m p h0, mul_zero]

example : DivFreeAt (bhjmDipole .B ⟨0, 0, 1⟩) ⟨1, 2, 2⟩ ∧ CurlFreeAt (bhjmDipole .H ⟨0, 0, 1⟩) ⟨1, 2, 2⟩ :=
  dipole_wrapper_div_curl_free _ _ (by simp)

/-! ### local forms of the two laws: Sphere -/

/-- outside the ball the B-field of `BHJM_magnet_sphere` is μ₀ times the dipole H-field of the
moment J·V/μ₀ (companion of `C13.sphere_outside_eq_dipole`, which is the statement for H) -/
theorem sphere_outside_B_eq_mu0_dipole (d : ℝ) (pol x : V3 ℝ) (hout : |d| / 2 < Kern.norm x) :
    bhjmSphere .B d pol x =
      vs mu0R (dipoleH (vs (4 / 3 * Real.pi * (|d| / 2) ^ 3 / mu0R) pol) x) := by
  rw [← C13.sphere_outside_eq_dipole d pol x hout]
  have hmu : mu0R ≠ 0 := mu0R_pos.ne'
  simp only [bhjmSphere, lt_real, abs_real, n, ofNat_real, Nat.cast_ofNat, hout, decide_true, if_true, mu0_real]
  apply V3.ext' <;> simp [vs, vd] <;> field_simp

/-- C14 (Sphere, outside, |x| > |d|/2): div B = 0 and curl H = 0 (and also div H = 0, curl B = 0,
there being neither polarization nor current outside).  The inside/outside test of the code is
constant on the open set |x| > |d|/2, so near the point the field is the dipole field. -/
theorem sphere_outside_div_curl_free (d : ℝ) (pol p : V3 ℝ) (hout : |d| / 2 < Kern.norm p) :
    DivFreeAt (bhjmSphere .B d pol) p ∧ CurlFreeAt (bhjmSphere .H d pol) p ∧
    DivFreeAt (bhjmSphere .H d pol) p ∧ CurlFreeAt (bhjmSphere .B d pol) p := by
  have h0 : Kern.norm p ≠ 0 := (lt_of_le_of_lt (by positivity) hout).ne'
  have h := dipoleH_hasPartials (vs (4 / 3 * Real.pi * (|d| / 2) ^ 3 / mu0R) pol) p h0
  have hH : HasPartials (bhjmSphere .H d pol) p _ :=
    h.congr_on_norm_gt hout (fun q hq => C13.sphere_outside_eq_dipole d pol q hq)
  have hB : HasPartials (bhjmSphere .B d pol) p _ :=
    (h.const_smul mu0R).congr_on_norm_gt hout (fun q hq => sphere_outside_B_eq_mu0_dipole d pol q hq)
  refine ⟨hB.divFreeAt ?_, hH.curlFreeAt (dipoleJac_curl _ p), hH.divFreeAt (dipoleJac_div _ p h0),
    hB.curlFreeAt ?_⟩
  · rw [jacDiv_scale, dipoleJac_div _ p h0, mul_zero]
  · rw [jacCurl_scale, dipoleJac_curl]; simp [vs]

/-- non-vacuity: diameter 2, polarization (0,0,1), observer (0,0,2) is outside (2 > 1) -/
example : DivFreeAt (bhjmSphere .B 2 ⟨0, 0, 1⟩) ⟨0, 0, 2⟩ ∧ CurlFreeAt (bhjmSphere .H 2 ⟨0, 0, 1⟩) ⟨0, 0, 2⟩ := by
  have h := sphere_outside_div_curl_free 2 ⟨0, 0, 1⟩ ⟨0, 0, 2⟩
    (by rw [norm_axis_z 2 (by norm_num)]; norm_num)
  exact ⟨h.1, h.2.1⟩

/-- strictly inside the ball every field `BHJM_magnet_sphere` returns is constant -/
theorem sphere_inside_const (f : Field) (d : ℝ) (pol q q' : V3 ℝ)
    (hq : Kern.norm q < |d| / 2) (hq' : Kern.norm q' < |d| / 2) :
    bhjmSphere f d pol q = bhjmSphere f d pol q' := by
  have h1 : ¬ |d| / 2 < Kern.norm q := not_lt.mpr hq.le
  have h2 : ¬ |d| / 2 < Kern.norm q' := not_lt.mpr hq'.le
  cases f <;>
    simp only [bhjmSphere, lt_real, abs_real, n, ofNat_real, Nat.cast_ofNat, h1, h2, decide_false,
      Bool.false_eq_true, if_false]

/-- C14 (Sphere, strictly inside, |x| < |d|/2): every partial derivative of every returned field
is 0 (the inside/outside test is constant on the open ball, and the inside fields are constant) -/
theorem sphere_inside_partials_zero (f : Field) (d : ℝ) (pol p : V3 ℝ) (hin : Kern.norm p < |d| / 2) :
    HasPartials (bhjmSphere f d pol) p jacZero :=
  (HasPartials.const (bhjmSphere f d pol p) p).congr_on_norm_lt hin
    (fun q hq => sphere_inside_const f d pol q p hq hin)

/-- C14 (Sphere, strictly inside): div B = 0 (flux law inside the magnet) and curl H = 0
(no free currents), and likewise div H = 0, curl B = 0 for the homogeneous inside field -/
theorem sphere_inside_div_curl_free (d : ℝ) (pol p : V3 ℝ) (hin : Kern.norm p < |d| / 2) :
    DivFreeAt (bhjmSphere .B d pol) p ∧ CurlFreeAt (bhjmSphere .H d pol) p ∧
    DivFreeAt (bhjmSphere .H d pol) p ∧ CurlFreeAt (bhjmSphere .B d pol) p :=
  ⟨(sphere_inside_partials_zero .B d pol p hin).divFreeAt jacDiv_zero,
   (sphere_inside_partials_zero .H d pol p hin).curlFreeAt jacCurl_zero,
   (sphere_inside_partials_zero .H d pol p hin).divFreeAt jacDiv_zero,
   (sphere_inside_partials_zero .B d pol p hin).curlFreeAt jacCurl_zero⟩

/-- non-vacuity: diameter 2, observer (0,0,1/2) is strictly inside; the field there is ⅔J ≠ 0 -/
example : DivFreeAt (bhjmSphere .B 2 ⟨0, 0, 1⟩) ⟨0, 0, 1 / 2⟩ ∧ CurlFreeAt (bhjmSphere .H 2 ⟨0, 0, 1⟩) ⟨0, 0, 1 / 2⟩ := by
  have h := sphere_inside_div_curl_free 2 ⟨0, 0, 1⟩ ⟨0, 0, 1 / 2⟩
    (by rw [norm_axis_z (1 / 2) (by norm_num)]; norm_num)
  exact ⟨h.1, h.2.1⟩
example : (bhjmSphere .B 2 ⟨0, 0, 1⟩ (⟨0, 0, 1 / 2⟩ : V3 ℝ)).z = 2 / 3 := by
  have h : ¬ |(2 : ℝ)| / 2 < Kern.norm (⟨0, 0, 1 / 2⟩ : V3 ℝ) := by
    rw [norm_axis_z (1 / 2) (by norm_num)]; norm_num
  simp only [bhjmSphere, lt_real, abs_real, n, ofNat_real, Nat.cast_ofNat, h, decide_false,
    Bool.false_eq_true, if_false, vs]
  norm_num

/-! ### local form of the flux law: straight current segment (canonical placement) -/

/-- the model's `segmentH` (`current_polyline_Hfield` for one segment, all three branches of its
foot-point case split) for a segment on the z-axis from `a` to `b ≠ a` and an observer off the axis:
purely azimuthal, `H = I/(4π) · G(ρ², z) · (−y, x, 0)` with
`G(u, z) = ((b − z)/√((b − z)² + u) − (a − z)/√((a − z)² + u)) / u`
(the textbook `I/(4πρ)·(sin θ₂ − sin θ₁)·ê_φ`) -/
theorem segmentH_canonical_eq (cur a b x y z : ℝ) (hab : a ≠ b) (hρ : 0 < x * x + y * y) :
    segmentH cur ⟨0, 0, a⟩ ⟨0, 0, b⟩ ⟨x, y, z⟩ =
      ⟨-y * (cur / (4 * Real.pi) * SegBS.segCanonG a b z (x * x + y * y)),
        x * (cur / (4 * Real.pi) * SegBS.segCanonG a b z (x * x + y * y)), 0⟩ :=
  SegBS.segmentH_canonical_eq cur a b x y z hab hρ

/-- C14 (straight segment, local form of the flux law), canonical placement: for the segment on the
z-axis from `a` to `b ≠ a` and every observer off the axis the three partial derivatives ∂Hx/∂x,
∂Hy/∂y, ∂Hz/∂z of the model's `segmentH` exist and add up to zero (div H = 0, hence div B = 0).
The field is azimuthal with a magnitude independent of the azimuth:
∂Hx/∂x + ∂Hy/∂y = −y·c·G₁·2x + x·c·G₁·2y = 0, Hz ≡ 0.
Nothing is claimed about curl H: the field of an open finite segment is NOT curl-free (the
current is not closed); only closed polylines are.
The same for arbitrary placement: `segment_div_free` below. -/
theorem segment_div_free_canonical (cur a b : ℝ) (hab : a ≠ b) (x y z : ℝ) (hρ : 0 < x * x + y * y) :
    ∃ dxx dyy dzz : ℝ,
      HasDerivAt (fun t => (segmentH cur (⟨0, 0, a⟩ : V3 ℝ) ⟨0, 0, b⟩ ⟨t, y, z⟩).x) dxx x ∧
      HasDerivAt (fun t => (segmentH cur (⟨0, 0, a⟩ : V3 ℝ) ⟨0, 0, b⟩ ⟨x, t, z⟩).y) dyy y ∧
      HasDerivAt (fun t => (segmentH cur (⟨0, 0, a⟩ : V3 ℝ) ⟨0, 0, b⟩ ⟨x, y, t⟩).z) dzz z ∧
      dxx + dyy + dzz = 0 :=
  SegBS.segment_canonical_divFree cur a b hab ⟨x, y, z⟩ hρ

/-- the same with Mathlib's `deriv` -/
theorem segment_div_free_canonical_deriv (cur a b : ℝ) (hab : a ≠ b) (x y z : ℝ) (hρ : 0 < x * x + y * y) :
    deriv (fun t => (segmentH cur (⟨0, 0, a⟩ : V3 ℝ) ⟨0, 0, b⟩ ⟨t, y, z⟩).x) x +
      deriv (fun t => (segmentH cur (⟨0, 0, a⟩ : V3 ℝ) ⟨0, 0, b⟩ ⟨x, t, z⟩).y) y +
      deriv (fun t => (segmentH cur (⟨0, 0, a⟩ : V3 ℝ) ⟨0, 0, b⟩ ⟨x, y, t⟩).z) z = 0 := by
  obtain ⟨d1, d2, d3, h1, h2, h3, h⟩ := segment_div_free_canonical cur a b hab x y z hρ
  rw [h1.deriv, h2.deriv, h3.deriv]
  exact h

/-- non-vacuity: unit current on the z-axis from −1 to 1, observer (1, 0, 0): the field there is
`(0, √2/(4π), 0) ≠ 0`, and the point is covered by the theorem -/
example : DivFreeAt (segmentH 1 (⟨0, 0, -1⟩ : V3 ℝ) ⟨0, 0, 1⟩) ⟨1, 0, 0⟩ :=
  segment_div_free_canonical 1 (-1) 1 (by norm_num) 1 0 0 (by norm_num)
example : (segmentH 1 (⟨0, 0, -1⟩ : V3 ℝ) ⟨0, 0, 1⟩ ⟨1, 0, 0⟩).y = √2 / (4 * Real.pi) := by
  rw [segmentH_canonical_eq 1 (-1) 1 1 0 0 (by norm_num) (by norm_num)]
  simp only [SegBS.segCanonG]
  have h2 : √2 ≠ 0 := (Real.sqrt_pos.mpr (by norm_num)).ne'
  have e1 : ((1 : ℝ) - 0) ^ 2 + (1 * 1 + 0 * 0) = 2 := by norm_num
  have e2 : ((-1 : ℝ) - 0) ^ 2 + (1 * 1 + 0 * 0) = 2 := by norm_num
  rw [e1, e2]
  have hs : √2 * √2 = 2 := Real.mul_self_sqrt (by norm_num)
  field_simp
  nlinarith [hs]

/-- the one-segment kernel depends on segment and observer only through their differences:
translating both by `d` does not change the field (observer off the carrier line) — with
`segment_div_free_canonical` this covers every segment parallel to the z-axis -/
theorem segment_translate (cur : ℝ) (p1 p2 po d : V3 ℝ)
    (hoff : 0 < SegBS.nsq (V3.cross (p2 - p1) (po - p1))) :
    segmentH cur (p1 + d) (p2 + d) (po + d) = segmentH cur p1 p2 po :=
  SegBS.segmentH_translate cur p1 p2 po d hoff

example : segmentH 1 ((⟨0, 0, -1⟩ : V3 ℝ) + ⟨5, 6, 7⟩) (⟨0, 0, 1⟩ + ⟨5, 6, 7⟩) (⟨1, 0, 0⟩ + ⟨5, 6, 7⟩) =
    segmentH 1 ⟨0, 0, -1⟩ ⟨0, 0, 1⟩ ⟨1, 0, 0⟩ :=
  segment_translate 1 _ _ _ _ (by simp [SegBS.nsq, V3.cross])

/-- C14 (straight segment, local form of the flux law), **arbitrary placement**: for every segment
`p1 → p2` and every observer off its carrier line (`|(p2 − p1) × (p − p1)|² > 0`, which also forces
`p1 ≠ p2`; these are exactly the rows that pass both masks of the Polyline wrapper, Props/C15
`polyline_masks_cover_singular`) the three partial derivatives ∂Hx/∂x, ∂Hy/∂y, ∂Hz/∂z of the model's
`segmentH` (`current_polyline_Hfield`, all three branches of its foot-point case split) exist and add up
to zero.  Proof: `H = I/(4π)·Φ(u, v)·(d × w)` with `d = p2 − p1`, `w = p − p1`, `u = w·d`, `v = |w|²`
(`SegBS.K_closed`); along each coordinate line the matching component of `d × w` is constant and
`∂Φ = Φ_u d_i + 2 Φ_v w_i`, hence div H = `I/(4π)·(Φ_u d + 2 Φ_v w)·(d × w) = 0`.
No statement about curl H: the field of an open finite segment is not curl-free. -/
theorem segment_div_free (cur : ℝ) (p1 p2 : V3 ℝ) (x y z : ℝ)
    (hoff : 0 < SegBS.nsq (V3.cross (p2 - p1) (⟨x, y, z⟩ - p1))) :
    ∃ dxx dyy dzz : ℝ,
      HasDerivAt (fun t => (segmentH cur p1 p2 ⟨t, y, z⟩).x) dxx x ∧
      HasDerivAt (fun t => (segmentH cur p1 p2 ⟨x, t, z⟩).y) dyy y ∧
      HasDerivAt (fun t => (segmentH cur p1 p2 ⟨x, y, t⟩).z) dzz z ∧
      dxx + dyy + dzz = 0 :=
  SegBS.segment_divFree cur p1 p2 ⟨x, y, z⟩ hoff

/-- div B = 0 for `q ↦ μ₀ · segmentH … q`, the UNMASKED kernel times μ₀.  (Audit: this is a statement about that lambda, not about
`bhjmSegment .B`: the wrapper agrees with it pointwise on rows that pass the masks (C15.polyline_masks_cover_singular), but
it is not differentiable across the relative-1e-15 on-line mask shell, so no div statement about the wrapper follows there.) -/
theorem segment_B_div_free (cur : ℝ) (p1 p2 p : V3 ℝ)
    (hoff : 0 < SegBS.nsq (V3.cross (p2 - p1) (p - p1))) :
    DivFreeAt (fun q => vs mu0R (segmentH cur p1 p2 q)) p := by
  obtain ⟨a, b, c, ha, hb, hc, h⟩ := SegBS.segment_divFree cur p1 p2 p hoff
  refine ⟨mu0R * a, mu0R * b, mu0R * c, ha.const_mul mu0R, hb.const_mul mu0R, hc.const_mul mu0R, ?_⟩
  rw [← mul_add, ← mul_add, h, mul_zero]

-- non-vacuity: a skew segment and an observer off its line
example : DivFreeAt (segmentH 2 (⟨1, 2, 3⟩ : V3 ℝ) ⟨-1, 0, 5⟩) ⟨4, 4, 4⟩ :=
  segment_div_free 2 _ _ 4 4 4 (by simp [SegBS.nsq, V3.cross]; norm_num)
example : DivFreeAt (fun q => vs mu0R (segmentH 2 (⟨1, 2, 3⟩ : V3 ℝ) ⟨-1, 0, 5⟩ q)) ⟨4, 4, 4⟩ :=
  segment_B_div_free 2 _ _ _ (by simp [SegBS.nsq, V3.cross]; norm_num)

/-! ### local forms of the two laws: Cuboid

`cuboidB` is the port of `magnet_cuboid_Bfield` (reflection into the bottom-Q4 octant, eight corner
distances, arctan2 sums, log differences, `qsigns`).  By C01 (`cuboid_is_coulomb_integral`) it equals,
on the open set off the six face planes, the six-face surface-charge field plus `J` inside; every face
field is a mixed second difference over the face's corners of `arctan(uv/(wr))`, `log(r − v)`,
`log(r − u)` (Lemmas/CuboidCoulomb.lean).  Lemmas/CuboidDiv.lean differentiates these corner
functions: corner by corner the divergence is `u/(u²+w²) + v/(v²+w²)` and the curl components are
`−w/(v²+w²)`, `w/(u²+w²)`, `0`, all annihilated by the second difference.  The arctan2 branch
corrections (±π) and the interior term are locally constant off the face planes. -/

open MagpyVerif.CuboidDiv in
/-- C14 (Cuboid, local form of the flux law).  For positive side lengths, every polarization and
every observer off the six (infinitely extended) face planes — strictly inside the magnet or anywhere
outside, in any octant — the three partial derivatives ∂Bx/∂x, ∂By/∂y, ∂Bz/∂z of the model of
`magnet_cuboid_Bfield` exist and add up to zero: div B = 0. -/
theorem cuboid_div_free (dim pol : V3 ℝ) (x y z : ℝ) (hdx : 0 < dim.x) (hdy : 0 < dim.y) (hdz : 0 < dim.z)
    (hx : |x| ≠ dim.x / 2) (hy : |y| ≠ dim.y / 2) (hz : |z| ≠ dim.z / 2) :
    ∃ dxx dyy dzz : ℝ,
      HasDerivAt (fun t => (cuboidB dim pol ⟨t, y, z⟩).x) dxx x ∧
      HasDerivAt (fun t => (cuboidB dim pol ⟨x, t, z⟩).y) dyy y ∧
      HasDerivAt (fun t => (cuboidB dim pol ⟨x, y, t⟩).z) dzz z ∧
      dxx + dyy + dzz = 0 :=
  (cuboidB_dcfree dim pol ⟨x, y, z⟩ hdx hdy hdz (offP_of_abs hdx hdy hdz hx hy hz)).divFreeAt

/-- the same with Mathlib's `deriv` -/
theorem cuboid_div_free_deriv (dim pol : V3 ℝ) (x y z : ℝ) (hdx : 0 < dim.x) (hdy : 0 < dim.y) (hdz : 0 < dim.z)
    (hx : |x| ≠ dim.x / 2) (hy : |y| ≠ dim.y / 2) (hz : |z| ≠ dim.z / 2) :
    deriv (fun t => (cuboidB dim pol ⟨t, y, z⟩).x) x + deriv (fun t => (cuboidB dim pol ⟨x, t, z⟩).y) y
      + deriv (fun t => (cuboidB dim pol ⟨x, y, t⟩).z) z = 0 := by
  obtain ⟨a, b, c, ha, hb, hc, h⟩ := cuboid_div_free dim pol x y z hdx hdy hdz hx hy hz
  rw [ha.deriv, hb.deriv, hc.deriv]
  exact h

-- non-vacuity: a 1×2×3 cuboid with a skew polarization; an observer that needs all three reflections
-- of the code (x<0, y>0, z>0), one in the bottom-Q4 octant itself, one on a coordinate plane, one inside
example : DivFreeAt (cuboidB (⟨1, 2, 3⟩ : V3 ℝ) ⟨1, -2, 3⟩) ⟨-3, 1 / 2, 5⟩ := by
  apply cuboid_div_free <;> norm_num [abs_of_pos, abs_of_neg]
example : DivFreeAt (cuboidB (⟨1, 2, 3⟩ : V3 ℝ) ⟨1, -2, 3⟩) ⟨3, -1 / 2, -5⟩ := by
  apply cuboid_div_free <;> norm_num [abs_of_pos, abs_of_neg]
example : DivFreeAt (cuboidB (⟨1, 2, 3⟩ : V3 ℝ) ⟨1, -2, 3⟩) ⟨0, 0, 4⟩ := by
  apply cuboid_div_free <;> norm_num [abs_of_pos, abs_of_neg]
example : DivFreeAt (cuboidB (⟨1, 2, 3⟩ : V3 ℝ) ⟨1, -2, 3⟩) ⟨1 / 4, 1 / 3, -1 / 4⟩ := by
  apply cuboid_div_free <;> norm_num [abs_of_pos, abs_of_neg]

open MagpyVerif.CuboidDiv in
/-- C14 (Cuboid): the full Jacobian.  Off the six face planes the model of `magnet_cuboid_Bfield` has all
nine partial derivatives, given by `coulombJac`: the sum over the six faces, weighted with the surface
charge `±J·n`, of the mixed second differences over the face corners of the derivatives of
`arctan(uv/(wr))`, `log(r − v)`, `log(r − u)` (`rectJac`; `Lu … Nw` of Lemmas/CuboidDiv.lean).  Its
trace and its antisymmetric part vanish. -/
theorem cuboid_partials (dim pol p : V3 ℝ) (hdx : 0 < dim.x) (hdy : 0 < dim.y) (hdz : 0 < dim.z)
    (hx : |p.x| ≠ dim.x / 2) (hy : |p.y| ≠ dim.y / 2) (hz : |p.z| ≠ dim.z / 2) :
    HasPartials (cuboidB dim pol) p (coulombJac dim pol p) ∧ jacDiv (coulombJac dim pol p) = 0 ∧
      jacCurl (coulombJac dim pol p) = ⟨0, 0, 0⟩ :=
  ⟨cuboidB_hasPartials dim pol p hdx hdy hdz (offP_of_abs hdx hdy hdz hx hy hz), coulombJac_div dim pol p,
    coulombJac_curl dim pol p⟩

open MagpyVerif.CuboidDiv MagpyVerif.RectCharge in
/-- non-vacuity: the vanishing of the divergence is not trivial — for the 2×2×2 cube polarized along z
the single partial ∂Bz/∂z on the axis at (0,0,3) is `(8/(17√18) − 8/(5√6))/(4π) < 0` -/
example : HasDerivAt (fun t => (cuboidB (⟨2, 2, 2⟩ : V3 ℝ) ⟨0, 0, 1⟩ ⟨0, 0, t⟩).z)
    (coulombJac (⟨2, 2, 2⟩ : V3 ℝ) ⟨0, 0, 1⟩ ⟨0, 0, 3⟩).r3.z 3 ∧
    (coulombJac (⟨2, 2, 2⟩ : V3 ℝ) ⟨0, 0, 1⟩ ⟨0, 0, 3⟩).r3.z < 0 := by
  refine ⟨(cuboid_partials (⟨2, 2, 2⟩ : V3 ℝ) ⟨0, 0, 1⟩ ⟨0, 0, 3⟩ (by norm_num) (by norm_num) (by norm_num)
    (by norm_num) (by norm_num) (by norm_num [abs_of_pos])).1.zz, ?_⟩
  have e1 : ∀ u v w : ℝ, rr (-u) v w = rr u v w := by intro u v w; unfold rr; rw [neg_sq]
  have e2 : ∀ u v w : ℝ, rr u (-v) w = rr u v w := by intro u v w; unfold rr; rw [neg_sq]
  have ha := rr_pos (show (2 : ℝ) ≠ 0 by norm_num) 1 1
  have hb := rr_pos (show (4 : ℝ) ≠ 0 by norm_num) 1 1
  have ha2 := rr_sq 1 1 2
  have hb2 := rr_sq 1 1 4
  simp only [coulombJac, jacScale, jacAdd, jacCyc, jacSwp, rectJac, vs, V3.add_z, d2, Nw, Nu, Nv, Lw, Mw]
  norm_num
  simp only [e1, e2]
  generalize rr 1 1 2 = a at *
  generalize rr 1 1 4 = b at *
  have hab : a < b := by nlinarith
  have hinv : b⁻¹ < a⁻¹ := (inv_lt_inv₀ hb ha).mpr hab
  have hbi : 0 < b⁻¹ := inv_pos.mpr hb
  apply mul_neg_of_pos_of_neg (by positivity)
  have : (-1 : ℝ) / (5 * a) = -(1 / 5) * a⁻¹ := by field_simp
  have : (-1 : ℝ) / (17 * b) = -(1 / 17) * b⁻¹ := by field_simp
  simp only [*]
  nlinarith

open MagpyVerif.CuboidDiv MagpyVerif.CuboidCoulomb in
/-- C14 (Cuboid, local form of Ampère's law without currents).  H = (B − J·1_inside)/μ₀, with B the
model of `magnet_cuboid_Bfield` and the geometric interior as the inside mask, has at every observer
off the six face planes (inside and outside) all six mixed partial derivatives, and
∂Hz/∂y − ∂Hy/∂z = 0, ∂Hx/∂z − ∂Hz/∂x = 0, ∂Hy/∂x − ∂Hx/∂y = 0. -/
theorem cuboid_H_curl_free (dim pol p : V3 ℝ) (hdx : 0 < dim.x) (hdy : 0 < dim.y) (hdz : 0 < dim.z)
    (hx : |p.x| ≠ dim.x / 2) (hy : |p.y| ≠ dim.y / 2) (hz : |p.z| ≠ dim.z / 2) :
    CurlFreeAt (fun q => vd (cuboidB dim pol q -
      (if |q.x| < dim.x / 2 ∧ |q.y| < dim.y / 2 ∧ |q.z| < dim.z / 2 then pol else ⟨0, 0, 0⟩)) mu0R) p :=
  (cuboidHfield_dcfree dim pol p hdx hdy hdz (offP_of_abs hdx hdy hdz hx hy hz)).curlFreeAt

open MagpyVerif.CuboidDiv MagpyVerif.CuboidCoulomb in
/-- C14 (Cuboid): off the six face planes all four local laws hold — div B = 0, curl H = 0 and also
div H = 0, curl B = 0 (there are neither magnetic charges nor currents off the surface; the
polarization is constant inside). -/
theorem cuboid_div_curl_free (dim pol p : V3 ℝ) (hdx : 0 < dim.x) (hdy : 0 < dim.y) (hdz : 0 < dim.z)
    (hx : |p.x| ≠ dim.x / 2) (hy : |p.y| ≠ dim.y / 2) (hz : |p.z| ≠ dim.z / 2) :
    DivFreeAt (cuboidB dim pol) p ∧ CurlFreeAt (cuboidHfield dim pol) p ∧
    DivFreeAt (cuboidHfield dim pol) p ∧ CurlFreeAt (cuboidB dim pol) p :=
  have hoff := offP_of_abs hdx hdy hdz hx hy hz
  ⟨(cuboidB_dcfree dim pol p hdx hdy hdz hoff).divFreeAt, (cuboidHfield_dcfree dim pol p hdx hdy hdz hoff).curlFreeAt,
   (cuboidHfield_dcfree dim pol p hdx hdy hdz hoff).divFreeAt, (cuboidB_dcfree dim pol p hdx hdy hdz hoff).curlFreeAt⟩

open MagpyVerif.CuboidDiv in
/-- outside the magnet, where H = B/μ₀: curl (B/μ₀) = 0 -/
theorem cuboid_curl_free_outside (dim pol p : V3 ℝ) (hdx : 0 < dim.x) (hdy : 0 < dim.y) (hdz : 0 < dim.z)
    (hx : |p.x| ≠ dim.x / 2) (hy : |p.y| ≠ dim.y / 2) (hz : |p.z| ≠ dim.z / 2) :
    CurlFreeAt (fun q => vd (cuboidB dim pol q) mu0R) p :=
  ((cuboidB_dcfree dim pol p hdx hdy hdz (offP_of_abs hdx hdy hdz hx hy hz)).vd mu0R).curlFreeAt

-- non-vacuity: outside in a reflected octant, and strictly inside
example : CurlFreeAt (fun q => vd (cuboidB (⟨1, 2, 3⟩ : V3 ℝ) ⟨1, -2, 3⟩ q -
    (if |q.x| < (1 : ℝ) / 2 ∧ |q.y| < (2 : ℝ) / 2 ∧ |q.z| < (3 : ℝ) / 2 then ⟨1, -2, 3⟩ else ⟨0, 0, 0⟩)) mu0R)
    ⟨-3, 1 / 2, 5⟩ := by
  apply cuboid_H_curl_free (⟨1, 2, 3⟩ : V3 ℝ) <;> norm_num [abs_of_pos, abs_of_neg]
example : CurlFreeAt (fun q => vd (cuboidB (⟨1, 2, 3⟩ : V3 ℝ) ⟨1, -2, 3⟩ q -
    (if |q.x| < (1 : ℝ) / 2 ∧ |q.y| < (2 : ℝ) / 2 ∧ |q.z| < (3 : ℝ) / 2 then ⟨1, -2, 3⟩ else ⟨0, 0, 0⟩)) mu0R)
    ⟨1 / 4, 1 / 3, -1 / 4⟩ := by
  apply cuboid_H_curl_free (⟨1, 2, 3⟩ : V3 ℝ) <;> norm_num [abs_of_pos, abs_of_neg]

open MagpyVerif.CuboidDiv MagpyVerif.CuboidCoulomb in
/-- C14 (Cuboid wrapper, the `BHJM_magnet_cuboid` row).  For positive side lengths, **every**
polarization (zero included) and every observer strictly outside the three thin shells
`| |p_i| − dim_i/2 | ≤ 1e-15·dim_i/2` in which the wrapper switches to its surface / edge special
cases: what the wrapper returns for `field="B"` is divergence-free and what it returns for
`field="H"` is curl-free there (masks, general branch, closed form and the subtraction of `J` under the
tolerance-based inside mask included); also div H = 0 and curl B = 0.  The shell hypotheses are strict
because at `|p_i| − dim_i/2 = +1e-15·dim_i/2` exactly the inside mask of the code flips and H jumps. -/
theorem cuboid_wrapper_div_curl_free (dim pol p : V3 ℝ) (hdx : 0 < dim.x) (hdy : 0 < dim.y) (hdz : 0 < dim.z)
    (hx : rtol * (dim.x / 2) < |(|p.x| - dim.x / 2)|) (hy : rtol * (dim.y / 2) < |(|p.y| - dim.y / 2)|)
    (hz : rtol * (dim.z / 2) < |(|p.z| - dim.z / 2)|) :
    DivFreeAt (bhjmCuboid .B dim pol) p ∧ CurlFreeAt (bhjmCuboid .H dim pol) p ∧
    DivFreeAt (bhjmCuboid .H dim pol) p ∧ CurlFreeAt (bhjmCuboid .B dim pol) p := by
  have hs : ShellOut dim p := ⟨hx, hy, hz⟩
  have hoff := hs.offP hdx hdy hdz
  have hG := coulombG_dcfree dim pol p hoff
  have hB : DCFree (bhjmCuboid .B dim pol) p := by
    refine (hG.add_const (if insideP dim p then pol else ⟨0, 0, 0⟩)).congr_goodS hoff hs ?_
    intro q hq
    obtain ⟨hsq, hoq, hin⟩ := hq
    rw [(C01.cuboid_wrapper_is_coulomb_integral dim pol q hdx hdy hdz hsq.1.le hsq.2.1.le hsq.2.2.le).2,
      coulombB_eq_G dim pol q hoq]
    by_cases hi : insideP dim p
    · have hq' : |q.x| < dim.x / 2 ∧ |q.y| < dim.y / 2 ∧ |q.z| < dim.z / 2 := hin.mpr hi
      rw [if_pos hi, if_pos hq']
    · have hq' : ¬ (|q.x| < dim.x / 2 ∧ |q.y| < dim.y / 2 ∧ |q.z| < dim.z / 2) := fun h => hi (hin.mp h)
      rw [if_neg hi, if_neg hq']
  have hH : DCFree (bhjmCuboid .H dim pol) p := by
    refine (hG.vd mu0R).congr_goodS hoff hs ?_
    intro q hq
    obtain ⟨hsq, hoq, -⟩ := hq
    rw [(C01.cuboid_wrapper_is_coulomb_integral dim pol q hdx hdy hdz hsq.1.le hsq.2.1.le hsq.2.2.le).1,
      coulombB_eq_G dim pol q hoq]
  exact ⟨hB.divFreeAt, hH.curlFreeAt, hH.divFreeAt, hB.curlFreeAt⟩

-- non-vacuity: the shell hypotheses hold far outside, in another octant, and strictly inside
open MagpyVerif.CuboidCoulomb in
example : DivFreeAt (bhjmCuboid .B (⟨1, 2, 3⟩ : V3 ℝ) ⟨1, -2, 3⟩) ⟨-3, 1 / 2, 5⟩ ∧
    CurlFreeAt (bhjmCuboid .H (⟨1, 2, 3⟩ : V3 ℝ) ⟨1, -2, 3⟩) ⟨-3, 1 / 2, 5⟩ := by
  have h := cuboid_wrapper_div_curl_free (⟨1, 2, 3⟩ : V3 ℝ) ⟨1, -2, 3⟩ ⟨-3, 1 / 2, 5⟩
    (by norm_num) (by norm_num) (by norm_num)
    (by unfold rtol; norm_num [abs_of_pos, abs_of_neg]) (by unfold rtol; norm_num [abs_of_pos, abs_of_neg])
    (by unfold rtol; norm_num [abs_of_pos, abs_of_neg])
  exact ⟨h.1, h.2.1⟩
open MagpyVerif.CuboidCoulomb in
example : DivFreeAt (bhjmCuboid .B (⟨1, 2, 3⟩ : V3 ℝ) ⟨1, -2, 3⟩) ⟨1 / 4, 1 / 3, -1 / 4⟩ ∧
    CurlFreeAt (bhjmCuboid .H (⟨1, 2, 3⟩ : V3 ℝ) ⟨1, -2, 3⟩) ⟨1 / 4, 1 / 3, -1 / 4⟩ := by
  have h := cuboid_wrapper_div_curl_free (⟨1, 2, 3⟩ : V3 ℝ) ⟨1, -2, 3⟩ ⟨1 / 4, 1 / 3, -1 / 4⟩
    (by norm_num) (by norm_num) (by norm_num)
    (by unfold rtol; norm_num [abs_of_pos, abs_of_neg]) (by unfold rtol; norm_num [abs_of_pos, abs_of_neg])
    (by unfold rtol; norm_num [abs_of_pos, abs_of_neg])
  exact ⟨h.1, h.2.1⟩

/-! ### INTEGRAL forms: flux through axis-aligned boxes, circulation around axis-aligned rectangles

Lemmas/BoxLaws.lean derives, for fields `V3 ℝ → V3 ℝ`, Gauss's theorem for a closed box and
Green/Stokes's theorem for a rectangle in a coordinate plane from the pointwise forms above: the
one-dimensional fundamental theorem of calculus along one coordinate under the integrals over the
others, Fubini for continuous functions, additivity (`gauss_box`, `green_rect`).  Needed on the closed
box / rectangle: existence of the relevant partial derivatives (as in `DivFreeAt` / `CurlFreeAt`) and their
continuity there.  `boxFlux` pairs opposite faces under one integral; `boxFlux6` is the sum of the six
face integrals (equal when the normal components are continuous on the faces, `boxFlux6_eq_boxFlux`);
likewise `rectCircZ/X/Y` and the four-line-integral forms `rectCircZ4/X4/Y4`. -/

section integral_laws
open MagpyVerif.BoxLaws Set

/-- C14, generic Gauss theorem for boxes (restated from Lemmas/BoxLaws.lean so that it is audited here) -/
theorem box_flux_zero_of_div_free (F : V3 ℝ → V3 ℝ) (a b : V3 ℝ) (hx : a.x ≤ b.x) (hy : a.y ≤ b.y) (hz : a.z ≤ b.z)
    (Dx Dy Dz : V3 ℝ → ℝ)
    (hDx : ∀ p, InBox a b p → HasDerivAt (fun t => (F ⟨t, p.y, p.z⟩).x) (Dx p) p.x)
    (hDy : ∀ p, InBox a b p → HasDerivAt (fun t => (F ⟨p.x, t, p.z⟩).y) (Dy p) p.y)
    (hDz : ∀ p, InBox a b p → HasDerivAt (fun t => (F ⟨p.x, p.y, t⟩).z) (Dz p) p.z)
    (cx : ContOnBox Dx a b) (cy : ContOnBox Dy a b) (cz : ContOnBox Dz a b)
    (hdiv : ∀ p, InBox a b p → Dx p + Dy p + Dz p = 0) :
    (∫ y in a.y..b.y, ∫ z in a.z..b.z, ((F ⟨b.x, y, z⟩).x - (F ⟨a.x, y, z⟩).x)) +
    (∫ x in a.x..b.x, ∫ z in a.z..b.z, ((F ⟨x, b.y, z⟩).y - (F ⟨x, a.y, z⟩).y)) +
    (∫ x in a.x..b.x, ∫ y in a.y..b.y, ((F ⟨x, y, b.z⟩).z - (F ⟨x, y, a.z⟩).z)) = 0 :=
  BoxLaws.box_flux_zero_of_div_free F a b hx hy hz Dx Dy Dz hDx hDy hDz cx cy cz hdiv

/-- C14, generic Green/Stokes theorem for a rectangle in a plane `z = c` (planes `x = c`, `y = c`:
`BoxLaws.rect_circulation_zero_of_curl_free_x/_y`; all three from a Jacobian field:
`BoxLaws.rect_circulation_zero_of_hasPartials`) -/
theorem rect_circulation_zero_of_curl_free (F : V3 ℝ → V3 ℝ) (a b : V3 ℝ) (c : ℝ) (hx : a.x ≤ b.x) (hy : a.y ≤ b.y)
    (Dyx Dxy : ℝ → ℝ → ℝ)
    (hyx : ∀ x ∈ Icc a.x b.x, ∀ y ∈ Icc a.y b.y, HasDerivAt (fun t => (F ⟨t, y, c⟩).y) (Dyx x y) x)
    (hxy : ∀ x ∈ Icc a.x b.x, ∀ y ∈ Icc a.y b.y, HasDerivAt (fun t => (F ⟨x, t, c⟩).x) (Dxy x y) y)
    (cyx : ContinuousOn (fun q : ℝ × ℝ => Dyx q.1 q.2) (Icc a.x b.x ×ˢ Icc a.y b.y))
    (cxy : ContinuousOn (fun q : ℝ × ℝ => Dxy q.1 q.2) (Icc a.x b.x ×ˢ Icc a.y b.y))
    (hcurl : ∀ x ∈ Icc a.x b.x, ∀ y ∈ Icc a.y b.y, Dyx x y - Dxy x y = 0) :
    (∫ y in a.y..b.y, ((F ⟨b.x, y, c⟩).y - (F ⟨a.x, y, c⟩).y)) -
      ∫ x in a.x..b.x, ((F ⟨x, b.y, c⟩).x - (F ⟨x, a.y, c⟩).x) = 0 :=
  BoxLaws.rect_circulation_zero_of_curl_free F a b c hx hy Dyx Dxy hyx hxy cyx cxy hcurl

/-- **C14 (Dipole, flux law in integral form).**  For every moment `m` and every closed axis-aligned box
`[a, b]` that does not contain the dipole position (the origin), the outward flux of what `BHJM_dipole`
returns for `field="B"` through the boundary of the box is zero — both with opposite faces paired
(`boxFlux`) and as the sum of the six face integrals `∫∫ B·n dA` (`boxFlux6`). -/
theorem dipole_box_flux_zero (m a b : V3 ℝ) (hx : a.x ≤ b.x) (hy : a.y ≤ b.y) (hz : a.z ≤ b.z)
    (h0 : ¬ (0 ∈ Icc a.x b.x ∧ 0 ∈ Icc a.y b.y ∧ 0 ∈ Icc a.z b.z)) :
    boxFlux (bhjmDipole .B m) a b = 0 ∧ boxFlux6 (bhjmDipole .B m) a b = 0 := by
  have h0' : ¬ InBox a b ⟨0, 0, 0⟩ := h0
  have hc := contOnBox_dipoleJac m a b mu0R h0'
  have h : boxFlux (bhjmDipole .B m) a b = 0 := by
    refine box_flux_zero_of_hasPartials (bhjmDipole .B m) a b hx hy hz (fun p => jacScale mu0R (dipoleJac m p))
      (fun p hp => (dipoleH_hasPartials m p (norm_ne_zero_of_inBox h0' hp)).const_smul mu0R) hc.1.1 hc.2.1.2.1 hc.2.2.2.2
      (fun p hp => ?_)
    rw [jacDiv_scale, dipoleJac_div m p (norm_ne_zero_of_inBox h0' hp), mul_zero]
  exact ⟨h, (boxFlux6_eq_boxFlux _ a b hx hy hz (faceCont_dipole m a b mu0R hx hy hz h0')).trans h⟩

/-- **C14 (Dipole, Ampère's law without currents in integral form).**  Take a closed axis-aligned box
`[a, b]` that does not contain the origin (it may be flat: `a.z = b.z`).  Then the circulation `∮ H·dl` of
what `BHJM_dipole` returns for `field="H"` around every axis-aligned rectangle cut out of the box by a
coordinate plane — `[a.x,b.x]×[a.y,b.y]` at height `z = c ∈ [a.z,b.z]`, and the same in planes `x = c`,
`y = c` — is zero, in the paired form and as the sum of the four line integrals.  For a single rectangle
in the plane `z = c` whose filled rectangle avoids the origin: `dipole_rect_circulation_zero_z`. -/
theorem dipole_rect_circulation_zero (m a b : V3 ℝ) (hx : a.x ≤ b.x) (hy : a.y ≤ b.y) (hz : a.z ≤ b.z)
    (h0 : ¬ (0 ∈ Icc a.x b.x ∧ 0 ∈ Icc a.y b.y ∧ 0 ∈ Icc a.z b.z)) :
    (∀ c ∈ Icc a.z b.z, rectCircZ (bhjmDipole .H m) a b c = 0 ∧ rectCircZ4 (bhjmDipole .H m) a b c = 0) ∧
    (∀ c ∈ Icc a.x b.x, rectCircX (bhjmDipole .H m) a b c = 0 ∧ rectCircX4 (bhjmDipole .H m) a b c = 0) ∧
    (∀ c ∈ Icc a.y b.y, rectCircY (bhjmDipole .H m) a b c = 0 ∧ rectCircY4 (bhjmDipole .H m) a b c = 0) := by
  have h0' : ¬ InBox a b ⟨0, 0, 0⟩ := h0
  have hc := contOnBox_dipoleJac m a b 1 h0'
  have hJ : ∀ p, InBox a b p → HasPartials (bhjmDipole .H m) p (jacScale 1 (dipoleJac m p)) := by
    intro p hp
    have h := (dipoleH_hasPartials m p (norm_ne_zero_of_inBox h0' hp)).const_smul 1
    refine h.congr_of_eventuallyEq ?_ ?_ ?_ <;>
      exact Filter.Eventually.of_forall fun t => by
        show dipoleH m _ = vs 1 (dipoleH m _)
        apply V3.ext' <;> simp [vs]
  have h := rect_circulation_zero_of_hasPartials (bhjmDipole .H m) a b hx hy hz _ hJ hc.1.2.1 hc.1.2.2 hc.2.1.1
    hc.2.1.2.2 hc.2.2.1 hc.2.2.2.1 (fun p _ => by rw [jacCurl_scale, dipoleJac_curl]; simp [vs])
  have h4 := dipoleH_rectCirc4_eq m a b hx hy hz h0'
  exact ⟨fun c hc' => ⟨h.1 c hc', (h4.1 c hc').trans (h.1 c hc')⟩,
    fun c hc' => ⟨h.2.1 c hc', (h4.2.1 c hc').trans (h.2.1 c hc')⟩,
    fun c hc' => ⟨h.2.2 c hc', (h4.2.2 c hc').trans (h.2.2 c hc')⟩⟩

/-- one rectangle `[a.x,b.x]×[a.y,b.y]` in the plane `z = c`, the filled rectangle avoiding the origin:
`∮ H·dl = 0`, written out as the four line integrals along its sides -/
theorem dipole_rect_circulation_zero_z (m : V3 ℝ) (ax bx ay by' c : ℝ) (hx : ax ≤ bx) (hy : ay ≤ by')
    (h0 : ¬ (0 ∈ Icc ax bx ∧ 0 ∈ Icc ay by' ∧ c = 0)) :
    (∫ x in ax..bx, (bhjmDipole .H m ⟨x, ay, c⟩).x) + (∫ y in ay..by', (bhjmDipole .H m ⟨bx, y, c⟩).y) +
      (∫ x in bx..ax, (bhjmDipole .H m ⟨x, by', c⟩).x) + ∫ y in by'..ay, (bhjmDipole .H m ⟨ax, y, c⟩).y = 0 :=
  ((dipole_rect_circulation_zero m ⟨ax, ay, c⟩ ⟨bx, by', c⟩ hx hy le_rfl
    (fun h => h0 ⟨h.1, h.2.1, le_antisymm h.2.2.1 h.2.2.2⟩)).1 c ⟨le_rfl, le_rfl⟩).2

-- non-vacuity: the box [1,2]×[-1,1]×[-1,1] next to the dipole; a flat rectangle through z = 0 beside it;
-- a rectangle in the plane z = 1 ABOVE the dipole whose projection contains the origin
example (m : V3 ℝ) : boxFlux6 (bhjmDipole .B m) ⟨1, -1, -1⟩ ⟨2, 1, 1⟩ = 0 :=
  (dipole_box_flux_zero m ⟨1, -1, -1⟩ ⟨2, 1, 1⟩ (by norm_num) (by norm_num) (by norm_num)
    (by simp only [mem_Icc]; norm_num)).2
example (m : V3 ℝ) : rectCircZ4 (bhjmDipole .H m) ⟨1, -1, 0⟩ ⟨2, 1, 0⟩ 0 = 0 :=
  ((dipole_rect_circulation_zero m ⟨1, -1, 0⟩ ⟨2, 1, 0⟩ (by norm_num) (by norm_num) (by norm_num)
    (by simp only [mem_Icc]; norm_num)).1 0 (by simp)).2
example (m : V3 ℝ) :
    (∫ x in (-1 : ℝ)..1, (bhjmDipole .H m ⟨x, -1, 1⟩).x) + (∫ y in (-1 : ℝ)..1, (bhjmDipole .H m ⟨1, y, 1⟩).y) +
      (∫ x in (1 : ℝ)..(-1), (bhjmDipole .H m ⟨x, 1, 1⟩).x) + ∫ y in (1 : ℝ)..(-1), (bhjmDipole .H m ⟨-1, y, 1⟩).y = 0 :=
  dipole_rect_circulation_zero_z m (-1) 1 (-1) 1 1 (by norm_num) (by norm_num) (by norm_num)

/-! #### Cuboid: boxes and rectangles inside one of the 27 cells cut out by the six face planes -/

open MagpyVerif.CuboidDiv MagpyVerif.CuboidCoulomb

/-- **C14 (Cuboid closed form, flux law in integral form).**  For positive side lengths, every
polarization and every closed axis-aligned box `[a, b]` that meets none of the six (infinitely extended)
face planes `p_i = ±dim_i/2` — such a box lies strictly inside the magnet or in one of the 26 outside
cells — the outward flux of the model of `magnet_cuboid_Bfield` through the boundary of the box is zero
(paired form and sum of the six face integrals).  Inside the magnet this is the statement that `B`
(not `H`) is solenoidal there. -/
theorem cuboid_box_flux_zero (dim pol a b : V3 ℝ) (hdx : 0 < dim.x) (hdy : 0 < dim.y) (hdz : 0 < dim.z)
    (hx : a.x ≤ b.x) (hy : a.y ≤ b.y) (hz : a.z ≤ b.z) (hcell : CellBox dim a b) :
    boxFlux (cuboidB dim pol) a b = 0 ∧ boxFlux6 (cuboidB dim pol) a b = 0 := by
  have hc := jacCont_coulombJac_box dim pol hcell 1
  have h : boxFlux (cuboidB dim pol) a b = 0 := by
    refine box_flux_zero_of_hasPartials (cuboidB dim pol) a b hx hy hz (fun p => jacScale 1 (coulombJac dim pol p))
      (fun p hp => ?_) hc.c11 hc.c22 hc.c33 (fun p _ => by rw [jacDiv_scale, coulombJac_div, mul_zero])
    have e : jacScale 1 (coulombJac dim pol p) = coulombJac dim pol p := by
      simp only [jacScale, vs, one_mul]
    rw [e]
    exact cuboidB_hasPartials dim pol p hdx hdy hdz (hcell.offP hp)
  exact ⟨h, (boxFlux6_eq_boxFlux _ a b hx hy hz
    ((fieldCont_cuboidB_box dim pol hcell hdx hdy hdz hx hy hz).faceCont hx hy hz)).trans h⟩

/-- **C14 (Cuboid closed form, Ampère's law without currents in integral form).**  `H = (B − J·1_inside)/μ₀`
(`cuboidHfield`): for every closed box `[a, b]` (possibly flat) that meets none of the six face planes, the
circulation of `H` around every axis-aligned rectangle cut out of the box by a coordinate plane is zero
(paired form and sum of the four line integrals `∮ H·dl`). -/
theorem cuboid_rect_circulation_zero (dim pol a b : V3 ℝ) (hdx : 0 < dim.x) (hdy : 0 < dim.y) (hdz : 0 < dim.z)
    (hx : a.x ≤ b.x) (hy : a.y ≤ b.y) (hz : a.z ≤ b.z) (hcell : CellBox dim a b) :
    (∀ c ∈ Icc a.z b.z, rectCircZ (cuboidHfield dim pol) a b c = 0 ∧ rectCircZ4 (cuboidHfield dim pol) a b c = 0) ∧
    (∀ c ∈ Icc a.x b.x, rectCircX (cuboidHfield dim pol) a b c = 0 ∧ rectCircX4 (cuboidHfield dim pol) a b c = 0) ∧
    (∀ c ∈ Icc a.y b.y, rectCircY (cuboidHfield dim pol) a b c = 0 ∧ rectCircY4 (cuboidHfield dim pol) a b c = 0) := by
  have hc := jacCont_coulombJac_box dim pol hcell (1 / mu0R)
  have h := rect_circulation_zero_of_hasPartials (cuboidHfield dim pol) a b hx hy hz
    (fun p => jacScale (1 / mu0R) (coulombJac dim pol p))
    (fun p hp => cuboidHfield_hasPartials dim pol p hdx hdy hdz (hcell.offP hp))
    hc.c12 hc.c13 hc.c21 hc.c23 hc.c31 hc.c32 (fun p _ => jacCurl_scale_zero (coulombJac_curl dim pol p))
  have h4 := (fieldCont_cuboidH_box dim pol hcell hdx hdy hdz).rectCirc4_eq hx hy hz
  exact ⟨fun c hc' => ⟨h.1 c hc', (h4.1 c hc').trans (h.1 c hc')⟩,
    fun c hc' => ⟨h.2.1 c hc', (h4.2.1 c hc').trans (h.2.1 c hc')⟩,
    fun c hc' => ⟨h.2.2 c hc', (h4.2.2 c hc').trans (h.2.2 c hc')⟩⟩

/-- outside the shells the wrapper `BHJM_magnet_cuboid` returns the closed form: `B = cuboidB`,
`H = (cuboidB − J·1_inside)/μ₀` (masks, general branch, tolerance-based inside mask included) -/
theorem bhjmCuboid_eq_closed_form (dim pol p : V3 ℝ) (hdx : 0 < dim.x) (hdy : 0 < dim.y) (hdz : 0 < dim.z)
    (hx : rtol * (dim.x / 2) ≤ |(|p.x| - dim.x / 2)|) (hy : rtol * (dim.y / 2) ≤ |(|p.y| - dim.y / 2)|)
    (hz : rtol * (dim.z / 2) ≤ |(|p.z| - dim.z / 2)|) :
    bhjmCuboid .B dim pol p = cuboidB dim pol p ∧ bhjmCuboid .H dim pol p = cuboidHfield dim pol p := by
  obtain ⟨hH, hB⟩ := C01.cuboid_wrapper_is_coulomb_integral dim pol p hdx hdy hdz hx hy hz
  have hoff : OffP dim p := offP_of_abs hdx hdy hdz (shell_clear (half_pos hdx) hx).2.2
    (shell_clear (half_pos hdy) hy).2.2 (shell_clear (half_pos hdz) hz).2.2
  constructor
  · rw [hB, cuboidB_eq_coulomb dim pol p hdx hdy hdz hoff.1.1 hoff.1.2 hoff.2.1.1 hoff.2.1.2 hoff.2.2.1 hoff.2.2.2]
    rfl
  · rw [hH, cuboidHfield_eq dim pol p hdx hdy hdz hoff, coulombB_eq_G dim pol p hoff]

/-- **C14 (Cuboid wrapper, the `BHJM_magnet_cuboid` row, both laws in integral form).**  For positive side
lengths, every polarization and every closed axis-aligned box `[a, b]` that stays out of the six thin open
shells `| |p_i| − dim_i/2 | < 1e-15·dim_i/2` (`ShellBox`: six comparisons of the box's end points): the
outward flux of what the wrapper returns for `field="B"` through the boundary of the box is zero, and the
circulation of what it returns for `field="H"` around every axis-aligned rectangle cut out of the box
(which may be flat) by a coordinate plane is zero. -/
theorem cuboid_wrapper_box_laws (dim pol a b : V3 ℝ) (hdx : 0 < dim.x) (hdy : 0 < dim.y) (hdz : 0 < dim.z)
    (hx : a.x ≤ b.x) (hy : a.y ≤ b.y) (hz : a.z ≤ b.z) (hs : ShellBox dim a b) :
    (boxFlux (bhjmCuboid .B dim pol) a b = 0 ∧ boxFlux6 (bhjmCuboid .B dim pol) a b = 0) ∧
    (∀ c ∈ Icc a.z b.z, rectCircZ (bhjmCuboid .H dim pol) a b c = 0 ∧ rectCircZ4 (bhjmCuboid .H dim pol) a b c = 0) ∧
    (∀ c ∈ Icc a.x b.x, rectCircX (bhjmCuboid .H dim pol) a b c = 0 ∧ rectCircX4 (bhjmCuboid .H dim pol) a b c = 0) ∧
    (∀ c ∈ Icc a.y b.y, rectCircY (bhjmCuboid .H dim pol) a b c = 0 ∧ rectCircY4 (bhjmCuboid .H dim pol) a b c = 0) := by
  have hcell := hs.cellBox hdx hdy hdz
  have eB : ∀ p, InBox a b p → bhjmCuboid .B dim pol p = cuboidB dim pol p := fun p hp =>
    (bhjmCuboid_eq_closed_form dim pol p hdx hdy hdz (hs.clear hp).1 (hs.clear hp).2.1 (hs.clear hp).2.2).1
  have eH : ∀ p, InBox a b p → bhjmCuboid .H dim pol p = cuboidHfield dim pol p := fun p hp =>
    (bhjmCuboid_eq_closed_form dim pol p hdx hdy hdz (hs.clear hp).1 (hs.clear hp).2.1 (hs.clear hp).2.2).2
  have hF := cuboid_box_flux_zero dim pol a b hdx hdy hdz hx hy hz hcell
  have hC := cuboid_rect_circulation_zero dim pol a b hdx hdy hdz hx hy hz hcell
  have cg := rectCirc_congr hx hy hz eH
  refine ⟨⟨(boxFlux_congr hx hy hz eB).trans hF.1, (boxFlux6_congr hx hy hz eB).trans hF.2⟩,
    fun c hc => ⟨((cg.1 c hc).1).trans (hC.1 c hc).1, ((cg.1 c hc).2).trans (hC.1 c hc).2⟩,
    fun c hc => ⟨((cg.2.1 c hc).1).trans (hC.2.1 c hc).1, ((cg.2.1 c hc).2).trans (hC.2.1 c hc).2⟩,
    fun c hc => ⟨((cg.2.2 c hc).1).trans (hC.2.2 c hc).1, ((cg.2.2 c hc).2).trans (hC.2.2 c hc).2⟩⟩

-- non-vacuity (1×2×3 cuboid, skew polarization): a box strictly INSIDE the magnet, a box in the outside cell
-- above the top face whose projection lies inside the face, a box in a corner cell, and a flat rectangle in
-- the plane z = 0 inside the magnet
example : boxFlux6 (cuboidB (⟨1, 2, 3⟩ : V3 ℝ) ⟨1, -2, 3⟩) ⟨-1 / 4, -1 / 2, -1⟩ ⟨1 / 4, 1 / 2, 1⟩ = 0 :=
  (cuboid_box_flux_zero _ _ _ _ (by norm_num) (by norm_num) (by norm_num) (by norm_num) (by norm_num) (by norm_num)
    (by simp only [CellBox, mem_Icc]; norm_num)).2
example : boxFlux6 (cuboidB (⟨1, 2, 3⟩ : V3 ℝ) ⟨1, -2, 3⟩) ⟨-1 / 4, -1 / 2, 2⟩ ⟨1 / 4, 1 / 2, 3⟩ = 0 :=
  (cuboid_box_flux_zero _ _ _ _ (by norm_num) (by norm_num) (by norm_num) (by norm_num) (by norm_num) (by norm_num)
    (by simp only [CellBox, mem_Icc]; norm_num)).2
example : boxFlux6 (bhjmCuboid .B (⟨1, 2, 3⟩ : V3 ℝ) ⟨1, -2, 3⟩) ⟨1, 2, 2⟩ ⟨2, 3, 3⟩ = 0 :=
  (cuboid_wrapper_box_laws _ _ _ _ (by norm_num) (by norm_num) (by norm_num) (by norm_num) (by norm_num) (by norm_num)
    (by simp only [ShellBox, ShellAxis, rtol]; norm_num)).1.2
example : rectCircZ4 (bhjmCuboid .H (⟨1, 2, 3⟩ : V3 ℝ) ⟨1, -2, 3⟩) ⟨-1 / 4, -1 / 2, 0⟩ ⟨1 / 4, 1 / 2, 0⟩ 0 = 0 :=
  ((cuboid_wrapper_box_laws _ _ _ _ (by norm_num) (by norm_num) (by norm_num) (by norm_num) (by norm_num) (by norm_num)
    (by simp only [ShellBox, ShellAxis, rtol]; norm_num)).2.1 0 (by simp)).2

/-! #### Sphere: boxes and rectangles strictly inside, resp. strictly outside the ball -/

/-- **C14 (Sphere, both laws in integral form, boxes strictly inside the ball).**  If the closed box `[a, b]`
(possibly flat) lies in the open ball `|p| < |d|/2`, the flux of what `BHJM_magnet_sphere` returns for
`field="B"` through its boundary is zero and the circulation of what it returns for `field="H"` around every
axis-aligned rectangle cut out of the box is zero (the wrapper is constant on the open ball; its inside /
outside test included).  Checkable sufficient condition for the hypothesis: `BoxLaws.norm_lt_of_inBox`. -/
theorem sphere_box_laws_inside (d : ℝ) (pol a b : V3 ℝ) (hx : a.x ≤ b.x) (hy : a.y ≤ b.y) (hz : a.z ≤ b.z)
    (hin : ∀ p, InBox a b p → Kern.norm p < |d| / 2) :
    (boxFlux (bhjmSphere .B d pol) a b = 0 ∧ boxFlux6 (bhjmSphere .B d pol) a b = 0) ∧
    (∀ c ∈ Icc a.z b.z, rectCircZ (bhjmSphere .H d pol) a b c = 0 ∧ rectCircZ4 (bhjmSphere .H d pol) a b c = 0) ∧
    (∀ c ∈ Icc a.x b.x, rectCircX (bhjmSphere .H d pol) a b c = 0 ∧ rectCircX4 (bhjmSphere .H d pol) a b c = 0) ∧
    (∀ c ∈ Icc a.y b.y, rectCircY (bhjmSphere .H d pol) a b c = 0 ∧ rectCircY4 (bhjmSphere .H d pol) a b c = 0) := by
  have ha : InBox a b a := ⟨left_mem_Icc.mpr hx, left_mem_Icc.mpr hy, left_mem_Icc.mpr hz⟩
  have e : ∀ f, ∀ p, InBox a b p → bhjmSphere f d pol p = (fun _ => bhjmSphere f d pol a) p := fun f p hp =>
    sphere_inside_const f d pol p a (hin p hp) (hin a ha)
  have cg := rectCirc_congr hx hy hz (e .H)
  refine ⟨⟨(boxFlux_congr hx hy hz (e .B)).trans (const_field_laws _ a b 0).1,
    (boxFlux6_congr hx hy hz (e .B)).trans (const_field_laws _ a b 0).2.1⟩,
    fun c hc => ⟨(cg.1 c hc).1.trans (const_field_laws _ a b c).2.2.1.1, (cg.1 c hc).2.trans (const_field_laws _ a b c).2.2.1.2⟩,
    fun c hc => ⟨(cg.2.1 c hc).1.trans (const_field_laws _ a b c).2.2.2.1.1, (cg.2.1 c hc).2.trans (const_field_laws _ a b c).2.2.2.1.2⟩,
    fun c hc => ⟨(cg.2.2 c hc).1.trans (const_field_laws _ a b c).2.2.2.2.1, (cg.2.2 c hc).2.trans (const_field_laws _ a b c).2.2.2.2.2⟩⟩

/-- **C14 (Sphere, both laws in integral form, boxes strictly outside the ball).**  If the closed box
`[a, b]` (possibly flat) lies in `|p| > |d|/2`, the flux of `B` through its boundary and the circulation of
`H` around every axis-aligned rectangle cut out of it are zero (there the wrapper returns the dipole field of
the moment `J·V/μ₀`; Gauss / Green for the dipole).  Checkable sufficient condition: `BoxLaws.norm_gt_of_inBox`. -/
theorem sphere_box_laws_outside (d : ℝ) (pol a b : V3 ℝ) (hx : a.x ≤ b.x) (hy : a.y ≤ b.y) (hz : a.z ≤ b.z)
    (hout : ∀ p, InBox a b p → |d| / 2 < Kern.norm p) :
    (boxFlux (bhjmSphere .B d pol) a b = 0 ∧ boxFlux6 (bhjmSphere .B d pol) a b = 0) ∧
    (∀ c ∈ Icc a.z b.z, rectCircZ (bhjmSphere .H d pol) a b c = 0 ∧ rectCircZ4 (bhjmSphere .H d pol) a b c = 0) ∧
    (∀ c ∈ Icc a.x b.x, rectCircX (bhjmSphere .H d pol) a b c = 0 ∧ rectCircX4 (bhjmSphere .H d pol) a b c = 0) ∧
    (∀ c ∈ Icc a.y b.y, rectCircY (bhjmSphere .H d pol) a b c = 0 ∧ rectCircY4 (bhjmSphere .H d pol) a b c = 0) := by
  set m := vs (4 / 3 * Real.pi * (|d| / 2) ^ 3 / mu0R) pol with hm
  have h0 : ¬ (0 ∈ Icc a.x b.x ∧ 0 ∈ Icc a.y b.y ∧ 0 ∈ Icc a.z b.z) := by
    intro h
    have h1 := hout ⟨0, 0, 0⟩ h
    have h2 : Kern.norm (⟨0, 0, 0⟩ : V3 ℝ) = 0 := (norm_eq_zero_iff _).mpr rfl
    rw [h2] at h1
    linarith [abs_nonneg d]
  have eB : ∀ p, InBox a b p → bhjmSphere .B d pol p = bhjmDipole .B m p := fun p hp =>
    sphere_outside_B_eq_mu0_dipole d pol p (hout p hp)
  have eH : ∀ p, InBox a b p → bhjmSphere .H d pol p = bhjmDipole .H m p := fun p hp =>
    C13.sphere_outside_eq_dipole d pol p (hout p hp)
  have hF := dipole_box_flux_zero m a b hx hy hz h0
  have hC := dipole_rect_circulation_zero m a b hx hy hz h0
  have cg := rectCirc_congr hx hy hz eH
  refine ⟨⟨(boxFlux_congr hx hy hz eB).trans hF.1, (boxFlux6_congr hx hy hz eB).trans hF.2⟩,
    fun c hc => ⟨((cg.1 c hc).1).trans (hC.1 c hc).1, ((cg.1 c hc).2).trans (hC.1 c hc).2⟩,
    fun c hc => ⟨((cg.2.1 c hc).1).trans (hC.2.1 c hc).1, ((cg.2.1 c hc).2).trans (hC.2.1 c hc).2⟩,
    fun c hc => ⟨((cg.2.2 c hc).1).trans (hC.2.2 c hc).1, ((cg.2.2 c hc).2).trans (hC.2.2 c hc).2⟩⟩

-- non-vacuity: diameter 2; the box [-1/2,1/2]³ is inside the unit ball (3/4 < 1), the box [2,3]×[-1,1]² outside
example (pol : V3 ℝ) : boxFlux6 (bhjmSphere .B 2 pol) ⟨-1 / 2, -1 / 2, -1 / 2⟩ ⟨1 / 2, 1 / 2, 1 / 2⟩ = 0 :=
  (sphere_box_laws_inside 2 pol _ _ (by norm_num) (by norm_num) (by norm_num) fun p hp =>
    norm_lt_of_inBox (by norm_num) (by norm_num [abs_of_pos, abs_of_neg]) hp).1.2
example (pol : V3 ℝ) : boxFlux6 (bhjmSphere .B 2 pol) ⟨2, -1, -1⟩ ⟨3, 1, 1⟩ = 0 :=
  (sphere_box_laws_outside 2 pol _ _ (by norm_num) (by norm_num) (by norm_num) fun p hp =>
    norm_gt_of_inBox (Or.inl (Or.inl (by norm_num))) hp).1.2

/-- non-vacuity of `dipole_box_flux_zero`: the law is not `0 + 0 + … = 0`.  For the moment `(1,0,0)` and the box
`[1,2]×[-1,1]×[-1,1]` the flux through the single face `x = 2` is strictly positive
(`B_x(2,y,z) = μ₀(12 − r²)/(4π r⁵)` with `4 ≤ r² ≤ 6`), so the other five faces carry the opposite flux. -/
theorem dipole_face_flux_pos :
    0 < ∫ y in (-1 : ℝ)..1, ∫ z in (-1 : ℝ)..1, (bhjmDipole .B (⟨1, 0, 0⟩ : V3 ℝ) ⟨2, y, z⟩).x := by
  have h0 : ¬ InBox (⟨1, -1, -1⟩ : V3 ℝ) ⟨2, 1, 1⟩ ⟨0, 0, 0⟩ := by
    simp only [InBox, mem_Icc]; norm_num
  have hc := (faceCont_dipole (⟨1, 0, 0⟩ : V3 ℝ) ⟨1, -1, -1⟩ ⟨2, 1, 1⟩ mu0R (by norm_num) (by norm_num) (by norm_num) h0).xb
  refine iter2_pos (by norm_num) (by norm_num) (fun y z => (bhjmDipole .B (⟨1, 0, 0⟩ : V3 ℝ) ⟨2, y, z⟩).x) hc ?_
  intro y hy z hz
  have hr : 0 < Kern.norm (⟨2, y, z⟩ : V3 ℝ) := norm_pos_of_ne (by simp)
  have hsq := norm_sq (⟨2, y, z⟩ : V3 ℝ)
  have hy2 : y * y ≤ 1 := by nlinarith [hy.1, hy.2]
  have hz2 : z * z ≤ 1 := by nlinarith [hz.1, hz.2]
  show 0 < mu0R * (dipoleH (⟨1, 0, 0⟩ : V3 ℝ) ⟨2, y, z⟩).x
  apply mul_pos mu0R_pos
  simp only [dipoleH, vs, vd, n, ofNat_real, pi_real, V3.dot, V3.sub_x, Nat.cast_ofNat]
  simp only at hsq
  generalize Kern.norm (⟨2, y, z⟩ : V3 ℝ) = r at *
  have h12 : r * r < 12 := by nlinarith
  apply div_pos (div_pos _ (by norm_num)) Real.pi_pos
  have e : 3 * (1 * 2 + 0 * y + 0 * z) * 2 / (r * r * r * r * r) - 1 / (r * r * r) =
      (12 - r * r) / (r * r * r * r * r) := by
    field_simp
    ring
  rw [e]
  exact div_pos (by linarith) (by positivity)

/-! #### boxes CUTTING a face of the Cuboid: partial -/

/- FULL: for every closed axis-aligned box that crosses the face plane `x = dim.x/2` (and misses the other five
   planes) `boxFlux6 (cuboidB dim pol) a b = 0`, because the jump of the normal component of the surface-charge
   integral across the face is exactly `−J·n` and is cancelled by the `+J` of the interior term.
   Missing: the one-sided smooth continuations `Fm`, `Fp` of `cuboidB` up to and including the plane (the corner term
   `arctan(uv/(wr))` continued through `w = 0` as `±(π/2)·sign(uv) − arctan(wr/(uv))`, the derivative lemmas of
   Lemmas/CuboidDiv.lean re-proved under `u, v ≠ 0` instead of `w ≠ 0`), and with them the continuity of `B_n`
   across the face (`hn` below).  Everything else — splitting the six face integrals at the plane, Gauss on the two
   closed halves, the irrelevance of the values ON the plane — is `BoxLaws.box_flux_zero_of_split_x`. -/
/-- C14 (Cuboid, box cutting the face plane `x = c`), PARTIAL: conditional on one-sided continuations `Fm`, `Fp` of
the closed form that are continuous on the closed half boxes, have zero flux through them, and whose NORMAL
components agree on the cut (`hn`: continuity of `B_n` across the face — an explicit hypothesis here). -/
theorem cuboid_box_flux_crossing_partial (dim pol a b : V3 ℝ) (c : ℝ) (Fm Fp : V3 ℝ → V3 ℝ) (hac : a.x < c) (hcb : c < b.x)
    (hy : a.y ≤ b.y) (hz : a.z ≤ b.z)
    (cm : FieldContOnBox Fm a ⟨c, b.y, b.z⟩) (cp : FieldContOnBox Fp ⟨c, a.y, a.z⟩ b)
    (hm0 : boxFlux6 Fm a ⟨c, b.y, b.z⟩ = 0) (hp0 : boxFlux6 Fp ⟨c, a.y, a.z⟩ b = 0)
    (em : ∀ p, InBox a b p → p.x < c → cuboidB dim pol p = Fm p)
    (ep : ∀ p, InBox a b p → c < p.x → cuboidB dim pol p = Fp p)
    (hn : ∀ y ∈ Icc a.y b.y, ∀ z ∈ Icc a.z b.z, (Fm ⟨c, y, z⟩).x = (Fp ⟨c, y, z⟩).x) :
    boxFlux6 (cuboidB dim pol) a b = 0 :=
  box_flux_zero_of_split_x (cuboidB dim pol) Fm Fp a b c hac hcb hy hz cm cp hm0 hp0 em ep hn

/-- **C14 (Cuboid closed form, box CUTTING a face, polarization parallel to that face).**  `pol.x = 0`; the closed
box `[a, b]` crosses the face plane `x = +dim.x/2` (`a.x < dim.x/2 < b.x`), does not reach the opposite one, and its
`y`- and `z`-ranges miss the planes `y = ±dim.y/2`, `z = ±dim.z/2` (so its projection lies inside the face, or
beside it).  Then the flux of `cuboidB` through the six faces of the box is zero — although, when the projection
lies inside the face, `B` itself jumps across the face by the tangential vector `J`.  Instance of
`BoxLaws.box_flux_zero_of_split_x` with `Fm = restG + J`, `Fp = restG` (`restG`: the surface-charge field of the
four charged faces, smooth across the uncharged one); it also shows that the hypotheses of
`cuboid_box_flux_crossing_partial` are satisfiable.  The case `pol.x ≠ 0` (charged face, the normal component of
the surface-charge integral jumps by `−J·n`) is the FULL statement above and is not proved. -/
theorem cuboid_box_flux_crossing_tangential (dim pol a b : V3 ℝ) (hdx : 0 < dim.x) (hdy : 0 < dim.y) (hdz : 0 < dim.z)
    (hpx : pol.x = 0) (hac : a.x < dim.x / 2) (hcb : dim.x / 2 < b.x) (hlo : -(dim.x / 2) < a.x)
    (hy : a.y ≤ b.y) (hz : a.z ≤ b.z)
    (hcy : dim.y / 2 ∉ Icc a.y b.y ∧ -(dim.y / 2) ∉ Icc a.y b.y)
    (hcz : dim.z / 2 ∉ Icc a.z b.z ∧ -(dim.z / 2) ∉ Icc a.z b.z) :
    boxFlux6 (cuboidB dim pol) a b = 0 :=
  cuboidB_box_flux_crossing_tangential dim pol a b hdx hdy hdz hpx hac hcb hlo hy hz ⟨hcy, hcz⟩

-- non-vacuity: 2×2×2 cube polarized along (0,1,2); the box [1/2,3/2]×[-1/2,1/2]² straddles the face x = 1 with its
-- projection inside the face; B jumps across the face there by J = (0,1,2)
example : boxFlux6 (cuboidB (⟨2, 2, 2⟩ : V3 ℝ) ⟨0, 1, 2⟩) ⟨1 / 2, -1 / 2, -1 / 2⟩ ⟨3 / 2, 1 / 2, 1 / 2⟩ = 0 :=
  cuboid_box_flux_crossing_tangential _ _ _ _ (by norm_num) (by norm_num) (by norm_num) rfl (by norm_num) (by norm_num)
    (by norm_num) (by norm_num) (by norm_num) (by simp only [mem_Icc]; norm_num) (by simp only [mem_Icc]; norm_num)

end integral_laws


/-! ### Triangle sheet, Tetrahedron, TriangularMesh rows: local laws (Lemmas/TriangleDiv.lean)

`triangle_Bfield` is `B = σ/(4π)·(Ω n − n × Σ_i I_i L_i)` with `Ω = 2·atan2(N, D)` (Van Oosterom–Strackee; replaced by 0 when
`|Ω| > 6.2831853`) and the edge integrals `I_i` in a three-branch cancellation-free form (plus the finite `on_edge` value inside a
1e-15 tube).  `TriDiv.TriClear v0 v1 v2 p` says: `p` is off the plane of the triangle (`N ≠ 0`), `|Ω| < 6.2831853` strictly, and for
each edge `rho2 > 1e-30·l2` or `a > 0` or `c < 0` (strictly outside the closed tube in which the `on_edge` branch is taken).  These are
open conditions; on them the model equals the smooth closed form `TriDiv.triSmooth`, which is differentiated term by term. -/

section triangle_local
open MagpyVerif.TriDiv MagpyVerif.CuboidDiv

/-- C14 (Triangle): the full Jacobian.  At every observer satisfying `TriClear` the model of `triangle_Bfield` has all nine partial
derivatives, given by `triJac`; its trace and its antisymmetric part vanish. -/
theorem triangle_partials (v0 v1 v2 pol p : V3 ℝ) (h : TriClear v0 v1 v2 p) :
    HasPartials (triangleB v0 v1 v2 pol) p (triJac v0 v1 v2 pol p) ∧ jacDiv (triJac v0 v1 v2 pol p) = 0 ∧
      jacCurl (triJac v0 v1 v2 pol p) = ⟨0, 0, 0⟩ :=
  ⟨triangleB_hasPartials v0 v1 v2 pol p h, triJac_div v0 v1 v2 pol p h, triJac_curl v0 v1 v2 pol p h⟩

/-- C14 (Triangle, local form of the flux law): div B = 0 off the plane of the sheet -/
theorem triangle_div_free (v0 v1 v2 pol p : V3 ℝ) (h : TriClear v0 v1 v2 p) : DivFreeAt (bhjmTriangle .B v0 v1 v2 pol) p :=
  (triangleB_dcfree v0 v1 v2 pol p h).divFreeAt

/-- C14 (Triangle, local form of Ampère's law without currents): what `BHJM_triangle` returns for `field="H"` (`B/μ₀`) has a
symmetric Jacobian — H is a gradient field — off the plane of the sheet -/
theorem triangle_curl_free (v0 v1 v2 pol p : V3 ℝ) (h : TriClear v0 v1 v2 p) : CurlFreeAt (bhjmTriangle .H v0 v1 v2 pol) p :=
  ((triangleB_dcfree v0 v1 v2 pol p h).vd mu0R).curlFreeAt

/-- C14 (Triangle): all four local laws -/
theorem triangle_div_curl_free (v0 v1 v2 pol p : V3 ℝ) (h : TriClear v0 v1 v2 p) :
    DivFreeAt (bhjmTriangle .B v0 v1 v2 pol) p ∧ CurlFreeAt (bhjmTriangle .H v0 v1 v2 pol) p ∧
    DivFreeAt (bhjmTriangle .H v0 v1 v2 pol) p ∧ CurlFreeAt (bhjmTriangle .B v0 v1 v2 pol) p :=
  have hB := triangleB_dcfree v0 v1 v2 pol p h
  ⟨hB.divFreeAt, (hB.vd mu0R).curlFreeAt, (hB.vd mu0R).divFreeAt, hB.curlFreeAt⟩

/-- the unit triangle seen from (0, 0, 1), and a skew triangle seen from (4, 4, 4), satisfy `TriClear` -/
theorem triClear_unit : TriClear (⟨0, 0, 0⟩ : V3 ℝ) ⟨1, 0, 0⟩ ⟨0, 1, 0⟩ ⟨0, 0, 1⟩ := by
  refine ⟨?_, ?_, ?_, ?_, ?_⟩
  · simp only [saN, V3.dot, V3.cross, V3.sub_x, V3.sub_y, V3.sub_z]; norm_num
  · apply solidAngleRaw_lt_of_D_nonneg
    have h0 := norm_nonneg' ((⟨0, 0, 0⟩ : V3 ℝ) - ⟨0, 0, 1⟩)
    have h1 := norm_nonneg' ((⟨1, 0, 0⟩ : V3 ℝ) - ⟨0, 0, 1⟩)
    have h2 := norm_nonneg' ((⟨0, 1, 0⟩ : V3 ℝ) - ⟨0, 0, 1⟩)
    have h3 := mul_nonneg (mul_nonneg h0 h1) h2
    unfold saD
    simp only [V3.dot, V3.sub_x, V3.sub_y, V3.sub_z]
    norm_num
    linarith
  all_goals
    left
    simp only [V3.dot, V3.cross, V3.sub_x, V3.sub_y, V3.sub_z]
    norm_num

theorem triClear_skew : TriClear (⟨1, 2, 3⟩ : V3 ℝ) ⟨-1, 0, 5⟩ ⟨2, -1, 0⟩ ⟨4, 4, 4⟩ := by
  refine ⟨?_, ?_, ?_, ?_, ?_⟩
  · simp only [saN, V3.dot, V3.cross, V3.sub_x, V3.sub_y, V3.sub_z]; norm_num
  · apply solidAngleRaw_lt_of_D_nonneg
    have h0 := norm_nonneg' ((⟨1, 2, 3⟩ : V3 ℝ) - ⟨4, 4, 4⟩)
    have h1 := norm_nonneg' ((⟨-1, 0, 5⟩ : V3 ℝ) - ⟨4, 4, 4⟩)
    have h2 := norm_nonneg' ((⟨2, -1, 0⟩ : V3 ℝ) - ⟨4, 4, 4⟩)
    have h3 := mul_nonneg (mul_nonneg h0 h1) h2
    unfold saD
    simp only [V3.dot, V3.sub_x, V3.sub_y, V3.sub_z]
    norm_num
    linarith
  all_goals
    left
    simp only [V3.dot, V3.cross, V3.sub_x, V3.sub_y, V3.sub_z]
    norm_num

-- non-vacuity
example : DivFreeAt (bhjmTriangle .B (⟨0, 0, 0⟩ : V3 ℝ) ⟨1, 0, 0⟩ ⟨0, 1, 0⟩ ⟨1, -2, 3⟩) ⟨0, 0, 1⟩ ∧
    CurlFreeAt (bhjmTriangle .H (⟨0, 0, 0⟩ : V3 ℝ) ⟨1, 0, 0⟩ ⟨0, 1, 0⟩ ⟨1, -2, 3⟩) ⟨0, 0, 1⟩ :=
  ⟨triangle_div_free _ _ _ _ _ triClear_unit, triangle_curl_free _ _ _ _ _ triClear_unit⟩
example : DivFreeAt (bhjmTriangle .B (⟨1, 2, 3⟩ : V3 ℝ) ⟨-1, 0, 5⟩ ⟨2, -1, 0⟩ ⟨1, -2, 3⟩) ⟨4, 4, 4⟩ ∧
    CurlFreeAt (bhjmTriangle .H (⟨1, 2, 3⟩ : V3 ℝ) ⟨-1, 0, 5⟩ ⟨2, -1, 0⟩ ⟨1, -2, 3⟩) ⟨4, 4, 4⟩ :=
  ⟨triangle_div_free _ _ _ _ _ triClear_skew, triangle_curl_free _ _ _ _ _ triClear_skew⟩

/-- the statement is not empty of content: for the unit triangle with `J = (0, 0, 1)` seen from (0, 0, 1) the single partial
derivative `∂Bz/∂z` is the explicit `triJac` entry, and the solid-angle part of it, `n_z·(∇Ω)_z = −(β₀ + β₁ + β₂)·… `, is built from the
Biot–Savart scalars of the three edges (each positive) -/
example : HasDerivAt (fun t => (triangleB (⟨0, 0, 0⟩ : V3 ℝ) ⟨1, 0, 0⟩ ⟨0, 1, 0⟩ ⟨0, 0, 1⟩ ⟨0, 0, t⟩).z)
    (triJac (⟨0, 0, 0⟩ : V3 ℝ) ⟨1, 0, 0⟩ ⟨0, 1, 0⟩ ⟨0, 0, 1⟩ ⟨0, 0, 1⟩).r3.z 1 :=
  (triangle_partials _ _ _ _ _ triClear_unit).1.zz

/-- the clamp hypothesis of `TriClear` excludes observers OFF the plane: at (1, 1, 1e-10) over the triangle (0,0,0), (4,0,0), (0,4,0) the
code returns the solid angle 0, not the smooth value (which is larger than 6.2831853 in absolute value) — the model is
discontinuous across the boundary of that band, so no local law holds there (known finding `triangle-split:clamp-band`) -/
theorem triangle_clamp_band_excluded :
    saN ((⟨0, 0, 0⟩ : V3 ℝ) - ⟨1, 1, 1 / 10000000000⟩) ((⟨4, 0, 0⟩ : V3 ℝ) - ⟨1, 1, 1 / 10000000000⟩)
        ((⟨0, 4, 0⟩ : V3 ℝ) - ⟨1, 1, 1 / 10000000000⟩) ≠ 0 ∧
    ¬ TriClear (⟨0, 0, 0⟩ : V3 ℝ) ⟨4, 0, 0⟩ ⟨0, 4, 0⟩ ⟨1, 1, 1 / 10000000000⟩ ∧
    solidAngle ((⟨0, 0, 0⟩ : V3 ℝ) - ⟨1, 1, 1 / 10000000000⟩) ((⟨4, 0, 0⟩ : V3 ℝ) - ⟨1, 1, 1 / 10000000000⟩)
        ((⟨0, 4, 0⟩ : V3 ℝ) - ⟨1, 1, 1 / 10000000000⟩) (Kern.norm ((⟨0, 0, 0⟩ : V3 ℝ) - ⟨1, 1, 1 / 10000000000⟩))
        (Kern.norm ((⟨4, 0, 0⟩ : V3 ℝ) - ⟨1, 1, 1 / 10000000000⟩)) (Kern.norm ((⟨0, 4, 0⟩ : V3 ℝ) - ⟨1, 1, 1 / 10000000000⟩)) = 0 := by
  have hw := witness_clamped
  refine ⟨?_, fun h => ?_, ?_⟩
  · simp only [saN, V3.dot, V3.cross, V3.sub_x, V3.sub_y, V3.sub_z]; norm_num
  · unfold SolidAngleClamped at hw
    exact absurd h.2.1 (not_lt.mpr hw.le)
  · unfold SolidAngleClamped at hw
    rw [solidAngle_clamp, if_pos hw]

/-- C14 (Tetrahedron, H): `BHJM_magnet_tetrahedron` for `field="H"` is the sum of the four face sheets divided by μ₀; at every
observer at which the four faces (after the chirality fix) satisfy `TriClear` — in particular off the four face planes — it is
curl-free (and divergence-free) -/
theorem tetra_H_curl_free (v0 v1 v2 v3 pol p : V3 ℝ) (h : FacesClear (tetraFaces (v0, v1, v2, v3)) p) :
    CurlFreeAt (bhjmTetra .H v0 v1 v2 v3 pol) p ∧ DivFreeAt (bhjmTetra .H v0 v1 v2 v3 pol) p :=
  ⟨(tetraH_dcfree v0 v1 v2 v3 pol p h).curlFreeAt, (tetraH_dcfree v0 v1 v2 v3 pol p h).divFreeAt⟩

/-- C14 (Tetrahedron, B): the four sheets plus the polarization inside; off the four face planes the inside mask of the code is
locally constant, so div B = 0 (and curl B = 0) inside and outside -/
theorem tetra_B_div_free (v0 v1 v2 v3 pol p : V3 ℝ) (h : FacesClear (tetraFaces (v0, v1, v2, v3)) p) :
    DivFreeAt (bhjmTetra .B v0 v1 v2 v3 pol) p ∧ CurlFreeAt (bhjmTetra .B v0 v1 v2 v3 pol) p :=
  ⟨(tetraB_dcfree v0 v1 v2 v3 pol p h).divFreeAt, (tetraB_dcfree v0 v1 v2 v3 pol p h).curlFreeAt⟩

/-- C14 (TriangularMesh, one row): the sum of the triangle sheets of a row (`meshRowSheets`, what `BHJM_magnet_trimesh` adds up
before the inside term) is divergence-free at every observer at which all faces satisfy `TriClear` -/
theorem trimesh_row_div_free (faces : List (Tri ℝ)) (pol p : V3 ℝ) (h : FacesClear faces p) :
    DivFreeAt (fun q => meshRowSheets ⟨faces, q, pol⟩) p :=
  (sheetSum_dcfree faces pol p h).divFreeAt

/-- … and divided by μ₀ (the row's H) it is curl-free -/
theorem trimesh_row_H_curl_free (faces : List (Tri ℝ)) (pol p : V3 ℝ) (h : FacesClear faces p) :
    CurlFreeAt (fun q => vd (meshRowSheets ⟨faces, q, pol⟩) mu0R) p :=
  ((sheetSum_dcfree faces pol p h).vd mu0R).curlFreeAt

/-- the row's B with an inside mask that is constant near the observer (`mask_inside_trimesh` is a parameter of the model) -/
theorem trimesh_row_B_div_free (faces : List (Tri ℝ)) (pol p c : V3 ℝ) (h : FacesClear faces p) :
    DivFreeAt (fun q => meshRowSheets ⟨faces, q, pol⟩ + c) p :=
  ((sheetSum_dcfree faces pol p h).add_const c).divFreeAt

/-- the four faces of the unit simplex tetrahedron satisfy `TriClear` at an INTERIOR observer (1/5, 1/5, 1/5) and at the exterior
observer (-1, -1, -1); the clamp condition through `solidAngleRaw_lt_of_far` (`4 r0 r1 r2 ≤ 1e8·|N|`, rational arithmetic) -/
theorem tetra_facesClear_examples :
    FacesClear (tetraFaces ((⟨0, 0, 0⟩ : V3 ℝ), ⟨1, 0, 0⟩, ⟨0, 1, 0⟩, ⟨0, 0, 1⟩)) ⟨1 / 5, 1 / 5, 1 / 5⟩ ∧
    FacesClear (tetraFaces ((⟨0, 0, 0⟩ : V3 ℝ), ⟨1, 0, 0⟩, ⟨0, 1, 0⟩, ⟨0, 0, 1⟩)) ⟨-1, -1, -1⟩ := by
  have fW : tetraFaces ((⟨0, 0, 0⟩ : V3 ℝ), ⟨1, 0, 0⟩, ⟨0, 1, 0⟩, ⟨0, 0, 1⟩) =
      [(⟨0, 0, 0⟩, ⟨0, 1, 0⟩, ⟨1, 0, 0⟩), (⟨0, 0, 0⟩, ⟨1, 0, 0⟩, ⟨0, 0, 1⟩), (⟨1, 0, 0⟩, ⟨0, 1, 0⟩, ⟨0, 0, 1⟩),
        (⟨0, 0, 0⟩, ⟨0, 0, 1⟩, ⟨0, 1, 0⟩)] := by
    have h10 : ¬ ((1 : ℝ) < 0) := by norm_num
    simp [tetraFaces, tetraChirality, det3, n, h10]
  rw [fW]
  constructor <;> intro t ht <;> simp only [List.mem_cons, List.not_mem_nil, or_false] at ht <;>
    rcases ht with rfl | rfl | rfl | rfl <;>
    (refine ⟨?_, solidAngleRaw_lt_of_far _ _ _ ?_ ?_, Or.inl ?_, Or.inl ?_, Or.inl ?_⟩ <;>
      simp only [saN, V3.dot, V3.cross, V3.sub_x, V3.sub_y, V3.sub_z] <;> norm_num)

-- non-vacuity: inside the tetrahedron (where B = μ₀H + J with J ≠ 0) and outside
example : tetraInside (⟨0, 0, 0⟩ : V3 ℝ) ⟨1, 0, 0⟩ ⟨0, 1, 0⟩ ⟨0, 0, 1⟩ ⟨1 / 5, 1 / 5, 1 / 5⟩ = true ∧
    DivFreeAt (bhjmTetra .B (⟨0, 0, 0⟩ : V3 ℝ) ⟨1, 0, 0⟩ ⟨0, 1, 0⟩ ⟨0, 0, 1⟩ ⟨1, -2, 3⟩) ⟨1 / 5, 1 / 5, 1 / 5⟩ ∧
    CurlFreeAt (bhjmTetra .H (⟨0, 0, 0⟩ : V3 ℝ) ⟨1, 0, 0⟩ ⟨0, 1, 0⟩ ⟨0, 0, 1⟩ ⟨1, -2, 3⟩) ⟨1 / 5, 1 / 5, 1 / 5⟩ := by
  refine ⟨?_, (tetra_B_div_free _ _ _ _ _ _ tetra_facesClear_examples.1).1, (tetra_H_curl_free _ _ _ _ _ _ tetra_facesClear_examples.1).1⟩
  rw [tetraInside_iff]
  simp only [det3, V3.sub_x, V3.sub_y, V3.sub_z]
  norm_num
example : DivFreeAt (bhjmTetra .B (⟨0, 0, 0⟩ : V3 ℝ) ⟨1, 0, 0⟩ ⟨0, 1, 0⟩ ⟨0, 0, 1⟩ ⟨1, -2, 3⟩) ⟨-1, -1, -1⟩ ∧
    CurlFreeAt (bhjmTetra .H (⟨0, 0, 0⟩ : V3 ℝ) ⟨1, 0, 0⟩ ⟨0, 1, 0⟩ ⟨0, 0, 1⟩ ⟨1, -2, 3⟩) ⟨-1, -1, -1⟩ :=
  ⟨(tetra_B_div_free _ _ _ _ _ _ tetra_facesClear_examples.2).1, (tetra_H_curl_free _ _ _ _ _ _ tetra_facesClear_examples.2).1⟩
-- a TriangularMesh row: the same four faces as a mesh
example : DivFreeAt (fun q => meshRowSheets ⟨tetraFaces ((⟨0, 0, 0⟩ : V3 ℝ), ⟨1, 0, 0⟩, ⟨0, 1, 0⟩, ⟨0, 0, 1⟩), q, ⟨1, -2, 3⟩⟩)
    ⟨1 / 5, 1 / 5, 1 / 5⟩ := trimesh_row_div_free _ _ _ tetra_facesClear_examples.1

end triangle_local

/-! ### Triangle sheet, Tetrahedron, TriangularMesh rows: INTEGRAL laws (Lemmas/BoxLawsTriangle.lean)

The local laws above plus continuity on the closed box of the field (`Complex.arg` on the slit plane, `Real.log` of positive arguments)
and of the nine entries of `triJac` (quotients whose denominators do not vanish where `TriClear` holds) feed the generic Gauss / Green
theorems for boxes and rectangles (`BoxLaws.SmoothBox.flux`, `.circ`).  Hypothesis: EVERY point of the closed box satisfies `TriClear`
(`BoxLaws.TriClearBox`, for lists of faces `FacesClearBox`); `BoxLaws.TriFarBox` is a sufficient condition that is decided by comparing
rational expressions in the vertices and the corners of the box. -/

section triangle_integral
open MagpyVerif.TriDiv MagpyVerif.CuboidDiv MagpyVerif.BoxLaws Set

/-- **the checkable condition**: the eight corners of the box on one side of the plane of the triangle with `|N| ≥ m > 0`
(`N = 2·area × signed distance`), `16·ρ₀²ρ₁²ρ₂² ≤ 1e16·m²` (`ρ_i`: distance from vertex `i` to the farthest corner) and
`1e-30·l_i²·|A|² < m²` for the three edges imply `TriClear` at EVERY point of the closed box: off the plane (`N` is affine), the solid
angle strictly below the clamp `6.2831853` of the code (`solidAngleRaw_lt_of_far`), strictly outside the three `on_edge` tubes (the
distance to the line of an edge is at least the distance to the plane). -/
theorem triFarBox_triClear (v0 v1 v2 a b : V3 ℝ) (m s : ℝ) (h : TriFarBox v0 v1 v2 a b m s) :
    ∀ p, InBox a b p → TriClear v0 v1 v2 p := h.triClearBox

/-- **C14 (Triangle sheet, flux law in integral form).**  For every closed axis-aligned box `[a, b]` every point of which satisfies
`TriClear` w.r.t. the triangle (in particular a box on one side of the plane of the triangle: `triFarBox_triClear`), the outward flux of
what `BHJM_triangle` returns for `field="B"` through the boundary of the box is zero — opposite faces paired (`boxFlux`) and as the sum of
the six face integrals `∫∫ B·n dA` (`boxFlux6`). -/
theorem triangle_box_flux_zero (v0 v1 v2 pol a b : V3 ℝ) (hx : a.x ≤ b.x) (hy : a.y ≤ b.y) (hz : a.z ≤ b.z)
    (h : ∀ p, InBox a b p → TriClear v0 v1 v2 p) :
    boxFlux (bhjmTriangle .B v0 v1 v2 pol) a b = 0 ∧ boxFlux6 (bhjmTriangle .B v0 v1 v2 pol) a b = 0 :=
  (triangleB_smoothBox v0 v1 v2 pol h).flux hx hy hz

/-- **C14 (Triangle sheet, Ampère's law without currents in integral form).**  Under the same condition on the closed box `[a, b]`
(which may be flat), the circulation `∮ H·dl` of what `BHJM_triangle` returns for `field="H"` around every axis-aligned rectangle cut out
of the box by a coordinate plane is zero, in the paired form and as the sum of the four line integrals. -/
theorem triangle_rect_circulation_zero (v0 v1 v2 pol a b : V3 ℝ) (hx : a.x ≤ b.x) (hy : a.y ≤ b.y) (hz : a.z ≤ b.z)
    (h : ∀ p, InBox a b p → TriClear v0 v1 v2 p) :
    (∀ c ∈ Icc a.z b.z, rectCircZ (bhjmTriangle .H v0 v1 v2 pol) a b c = 0 ∧ rectCircZ4 (bhjmTriangle .H v0 v1 v2 pol) a b c = 0) ∧
    (∀ c ∈ Icc a.x b.x, rectCircX (bhjmTriangle .H v0 v1 v2 pol) a b c = 0 ∧ rectCircX4 (bhjmTriangle .H v0 v1 v2 pol) a b c = 0) ∧
    (∀ c ∈ Icc a.y b.y, rectCircY (bhjmTriangle .H v0 v1 v2 pol) a b c = 0 ∧ rectCircY4 (bhjmTriangle .H v0 v1 v2 pol) a b c = 0) :=
  ((triangleB_smoothBox v0 v1 v2 pol h).vd mu0R).circ hx hy hz

/-- both laws from the checkable condition -/
theorem triangle_box_laws_of_far (v0 v1 v2 pol a b : V3 ℝ) (m s : ℝ) (hx : a.x ≤ b.x) (hy : a.y ≤ b.y) (hz : a.z ≤ b.z)
    (h : TriFarBox v0 v1 v2 a b m s) :
    (boxFlux (bhjmTriangle .B v0 v1 v2 pol) a b = 0 ∧ boxFlux6 (bhjmTriangle .B v0 v1 v2 pol) a b = 0) ∧
    (∀ c ∈ Icc a.z b.z, rectCircZ (bhjmTriangle .H v0 v1 v2 pol) a b c = 0 ∧ rectCircZ4 (bhjmTriangle .H v0 v1 v2 pol) a b c = 0) ∧
    (∀ c ∈ Icc a.x b.x, rectCircX (bhjmTriangle .H v0 v1 v2 pol) a b c = 0 ∧ rectCircX4 (bhjmTriangle .H v0 v1 v2 pol) a b c = 0) ∧
    (∀ c ∈ Icc a.y b.y, rectCircY (bhjmTriangle .H v0 v1 v2 pol) a b c = 0 ∧ rectCircY4 (bhjmTriangle .H v0 v1 v2 pol) a b c = 0) :=
  ⟨triangle_box_flux_zero v0 v1 v2 pol a b hx hy hz h.triClearBox, triangle_rect_circulation_zero v0 v1 v2 pol a b hx hy hz h.triClearBox⟩

-- non-vacuity: the unit triangle and the box [0,1]×[0,1]×[1,2] above it (N = z ≥ 1); the same triangle and a box BELOW and beside it
-- (N ≤ −1/2, side s = −1); a skew triangle and the box [4,5]³; a flat rectangle in the plane z = 1 over the unit triangle
theorem triFarBox_unit_above : TriFarBox (⟨0, 0, 0⟩ : V3 ℝ) ⟨1, 0, 0⟩ ⟨0, 1, 0⟩ ⟨0, 0, 1⟩ ⟨1, 1, 2⟩ 1 1 := by tri_far_box
theorem triFarBox_unit_below : TriFarBox (⟨0, 0, 0⟩ : V3 ℝ) ⟨1, 0, 0⟩ ⟨0, 1, 0⟩ ⟨-3, 1 / 2, -1⟩ ⟨-1, 2, -1 / 2⟩ (1 / 2) (-1) := by
  tri_far_box
theorem triFarBox_skew : TriFarBox (⟨1, 2, 3⟩ : V3 ℝ) ⟨-1, 0, 5⟩ ⟨2, -1, 0⟩ ⟨4, 4, 4⟩ ⟨5, 5, 5⟩ 32 1 := by tri_far_box

example (pol : V3 ℝ) : boxFlux6 (bhjmTriangle .B (⟨0, 0, 0⟩ : V3 ℝ) ⟨1, 0, 0⟩ ⟨0, 1, 0⟩ pol) ⟨0, 0, 1⟩ ⟨1, 1, 2⟩ = 0 :=
  (triangle_box_laws_of_far _ _ _ pol _ _ _ _ (by norm_num) (by norm_num) (by norm_num) triFarBox_unit_above).1.2
example (pol : V3 ℝ) : boxFlux6 (bhjmTriangle .B (⟨0, 0, 0⟩ : V3 ℝ) ⟨1, 0, 0⟩ ⟨0, 1, 0⟩ pol) ⟨-3, 1 / 2, -1⟩ ⟨-1, 2, -1 / 2⟩ = 0 :=
  (triangle_box_laws_of_far _ _ _ pol _ _ _ _ (by norm_num) (by norm_num) (by norm_num) triFarBox_unit_below).1.2
example (pol : V3 ℝ) : boxFlux6 (bhjmTriangle .B (⟨1, 2, 3⟩ : V3 ℝ) ⟨-1, 0, 5⟩ ⟨2, -1, 0⟩ pol) ⟨4, 4, 4⟩ ⟨5, 5, 5⟩ = 0 :=
  (triangle_box_laws_of_far _ _ _ pol _ _ _ _ (by norm_num) (by norm_num) (by norm_num) triFarBox_skew).1.2
example (pol : V3 ℝ) : rectCircZ4 (bhjmTriangle .H (⟨0, 0, 0⟩ : V3 ℝ) ⟨1, 0, 0⟩ ⟨0, 1, 0⟩ pol) ⟨0, 0, 1⟩ ⟨1, 1, 2⟩ 1 = 0 :=
  ((triangle_box_laws_of_far _ _ _ pol _ _ _ _ (by norm_num) (by norm_num) (by norm_num) triFarBox_unit_above).2.1 1
    (by simp only [mem_Icc]; norm_num)).2
example (pol : V3 ℝ) : rectCircX4 (bhjmTriangle .H (⟨1, 2, 3⟩ : V3 ℝ) ⟨-1, 0, 5⟩ ⟨2, -1, 0⟩ pol) ⟨4, 4, 4⟩ ⟨5, 5, 5⟩ (9 / 2) = 0 :=
  ((triangle_box_laws_of_far _ _ _ pol _ _ _ _ (by norm_num) (by norm_num) (by norm_num) triFarBox_skew).2.2.1 (9 / 2)
    (by simp only [mem_Icc]; norm_num)).2
-- the hypothesis is about the WHOLE box: the box [0,1]×[0,1]×[-1,1] through the sheet does not satisfy it (its point (1/4,1/4,0) lies
-- in the plane of the triangle)
example : ¬ ∀ p, InBox (⟨0, 0, -1⟩ : V3 ℝ) ⟨1, 1, 1⟩ p → TriClear (⟨0, 0, 0⟩ : V3 ℝ) ⟨1, 0, 0⟩ ⟨0, 1, 0⟩ p := by
  intro h
  have := (h ⟨1 / 4, 1 / 4, 0⟩ (by simp only [InBox, mem_Icc]; norm_num)).1
  apply this
  simp only [saN, V3.dot, V3.cross, V3.sub_x, V3.sub_y, V3.sub_z]; norm_num

/-- **C14 (sum of sheets — one row of `BHJM_magnet_trimesh` before the inside term, flux law in integral form).**  For a closed box every
point of which satisfies `TriClear` w.r.t. every face, and a constant vector `c` (what the inside mask of the code adds: `J` on a box
inside the body, `0` on a box outside — `mask_inside_trimesh` is a parameter of the model, constant on the box by hypothesis, as in
`trimesh_row_B_div_free`), the flux of `Σ sheets + c` through the boundary of the box is zero. -/
theorem trimesh_row_box_flux_zero (faces : List (Tri ℝ)) (pol c a b : V3 ℝ) (hx : a.x ≤ b.x) (hy : a.y ≤ b.y) (hz : a.z ≤ b.z)
    (h : ∀ p, InBox a b p → FacesClear faces p) :
    boxFlux (fun q => meshRowSheets ⟨faces, q, pol⟩ + c) a b = 0 ∧ boxFlux6 (fun q => meshRowSheets ⟨faces, q, pol⟩ + c) a b = 0 :=
  ((sheetSum_smoothBox faces pol h).add_const c).flux hx hy hz

/-- … and the circulation of the row's `H = Σ sheets / μ₀` around every axis-aligned rectangle cut out of the box is zero -/
theorem trimesh_row_rect_circulation_zero (faces : List (Tri ℝ)) (pol a b : V3 ℝ) (hx : a.x ≤ b.x) (hy : a.y ≤ b.y) (hz : a.z ≤ b.z)
    (h : ∀ p, InBox a b p → FacesClear faces p) :
    (∀ c ∈ Icc a.z b.z, rectCircZ (fun q => vd (meshRowSheets ⟨faces, q, pol⟩) mu0R) a b c = 0 ∧
      rectCircZ4 (fun q => vd (meshRowSheets ⟨faces, q, pol⟩) mu0R) a b c = 0) ∧
    (∀ c ∈ Icc a.x b.x, rectCircX (fun q => vd (meshRowSheets ⟨faces, q, pol⟩) mu0R) a b c = 0 ∧
      rectCircX4 (fun q => vd (meshRowSheets ⟨faces, q, pol⟩) mu0R) a b c = 0) ∧
    (∀ c ∈ Icc a.y b.y, rectCircY (fun q => vd (meshRowSheets ⟨faces, q, pol⟩) mu0R) a b c = 0 ∧
      rectCircY4 (fun q => vd (meshRowSheets ⟨faces, q, pol⟩) mu0R) a b c = 0) :=
  ((sheetSum_smoothBox faces pol h).vd mu0R).circ hx hy hz

/-- on a closed box that avoids the four face planes `BHJM_magnet_tetrahedron` is, for `field="B"`, the sum of the four sheets plus a
CONSTANT: `J` if the box lies inside the body, `0` if it lies outside (the inside test of the code is constant on such a box) -/
theorem tetra_B_on_box (v0 v1 v2 v3 pol a b : V3 ℝ) (hx : a.x ≤ b.x) (hy : a.y ≤ b.y) (hz : a.z ≤ b.z)
    (h : ∀ p, InBox a b p → FacesClear (tetraFaces (v0, v1, v2, v3)) p) (p : V3 ℝ) (hp : InBox a b p) :
    bhjmTetra .B v0 v1 v2 v3 pol p =
      sheetSum (tetraFaces (v0, v1, v2, v3)) pol p + (if tetraInside v0 v1 v2 v3 a then pol else zero3) := by
  have ha : InBox a b a := ⟨left_mem_Icc.mpr hx, left_mem_Icc.mpr hy, left_mem_Icc.mpr hz⟩
  have hc := tetraInside_const_on_box v0 v1 v2 v3 a b (fun q hq t ht => (h q hq t ht).1) ha hp
  have := tetra_is_wrapH_of_sheetSum .B (v0, v1, v2, v3) pol p
  simp only at this
  rw [this, wrapH, hc]

/-- **C14 (Tetrahedron, flux law in integral form).**  For a closed axis-aligned box every point of which satisfies `TriClear` w.r.t. the
four faces — in particular it avoids the four face planes, so it lies entirely outside or entirely INSIDE the body, where
`B = μ₀H + J` with `J` constant — the flux of what `BHJM_magnet_tetrahedron` returns for `field="B"` through the boundary of the box is
zero (the four sheets, the chirality fix and the inside test of the code included). -/
theorem tetra_box_flux_zero (v0 v1 v2 v3 pol a b : V3 ℝ) (hx : a.x ≤ b.x) (hy : a.y ≤ b.y) (hz : a.z ≤ b.z)
    (h : ∀ p, InBox a b p → FacesClear (tetraFaces (v0, v1, v2, v3)) p) :
    boxFlux (bhjmTetra .B v0 v1 v2 v3 pol) a b = 0 ∧ boxFlux6 (bhjmTetra .B v0 v1 v2 v3 pol) a b = 0 := by
  have e := tetra_B_on_box v0 v1 v2 v3 pol a b hx hy hz h
  have hF := ((sheetSum_smoothBox (tetraFaces (v0, v1, v2, v3)) pol h).add_const
    (if tetraInside v0 v1 v2 v3 a then pol else zero3)).flux hx hy hz
  exact ⟨(boxFlux_congr hx hy hz e).trans hF.1, (boxFlux6_congr hx hy hz e).trans hF.2⟩

/-- **C14 (Tetrahedron, Ampère's law without currents in integral form).**  Under the same condition on the closed box (which may be
flat; inside or outside the body) the circulation of what `BHJM_magnet_tetrahedron` returns for `field="H"` around every axis-aligned
rectangle cut out of the box is zero. -/
theorem tetra_rect_circulation_zero (v0 v1 v2 v3 pol a b : V3 ℝ) (hx : a.x ≤ b.x) (hy : a.y ≤ b.y) (hz : a.z ≤ b.z)
    (h : ∀ p, InBox a b p → FacesClear (tetraFaces (v0, v1, v2, v3)) p) :
    (∀ c ∈ Icc a.z b.z, rectCircZ (bhjmTetra .H v0 v1 v2 v3 pol) a b c = 0 ∧ rectCircZ4 (bhjmTetra .H v0 v1 v2 v3 pol) a b c = 0) ∧
    (∀ c ∈ Icc a.x b.x, rectCircX (bhjmTetra .H v0 v1 v2 v3 pol) a b c = 0 ∧ rectCircX4 (bhjmTetra .H v0 v1 v2 v3 pol) a b c = 0) ∧
    (∀ c ∈ Icc a.y b.y, rectCircY (bhjmTetra .H v0 v1 v2 v3 pol) a b c = 0 ∧ rectCircY4 (bhjmTetra .H v0 v1 v2 v3 pol) a b c = 0) := by
  have e : bhjmTetra .H v0 v1 v2 v3 pol = fun q => vd (sheetSum (tetraFaces (v0, v1, v2, v3)) pol q) mu0R :=
    funext fun q => tetra_is_wrapH_of_sheetSum .H (v0, v1, v2, v3) pol q
  rw [e]
  exact ((sheetSum_smoothBox (tetraFaces (v0, v1, v2, v3)) pol h).vd mu0R).circ hx hy hz

/-- the four faces of the unit simplex as `BHJM_magnet_tetrahedron` orients them -/
theorem tetraFaces_unit_simplex :
    tetraFaces ((⟨0, 0, 0⟩ : V3 ℝ), ⟨1, 0, 0⟩, ⟨0, 1, 0⟩, ⟨0, 0, 1⟩) =
      [(⟨0, 0, 0⟩, ⟨0, 1, 0⟩, ⟨1, 0, 0⟩), (⟨0, 0, 0⟩, ⟨1, 0, 0⟩, ⟨0, 0, 1⟩), (⟨1, 0, 0⟩, ⟨0, 1, 0⟩, ⟨0, 0, 1⟩),
        (⟨0, 0, 0⟩, ⟨0, 0, 1⟩, ⟨0, 1, 0⟩)] := by
  have h10 : ¬ ((1 : ℝ) < 0) := by norm_num
  simp [tetraFaces, tetraChirality, det3, n, h10]

/-- the unit simplex: the box [1/10, 1/5]³ INSIDE it and the box [-2, -1]³ outside satisfy the checkable condition face by face -/
theorem tetra_facesFarBox_examples :
    FacesFarBox (tetraFaces ((⟨0, 0, 0⟩ : V3 ℝ), ⟨1, 0, 0⟩, ⟨0, 1, 0⟩, ⟨0, 0, 1⟩)) ⟨1 / 10, 1 / 10, 1 / 10⟩ ⟨1 / 5, 1 / 5, 1 / 5⟩ ∧
    FacesFarBox (tetraFaces ((⟨0, 0, 0⟩ : V3 ℝ), ⟨1, 0, 0⟩, ⟨0, 1, 0⟩, ⟨0, 0, 1⟩)) ⟨-2, -2, -2⟩ ⟨-1, -1, -1⟩ := by
  rw [tetraFaces_unit_simplex]
  constructor <;> intro t ht <;> simp only [List.mem_cons, List.not_mem_nil, or_false] at ht
  · rcases ht with rfl | rfl | rfl | rfl
    · exact ⟨1 / 10, -1, by tri_far_box⟩
    · exact ⟨1 / 10, -1, by tri_far_box⟩
    · exact ⟨2 / 5, -1, by tri_far_box⟩
    · exact ⟨1 / 10, -1, by tri_far_box⟩
  · rcases ht with rfl | rfl | rfl | rfl
    · exact ⟨1, 1, by tri_far_box⟩
    · exact ⟨1, 1, by tri_far_box⟩
    · exact ⟨4, -1, by tri_far_box⟩
    · exact ⟨1, 1, by tri_far_box⟩

-- non-vacuity: a box INSIDE the unit simplex (there B = μ₀H + J: the inside test is true at its corner), a box outside, a flat
-- rectangle inside; the same four faces as a TriangularMesh row with the inside term J
example : tetraInside (⟨0, 0, 0⟩ : V3 ℝ) ⟨1, 0, 0⟩ ⟨0, 1, 0⟩ ⟨0, 0, 1⟩ ⟨1 / 10, 1 / 10, 1 / 10⟩ = true := by
  rw [tetraInside_iff]
  simp only [det3, V3.sub_x, V3.sub_y, V3.sub_z]
  norm_num
example (pol : V3 ℝ) : boxFlux6 (bhjmTetra .B (⟨0, 0, 0⟩ : V3 ℝ) ⟨1, 0, 0⟩ ⟨0, 1, 0⟩ ⟨0, 0, 1⟩ pol)
    ⟨1 / 10, 1 / 10, 1 / 10⟩ ⟨1 / 5, 1 / 5, 1 / 5⟩ = 0 :=
  (tetra_box_flux_zero _ _ _ _ pol _ _ (by norm_num) (by norm_num) (by norm_num) tetra_facesFarBox_examples.1.facesClearBox).2
example (pol : V3 ℝ) : boxFlux6 (bhjmTetra .B (⟨0, 0, 0⟩ : V3 ℝ) ⟨1, 0, 0⟩ ⟨0, 1, 0⟩ ⟨0, 0, 1⟩ pol) ⟨-2, -2, -2⟩ ⟨-1, -1, -1⟩ = 0 :=
  (tetra_box_flux_zero _ _ _ _ pol _ _ (by norm_num) (by norm_num) (by norm_num) tetra_facesFarBox_examples.2.facesClearBox).2
example (pol : V3 ℝ) : rectCircY4 (bhjmTetra .H (⟨0, 0, 0⟩ : V3 ℝ) ⟨1, 0, 0⟩ ⟨0, 1, 0⟩ ⟨0, 0, 1⟩ pol)
    ⟨1 / 10, 1 / 10, 1 / 10⟩ ⟨1 / 5, 1 / 5, 1 / 5⟩ (3 / 20) = 0 :=
  ((tetra_rect_circulation_zero _ _ _ _ pol _ _ (by norm_num) (by norm_num) (by norm_num)
    tetra_facesFarBox_examples.1.facesClearBox).2.2 (3 / 20) (by simp only [mem_Icc]; norm_num)).2
example (pol : V3 ℝ) :
    boxFlux6 (fun q => meshRowSheets ⟨tetraFaces ((⟨0, 0, 0⟩ : V3 ℝ), ⟨1, 0, 0⟩, ⟨0, 1, 0⟩, ⟨0, 0, 1⟩), q, pol⟩ + pol)
      ⟨1 / 10, 1 / 10, 1 / 10⟩ ⟨1 / 5, 1 / 5, 1 / 5⟩ = 0 :=
  (trimesh_row_box_flux_zero _ pol pol _ _ (by norm_num) (by norm_num) (by norm_num) tetra_facesFarBox_examples.1.facesClearBox).2

end triangle_integral

end MagpyVerif.C14
