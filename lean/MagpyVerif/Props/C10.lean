/-
Props/C10.lean — operations on a Collection keep every child's pose relative to it.

`relAt c d i` is the pose of `d` in the frame of `c` at path index `i`:
`(R_c(i)⁻¹ (p_d(i) − p_c(i)), R_c(i)⁻¹ R_d(i))`.  The theorems are about the tree model
(`Node.move`, `Node.rotate` = the recursive `BaseTransform.move/_rotate` with `parent_path`),
over an arbitrary group `G` acting on an arbitrary additive group `V`.
-/
import MagpyVerif.Lemmas.RelPose
import MagpyVerif.Lemmas.Setters
import MagpyVerif.Lemmas.OctaCarrier
namespace MagpyVerif.C10
open MagpyVerif Gen Spec
variable {G V : Type}

/-- every object of the tree has position and orientation paths of length `N`
("members share the collection's path length") -/
def Uniform (N : Nat) (n : Node G V) : Prop :=
  ∀ d ∈ n.objs, d.pos.length = N ∧ d.ori.length = N

section
variable [Group G] [AddCommGroup V] [DistribMulAction G V]

/-- C10(a): `move` on a collection (any input form and `start`): every descendant at any
nesting depth is moved by the same operation, so its pose in the collection frame at every new
path index `i` is its old relative pose at the index `i` is based on; all members keep a common
path length. -/
theorem move_relative_pose_invariant (o : Obj G V) (cs : List (Node G V)) (N : Nat) (hN : 1 ≤ N)
    (hU : Uniform N (Node.mk o cs)) (inp : PathIn V) (start : Option Int) :
    let w := window inp.isScalar N inp.lenip start
    ((Node.mk o cs).move inp start).objs = (Node.mk o cs).objs.map (applyMove inp start) ∧
    (∀ d ∈ (Node.mk o cs).objs, ∀ i,
      relAt (applyMove inp start o) (applyMove inp start d) i =
        if i < w.newLen then relAt o d (min (i - w.b) (N - 1)) else none) ∧
    Uniform w.newLen ((Node.mk o cs).move inp start) ∧ 1 ≤ w.newLen := by
  intro w
  have ho : o.pos.length = N ∧ o.ori.length = N := hU o (by simp [Node.objs])
  refine ⟨Node.move_objs inp start _, ?_, ?_, window_newLen_pos _ _ _ _ hN⟩
  · intro d hd i
    exact rel_applyMove inp start o d N hN ho (hU d hd) i
  · intro d' hd'
    rw [Node.move_objs] at hd'
    obtain ⟨d, hd, rfl⟩ := List.mem_map.mp hd'
    exact length_applyMove inp start d N hN (hU d hd)

/-- C10(b): `rotate` / `rotate_from_*` on a collection, any anchor form (none = about the
collection's own position path, handed down as `parent_path` through nested collections), any
`start`: the collection object and every descendant end up with the same relative pose. -/
theorem rotate_relative_pose_invariant (o : Obj G V) (cs : List (Node G V)) (N : Nat) (hN : 1 ≤ N)
    (hU : Uniform N (Node.mk o cs)) (rot : PathIn G) (anchor : Option (PathIn V))
    (start : Option Int) (hr : rot.WF) (ha : ∀ a, anchor = some a → a.WF) :
    let w := rotWindow rot anchor N start
    let ds := (cs.map Node.objs).flatten
    ((Node.mk o cs).rotate rot anchor start none).objs =
      applyRotation rot anchor start none o :: ds.map (applyRotation rot anchor start (some o.pos)) ∧
    (∀ d ∈ ds, ∀ i,
      relAt (applyRotation rot anchor start none o) (applyRotation rot anchor start (some o.pos) d) i =
        if i < w.newLen then relAt o d (min (i - w.b) (N - 1)) else none) ∧
    Uniform w.newLen ((Node.mk o cs).rotate rot anchor start none) ∧ 1 ≤ w.newLen := by
  intro w ds
  have ho : o.pos.length = N ∧ o.ori.length = N := hU o (by simp [Node.objs])
  have hds : ∀ d ∈ ds, d.pos.length = N ∧ d.ori.length = N := by
    intro d hd
    exact hU d (by simp only [Node.objs, List.mem_cons]; exact Or.inr hd)
  refine ⟨Node.rotate_objs_none rot anchor start o cs, ?_, ?_, window_newLen_pos _ _ _ _ hN⟩
  · intro d hd i
    exact rel_applyRotation rot anchor start o d N hN ho (hds d hd) hr ha i
  · intro d' hd'
    rw [Node.rotate_objs_none] at hd'
    rcases List.mem_cons.mp hd' with rfl | hmem
    · exact length_applyRotation rot anchor start none o N hN ho hr ha
    · obtain ⟨d, hd, rfl⟩ := List.mem_map.mp hmem
      exact length_applyRotation rot anchor start (some o.pos) d N hN (hds d hd) hr ha

/-- C10(c): operating on a child alone changes only that child's subtree: the collection's own
object and every sibling are untouched. -/
theorem child_operation_is_local (f : Node G V → Node G V) (o : Obj G V) (cs : List (Node G V))
    (i : Nat) (rest : List Nat) :
    (Node.modifyAt f (i :: rest) (Node.mk o cs)).obj = o ∧
    ∀ j, j ≠ i → (Node.modifyAt f (i :: rest) (Node.mk o cs)).children[j]? = cs[j]? := by
  refine ⟨rfl, ?_⟩
  intro j hj
  simp only [Node.modifyAt, Node.children, List.getElem?_mapIdx]
  cases cs[j]? with
  | none => rfl
  | some c => simp [hj]

/-- C10(d): `collection.position = Y` (any new path length): every descendant at any depth is
re-based so that its pose in the collection frame is its old relative pose at the retained
path index (end-sliced or edge-padded like the collection's own paths). -/
theorem setPosition_relative_pose_invariant (o : Obj G V) (cs : List (Node G V)) (Y : List V)
    (hY : Y ≠ []) (hall : (Node.mk o cs).All Obj.Inv) :
    let M := Y.length
    ((Node.mk o cs).setPosition Y).objs = (Node.mk o cs).objs.map (fun d =>
        { pos := vadd Y (vsub (padSlice M d.pos) (padSlice M o.pos)), ori := padSlice M d.ori }) ∧
    (∀ d ∈ (Node.mk o cs).objs, ∀ i,
      relAt { pos := Y, ori := padSlice M o.ori }
            { pos := vadd Y (vsub (padSlice M d.pos) (padSlice M o.pos)), ori := padSlice M d.ori } i =
        relAt (psObj M o) (psObj M d) i) ∧
    (∀ N, 1 ≤ N → Uniform N (Node.mk o cs) → ∀ d ∈ (Node.mk o cs).objs, ∀ i,
      relAt (psObj M o) (psObj M d) i = if i < M then relAt o d (psIndex N M i) else none) := by
  intro M
  refine ⟨Node.setPosition_objs _ Y hY hall, ?_, ?_⟩
  · intro d hd i
    exact rel_setPosition Y o d hY (Node.all_mk.mp hall).1 (Node.all_objs _ hall d hd) i
  · intro N hN hU d hd i
    exact rel_psObj o d N M hN (hU o (by simp [Node.objs])) (hU d hd) i

/-- C10(e): `collection.orientation = Q`: the collection takes `Q`; every descendant is rotated
about the collection's position path by `Q_i · old_i⁻¹`, which leaves its pose in the collection
frame unchanged at every retained path index. -/
theorem setOrientation_relative_pose_invariant (o : Obj G V) (cs : List (Node G V)) (Q : List G)
    (hQ : Q ≠ []) (hall : (Node.mk o cs).All Obj.Inv) :
    let M := Q.length
    let t := Node.squeezeRot (List.zipWith (fun a b => a * b⁻¹) Q (padSlice M o.ori))
    let ds := (cs.map Node.objs).flatten
    ((Node.mk o cs).setOrientation Q).objs =
      { pos := padSlice M o.pos, ori := Q } ::
        ds.map (fun d => applyRotation t (some (.vector (padSlice M o.pos))) (some 0) none (psObj M d)) ∧
    (∀ d ∈ ds, ∀ i,
      relAt { pos := padSlice M o.pos, ori := Q }
            (applyRotation t (some (.vector (padSlice M o.pos))) (some 0) none (psObj M d)) i =
        relAt (psObj M o) (psObj M d) i) := by
  intro M t ds
  refine ⟨Node.setOrientation_objs o cs Q hQ hall, ?_⟩
  intro d hd i
  have hdinv : d.Inv := Node.all_objs _ hall d (by simp only [Node.objs, List.mem_cons]; exact Or.inr hd)
  exact rel_setOrientation Q hQ o d (Node.all_mk.mp hall).1 hdinv i

end

-- non-vacuity: a nested tree with common path length 2 satisfies the hypotheses
example : Uniform 2 (Node.mk (G := Int) (V := Int) ⟨[1, 2], [0, 0]⟩
    [Node.mk ⟨[5, 6], [1, 1]⟩ [Node.mk ⟨[7, 8], [2, 2]⟩ []]]) := by
  intro d hd
  simp [Node.objs] at hd
  rcases hd with rfl | rfl | rfl <;> exact ⟨rfl, rfl⟩


/-! ### on the carrier the driver computes with (AUDIT X1)

The theorems above are over an abstract `Group G`; the `path` stream compares the real code with the same model
functions evaluated at `M3 Int` / `V3 Int` (Model/Basic.lean, `⁻¹` = transpose — not a group).  Through
Lemmas/OctaCarrier.lean (`Oct`, the group of octahedral rotation matrices; `applyRotation_at_Oct_eq_at_M3Int`,
`relAt_at_Oct_eq_at_M3Int`) they hold for the driver's evaluation whenever all rotation matrices involved are
octahedral (`IsOct`: orthogonal of determinant 1 — the only ones the stream sends). -/
section driverCarrier

/-- **C10(b) on the driver's carrier**: `rotate` on a collection, evaluated with the integer matrix operations —
every descendant keeps its pose relative to the collection (`relAt` computed with `⁻¹` = transpose). -/
theorem rotate_relative_pose_invariant_on_driver_carrier (o : ObjZ) (cs : List (Node (M3 Int) (V3 Int)))
    (N : Nat) (hN : 1 ≤ N) (hU : Uniform N (Node.mk o cs)) (rot : PathIn (M3 Int))
    (anchor : Option (PathIn (V3 Int))) (start : Option Int) (hr : rot.WF) (ha : ∀ a, anchor = some a → a.WF)
    (hro : rot.RotsOct) (hto : ∀ d ∈ (Node.mk o cs).objs, d.RotsOct) :
    let w := rotWindow rot anchor N start
    let ds := (cs.map Node.objs).flatten
    ((Node.mk o cs).rotate rot anchor start none).objs =
      applyRotation rot anchor start none o :: ds.map (applyRotation rot anchor start (some o.pos)) ∧
    (∀ d ∈ ds, ∀ i,
      relAt (applyRotation rot anchor start none o) (applyRotation rot anchor start (some o.pos) d) i =
        if i < w.newLen then relAt o d (min (i - w.b) (N - 1)) else none) ∧
    Uniform w.newLen ((Node.mk o cs).rotate rot anchor start none) ∧ 1 ≤ w.newLen := by
  intro w ds
  have ho : o.pos.length = N ∧ o.ori.length = N := hU o (by simp [Node.objs])
  have hmem : ∀ d ∈ ds, d ∈ (Node.mk o cs).objs := by
    intro d hd
    simp only [Node.objs, List.mem_cons]; exact Or.inr hd
  have hds : ∀ d ∈ ds, d.pos.length = N ∧ d.ori.length = N := fun d hd => hU d (hmem d hd)
  refine ⟨Node.rotate_objs_none rot anchor start o cs, ?_, ?_, window_newLen_pos _ _ _ _ hN⟩
  · intro d hd i
    exact rel_applyRotation_on_driver_carrier rot anchor start o d N hN ho (hds d hd) hr ha hro
      (hto o (by simp [Node.objs])) (hto d (hmem d hd)) i
  · intro d' hd'
    rw [Node.rotate_objs_none] at hd'
    rcases List.mem_cons.mp hd' with rfl | hmem'
    · exact length_applyRotation rot anchor start none o N hN ho hr ha
    · obtain ⟨d, hd, rfl⟩ := List.mem_map.mp hmem'
      exact length_applyRotation rot anchor start (some o.pos) d N hN (hds d hd) hr ha

/-- **C10(a) on the driver's carrier**: `move` on a collection, evaluated with the integer matrix operations -/
theorem move_relative_pose_invariant_on_driver_carrier (o : ObjZ) (cs : List (Node (M3 Int) (V3 Int)))
    (N : Nat) (hN : 1 ≤ N) (hU : Uniform N (Node.mk o cs)) (inp : PathIn (V3 Int)) (start : Option Int)
    (hto : ∀ d ∈ (Node.mk o cs).objs, d.RotsOct) :
    let w := window inp.isScalar N inp.lenip start
    ((Node.mk o cs).move inp start).objs = (Node.mk o cs).objs.map (applyMove inp start) ∧
    (∀ d ∈ (Node.mk o cs).objs, ∀ i,
      relAt (applyMove inp start o) (applyMove inp start d) i =
        if i < w.newLen then relAt o d (min (i - w.b) (N - 1)) else none) ∧
    Uniform w.newLen ((Node.mk o cs).move inp start) ∧ 1 ≤ w.newLen := by
  intro w
  have ho : o.pos.length = N ∧ o.ori.length = N := hU o (by simp [Node.objs])
  refine ⟨Node.move_objs inp start _, ?_, ?_, window_newLen_pos _ _ _ _ hN⟩
  · intro d hd i
    exact rel_applyMove_on_driver_carrier inp start o d N hN ho (hU d hd) (hto o (by simp [Node.objs]))
      (hto d hd) i
  · intro d' hd'
    rw [Node.move_objs] at hd'
    obtain ⟨d, hd, rfl⟩ := List.mem_map.mp hd'
    exact length_applyMove inp start d N hN (hU d hd)

-- non-vacuity, driver-style data: a collection with a 2-step path (turned by 90° about z at its second step) and
-- one child (turned by 90° about x), rotated by a further 90° about z about an integer anchor: all hypotheses hold
open Level2.DriverExample in
example :
    let t : Node (M3 Int) (V3 Int) :=
      .mk ⟨[⟨1, 0, 0⟩, ⟨2, 0, 0⟩], [1, rotZ90]⟩ [.mk ⟨[⟨5, 0, 1⟩, ⟨6, 0, 1⟩], [rotX90, rotX90]⟩ []]
    Uniform 2 t ∧ (PathIn.scalar rotZ90).WF ∧ (PathIn.scalar rotZ90).RotsOct ∧ (∀ d ∈ t.objs, d.RotsOct) := by
  refine ⟨?_, trivial, ?_, ?_⟩
  · intro d hd
    simp [Node.objs] at hd
    rcases hd with rfl | rfl <;> exact ⟨rfl, rfl⟩
  · simp only [PathIn.RotsOct, PathIn.toList, List.mem_singleton, forall_eq]; decide
  · intro d hd
    simp [Node.objs] at hd
    rcases hd with rfl | rfl <;>
      (simp only [Obj.RotsOct, List.mem_cons, List.not_mem_nil, or_false, forall_eq_or_imp, forall_eq]; decide)
-- … and one relative pose evaluated as the driver evaluates it, before and after the rotation (scalar input: the
-- whole path is rotated, the relative pose of the child at path index 1 is unchanged)
open Level2.DriverExample in
example :
    let o : ObjZ := ⟨[⟨1, 0, 0⟩, ⟨2, 0, 0⟩], [1, rotZ90]⟩
    let d : ObjZ := ⟨[⟨5, 0, 1⟩, ⟨6, 0, 1⟩], [rotX90, rotX90]⟩
    relAt (applyRotation (.scalar rotZ90) (some (.scalar ⟨0, 3, 0⟩)) none none o)
        (applyRotation (.scalar rotZ90) (some (.scalar ⟨0, 3, 0⟩)) none (some o.pos) d) 1 = relAt o d 1 ∧
    relAt o d 1 = some (⟨0, -4, 1⟩, ⟨⟨0, 1, 0⟩, ⟨-1, 0, 0⟩, ⟨0, 0, 1⟩⟩ * rotX90) := by decide
end driverCarrier

end MagpyVerif.C10
