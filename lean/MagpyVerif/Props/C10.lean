/-
Props/C10.lean — operations on a Collection keep every child's pose relative to it.

`relAt c d i` is the pose of `d` in the frame of `c` at path index `i`:
`(R_c(i)⁻¹ (p_d(i) − p_c(i)), R_c(i)⁻¹ R_d(i))`.  The theorems are about the tree model
(`Node.move`, `Node.rotate` = the recursive `BaseTransform.move/_rotate` with `parent_path`),
over an arbitrary group `G` acting on an arbitrary additive group `V`.
-/
import MagpyVerif.Lemmas.RelPose
import MagpyVerif.Lemmas.Setters
import MagpyVerif.Lemmas.OctaCarrier
import MagpyVerif.Lemmas.OwnSensor
import MagpyVerif.Lemmas.OwnSensorHist
import MagpyVerif.Lemmas.HistoryCarrier
import MagpyVerif.Lemmas.KernReal
namespace MagpyVerif.C10
open MagpyVerif Gen Spec
variable {G V : Type}

/-- every object of the tree has position and orientation paths of length `N`
("members share the collection's path length") -/
def Uniform (N : Nat) (n : Node G V) : Prop :=
  ∀ d ∈ n.objs, d.pos.length = N ∧ d.ori.length = N

section
variable [Group G] [AddCommGroup V] [DistribMulAction G V]

/-- C10(a): `move` on a collection (any input form and `start`): every descendant at any
nesting depth is moved by the same operation, so its pose in the collection frame at every new
path index `i` is its old relative pose at the index `i` is based on; all members keep a common
path length. -/
theorem move_relative_pose_invariant (o : Obj G V) (cs : List (Node G V)) (N : Nat) (hN : 1 ≤ N)
    (hU : Uniform N (Node.mk o cs)) (inp : PathIn V) (start : Option Int) :
    let w := window inp.isScalar N inp.lenip start
    ((Node.mk o cs).move inp start).objs = (Node.mk o cs).objs.map (applyMove inp start) ∧
    (∀ d ∈ (Node.mk o cs).objs, ∀ i,
      relAt (applyMove inp start o) (applyMove inp start d) i =
        if i < w.newLen then relAt o d (min (i - w.b) (N - 1)) else none) ∧
    Uniform w.newLen ((Node.mk o cs).move inp start) ∧ 1 ≤ w.newLen := by
  intro w
  have ho : o.pos.length = N ∧ o.ori.length = N := hU o (by simp [Node.objs])
  refine ⟨Node.move_objs inp start _, ?_, ?_, window_newLen_pos _ _ _ _ hN⟩
  · intro d hd i
    exact rel_applyMove inp start o d N hN ho (hU d hd) i
  · intro d' hd'
    rw [Node.move_objs] at hd'
    obtain ⟨d, hd, rfl⟩ := List.mem_map.mp hd'
    exact length_applyMove inp start d N hN (hU d hd)

/-- C10(b): `rotate` / `rotate_from_*` on a collection, any anchor form (none = about the
collection's own position path, handed down as `parent_path` through nested collections), any
`start`: the collection object and every descendant end up with the same relative pose. -/
theorem rotate_relative_pose_invariant (o : Obj G V) (cs : List (Node G V)) (N : Nat) (hN : 1 ≤ N)
    (hU : Uniform N (Node.mk o cs)) (rot : PathIn G) (anchor : Option (PathIn V))
    (start : Option Int) (hr : rot.WF) (ha : ∀ a, anchor = some a → a.WF) :
    let w := rotWindow rot anchor N start
    let ds := (cs.map Node.objs).flatten
    ((Node.mk o cs).rotate rot anchor start none).objs =
      applyRotation rot anchor start none o :: ds.map (applyRotation rot anchor start (some o.pos)) ∧
    (∀ d ∈ ds, ∀ i,
      relAt (applyRotation rot anchor start none o) (applyRotation rot anchor start (some o.pos) d) i =
        if i < w.newLen then relAt o d (min (i - w.b) (N - 1)) else none) ∧
    Uniform w.newLen ((Node.mk o cs).rotate rot anchor start none) ∧ 1 ≤ w.newLen := by
  intro w ds
  have ho : o.pos.length = N ∧ o.ori.length = N := hU o (by simp [Node.objs])
  have hds : ∀ d ∈ ds, d.pos.length = N ∧ d.ori.length = N := by
    intro d hd
    exact hU d (by simp only [Node.objs, List.mem_cons]; exact Or.inr hd)
  refine ⟨Node.rotate_objs_none rot anchor start o cs, ?_, ?_, window_newLen_pos _ _ _ _ hN⟩
  · intro d hd i
    exact rel_applyRotation rot anchor start o d N hN ho (hds d hd) hr ha i
  · intro d' hd'
    rw [Node.rotate_objs_none] at hd'
    rcases List.mem_cons.mp hd' with rfl | hmem
    · exact length_applyRotation rot anchor start none o N hN ho hr ha
    · obtain ⟨d, hd, rfl⟩ := List.mem_map.mp hmem
      exact length_applyRotation rot anchor start (some o.pos) d N hN (hds d hd) hr ha

/-- C10(c): operating on a child alone changes only that child's subtree: the collection's own
object and every sibling are untouched. -/
theorem child_operation_is_local (f : Node G V → Node G V) (o : Obj G V) (cs : List (Node G V))
    (i : Nat) (rest : List Nat) :
    (Node.modifyAt f (i :: rest) (Node.mk o cs)).obj = o ∧
    ∀ j, j ≠ i → (Node.modifyAt f (i :: rest) (Node.mk o cs)).children[j]? = cs[j]? := by
  refine ⟨rfl, ?_⟩
  intro j hj
  simp only [Node.modifyAt, Node.children, List.getElem?_mapIdx]
  cases cs[j]? with
  | none => rfl
  | some c => simp [hj]

/-- C10(d): `collection.position = Y` (any new path length): every descendant at any depth is
re-based so that its pose in the collection frame is its old relative pose at the retained
path index (end-sliced or edge-padded like the collection's own paths). -/
theorem setPosition_relative_pose_invariant (o : Obj G V) (cs : List (Node G V)) (Y : List V)
    (hY : Y ≠ []) (hall : (Node.mk o cs).All Obj.Inv) :
    let M := Y.length
    ((Node.mk o cs).setPosition Y).objs = (Node.mk o cs).objs.map (fun d =>
        { pos := vadd Y (vsub (padSlice M d.pos) (padSlice M o.pos)), ori := padSlice M d.ori }) ∧
    (∀ d ∈ (Node.mk o cs).objs, ∀ i,
      relAt { pos := Y, ori := padSlice M o.ori }
            { pos := vadd Y (vsub (padSlice M d.pos) (padSlice M o.pos)), ori := padSlice M d.ori } i =
        relAt (psObj M o) (psObj M d) i) ∧
    (∀ N, 1 ≤ N → Uniform N (Node.mk o cs) → ∀ d ∈ (Node.mk o cs).objs, ∀ i,
      relAt (psObj M o) (psObj M d) i = if i < M then relAt o d (psIndex N M i) else none) := by
  intro M
  refine ⟨Node.setPosition_objs _ Y hY hall, ?_, ?_⟩
  · intro d hd i
    exact rel_setPosition Y o d hY (Node.all_mk.mp hall).1 (Node.all_objs _ hall d hd) i
  · intro N hN hU d hd i
    exact rel_psObj o d N M hN (hU o (by simp [Node.objs])) (hU d hd) i

/-- C10(e): `collection.orientation = Q`: the collection takes `Q`; every descendant is rotated
about the collection's position path by `Q_i · old_i⁻¹`, which leaves its pose in the collection
frame unchanged at every retained path index. -/
theorem setOrientation_relative_pose_invariant (o : Obj G V) (cs : List (Node G V)) (Q : List G)
    (hQ : Q ≠ []) (hall : (Node.mk o cs).All Obj.Inv) :
    let M := Q.length
    let t := Node.squeezeRot (List.zipWith (fun a b => a * b⁻¹) Q (padSlice M o.ori))
    let ds := (cs.map Node.objs).flatten
    ((Node.mk o cs).setOrientation Q).objs =
      { pos := padSlice M o.pos, ori := Q } ::
        ds.map (fun d => applyRotation t (some (.vector (padSlice M o.pos))) (some 0) none (psObj M d)) ∧
    (∀ d ∈ ds, ∀ i,
      relAt { pos := padSlice M o.pos, ori := Q }
            (applyRotation t (some (.vector (padSlice M o.pos))) (some 0) none (psObj M d)) i =
        relAt (psObj M o) (psObj M d) i) := by
  intro M t ds
  refine ⟨Node.setOrientation_objs o cs Q hQ hall, ?_⟩
  intro d hd i
  have hdinv : d.Inv := Node.all_objs _ hall d (by simp only [Node.objs, List.mem_cons]; exact Or.inr hd)
  exact rel_setOrientation Q hQ o d (Node.all_mk.mp hall).1 hdinv i

end

-- non-vacuity: a nested tree with common path length 2 satisfies the hypotheses
example : Uniform 2 (Node.mk (G := Int) (V := Int) ⟨[1, 2], [0, 0]⟩
    [Node.mk ⟨[5, 6], [1, 1]⟩ [Node.mk ⟨[7, 8], [2, 2]⟩ []]]) := by
  intro d hd
  simp [Node.objs] at hd
  rcases hd with rfl | rfl | rfl <;> exact ⟨rfl, rfl⟩


-- AUDIT2: the equal-length hypothesis `Uniform` is NEEDED (DESIGN §6 announces this counter-example; it was missing):
-- a collection with a one-entry path holding a child with a two-entry path; `move` with a vector of one entry (start =
-- auto: appended) lengthens the collection's path 1 → 2 and the child's 2 → 3.  At path index 1 the child's pose in the
-- collection frame was (2,0,0) (collection read with the stay-at-the-last-pose rule of getBH) and is (2,0,−5) afterwards:
-- the new step of the collection lands on an OLD entry of the child.
example :
    let o : ObjZ := ⟨[⟨0, 0, 0⟩], [1]⟩
    let d : ObjZ := ⟨[⟨1, 0, 0⟩, ⟨2, 0, 0⟩], [1, 1]⟩
    let o' : ObjZ := ⟨[⟨0, 0, 0⟩, ⟨0, 0, 5⟩], [1, 1]⟩
    let d' : ObjZ := ⟨[⟨1, 0, 0⟩, ⟨2, 0, 0⟩, ⟨2, 0, 5⟩], [1, 1, 1]⟩
    ((Node.mk o [.mk d []]).move (.vector [⟨0, 0, 5⟩]) none).objs = [o', d'] ∧
    relAt (⟨[⟨0, 0, 0⟩, ⟨0, 0, 0⟩], [1, 1]⟩ : ObjZ) d 1 = some (⟨2, 0, 0⟩, 1) ∧
    relAt o' d' 1 = some (⟨2, 0, -5⟩, 1) := by
  intro o d o' d'
  refine ⟨?_, by decide, by decide⟩
  rw [Node.move_objs]
  have h1 : applyMove (G := M3 Int) (PathIn.vector [(⟨0, 0, 5⟩ : V3 Int)]) none o = o' := by decide
  have h2 : applyMove (G := M3 Int) (PathIn.vector [(⟨0, 0, 5⟩ : V3 Int)]) none d = d' := by decide
  simp [Node.objs, h1, h2]


/-! ### histories: one refinement theorem (abstract spec in Lemmas/History.lean)

Abstract state of a collection (`CollSpec`): its own pose path `frame` and, per direct child, the path of poses RELATIVE TO
THE COLLECTION FRAME of every object of that child's subtree (any depth).  `absColl` computes it from the tree;
`compose frame rel` gives the absolute path back.  The abstract step `specStep`: the frame follows the single-object
semantics of C09 (`objStep`), every relative path is re-indexed by ONE index map per operation (`Op.effect`: edge
padding `i ↦ min (i − b) (N − 1)` for move / rotate / rotate_from_*, end slicing or edge padding `psIndex` for the
setters, `i ↦ N − 1` for `reset_path`) — i.e. the same rigid motion acts on the same indices of all descendants;
`add` appends the new child's relative paths, `remove` drops a child's block, a rejected call changes nothing. -/
section histories
open RotFrom
variable [Group G] [AddCommGroup V] [DistribMulAction G V] {α : Type} [Kern.Num α]

/-- C10(f): **the abstraction commutes with every step and hence with every history** (induction over the operation
list): for every collection tree whose members share the path length `N ≥ 1`, every finite list of operations addressed
to the collection — move / rotate (any input form, anchor, `start ∈ ℤ ∪ {auto}`) / the six `rotate_from_*` entry points /
`position=` / `orientation=` / `reset_path` / rejected calls / `add` of an object or collection of the current common
length / `remove` of a child — the final tree abstracts to the fold of the abstract steps, all members again share one
length ≥ 1, and every descendant (any depth) IS the collection's final pose path composed with its relative path. -/
theorem history_refines_spec (sc : Scipy α G) (t : Node G V) (N : Nat) (hN : 1 ≤ N) (hU : Uniform N t)
    (ops : List (HOp α G V)) (hadm : Admissible sc N ops) :
    let t' := ops.foldl (Node.hstep sc) t
    absColl t' = ops.foldl (specStep sc) (absColl t) ∧
    Uniform (histLen sc N ops) t' ∧ 1 ≤ histLen sc N ops ∧
    (∀ c ∈ t'.children, ∀ d ∈ c.objs, compose t'.obj (relPath t'.obj d) = d) := by
  intro t'
  obtain ⟨h1, h2, h3⟩ := absColl_history sc ops t N hN hU hadm
  refine ⟨h1, h2, h3, ?_⟩
  intro c hc d hd
  have hmem : d ∈ t'.objs := by
    cases ht : t' with | mk o' cs' =>
    rw [ht] at hc
    exact Node.mem_objs_of_child hc hd
  have ho : t'.obj ∈ t'.objs := by cases t' with | mk o' cs' => simp [Node.objs, Node.obj]
  exact compose_relPath _ _ _ (h2 _ ho) (h2 d hmem)

/-- C10(g): one step, spelled out — what `specStep` is for an operation addressed to the collection: new frame =
the operation applied to the collection's own object alone, relative paths re-indexed by the operation's index map -/
theorem step_refines_spec (o : Obj G V) (cs : List (Node G V)) (N : Nat) (hN : 1 ≤ N)
    (hU : Uniform N (Node.mk o cs)) (op : Op G V) (hroot : op.addr = []) (hwf : op.WF) :
    absColl ((Node.mk o cs).step op) =
      (match op.effect N with
       | none => absColl (Node.mk o cs)
       | some (N', σ) => ⟨objStep o op, (absColl (Node.mk o cs)).rels.map (List.map (reindex σ N'))⟩) ∧
    Uniform (op.newLen N) ((Node.mk o cs).step op) := by
  obtain ⟨h1, h2, _⟩ := absColl_step o cs N hN hU op hroot hwf
  refine ⟨?_, h2⟩
  rw [h1]
  have ho := hU o (by simp [Node.objs])
  simp only [specStepOp, absColl, Node.obj, ho.1]
  cases Op.effect N op <;> rfl

/-- C10(h): `reset_path` on a collection IS `position = (0,0,0)` followed by `orientation = None`; composed: the
collection ends at the one-entry path (origin, unit rotation) and every descendant keeps exactly its LAST relative pose
(`R_C(N−1)⁻¹ (p_d(N−1) − p_C(N−1))`, `R_C(N−1)⁻¹ R_d(N−1)`) as its absolute one-entry path -/
theorem reset_path_spelled_out (o : Obj G V) (cs : List (Node G V)) (N : Nat) (hN : 1 ≤ N)
    (hU : Uniform N (Node.mk o cs)) :
    (Node.mk o cs).step (.reset []) = ((Node.mk o cs).setPosition [0]).setOrientation [1] ∧
    absColl ((Node.mk o cs).step (.reset [])) =
      ⟨⟨[0], [1]⟩, (absColl (Node.mk o cs)).rels.map (List.map (reindex (fun _ => N - 1) 1))⟩ ∧
    Uniform 1 ((Node.mk o cs).step (.reset [])) ∧
    (∀ d : Obj G V, d.pos.length = N ∧ d.ori.length = N →
      compose (⟨[0], [1]⟩ : Obj G V) (reindex (fun _ => N - 1) 1 (relPath o d)) =
        ⟨[(o.ori.getD (N - 1) 1)⁻¹ • (d.pos.getD (N - 1) 0 - o.pos.getD (N - 1) 0)],
         [(o.ori.getD (N - 1) 1)⁻¹ * d.ori.getD (N - 1) 1]⟩) := by
  obtain ⟨h1, h2⟩ := step_refines_spec o cs N hN hU (.reset []) rfl trivial
  refine ⟨rfl, h1, h2, ?_⟩
  intro d hd
  have ho := hU o (by simp [Node.objs])
  have hl := length_relPath o d N ho hd
  have hr := getElem?_relPath o d N ho hd (N - 1)
  have e1 : o.pos[N - 1]? = some (o.pos.getD (N - 1) 0) := by
    rw [List.getD_eq_getElem?_getD, List.getElem?_eq_getElem (by omega)]; rfl
  have e2 : o.ori[N - 1]? = some (o.ori.getD (N - 1) 1) := by
    rw [List.getD_eq_getElem?_getD, List.getElem?_eq_getElem (by omega)]; rfl
  have e3 : d.pos[N - 1]? = some (d.pos.getD (N - 1) 0) := by
    rw [List.getD_eq_getElem?_getD, List.getElem?_eq_getElem (by omega)]; rfl
  have e4 : d.ori[N - 1]? = some (d.ori.getD (N - 1) 1) := by
    rw [List.getD_eq_getElem?_getD, List.getElem?_eq_getElem (by omega)]; rfl
  simp only [relAt, e1, e2, e3, e4] at hr
  simp [compose, reindex, List.getD_eq_getElem?_getD, hr]

-- non-vacuity: an admissible history on the group ℤˣ acting on ℤ (reflections of the line): a collection with a
-- two-step path and one child; scalar move, appended rotation about the collection itself, reset_path
example : ∃ (t : Node ℤˣ ℤ) (ops : List (HOp ℝ ℤˣ ℤ)) (sc : Scipy ℝ ℤˣ),
    Uniform 2 t ∧ Admissible sc 2 ops ∧ ops.length = 3 :=
  ⟨.mk ⟨[1, 2], [1, -1]⟩ [.mk ⟨[5, 6], [1, 1]⟩ []],
   [.base (.move [] (.scalar 3) none), .base (.rotate [] (.vector [-1]) none none), .base (.reset [])],
   ⟨fun _ => 1, fun _ => some 1, fun _ => 1, fun _ => some 1⟩,
   by intro d hd; simp [Node.objs] at hd; rcases hd with rfl | rfl <;> exact ⟨rfl, rfl⟩,
   by simp [Admissible, HOp.Adm, Op.addr, Op.WF, PathIn.WF],
   rfl⟩

-- AUDIT2 non-vacuity of `history_refines_spec` with a NON-TRIVIAL history, the theorem APPLIED: a nested tree (collection ▸
-- sub-collection ▸ object, second child), common length 2; vector move with a negative start reaching in front of the path
-- (2 → 4), vector rotation with a per-step anchor and start −1 (4 → 6), rotate_from_rotvec (scalar, anchor 0), position= of
-- length 3 (end slice), orientation= of length 5 (edge pad), add of a nested collection of length 5, remove of child 0,
-- a rejected call, the empty position (refused), reset_path (→ 1): every hypothesis is discharged and the conclusion used
example :
    let sc : Scipy ℝ ℤˣ := ⟨fun _ => -1, fun _ => some 1, fun _ => 1, fun _ => some 1⟩
    let t : Node ℤˣ ℤ := .mk ⟨[1, 2], [1, -1]⟩ [.mk ⟨[5, 6], [1, 1]⟩ [.mk ⟨[7, 8], [-1, 1]⟩ []], .mk ⟨[0, 0], [-1, 1]⟩ []]
    let ops : List (HOp ℝ ℤˣ ℤ) :=
      [.base (.move [] (.vector [3, 4, 5]) (some (-4))),
       .base (.rotate [] (.vector [-1, 1]) (some (.vector [7, 8, 9])) (some (-1))),
       .rotFrom [] (.rotvec (.scalar ⟨0, 0, 90⟩) true) (some (.scalar 0)) none,
       .base (.setPos [] [1, 2, 3]),
       .base (.setOri [] [1, -1, 1, -1, 1]),
       .add [] (.mk ⟨[1, 1, 1, 1, 1], [1, 1, 1, 1, -1]⟩ [.mk ⟨[2, 2, 2, 2, 2], [1, 1, 1, 1, 1]⟩ []]),
       .remove [] 0,
       .base .rejected,
       .base (.setPos [] []),
       .base (.reset [])]
    histLen sc 2 ops = 1 ∧
    absColl (ops.foldl (Node.hstep sc) t) = ops.foldl (specStep sc) (absColl t) ∧
    Uniform 1 (ops.foldl (Node.hstep sc) t) := by
  intro sc t ops
  have hU : Uniform 2 t := by
    intro d hd; simp [t, Node.objs] at hd; rcases hd with rfl | rfl | rfl | rfl <;> exact ⟨rfl, rfl⟩
  have hl : histLen sc 2 ops = 1 := by decide
  have hadm : Admissible sc 2 ops := by
    refine ⟨⟨rfl, trivial⟩, ⟨rfl, ?_, ?_⟩, ⟨rfl, trivial, ?_⟩, ⟨rfl, trivial⟩, ⟨rfl, trivial⟩, ⟨rfl, ?_⟩, rfl, ⟨rfl, trivial⟩,
      ⟨rfl, trivial⟩, ⟨rfl, trivial⟩, trivial⟩
    · simp [PathIn.WF]
    · intro a ha; cases ha; simp [PathIn.WF]
    · intro a ha; cases ha; trivial
    · show Node.UniformLen 5 _
      intro d hd; simp [Node.objs] at hd; rcases hd with rfl | rfl <;> exact ⟨rfl, rfl⟩
  obtain ⟨h1, h2, _, _⟩ := history_refines_spec sc t 2 (by decide) hU ops hadm
  rw [hl] at h2
  exact ⟨hl, h1, h2⟩

/-! ### histories with operations addressed to ANY node (abstract spec with the tree shape kept: Lemmas/HistoryAddr.lean)

`HSpec`: the collection's frame and a FOREST of relative pose paths (one tree per direct child, shaped like the child's
subtree, every path relative to the collection's frame); `absH` computes it, forgetting the shape gives `absColl` back.
Abstract step `specStepH`: an operation addressed to the collection acts as before (`HSpec.rootStep`: frame by the
single-object semantics, every path of the forest re-indexed by one map); an operation addressed to the descendant
`i :: rest` acts on the `i`-th tree only — re-expressed as the abstract state of that child (`HSpec.toChild`: its absolute
frame `compose frame rel`, its own subtree relative to IT), stepped at address `rest` by the same rule, and expressed in
the collection's frame again (`HSpec.fromChild`); `add` / `remove` at any collection of the tree likewise.
Admissible (`AdmissibleAt`): every operation inside the domain of `rotate`; an operation addressed to a descendant keeps the
path length (else the members stop sharing one length and the property's quantifier no longer applies). -/

/-- C10(j): **the abstraction commutes with every history, operations at any address, any nesting depth** (induction over
the operation list, and for each operation over its address): the final tree abstracts to the fold of the abstract steps;
the members again share one length ≥ 1; the flat abstraction of C10(f) is the same state with the shape forgotten; every
history admissible for C10(f) is admissible here; every descendant IS the frame composed with its relative path. -/
theorem history_refines_spec_any_address (sc : Scipy α G) (t : Node G V) (N : Nat) (hN : 1 ≤ N) (hU : Uniform N t)
    (ops : List (HOp α G V)) (hadm : AdmissibleAt sc N ops) :
    let t' := ops.foldl (Node.hstep sc) t
    absH t' = ops.foldl (specStepH sc) (absH t) ∧
    Uniform (histLen sc N ops) t' ∧ 1 ≤ histLen sc N ops ∧
    absColl t' = ⟨(absH t').frame, (absH t').kids.map RTree.flat⟩ ∧
    (∀ d ∈ t'.objs, compose t'.obj (relPath t'.obj d) = d) ∧
    (∀ ops' : List (HOp α G V), Admissible sc N ops' → AdmissibleAt sc N ops') := by
  intro t'
  obtain ⟨h1, h2, h3⟩ := absH_history sc ops t N hN hU hadm
  refine ⟨h1, h2, h3, absColl_eq_flat t', ?_, fun ops' h => Admissible.at sc ops' N h⟩
  intro d hd
  exact compose_relPath _ _ _ (h2 _ (Node.mem_objs_self t')) (h2 d hd)

/-- C10(k): what the abstract step does for an operation addressed to a descendant, spelled out: the frame and every
sibling tree are untouched ("operating on a child alone changes only that child"); the addressed child's tree is its own
abstract state stepped at the rest of the address — in particular for `rest = []` the child's RELATIVE path becomes
`relPath frame (objStep (compose frame rel) op)` and the child's own subtree follows it rigidly (re-indexed). -/
theorem descendant_step_spelled_out (f : HSpec G V → HSpec G V) (s : HSpec G V) (i : Nat) (rest : List Nat) :
    (HSpec.modifyAt f (i :: rest) s).frame = s.frame ∧
    (∀ j, j ≠ i → (HSpec.modifyAt f (i :: rest) s).kids[j]? = s.kids[j]?) ∧
    (HSpec.modifyAt f (i :: rest) s).kids[i]? =
      s.kids[i]?.map (fun k => HSpec.fromChild s.frame (HSpec.modifyAt f rest (HSpec.toChild s.frame k))) ∧
    (∀ (k : RTree (List (V × G))) (op : Op G V) (N' : Nat) (σ : Nat → Nat),
      op.effect (compose s.frame k.val).pos.length = some (N', σ) →
      HSpec.fromChild s.frame ((HSpec.toChild s.frame k).rootStep op) =
        .mk (relPath s.frame (objStep (compose s.frame k.val) op))
          (((HSpec.toChild s.frame k).kids.map (RTree.map (reindex σ N'))).map
            (RTree.map fun r => relPath s.frame (compose (objStep (compose s.frame k.val) op) r)))) := by
  refine ⟨rfl, ?_, ?_, ?_⟩
  · intro j hj
    simp only [HSpec.modifyAt, List.getElem?_mapIdx]
    cases s.kids[j]? with
    | none => rfl
    | some k => simp [hj]
  · simp only [HSpec.modifyAt, List.getElem?_mapIdx]
    cases s.kids[i]? with
    | none => rfl
    | some k => simp
  · intro k op N' σ he
    have hf : (HSpec.toChild s.frame k).frame = compose s.frame k.val := rfl
    simp only [HSpec.rootStep, hf, he, HSpec.fromChild]

/-- C10(l) **history_index_map**: the index map of a history in closed form.  `histIdx sc N ops` is the composition of
the per-operation maps (`i ↦ min (i − b) (N − 1)` for move / rotate / rotate_from_*, `psIndex` — end slicing or edge
padding — for the setters, `i ↦ N − 1` for reset_path, the identity for operations addressed to descendants, add, remove and
rejected calls), first operation outermost.  For every member (address `k :: m0`, any depth) that the history does not
touch (`histTrack`: not removed, not addressed itself or through an ancestor below the collection; the address follows the
removes), its object after the history is the collection's final pose path composed with its INITIAL relative path
re-indexed by `histIdx`; pointwise: its pose in the collection frame at every final index `i` is its initial relative pose
at index `histIdx … i`. -/
theorem history_index_map (sc : Scipy α G) (t : Node G V) (N : Nat) (hN : 1 ≤ N) (hU : Uniform N t)
    (ops : List (HOp α G V)) (hadm : AdmissibleAt sc N ops) (k : Nat) (m0 m' : List Nat) (d : Obj G V)
    (htr : histTrack sc ops (k :: m0) = some m') (hd : t.objAt? (k :: m0) = some d) :
    let t' := ops.foldl (Node.hstep sc) t
    ∃ d', t'.objAt? m' = some d' ∧
      d' = compose t'.obj (reindex (histIdx sc N ops) (histLen sc N ops) (relPath t.obj d)) ∧
      (∀ i, i < histLen sc N ops → histIdx sc N ops i < N ∧ relAt t'.obj d' i = relAt t.obj d (histIdx sc N ops i)) := by
  intro t'
  obtain ⟨d', hd', hrel⟩ := objAt_history sc ops t N hN hU hadm k m0 m' d htr hd
  obtain ⟨_, hU', _⟩ := absH_history sc ops t N hN hU hadm
  refine ⟨d', hd', ?_, ?_⟩
  · rw [← hrel]
    exact (compose_relPath _ _ _ (hU' _ (Node.mem_objs_self t')) (hU' d' (Node.objAt?_mem _ _ _ hd'))).symm
  · intro i hi
    obtain ⟨_, _, h3, h4⟩ := relAt_history sc ops t N hN hU hadm d d' ⟨k, m0, m', htr, hd, hd'⟩ i hi
    exact ⟨h3, h4⟩

/-- AUDIT2, C10(l'): **`history_index_map` without the `Option`** — `relAt` is `Option`-valued, and an equality of two `none`s
would say nothing: for every member the history does not touch and every final path index `i`, BOTH relative poses exist and
are the same pair `p = (R_C⁻¹ (p_d − p_C), R_C⁻¹ R_d)`: the pose of the member in the collection's frame after the history
at index `i` is its pose in the collection's frame before the history at index `histIdx … i` — the property's sentence
("each child's position and orientation expressed in the collection's frame are unchanged at every path index"), with the
re-indexing map made explicit. -/
theorem history_index_map_some (sc : Scipy α G) (t : Node G V) (N : Nat) (hN : 1 ≤ N) (hU : Uniform N t)
    (ops : List (HOp α G V)) (hadm : AdmissibleAt sc N ops) (k : Nat) (m0 m' : List Nat) (d : Obj G V)
    (htr : histTrack sc ops (k :: m0) = some m') (hd : t.objAt? (k :: m0) = some d) :
    ∃ d', (ops.foldl (Node.hstep sc) t).objAt? m' = some d' ∧
      ∀ i, i < histLen sc N ops → ∃ p : V × G,
        relAt t.obj d (histIdx sc N ops i) = some p ∧ relAt (ops.foldl (Node.hstep sc) t).obj d' i = some p := by
  obtain ⟨d', hd', _, h⟩ := history_index_map sc t N hN hU ops hadm k m0 m' d htr hd
  refine ⟨d', hd', ?_⟩
  intro i hi
  obtain ⟨hlt, he⟩ := h i hi
  have ho := hU t.obj (Node.mem_objs_self t)
  have hdl := hU d (Node.objAt?_mem _ _ _ hd)
  have hl := length_relPath t.obj d N ho hdl
  have hr := getElem?_relPath t.obj d N ho hdl (histIdx sc N ops i)
  rw [List.getElem?_eq_getElem (by omega)] at hr
  exact ⟨_, hr.symm, by rw [he]; exact hr.symm⟩

/-- the recursion `histIdx` is defined by, and the per-operation maps -/
theorem histIdx_unfold (sc : Scipy α G) (N : Nat) (op : HOp α G V) (rest : List (HOp α G V)) (a : List Nat)
    (inp : PathIn V) (rot : PathIn G) (an : Option (PathIn V)) (s : Option Int) (Y : List V) (Q : List G) :
    histIdx sc N (op :: rest) = op.idx sc N ∘ histIdx sc (op.newLen sc N) rest ∧
    histIdx sc N ([] : List (HOp α G V)) = id ∧
    (HOp.base (.move [] inp s) : HOp α G V).idx sc N = (fun i => min (i - (window inp.isScalar N inp.lenip s).b) (N - 1)) ∧
    (HOp.base (.rotate [] rot an s) : HOp α G V).idx sc N = (fun i => min (i - (rotWindow rot an N s).b) (N - 1)) ∧
    (Y ≠ [] → (HOp.base (.setPos [] Y) : HOp α G V).idx sc N = psIndex N Y.length) ∧
    (Q ≠ [] → (HOp.base (.setOri [] Q) : HOp α G V).idx sc N = psIndex N Q.length) ∧
    (HOp.base (.reset []) : HOp α G V).idx sc N = (fun _ => N - 1) ∧
    (a ≠ [] → (HOp.base (.move a inp s) : HOp α G V).idx sc N = id) := by
  refine ⟨rfl, rfl, rfl, rfl, ?_, ?_, rfl, ?_⟩
  · intro hY
    have : Y.isEmpty = false := by cases Y <;> simp_all
    simp [HOp.idx, Op.idx, Op.addr, Op.effect, this]
  · intro hQ
    have : Q.isEmpty = false := by cases Q <;> simp_all
    simp [HOp.idx, Op.idx, Op.addr, Op.effect, this]
  · intro ha
    have : a.isEmpty = false := by cases a <;> simp_all
    simp [HOp.idx, Op.idx, Op.addr, this]

-- non-vacuity: a nested tree (collection ▸ sub-collection ▸ object, plus a second child), common length 2; the history
-- moves the collection (scalar), moves the SUB-COLLECTION alone (scalar, keeps the length), appends a rotation of the
-- collection and resets it: admissible; the second child (address [1]) is not touched and its index map is
-- 0 ↦ min(0,1)=… composed: every final index shows the initial pose at index 1 (reset_path keeps the last pose)
example : ∃ (t : Node ℤˣ ℤ) (ops : List (HOp ℝ ℤˣ ℤ)) (sc : Scipy ℝ ℤˣ),
    Uniform 2 t ∧ AdmissibleAt sc 2 ops ∧ histTrack sc ops [1] = some [1] ∧ histTrack sc ops [0, 0] = none ∧
    (∃ d, t.objAt? [1] = some d) ∧ histLen sc 2 ops = 1 ∧ histIdx sc 2 ops 0 = 1 := by
  refine ⟨.mk ⟨[1, 2], [1, -1]⟩ [.mk ⟨[5, 6], [1, 1]⟩ [.mk ⟨[7, 8], [-1, 1]⟩ []], .mk ⟨[0, 0], [-1, 1]⟩ []],
   [.base (.move [] (.scalar 3) none), .base (.move [0] (.scalar 4) none),
    .base (.rotate [] (.vector [-1]) none none), .base (.reset [])],
   ⟨fun _ => 1, fun _ => some 1, fun _ => 1, fun _ => some 1⟩, ?_, ?_, by decide, by decide, ⟨_, rfl⟩, by decide, by decide⟩
  · intro d hd; simp [Node.objs] at hd; rcases hd with rfl | rfl | rfl | rfl <;> exact ⟨rfl, rfl⟩
  · refine ⟨⟨trivial, fun h => absurd rfl h⟩, ⟨trivial, fun _ => by decide⟩, ⟨⟨?_, ?_⟩, fun h => absurd rfl h⟩,
      ⟨trivial, fun h => absurd rfl h⟩, trivial⟩
    · simp [PathIn.WF]
    · intro a ha; cases ha
end histories

/-! ### the collection's field seen by one of its own sensors -/
section ownSensor
open Level2
variable [Group G] [AddCommGroup V] [DistribMulAction G V]

/-- C10(i) **own_sensor_field_invariant** (C10 rigid compound + C03 covariance per path index): a collection (own object
`o`, members sharing the path length `N`) with source objects `srcs` (each with an arbitrary local field function) and a
sensor `ks` among its descendants (any depth) is rotated — `rotate` / any `rotate_from_*`, any input form, anchor (none =
about the collection's own path, handed down as `parent_path`) and `start`.  At every new path index `i` the sensor reads,
pixel by pixel, what it read before at the old index `i` is based on (`i` itself when nothing was padded in front; the
last old index for appended entries): the field of the collection in the frame of its own sensor is unchanged.
Hypotheses explicit: `G` a group acting on the additive group `V` by additive maps (`DistribMulAction`) — what scipy
`Rotation` is assumed to be (DESIGN §4); no hypothesis on the field functions. -/
theorem own_sensor_field_invariant (flipX : V → V) (o : Obj G V) (cs : List (Node G V)) (N : Nat) (hN : 1 ≤ N)
    (hU : Uniform N (Node.mk o cs)) (rot : PathIn G) (anchor : Option (PathIn V)) (start : Option Int)
    (hr : rot.WF) (ha : ∀ a, anchor = some a → a.WF)
    (srcs : List (Obj G V × (V → V))) (ks : Obj G V) (pixels : List V) (pixShape : List Nat) (left : Bool)
    (hs : ∀ a ∈ srcs, a.1 ∈ (cs.map Node.objs).flatten) (hk : ks ∈ (cs.map Node.objs).flatten)
    (i : Nat) (hi : i < (rotWindow rot anchor N start).newLen) :
    let F := applyRotation rot anchor start (some o.pos)
    (∀ d ∈ (cs.map Node.objs).flatten, F d ∈ ((Node.mk o cs).rotate rot anchor start none).objs) ∧
    reading flipX (entryOf (srcs.map fun a => (F a.1, a.2))) (sensOf (F ks) pixels pixShape left) i =
      reading flipX (entryOf srcs) (sensOf ks pixels pixShape left)
        (min (i - (rotWindow rot anchor N start).b) (N - 1)) := by
  intro F
  obtain ⟨h1, h2, h3, _⟩ := rotate_relative_pose_invariant o cs N hN hU rot anchor start hr ha
  have hmem : ∀ d ∈ (cs.map Node.objs).flatten, d ∈ (Node.mk o cs).objs := by
    intro d hd; simp only [Node.objs, List.mem_cons]; exact Or.inr hd
  have ho := hU o (by simp [Node.objs])
  have hFmem : ∀ d ∈ (cs.map Node.objs).flatten, F d ∈ ((Node.mk o cs).rotate rot anchor start none).objs := by
    intro d hd
    rw [h1]
    exact List.mem_cons_of_mem _ (List.mem_map_of_mem hd)
  refine ⟨hFmem, ?_⟩
  have ho' := h3 _ (by rw [h1]; exact List.mem_cons_self)
  apply reading_eq_of_relAt_eq flipX o (applyRotation rot anchor start none o) N _ i _ hi (by omega) ho ho'
  · exact hU ks (hmem ks hk)
  · exact h3 _ (hFmem ks hk)
  · have : ∀ l : List (Obj G V × (V → V)), (∀ a ∈ l, a.1 ∈ (cs.map Node.objs).flatten) →
        List.Forall₂ (fun a b => b.2 = a.2 ∧ (a.1.pos.length = N ∧ a.1.ori.length = N) ∧
          (b.1.pos.length = (rotWindow rot anchor N start).newLen ∧ b.1.ori.length = (rotWindow rot anchor N start).newLen) ∧
          relAt (applyRotation rot anchor start none o) b.1 i =
            relAt o a.1 (min (i - (rotWindow rot anchor N start).b) (N - 1))) l (l.map fun a => (F a.1, a.2)) := by
      intro l
      induction l with
      | nil => intro _; exact .nil
      | cons a l ih =>
        intro hl
        refine .cons ⟨rfl, hU a.1 (hmem _ (hl a List.mem_cons_self)), h3 _ (hFmem _ (hl a List.mem_cons_self)), ?_⟩
          (ih (fun b hb => hl b (List.mem_cons_of_mem _ hb)))
        rw [h2 a.1 (hl a List.mem_cons_self) i, if_pos hi]
    exact this srcs hs
  · rw [h2 ks hk i, if_pos hi]

-- non-vacuity: the reflection group ℤˣ on ℤ; a collection with a source (field function x ↦ 2x + 1) and a two-pixel
-- sensor, common path length 2; all hypotheses of `own_sensor_field_invariant` hold for a rotation appended at the end
example : ∃ (o : Obj ℤˣ ℤ) (cs : List (Node ℤˣ ℤ)) (srcs : List (Obj ℤˣ ℤ × (ℤ → ℤ))) (ks : Obj ℤˣ ℤ),
    Uniform 2 (Node.mk o cs) ∧ (∀ a ∈ srcs, a.1 ∈ (cs.map Node.objs).flatten) ∧ ks ∈ (cs.map Node.objs).flatten ∧
    srcs ≠ [] ∧ (PathIn.vector [(-1 : ℤˣ)]).WF ∧ 2 < (rotWindow (PathIn.vector [(-1 : ℤˣ)]) (none : Option (PathIn ℤ)) 2 none).newLen :=
  ⟨⟨[1, 2], [1, -1]⟩, [.mk ⟨[5, 6], [1, 1]⟩ [], .mk ⟨[0, 0], [-1, 1]⟩ []], [(⟨[5, 6], [1, 1]⟩, fun x => 2 * x + 1)],
   ⟨[0, 0], [-1, 1]⟩,
   by intro d hd; simp [Node.objs] at hd; rcases hd with rfl | rfl | rfl <;> exact ⟨rfl, rfl⟩,
   by simp [Node.objs], by simp [Node.objs], by simp, by simp [PathIn.WF], by decide⟩

/-- C10(m) **own_sensor_reading_invariant_history**: a collection tree (members sharing the path length `N`) holding
source objects (each with an ARBITRARY local field function) and a sensor at any depth.  After every admissible history —
move / rotate / the six rotate_from_* entry points / position= / orientation= / reset_path / rejected calls / add / remove,
each addressed to ANY node — that leaves these members where they are (`TrackedMember`: not removed, not addressed
themselves or through an ancestor below the collection; the collection itself may be operated on at will, other members too),
the sensor reads at every final path index `i`, pixel by pixel, what it read before the history at index
`histIdx sc N ops i` (C10(l)).  Over an arbitrary group `G` acting on an additive group `V` by additive maps; no hypothesis
on the field functions. -/
theorem own_sensor_reading_invariant_history {α : Type} [Kern.Num α] (flipX : V → V) (sc : RotFrom.Scipy α G)
    (t : Node G V) (N : Nat) (hN : 1 ≤ N) (hU : Uniform N t) (ops : List (HOp α G V)) (hadm : AdmissibleAt sc N ops)
    (srcs srcs' : List (Obj G V × (V → V))) (ks ks' : Obj G V) (pixels : List V) (pixShape : List Nat) (left : Bool)
    (hs : List.Forall₂ (fun a b => b.2 = a.2 ∧ TrackedMember sc ops t a.1 b.1) srcs srcs')
    (hk : TrackedMember sc ops t ks ks') (i : Nat) (hi : i < histLen sc N ops) :
    histIdx sc N ops i < N ∧
    reading flipX (entryOf srcs') (sensOf ks' pixels pixShape left) i =
      reading flipX (entryOf srcs) (sensOf ks pixels pixShape left) (histIdx sc N ops i) :=
  ⟨histIdx_lt sc ops N hN hadm i hi,
   reading_history flipX sc ops t N hN hU hadm srcs srcs' ks ks' pixels pixShape left hs hk i hi⟩

/-- the hypothesis `TrackedMember` is satisfiable whenever the address survives the history: the member then exists
after the history (with the pose C10(l) gives) -/
theorem tracked_member_exists {α : Type} [Kern.Num α] (sc : RotFrom.Scipy α G) (t : Node G V) (N : Nat) (hN : 1 ≤ N)
    (hU : Uniform N t) (ops : List (HOp α G V)) (hadm : AdmissibleAt sc N ops) (k : Nat) (m0 m' : List Nat) (d : Obj G V)
    (htr : histTrack sc ops (k :: m0) = some m') (hd : t.objAt? (k :: m0) = some d) :
    ∃ d', TrackedMember sc ops t d d' := by
  obtain ⟨d', hd', _⟩ := objAt_history sc ops t N hN hU hadm k m0 m' d htr hd
  exact ⟨d', k, m0, m', htr, hd, hd'⟩

-- non-vacuity: the reflection group ℤˣ on ℤ; a collection holding a source (field x ↦ 2x + 1) at address [0] and a sensor
-- at address [1], common path length 2; history: scalar move of the collection, then a rotation appended to it (length 3):
-- the history is admissible, both members are tracked, final indices 0, 1, 2 show the initial indices 0, 1, 1
example : ∃ (t : Node ℤˣ ℤ) (ops : List (HOp ℝ ℤˣ ℤ)) (sc : RotFrom.Scipy ℝ ℤˣ) (d k : Obj ℤˣ ℤ),
    Uniform 2 t ∧ AdmissibleAt sc 2 ops ∧ (∃ d', TrackedMember sc ops t d d') ∧ (∃ k', TrackedMember sc ops t k k') ∧
    d ≠ k ∧ histLen sc 2 ops = 3 ∧ (List.range 3).map (histIdx sc 2 ops) = [0, 1, 1] := by
  have hU : Uniform 2 (Node.mk (G := ℤˣ) (V := ℤ) ⟨[1, 2], [1, -1]⟩ [.mk ⟨[5, 6], [1, 1]⟩ [], .mk ⟨[0, 0], [-1, 1]⟩ []]) := by
    intro d hd; simp [Node.objs] at hd; rcases hd with rfl | rfl | rfl <;> exact ⟨rfl, rfl⟩
  have hadm : AdmissibleAt (α := ℝ) (G := ℤˣ) (V := ℤ) ⟨fun _ => 1, fun _ => some 1, fun _ => 1, fun _ => some 1⟩ 2
      [.base (.move [] (.scalar 3) none), .base (.rotate [] (.vector [-1]) none none)] := by
    refine ⟨⟨trivial, fun h => absurd rfl h⟩, ⟨⟨?_, ?_⟩, fun h => absurd rfl h⟩, trivial⟩
    · simp [PathIn.WF]
    · intro a ha; cases ha
  exact ⟨_, _, _, ⟨[5, 6], [1, 1]⟩, ⟨[0, 0], [-1, 1]⟩, hU, hadm,
    tracked_member_exists _ _ 2 (by decide) hU _ hadm 0 [] [0] _ (by decide) rfl,
    tracked_member_exists _ _ 2 (by decide) hU _ hadm 1 [] [1] _ (by decide) rfl, by decide, by decide, by decide⟩
end ownSensor

/-! ### AUDIT2: the own-sensor statements for the function the driver runs

`own_sensor_field_invariant` / `own_sensor_reading_invariant_history` are about `reading` (Lemmas/OwnSensor.lean, a
specification function); the `path` driver family runs `Node.ownTensor` (Model/History.lean: Model/Level2 `tensor` on the
objects at the given addresses) and the own-sensor rows tie THAT to `getB(collection, own sensor)`.  The two are connected
here (through `tensor_eq_spec`, C06), over a group with a lawful `BEq` (what `tensor` needs). -/
section a2own
open Level2 RotFrom
variable [Group G] [AddCommGroup V] [DistribMulAction G V] [BEq G] [LawfulBEq G]

omit [Group G] [AddCommGroup V] [DistribMulAction G V] [BEq G] [LawfulBEq G] in
theorem mapM_objAt (t : Node G V) : ∀ (srcs : List (List Nat × (V → V))) (objs : List (Obj G V × (V → V))),
    List.Forall₂ (fun a b => t.objAt? a.1 = some b.1 ∧ b.2 = a.2) srcs objs →
    (srcs.mapM fun a => (t.objAt? a.1).map fun o => Level2.Entry.leaf (⟨o.pos, o.ori, a.2⟩ : Src G V)) =
      some (objs.map fun a => .leaf ⟨a.1.pos, a.1.ori, a.2⟩) := by
  intro srcs objs h
  induction h with
  | nil => rfl
  | cons hab _ ih =>
    rw [List.mapM_cons, ih, hab.1, ← hab.2]
    rfl

/-- AUDIT2: the reading the driver computes (`Node.ownTensor`, Model/History.lean — `tensor` of Model/Level2 on the objects at
the addresses) IS the list of `reading`s the own-sensor theorems are about, one per path index -/
theorem ownTensor_eq_readings (flipX : V → V) (t : Node G V) (srcs : List (List Nat × (V → V))) (kaddr : List Nat)
    (pixels : List V) (pixShape : List Nat) (left : Bool) (objs : List (Obj G V × (V → V))) (k : Obj G V)
    (hs : List.Forall₂ (fun a b => t.objAt? a.1 = some b.1 ∧ b.2 = a.2) srcs objs) (hk : t.objAt? kaddr = some k)
    (hne : objs ≠ []) (hwf : (sensOf k pixels pixShape left).WF) :
    t.ownTensor flipX srcs kaddr pixels pixShape left =
      some ((List.range (pathLen (entryOf objs).leaves [sensOf k pixels pixShape left])).map fun m =>
        reading flipX (entryOf objs) (sensOf k pixels pixShape left) m) := by
  unfold Node.ownTensor
  rw [mapM_objAt t srcs objs hs, hk]
  simp only [Option.bind_eq_bind, Option.bind_some]
  have hte := tensor_eq_spec flipX [entryOf objs] [sensOf k pixels pixShape left]
    (by intro e he; simp only [List.mem_singleton] at he; subst he
        rw [leaves_entryOf]; simpa using hne)
    (by intro k' hk'; simp only [List.mem_singleton] at hk'; subst hk'; exact hwf)
  unfold entryOf sensOf at hte
  rw [hte]
  simp [specTensor, reading, entryOf, sensOf]

omit [Group G] [AddCommGroup V] [DistribMulAction G V] [BEq G] [LawfulBEq G] in
theorem foldl_max_const (N : Nat) : ∀ (l : List Nat) (a : Nat), (∀ x ∈ l, x = N) → l ≠ [] → l.foldl max a = max a N := by
  intro l
  induction l with
  | nil => intro a _ h; exact absurd rfl h
  | cons x xs ih =>
    intro a hx _
    have hxN : x = N := hx x List.mem_cons_self
    subst hxN
    by_cases hxs : xs = []
    · subst hxs; rfl
    · rw [List.foldl_cons, ih (max a x) (fun y hy => hx y (List.mem_cons_of_mem _ hy)) hxs]
      omega

omit [Group G] [AddCommGroup V] [DistribMulAction G V] [BEq G] [LawfulBEq G] in
theorem pathLen_uniform (objs : List (Obj G V × (V → V))) (k : Obj G V) (pixels : List V) (pixShape : List Nat) (left : Bool)
    (N : Nat) (ho : ∀ a ∈ objs, a.1.pos.length = N) (hk : k.pos.length = N) :
    pathLen (entryOf objs).leaves [sensOf k pixels pixShape left] = N := by
  unfold pathLen
  rw [foldl_max_const N _ 0 ?_ (by simp [sensOf])]
  · omega
  · intro x hx
    rw [leaves_entryOf] at hx
    simp only [List.map_map, List.map_cons, List.map_nil, List.mem_append, List.mem_map, Function.comp_apply,
      List.mem_singleton, sensOf] at hx
    rcases hx with ⟨a, ha, rfl⟩ | rfl
    · exact ho a ha
    · exact hk

omit [BEq G] [LawfulBEq G] in
/-- the objects behind tracked addresses, before and after a history -/
theorem tracked_objects {α : Type} [Kern.Num α] (sc : RotFrom.Scipy α G) (t : Node G V) (N : Nat) (hN : 1 ≤ N)
    (hU : Uniform N t) (ops : List (HOp α G V)) (hadm : AdmissibleAt sc N ops) :
    ∀ (srcs srcs' : List (List Nat × (V → V))),
    List.Forall₂ (fun a b => b.2 = a.2 ∧ ∃ k m0, a.1 = k :: m0 ∧ histTrack sc ops a.1 = some b.1) srcs srcs' →
    (∀ a ∈ srcs, ∃ d, t.objAt? a.1 = some d) →
    ∃ objs objs' : List (Obj G V × (V → V)),
      List.Forall₂ (fun a b => t.objAt? a.1 = some b.1 ∧ b.2 = a.2) srcs objs ∧
      List.Forall₂ (fun a b => (ops.foldl (Node.hstep sc) t).objAt? a.1 = some b.1 ∧ b.2 = a.2) srcs' objs' ∧
      List.Forall₂ (fun a b => b.2 = a.2 ∧ TrackedMember sc ops t a.1 b.1) objs objs' ∧
      (∀ a ∈ objs, a.1 ∈ t.objs) ∧ (∀ b ∈ objs', b.1 ∈ (ops.foldl (Node.hstep sc) t).objs) := by
  intro srcs srcs' hs
  induction hs with
  | nil => intro _; exact ⟨[], [], .nil, .nil, .nil, by simp, by simp⟩
  | @cons a b l l' hab _ ih =>
    intro hex
    obtain ⟨objs, objs', h1, h2, h3, h4, h5⟩ := ih (fun x hx => hex x (List.mem_cons_of_mem _ hx))
    obtain ⟨d, hd⟩ := hex a List.mem_cons_self
    obtain ⟨hF, k, m0, hak, htr⟩ := hab
    rw [hak] at htr hd
    obtain ⟨d', hd', _⟩ := objAt_history sc ops t N hN hU hadm k m0 b.1 d htr hd
    refine ⟨(d, a.2) :: objs, (d', b.2) :: objs', .cons ⟨by rw [hak]; exact hd, rfl⟩ h1, .cons ⟨hd', rfl⟩ h2,
      .cons ⟨hF, k, m0, b.1, htr, hd, hd'⟩ h3, ?_, ?_⟩
    · intro x hx
      rcases List.mem_cons.mp hx with rfl | hx
      · exact Node.objAt?_mem _ _ _ hd
      · exact h4 x hx
    · intro x hx
      rcases List.mem_cons.mp hx with rfl | hx
      · exact Node.objAt?_mem _ _ _ hd'
      · exact h5 x hx

/-- AUDIT2 **own_sensor_tensor_invariant_history**: `own_sensor_reading_invariant_history` for the function the DRIVER runs
(`Node.ownTensor` = Model/Level2 `tensor` on the objects at the given addresses; `read` command of the `path` family, tied
to `getB(collection, own sensor)` by the own-sensor rows).  Sources at addresses `srcs` (arbitrary field functions), sensor
at address `kaddr`, all below the collection (addresses non-empty) and left where they are by the history (`histTrack`
gives their addresses afterwards): both tensors exist, have one row per path index (`N` before, `histLen` after), and row
`i` after the history is row `histIdx … i` before it — both rows exist (`some`). -/
theorem own_sensor_tensor_invariant_history {α : Type} [Kern.Num α] (flipX : V → V) (sc : RotFrom.Scipy α G)
    (t : Node G V) (N : Nat) (hN : 1 ≤ N) (hU : Uniform N t) (ops : List (HOp α G V)) (hadm : AdmissibleAt sc N ops)
    (srcs srcs' : List (List Nat × (V → V))) (kaddr kaddr' : List Nat) (pixels : List V) (pixShape : List Nat) (left : Bool)
    (hs : List.Forall₂ (fun a b => b.2 = a.2 ∧ ∃ k m0, a.1 = k :: m0 ∧ histTrack sc ops a.1 = some b.1) srcs srcs')
    (hsex : ∀ a ∈ srcs, ∃ d, t.objAt? a.1 = some d)
    (hk : ∃ k m0, kaddr = k :: m0 ∧ histTrack sc ops kaddr = some kaddr') (hkex : ∃ d, t.objAt? kaddr = some d)
    (hne : srcs ≠ []) (hpix : pixels.length = pixShape.foldl (· * ·) 1) :
    ∃ T T', t.ownTensor flipX srcs kaddr pixels pixShape left = some T ∧
      (ops.foldl (Node.hstep sc) t).ownTensor flipX srcs' kaddr' pixels pixShape left = some T' ∧
      T.length = N ∧ T'.length = histLen sc N ops ∧
      ∀ i, i < histLen sc N ops → histIdx sc N ops i < N ∧
        ∃ row, T'[i]? = some row ∧ T[histIdx sc N ops i]? = some row := by
  obtain ⟨objs, objs', h1, h2, h3, h4, h5⟩ := tracked_objects sc t N hN hU ops hadm srcs srcs' hs hsex
  obtain ⟨k, m0, hka, hktr⟩ := hk
  obtain ⟨ks, hks⟩ := hkex
  subst hka
  obtain ⟨ks', hks', _⟩ := objAt_history sc ops t N hN hU hadm k m0 kaddr' ks hktr hks
  have hkT : TrackedMember sc ops t ks ks' := ⟨k, m0, kaddr', hktr, hks, hks'⟩
  obtain ⟨_, hU', hN'⟩ := absH_history sc ops t N hN hU hadm
  have hone : objs ≠ [] := by
    intro e; subst e; cases h1; exact hne rfl
  have hone' : objs' ≠ [] := by
    intro e; subst e; cases h3; exact hone rfl
  have hkl := hU ks (Node.objAt?_mem _ _ _ hks)
  have hkl' := hU' ks' (Node.objAt?_mem _ _ _ hks')
  have hwf : (sensOf ks pixels pixShape left).WF := by
    refine ⟨?_, by simp [sensOf, hkl.1, hkl.2], hpix⟩
    intro e; simp only [sensOf] at e; rw [e] at hkl; simp at hkl; omega
  have hwf' : (sensOf ks' pixels pixShape left).WF := by
    refine ⟨?_, by simp [sensOf, hkl'.1, hkl'.2], hpix⟩
    intro e; simp only [sensOf] at e; rw [e] at hkl'; simp at hkl'; omega
  have e1 := ownTensor_eq_readings flipX t srcs (k :: m0) pixels pixShape left objs ks h1 hks hone hwf
  have e2 := ownTensor_eq_readings flipX _ srcs' kaddr' pixels pixShape left objs' ks' h2 hks' hone' hwf'
  rw [pathLen_uniform objs ks pixels pixShape left N (fun a ha => (hU _ (h4 a ha)).1) hkl.1] at e1
  rw [pathLen_uniform objs' ks' pixels pixShape left _ (fun a ha => (hU' _ (h5 a ha)).1) hkl'.1] at e2
  refine ⟨_, _, e1, e2, by simp, by simp, ?_⟩
  intro i hi
  obtain ⟨hlt, hread⟩ := own_sensor_reading_invariant_history flipX sc t N hN hU ops hadm objs objs' ks ks' pixels pixShape
    left h3 hkT i hi
  refine ⟨hlt, reading flipX (entryOf objs') (sensOf ks' pixels pixShape left) i, ?_, ?_⟩
  · rw [List.getElem?_map, List.getElem?_range hi]; rfl
  · rw [List.getElem?_map, List.getElem?_range hlt, hread]; rfl

-- AUDIT2 non-vacuity: `own_sensor_tensor_invariant_history` APPLIED
example : ∃ T T' : List (List ℤ), T.length = 2 ∧ T'.length = 3 ∧
    ∀ i, i < 3 → ∃ row, T'[i]? = some row ∧ T[[0, 1, 1].getD i 0]? = some row := by
  have hU : Uniform 2 (Node.mk (G := ℤˣ) (V := ℤ) ⟨[1, 2], [1, -1]⟩ [.mk ⟨[5, 6], [1, 1]⟩ [], .mk ⟨[0, 0], [-1, 1]⟩ []]) := by
    intro d hd; simp [Node.objs] at hd; rcases hd with rfl | rfl | rfl <;> exact ⟨rfl, rfl⟩
  have hadm : AdmissibleAt (α := ℝ) (G := ℤˣ) (V := ℤ) ⟨fun _ => 1, fun _ => some 1, fun _ => 1, fun _ => some 1⟩ 2
      [.base (.move [] (.scalar 3) none), .base (.rotate [] (.vector [-1]) none none)] := by
    refine ⟨⟨trivial, fun h => absurd rfl h⟩, ⟨⟨?_, ?_⟩, fun h => absurd rfl h⟩, trivial⟩
    · simp [PathIn.WF]
    · intro a ha; cases ha
  obtain ⟨T, T', _, _, h3, h4, h5⟩ := own_sensor_tensor_invariant_history (fun x : ℤ => -x) _ _ 2 (by decide) hU _ hadm
    [([0], fun x => 2 * x + 1)] [([0], fun x => 2 * x + 1)] [1] [1] [0, 3] [2] false
    (.cons ⟨rfl, 0, [], rfl, by decide⟩ .nil) (by intro a ha; simp at ha; subst ha; exact ⟨_, rfl⟩)
    ⟨1, [], rfl, by decide⟩ ⟨_, rfl⟩ (by simp) rfl
  have hl : histLen (α := ℝ) (G := ℤˣ) (V := ℤ) ⟨fun _ => 1, fun _ => some 1, fun _ => 1, fun _ => some 1⟩ 2
      [.base (.move [] (.scalar 3) none), .base (.rotate [] (.vector [-1]) none none)] = 3 := by decide
  rw [hl] at h4 h5
  refine ⟨T, T', h3, h4, ?_⟩
  intro i hi
  obtain ⟨_, row, r1, r2⟩ := h5 i hi
  refine ⟨row, r1, ?_⟩
  have : histIdx (α := ℝ) (G := ℤˣ) (V := ℤ) ⟨fun _ => 1, fun _ => some 1, fun _ => 1, fun _ => some 1⟩ 2
      [.base (.move [] (.scalar 3) none), .base (.rotate [] (.vector [-1]) none none)] i = [0, 1, 1].getD i 0 := by
    interval_cases i <;> decide
  rw [← this]; exact r2
end a2own

/-! ### on the carrier the driver computes with (AUDIT X1)

The theorems above are over an abstract `Group G`; the `path` stream compares the real code with the same model
functions evaluated at `M3 Int` / `V3 Int` (Model/Basic.lean, `⁻¹` = transpose — not a group).  Through
Lemmas/OctaCarrier.lean (`Oct`, the group of octahedral rotation matrices; `applyRotation_at_Oct_eq_at_M3Int`,
`relAt_at_Oct_eq_at_M3Int`) they hold for the driver's evaluation whenever all rotation matrices involved are
octahedral (`IsOct`: orthogonal of determinant 1 — the only ones the stream sends). -/
section driverCarrier

/-- **C10(b) on the driver's carrier**: `rotate` on a collection, evaluated with the integer matrix operations —
every descendant keeps its pose relative to the collection (`relAt` computed with `⁻¹` = transpose). -/
theorem rotate_relative_pose_invariant_on_driver_carrier (o : ObjZ) (cs : List (Node (M3 Int) (V3 Int)))
    (N : Nat) (hN : 1 ≤ N) (hU : Uniform N (Node.mk o cs)) (rot : PathIn (M3 Int))
    (anchor : Option (PathIn (V3 Int))) (start : Option Int) (hr : rot.WF) (ha : ∀ a, anchor = some a → a.WF)
    (hro : rot.RotsOct) (hto : ∀ d ∈ (Node.mk o cs).objs, d.RotsOct) :
    let w := rotWindow rot anchor N start
    let ds := (cs.map Node.objs).flatten
    ((Node.mk o cs).rotate rot anchor start none).objs =
      applyRotation rot anchor start none o :: ds.map (applyRotation rot anchor start (some o.pos)) ∧
    (∀ d ∈ ds, ∀ i,
      relAt (applyRotation rot anchor start none o) (applyRotation rot anchor start (some o.pos) d) i =
        if i < w.newLen then relAt o d (min (i - w.b) (N - 1)) else none) ∧
    Uniform w.newLen ((Node.mk o cs).rotate rot anchor start none) ∧ 1 ≤ w.newLen := by
  intro w ds
  have ho : o.pos.length = N ∧ o.ori.length = N := hU o (by simp [Node.objs])
  have hmem : ∀ d ∈ ds, d ∈ (Node.mk o cs).objs := by
    intro d hd
    simp only [Node.objs, List.mem_cons]; exact Or.inr hd
  have hds : ∀ d ∈ ds, d.pos.length = N ∧ d.ori.length = N := fun d hd => hU d (hmem d hd)
  refine ⟨Node.rotate_objs_none rot anchor start o cs, ?_, ?_, window_newLen_pos _ _ _ _ hN⟩
  · intro d hd i
    exact rel_applyRotation_on_driver_carrier rot anchor start o d N hN ho (hds d hd) hr ha hro
      (hto o (by simp [Node.objs])) (hto d (hmem d hd)) i
  · intro d' hd'
    rw [Node.rotate_objs_none] at hd'
    rcases List.mem_cons.mp hd' with rfl | hmem'
    · exact length_applyRotation rot anchor start none o N hN ho hr ha
    · obtain ⟨d, hd, rfl⟩ := List.mem_map.mp hmem'
      exact length_applyRotation rot anchor start (some o.pos) d N hN (hds d hd) hr ha

/-- **C10(a) on the driver's carrier**: `move` on a collection, evaluated with the integer matrix operations -/
theorem move_relative_pose_invariant_on_driver_carrier (o : ObjZ) (cs : List (Node (M3 Int) (V3 Int)))
    (N : Nat) (hN : 1 ≤ N) (hU : Uniform N (Node.mk o cs)) (inp : PathIn (V3 Int)) (start : Option Int)
    (hto : ∀ d ∈ (Node.mk o cs).objs, d.RotsOct) :
    let w := window inp.isScalar N inp.lenip start
    ((Node.mk o cs).move inp start).objs = (Node.mk o cs).objs.map (applyMove inp start) ∧
    (∀ d ∈ (Node.mk o cs).objs, ∀ i,
      relAt (applyMove inp start o) (applyMove inp start d) i =
        if i < w.newLen then relAt o d (min (i - w.b) (N - 1)) else none) ∧
    Uniform w.newLen ((Node.mk o cs).move inp start) ∧ 1 ≤ w.newLen := by
  intro w
  have ho : o.pos.length = N ∧ o.ori.length = N := hU o (by simp [Node.objs])
  refine ⟨Node.move_objs inp start _, ?_, ?_, window_newLen_pos _ _ _ _ hN⟩
  · intro d hd i
    exact rel_applyMove_on_driver_carrier inp start o d N hN ho (hU d hd) (hto o (by simp [Node.objs]))
      (hto d hd) i
  · intro d' hd'
    rw [Node.move_objs] at hd'
    obtain ⟨d, hd, rfl⟩ := List.mem_map.mp hd'
    exact length_applyMove inp start d N hN (hU d hd)

-- non-vacuity, driver-style data: a collection with a 2-step path (turned by 90° about z at its second step) and
-- one child (turned by 90° about x), rotated by a further 90° about z about an integer anchor: all hypotheses hold
open Level2.DriverExample in
example :
    let t : Node (M3 Int) (V3 Int) :=
      .mk ⟨[⟨1, 0, 0⟩, ⟨2, 0, 0⟩], [1, rotZ90]⟩ [.mk ⟨[⟨5, 0, 1⟩, ⟨6, 0, 1⟩], [rotX90, rotX90]⟩ []]
    Uniform 2 t ∧ (PathIn.scalar rotZ90).WF ∧ (PathIn.scalar rotZ90).RotsOct ∧ (∀ d ∈ t.objs, d.RotsOct) := by
  refine ⟨?_, trivial, ?_, ?_⟩
  · intro d hd
    simp [Node.objs] at hd
    rcases hd with rfl | rfl <;> exact ⟨rfl, rfl⟩
  · simp only [PathIn.RotsOct, PathIn.toList, List.mem_singleton, forall_eq]; decide
  · intro d hd
    simp [Node.objs] at hd
    rcases hd with rfl | rfl <;>
      (simp only [Obj.RotsOct, List.mem_cons, List.not_mem_nil, or_false, forall_eq_or_imp, forall_eq]; decide)
-- … and one relative pose evaluated as the driver evaluates it, before and after the rotation (scalar input: the
-- whole path is rotated, the relative pose of the child at path index 1 is unchanged)
open Level2.DriverExample in
example :
    let o : ObjZ := ⟨[⟨1, 0, 0⟩, ⟨2, 0, 0⟩], [1, rotZ90]⟩
    let d : ObjZ := ⟨[⟨5, 0, 1⟩, ⟨6, 0, 1⟩], [rotX90, rotX90]⟩
    relAt (applyRotation (.scalar rotZ90) (some (.scalar ⟨0, 3, 0⟩)) none none o)
        (applyRotation (.scalar rotZ90) (some (.scalar ⟨0, 3, 0⟩)) none (some o.pos) d) 1 = relAt o d 1 ∧
    relAt o d 1 = some (⟨0, -4, 1⟩, ⟨⟨0, 1, 0⟩, ⟨-1, 0, 0⟩, ⟨0, 0, 1⟩⟩ * rotX90) := by decide

/-- **C10(l) `history_index_map` on the driver's carrier**: histories of base operations addressed to ANY node (a
`rotate_from_*` step is such a step by C09(j); `add` / `remove` compute nothing), octahedral rotation inputs, evaluated with
the integer matrix operations (`Node.step` at `M3 Int`, what the `path` driver family runs).  `opsLen` / `opsIdx` /
`opsTrack` / `OpsAdm` are `histLen` / `histIdx` / `histTrack` / `AdmissibleAt` written without any structure on the
rotation carrier (Lemmas/HistoryCarrier.lean: `histIdx_base` …).  For every member the history does not touch: it is
still there, all members share the length `opsLen N ops`, and its pose relative to the collection (`relAt`, computed
with `⁻¹` = transpose) at every final index `i` is the initial one at index `opsIdx N ops i`. -/
theorem history_index_map_on_driver_carrier (t : NodeZ) (ops : List OpZ) (ht : t.RotsOct)
    (hops : ∀ op ∈ ops, op.RotsOct) (N : Nat) (hN : 1 ≤ N) (hU : Uniform N t) (hadm : OpsAdm N ops)
    (k : Nat) (m0 m' : List Nat) (d : ObjZ) (htr : opsTrack ops (k :: m0) = some m')
    (hd : t.objAt? (k :: m0) = some d) :
    ∃ d', (ops.foldl Node.step t).objAt? m' = some d' ∧ Uniform (opsLen N ops) (ops.foldl Node.step t) ∧
      ∀ i, i < opsLen N ops → opsIdx N ops i < N ∧
        relAt (ops.foldl Node.step t).obj d' i = relAt t.obj d (opsIdx N ops i) :=
  relAt_history_on_driver_carrier t ops ht hops N hN hU hadm k m0 m' d htr hd

-- non-vacuity, driver-style data: collection ▸ (sub-collection ▸ object), second child; the collection is moved (vector
-- input appended: length 2 → 3), the sub-collection alone is moved (scalar), the collection is rotated by 90° about z
-- (scalar): admissible, the second child is tracked, final indices 0, 1, 2 show the initial indices 0, 1, 1
open Level2.DriverExample in
example :
    let t : NodeZ := .mk ⟨[⟨1, 0, 0⟩, ⟨2, 0, 0⟩], [1, rotZ90]⟩
      [.mk ⟨[⟨5, 0, 1⟩, ⟨6, 0, 1⟩], [rotX90, rotX90]⟩ [.mk ⟨[⟨7, 0, 0⟩, ⟨8, 0, 0⟩], [1, 1]⟩ []],
       .mk ⟨[⟨0, 3, 0⟩, ⟨0, 4, 0⟩], [rotZ90, 1]⟩ []]
    let ops : List OpZ := [.move [] (.vector [⟨0, 0, 1⟩]) none, .move [0] (.scalar ⟨0, 2, 0⟩) none,
      .rotate [] (.scalar rotZ90) (some (.scalar ⟨0, 3, 0⟩)) none]
    Uniform 2 t ∧ t.RotsOct ∧ (∀ op ∈ ops, op.RotsOct) ∧ OpsAdm 2 ops ∧ opsTrack ops [1] = some [1] ∧
      opsTrack ops [0, 0] = none ∧ opsLen 2 ops = 3 ∧ (List.range 3).map (opsIdx 2 ops) = [0, 1, 1] := by
  refine ⟨?_, ?_, ?_, ?_, by decide, by decide, by decide, by decide⟩
  · intro d hd
    simp [Node.objs] at hd
    rcases hd with rfl | rfl | rfl | rfl <;> exact ⟨rfl, rfl⟩
  · refine .mk (by simp only [Obj.RotsOct, List.mem_cons, List.not_mem_nil, or_false, forall_eq_or_imp, forall_eq]; decide) ?_
    intro c hc
    simp only [List.mem_cons, List.not_mem_nil, or_false] at hc
    rcases hc with rfl | rfl
    · refine .mk (by simp only [Obj.RotsOct, List.mem_cons, List.not_mem_nil, or_false, forall_eq_or_imp, forall_eq]; decide) ?_
      intro c hc
      simp only [List.mem_cons, List.not_mem_nil, or_false] at hc
      subst hc
      exact .mk (by simp only [Obj.RotsOct, List.mem_cons, List.not_mem_nil, or_false, forall_eq_or_imp, forall_eq]; decide) (by simp)
    · exact .mk (by simp only [Obj.RotsOct, List.mem_cons, List.not_mem_nil, or_false, forall_eq_or_imp, forall_eq]; decide) (by simp)
  · intro op hop
    simp only [List.mem_cons, List.not_mem_nil, or_false] at hop
    rcases hop with rfl | rfl | rfl <;> simp only [Op.RotsOct, Op.rots, List.not_mem_nil, false_imp_iff, implies_true]
    simp only [PathIn.toList, List.mem_cons, List.not_mem_nil, or_false, forall_eq]
    decide
  · refine ⟨⟨trivial, fun h => absurd rfl h⟩, ⟨trivial, fun _ => by decide⟩, ⟨⟨trivial, ?_⟩, fun h => absurd rfl h⟩, trivial⟩
    intro a ha
    cases ha
    trivial
end driverCarrier

end MagpyVerif.C10
