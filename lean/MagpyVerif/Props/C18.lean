/-
Props/C18.lean — copy() yields an equal, fully independent, parentless object (tree level).
/- FULL: also attribute equality, same field, no shared mutable state in the CPython heap, keyword
   overrides, lazily initialised styles.  Heap facts cannot be expressed in the list model: the
   copy oracle walks the reachable mutable-object graph of original and copy in the interpreter,
   checks disjointness and mutates each side. -/
-/
import MagpyVerif.Model.Copy
namespace MagpyVerif.C18
open MagpyVerif Forest

/-- copying never writes to the original forest: every existing object keeps its parent, its
children and its typed views (and its kind) -/
theorem copy_leaves_original (s : Forest) (o j : Nat) (hj : j < s.n) :
    (s.copy o).parent j = s.parent j ∧ (s.copy o).children j = s.children j ∧
    (s.copy o).srcs j = s.srcs j ∧ (s.copy o).sens j = s.sens j ∧ (s.copy o).colls j = s.colls j ∧
    (s.copy o).kind j = s.kind j := by
  have h : ¬ s.n ≤ j := by omega
  simp [copy, h]

/-- the copy (clone of the subtree root, id `s.n`) has no parent, whatever the original's parent -/
theorem copy_parentless (s : Forest) (o : Nat) : (s.copy o).parent s.n = none := by
  simp [copy, subtree]

/-- the copy has the original's class, and its children are the clones of the original's
children, in the same order -/
theorem copy_root_children (s : Forest) (o : Nat) :
    (s.copy o).kind s.n = s.kind o ∧
    (s.copy o).children s.n =
      (s.children o).map (fun x => s.n + (s.subtree (s.n + 1) o).idxOf x) := by
  simp [copy, subtree]

/-- label iteration: no trailing digits ⇒ `_01` is appended (no second underscore after one) -/
example : addIterationSuffix "col".toList = "col_01".toList := by decide
example : addIterationSuffix "col_".toList = "col_01".toList := by decide
example : addIterationSuffix "col1".toList = "col2".toList := by decide
example : addIterationSuffix "col_02".toList = "col_03".toList := by decide
example : addIterationSuffix "x09".toList = "x10".toList := by decide
example : addIterationSuffix "x99".toList = "x100".toList := by decide

/-- trailing digits are incremented with their width kept -/
theorem label_suffix_digits (pre : List Char) (ds : List Char) (hds : ds ≠ [])
    (hsplit : splitTrailingDigits (pre ++ ds) = (pre, ds)) :
    addIterationSuffix (pre ++ ds) = pre ++ padded (digitsToNat ds + 1) ds.length := by
  unfold addIterationSuffix
  rw [hsplit]
  cases ds with
  | nil => exact absurd rfl hds
  | cons d rest => rfl

end MagpyVerif.C18
