/-
Props/C18.lean — copy() yields an equal, fully independent, parentless object (tree level).
/- FULL: also attribute equality, same field, no shared mutable state in the CPython heap, keyword
   overrides, lazily initialised styles.  Heap facts cannot be expressed in the list model: the
   copy oracle walks the reachable mutable-object graph of original and copy in the interpreter,
   checks disjointness and mutates each side. -/
(audit2: the paragraph above describes the first, tree-level half of this file.  The section "attributes, containers, …"
below adds a heap model of eight containers per object; what is still outside: "same field", user writes INTO an array
handed out by a getter, containers other than the eight, classes other than the six modelled — see checks/C18.py.)

Notation (Lemmas/Copy.lean), for `s.copy o`:
  `s.cnodes o`   the objects that are cloned: the fuel-bounded pre-order walk `s.subtree (s.n+1) o`
                 over the `_children` lists (what `deepcopy(self)` reaches through `_children`)
  `s.cren o x`   the id of the clone of `x`: `s.n + (position of x in s.cnodes o)` (deepcopy's memo)
  `IsNew s o j`  `j` is one of the ids created by the copy: `s.n ≤ j < s.n + (s.cnodes o).length`
Both models (`Forest.copy`/`stepC`, `addIterationSuffix`/`copyLabel`) are compared with the real
`obj.copy()` / `add_iteration_suffix` on every run by the `forest` and `label` streams.
-/
import MagpyVerif.Model.Copy
import MagpyVerif.Lemmas.Copy
import MagpyVerif.Model.ForestAttr
import MagpyVerif.Lemmas.ForestAttr
import MagpyVerif.Lemmas.ForestKw
namespace MagpyVerif.C18
open MagpyVerif Forest

/-- copying never writes to the original forest: every existing object keeps its parent, its
children and its typed views (and its kind) -/
theorem copy_leaves_original (s : Forest) (o j : Nat) (hj : j < s.n) :
    (s.copy o).parent j = s.parent j ∧ (s.copy o).children j = s.children j ∧
    (s.copy o).srcs j = s.srcs j ∧ (s.copy o).sens j = s.sens j ∧ (s.copy o).colls j = s.colls j ∧
    (s.copy o).kind j = s.kind j := by
  have h : ¬ s.n ≤ j := by omega
  simp [copy, h]

/-- the copy (clone of the subtree root, id `s.n`) has no parent, whatever the original's parent -/
theorem copy_parentless (s : Forest) (o : Nat) : (s.copy o).parent s.n = none := by
  simp [copy, subtree]

/-- the copy has the original's class, and its children are the clones of the original's
children, in the same order -/
theorem copy_root_children (s : Forest) (o : Nat) :
    (s.copy o).kind s.n = s.kind o ∧
    (s.copy o).children s.n =
      (s.children o).map (fun x => s.n + (s.subtree (s.n + 1) o).idxOf x) := by
  simp [copy, subtree]

/-- label iteration: no trailing digits ⇒ `_01` is appended (no second underscore after one) -/
example : addIterationSuffix "col".toList = "col_01".toList := by decide
example : addIterationSuffix "col_".toList = "col_01".toList := by decide
example : addIterationSuffix "col1".toList = "col2".toList := by decide
example : addIterationSuffix "col_02".toList = "col_03".toList := by decide
example : addIterationSuffix "x09".toList = "x10".toList := by decide
example : addIterationSuffix "x99".toList = "x100".toList := by decide

/-- trailing digits are incremented with their width kept -/
theorem label_suffix_digits (pre : List Char) (ds : List Char) (hds : ds ≠ [])
    (hsplit : splitTrailingDigits (pre ++ ds) = (pre, ds)) :
    addIterationSuffix (pre ++ ds) = pre ++ padded (digitsToNat ds + 1) ds.length := by
  unfold addIterationSuffix
  rw [hsplit]
  cases ds with
  | nil => exact absurd rfl hds
  | cons d rest => rfl


/-! ### copy() is one more operation of the consistent-forest state machine (C11) -/

/-- In a consistent, acyclic forest `obj.copy()` — of a leaf, of a collection with any nested
subtree, owned by a parent or not — leaves a consistent (parent ⇔ listed exactly once, stored
`_sources/_sensors/_collections` = ordered typed filters of `_children`, only collections have
children, links stay among existing objects) and acyclic forest: the parent/children links of the
copied subtree are consistent and the original's are untouched.  Acyclicity of the state before
is needed (and is what C11 proves of every reachable state): `copy()` cuts the copy's `_parent`,
so a clone of a cyclic structure would be listed by a collection that is not its parent. -/
theorem copy_preserves_inv (s : Forest) (o : Nat) (hi : s.Inv) (ha : s.Acyclic) :
    (s.copy o).Inv ∧ (s.copy o).Acyclic :=
  ⟨copy_inv s hi ha o, copy_acyclic s hi ha o⟩

/-- a consistent but cyclic state (collections 0 and 1 listing each other — unreachable by C11) -/
def cyc : Forest :=
  { n := 2, kind := fun _ => .coll,
    parent := fun j => if j = 0 then some 1 else if j = 1 then some 0 else none,
    children := fun j => if j = 0 then [1] else if j = 1 then [0] else [],
    srcs := fun _ => [], sens := fun _ => [],
    colls := fun j => if j = 0 then [1] else if j = 1 then [0] else [] }

/-- the acyclicity hypothesis of `copy_preserves_inv` cannot be dropped: `cyc` satisfies every
consistency clause, its copy does not (a clone is listed by a collection that is not its parent) -/
theorem copy_needs_acyclic : cyc.Inv ∧ ¬ (cyc.copy 0).Inv := by
  have hc : cyc.Inv := by
    refine ⟨?_, ?_, ?_, ?_, ?_⟩
    · intro o c
      simp only [cyc]
      split_ifs <;> simp_all <;> omega
    · intro c
      simp only [cyc]
      split_ifs <;> simp
    · intro c
      simp only [cyc]
      split_ifs <;> simp
    · intro c h
      simp [cyc] at h
    · intro o c h
      simp only [cyc] at h ⊢
      split_ifs at h <;> simp_all <;> omega
  refine ⟨hc, fun h => ?_⟩
  have := (h.parent_iff 4 3).mp (by decide)
  revert this
  decide

/-- every single step of a history with copies — tree-editing operation (accepted or rejected)
or `copy()` — preserves consistency and acyclicity -/
theorem stepC_preserves_inv (s : Forest) (op : COp) (hi : s.Inv) (ha : s.Acyclic) :
    (s.stepC op).1.Inv ∧ (s.stepC op).1.Acyclic := stepC_inv_acyclic s op hi ha

/-- C11 extended by C18: after any finite history of add / remove / parent= / children= /
sources= / sensors= / collections= / `+` AND `copy()` of any object (original or clone; clones
are ordinary objects for all later operations) the forest is consistent and acyclic. -/
theorem inv_reachable_with_copy (kinds : List Kind) (ops : List COp) :
    (ops.foldl (fun s op => (s.stepC op).1) (Forest.init kinds)).Inv ∧
    (ops.foldl (fun s op => (s.stepC op).1) (Forest.init kinds)).Acyclic := by
  suffices h : ∀ s : Forest, s.Inv → s.Acyclic →
      (ops.foldl (fun s op => (s.stepC op).1) s).Inv ∧ (ops.foldl (fun s op => (s.stepC op).1) s).Acyclic from
    h _ (init_inv kinds) (init_acyclic kinds)
  induction ops with
  | nil => intro s h1 h2; exact ⟨h1, h2⟩
  | cons op ops ih =>
    intro s h1 h2
    exact ih _ (stepC_inv_acyclic s op h1 h2).1 (stepC_inv_acyclic s op h1 h2).2

/-- the state used in the non-vacuity examples: collection 0 = [source 2, collection 1 = [sensor 3]] -/
def demo : Forest :=
  [COp.base (.add 1 [3] false), COp.base (.add 0 [2, 1] false)].foldl (fun s op => (s.stepC op).1)
    (Forest.init [.coll, .coll, .src, .sens])

theorem demo_inv : demo.Inv ∧ demo.Acyclic := inv_reachable_with_copy _ _

-- non-vacuity: copying the nested collection 0 creates 4 objects; copying the owned collection 1 creates 2
example : (demo.copy 0).Inv := (copy_preserves_inv demo 0 demo_inv.1 demo_inv.2).1
example : (demo.copy 0).n = 8 ∧ (demo.copy 0).children 4 = [5, 6] ∧ (demo.copy 0).children 6 = [7] ∧
    (demo.copy 0).parent 7 = some 6 ∧ (demo.copy 0).parent 4 = none := by decide
example : demo.parent 1 = some 0 ∧ (demo.copy 1).parent 4 = none ∧ (demo.copy 1).children 4 = [5] ∧
    (demo.copy 1).sens 4 = [5] ∧ (demo.copy 1).parent 5 = some 4 := by decide
-- a history that copies, then edits the clone, then copies the clone
example : ([COp.base (.add 0 [1] false), .copy 0, .base (.add 2 [0] false), .copy 2].foldl
    (fun s op => (s.stepC op).1) (Forest.init [.coll, .src])).children 4 = [5, 6] := by decide

/-! ### the copy is an isomorphic, parentless tree on fresh ids -/

/-- `copy()` clones exactly the copied object and its descendants (through any depth of nested
collections), each once; the renaming `cren` is a bijection from them onto the new ids; under it
the class of every clone is the class of its original, the `_children` list of a clone is the list
of the clones of the original's children IN THE SAME ORDER (and so are the stored `_sources`,
`_sensors`, `_collections`), all those children are themselves cloned; the clone of the copied
object is the first new id and has no parent; the parent of every other clone is the clone of its
original's parent — i.e. the copy is an isomorphic parentless tree with consistent links. -/
theorem copy_subtree_iso (s : Forest) (hi : s.Inv) (ha : s.Acyclic) (o : Nat) :
    (∀ x, x ∈ s.cnodes o ↔ Reach s x o) ∧ (s.cnodes o).Nodup ∧
    (∀ x ∈ s.cnodes o, IsNew s o (s.cren o x)) ∧
    (∀ x ∈ s.cnodes o, ∀ y, s.cren o x = s.cren o y → x = y) ∧
    (∀ j, IsNew s o j → ∃ x ∈ s.cnodes o, s.cren o x = j) ∧
    (∀ x ∈ s.cnodes o,
      (s.copy o).kind (s.cren o x) = s.kind x ∧
      (s.copy o).children (s.cren o x) = (s.children x).map (s.cren o) ∧
      (s.copy o).srcs (s.cren o x) = (s.srcs x).map (s.cren o) ∧
      (s.copy o).sens (s.cren o x) = (s.sens x).map (s.cren o) ∧
      (s.copy o).colls (s.cren o x) = (s.colls x).map (s.cren o) ∧
      (∀ y ∈ s.children x, y ∈ s.cnodes o)) ∧
    (s.cren o o = s.n ∧ (s.copy o).parent (s.cren o o) = none) ∧
    (∀ x ∈ s.cnodes o, x ≠ o → ∃ p ∈ s.cnodes o, s.parent x = some p ∧
      (s.copy o).parent (s.cren o x) = some (s.cren o p)) := by
  refine ⟨mem_cnodes_iff s hi ha o, cnodes_nodup s hi ha o, cren_isNew s o, ?_, ?_, ?_, ?_, ?_⟩
  · intro x hx y h; exact cren_inj s o x y hx h
  · intro j hj
    exact ⟨s.csrc o j, csrc_mem s o j hj, cren_csrc s o j (cnodes_nodup s hi ha o) hj⟩
  · intro x hx
    exact ⟨copy_kind_cren s o x hx, copy_children_cren s o x hx, copy_srcs_cren s o x hx,
      copy_sens_cren s o x hx, copy_colls_cren s o x hx, fun y hy => cnodes_child s hi ha o x y hx hy⟩
  · refine ⟨cren_root s o, ?_⟩
    rw [copy_parent_cren s o o (root_mem_cnodes s o), if_pos rfl]
  · intro x hx hne
    obtain ⟨p, hp, hpm, hpc⟩ := copy_parent_cren_inner s hi ha o x hx hne
    exact ⟨p, hpm, hp, hpc⟩

-- non-vacuity: in `demo`, copying 0 clones [0, 2, 1, 3] (pre-order) onto 4, 5, 6, 7
example : demo.cnodes 0 = [0, 2, 1, 3] ∧ demo.cren 0 1 = 6 ∧ demo.cren 0 3 = 7 := by decide

/-- the renaming of `copy_root_children` is `cren` -/
theorem cren_eq (s : Forest) (o x : Nat) : s.cren o x = s.n + (s.subtree (s.n + 1) o).idxOf x := rfl

/-- Original and copy share no node: no existing object's `_children`, typed views or `_parent`
mention a new id, and no clone's `_children`, typed views or `_parent` mention an existing object
(so no later operation on one tree can reach the other through the links). -/
theorem copy_shares_no_node (s : Forest) (hi : s.Inv) (o : Nat) :
    (∀ j, j < s.n →
      (∀ c ∈ (s.copy o).children j, c < s.n) ∧ (∀ c ∈ (s.copy o).srcs j, c < s.n) ∧
      (∀ c ∈ (s.copy o).sens j, c < s.n) ∧ (∀ c ∈ (s.copy o).colls j, c < s.n) ∧
      (∀ p, (s.copy o).parent j = some p → p < s.n)) ∧
    (∀ j, IsNew s o j →
      (∀ c ∈ (s.copy o).children j, s.n ≤ c) ∧ (∀ c ∈ (s.copy o).srcs j, s.n ≤ c) ∧
      (∀ c ∈ (s.copy o).sens j, s.n ≤ c) ∧ (∀ c ∈ (s.copy o).colls j, s.n ≤ c) ∧
      (∀ p, (s.copy o).parent j = some p → s.n ≤ p)) := by
  constructor
  · intro j hj
    have hN := old_not_new s o j hj
    rw [copy_children, copy_srcs, copy_sens, copy_colls, copy_parent, if_neg hN, if_neg hN, if_neg hN,
      if_neg hN, if_neg hN]
    have hch : ∀ c ∈ s.children j, c < s.n := fun c hc => (hi.inScope _ _ ((hi.parent_iff _ _).mpr hc)).2
    obtain ⟨h1, h2, h3⟩ := hi.views j
    refine ⟨hch, ?_, ?_, ?_, fun p hp => (hi.inScope _ _ hp).1⟩
    · intro c hc; rw [h1] at hc; exact hch c (List.mem_of_mem_filter hc)
    · intro c hc; rw [h2] at hc; exact hch c (List.mem_of_mem_filter hc)
    · intro c hc; rw [h3] at hc; exact hch c (List.mem_of_mem_filter hc)
  · intro j hj
    rw [copy_children, copy_srcs, copy_sens, copy_colls, copy_parent, if_pos hj, if_pos hj, if_pos hj,
      if_pos hj, if_pos hj]
    have hm : ∀ (l : List Nat), ∀ c ∈ l.map (s.cren o), s.n ≤ c := by
      intro l c hc
      obtain ⟨z, _, rfl⟩ := List.mem_map.mp hc
      exact cren_ge s o z
    refine ⟨hm _, hm _, hm _, hm _, ?_⟩
    intro p hp
    split at hp
    · cases hp
    · cases hpar : s.parent (s.csrc o j) with
      | none => rw [hpar] at hp; cases hp
      | some q =>
        rw [hpar] at hp
        simp only [Option.map_some, Option.some.injEq] at hp
        rw [← hp]; exact cren_ge s o q

-- non-vacuity: the clone of the owned collection 1 of `demo` lists only new ids
example : IsNew demo 1 4 ∧ (demo.copy 1).children 4 = [5] ∧ (demo.copy 1).children 0 = [2, 1] := by decide

/-! ### `add_iteration_suffix`: full specification -/

/-- every name splits, in exactly one way, into a part not ending in a digit and a (possibly
empty) run of digits — so the two cases below cover every label, and nothing else applies -/
theorem label_cases_exhaustive (name : List Char) :
    ∃ pre ds, name = pre ++ ds ∧ (∀ c ∈ ds, isDigit c = true) ∧
      (∀ c, pre.getLast? = some c → isDigit c = false) ∧
      ∀ pre' ds', name = pre' ++ ds' → (∀ c ∈ ds', isDigit c = true) →
        (∀ c, pre'.getLast? = some c → isDigit c = false) → pre' = pre ∧ ds' = ds := by
  obtain ⟨h1, h2, h3⟩ := split_decomp name
  refine ⟨_, _, h1, h2, h3, ?_⟩
  intro pre' ds' h hd' hp'
  exact split_unique pre' ds' _ _ hd' hp' h2 h3 (h ▸ h1)

/-- no trailing digit (also: the empty label): `_01` is appended — only `01` when the name
already ends in an underscore, so no doubled underscore is produced -/
theorem label_no_trailing_digit (name : List Char) (h : ∀ c, name.getLast? = some c → isDigit c = false) :
    addIterationSuffix name = name ++ (if name.getLast? = some '_' then [] else ['_']) ++ ['0', '1'] := by
  have hs := split_append name [] (by simp) h
  rw [List.append_nil] at hs
  rw [addIterationSuffix_of_split name name [] hs, if_pos rfl]
  rfl

/-- a trailing digit run `ds` (maximal: `pre` does not end in a digit) of width `w` and value `k`
is replaced by `k + 1` zero-padded to width `w`; everything before it is kept; no underscore added -/
theorem label_trailing_digits (pre ds : List Char) (hds : ds ≠ []) (hd : ∀ c ∈ ds, isDigit c = true)
    (hpre : ∀ c, pre.getLast? = some c → isDigit c = false) :
    addIterationSuffix (pre ++ ds) = pre ++ padded (digitsToNat ds + 1) ds.length :=
  label_suffix_digits pre ds hds (split_append pre ds hd hpre)

/-- what `padded k w` (`f"{k:0{w}}"`) is: decimal digits only, of value `k`; exactly `w` of them
while `k` fits into `w` digits, the plain numeral (no padding, more than `w` digits) once it does not -/
theorem padded_spec (k w : Nat) (hw : 0 < w) :
    (∀ c ∈ padded k w, isDigit c = true) ∧ digitsToNat (padded k w) = k ∧
    (k < 10 ^ w → (padded k w).length = w) ∧ (10 ^ w ≤ k → padded k w = Nat.toDigits 10 k) :=
  ⟨padded_all_digits k w, digitsToNat_padded k w, padded_length_of_lt k w hw, padded_of_ge k w hw⟩

/-- the width is kept as long as the incremented number fits: the new label is exactly as long -/
theorem label_width_kept (pre ds : List Char) (hds : ds ≠ []) (hd : ∀ c ∈ ds, isDigit c = true)
    (hpre : ∀ c, pre.getLast? = some c → isDigit c = false) (hfit : digitsToNat ds + 1 < 10 ^ ds.length) :
    (addIterationSuffix (pre ++ ds)).length = (pre ++ ds).length := by
  rw [label_trailing_digits pre ds hds hd hpre, List.length_append, List.length_append,
    padded_length_of_lt _ _ (List.length_pos_iff.mpr hds) hfit]

/-- roll-over: a run of `w` nines (9, 99, 999, …) becomes `1` followed by `w` zeros — the label
grows by one character (`x99 → x100`) -/
theorem label_rollover (pre : List Char) (w : Nat) (hw : 0 < w)
    (hpre : ∀ c, pre.getLast? = some c → isDigit c = false) :
    addIterationSuffix (pre ++ List.replicate w '9') = pre ++ '1' :: List.replicate w '0' := by
  have hne : List.replicate w '9' ≠ [] := by
    intro h; have := congrArg List.length h; simp at this; omega
  have hd : ∀ c ∈ List.replicate w '9', isDigit c = true := by
    intro c hc; rw [(List.mem_replicate.mp hc).2]; decide
  rw [label_trailing_digits pre _ hne hd hpre, digitsToNat_nines, List.length_replicate,
    padded_of_ge _ _ hw (le_refl _), toDigits_pow]

/-- the label is a counter: the number written by the trailing digits (0 if none) goes up by
exactly one with every copy -/
theorem label_counter (name : List Char) : labelValue (addIterationSuffix name) = labelValue name + 1 := by
  obtain ⟨hname, hd, hpre⟩ := split_decomp name
  generalize hsp : splitTrailingDigits name = r at hname hd hpre
  obtain ⟨pre, ds⟩ := r
  simp only at hname hd hpre
  rw [addIterationSuffix_of_split name pre ds hsp]
  have hv : labelValue name = digitsToNat ds := by unfold labelValue; rw [hsp]
  rw [hv]
  by_cases hds : ds = []
  · subst hds
    rw [if_pos rfl]
    have hn : name = pre := by simpa using hname
    subst hn
    have hmid : ∀ c, (name ++ (if name.getLast? = some '_' then [] else ['_'])).getLast? = some c →
        isDigit c = false := by
      intro c hc
      split at hc
      · rename_i hl
        rw [List.append_nil, hl] at hc
        cases hc; decide
      · simp at hc
        subst hc; decide
    unfold labelValue
    rw [split_append _ _ (padded_all_digits 1 2) hmid]
    rfl
  · rw [if_neg hds]
    unfold labelValue
    rw [split_append pre _ (padded_all_digits _ _) hpre]
    exact digitsToNat_padded _ _

theorem labelValue_iterate (name : List Char) (i : Nat) :
    labelValue (addIterationSuffix^[i] name) = labelValue name + i := by
  induction i with
  | zero => rfl
  | succ i ih => rw [Function.iterate_succ_apply', label_counter, ih]; omega

/-- not idempotent, never cyclic: the labels of a chain of copies `x, x.copy(), x.copy().copy(), …`
are pairwise different -/
theorem label_iterates_distinct (name : List Char) (i j : Nat) (h : i ≠ j) :
    addIterationSuffix^[i] name ≠ addIterationSuffix^[j] name := by
  intro he
  have := congrArg labelValue he
  rw [labelValue_iterate, labelValue_iterate] at this
  omega

/-- in particular: the iterated label differs from the original's, and applying it twice gives
two further, different labels -/
theorem label_twice_differs (name : List Char) :
    addIterationSuffix name ≠ name ∧ addIterationSuffix (addIterationSuffix name) ≠ addIterationSuffix name ∧
    addIterationSuffix (addIterationSuffix name) ≠ name :=
  ⟨label_iterates_distinct name 1 0 (by decide), label_iterates_distinct name 2 1 (by decide),
   label_iterates_distinct name 2 0 (by decide)⟩

/-- the label written by `copy()`: none unless the original has a style object or style keyword
arguments; `<ClassName>_01` for an unlabelled original; otherwise the iterated label, which is
never the original's label -/
theorem copy_label_spec (cls l : List Char) :
    copyLabel cls false none = none ∧ copyLabel cls true none = some (cls ++ "_01".toList) ∧
    copyLabel cls true (some l) = some (addIterationSuffix l) ∧ copyLabel cls true (some l) ≠ some l := by
  refine ⟨rfl, rfl, rfl, ?_⟩
  intro h
  exact (label_twice_differs l).1 (Option.some.inj h)

-- non-vacuity
example : addIterationSuffix "".toList = "_01".toList := by decide
example : addIterationSuffix "a__".toList = "a__01".toList := by decide
example : addIterationSuffix "x9999".toList = "x10000".toList := by decide
example : addIterationSuffix "0099".toList = "0100".toList := by decide
example : addIterationSuffix "a1b007".toList = "a1b008".toList := by decide
example : labelValue "col_02".toList = 2 ∧ labelValue "col".toList = 0 := by decide
example : addIterationSuffix (addIterationSuffix "x99".toList) = "x101".toList := by decide
example : copyLabel "Sensor".toList true none = some "Sensor_01".toList := by decide


/-! ## attributes, containers, keyword overrides, later operations (Model/ForestAttr.lean)

State `AForest` = the forest + per object a record (class, scalar attributes, pending style keyword arguments) and
the ADDRESSES of its mutable containers (`_position`, `_orientation`, `_polarization`, `_dimension`, `_moment`,
`_pixel`, `_style`) in a heap of cells.  `WF` = no container is held twice (by two objects or in two slots).
`s.view j` = everything a public read of object `j` returns apart from the tree links.  `s.copyKw o kw` =
`obj.copy(**kwargs)`; the copy is object `s.f.n`, the clone of `x` is `s.f.cren o x`.  `run ops s` = a history.
All of it is executed by the driver and compared with the real objects by the `forestattr` stream, including which
container objects stay and which are replaced. -/
section Attr
open AForest

/-- every state reachable from constructed objects by ANY history (tree operations, move / rotate / position= on
objects and collections, attribute and style writes, style reads, copies with keyword overrides) is
heap-well-formed — no two attributes of any objects are the same container — and consistent and acyclic -/
theorem reachable_wf (specs : List Spec) (ops : List AOp) :
    WF (run ops (init specs)) ∧ (run ops (init specs)).f.Inv ∧ (run ops (init specs)).f.Acyclic := by
  obtain ⟨hw, hf⟩ := init_wf specs
  have hs : Sep (fun _ => False) (init specs) :=
    ⟨hw, by rw [hf]; exact init_inv _, by rw [hf]; exact init_acyclic _, fun _ _ _ => Iff.rfl, fun _ h => h.elim⟩
  obtain ⟨h, _⟩ := run_sep ops _ hs (fun _ _ _ _ h => h)
  exact ⟨h.wf, h.inv, h.acyc⟩

/-- (c) NO SHARED MUTABLE STATE: after `copy(**kwargs)` no container held by a clone is held by any object that
existed before — whatever slot, including the original's freshly realised style; and (second part) the containers the
old objects held BEFORE the call (apart from the original's style slot, which stays or is created) are still held
by them, so the clones' containers are also disjoint from every container that existed before -/
theorem copy_heap_disjoint (s : AForest) (hw : WF s) (hi : s.f.Inv) (ha : s.f.Acyclic) (o : Nat) (ho : o < s.f.n)
    (kw : List Ov) :
    WF (s.copyKw o kw) ∧
    (∀ i j sl tl a, i < s.f.n → IsNew s.f o j → ((s.copyKw o kw).na i).adr sl = some a →
      ((s.copyKw o kw).na j).adr tl ≠ some a) ∧
    (∀ i sl, i < s.f.n → ¬ (i = o ∧ sl = .style) → ((s.copyKw o kw).na i).adr sl = (s.na i).adr sl) := by
  have h1 := copyKw_step s o kw hw hi ha ho
  have hn : (s.copyKw o kw).f.n = s.f.n + (s.f.cnodes o).length := by rw [h1.f_eq, copy0_f, copy_n]
  refine ⟨h1.wf, ?_, ?_⟩
  · intro i j sl tl a hi' hj ha' hb
    have := h1.wf.inj i j sl tl a (by rw [hn]; omega) (by rw [hn]; exact hj.2) ha' hb
    have := hj.1; omega
  · intro i sl hi' hne
    have hlt : i < (s.copy0 o).f.n := lt_of_lt_of_le hi' (copy0_keeps s o hw).n_le
    rw [h1.keeps.adr_eq i sl ⟨⟨by omega, Or.inl (fun h => by have := h.1; omega)⟩, hne⟩ hlt, copy0_na_old s o i hi']

/-- (b) KEYWORD OVERRIDES (and the label) ACT ON THE COPY ONLY: every object that existed before — the original, its
ancestors, its descendants, unrelated objects — reads exactly as before the call, and keeps its tree links; every
object other than the original keeps its whole record and every container unchanged (the original's lazily
un-initialised style is realised by the call: its record changes, its reads do not) -/
theorem copy_overrides_only_copy (s : AForest) (hw : WF s) (hi : s.f.Inv) (ha : s.f.Acyclic) (o : Nat)
    (ho : o < s.f.n) (kw : List Ov) (j : Nat) (hj : j < s.f.n) :
    (s.copyKw o kw).view j = s.view j ∧ (s.copyKw o kw).f.parent j = s.f.parent j ∧
    (s.copyKw o kw).f.children j = s.f.children j ∧ (s.copyKw o kw).f.kind j = s.f.kind j ∧
    (j ≠ o → (s.copyKw o kw).na j = s.na j ∧ ∀ sl a, (s.na j).adr sl = some a → (s.copyKw o kw).heap a = s.heap a) := by
  have h0 := copy0_keeps s o hw
  have h1 := copyKw_step s o kw hw hi ha ho
  have hB := copyKw_phaseB s o kw hw hi ha ho
  have hf : (s.copyKw o kw).f = s.f.copy o := h1.f_eq
  obtain ⟨t1, t2, _, _, _, t6⟩ := Forest.C18aux.copy_old s.f o j hj
  have hjn : j ≠ s.f.n := by omega
  have hnq : ¬ NewQ s o j := fun h => by have := h.1; omega
  have hj0 : j < (s.copy0 o).f.n := lt_of_lt_of_le hj h0.n_le
  refine ⟨?_, by rw [hf]; exact t1, by rw [hf]; exact t2, by rw [hf]; exact t6, ?_⟩
  · by_cases hjo : j = o
    · subst hjo
      obtain ⟨hA, sv, c1, c2, _⟩ := labelStep_spec s j hw hj
      have hjA : j < (labelStep s (s.copy0 j) j).f.n := by rw [hA.f_eq]; exact hj0
      have hmB := hB.keeps.meta_eq j hjn hjA
      refine view_congr s _ j j ?_ ?_ (hmB.1.trans c1) (hmB.2.1.trans c2)
      · intro sl hsl
        rw [h1.keeps.cellAt j sl ⟨⟨hjn, Or.inl hnq⟩, fun h => hsl h.2⟩ hj0, h0.cellAt j sl trivial hj]
      · rw [styleView_congr _ _ j j (hB.keeps.cellAt j .style ⟨hjn, Or.inl hnq⟩ hjA) hmB.2.2, sv]
    · exact (view_of_keeps h1.keeps j hj0 (fun sl => ⟨⟨hjn, Or.inl hnq⟩, fun h => hjo h.1⟩) ⟨hjn, hjo⟩).trans
        (view_of_keeps h0 j hj (fun _ => trivial) trivial)
  · intro hjo
    have hk := (h0.mono (P' := fun i _ => i = j) (M' := (· = j)) (fun _ _ _ => trivial) (fun _ _ => trivial)).trans
      (h1.keeps.mono (fun i tl h => by subst h; exact ⟨⟨hjn, Or.inl hnq⟩, fun h => hjo h.1⟩)
        (fun i h => by subst h; exact ⟨hjn, hjo⟩))
    obtain ⟨m1, m2, m3⟩ := hk.meta_eq j rfl hj
    have hadr : ((s.copyKw o kw).na j).adr = (s.na j).adr := funext fun sl => hk.adr_eq j sl rfl hj
    refine ⟨?_, fun sl a h => hk.heap_eq j sl a rfl hj h⟩
    cases ht : (s.copyKw o kw).na j; cases hs' : s.na j
    rw [ht, hs'] at m1 m2 m3 hadr
    simp only at m1 m2 m3 hadr
    rw [m1, m2, m3, hadr]

/-- (a) SAME CLASS, SHAPE AND ATTRIBUTE VALUES.  For every object `x` of the copied subtree, with `j` its clone:
* the class is the original's (the tree shape is `copy_subtree_iso`);
* if `x` is not the copied object itself: geometry / excitation arrays, scalar attributes and the style read exactly
  as `x`'s, whatever the keyword arguments; the path (position and orientation) too unless a `position=` keyword
  or an `orientation=` keyword was given (which move / rotate the children of a copied collection along, as the setters do);
* the copied object itself, without keyword arguments: everything reads as the original's except the style label,
  which is the iterated label (`copyLabel`: none if the original has neither a style object nor style arguments,
  `<Class>_01` for an unlabelled original, the incremented label otherwise). -/
theorem copy_attrs_equal (s : AForest) (hw : WF s) (hi : s.f.Inv) (ha : s.f.Acyclic) (o : Nat) (ho : o < s.f.n)
    (kw : List Ov) (x : Nat) (hx : x ∈ s.f.cnodes o) :
    ((s.copyKw o kw).na (s.f.cren o x)).cls = (s.na x).cls ∧
    (s.copyKw o kw).f.kind (s.f.cren o x) = s.f.kind x ∧
    (x ≠ o →
      (∀ sl, sl ≠ .pos → sl ≠ .ori → (s.copyKw o kw).cellAt (s.f.cren o x) sl = s.cellAt x sl) ∧
      ((s.copyKw o kw).na (s.f.cren o x)).scal = (s.na x).scal ∧
      (s.copyKw o kw).styleView (s.f.cren o x) = s.styleView x ∧
      ((∀ ov ∈ kw, (∀ p, ov ≠ .pos p) ∧ (∀ r, ov ≠ .ori r)) → (s.copyKw o kw).view (s.f.cren o x) = s.view x)) ∧
    (x = o → kw = [] →
      (s.copyKw o kw).view (s.f.cren o x) =
        { s.view o with style :=
            if s.touched o then { s.styleView o with label := copyLabel (clsName (s.na o).cls) true (s.styleView o).label }
            else s.styleView o }) := by
  have hnew := cren_isNew s.f o x hx
  have hsrc := csrc_cren s.f o x hx
  have h1 := copyKw_step s o kw hw hi ha ho
  have hB := copyKw_phaseB s o kw hw hi ha ho
  obtain ⟨hA, _, _, _, svr, clr, scr, cellr⟩ := labelStep_spec s o hw ho
  have hj0 : s.f.cren o x < (s.copy0 o).f.n := by rw [copy0_f, copy_n]; exact hnew.2
  have hjo : s.f.cren o x ≠ o := by have := hnew.1; omega
  have hcell0 : ∀ sl, (s.copy0 o).cellAt (s.f.cren o x) sl = s.cellAt x sl := by
    intro sl; rw [copy0_cellAt_new s o _ hnew, hsrc]
  have hmeta0 := copy0_meta_new s o _ hnew
  rw [hsrc] at hmeta0
  have hf : (s.copyKw o kw).f = s.f.copy o := h1.f_eq
  refine ⟨?_, by rw [hf]; exact copy_kind_cren s.f o x hx, ?_, ?_⟩
  · by_cases hxo : x = o
    · subst hxo
      rw [cren_root]
      have hr : s.f.n < (labelStep s (s.copy0 x) x).f.n := by rw [hA.f_eq]; exact (root_new s x).2
      rw [h1.cls_eq, (copy0_meta_new s x _ ((newQ_iff s x s.f.n).mp (root_new s x))).1, csrc_root]
    · have hjr : s.f.cren o x ≠ s.f.n := fun h => hxo ((cren_eq_root_iff s.f o x hx).mp h)
      rw [(h1.keeps.meta_eq _ ⟨hjr, hjo⟩ hj0).1, hmeta0.1]
  · intro hxo
    have hjr : s.f.cren o x ≠ s.f.n := fun h => hxo ((cren_eq_root_iff s.f o x hx).mp h)
    have hm := h1.keeps.meta_eq _ ⟨hjr, hjo⟩ hj0
    have hc : ∀ sl, sl ≠ .pos → sl ≠ .ori → (s.copyKw o kw).cellAt (s.f.cren o x) sl = s.cellAt x sl := by
      intro sl h1' h2'
      rw [h1.keeps.cellAt _ sl ⟨⟨hjr, Or.inr ⟨h1', h2'⟩⟩, fun h => hjo h.1⟩ hj0, hcell0]
    refine ⟨hc, hm.2.1.trans hmeta0.2.1, ?_, ?_⟩
    · exact styleView_congr s _ x _ (hc .style (by decide) (by decide)) (hm.2.2.trans hmeta0.2.2)
    · intro hnp
      have hBn := copyKw_phaseB_nopos s o kw hw ho hnp
      have hjA : s.f.cren o x < (labelStep s (s.copy0 o) o).f.n := by rw [hA.f_eq]; exact hj0
      have hcc : ∀ sl, (s.copyKw o kw).cellAt (s.f.cren o x) sl = s.cellAt x sl := by
        intro sl
        rw [hBn.keeps.cellAt _ sl hjr hjA, hA.keeps.cellAt _ sl ⟨hjr, fun h => hjo h.1⟩ hj0, hcell0]
      exact view_congr s _ x _ (fun sl _ => hcc sl)
        (styleView_congr s _ x _ (hcc _) (hm.2.2.trans hmeta0.2.2)) (hm.1.trans hmeta0.1) (hm.2.1.trans hmeta0.2.1)
  · intro hxo hkw
    subst hxo hkw
    rw [cren_root]
    have : s.copyKw x [] = labelStep s (s.copy0 x) x := by
      unfold copyKw; simp [styleKw, SData.nonempty, SData.empty]
    rw [this]
    unfold view
    have hp : ∀ sl, sl ≠ .style → (labelStep s (s.copy0 x) x).cellAt s.f.n sl = s.cellAt x sl := cellr
    unfold posOf oriOf intsOf
    simp only [List.map_cons, List.map_nil]
    rw [hp .pos (by decide), hp .ori (by decide), hp .a0 (by decide), hp .a1 (by decide), hp .a2 (by decide),
      hp .a3 (by decide), svr, clr, scr]


theorem copyKw_sep_new (s : AForest) (hw : WF s) (hi : s.f.Inv) (ha : s.f.Acyclic) (o : Nat) (ho : o < s.f.n)
    (kw : List Ov) : Sep (IsNew s.f o) (s.copyKw o kw) ∧ Sep (· < s.f.n) (s.copyKw o kw) := by
  have h1 := copyKw_step s o kw hw hi ha ho
  have hf : (s.copyKw o kw).f = s.f.copy o := h1.f_eq
  have hinv := copy_inv s.f hi ha o
  have hac := copy_acyclic s.f hi ha o
  constructor
  · refine ⟨h1.wf, by rw [hf]; exact hinv, by rw [hf]; exact hac, ?_, ?_⟩
    · rw [hf]
      intro y c hyc
      have := copy_closed_new s o hi ha y c hyc
      rwa [newQ_iff, newQ_iff] at this
    · intro j hj; rw [hf, copy_n]; exact hj.2
  · refine ⟨h1.wf, by rw [hf]; exact hinv, by rw [hf]; exact hac, by rw [hf]; exact copy_closed_lt s o hi, ?_⟩
    intro j hj; rw [hf, copy_n]; omega

/-- (d) LATER CHANGES TO EITHER SIDE ARE INVISIBLE TO THE OTHER.  Right after `copy(**kwargs)`:
(i) ANY later history that names no clone — operations on the original, on its descendants, on its ANCESTORS (a
move / rotate / position= of a collection above the original legitimately moves the original and everything below
it: those are old objects; the copy has no parent and is not reached), on unrelated objects, on objects created later
from them, tree edits among them, further copies of them — leaves every object of the copied subtree exactly as it
was: same reads, same record, same containers with the same content, same parent and children;
(ii) ANY later history that names no object that existed before the copy — operations on the copy, its subtree,
objects created from them — leaves every old object exactly as it was.
"Names" = `mentions`: the receiver and every object argument of the operation.  Proof: induction over the history
with the invariant `Sep` (heap well-formed, consistent, acyclic, no parent link crosses the border), the step being
the frame lemma of each operation; (c) is what makes in-place writes on one side harmless for the other. -/
theorem later_ops_invisible (s : AForest) (hw : WF s) (hi : s.f.Inv) (ha : s.f.Acyclic) (o : Nat) (ho : o < s.f.n)
    (kw : List Ov) (ops : List AOp) :
    ((∀ op ∈ ops, ∀ i ∈ mentions op, ¬ IsNew s.f o i) → ∀ j, IsNew s.f o j →
      (run ops (s.copyKw o kw)).view j = (s.copyKw o kw).view j ∧
      (run ops (s.copyKw o kw)).f.parent j = (s.copyKw o kw).f.parent j ∧
      (run ops (s.copyKw o kw)).f.children j = (s.copyKw o kw).f.children j ∧
      (run ops (s.copyKw o kw)).f.kind j = (s.copyKw o kw).f.kind j ∧
      (run ops (s.copyKw o kw)).na j = (s.copyKw o kw).na j ∧
      (∀ sl a, ((s.copyKw o kw).na j).adr sl = some a → (run ops (s.copyKw o kw)).heap a = (s.copyKw o kw).heap a)) ∧
    ((∀ op ∈ ops, ∀ i ∈ mentions op, ¬ i < s.f.n) → ∀ j, j < s.f.n →
      (run ops (s.copyKw o kw)).view j = (s.copyKw o kw).view j ∧
      (run ops (s.copyKw o kw)).f.parent j = (s.copyKw o kw).f.parent j ∧
      (run ops (s.copyKw o kw)).f.children j = (s.copyKw o kw).f.children j ∧
      (run ops (s.copyKw o kw)).f.kind j = (s.copyKw o kw).f.kind j ∧
      (run ops (s.copyKw o kw)).na j = (s.copyKw o kw).na j ∧
      (∀ sl a, ((s.copyKw o kw).na j).adr sl = some a → (run ops (s.copyKw o kw)).heap a = (s.copyKw o kw).heap a)) := by
  obtain ⟨h1, h2⟩ := copyKw_sep_new s hw hi ha o ho kw
  constructor
  · intro hm j hj
    exact (run_sep ops _ h1 hm).2.view h1 j hj
  · intro hm j hj
    exact (run_sep ops _ h2 hm).2.view h2 j hj

/-- (a)–(d) hold in every reachable state: the hypotheses `WF`, `Inv`, `Acyclic` of the theorems above are
consequences of reachability (`reachable_wf`), so for every history `ops0` from constructed objects, every existing
object `o`, all keyword arguments and every later history the statements apply; here (d) spelled out for the reads -/
theorem later_ops_invisible_reachable (specs : List Spec) (ops0 : List AOp) (o : Nat)
    (ho : o < (run ops0 (init specs)).f.n) (kw : List Ov) (ops : List AOp) :
    let s := run ops0 (init specs)
    ((∀ op ∈ ops, ∀ i ∈ mentions op, ¬ IsNew s.f o i) → ∀ j, IsNew s.f o j →
      (run ops (s.copyKw o kw)).view j = (s.copyKw o kw).view j) ∧
    ((∀ op ∈ ops, ∀ i ∈ mentions op, ¬ i < s.f.n) → ∀ j, j < s.f.n →
      (run ops (s.copyKw o kw)).view j = s.view j) := by
  intro s
  obtain ⟨hw, hi, ha⟩ := reachable_wf specs ops0
  obtain ⟨a, b⟩ := later_ops_invisible s hw hi ha o ho kw ops
  exact ⟨fun hm j hj => (a hm j hj).1,
    fun hm j hj => ((b hm j hj).1).trans (copy_overrides_only_copy s hw hi ha o ho kw j hj).1⟩

/-! non-vacuity: collection 0 (at (1,0,0), style arguments pending) holding magnet 1 (polarization (1,2,3), at (5,5,5));
copy of 0 with `position=(0,0,9)` and `style_label="k"`; then the ORIGINAL collection is moved by (1,1,1) and the
magnet gets a new polarization; then the copy's magnet (object 3) is moved -/
def demoA : AForest :=
  run [.tree (.add 0 [1] false)] (init
    [{ kind := .coll, cls := 5, pos := [⟨1, 0, 0⟩], arrs := [], scal := [], skw := ⟨some "c".toList, [(0, 1)]⟩ },
     { kind := .src, cls := 0, pos := [⟨5, 5, 5⟩], arrs := [(.a0, [1, 2, 3]), (.a1, [1, 1, 1])], scal := [], skw := SData.empty }])

def demoKw : List Ov := [.pos [⟨0, 0, 9⟩], .label "k".toList]
def demoLater : List AOp := [.move 0 (.scalar ⟨1, 1, 1⟩) none, .setArr 1 .a0 [7, 7, 7]]

example : demoA.f.n = 2 ∧ (demoA.copyKw 0 demoKw).f.n = 4 ∧ (demoA.copyKw 0 demoKw).f.children 2 = [3] := by decide
-- the copy: own position, label from the keyword, pending opacity kept; its magnet moved along, same polarization
example : (demoA.copyKw 0 demoKw).posOf 2 = [⟨0, 0, 9⟩] ∧ (demoA.copyKw 0 demoKw).posOf 3 = [⟨4, 5, 14⟩] ∧
    (demoA.copyKw 0 demoKw).intsOf 3 .a0 = some [1, 2, 3] ∧
    (demoA.copyKw 0 demoKw).styleView 2 = ⟨some "k".toList, [(0, 1)]⟩ := by decide
-- the original: untouched by the overrides
example : (demoA.copyKw 0 demoKw).posOf 0 = [⟨1, 0, 0⟩] ∧ (demoA.copyKw 0 demoKw).posOf 1 = [⟨5, 5, 5⟩] ∧
    (demoA.copyKw 0 demoKw).styleView 0 = ⟨some "c".toList, [(0, 1)]⟩ := by decide
-- without keywords the label is iterated: "c" -> "c_01"
example : (demoA.copyKw 0 []).styleView 2 = ⟨some "c_01".toList, [(0, 1)]⟩ := by decide
-- later operations on the original side really change the original side, and name no clone
example : (run demoLater (demoA.copyKw 0 demoKw)).posOf 1 = [⟨6, 6, 6⟩] ∧
    (run demoLater (demoA.copyKw 0 demoKw)).intsOf 1 .a0 = some [7, 7, 7] ∧
    (run demoLater (demoA.copyKw 0 demoKw)).posOf 3 = [⟨4, 5, 14⟩] ∧
    (run demoLater (demoA.copyKw 0 demoKw)).intsOf 3 .a0 = some [1, 2, 3] := by decide
example : ∀ op ∈ demoLater, ∀ i ∈ mentions op, ¬ IsNew demoA.f 0 i := by decide
-- the containers of the copy are new ones
example : ((demoA.copyKw 0 demoKw).na 1).adr .pos = some 3 ∧ ((demoA.copyKw 0 demoKw).na 3).adr .pos = some 27 ∧
    ((demoA.copyKw 0 demoKw).na 0).adr .kids = some 2 ∧ ((demoA.copyKw 0 demoKw).na 2).adr .kids = some 14 := by decide


/-! ## `copy(**kwargs)` with ANY keywords (`copyKwG`): position (incl. paths), orientation (incl. `None` and paths),
array and scalar attributes, style_label, style properties, `parent=`, `children=`, values a setter rejects.
`copyKwG` is the code: deep copy, label, then `setattr(obj_copy, k, v)` for the non-style keywords in keyword order
(each one IS the setter operation `kwOp`, run by the same `stepBase` as a direct assignment; the loop stops at the
first setter that raises), then ONE `style.update` with all style keywords.  `assignRun root kws t` = the assignments
`twin.k = v` / `twin.style.k = v` in keyword order on object `root` of state `t`. -/

/-- (1) `copy(**kw)` IS "plain copy, then the values assigned one after the other in keyword order":
* the call raises iff one of the assignments raises;
* when it does not raise, the two states have the same forest (all parent / children / typed links of all objects)
  and EVERY object — the copy, its clones, the original, every other object, including objects that `parent=` /
  `children=` name — reads the same: class, position and orientation path (so also what `position=` / `orientation=`
  do to the other path by the setters' pad / slice rule, and to the children of a copied collection), array and scalar
  attributes, style.
Keyword lists are arbitrary (Python keywords are unique; the statement does not need it).  The states themselves
differ in heap addresses only (the style object of the copy is created at a different moment). -/
theorem copy_kw_eq_assignments (s : AForest) (hw : WF s) (hi : s.f.Inv) (ha : s.f.Acyclic) (o : Nat) (ho : o < s.f.n)
    (kws : List Kw) :
    (s.copyKwG o kws).2 = (assignRun s.f.n kws (s.copyKw o [])).2 ∧
    ((s.copyKwG o kws).2 = true →
      (s.copyKwG o kws).1.f = (assignRun s.f.n kws (s.copyKw o [])).1.f ∧
      ∀ j, j < (s.copyKwG o kws).1.f.n →
        (s.copyKwG o kws).1.view j = (assignRun s.f.n kws (s.copyKw o [])).1.view j) :=
  copyKwG_vs_assign s hw hi ha o ho kws

/-- … in every reachable state -/
theorem copy_kw_eq_assignments_reachable (specs : List Spec) (ops0 : List AOp) (o : Nat)
    (ho : o < (run ops0 (init specs)).f.n) (kws : List Kw) :
    let s := run ops0 (init specs)
    (s.copyKwG o kws).2 = (assignRun s.f.n kws (s.copyKw o [])).2 ∧
    ((s.copyKwG o kws).2 = true →
      (s.copyKwG o kws).1.f = (assignRun s.f.n kws (s.copyKw o [])).1.f ∧
      ∀ j, j < (s.copyKwG o kws).1.f.n →
        (s.copyKwG o kws).1.view j = (assignRun s.f.n kws (s.copyKw o [])).1.view j) := by
  intro s
  obtain ⟨hw, hi, ha⟩ := reachable_wf specs ops0
  exact copyKwG_vs_assign s hw hi ha o ho kws

/-- on attribute keywords whose values are accepted the general function is `copyKw`, the function (a)–(d) are about -/
theorem copy_kw_attr (s : AForest) (o : Nat) (kw : List Ov) (h : (s.copyKwG o (kw.map Kw.attr)).2 = true) :
    s.copyKwG o (kw.map Kw.attr) = (s.copyKw o kw, true) := copyKwG_attr s o kw h

/-- FRAME of `copy(**kw)`, any keywords, also when it raises part-way: a set `P` of objects that no parent link
enters or leaves, that contains neither the original nor any object named by a `parent=` / `children=` keyword, keeps
everything — reads, record, containers and their content, parent, children.  (`parent=` / `children=` are setter
operations on the copy that DO edit other objects: exactly the trees of the objects they name.) -/
theorem copy_kw_frame (s : AForest) (P : Nat → Prop) (hs : Sep P s) (o : Nat) (ho : o < s.f.n) (hoP : ¬ P o)
    (kws : List Kw) (hn : ∀ kw ∈ kws, ∀ i ∈ kw.named, ¬ P i) (j : Nat) (hj : P j) :
    (s.copyKwG o kws).1.view j = s.view j ∧ (s.copyKwG o kws).1.f.parent j = s.f.parent j ∧
    (s.copyKwG o kws).1.f.children j = s.f.children j ∧ (s.copyKwG o kws).1.f.kind j = s.f.kind j ∧
    (s.copyKwG o kws).1.na j = s.na j ∧
    (∀ sl a, (s.na j).adr sl = some a → (s.copyKwG o kws).1.heap a = s.heap a) :=
  (copyKwG_sep s hs o kws ho hoP hn).2.view hs j hj

/-! non-vacuity / what the structural keywords do (state `demoA`: collection 0 at (1,0,0) holding magnet 1 at (5,5,5)) -/
def demoTop : AForest :=
  run [.tree (.add 0 [1] false)] (init
    [{ kind := .coll, cls := 5, pos := [⟨1, 0, 0⟩], arrs := [], scal := [], skw := SData.empty },
     { kind := .src, cls := 0, pos := [⟨5, 5, 5⟩], arrs := [(.a0, [1, 2, 3]), (.a1, [1, 1, 1])], scal := [], skw := SData.empty },
     { kind := .coll, cls := 5, pos := [⟨0, 0, 0⟩], arrs := [], scal := [], skw := SData.empty }])

-- `copy(parent=col)` ADDS the copy to `col` (a documented override that edits another object): collection 2 gets child 3
example : (demoTop.copyKwG 0 [.parent (some 2)]).2 = true ∧ (demoTop.copyKwG 0 [.parent (some 2)]).1.f.children 2 = [3] ∧
    (demoTop.copyKwG 0 [.parent (some 2)]).1.f.parent 3 = some 2 ∧
    (demoTop.copyKwG 0 [.parent (some 2)]).1.f.children 0 = [1] := by decide
-- SURPRISING: `col.copy(children=col.children)` MOVES the children away from the original (the original is emptied) …
example : (demoTop.copyKwG 0 [.children [1]]).2 = true ∧ (demoTop.copyKwG 0 [.children [1]]).1.f.children 0 = [] ∧
    (demoTop.copyKwG 0 [.children [1]]).1.f.children 3 = [1] ∧ (demoTop.copyKwG 0 [.children [1]]).1.f.parent 1 = some 3 ∧
    (demoTop.copyKwG 0 [.children [1]]).1.f.parent 4 = none := by decide
-- … and a later `position=` keyword then moves that OLD object: an override that is not "applied to the copy only"
example : (demoTop.copyKwG 0 [.children [1], .attr (.pos [⟨10, 0, 0⟩])]).1.posOf 1 = [⟨14, 5, 5⟩] ∧
    demoTop.posOf 1 = [⟨5, 5, 5⟩] := by decide
-- orientation=None / a rotation path as keyword: unit rotation with a length-1 path; a path of 2 pads the position path
def rz : ARot := ⟨⟨0, -1, 0⟩, ⟨1, 0, 0⟩, ⟨0, 0, 1⟩⟩
example : (demoTop.copyKwG 1 [.attr (.ori (some [rz, 1]))]).1.oriOf 3 = [rz, 1] ∧
    (demoTop.copyKwG 1 [.attr (.ori (some [rz, 1]))]).1.posOf 3 = [⟨5, 5, 5⟩, ⟨5, 5, 5⟩] ∧
    (demoTop.copyKwG 1 [.attr (.ori (some [rz, 1])), .attr (.ori none)]).1.oriOf 3 = [1] ∧
    (demoTop.copyKwG 1 [.attr (.ori (some [rz, 1])), .attr (.ori none)]).1.posOf 3 = [⟨5, 5, 5⟩] := by decide
-- orientation= on a copied collection rotates the copied children about the copy's position (here by rz about (1,0,0))
example : (demoTop.copyKwG 0 [.attr (.ori (some [rz]))]).1.posOf 4 = [⟨-4, 4, 5⟩] ∧
    (demoTop.copyKwG 0 [.attr (.ori (some [rz]))]).1.oriOf 4 = [rz] ∧ demoTop.posOf 1 = [⟨5, 5, 5⟩] := by decide

/-! ### (2) a seeded variant: `copy(orientation=None)` keeps the original's orientation -/

/-- the keyword loop with an `if v is not None` guard in front of `setattr` -/
def kwStepGuarded (root : Nat) (r : AForest × Bool) : Kw → AForest × Bool
  | .attr (.ori none) => r
  | .parent none => r
  | kw => kwStep root r kw

def copyKwGuarded (s : AForest) (o : Nat) (kws : List Kw) : AForest × Bool :=
  let r := kws.foldl (kwStepGuarded s.f.n) (labelStep s (s.copy0 o) o, true)
  if r.2 && (styleKw (attrs kws)).nonempty then
    (r.1.setStyle s.f.n (fun d => d.update (styleKw (attrs kws))), true)
  else r

/-- one magnet that has been given the orientation `rz` -/
def demoRot : AForest :=
  run [.setOri 0 (some [rz])] (init
    [{ kind := .src, cls := 0, pos := [⟨5, 5, 5⟩], arrs := [(.a0, [1, 2, 3]), (.a1, [1, 1, 1])], scal := [], skw := SData.empty }])

/-- the obligation `copy_kw_eq_assignments` is violated by the guarded variant: on the literal state `demoRot` (a
reachable, well-formed state) the variant's copy keeps `rz`, the plain copy with `orientation = None` assigned has the
unit rotation — the reads of the copy differ.  The unguarded model satisfies the equation on the same input. -/
theorem guarded_variant_breaks_obligation :
    (copyKwGuarded demoRot 0 [.attr (.ori none)]).2 = true ∧
    (copyKwGuarded demoRot 0 [.attr (.ori none)]).1.view 1 ≠
      (assignRun demoRot.f.n [.attr (.ori none)] (demoRot.copyKw 0 [])).1.view 1 ∧
    (copyKwGuarded demoRot 0 [.attr (.ori none)]).1.oriOf 1 = [rz] ∧
    (assignRun demoRot.f.n [.attr (.ori none)] (demoRot.copyKw 0 [])).1.oriOf 1 = [1] ∧
    (demoRot.copyKwG 0 [.attr (.ori none)]).1.view 1 =
      (assignRun demoRot.f.n [.attr (.ori none)] (demoRot.copyKw 0 [])).1.view 1 := by decide


/-! ### (3) setters raising part-way in a keyword list -/

/-- a keyword list with a value its setter rejects (`position="bad"`) makes `copy` raise, wherever it stands -/
theorem copy_bad_value_raises (s : AForest) (o : Nat) (kws : List Kw) (hb : Kw.bad ∈ kws) :
    (s.copyKwG o kws).2 = false := copyKwG_bad s o kws hb

/-- `copy(**kw)` WITHOUT `parent=` / `children=` keywords (attribute keywords in any order, any of them with a rejected
value), whether it returns or raises part-way — e.g. `copy(position=bad)`:
* THE ORIGINAL IS UNCHANGED, and so is every other object that existed: same reads, same parent, same children, same
  class (the only write to an old object is the creation of the original's lazily un-initialised style, invisible to
  every read);
* NO HALF-BUILT COPY IS REACHABLE from any old object: no old object's children list or parent link mentions one of
  the objects made by the deep copy — after a raise they are garbage.
(The state after the abandoned loop is the state of a successful copy with the keywords before the raising one.) -/
theorem copy_raise_original_unchanged (s : AForest) (hw : WF s) (hi : s.f.Inv) (ha : s.f.Acyclic) (o : Nat)
    (ho : o < s.f.n) (kws : List Kw) (hp : ∀ kw ∈ kws, kw.plain) (j : Nat) (hj : j < s.f.n) :
    (s.copyKwG o kws).1.view j = s.view j ∧ (s.copyKwG o kws).1.f.parent j = s.f.parent j ∧
    (s.copyKwG o kws).1.f.children j = s.f.children j ∧ (s.copyKwG o kws).1.f.kind j = s.f.kind j ∧
    (∀ c ∈ (s.copyKwG o kws).1.f.children j, c < s.f.n) ∧
    (∀ p, (s.copyKwG o kws).1.f.parent j = some p → p < s.f.n) := by
  obtain ⟨kw', h⟩ := copyKwG_plain s o kws hp
  rw [h]
  obtain ⟨a1, a2, a3, a4, _⟩ := copy_overrides_only_copy s hw hi ha o ho kw' j hj
  refine ⟨a1, a2, a3, a4, ?_, ?_⟩
  · intro c hc
    rw [a3] at hc
    exact (hi.inScope c j ((hi.parent_iff c j).mpr hc)).2
  · intro p hp'
    rw [a2] at hp'
    exact (hi.inScope j p hp').1

-- non-vacuity: `copy(position=(0,0,9), position-like bad value)` on `demoA`: raises, originals as before, the clones exist unreferenced
example : (demoA.copyKwG 0 [.attr (.pos [⟨0, 0, 9⟩]), .bad, .attr (.label "k".toList)]).2 = false ∧
    (demoA.copyKwG 0 [.attr (.pos [⟨0, 0, 9⟩]), .bad, .attr (.label "k".toList)]).1.posOf 0 = [⟨1, 0, 0⟩] ∧
    (demoA.copyKwG 0 [.attr (.pos [⟨0, 0, 9⟩]), .bad, .attr (.label "k".toList)]).1.f.children 0 = [1] ∧
    (demoA.copyKwG 0 [.attr (.pos [⟨0, 0, 9⟩]), .bad, .attr (.label "k".toList)]).1.f.n = 4 := by decide
example : ∀ kw ∈ [Kw.attr (.pos [⟨0, 0, 9⟩]), .bad, .attr (.label "k".toList)], kw.plain := by
  intro kw h; simp at h; rcases h with rfl | rfl | rfl <;> trivial
/-- the hypothesis "no `parent=` / `children=` keyword" cannot be dropped: `copy(parent=col, position=bad)` raises, and
the half-built copy (labelled, positioned as the original) STAYS a child of the old collection `col` -/
theorem halfbuilt_copy_reachable_after_parent_kw :
    (demoTop.copyKwG 1 [.parent (some 2), .bad]).2 = false ∧
    (demoTop.copyKwG 1 [.parent (some 2), .bad]).1.f.children 2 = [3] ∧
    (demoTop.copyKwG 1 [.parent (some 2), .bad]).1.f.parent 3 = some 2 ∧
    (demoTop.copyKwG 1 [.bad, .parent (some 2)]).1.f.children 2 = [] := by decide

/-! ### audit2: the theorems above applied to the demo state (non-vacuity: ALL hypotheses instantiated) -/

def demoSpecs : List Spec :=
  [{ kind := .coll, cls := 5, pos := [⟨1, 0, 0⟩], arrs := [], scal := [], skw := ⟨some "c".toList, [(0, 1)]⟩ },
   { kind := .src, cls := 0, pos := [⟨5, 5, 5⟩], arrs := [(.a0, [1, 2, 3]), (.a1, [1, 1, 1])], scal := [], skw := SData.empty }]

/-- `demoA` is a reachable state, so `WF`, `Inv`, `Acyclic` are consequences, not assumptions -/
theorem demoA_wf : WF demoA ∧ demoA.f.Inv ∧ demoA.f.Acyclic := reachable_wf demoSpecs [.tree (.add 0 [1] false)]

-- (d)(i) applied: `demoLater` (move of the original collection, new polarization of its magnet) leaves both clones alone
example : ∀ j, IsNew demoA.f 0 j → (run demoLater (demoA.copyKw 0 demoKw)).view j = (demoA.copyKw 0 demoKw).view j :=
  fun j hj => ((later_ops_invisible demoA demoA_wf.1 demoA_wf.2.1 demoA_wf.2.2 0 (by decide) demoKw demoLater).1
    (by decide) j hj).1

/-- a history on the copy's side: the cloned magnet is moved, the copy relabelled and re-positioned (which moves its magnet) -/
def demoLaterCopy : List AOp := [.move 3 (.scalar ⟨2, 0, 0⟩) none, .setLabel 2 "q".toList, .setPos 2 [⟨7, 7, 7⟩]]

example : ∀ op ∈ demoLaterCopy, ∀ i ∈ mentions op, ¬ i < demoA.f.n := by decide
example : (run demoLaterCopy (demoA.copyKw 0 demoKw)).posOf 3 = [⟨13, 12, 12⟩] := by decide
-- (d)(ii) applied through the reachable form: the old objects read as before the copy
example : ∀ j, j < demoA.f.n → (run demoLaterCopy (demoA.copyKw 0 demoKw)).view j = demoA.view j :=
  fun j hj => (later_ops_invisible_reachable demoSpecs [.tree (.add 0 [1] false)] 0 (by decide) demoKw demoLaterCopy).2
    (by decide) j hj
-- (c) applied
example : ∀ i j sl tl a, i < demoA.f.n → IsNew demoA.f 0 j → ((demoA.copyKw 0 demoKw).na i).adr sl = some a →
    ((demoA.copyKw 0 demoKw).na j).adr tl ≠ some a :=
  (copy_heap_disjoint demoA demoA_wf.1 demoA_wf.2.1 demoA_wf.2.2 0 (by decide) demoKw).2.1
-- (b) applied
example : (demoA.copyKw 0 demoKw).view 0 = demoA.view 0 :=
  (copy_overrides_only_copy demoA demoA_wf.1 demoA_wf.2.1 demoA_wf.2.2 0 (by decide) demoKw 0 (by decide)).1
-- (a) applied to the cloned magnet (x = 1 ≠ o = 0, clone 3): arrays, scalars, style as the original's — the path is not
-- (a `position=` keyword was given): the last clause of (a) for x ≠ o is silent then
example : (demoA.copyKw 0 demoKw).cellAt 3 .a0 = demoA.cellAt 1 .a0 ∧ (demoA.copyKw 0 demoKw).styleView 3 = demoA.styleView 1 := by
  have h := (copy_attrs_equal demoA demoA_wf.1 demoA_wf.2.1 demoA_wf.2.2 0 (by decide) demoKw 1 (by decide)).2.2.1 (by decide)
  exact ⟨h.1 .a0 (by decide) (by decide), h.2.2.1⟩
example : (demoA.copyKw 0 demoKw).view 3 = { demoA.view 1 with pos := [⟨4, 5, 14⟩] } := by decide

/-! ### audit2: the copied object itself under keyword arguments

`copy_attrs_equal` says nothing about the copied object itself (x = o) once `kw ≠ []` apart from its class.  Below: every
container that no keyword names reads as the original's (ported to the keyword set with `orientation=`: it names both
paths, like `position=`).  The value of a NAMED slot, the scalars under `scal` keywords and the style under `style_*`
keywords are given by `copy_kw_eq_assignments` above (plain copy, then the assignments in keyword order); that theorem
does not subsume this one (it relates two runs, this one relates the copy to the ORIGINAL), the two are complementary. -/

/-- the container slots a `copy` keyword rebinds on the copied object -/
def ovNames : Ov → Slot → Prop
  | .pos _, sl => sl = .pos ∨ sl = .ori
  | .ori _, sl => sl = .pos ∨ sl = .ori
  | .arr sl' _, sl => sl' = sl
  | _, _ => False

theorem applyOv_root_step (s : AForest) (o : Nat) (hi : s.f.Inv) (ha : s.f.Acyclic) (sl : Slot) (t : AForest)
    (ht : t.f = s.f.copy o) (hwt : WF t) (ov : Ov) (hn : ¬ ovNames ov sl) :
    Step (fun j tl => j = s.f.n ∧ tl = sl) (fun _ => False) t (applyOv t s.f.n ov) := by
  have hroot : s.f.n < (s.f.copy o).n := (root_new s o).2
  cases ov with
  | pos p =>
    simp only [applyOv]
    split
    · exact Step.refl _ _ t hwt
    · refine (setPos_step (NewQ s o) (s.f.copy o) (newQ_closed s o hi ha) _ t s.f.n p ht hwt (root_new s o)
        hroot).mono ?_ (fun _ h => h.elim)
      rintro j tl ⟨rfl, rfl⟩
      exact Or.inr ⟨fun h => hn (Or.inl h), fun h => hn (Or.inr h)⟩
  | ori r =>
    simp only [applyOv]
    split
    · exact Step.refl _ _ t hwt
    · refine (setOri_step (NewQ s o) t hwt (by rw [ht]; exact newQ_closed s o hi ha) s.f.n (root_new s o)
        (by rw [ht]; exact hroot) _).mono ?_ (fun _ h => h.elim)
      rintro j tl ⟨rfl, rfl⟩
      exact Or.inr ⟨fun h => hn (Or.inl h), fun h => hn (Or.inr h)⟩
  | arr sl' v =>
    simp only [applyOv]
    split
    · exact (setFresh_spec t s.f.n sl' (.ints v) hwt).1.mono (fun j tl h hh => hn (hh.2.symm.trans h.2)) (fun _ h => h.elim)
    · exact Step.refl _ _ t hwt
  | scal k v =>
    simp only [applyOv]
    split
    · exact (setMeta_spec t s.f.n _ _ hwt).1.mono (fun _ _ _ => trivial) (fun _ h => h.elim)
    · exact Step.refl _ _ t hwt
  | label l => exact Step.refl _ _ t hwt
  | sprop k v => exact Step.refl _ _ t hwt

/-- (a) for the copied object itself UNDER KEYWORD ARGUMENTS: every container that no keyword names reads as the
original's — position and orientation unless `position=` or `orientation=` is given (each setter pads / slices the other
path), an array attribute unless that attribute is given
(the style is `copyKw`'s label / `style_*` business and is excluded) -/
theorem copy_root_unnamed_slots (s : AForest) (hw : WF s) (hi : s.f.Inv) (ha : s.f.Acyclic) (o : Nat) (ho : o < s.f.n)
    (kw : List Ov) (sl : Slot) (hsl : sl ≠ .style) (hn : ∀ ov ∈ kw, ¬ ovNames ov sl) :
    (s.copyKw o kw).cellAt s.f.n sl = s.cellAt o sl := by
  obtain ⟨hA, _, _, _, _, _, _, cellr⟩ := labelStep_spec s o hw ho
  have hB := foldl_ov_step (P := fun j tl => j = s.f.n ∧ tl = sl) (M := fun _ => False) (s.f.copy o) s.f.n kw _
    hA.f_eq hA.wf (fun u ov hov hu hwu => applyOv_root_step s o hi ha sl u hu hwu ov (hn ov hov))
  have hr : s.f.n < (labelStep s (s.copy0 o) o).f.n := by rw [hA.f_eq]; exact (root_new s o).2
  have hC : Step (fun j tl => j = s.f.n ∧ tl = sl) (fun _ => False) (labelStep s (s.copy0 o) o) (s.copyKw o kw) := by
    unfold copyKw
    simp only
    split
    · have hroot : s.f.n < (kw.foldl (fun t ov => applyOv t s.f.n ov) (labelStep s (s.copy0 o) o)).f.n := by
        rw [hB.f_eq, hA.f_eq]; exact (root_new s o).2
      exact hB.trans ((setStyle_spec _ s.f.n _ hB.wf hroot).1.mono (fun j tl h hh => hsl (h.2.symm.trans hh.2)) (fun _ h => h.elim))
    · exact hB
  rw [hC.keeps.cellAt s.f.n sl ⟨rfl, rfl⟩ hr, cellr sl hsl]

/-- copy of the magnet with a new dimension, a label and an opacity -/
def demoKw1 : List Ov := [.arr .a1 [2, 2, 2], .label "k".toList, .sprop 0 0]
theorem demoKw1_names (sl : Slot) (h : sl ≠ .a1) : ∀ ov ∈ demoKw1, ¬ ovNames ov sl := by
  intro ov hov
  simp only [demoKw1, List.mem_cons, List.not_mem_nil, or_false] at hov
  rcases hov with rfl | rfl | rfl
  · exact fun h' => h h'.symm
  · exact fun h' => h'
  · exact fun h' => h'
example : (demoA.copyKw 1 demoKw1).posOf 2 = demoA.posOf 1 ∧ (demoA.copyKw 1 demoKw1).intsOf 2 .a0 = demoA.intsOf 1 .a0 := by
  have h := fun sl h1 h2 => copy_root_unnamed_slots demoA demoA_wf.1 demoA_wf.2.1 demoA_wf.2.2 1 (by decide) demoKw1 sl h1
    (demoKw1_names sl h2)
  unfold posOf intsOf
  rw [show demoA.f.n = 2 from by decide] at h
  rw [h .pos (by decide) (by decide), h .a0 (by decide) (by decide)]
  exact ⟨rfl, rfl⟩
example : (demoA.copyKw 1 demoKw1).intsOf 2 .a1 = some [2, 2, 2] ∧ demoA.intsOf 1 .a1 = some [1, 1, 1] := by decide

/-! ### audit2: independence of DIFFERENT TREES in every reachable state (covers interleaved histories)

`later_ops_invisible` speaks about the state RIGHT AFTER one `copy()` and about later histories that name objects of
one side only: (i) no clone at all, (ii) no object at all that existed before.  A history that works on the copy AND on
old objects (unrelated ones, or the original) is covered by neither part.  The statement below has no such restriction:
in ANY reachable state — e.g. long after a copy, with both sides edited, re-parented, copied again — a history that names no
object of a parent-closed set `P` (a union of whole trees) leaves every object of `P` exactly as it was.  Both parts of
`later_ops_invisible` are the instances `P = IsNew` / `P = (· < s.f.n)` in the state after the copy.
(Keyword round: histories now may contain `orientation=` assignments and copies with ANY keywords incl. `parent=` /
`children=` / raising ones — `mentions` of such a copy lists the objects its keywords name; `copy_kw_frame` is the
one-copy instance of `closed_set_untouched`, kept because it is stated for `copyKwG` directly.) -/

/-- `j` is connected to `x` by parent links (followed in either direction): the two are in the same tree -/
def SameTree (f : Forest) (x j : Nat) : Prop := Relation.EqvGen (fun a b => f.parent a = some b) x j

theorem sameTree_closed (f : Forest) (x : Nat) : Closed f (SameTree f x) := by
  intro a c h
  exact ⟨fun ha => Relation.EqvGen.trans _ _ _ ha (Relation.EqvGen.rel _ _ h),
    fun hc => Relation.EqvGen.trans _ _ _ hc (Relation.EqvGen.symm _ _ (Relation.EqvGen.rel _ _ h))⟩

/-- a parent-closed set contains, with an object, its whole tree (so `SameTree f x` is the smallest one containing `x`) -/
theorem sameTree_of_closed (f : Forest) (Q : Nat → Prop) (hq : Closed f Q) (x j : Nat) (h : SameTree f x j) :
    Q x ↔ Q j := by
  induction h with
  | rel a b hab => exact hq a b hab
  | refl a => exact Iff.rfl
  | symm a b _ ih => exact ih.symm
  | trans a b c _ _ ih1 ih2 => exact ih1.trans ih2

theorem sameTree_lt (f : Forest) (hi : f.Inv) (x : Nat) (hx : x < f.n) (j : Nat) (h : SameTree f x j) : j < f.n := by
  have key : ∀ a b, Relation.EqvGen (fun a b => f.parent a = some b) a b → (a < f.n ↔ b < f.n) := by
    intro a b hab
    induction hab with
    | rel a b hab => exact ⟨fun _ => (hi.inScope a b hab).1, fun _ => (hi.inScope a b hab).2⟩
    | refl a => exact Iff.rfl
    | symm a b _ ih => exact ih.symm
    | trans a b c _ _ ih1 ih2 => exact ih1.trans ih2
  exact (key x j h).mp hx

/-- parent-closedness of a set in a consistent forest only has to be checked on the existing objects (decidable) -/
theorem closed_of_bounded (f : Forest) (hi : f.Inv) (Q : Nat → Prop)
    (h : ∀ a, a < f.n → ∀ c, c < f.n → f.parent a = some c → (Q a ↔ Q c)) : Closed f Q :=
  fun a c hac => h a (hi.inScope a c hac).2 c (hi.inScope a c hac).1 hac

/-- general frame theorem of histories: a history naming no object of the parent-closed set `P` of existing objects
leaves the objects of `P` untouched — reads, record, containers and their content, tree links -/
theorem closed_set_untouched (s : AForest) (hw : WF s) (hi : s.f.Inv) (ha : s.f.Acyclic) (P : Nat → Prop)
    (hc : Closed s.f P) (hlt : ∀ j, P j → j < s.f.n) (ops : List AOp)
    (hm : ∀ op ∈ ops, ∀ i ∈ mentions op, ¬ P i) (j : Nat) (hj : P j) :
    (run ops s).view j = s.view j ∧ (run ops s).f.parent j = s.f.parent j ∧
    (run ops s).f.children j = s.f.children j ∧ (run ops s).f.kind j = s.f.kind j ∧
    (run ops s).na j = s.na j ∧ (∀ sl a, (s.na j).adr sl = some a → (run ops s).heap a = s.heap a) :=
  (run_sep ops s ⟨hw, hi, ha, hc, hlt⟩ hm).2.view ⟨hw, hi, ha, hc, hlt⟩ j hj

/-- no two trees share mutable state: a history that names no object of the tree of `x` leaves every object of that
tree untouched -/
theorem other_trees_untouched (s : AForest) (hw : WF s) (hi : s.f.Inv) (ha : s.f.Acyclic) (x : Nat) (hx : x < s.f.n)
    (ops : List AOp) (hm : ∀ op ∈ ops, ∀ i ∈ mentions op, ¬ SameTree s.f x i) (j : Nat) (hj : SameTree s.f x j) :
    (run ops s).view j = s.view j ∧ (run ops s).f.parent j = s.f.parent j ∧
    (run ops s).f.children j = s.f.children j ∧ (run ops s).f.kind j = s.f.kind j ∧
    (run ops s).na j = s.na j ∧ (∀ sl a, (s.na j).adr sl = some a → (run ops s).heap a = s.heap a) :=
  closed_set_untouched s hw hi ha _ (sameTree_closed s.f x) (sameTree_lt s.f hi x hx) ops hm j hj

/-- … in every reachable state, without any well-formedness assumption -/
theorem other_trees_untouched_reachable (specs : List Spec) (ops0 : List AOp) (x : Nat)
    (hx : x < (run ops0 (init specs)).f.n) (ops : List AOp)
    (hm : ∀ op ∈ ops, ∀ i ∈ mentions op, ¬ SameTree (run ops0 (init specs)).f x i) (j : Nat)
    (hj : SameTree (run ops0 (init specs)).f x j) :
    (run ops (run ops0 (init specs))).view j = (run ops0 (init specs)).view j := by
  obtain ⟨hw, hi, ha⟩ := reachable_wf specs ops0
  exact (other_trees_untouched _ hw hi ha x hx ops hm j hj).1

/-- a history that copies collection 0 and then works on BOTH sides (clone 3 moved, original's magnet re-polarised, copy
relabelled, original collection moved) — not of the shape either part of `later_ops_invisible` asks for -/
def demoMixed : List AOp :=
  [.tree (.add 0 [1] false), .copy 0 (demoKw.map Kw.attr), .move 3 (.scalar ⟨2, 0, 0⟩) none, .setArr 1 .a0 [7, 7, 7],
   .setLabel 2 "q".toList, .move 0 (.scalar ⟨1, 1, 1⟩) none]
/-- afterwards: the original collection is rotated, its magnet labelled, the original copied again and put under that copy -/
def demoThen : List AOp :=
  [.rotate 0 (.scalar ⟨⟨0, -1, 0⟩, ⟨1, 0, 0⟩, ⟨0, 0, 1⟩⟩) none none, .setLabel 1 "m".toList, .copy 0 [], .tree (.add 4 [0] false)]

example : (run demoMixed (init demoSpecs)).f.n = 4 ∧ (run demoMixed (init demoSpecs)).f.parent 3 = some 2 := by decide

/-- the tree of the copy (objects 2, 3) contains no other object -/
theorem demoMixed_sep : ∀ i, i < 2 ∨ 4 ≤ i → ¬ SameTree (run demoMixed (init demoSpecs)).f 2 i := by
  intro i hi h
  have hcl : Closed (run demoMixed (init demoSpecs)).f (fun j => 2 ≤ j ∧ j < 4) :=
    closed_of_bounded _ (reachable_wf demoSpecs demoMixed).2.1 _ (by decide)
  have := (sameTree_of_closed _ _ hcl 2 i h).mp (by decide)
  omega

-- the theorem applied: the cloned magnet 3 reads the same after `demoThen` …
example : (run demoThen (run demoMixed (init demoSpecs))).view 3 = (run demoMixed (init demoSpecs)).view 3 :=
  other_trees_untouched_reachable demoSpecs demoMixed 2 (by decide) demoThen
    (by
      intro op hop i hi
      apply demoMixed_sep
      revert op i
      decide)
    3 (Relation.EqvGen.symm _ _ (Relation.EqvGen.rel _ _ (by decide)))
-- … while `demoThen` really changes the other side (two new objects, original re-parented, its magnet rotated along)
example : (run demoThen (run demoMixed (init demoSpecs))).f.n = 6 ∧
    (run demoThen (run demoMixed (init demoSpecs))).f.parent 0 = some 4 ∧
    (run demoThen (run demoMixed (init demoSpecs))).posOf 1 ≠ (run demoMixed (init demoSpecs)).posOf 1 := by decide

end Attr

end MagpyVerif.C18
