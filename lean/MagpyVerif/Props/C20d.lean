/-
Props/C20d.lean — C20 "the last assignment wins", as ONE refinement theorem over histories (`reads_refine`), and the
consequences of "well formed ⇒ stable" for every reachable state.

The state machine (Model/StyleState.lean, the code as it is) is refined by an abstract map `path ↦ value` that is computed
from the operations and their outcomes alone (`effStep`: no tree in sight): after any history, reading any plain
property of `magpylib.defaults` or of an object's own style gives the value the property's setter stored for the last
accepted write that covers it — an attribute assignment, an `update` keyword in magic or nested notation at any receiver,
`obj.style = {…}`, `display.style.reset()` — since the last `defaults.reset()`, else the constructor / default value.
-/
import MagpyVerif.Props.C20c
import MagpyVerif.Props.C20
import MagpyVerif.Lemmas.StyleUpdate

namespace MagpyVerif.C20d
open MagpyVerif.StyleNested MagpyVerif.StyleState MagpyVerif.Gen.StyleSchema MagpyVerif.C20c

/-! ### every reachable state is stable -/

/-- computed over the 37 regenerated classes: property and constructor-parameter names are strings without underscore,
pairwise different; named constructor parameters are properties; aliases default to None; every `__init__` takes
`**kwargs` (since repo fix 59ae50b) -/
theorem classes_wellformed2 : classes.all (fun c => okSchema2 c.schema) = true := by
  decide +kernel

theorem class_facts {c : ClassInfo} (hc : c ∈ classes) :
    okProps c.schema.props = true ∧ okProps2 c.schema.props = true ∧ nodupK c.schema.props = true := by
  have h1 := List.all_eq_true.mp classes_wellformed.1 c hc
  have h2 := List.all_eq_true.mp classes_wellformed2 c hc
  simp only [Bool.and_eq_true] at h1
  cases hs : c.schema with
  | leaf v => rw [hs] at h1; cases h1.2
  | alias t => rw [hs] at h1; cases h1.2
  | obj ps a b ct vk =>
    rw [hs] at h1 h2
    have g1 := h1.1.1
    rw [okSchema] at g1
    rw [okSchema2] at h2
    simp only [Bool.and_eq_true] at g1 h2
    exact ⟨g1.1.1, h2.1.1.1.1.1, g1.1.2⟩

/-- **C20: every reachable state is stable** — after any history, for every object, `obj.update()` (which re-assigns
every property from `as_dict()` and re-builds every sub-object from its dictionary) succeeds and changes nothing -/
theorem reachable_states_stable (cls : List Nat) (hcls : ∀ ci ∈ cls, ci < classes.length) (ops : List Op) (i : Nat) (o : Obj)
    (ho : (exec tables classes defaults (init cls) ops)[i]? = some o) :
    ∃ c, classes[o.cls]? = some c ∧ Stable tables c.schema.props c.schema.others o.tree := by
  obtain ⟨c, hc, hw⟩ := reachable_states_wellformed cls hcls ops i o ho
  obtain ⟨g1, g2, g3⟩ := class_facts (List.mem_of_getElem? hc)
  exact ⟨c, hc, stable_of_wf tables _ g1 g2 g3 _ _ hw⟩

/-- `update_unknown_name_attribute_error` without its stability hypothesis: in every reachable state, `obj.update(n=v)`
for an underscore-free name that is not a property raises AttributeError (and changes nothing) -/
theorem update_unknown_name_attribute_error_reachable (cls : List Nat) (hcls : ∀ ci ∈ cls, ci < classes.length) (ops : List Op)
    (i : Nat) (o : Obj) (c : ClassInfo) (ho : (exec tables classes defaults (init cls) ops)[i]? = some o)
    (hc : classes[o.cls]? = some c) (n : Str) (v : Option Val) (rno : Bool)
    (hn : lookup (.str n) c.schema.props = none) (hsep : '_' ∉ n) :
    updateObj tables c.schema.props c.schema.others o.tree none [(.str n, .leaf v)] true rno = (o.tree, .error .attribute) := by
  obtain ⟨c', hc', hst⟩ := reachable_states_stable cls hcls ops i o ho
  rw [hc] at hc'
  injection hc' with hc'
  subst hc'
  obtain ⟨c2, hc2, hw⟩ := reachable_states_wellformed cls hcls ops i o ho
  rw [hc] at hc2
  injection hc2 with hc2
  subst hc2
  have hok := nodeOk_of_subObj o c hc [] c.schema.props c.schema.others o.tree rfl
  simp only [nodeOk, Bool.and_eq_true, List.all_eq_true] at hok
  have ho' : c.schema.others.contains n = false := by
    cases hcn : c.schema.others.contains n with
    | false => rfl
    | true => exact absurd (List.contains_iff_mem.mp (hok.2 n (List.contains_iff_mem.mp hcn))) hsep
  have hk : lookup (.str n) o.tree = none := wfKids_lookup_none (fixB tables) (.str n) _ _ hw hn
  exact update_unknown_name_attribute_error tables _ _ _ n v rno hst hk hn ho' hsep

/-! ### the abstract map `path ↦ value`, computed from the operations and their outcomes alone -/

/-- the class of object `i` -/
def clsOf (w : World) (i : Nat) : Option ClassInfo :=
  match w[i]? with
  | some o => classes[o.cls]?
  | none => none

/-- attribute access `obj_j.<q>` (what `Op.read` returns) -/
def readAt (w : World) (j : Nat) (q : List Key) : Except Kind Tree :=
  match w[j]? with
  | some o =>
    (match classes[o.cls]? with
      | some c => readPath c.schema.props o.tree q
      | none => .error .other)
  | none => .error .other

def stylePath : List Key := [dk, .str "style".toList]

/-- the argument `display.style.reset()` updates with: `get_defaults_dict("display.style")` -/
def styleArg : Except Kind Dict :=
  match getPath defaults stylePath with
  | some d => updArg (some d) []
  | none => .error .other

/-- the setter's image of an assigned value -/
def setV (vid : Nat) (e : Eff) (t : Tree) : Eff :=
  match runV tables vid t with
  | .ok x => .set x
  | .error _ => e

/-- an accepted `X.update(…)` with nested argument `m`, `X` the sub-object at `p`, seen from the plain property `q` -/
def updEff (vid : Nat) (e : Eff) (p q : List Key) (m : Except Kind Dict) : Eff :=
  match m with
  | .ok m =>
    if p.isPrefixOf q then
      (match getPath (.node m) (q.drop p.length) with
        | some (.leaf v) => setV vid e (.leaf v)
        | _ => e)
    else e
  | .error _ => e

def styleKw : Tree → Dict
  | .node kw => kw
  | .leaf _ => []

/-- **the specification**, one operation with its outcome at a time, for the plain property `q` (validator `vid`) of
object `j`; nothing here looks at a tree: a rejected operation changes nothing; an accepted attribute assignment to
exactly `q` stores the setter's image of the value; an accepted update (also `obj.style = dict`, `display.style.reset()`)
stores the setter's image of the value its argument — after `magic_to_dict`, so in either notation — has at `q`, if it
has one; `defaults.reset()` puts the default back; operations on other objects do nothing -/
def effStep (j : Nat) (q : List Key) (vid : Nat) (e : Eff) (x : Op × Bool) : Eff :=
  if x.2 then
    match x.1 with
    | .setattr i p k val => if i = j ∧ p ++ [k] = q then setV vid e val else e
    | .update i p arg kwargs _ _ => if i = j then updEff vid e p q (updArg arg kwargs) else e
    | .reset => if j = 0 then .init else e
    | .resetStyle => if j = 0 then updEff vid e stylePath q styleArg else e
    | .setStyle i val => if i = j then updEff vid e [] q (updArg (some (.node (styleKw val))) []) else e
    | .setStyleObj _ _ => e
    | .read _ _ => e
  else e

/-- does the nested argument of an update fit the class of the receiver at `p` -/
def fitsAt (ps : List (Key × Schema)) (p : List Key) (m : Except Kind Dict) : Bool :=
  match propsAt ps p, m with
  | some ps', .ok m => fitsKids ps' m && StyleNested.wfKids m
  | _, _ => false

/-- the accepted operations covered: assignments to plain properties (any depth, any object); updates — on any receiver,
in magic, nested or mixed notation, positional dict and keywords, either `_match_properties` — whose argument after
`magic_to_dict` fits the receiver's class (keys are properties, plain properties get non-dict values, sub-objects get
fitting dictionaries), with `_replace_None_only=False`; `obj.style = dict / None`; resets.  Not covered when ACCEPTED:
assigning a dict / None / a string to a sub-object, the deprecated alias, `_replace_None_only=True`. -/
def FitOp (w0 : World) : Op → Prop
  | .setattr i p k _ => ∃ c, clsOf w0 i = some c ∧ (leafVid c.schema.props (p ++ [k])).isSome = true
  | .update i p arg kwargs _ rno => rno = false ∧ ∃ c, clsOf w0 i = some c ∧ fitsAt c.schema.props p (updArg arg kwargs) = true
  | .setStyle i val => ∃ c, clsOf w0 i = some c ∧ fitsAt c.schema.props [] (updArg (some (.node (styleKw val))) []) = true
  | .reset => True
  | .resetStyle => True
  | .setStyleObj _ _ => True
  | .read _ _ => True

/-- computed: the hard coded style defaults fit `DisplayStyle` -/
theorem styleArg_fits : fitsAt props0 stylePath styleArg = true := by
  decide +kernel

theorem effStep_val (j : Nat) (q : List Key) (vid : Nat) (e : Eff) (x : Op × Bool) (b : Except Kind Tree) :
    (effStep j q vid e x).val q b = (effStep j q vid .keep x).val q (e.val q b) := by
  have hset : ∀ t, (setV vid e t).val q b = (setV vid .keep t).val q (e.val q b) := by
    intro t; unfold setV; cases runV tables vid t <;> rfl
  have hupd : ∀ p m, (updEff vid e p q m).val q b = (updEff vid .keep p q m).val q (e.val q b) := by
    intro p m
    unfold updEff
    cases m with
    | error er => rfl
    | ok m =>
      simp only []
      split
      · split
        · exact hset _
        · rfl
      · rfl
  unfold effStep
  split
  · split
    · split
      · exact hset _
      · rfl
    · split
      · exact hupd _ _
      · rfl
    · split <;> rfl
    · split
      · exact hupd _ _
      · rfl
    · split
      · exact hupd _ _
      · rfl
    · rfl
    · rfl
  · rfl

theorem foldl_val (j : Nat) (q : List Key) (vid : Nat) : ∀ (l : List (Op × Bool)) (e : Eff) (b : Except Kind Tree),
    (l.foldl (effStep j q vid) e).val q b = (l.foldl (effStep j q vid) .keep).val q (e.val q b) := by
  intro l
  induction l with
  | nil => intro e b; rfl
  | cons x t ih =>
    intro e b
    simp only [List.foldl_cons]
    rw [ih (effStep j q vid e x) b, ih (effStep j q vid .keep x) (e.val q b), effStep_val]

/-- the tree-level and the `Eff`-level description of an accepted update agree -/
theorem updEff_val (vid : Nat) (p q : List Key) (m : Dict) (b : Except Kind Tree) :
    (updEff vid .keep p q (.ok m)).val q b = updRead tables p q m vid b := by
  unfold updEff updRead setV
  simp only []
  cases p.isPrefixOf q with
  | false => rfl
  | true =>
    simp only [if_true]
    cases hg : getPath (.node m) (q.drop p.length) with
    | none => rfl
    | some t =>
      cases t with
      | node kv => rfl
      | leaf v => simp only []; cases runV tables vid (.leaf v) <;> rfl

/-! ### the world: classes stay, outcomes are `ok` or an exception -/

theorem onObj_at (f : List (Key × Schema) → List Str → Dict → Dict × Except Kind Unit) (w : World) (j : Nat) (o : Obj) (c : ClassInfo)
    (hw : w[j]? = some o) (hc : classes[o.cls]? = some c) :
    onObj classes w j f = (setTree w j (f c.schema.props c.schema.others o.tree).1,
      .ofExcept (f c.schema.props c.schema.others o.tree).2) := by
  unfold onObj
  rw [hw]
  simp only [hc]

theorem readAt_setTree (w : World) (j : Nat) (o : Obj) (c : ClassInfo) (t : Dict) (q : List Key) (hw : w[j]? = some o)
    (hc : classes[o.cls]? = some c) : readAt (setTree w j t) j q = readPath c.schema.props t q := by
  unfold readAt
  rw [setTree_getElem?_self w j t o hw]
  simp only [hc]

theorem readAt_of (w : World) (j : Nat) (o : Obj) (c : ClassInfo) (q : List Key) (hw : w[j]? = some o)
    (hc : classes[o.cls]? = some c) : readAt w j q = readPath c.schema.props o.tree q := by
  unfold readAt
  rw [hw]
  simp only [hc]

theorem readAt_congr {w w' : World} {j : Nat} (h : w'[j]? = w[j]?) (q : List Key) : readAt w' j q = readAt w j q := by
  unfold readAt; rw [h]

theorem clsOf_congr {w w' : World} {j : Nat} (h : w'[j]? = w[j]?) : clsOf w' j = clsOf w j := by
  unfold clsOf; rw [h]

theorem clsOf_setTree (w : World) (i j : Nat) (t : Dict) : clsOf (setTree w i t) j = clsOf w j := by
  by_cases hji : j = i
  · subst hji
    cases hw : w[j]? with
    | none => unfold setTree; rw [hw]
    | some o => unfold clsOf; rw [setTree_getElem?_self w j t o hw, hw]
  · exact clsOf_congr (setTree_getElem?_ne w i j t hji)

theorem clsOf_onObj (f : List (Key × Schema) → List Str → Dict → Dict × Except Kind Unit) (w : World) (i j : Nat) :
    clsOf (onObj classes w i f).1 j = clsOf w j := by
  unfold onObj
  cases w[i]? with
  | none => rfl
  | some o =>
    simp only []
    cases classes[o.cls]? with
    | none => rfl
    | some c => exact clsOf_setTree w i j _

theorem onObj_out (f : List (Key × Schema) → List Str → Dict → Dict × Except Kind Unit) (w : World) (i : Nat) :
    (onObj classes w i f).2 = .ok ∨ ∃ e, (onObj classes w i f).2 = .err e := by
  unfold onObj
  cases w[i]? with
  | none => exact .inr ⟨_, rfl⟩
  | some o =>
    simp only []
    cases classes[o.cls]? with
    | none => exact .inr ⟨_, rfl⟩
    | some c =>
      simp only []
      cases (f c.schema.props c.schema.others o.tree).2 with
      | ok u => exact .inl rfl
      | error e => exact .inr ⟨e, rfl⟩

/-- an operation that is not accepted leaves the world as it was (`defaults.reset()` is always accepted) -/
theorem not_accepted_world (w : World) (h0 : Inv0 w) (op : Op) (h : outOk (step tables classes defaults w op).2 = false) :
    (step tables classes defaults w op).1 = w := by
  have key : ∀ (hr : opIsReset op = false), (step tables classes defaults w op).2 = .ok ∨ (∃ e, (step tables classes defaults w op).2 = .err e) →
      (step tables classes defaults w op).1 = w := by
    intro hr hc
    rcases hc with hok | ⟨e, he⟩
    · rw [hok] at h; cases h
    · exact rejected_op_keeps_world tables classes defaults w op hr e he
  cases op with
  | update i p arg kwargs mt rno => exact key rfl (onObj_out _ w i)
  | setattr i p k val => exact key rfl (onObj_out _ w i)
  | reset =>
    obtain ⟨x, hx⟩ := h0
    rw [step_reset_inv0 w x hx] at h
    have := resetResult_ok
    cases hr : resetResult.2 with
    | ok u => rw [hr] at h; cases h
    | error e => rw [hr] at this; cases this
  | resetStyle => exact key rfl (onObj_out _ w 0)
  | setStyle i val =>
    apply key rfl
    simp only [step]
    split
    · exact .inr ⟨_, rfl⟩
    · cases val with
      | leaf v =>
        cases v with
        | none => exact onObj_out _ w i
        | some n => exact .inr ⟨_, rfl⟩
      | node kv => exact onObj_out _ w i
  | setStyleObj i j => exact style_object_assignment_ignored tables classes defaults w i j
  | read i p => exact step_read_world w i p

theorem clsOf_step (w : World) (op : Op) (j : Nat) : clsOf (step tables classes defaults w op).1 j = clsOf w j := by
  cases op with
  | update i p arg kwargs mt rno => exact clsOf_onObj _ w i j
  | setattr i p k val => exact clsOf_onObj _ w i j
  | reset => exact clsOf_onObj _ w 0 j
  | resetStyle => exact clsOf_onObj _ w 0 j
  | setStyle i val =>
    simp only [step]
    split
    · rfl
    · cases val with
      | leaf v =>
        cases v with
        | none => exact clsOf_onObj _ w i j
        | some n => rfl
      | node kv => exact clsOf_onObj _ w i j
  | setStyleObj i k => rw [style_object_assignment_ignored]
  | read i p => rw [step_read_world]

/-- what holds of every world of a history that starts in `w0` -/
structure Good (w0 w : World) : Prop where
  wf : WFW w
  inv0 : Inv0 w
  cls : ∀ i, clsOf w i = clsOf w0 i

theorem good_step (w0 w : World) (h : Good w0 w) (op : Op) : Good w0 (step tables classes defaults w op).1 :=
  ⟨wfw_step w op h.wf, inv0_step w op h.inv0, fun i => by rw [clsOf_step, h.cls]⟩

/-! ### one operation -/

theorem clsOf_elim {w : World} {j : Nat} {c : ClassInfo} (h : clsOf w j = some c) :
    ∃ o, w[j]? = some o ∧ classes[o.cls]? = some c := by
  unfold clsOf at h
  cases hw : w[j]? with
  | none => rw [hw] at h; cases h
  | some o => rw [hw] at h; exact ⟨o, rfl, h⟩

/-- an accepted update (any receiver, any notation) with a fitting argument, seen from a plain property -/
theorem read_update_like (c : ClassInfo) (hcm : c ∈ classes) (tree : Dict) (hwf : wfKids (fixB tables) c.schema.props tree = true)
    (p : List Key) (arg : Option Tree) (kwargs : Dict) (mt : Bool)
    (hfit : fitsAt c.schema.props p (updArg arg kwargs) = true)
    (hacc : (atPath (fun ps' os' c' => updateObj tables ps' os' c' arg kwargs mt false) c.schema.props c.schema.others tree p).2 = .ok ())
    (q : List Key) (vid : Nat) (hq : leafVid c.schema.props q = some vid) :
    readPath c.schema.props (atPath (fun ps' os' c' => updateObj tables ps' os' c' arg kwargs mt false)
        c.schema.props c.schema.others tree p).1 q =
      (updEff vid .keep p q (updArg arg kwargs)).val q (readPath c.schema.props tree q) := by
  obtain ⟨g1, g2, g3⟩ := class_facts hcm
  unfold fitsAt at hfit
  cases hp : propsAt c.schema.props p with
  | none => rw [hp] at hfit; cases hfit
  | some ps' =>
    cases hm : updArg arg kwargs with
    | error e => rw [hp, hm] at hfit; cases hfit
    | ok m =>
      rw [hp, hm] at hfit
      simp only [Bool.and_eq_true] at hfit
      rw [updEff_val]
      exact update_at_read tables _ _ tree p arg kwargs mt m hm ps' hp hfit.1 hfit.2 g1 g2 g3 hwf hacc q vid hq

/-- **one operation**: what is read afterwards is what was read before, transformed by the operation's specified effect -/
theorem readAt_step (w0 w : World) (hg : Good w0 w) (op : Op)
    (hfit : outOk (step tables classes defaults w op).2 = true → FitOp w0 op)
    (j : Nat) (c : ClassInfo) (hc0 : clsOf w0 j = some c) (q : List Key) (vid : Nat) (hq : leafVid c.schema.props q = some vid) :
    readAt (step tables classes defaults w op).1 j q =
      (effStep j q vid .keep (op, outOk (step tables classes defaults w op).2)).val q (readAt w j q) := by
  cases hacc : outOk (step tables classes defaults w op).2 with
  | false =>
    rw [not_accepted_world w hg.inv0 op hacc]
    simp [effStep, Eff.val]
  | true =>
    have hfo := hfit hacc
    obtain ⟨o, hw, hc⟩ := clsOf_elim (show clsOf w j = some c by rw [hg.cls]; exact hc0)
    have hcm : c ∈ classes := List.mem_of_getElem? hc
    obtain ⟨c', hc', hwf⟩ := hg.wf j o hw
    rw [hc] at hc'
    injection hc' with hc'
    subst hc'
    have hframe : ∀ (i : Nat), i ≠ j → op.target = i → readAt (step tables classes defaults w op).1 j q = readAt w j q := by
      intro i hij ht
      exact readAt_congr (step_frame tables classes defaults w op j (by rw [ht]; exact fun e => hij e.symm)) q
    cases op with
    | update i p arg kwargs mt rno =>
      by_cases hij : i = j
      · subst hij
        obtain ⟨hrno, c2, hc2, hf2⟩ := hfo
        subst hrno
        rw [hc0] at hc2
        injection hc2 with hc2
        subst hc2
        have hstep : step tables classes defaults w (.update i p arg kwargs mt false) = _ :=
          onObj_at (fun ps os cur => atPath (fun ps' os' c' => updateObj tables ps' os' c' arg kwargs mt false) ps os cur p) w i o c hw hc
        rw [hstep] at hacc ⊢
        simp only [] at hacc ⊢
        have hacc' : (atPath (fun ps' os' c' => updateObj tables ps' os' c' arg kwargs mt false) c.schema.props c.schema.others o.tree p).2 = .ok () := by
          cases hr : (atPath (fun ps' os' c' => updateObj tables ps' os' c' arg kwargs mt false) c.schema.props c.schema.others o.tree p).2 with
          | ok u => rfl
          | error e => rw [hr] at hacc; cases hacc
        rw [readAt_setTree w i o c _ q hw hc, readAt_of w i o c q hw hc,
          read_update_like c hcm o.tree hwf p arg kwargs mt hf2 hacc' q vid hq]
        simp [effStep]
      · rw [hframe i hij rfl]
        simp [effStep, hij, Eff.val]
    | setattr i p k val =>
      by_cases hij : i = j
      · subst hij
        obtain ⟨c2, hc2, hl2⟩ := hfo
        rw [hc0] at hc2
        injection hc2 with hc2
        subst hc2
        obtain ⟨vid', hvid'⟩ := Option.isSome_iff_exists.mp hl2
        have hstep : step tables classes defaults w (.setattr i p k val) = _ :=
          onObj_at (fun ps os cur => atPath (assignOp tables k val) ps os cur p) w i o c hw hc
        rw [hstep] at hacc ⊢
        simp only [] at hacc ⊢
        have hacc' : (atPath (assignOp tables k val) c.schema.props c.schema.others o.tree p).2 = .ok () := by
          cases hr : (atPath (assignOp tables k val) c.schema.props c.schema.others o.tree p).2 with
          | ok u => rfl
          | error e => rw [hr] at hacc; cases hacc
        rw [readAt_setTree w i o c _ q hw hc, readAt_of w i o c q hw hc]
        obtain ⟨ps', os', c', v', hsub, hk, hv⟩ := assign_accepted_elim tables k val p _ _ o.tree vid' hvid' hacc'
        by_cases hpq : p ++ [k] = q
        · have hvv : vid' = vid := by rw [hpq, hq] at hvid'; injection hvid' with e; exact e.symm
          subst hvv
          have hb := (leaf_write_read_back_partial tables k val vid' v' hv p _ _ o.tree ps' os' c' hsub hk).2
          rw [hpq] at hb
          rw [hb]
          simp [effStep, setV, Eff.val, hpq, hv]
        · rw [assign_frame tables k val vid' v' hv p _ _ o.tree ps' os' c' q vid hsub hk hq (fun e => hpq e.symm)]
          simp [effStep, Eff.val, hpq]
      · rw [hframe i hij rfl]
        simp [effStep, hij, Eff.val]
    | reset =>
      by_cases hj : j = 0
      · subst hj
        obtain ⟨x, hx⟩ := hg.inv0
        rw [hw] at hx
        injection hx with hx
        obtain ⟨bases, hb⟩ := classes_zero
        have ho : o.cls = 0 := by rw [hx]
        rw [ho, hb] at hc
        injection hc with hc
        rw [step_reset_inv0 w x (by rw [hw, hx])]
        simp only []
        rw [readAt_setTree w 0 o _ _ q hw (by rw [ho]; exact hb)]
        simp [effStep, Eff.val, props0_eq]
      · rw [hframe 0 (fun e => hj e.symm) rfl]
        simp [effStep, hj, Eff.val]
    | resetStyle =>
      by_cases hj : j = 0
      · subst hj
        obtain ⟨x, hx⟩ := hg.inv0
        rw [hw] at hx
        injection hx with hx
        obtain ⟨bases, hb⟩ := classes_zero
        have ho : o.cls = 0 := by rw [hx]
        have hc' := hc
        rw [ho, hb] at hc'
        injection hc' with hc'
        have hstep : step tables classes defaults w .resetStyle = _ := onObj_at (resetStyle tables defaults) w 0 o c hw hc
        rw [hstep] at hacc ⊢
        simp only [] at hacc ⊢
        rw [readAt_setTree w 0 o c _ q hw hc, readAt_of w 0 o c q hw hc]
        have hsf := styleArg_fits
        unfold styleArg at hsf
        unfold resetStyle at hacc ⊢
        simp only [effStep, if_true]
        unfold styleArg
        cases hd : getPath defaults stylePath with
        | none => rw [show getPath defaults [Key.str "display".toList, Key.str "style".toList] = none from hd] at hacc; cases hacc
        | some d =>
          rw [show getPath defaults [Key.str "display".toList, Key.str "style".toList] = some d from hd] at hacc ⊢
          rw [hd] at hsf
          simp only [] at hacc ⊢ hsf
          have hacc' : (atPath (fun ps' os' c' => updateObj tables ps' os' c' (some d) [] false false) c.schema.props c.schema.others o.tree stylePath).2 = .ok () := by
            cases hr : (atPath (fun ps' os' c' => updateObj tables ps' os' c' (some d) [] false false) c.schema.props c.schema.others o.tree stylePath).2 with
            | ok u => rfl
            | error e =>
              have : (atPath (fun ps os c => updateObj tables ps os c (some d) [] false false) c.schema.props c.schema.others o.tree
                  [Key.str "display".toList, Key.str "style".toList]).2 = .error e := hr
              rw [this] at hacc; cases hacc
          have hf2 : fitsAt c.schema.props stylePath (updArg (some d) []) = true := by
            rw [← hc']; exact hsf
          exact read_update_like c hcm o.tree hwf stylePath (some d) [] false hf2 hacc' q vid hq
      · rw [hframe 0 (fun e => hj e.symm) rfl]
        simp [effStep, hj, Eff.val]
    | setStyle i val =>
      by_cases hij : i = j
      · subst hij
        obtain ⟨c2, hc2, hf2⟩ := hfo
        rw [hc0] at hc2
        injection hc2 with hc2
        subst hc2
        by_cases hi0 : i = 0
        · subst hi0; simp [step, outOk] at hacc
        · have hstep : step tables classes defaults w (.setStyle i val) =
              onObj classes w i (fun ps os cur => atPath (fun ps' os' c' => updateObj tables ps' os' c' (some (.node (styleKw val))) [] true false) ps os cur []) := by
            simp only [step, hi0, if_false]
            cases val with
            | leaf v =>
              cases v with
              | none => rfl
              | some n => simp [step, hi0, outOk] at hacc
            | node kv => rfl
          rw [hstep, onObj_at _ w i o c hw hc] at hacc ⊢
          simp only [] at hacc ⊢
          have hacc' : (atPath (fun ps' os' c' => updateObj tables ps' os' c' (some (.node (styleKw val))) [] true false) c.schema.props c.schema.others o.tree []).2 = .ok () := by
            cases hr : (atPath (fun ps' os' c' => updateObj tables ps' os' c' (some (.node (styleKw val))) [] true false) c.schema.props c.schema.others o.tree []).2 with
            | ok u => rfl
            | error e => rw [hr] at hacc; cases hacc
          rw [readAt_setTree w i o c _ q hw hc, readAt_of w i o c q hw hc,
            read_update_like c hcm o.tree hwf [] _ [] true hf2 hacc' q vid hq]
          simp [effStep]
      · rw [hframe i hij rfl]
        simp [effStep, hij, Eff.val]
    | setStyleObj i k =>
      rw [style_object_assignment_ignored]
      simp [effStep, Eff.val]
    | read i p =>
      rw [step_read_world]
      simp [effStep, Eff.val]

/-! ### histories -/

theorem good_init (cls : List Nat) (hcls : ∀ ci ∈ cls, ci < classes.length) : Good (init cls) (init cls) :=
  ⟨wfw_init cls hcls, inv0_init cls, fun _ => rfl⟩

theorem reads_refine_from (w0 : World) (j : Nat) (c : ClassInfo) (hc0 : clsOf w0 j = some c) (q : List Key) (vid : Nat)
    (hq : leafVid c.schema.props q = some vid) : ∀ (ops : List Op) (w : World), Good w0 w →
    (∀ x ∈ annot w ops, x.2 = true → FitOp w0 x.1) →
    readAt (exec tables classes defaults w ops) j q = ((annot w ops).foldl (effStep j q vid) .keep).val q (readAt w j q) := by
  intro ops
  induction ops with
  | nil => intro w _ _; rfl
  | cons op t ih =>
    intro w hg hfit
    rw [exec_cons, annot, List.foldl_cons, foldl_val,
      ih _ (good_step w0 w hg op) (fun x hx => hfit x (List.mem_cons_of_mem _ hx)),
      readAt_step w0 w hg op (fun h => hfit (op, outOk (step tables classes defaults w op).2) (List.mem_cons_self ..) h) j c hc0 q vid hq]

/-- **C20 — the last assignment wins, as one refinement theorem.**  For any number of objects of any classes and EVERY
history over the full operation set — `update` on any receiver in magic / nested / mixed notation with either
`_match_properties`, attribute assignments at any depth, `obj.style = dict / None / other.style`,
`display.style.reset()`, `defaults.reset()`, reads, on the defaults and on every object, accepted or REJECTED (rejected
operations are unrestricted: unknown names, refused values, method names, anything) — in which the ACCEPTED operations
are of the covered kinds (`FitOp`): reading any plain property `q` of `magpylib.defaults` or of any object's own style
gives exactly what the abstract map computed from the operations and their outcomes alone gives (`effStep`): the value the
property's setter stored for the last accepted write that covers `q` since the last `defaults.reset()`, else the value at
import time / after construction.
(audit2) Read literally: (1) the "outcomes" in `annot` are the outcomes of THE MODEL's own `step` — which operations
count as accepted is the model's decision (tied to the code by the `sstate` stream, outcome compared after every
operation); for histories of leaf assignments / resets the outcome bits are eliminated in
`leaf_histories_last_valid_assignment_wins` below (acceptance = the validator row accepts, `leaf_assign_outcome`).
(2) `effStep` is a fold over the operations that never looks at a tree or at the class structure (only at the validator
row `vid`, at `magic_to_dict` of an update's argument, and at the regenerated DEFAULTS for the two resets) — it is not
the model's `step`; both notations of an update go through the SAME `magicToDict` (`updArg`) as in the model, so the
equivalence of the notations is not what this theorem adds (that is `C20.notations_equivalent`).
(3) "rejected operations are unrestricted" includes the model outcome `shadow` (assignment to a private slot), which the
CODE accepts and which changes what is read afterwards: for histories containing such an operation the theorem is about
the model only.  `FitOp` is a hypothesis on ACCEPTED operations only, see its docstring for what is excluded.
A proof term that instantiates every hypothesis on a non-trivial history is given below (`hfit_of_all`). -/
theorem reads_refine (cls : List Nat) (hcls : ∀ ci ∈ cls, ci < classes.length) (ops : List Op)
    (hfit : ∀ x ∈ annot (init cls) ops, x.2 = true → FitOp (init cls) x.1)
    (j : Nat) (c : ClassInfo) (hc0 : clsOf (init cls) j = some c) (q : List Key) (vid : Nat)
    (hq : leafVid c.schema.props q = some vid) :
    readAt (exec tables classes defaults (init cls) ops) j q =
      ((annot (init cls) ops).foldl (effStep j q vid) .keep).val q (readAt (init cls) j q) :=
  reads_refine_from (init cls) j c hc0 q vid hq ops (init cls) (good_init cls hcls) hfit

/-- non-vacuity: two objects (a Cuboid-class and a Sensor-class style); on the Cuboid style: a magic-notation update
`update(path_line_width=2, opacity=0.5)`, a nested-notation update on the sub-object `path` (`{"line": {"width": 3}}`),
a REJECTED multi-key update (`update(path_line_width=1, colour=…)`), `obj.style = {"path": {"line": {"width": 10}}}`, an
assignment on the other object, `defaults.display.style.reset()` and `defaults.reset()`; every accepted update fits; the
specification says `set 10` for `style.path.line.width` and the model reads 10 (panel index 0) -/
example :
    let pth : Key := .str "path".toList
    let line : Key := .str "line".toList
    let width : Key := .str "width".toList
    let q : List Key := [pth, line, width]
    let ops : List Op := [
      .update 1 [] none [(.str "path_line_width".toList, .leaf (some 15)), (.str "opacity".toList, .leaf (some 21))] true false,
      .update 1 [pth] (some (.node [(line, .node [(width, .leaf (some 10))])])) [] true false,
      .update 1 [] none [(.str "path_line_width".toList, .leaf (some 8)), (.str "colour".toList, .leaf (some 22))] true false,
      .setStyle 1 (.node [(pth, .node [(line, .node [(width, .leaf (some 0))])])]),
      .setattr 2 [] (.str "opacity".toList) (.leaf (some 21)),
      .resetStyle, .reset]
    let ps := cMagnetStyle.props
    (leafVid ps q).isSome = true ∧
    fitsAt ps [] (updArg none [(.str "path_line_width".toList, .leaf (some 15)), (.str "opacity".toList, .leaf (some 21))]) = true ∧
    fitsAt ps [pth] (updArg (some (.node [(line, .node [(width, .leaf (some 10))])])) []) = true ∧
    (annot (init [1, 2]) ops).map (·.2) = [true, true, false, true, true, true, true] ∧
    (match (annot (init [1, 2]) ops).foldl (effStep 1 q ((leafVid ps q).getD 0)) .keep with | .set (some 0) => true | _ => false) = true ∧
    (match readAt (exec tables classes defaults (init [1, 2]) ops) 1 q with | .ok (.leaf (some 0)) => true | _ => false) = true := by
  decide +kernel

/-! ### audit2: `reads_refine` applied; acceptance of leaf assignments without the model's outcomes -/

/-- `FitOp` as a computation -/
def fitOpB (w0 : World) : Op → Bool
  | .setattr i p k _ => match clsOf w0 i with | some c => (leafVid c.schema.props (p ++ [k])).isSome | none => false
  | .update i p arg kwargs _ rno =>
    !rno && (match clsOf w0 i with | some c => fitsAt c.schema.props p (updArg arg kwargs) | none => false)
  | .setStyle i val =>
    match clsOf w0 i with | some c => fitsAt c.schema.props [] (updArg (some (.node (styleKw val))) []) | none => false
  | _ => true

theorem fitOp_of_fitOpB (w0 : World) (op : Op) (h : fitOpB w0 op = true) : FitOp w0 op := by
  cases op with
  | setattr i p k val =>
    simp only [fitOpB] at h
    cases hc : clsOf w0 i with
    | none => rw [hc] at h; cases h
    | some c => rw [hc] at h; exact ⟨c, hc, h⟩
  | update i p arg kwargs mt rno =>
    simp only [fitOpB] at h
    simp only [Bool.and_eq_true, Bool.not_eq_true'] at h
    cases hc : clsOf w0 i with
    | none => rw [hc] at h; cases h.2
    | some c => rw [hc] at h; exact ⟨h.1, c, hc, h.2⟩
  | setStyle i val =>
    simp only [fitOpB] at h
    cases hc : clsOf w0 i with
    | none => rw [hc] at h; cases h
    | some c => rw [hc] at h; exact ⟨c, hc, h⟩
  | reset => trivial
  | resetStyle => trivial
  | setStyleObj i j => trivial
  | read i p => trivial

/-- the hypothesis `hfit` of `reads_refine` as ONE computation over the annotated history -/
theorem hfit_of_all (w0 : World) (ops : List Op) (h : (annot w0 ops).all (fun x => !x.2 || fitOpB w0 x.1) = true) :
    ∀ x ∈ annot w0 ops, x.2 = true → FitOp w0 x.1 := by
  intro x hx hacc
  have := List.all_eq_true.mp h x hx
  rw [hacc] at this
  exact fitOp_of_fitOpB w0 x.1 (by simpa using this)

def exQ : List Key := [.str "path".toList, .str "line".toList, .str "width".toList]
def exOps : List Op := [
  .update 1 [] none [(.str "path_line_width".toList, .leaf (some 15)), (.str "opacity".toList, .leaf (some 21))] true false,
  .update 1 [.str "path".toList] (some (.node [(.str "line".toList, .node [(.str "width".toList, .leaf (some 10))])])) [] true false,
  .update 1 [] none [(.str "path_line_width".toList, .leaf (some 8)), (.str "colour".toList, .leaf (some 22))] true false,
  .setStyle 1 (.node [(.str "path".toList, .node [(.str "line".toList, .node [(.str "width".toList, .leaf (some 0))])])]),
  .setattr 2 [] (.str "opacity".toList) (.leaf (some 21)),
  .resetStyle, .reset]

/-- **`reads_refine` APPLIED** (all hypotheses instantiated, none assumed) -/
example : (match readAt (exec tables classes defaults (init [1, 2]) exOps) 1 exQ with | .ok (.leaf (some 0)) => true | _ => false) = true := by
  have h := reads_refine [1, 2] (by decide) exOps (hfit_of_all _ _ (by decide +kernel)) 1
    ⟨"MagnetStyle".toList, _, cMagnetStyle⟩ rfl exQ ((leafVid cMagnetStyle.props exQ).getD 0) (by decide +kernel)
  rw [h]
  decide +kernel


/-- on a well-formed object every schema path to a plain property can be followed -/
theorem subObj_of_wf_leaf (P : Nat → Option Val → Bool) (k : Key) : ∀ (p : List Key) (ps : List (Key × Schema)) (os : List Str) (c : Dict) (vid : Nat),
    wfKids P ps c = true → leafVid ps (p ++ [k]) = some vid →
    ∃ ps' os' c', subObj ps os c p = some (ps', os', c') ∧ lookup k ps' = some (.leaf vid) := by
  intro p
  induction p with
  | nil =>
    intro ps os c vid _ h
    have hk : lookup k ps = some (.leaf vid) := by
      simp only [List.nil_append, leafVid] at h
      split at h
      · rename_i vid' hl; injection h with h; rw [hl, h]
      · cases h
    exact ⟨ps, os, c, rfl, hk⟩
  | cons k1 p' ih =>
    intro ps os c vid hw h
    rw [List.cons_append, leafVid_cons_append] at h
    split at h
    · rename_i ps1 os1 sh ct vk hp
      obtain ⟨v, hv1, hv2⟩ := wfKids_lookup P k1 (.obj ps1 os1 sh ct vk) rfl ps c hw hp
      obtain ⟨sub, rfl, hsub⟩ := wfVal_obj_elim hv2
      obtain ⟨ps', os', c', h1, h2⟩ := ih ps1 os1 sub vid hsub h
      refine ⟨ps', os', c', ?_, h2⟩
      unfold subObj
      rw [hp, hv1]
      exact h1
    · cases h

def isOkL : LeafOut → Bool
  | .ok _ => true
  | .error _ => false

/-- **acceptance of a leaf assignment is decided by the validator table alone** (no model run needed): on a well-formed
world, `X.k = val` for a plain property `X.k` (any depth) of object `i` is accepted iff the property's validator row
accepts `val` -/
theorem leaf_assign_outcome (w : World) (hwf : WFW w) (i : Nat) (p : List Key) (k : Key) (val : Tree) (o : Obj) (c : ClassInfo) (vid : Nat)
    (hw : w[i]? = some o) (hc : classes[o.cls]? = some c) (hq : leafVid c.schema.props (p ++ [k]) = some vid) :
    outOk (step tables classes defaults w (.setattr i p k val)).2 = isOkL (runV tables vid val) := by
  obtain ⟨c', hc', hwf'⟩ := hwf i o hw
  rw [hc] at hc'
  injection hc' with hc'
  subst hc'
  obtain ⟨ps', os', sub, hs, hk⟩ := subObj_of_wf_leaf (fixB tables) k p c.schema.props c.schema.others o.tree vid hwf' hq
  have hstep : step tables classes defaults w (.setattr i p k val) = _ :=
    onObj_at (fun ps os cur => atPath (assignOp tables k val) ps os cur p) w i o c hw hc
  rw [hstep]
  simp only []
  cases hv : runV tables vid val with
  | ok v' =>
    rw [(leaf_write_read_back_partial tables k val vid v' hv p _ _ o.tree ps' os' sub hs hk).1]
    rfl
  | error e =>
    rw [atPath_of_subObj_error (assignOp tables k val) e p _ _ _ ps' os' sub hs
      (by simp only [assignOp, setAttr_leaf tables ps' os' sub k val vid hk, hv])]
    rfl

/-- histories of leaf assignments (any depth, any object, any value), `defaults.reset()`, `obj.style = other.style`, reads -/
def LeafOp (w0 : World) : Op → Prop
  | .setattr i p k _ => ∃ c, clsOf w0 i = some c ∧ (leafVid c.schema.props (p ++ [k])).isSome = true
  | .reset => True
  | .read _ _ => True
  | .setStyleObj _ _ => True
  | _ => False

theorem fitOp_of_leafOp (w0 : World) (op : Op) (h : LeafOp w0 op) : FitOp w0 op := by
  cases op with
  | setattr i p k val => exact h
  | reset => trivial
  | read i p => trivial
  | setStyleObj i j => trivial
  | update i p arg kwargs mt rno => exact absurd h id
  | resetStyle => exact absurd h id
  | setStyle i val => exact absurd h id

/-- for a leaf operation the model's outcome bit is redundant in the specification -/
theorem effStep_outcome_irrelevant (w0 w : World) (hg : Good w0 w) (op : Op) (hl : LeafOp w0 op)
    (j : Nat) (c : ClassInfo) (hc0 : clsOf w0 j = some c) (q : List Key) (vid : Nat) (hq : leafVid c.schema.props q = some vid) (e : Eff) :
    effStep j q vid e (op, outOk (step tables classes defaults w op).2) = effStep j q vid e (op, true) := by
  cases hacc : outOk (step tables classes defaults w op).2 with
  | true => rfl
  | false =>
    cases op with
    | setattr i p k val =>
      by_cases hij : i = j ∧ p ++ [k] = q
      · obtain ⟨hi, hpq⟩ := hij
        subst hi
        obtain ⟨c2, hc2, hl2⟩ := hl
        rw [hc0] at hc2
        injection hc2 with hc2
        subst hc2
        obtain ⟨o, hw, hc⟩ := clsOf_elim (show clsOf w i = some c by rw [hg.cls]; exact hc0)
        rw [hpq] at hl2
        have hout := leaf_assign_outcome w hg.wf i p k val o c vid hw hc (by rw [hpq]; exact hq)
        rw [hacc] at hout
        cases hv : runV tables vid val with
        | ok v' => rw [hv] at hout; cases hout
        | error er => simp [effStep, setV, hpq, hv]
      · simp [effStep, hij]
    | reset =>
      exfalso
      obtain ⟨x, hx⟩ := hg.inv0
      rw [step_reset_inv0 w x hx] at hacc
      have := resetResult_ok
      cases hr : resetResult.2 with
      | ok u => rw [hr] at hacc; cases hacc
      | error er => rw [hr] at this; cases this
    | read i p => simp [effStep]
    | setStyleObj i k => simp [effStep]
    | update i p arg kwargs mt rno => exact absurd hl id
    | resetStyle => exact absurd hl id
    | setStyle i val => exact absurd hl id

theorem annot_fold_leaf (w0 : World) (j : Nat) (c : ClassInfo) (hc0 : clsOf w0 j = some c) (q : List Key) (vid : Nat)
    (hq : leafVid c.schema.props q = some vid) : ∀ (ops : List Op) (w : World) (e : Eff), Good w0 w → (∀ op ∈ ops, LeafOp w0 op) →
    (annot w ops).foldl (effStep j q vid) e = (ops.map (fun op => (op, true))).foldl (effStep j q vid) e := by
  intro ops
  induction ops with
  | nil => intro w e _ _; rfl
  | cons op t ih =>
    intro w e hg hl
    rw [annot, List.map_cons, List.foldl_cons, List.foldl_cons,
      effStep_outcome_irrelevant w0 w hg op (hl op (List.mem_cons_self ..)) j c hc0 q vid hq e]
    exact ih _ _ (good_step w0 w hg op) (fun o ho => hl o (List.mem_cons_of_mem _ ho))

theorem annot_mem_op : ∀ (ops : List Op) (w : World) (x : Op × Bool), x ∈ annot w ops → x.1 ∈ ops := by
  intro ops
  induction ops with
  | nil => intro w x hx; cases hx
  | cons op t ih =>
    intro w x hx
    rw [annot] at hx
    rcases List.mem_cons.mp hx with h | h
    · rw [h]; exact List.mem_cons_self ..
    · exact List.mem_cons_of_mem _ (ih _ x h)

/-- **C20 "the last assignment wins; invalid values are rejected", with NO reference to the model's own outcomes** (the
leaf-assignment fragment).  For every history of attribute assignments to plain properties (any depth, any value — valid
or not — on the defaults and on any number of objects), `defaults.reset()`, `obj.style = other.style` and reads: what is
read at the plain property `q` of object `j` is the fold of `effStep` over the operations with every outcome bit set —
i.e. a function of the operation list and the validator table only: the validator's image of the last assigned value
that the validator of `q` accepts since the last `defaults.reset()`, else the initial value. -/
theorem leaf_histories_last_valid_assignment_wins (cls : List Nat) (hcls : ∀ ci ∈ cls, ci < classes.length) (ops : List Op)
    (hl : ∀ op ∈ ops, LeafOp (init cls) op)
    (j : Nat) (c : ClassInfo) (hc0 : clsOf (init cls) j = some c) (q : List Key) (vid : Nat)
    (hq : leafVid c.schema.props q = some vid) :
    readAt (exec tables classes defaults (init cls) ops) j q =
      ((ops.map (fun op => (op, true))).foldl (effStep j q vid) .keep).val q (readAt (init cls) j q) := by
  rw [reads_refine cls hcls ops (fun x hx _ => fitOp_of_leafOp _ _ (hl x.1 (annot_mem_op ops (init cls) x hx))) j c hc0 q vid hq,
    annot_fold_leaf (init cls) j c hc0 q vid hq ops (init cls) .keep (good_init cls hcls) hl]


def leafOpB (w0 : World) : Op → Bool
  | .setattr i p k _ => match clsOf w0 i with | some c => (leafVid c.schema.props (p ++ [k])).isSome | none => false
  | .reset => true
  | .read _ _ => true
  | .setStyleObj _ _ => true
  | _ => false

theorem leafOp_of_leafOpB (w0 : World) (op : Op) (h : leafOpB w0 op = true) : LeafOp w0 op := by
  cases op with
  | setattr i p k val =>
    simp only [leafOpB] at h
    cases hc : clsOf w0 i with
    | none => rw [hc] at h; cases h
    | some c => rw [hc] at h; exact ⟨c, hc, h⟩
  | reset => trivial
  | read i p => trivial
  | setStyleObj i j => trivial
  | update i p arg kwargs mt rno => cases h
  | resetStyle => cases h
  | setStyle i val => cases h

def exLeafOps : List Op := [
  .setattr 1 [] (.str "opacity".toList) (.leaf (some 21)),
  .setattr 0 [dk] (.str "autosizefactor".toList) (.leaf (some 4)),
  .setattr 1 [] (.str "opacity".toList) (.leaf (some 41)),
  .setattr 1 [.str "path".toList, .str "line".toList] (.str "width".toList) (.leaf (some 15)),
  .reset, .read 1 [.str "opacity".toList]]

/-- `leaf_histories_last_valid_assignment_wins` APPLIED: a Cuboid-class style; `style.opacity = 0.5` (accepted),
an assignment on the defaults, `style.opacity = "tail"` (refused by the validator), an assignment to another leaf,
`defaults.reset()`, a read: the specification — evaluated WITHOUT running the model — says `set 0.5`, and that is read -/
example :
    ((exLeafOps.map (fun op => (op, true))).foldl (effStep 1 [.str "opacity".toList]
        ((leafVid cMagnetStyle.props [.str "opacity".toList]).getD 0)) .keep matches .set (some 21)) = true ∧
    (match readAt (exec tables classes defaults (init [1]) exLeafOps) 1 [.str "opacity".toList] with
      | .ok (.leaf (some 21)) => true | _ => false) = true := by
  have h := leaf_histories_last_valid_assignment_wins [1] (by decide) exLeafOps
    (fun op hop => leafOp_of_leafOpB _ op (List.all_eq_true.mp (show exLeafOps.all (leafOpB (init [1])) = true by decide +kernel) op hop))
    1 ⟨"MagnetStyle".toList, _, cMagnetStyle⟩ rfl [.str "opacity".toList]
    ((leafVid cMagnetStyle.props [.str "opacity".toList]).getD 0) (by decide +kernel)
  rw [h]
  decide +kernel


/-! ### the resolution order over the abstract map -/

/- FULL: `get_style(obj, defaults, **show_kwargs)` read entirely over the abstract maps: show keyword > the abstract map
   of the object's own style > the abstract map of `magpylib.defaults` at `display.style.<family>` for the object's
   families (most specific first) > the same at `display.style.base`.
   Proved here: the OBJECT layer — in every reachable world the own-style value that enters the precedence chain is the
   value of the abstract map (`reads_refine`), and `get_style` at dictionary level (`resolveNested`, tied by the `style`
   stream) on the reachable tree resolves `q` to the first non-None of [that value, family defaults …, base default].
   Missing: the DEFAULTS layers are still the abstract flat functions `base` / `fams` of Props/C20 with the hypothesis
   `hdef` (the flat default dictionary `get_style` builds is `familyDefaults base fams`): deriving them from object 0's
   tree needs `as_dict(flatten=True)` of a sub-tree and the non-None merge over families as model functions, which do not
   exist (it would be a new model, not a connection). -/
/-- **the own-style layer of the resolution order is the abstract map.**  For every history as in `reads_refine`, every
object `j`, every plain property `q` of its style that no `show()` keyword touches: the effective style resolves `q` to the
first non-None of: the abstract map's value for `q`, the family defaults (most specific first), the base default. -/
theorem effective_style_refines_partial (cls : List Nat) (hcls : ∀ ci ∈ cls, ci < classes.length) (ops : List Op)
    (hfit : ∀ x ∈ annot (init cls) ops, x.2 = true → FitOp (init cls) x.1)
    (j : Nat) (c : ClassInfo) (hc0 : clsOf (init cls) j = some c) (q : List Str) (vid : Nat)
    (hq : leafVid c.schema.props (q.map Key.str) = some vid)
    (kwE dfE : Entries) (base : Style.Flat) (fams : List Style.Flat)
    (hsfk : SF '_' kwE) (hpfk : PF kwE) (hsfd : SF '_' dfE) (hpfd : PF dfE)
    (hdef : ∀ s, C20.toFlat (flatOf '_' dfE) s = Style.familyDefaults base fams s)
    (hkw : ∀ e ∈ kwE, ¬ (e.1 <+: q ∨ q <+: e.1))
    (hcd : ∀ e ∈ dfE, e.1 <+: q ∨ q <+: e.1 → e.1 = q) :
    ∃ (o : Obj) (x : Option Val) (s2 : Tree),
      (exec tables classes defaults (init cls) ops)[j]? = some o ∧
      ((annot (init cls) ops).foldl (effStep j (q.map Key.str) vid) .keep).val (q.map Key.str) (readAt (init cls) j (q.map Key.str)) = .ok (.leaf x) ∧
      resolveNested '_' (.node o.tree) (kwOf '_' kwE) (kwOf '_' dfE) = .ok s2 ∧
      getPath s2 (q.map Key.str) = some (.leaf (Style.firstSome (x ::
        (fams.reverse.map (· (String.ofList (joinWith '_' q)))) ++ [base (String.ofList (joinWith '_' q))]))) := by
  have hg : Good (init cls) (exec tables classes defaults (init cls) ops) := by
    have key : ∀ (l : List Op) (w : World), Good (init cls) w → Good (init cls) (exec tables classes defaults w l) := by
      intro l
      induction l with
      | nil => intro w h; exact h
      | cons op t ih => intro w h; rw [exec_cons]; exact ih _ (good_step _ w h op)
    exact key ops _ (good_init cls hcls)
  obtain ⟨o, hw, hc⟩ := clsOf_elim (show clsOf (exec tables classes defaults (init cls) ops) j = some c by rw [hg.cls]; exact hc0)
  obtain ⟨c', hc', hwf⟩ := hg.wf j o hw
  rw [hc] at hc'
  injection hc' with hc'
  subst hc'
  have hcm : c ∈ classes := List.mem_of_getElem? hc
  obtain ⟨y, hy1, hy2, _⟩ := read_wf (fixB tables) (q.map Key.str) c.schema.props o.tree vid hwf hq
  have href := reads_refine cls hcls ops hfit j c hc0 (q.map Key.str) vid hq
  rw [readAt_of _ j o c _ hw hc, hy2] at href
  -- the reachable tree is a good tree
  have hgood : goodKids '_' o.tree = true := by
    have h2 := List.all_eq_true.mp classes_wellformed2 c hcm
    have h1 := List.all_eq_true.mp classes_wellformed.1 c hcm
    simp only [Bool.and_eq_true] at h1
    cases hs : c.schema with
    | leaf v => rw [hs] at h1; cases h1.2
    | alias t => rw [hs] at h1; cases h1.2
    | obj ps a b ct vk =>
      rw [hs] at h2 hwf
      rw [okSchema2] at h2
      simp only [Bool.and_eq_true] at h2
      exact wfKids_good (fixB tables) ps h2.1.1.1.1.1 h2.1.1.1.1.2 o.tree hwf
  have hck : ∀ e ∈ kwE, e.1 <+: q ∨ q <+: e.1 → e.1 = q := fun e he h => absurd h (hkw e he)
  obtain ⟨s2, hs2a, hs2b⟩ := C20.nested_resolution_matches_flat '_' o.tree kwE dfE base fams hgood hsfk hpfk hsfd hpfd hdef q y hy1 hck hcd
  refine ⟨o, y, s2, hw, href.symm, hs2a, ?_⟩
  rw [hs2b]
  have hqne : q ≠ [] := by intro e; subst e; simp [leafVid] at hq
  have hqf : ∀ w ∈ q, '_' ∉ w := (good_getPath q (.node o.tree) _ (by simpa [Tree.good] using hgood) hy1).1
  have hobjF : C20.toFlat (linLoop ['_'] [] o.tree) (String.ofList (joinWith '_' q)) = y := by
    cases q with
    | nil => exact absurd rfl hqne
    | cons s q' =>
      have : lookup (.str (joinWith '_' (s :: q'))) (linLoop ['_'] [] o.tree) = some y :=
        (lookup_linearize '_' o.tree hgood _ y).mpr ⟨s, q', rfl, hy1⟩
      simp [C20.toFlat, String.toList_ofList, this]
  have hprec := (C20.resolution_precedence base fams (C20.toFlat (linLoop ['_'] [] o.tree)) (C20.kwList '_' kwE)
    (String.ofList (joinWith '_' q)) none (by
      intro kv hkv
      simp only [C20.kwList, List.mem_map] at hkv
      obtain ⟨e, he, rfl⟩ := hkv
      intro heq
      have h0 := hsfk e he
      have := joinWith_inj h0.1 hqne h0.2 hqf (String.ofList_injective heq)
      exact hkw e he (.inl (by rw [this]; exact List.prefix_rfl)))).1
  rw [hprec, hobjF]

/-- non-vacuity of `effective_style_refines_partial`: the hypotheses are satisfiable (a Cuboid-class style, the plain
property `opacity`, no show() keywords, empty default dictionaries) -/
example : True := by
  have := effective_style_refines_partial [1] (by decide) [] (fun x hx => by cases hx) 1
    ⟨"MagnetStyle".toList, _, cMagnetStyle⟩ rfl ["opacity".toList] ((leafVid cMagnetStyle.props [.str "opacity".toList]).getD 0)
    (by decide +kernel) [] [] (fun _ => none) [] (fun e he => by cases he) List.Pairwise.nil (fun e he => by cases he)
    List.Pairwise.nil (fun _ => rfl) (fun e he => by cases he) (fun e he => by cases he)
  trivial

/-! ### audit2: a non-trivial instance of `effective_style_refines_partial` -/

def exOpac : List Str := ["opacity".toList]
def exDf : Entries := [(exOpac, some 8)]
def exOps2 : List Op := [.setattr 1 [] (.str "opacity".toList) (.leaf (some 21)), .reset]

/-- `effective_style_refines_partial` APPLIED to a non-empty history and a non-empty default dictionary: a Cuboid-class
style with `style.opacity = 0.5` assigned (then `defaults.reset()`), no `show()` keyword, flat defaults `{opacity: 1}`:
all hypotheses are instantiated; the theorem yields the resolved style with `opacity` = first non-None of
[abstract map's value, base default] -/
example : ∃ (o : Obj) (x : Option Val) (s2 : Tree),
    (exec tables classes defaults (init [1]) exOps2)[1]? = some o ∧
    resolveNested '_' (.node o.tree) (kwOf '_' []) (kwOf '_' exDf) = .ok s2 ∧
    getPath s2 (exOpac.map Key.str) = some (.leaf (Style.firstSome (x :: [] ++ [C20.toFlat (flatOf '_' exDf) (String.ofList (joinWith '_' exOpac))]))) := by
  obtain ⟨o, x, s2, h1, _, h3, h4⟩ := effective_style_refines_partial [1] (by decide) exOps2 (hfit_of_all _ _ (by decide +kernel)) 1
    ⟨"MagnetStyle".toList, _, cMagnetStyle⟩ rfl exOpac ((leafVid cMagnetStyle.props (exOpac.map Key.str)).getD 0)
    (by decide +kernel) [] exDf (C20.toFlat (flatOf '_' exDf)) [] (fun e he => by cases he) List.Pairwise.nil
    (fun e he => by
      have : e = (exOpac, some 8) := by simpa [exDf] using he
      subst this
      exact ⟨by decide, by decide⟩)
    (List.pairwise_singleton _ _) (fun _ => rfl) (fun e he => by cases he)
    (fun e he _ => by
      have : e = (exOpac, some 8) := by simpa [exDf] using he
      rw [this])
  exact ⟨o, x, s2, h1, h3, h4⟩

end MagpyVerif.C20d
