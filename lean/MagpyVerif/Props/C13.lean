/-
Props/C13.lean — a body gives the same field however it is represented or subdivided.
Proved: Sphere (outside) = Dipole with moment J·V/μ₀; TriangularMesh / Tetrahedron are by
construction the sum of their triangle sheets plus the inside term (wrapper `wrapH`, C02); a
straight current segment may be subdivided at any point of its carrier line, and reversing it
negates the field (both from the Biot–Savart integral representation, Lemmas/SegmentBS.lean).
/- FULL: Cuboid = its mesh = its tetrahedra; Cylinder = full-angle segment = sum of segments;
   partition additivity of Cuboid/Cylinder; Polyline → Circle.  These equate different closed
   forms (each equivalent to C01 for both sides) and are not shown by theorem; the whole-vs-parts
   oracle checks them on the real code. -/
-/
import MagpyVerif.Lemmas.KernReal
import MagpyVerif.Lemmas.SegmentBS
namespace MagpyVerif.C13
open MagpyVerif MagpyVerif.Kern

/-- C13: outside the ball a homogeneously polarised Sphere is a Dipole with moment J·V/μ₀ -/
theorem sphere_outside_eq_dipole (d : ℝ) (pol x : V3 ℝ) (hout : |d| / 2 < Kern.norm x) :
    bhjmSphere .H d pol x =
      dipoleH (vs (4 / 3 * Real.pi * (|d| / 2) ^ 3 / mu0R) pol) x := by
  have hr : 0 < Kern.norm x := lt_of_le_of_lt (by positivity) hout
  have hr' : Kern.norm x ≠ 0 := hr.ne'
  have hmu : mu0R ≠ 0 := mu0R_pos.ne'
  have hpi : Real.pi ≠ 0 := Real.pi_ne_zero
  have hsq := norm_sq x
  simp only [bhjmSphere, dipoleH, lt_real, abs_real, n, ofNat_real, Nat.cast_ofNat, hout, decide_true, if_true, mu0_real]
  generalize Kern.norm x = r at *
  apply V3.ext' <;> simp [vs, vd, V3.dot] <;> field_simp <;> ring


/-- TriangularMesh and Tetrahedron report the sum of their triangle sheets as μ₀H and add the
polarization inside for B (the `wrapH` dispatch): H of the body = H of the closed set of sheets -/
theorem mesh_H_is_sum_of_sheets (inside : Bool) (pol sheets : V3 ℝ) :
    wrapH .H inside pol sheets = vd sheets mu0R ∧
    wrapH .B inside pol sheets = sheets + (if inside then pol else zero3) := ⟨rfl, rfl⟩


/-- C13 (Polyline): subdividing a straight segment p1→p2 at the collinear point
`p3 = p1 + τ (p2 − p1)` (any τ ≠ 0, 1 — for τ outside [0,1] the second piece runs backwards)
does not change the field: `segmentH` of the two pieces adds up to `segmentH` of the whole, for
every observer off the carrier line.  A Polyline with an extra collinear vertex is the same source. -/
theorem polyline_split_additive (cur τ : ℝ) (p1 p2 po : V3 ℝ) (hτ0 : τ ≠ 0) (hτ1 : τ ≠ 1)
    (hoff : 0 < SegBS.nsq (V3.cross (p2 - p1) (po - p1))) :
    segmentH cur p1 (SegBS.lerp p1 p2 τ) po + segmentH cur (SegBS.lerp p1 p2 τ) p2 po = segmentH cur p1 p2 po :=
  SegBS.segment_split p1 p2 po cur τ hτ0 hτ1 hoff

/-- C13 (Polyline): traversing a segment in the opposite direction negates its field -/
theorem polyline_reverse_negates (cur : ℝ) (p1 p2 po : V3 ℝ)
    (hoff : 0 < SegBS.nsq (V3.cross (p2 - p1) (po - p1))) :
    segmentH cur p2 p1 po = vs (-1) (segmentH cur p1 p2 po) :=
  SegBS.segment_reverse p1 p2 po cur hoff

-- non-vacuity: midpoint split of a unit segment along x, observer at (1/2, 1, 0)
example : (1/2 : ℝ) ≠ 0 ∧ (1/2 : ℝ) ≠ 1 ∧
    0 < SegBS.nsq (V3.cross ((⟨1, 0, 0⟩ : V3 ℝ) - ⟨0, 0, 0⟩) (⟨1/2, 1, 0⟩ - ⟨0, 0, 0⟩)) := by
  refine ⟨by norm_num, by norm_num, ?_⟩
  simp [SegBS.nsq, V3.cross]

end MagpyVerif.C13
