/-
Props/C13.lean — a body gives the same field however it is represented or subdivided.
Proved: Sphere (outside) = Dipole with moment J·V/μ₀; TriangularMesh / Tetrahedron are by
construction the sum of their triangle sheets plus the inside term (wrapper `wrapH`, C02); a
straight current segment may be subdivided at any point of its carrier line, and reversing it
negates the field (both from the Biot–Savart integral representation, Lemmas/SegmentBS.lean).
A Cuboid cut by axis-parallel planes (one cut, a list of cuts along one axis, a full n×m×k grid) is the
sum of its parts with the same polarization — `cuboid_split_x/y/z`, `cuboid_split_x_list`,
`cuboid_grid_partition` for the kernel `cuboidB`, `cuboid_split_wrapper_x/y/z` and
`cuboid_grid_partition_wrapper` for all four fields of `bhjmCuboid` (via the surface-charge integral of C01, Lemmas/CuboidSplit.lean).
/- FULL: Cuboid = its mesh = its tetrahedra; Cylinder = full-angle segment = sum of segments;
   partition additivity of Cylinder / CylinderSegment / Sphere / meshes; Polyline → Circle.  These equate
   different closed forms (each equivalent to C01 for both sides) and are not shown by theorem; the
   whole-vs-parts oracle checks them on the real code. -/
-/
import MagpyVerif.Lemmas.KernCylSeg
import MagpyVerif.Lemmas.KernCylSegScale
import MagpyVerif.Lemmas.KernReal
import MagpyVerif.Lemmas.KernelLiterals
import MagpyVerif.Lemmas.KernAlgebra
import MagpyVerif.Lemmas.SegmentBS
import MagpyVerif.Lemmas.TrimeshSum
import MagpyVerif.Lemmas.CuboidSplit
namespace MagpyVerif.C13
open MagpyVerif MagpyVerif.Kern

/-- C13: outside the ball a homogeneously polarised Sphere is a Dipole with moment J·V/μ₀ -/
theorem sphere_outside_eq_dipole (d : ℝ) (pol x : V3 ℝ) (hout : |d| / 2 < Kern.norm x) :
    bhjmSphere .H d pol x =
      dipoleH (vs (4 / 3 * Real.pi * (|d| / 2) ^ 3 / mu0R) pol) x := by
  have hr : 0 < Kern.norm x := lt_of_le_of_lt (by positivity) hout
  have hr' : Kern.norm x ≠ 0 := hr.ne'
  have hmu : mu0R ≠ 0 := mu0R_pos.ne'
  have hpi : Real.pi ≠ 0 := Real.pi_ne_zero
  have hsq := norm_sq x
  simp only [bhjmSphere, dipoleH, lt_real, abs_real, n, ofNat_real, Nat.cast_ofNat, hout, decide_true, if_true, mu0_real]
  generalize Kern.norm x = r at *
  apply V3.ext' <;> simp [vs, vd, V3.dot] <;> field_simp <;> ring

-- non-vacuity (audit): diameter 2, observer (0, 0, 2) is outside
example : |(2 : ℝ)| / 2 < Kern.norm (⟨0, 0, 2⟩ : V3 ℝ) := by
  have h : Kern.norm (⟨0, 0, 2⟩ : V3 ℝ) = 2 := by
    simp only [Kern.norm, sqrt_real]
    rw [show (0:ℝ) * 0 + 0 * 0 + 2 * 2 = 2 * 2 by ring, Real.sqrt_mul_self (by norm_num)]
  rw [h]; norm_num


/-- TriangularMesh and Tetrahedron report the sum of their triangle sheets as μ₀H and add the
polarization inside for B (the `wrapH` dispatch): H of the body = H of the closed set of sheets -/
theorem mesh_H_is_sum_of_sheets (inside : Bool) (pol sheets : V3 ℝ) :
    wrapH .H inside pol sheets = vd sheets mu0R ∧
    wrapH .B inside pol sheets = sheets + (if inside then pol else zero3) := ⟨rfl, rfl⟩

/-- (added by the audit) `mesh_H_is_sum_of_sheets` above is `⟨rfl, rfl⟩` about the dispatch function `wrapH`, which the mesh model
does not even call.  This is the statement about the model that the driver runs (`Kern.bhjmTrimesh`, `trimesh` streams): for
every batch, every row's output is `wrapH` of the sum of ITS triangle sheets with ITS inside verdict — i.e. μ₀H of a
TriangularMesh is the sum over its Triangle sheets, B adds the polarization inside (inside test as a parameter). -/
theorem trimesh_row_is_wrapH_of_sheets {M : Type} (f : Field) (meshId : MeshRow ℝ → M) (inside : M → V3 ℝ → Bool)
    (r : MeshRow ℝ) :
    bhjmTrimeshRow f meshId inside r = wrapH f (inside (meshId r) r.obs) r.pol (meshRowSheets r) := by
  have h0 : (⟨0, 0, 0⟩ : V3 ℝ) + r.pol = r.pol := by apply V3.ext' <;> simp
  have h1 : meshRowSheets r + (⟨0, 0, 0⟩ : V3 ℝ) = meshRowSheets r := by apply V3.ext' <;> simp
  cases f <;> cases h : inside (meshId r) r.obs <;>
    simp [bhjmTrimeshRow, wrapH, h, zero3, n, h0, h1]

theorem trimesh_is_wrapH_of_sheets {M : Type} [DecidableEq M] (f : Field) (meshId : MeshRow ℝ → M)
    (inside : M → V3 ℝ → Bool) (rows : List (MeshRow ℝ)) :
    bhjmTrimesh f meshId inside rows =
      rows.map fun r => wrapH f (inside (meshId r) r.obs) r.pol (meshRowSheets r) := by
  rw [bhjmTrimesh_rowwise]
  exact List.map_congr_left fun r _ => trimesh_row_is_wrapH_of_sheets f meshId inside r


/-- `point_inside` of the Tetrahedron gives the same answer for either order of the last two
vertices (the barycentric coordinates `(λ1, λ2, λ3)` become `(λ1, λ3, λ2)`): the body is the same
set however its vertices are listed -/
-- (audit) for coplanar vertices (det = 0) the inside test answers "outside" everywhere (repo fix 657dea6: `regular = det != 0`;
-- before it the real-number model divided by 0 and answered "inside" everywhere); witness:
example : tetraInside (⟨0,0,0⟩ : V3 ℝ) ⟨1,0,0⟩ ⟨2,0,0⟩ ⟨3,0,0⟩ ⟨5,5,5⟩ = false := by simp [tetraInside, det3, n]
theorem tetraInside_swap_invariant (v0 v1 v2 v3 x : V3 ℝ) :
    tetraInside v0 v1 v3 v2 x = tetraInside v0 v1 v2 v3 x :=
  tetraInside_swap mu0R v0 v1 v2 v3 x

/-- hence the inside set used by the B branch of `BHJM_magnet_tetrahedron` (after
`check_chirality`) is the inside set used by its J and M branches (vertices as given) -/
theorem tetraInside_after_chirality (v0 v1 v2 v3 x : V3 ℝ) :
    tetraInside (tetraChirality v0 v1 v2 v3).1 (tetraChirality v0 v1 v2 v3).2.1
      (tetraChirality v0 v1 v2 v3).2.2.1 (tetraChirality v0 v1 v2 v3).2.2.2 x = tetraInside v0 v1 v2 v3 x :=
  tetraInside_chirality mu0R v0 v1 v2 v3 x

/-- C13 (Tetrahedron): `BHJM_magnet_tetrahedron` **is** the `wrapH` dispatch applied to the sum
of the `triangle_Bfield`s of its four faces `(0,2,1), (0,1,3), (1,2,3), (0,3,2)` of the
chirality-fixed vertices, with the barycentric inside test of the vertices as given — for all four
outputs.  (For H the code divides each sheet by μ₀ before summing; for B it tests inside on the
fixed vertices: both rewritten here.)  So a Tetrahedron and the closed set of its four Triangle
sheets have the same H everywhere, and B differs by the polarization inside. -/
theorem tetra_is_wrapH_of_four_sheets (f : Field) (v0 v1 v2 v3 pol x : V3 ℝ) :
    bhjmTetra f v0 v1 v2 v3 pol x =
      wrapH f (tetraInside v0 v1 v2 v3 x) pol
        (triangleB (tetraChirality v0 v1 v2 v3).1 (tetraChirality v0 v1 v2 v3).2.2.1 (tetraChirality v0 v1 v2 v3).2.1 pol x +
          triangleB (tetraChirality v0 v1 v2 v3).1 (tetraChirality v0 v1 v2 v3).2.1 (tetraChirality v0 v1 v2 v3).2.2.2 pol x +
          triangleB (tetraChirality v0 v1 v2 v3).2.1 (tetraChirality v0 v1 v2 v3).2.2.1 (tetraChirality v0 v1 v2 v3).2.2.2 pol x +
          triangleB (tetraChirality v0 v1 v2 v3).1 (tetraChirality v0 v1 v2 v3).2.2.2 (tetraChirality v0 v1 v2 v3).2.2.1 pol x) :=
  tetra_wrapH' mu0R f v0 v1 v2 v3 pol x

-- non-vacuity: a left-handed vertex order (the swap is performed) and an inside observer
example : tetraChirality (⟨0, 0, 0⟩ : V3 ℝ) ⟨1, 0, 0⟩ ⟨0, 0, 1⟩ ⟨0, 1, 0⟩ =
      (⟨0, 0, 0⟩, ⟨1, 0, 0⟩, ⟨0, 1, 0⟩, ⟨0, 0, 1⟩) ∧
    tetraInside (⟨0, 0, 0⟩ : V3 ℝ) ⟨1, 0, 0⟩ ⟨0, 0, 1⟩ ⟨0, 1, 0⟩ ⟨1 / 4, 1 / 4, 1 / 4⟩ = true := by
  constructor
  · simp [tetraChirality, det3, n]
  · simp [tetraInside, det3, n]
    norm_num

/-- C13 (Polyline): subdividing a straight segment p1→p2 at the collinear point
`p3 = p1 + τ (p2 − p1)` (any τ ≠ 0, 1 — for τ outside [0,1] the second piece runs backwards)
does not change the field: `segmentH` of the two pieces adds up to `segmentH` of the whole, for
every observer off the carrier line.  A Polyline with an extra collinear vertex is the same source. -/
theorem polyline_split_additive (cur τ : ℝ) (p1 p2 po : V3 ℝ) (hτ0 : τ ≠ 0) (hτ1 : τ ≠ 1)
    (hoff : 0 < SegBS.nsq (V3.cross (p2 - p1) (po - p1))) :
    segmentH cur p1 (SegBS.lerp p1 p2 τ) po + segmentH cur (SegBS.lerp p1 p2 τ) p2 po = segmentH cur p1 p2 po :=
  SegBS.segment_split p1 p2 po cur τ hτ0 hτ1 hoff

/-- C13 (Polyline): traversing a segment in the opposite direction negates its field -/
theorem polyline_reverse_negates (cur : ℝ) (p1 p2 po : V3 ℝ)
    (hoff : 0 < SegBS.nsq (V3.cross (p2 - p1) (po - p1))) :
    segmentH cur p2 p1 po = vs (-1) (segmentH cur p1 p2 po) :=
  SegBS.segment_reverse p1 p2 po cur hoff

-- non-vacuity: midpoint split of a unit segment along x, observer at (1/2, 1, 0)
example : (1/2 : ℝ) ≠ 0 ∧ (1/2 : ℝ) ≠ 1 ∧
    0 < SegBS.nsq (V3.cross ((⟨1, 0, 0⟩ : V3 ℝ) - ⟨0, 0, 0⟩) (⟨1/2, 1, 0⟩ - ⟨0, 0, 0⟩)) := by
  refine ⟨by norm_num, by norm_num, ?_⟩
  simp [SegBS.nsq, V3.cross]

end MagpyVerif.C13

/-! ### CylinderSegment with a full 360° range -/
namespace MagpyVerif.C13
open MagpyVerif MagpyVerif.Kern MagpyVerif.Kern.CylSeg

/-- C13 (CylinderSegment ↔ Cylinder): when the section angles span 360° or more, the ported
`BHJM_cylinder_segment_internal` returns Cylinder(diameter 2·r2, height h) minus — for a hollow ring, `r1 ≠ 0` —
Cylinder(diameter 2·r1, height h), for every field and observer; the segment formulas are not evaluated.
(`none`: a `cel0` call of the Cylinder kernel failed.) -/
-- (audit) `full_ring_is_cylinder_difference` / `partial_ring_is_segment` unfold the `if` of `BHJM_cylinder_segment_internal`
-- (`none = none` included): they say that the object-oriented wrapper BYPASSES the segment formulas at 360°, not that the
-- segment closed form at 360° equals the Cylinder closed form (that identity between closed forms is oracle only).
theorem full_ring_is_cylinder_difference (μ : ℝ) (S : SegSpecial) (fuel : Nat) (f : Field) (x : V3 ℝ)
    (r1 r2 h p1 p2 : ℝ) (pol : V3 ℝ) (hfull : 360 ≤ p2 - p1) :
    @bhjmCylSegInternal ℝ (realNumX μ S) fuel f x r1 r2 h p1 p2 pol =
      (@bhjmCylinder ℝ (realNum μ) fuel f (2 * r2, h) pol x).bind fun outer =>
        if r1 ≠ 0 then (@bhjmCylinder ℝ (realNum μ) fuel f (2 * r1, h) pol x).map fun inner => outer - inner
        else some outer :=
  internal_full_ring μ S fuel f x r1 r2 h p1 p2 pol hfull

/-- below 360° the internal wrapper is the segment solution -/
theorem partial_ring_is_segment (μ : ℝ) (S : SegSpecial) (fuel : Nat) (f : Field) (x : V3 ℝ)
    (r1 r2 h p1 p2 : ℝ) (pol : V3 ℝ) (hseg : p2 - p1 < 360) :
    @bhjmCylSegInternal ℝ (realNumX μ S) fuel f x r1 r2 h p1 p2 pol =
      @bhjmCylSeg ℝ (realNumX μ S) f x r1 r2 h p1 p2 pol :=
  internal_segment μ S fuel f x r1 r2 h p1 p2 pol hseg

-- non-vacuity: both hypotheses are satisfiable
example : (360 : ℝ) ≤ 360 - 0 ∧ (90 : ℝ) - 0 < 360 := by norm_num

end MagpyVerif.C13

namespace MagpyVerif.C13
open MagpyVerif MagpyVerif.Kern MagpyVerif.Kern.CylSeg

/-- C13 (angle representation): the helper `arctan_k_tan_2` of the CylinderSegment case functions continues
arctan(k·tan(φ/2)) periodically — describing the same angle one full turn further adds exactly π, for every k and
every φ, including the odd multiples of π where `np.round` meets a tie (ties-to-even: the number of full periods
then jumps by 0 or 2, and both values come from the `phi_red / 2` branch) -/
-- (audit) helper only: no theorem derives `bhjmCylSeg … (φ₁+360) (φ₂+360) = bhjmCylSeg … φ₁ φ₂` from it
theorem arctan_k_tan_2_periodic_continuation (μ : ℝ) (S : SegSpecial) (k φ : ℝ) :
    @arctan_k_tan_2 ℝ (realNumX μ S) k (φ + 2 * Real.pi) = @arctan_k_tan_2 ℝ (realNumX μ S) k φ + Real.pi :=
  arctan_k_tan_2_add_two_pi μ S k φ

end MagpyVerif.C13

/-! ### CylinderSegment: the range written one turn further; periodic continuation inside the case functions -/
namespace MagpyVerif.C13
open MagpyVerif MagpyVerif.Kern MagpyVerif.Kern.CylSeg

/- FULL: `bhjmCylSeg f x r1 r2 h (p1 + 360) (p2 + 360) pol = bhjmCylSeg f x r1 r2 h p1 p2 pol` for all ranges.  Not shown for
ranges that end at `p2 ≤ 0` (e.g. [−90°, −30°] against [270°, 330°]) or that are longer than a turn and start below −360°:
there the prologue keeps two different representatives (they differ by 2π), and equality of the fields would need the
quasi-periodicity of the incomplete elliptic integrals in their amplitude (`cylseg_full_turn_acts_on_amplitudes` shows that this
is the only place a full turn enters), which the opaque special functions do not provide; left to the whole-vs-parts and
angle-turns oracle. -/
/-- C13 (CylinderSegment): a range that ends at a positive angle and either reaches beyond 360° or starts at −360° or later
gives literally the same normalised row when both section angles are written 360° further (`turns` of the prologue goes up by
exactly one), hence the same B, H, J, M at every observer -/
theorem cylseg_angles_plus_360_partial (μ : ℝ) (S : SegSpecial) (f : Field) (x : V3 ℝ) (r1 r2 h p1 p2 : ℝ) (pol : V3 ℝ)
    (hp2 : 0 < p2) (hcase : 360 < p2 ∨ -360 ≤ p1) :
    @bhjmCylSeg ℝ (realNumX μ S) f x r1 r2 h (p1 + 360) (p2 + 360) pol =
      @bhjmCylSeg ℝ (realNumX μ S) f x r1 r2 h p1 p2 pol :=
  bhjmCylSeg_add_360 μ S f x r1 r2 h p1 p2 pol hp2 hcase

-- non-vacuity: [30°, 120°] against [390°, 480°]
example (μ : ℝ) (S : SegSpecial) (pol : V3 ℝ) :
    @bhjmCylSeg ℝ (realNumX μ S) .B ⟨3, 4, 5⟩ 1 2 3 (30 + 360) (120 + 360) pol =
      @bhjmCylSeg ℝ (realNumX μ S) .B ⟨3, 4, 5⟩ 1 2 3 30 120 pol :=
  cylseg_angles_plus_360_partial μ S .B _ 1 2 3 30 120 pol (by norm_num) (Or.inr (by norm_num))

/-- `arctan_k_tan_2_periodic_continuation` inside the case functions, explicit part: the two functions that use
`arctan_k_tan_2 k (2·phi_bar_j)` outside a special function gain `π cos θ_M sign(z_bar_k)` per half turn of the azimuthal
difference, and `Hr_zk_case233` (one such term with coefficient −c, two terms `arctan_k_tan_2 k± phi_bar_j` with +c) is
exactly 2π-periodic -/
theorem cylseg_arctan_continuation_explicit (μ : ℝ) (S : SegSpecial) (r pbj θ zb : ℝ) :
    @Hz_zk_case223 ℝ (realNumX μ S) r (pbj + Real.pi) θ zb =
      @Hz_zk_case223 ℝ (realNumX μ S) r pbj θ zb + Real.cos θ * sgnR zb * Real.pi ∧
    @Hz_zk_case233 ℝ (realNumX μ S) r (pbj + Real.pi) θ zb =
      @Hz_zk_case233 ℝ (realNumX μ S) r pbj θ zb + Real.cos θ * sgnR zb * Real.pi ∧
    @Hr_zk_case233 ℝ (realNumX μ S) r (pbj + 2 * Real.pi) θ zb = @Hr_zk_case233 ℝ (realNumX μ S) r pbj θ zb :=
  ⟨Hz_zk_case223_add_pi μ S r pbj θ zb, Hz_zk_case233_add_pi μ S r pbj θ zb, Hr_zk_case233_add_two_pi μ S r pbj θ zb⟩

/-- … and inside the incomplete integrals: in `Hr_zk_case234` and `Hr_zk_case235` a full turn of `phi_bar_j` is the same as
shifting the amplitude argument of `ellipkinc`, `ellipeinc`, `el3_angle` by π (`S.shiftPi`): `phi_bar_j / 2` and
`arctan_k_tan_2 k phi_bar_j` both gain exactly π, everything else is `sin` / `cos` of `phi_bar_j` -/
theorem cylseg_full_turn_acts_on_amplitudes (μ : ℝ) (S : SegSpecial) (r ri rb pbj θ zb : ℝ) :
    @Hr_zk_case234 ℝ (realNumX μ S) r (pbj + 2 * Real.pi) θ zb = @Hr_zk_case234 ℝ (realNumX μ S.shiftPi) r pbj θ zb ∧
    @Hr_zk_case235 ℝ (realNumX μ S) r ri rb (pbj + 2 * Real.pi) θ zb =
      @Hr_zk_case235 ℝ (realNumX μ S.shiftPi) r ri rb pbj θ zb :=
  ⟨Hr_zk_case234_add_two_pi μ S r pbj θ zb, Hr_zk_case235_add_two_pi μ S r ri rb pbj θ zb⟩

end MagpyVerif.C13

/-! ### Cuboid: the whole is the sum of the Cuboids it is cut into (Lemmas/CuboidSplit.lean)

The kernel `cuboidB` (port of `magnet_cuboid_Bfield`) and the wrapper `bhjmCuboid` are centred at the origin; a part
with centre `c` contributes its value at the shifted observer `p − c` (what `getB` does with `position=c`, no rotation).
Route: C01 (`cuboid_is_coulomb_integral`) turns each of the three bodies into `1/(4π) Σ_faces ± J·n ∫∫ (p−q)/|p−q|³ dA`
plus `J` inside; every face integral is evaluated (`faceX_x … faceZ_z`) as a second difference over the corners of the
face; the four faces parallel to the cut axis are additive in the cut range, the two internal faces at the cut carry
opposite charges over the same rectangle and cancel, each outer face belongs to one part, and off the cut plane the
observer is inside the whole iff it is inside exactly one part. -/
namespace MagpyVerif.C13
open MagpyVerif MagpyVerif.Kern MagpyVerif.CuboidCoulomb MagpyVerif.CuboidSplit

/-- C13 (Cuboid, cut ⟂ x): side lengths `dim > 0`, cut plane `x = t` strictly between the faces; left part of size
`(t + dim.x/2, dim.y, dim.z)` centred at `((t − dim.x/2)/2, 0, 0)`, right part of size `(dim.x/2 − t, dim.y, dim.z)` centred
at `((t + dim.x/2)/2, 0, 0)`, same polarization; every observer off the seven planes `x = ±dim.x/2`, `x = t`,
`|y| = dim.y/2`, `|z| = dim.z/2` — outside, inside either part, any octant. -/
theorem cuboid_split_x (dim pol p : V3 ℝ) (t : ℝ) (hdx : 0 < dim.x) (hdy : 0 < dim.y) (hdz : 0 < dim.z)
    (ht1 : -(dim.x / 2) < t) (ht2 : t < dim.x / 2)
    (hx : |p.x| ≠ dim.x / 2) (hxt : p.x ≠ t) (hy : |p.y| ≠ dim.y / 2) (hz : |p.z| ≠ dim.z / 2) :
    cuboidB dim pol p =
      cuboidB ⟨t + dim.x / 2, dim.y, dim.z⟩ pol (p - ⟨(t - dim.x / 2) / 2, 0, 0⟩) +
      cuboidB ⟨dim.x / 2 - t, dim.y, dim.z⟩ pol (p - ⟨(t + dim.x / 2) / 2, 0, 0⟩) :=
  CuboidSplit.cuboid_split_x dim pol p t hdx hdy hdz ht1 ht2 hx hxt hy hz

/-- C13 (Cuboid, cut ⟂ y) -/
theorem cuboid_split_y (dim pol p : V3 ℝ) (t : ℝ) (hdx : 0 < dim.x) (hdy : 0 < dim.y) (hdz : 0 < dim.z)
    (ht1 : -(dim.y / 2) < t) (ht2 : t < dim.y / 2)
    (hx : |p.x| ≠ dim.x / 2) (hy : |p.y| ≠ dim.y / 2) (hyt : p.y ≠ t) (hz : |p.z| ≠ dim.z / 2) :
    cuboidB dim pol p =
      cuboidB ⟨dim.x, t + dim.y / 2, dim.z⟩ pol (p - ⟨0, (t - dim.y / 2) / 2, 0⟩) +
      cuboidB ⟨dim.x, dim.y / 2 - t, dim.z⟩ pol (p - ⟨0, (t + dim.y / 2) / 2, 0⟩) :=
  CuboidSplit.cuboid_split_y dim pol p t hdx hdy hdz ht1 ht2 hx hy hyt hz

/-- C13 (Cuboid, cut ⟂ z) -/
theorem cuboid_split_z (dim pol p : V3 ℝ) (t : ℝ) (hdx : 0 < dim.x) (hdy : 0 < dim.y) (hdz : 0 < dim.z)
    (ht1 : -(dim.z / 2) < t) (ht2 : t < dim.z / 2)
    (hx : |p.x| ≠ dim.x / 2) (hy : |p.y| ≠ dim.y / 2) (hz : |p.z| ≠ dim.z / 2) (hzt : p.z ≠ t) :
    cuboidB dim pol p =
      cuboidB ⟨dim.x, dim.y, t + dim.z / 2⟩ pol (p - ⟨0, 0, (t - dim.z / 2) / 2⟩) +
      cuboidB ⟨dim.x, dim.y, dim.z / 2 - t⟩ pol (p - ⟨0, 0, (t + dim.z / 2) / 2⟩) :=
  CuboidSplit.cuboid_split_z dim pol p t hdx hdy hdz ht1 ht2 hx hy hz hzt

-- non-vacuity: a 2×2×2 cuboid cut at x = 1/2 (parts 3/2 and 1/2 wide); an observer outside in another octant, one inside
-- the left part, one inside the right part
example : cuboidB (⟨2, 2, 2⟩ : V3 ℝ) ⟨0, 0, 1⟩ ⟨-3, 1 / 2, 5⟩ =
    cuboidB ⟨1 / 2 + 2 / 2, 2, 2⟩ ⟨0, 0, 1⟩ (⟨-3, 1 / 2, 5⟩ - ⟨(1 / 2 - 2 / 2) / 2, 0, 0⟩) +
    cuboidB ⟨2 / 2 - 1 / 2, 2, 2⟩ ⟨0, 0, 1⟩ (⟨-3, 1 / 2, 5⟩ - ⟨(1 / 2 + 2 / 2) / 2, 0, 0⟩) := by
  apply cuboid_split_x (⟨2, 2, 2⟩ : V3 ℝ) ⟨0, 0, 1⟩ ⟨-3, 1 / 2, 5⟩ (1 / 2) <;> norm_num [abs_of_pos, abs_of_neg]
example : cuboidB (⟨2, 2, 2⟩ : V3 ℝ) ⟨0, 0, 1⟩ ⟨-1 / 4, 1 / 3, -1 / 4⟩ =
    cuboidB ⟨1 / 2 + 2 / 2, 2, 2⟩ ⟨0, 0, 1⟩ (⟨-1 / 4, 1 / 3, -1 / 4⟩ - ⟨(1 / 2 - 2 / 2) / 2, 0, 0⟩) +
    cuboidB ⟨2 / 2 - 1 / 2, 2, 2⟩ ⟨0, 0, 1⟩ (⟨-1 / 4, 1 / 3, -1 / 4⟩ - ⟨(1 / 2 + 2 / 2) / 2, 0, 0⟩) := by
  apply cuboid_split_x (⟨2, 2, 2⟩ : V3 ℝ) ⟨0, 0, 1⟩ ⟨-1 / 4, 1 / 3, -1 / 4⟩ (1 / 2) <;> norm_num [abs_of_pos, abs_of_neg]
example : cuboidB (⟨2, 2, 2⟩ : V3 ℝ) ⟨0, 0, 1⟩ ⟨3 / 4, 1 / 3, -1 / 4⟩ =
    cuboidB ⟨1 / 2 + 2 / 2, 2, 2⟩ ⟨0, 0, 1⟩ (⟨3 / 4, 1 / 3, -1 / 4⟩ - ⟨(1 / 2 - 2 / 2) / 2, 0, 0⟩) +
    cuboidB ⟨2 / 2 - 1 / 2, 2, 2⟩ ⟨0, 0, 1⟩ (⟨3 / 4, 1 / 3, -1 / 4⟩ - ⟨(1 / 2 + 2 / 2) / 2, 0, 0⟩) := by
  apply cuboid_split_x (⟨2, 2, 2⟩ : V3 ℝ) ⟨0, 0, 1⟩ ⟨3 / 4, 1 / 3, -1 / 4⟩ (1 / 2) <;> norm_num [abs_of_pos, abs_of_neg]

/-- C13 (Cuboid wrapper, cut ⟂ x): the same for `BHJM_magnet_cuboid` — masks, special cases, field selection — and for
**all four fields** B, H, J, M, every polarization (zero included), for observers outside the relative-1e-15 surface shells
of the three bodies (whole, left part, right part; the y- and z-shells are common to them).  Inside a shell the code
switches to its surface / edge special cases, whose values are conventions of the code, not of the partition. -/
theorem cuboid_split_wrapper_x (f : Field) (dim pol p : V3 ℝ) (t : ℝ) (hdy : 0 < dim.y) (hdz : 0 < dim.z)
    (ht1 : -(dim.x / 2) < t) (ht2 : t < dim.x / 2)
    (hx : rtol * (dim.x / 2) ≤ |(|p.x| - dim.x / 2)|) (hy : rtol * (dim.y / 2) ≤ |(|p.y| - dim.y / 2)|)
    (hz : rtol * (dim.z / 2) ≤ |(|p.z| - dim.z / 2)|)
    (hL : rtol * ((t + dim.x / 2) / 2) ≤ |(|p.x - (t - dim.x / 2) / 2| - (t + dim.x / 2) / 2)|)
    (hR : rtol * ((dim.x / 2 - t) / 2) ≤ |(|p.x - (t + dim.x / 2) / 2| - (dim.x / 2 - t) / 2)|) :
    bhjmCuboid f dim pol p =
      bhjmCuboid f ⟨t + dim.x / 2, dim.y, dim.z⟩ pol (p - ⟨(t - dim.x / 2) / 2, 0, 0⟩) +
      bhjmCuboid f ⟨dim.x / 2 - t, dim.y, dim.z⟩ pol (p - ⟨(t + dim.x / 2) / 2, 0, 0⟩) :=
  CuboidSplit.cuboid_split_wrapper_x dim pol p t hdy hdz f ht1 ht2 hx hy hz hL hR

/-- C13 (Cuboid wrapper, cut ⟂ y) -/
theorem cuboid_split_wrapper_y (f : Field) (dim pol p : V3 ℝ) (t : ℝ) (hdx : 0 < dim.x) (hdz : 0 < dim.z)
    (ht1 : -(dim.y / 2) < t) (ht2 : t < dim.y / 2)
    (hx : rtol * (dim.x / 2) ≤ |(|p.x| - dim.x / 2)|) (hy : rtol * (dim.y / 2) ≤ |(|p.y| - dim.y / 2)|)
    (hz : rtol * (dim.z / 2) ≤ |(|p.z| - dim.z / 2)|)
    (hL : rtol * ((t + dim.y / 2) / 2) ≤ |(|p.y - (t - dim.y / 2) / 2| - (t + dim.y / 2) / 2)|)
    (hR : rtol * ((dim.y / 2 - t) / 2) ≤ |(|p.y - (t + dim.y / 2) / 2| - (dim.y / 2 - t) / 2)|) :
    bhjmCuboid f dim pol p =
      bhjmCuboid f ⟨dim.x, t + dim.y / 2, dim.z⟩ pol (p - ⟨0, (t - dim.y / 2) / 2, 0⟩) +
      bhjmCuboid f ⟨dim.x, dim.y / 2 - t, dim.z⟩ pol (p - ⟨0, (t + dim.y / 2) / 2, 0⟩) :=
  CuboidSplit.cuboid_split_wrapper_y dim pol p t hdx hdz f ht1 ht2 hx hy hz hL hR

/-- C13 (Cuboid wrapper, cut ⟂ z) -/
theorem cuboid_split_wrapper_z (f : Field) (dim pol p : V3 ℝ) (t : ℝ) (hdx : 0 < dim.x) (hdy : 0 < dim.y)
    (ht1 : -(dim.z / 2) < t) (ht2 : t < dim.z / 2)
    (hx : rtol * (dim.x / 2) ≤ |(|p.x| - dim.x / 2)|) (hy : rtol * (dim.y / 2) ≤ |(|p.y| - dim.y / 2)|)
    (hz : rtol * (dim.z / 2) ≤ |(|p.z| - dim.z / 2)|)
    (hL : rtol * ((t + dim.z / 2) / 2) ≤ |(|p.z - (t - dim.z / 2) / 2| - (t + dim.z / 2) / 2)|)
    (hR : rtol * ((dim.z / 2 - t) / 2) ≤ |(|p.z - (t + dim.z / 2) / 2| - (dim.z / 2 - t) / 2)|) :
    bhjmCuboid f dim pol p =
      bhjmCuboid f ⟨dim.x, dim.y, t + dim.z / 2⟩ pol (p - ⟨0, 0, (t - dim.z / 2) / 2⟩) +
      bhjmCuboid f ⟨dim.x, dim.y, dim.z / 2 - t⟩ pol (p - ⟨0, 0, (t + dim.z / 2) / 2⟩) :=
  CuboidSplit.cuboid_split_wrapper_z dim pol p t hdx hdy f ht1 ht2 hx hy hz hL hR

-- non-vacuity: the 2×2×2 cuboid cut at x = 1/2, H at an observer inside the right part — all seven hypotheses hold
example : bhjmCuboid .H (⟨2, 2, 2⟩ : V3 ℝ) ⟨0, 0, 1⟩ ⟨3 / 4, 1 / 3, -1 / 4⟩ =
    bhjmCuboid .H ⟨1 / 2 + 2 / 2, 2, 2⟩ ⟨0, 0, 1⟩ (⟨3 / 4, 1 / 3, -1 / 4⟩ - ⟨(1 / 2 - 2 / 2) / 2, 0, 0⟩) +
    bhjmCuboid .H ⟨2 / 2 - 1 / 2, 2, 2⟩ ⟨0, 0, 1⟩ (⟨3 / 4, 1 / 3, -1 / 4⟩ - ⟨(1 / 2 + 2 / 2) / 2, 0, 0⟩) := by
  apply cuboid_split_wrapper_x .H (⟨2, 2, 2⟩ : V3 ℝ) ⟨0, 0, 1⟩ ⟨3 / 4, 1 / 3, -1 / 4⟩ (1 / 2) <;>
    (try unfold rtol) <;> norm_num [abs_of_pos, abs_of_neg]

-- the shell hypotheses `hL`, `hR` are necessary: for an observer ON the cut plane (inside the whole) both parts count it as
-- inside (the wrapper's inside mask is the closed body), so the parts' J adds up to 2·J — the real code does the same
-- (getJ: [0.3, −0.2, 1] for the whole, [0.6, −0.4, 2] for the two parts; H and M likewise, B differs by the tangential J)
example : bhjmCuboid .J (⟨2, 2, 2⟩ : V3 ℝ) ⟨0, 0, 1⟩ ⟨1 / 2, 1 / 3, -1 / 4⟩ ≠
    bhjmCuboid .J ⟨1 / 2 + 2 / 2, 2, 2⟩ ⟨0, 0, 1⟩ (⟨1 / 2, 1 / 3, -1 / 4⟩ - ⟨(1 / 2 - 2 / 2) / 2, 0, 0⟩) +
    bhjmCuboid .J ⟨2 / 2 - 1 / 2, 2, 2⟩ ⟨0, 0, 1⟩ (⟨1 / 2, 1 / 3, -1 / 4⟩ - ⟨(1 / 2 + 2 / 2) / 2, 0, 0⟩) := by
  intro h
  have hz := congrArg V3.z h
  simp [bhjmCuboid, wrapB, cuboidMasks, n, zero3] at hz
  norm_num [abs_of_pos, abs_of_neg] at hz

/-- C13 (Cuboid, many cuts ⟂ x): cut positions `cuts` strictly increasing and strictly between the faces (the list
`−dim.x/2 :: cuts ++ [dim.x/2]` is strictly increasing; `cuts` may be empty); the slabs between consecutive planes,
each a Cuboid of width `b − a` evaluated at the observer shifted by its centre `((a + b)/2, 0, 0)`, sum to the whole
(`chainSum f t0 [t1, …, tn] = f t0 t1 + f t1 t2 + … + f t(n−1) tn`). -/
theorem cuboid_split_x_list (dim pol p : V3 ℝ) (cuts : List ℝ) (hdy : 0 < dim.y) (hdz : 0 < dim.z)
    (hp : (-(dim.x / 2) :: (cuts ++ [dim.x / 2])).Pairwise (· < ·))
    (hxo : ∀ t ∈ -(dim.x / 2) :: (cuts ++ [dim.x / 2]), p.x ≠ t) (hy : |p.y| ≠ dim.y / 2) (hz : |p.z| ≠ dim.z / 2) :
    chainSum (fun a b => cuboidB ⟨b - a, dim.y, dim.z⟩ pol (p - ⟨(a + b) / 2, 0, 0⟩)) (-(dim.x / 2))
      (cuts ++ [dim.x / 2]) = cuboidB dim pol p :=
  CuboidSplit.cuboid_split_x_list dim pol p cuts hdy hdz hp hxo hy hz

/-- C13 (Cuboid, grid partition): interior cut positions `xs`, `ys`, `zs` per axis (each list strictly increasing and
strictly between the two faces; any may be empty); the `(|xs|+1)(|ys|+1)(|zs|+1)` cells — Cuboids of side lengths
`(xb − xa, yb − ya, zb − za)` with the same polarization, evaluated at the observer shifted by the cell centre — sum to
the whole Cuboid, for every observer in none of the grid planes (faces included): outside, or inside any cell. -/
theorem cuboid_grid_partition (dim pol p : V3 ℝ) (xs ys zs : List ℝ)
    (hxp : (-(dim.x / 2) :: (xs ++ [dim.x / 2])).Pairwise (· < ·))
    (hyp : (-(dim.y / 2) :: (ys ++ [dim.y / 2])).Pairwise (· < ·))
    (hzp : (-(dim.z / 2) :: (zs ++ [dim.z / 2])).Pairwise (· < ·))
    (hxo : ∀ t ∈ -(dim.x / 2) :: (xs ++ [dim.x / 2]), p.x ≠ t)
    (hyo : ∀ t ∈ -(dim.y / 2) :: (ys ++ [dim.y / 2]), p.y ≠ t)
    (hzo : ∀ t ∈ -(dim.z / 2) :: (zs ++ [dim.z / 2]), p.z ≠ t) :
    chainSum (fun xa xb => chainSum (fun ya yb => chainSum (fun za zb =>
        cuboidB ⟨xb - xa, yb - ya, zb - za⟩ pol (p - ⟨(xa + xb) / 2, (ya + yb) / 2, (za + zb) / 2⟩))
        (-(dim.z / 2)) (zs ++ [dim.z / 2])) (-(dim.y / 2)) (ys ++ [dim.y / 2])) (-(dim.x / 2)) (xs ++ [dim.x / 2]) =
      cuboidB dim pol p :=
  CuboidSplit.cuboid_grid_partition dim pol p xs ys zs hxp hyp hzp hxo hyo hzo

-- non-vacuity: what `chainSum` is (three slabs: two cuts), and a 3 × 2 × 1 grid of the 2×2×2 cuboid (cuts x = −1/2, 1/4;
-- y = 0; none in z) with an observer inside the cell [1/4, 1] × [0, 1] × [−1, 1]
example (f : ℝ → ℝ → V3 ℝ) (a b c d : ℝ) : chainSum f a [b, c, d] = f a b + (f b c + (f c d + ⟨0, 0, 0⟩)) := rfl
example :
    chainSum (fun xa xb => chainSum (fun ya yb => chainSum (fun za zb =>
        cuboidB ⟨xb - xa, yb - ya, zb - za⟩ ⟨0, 0, 1⟩
          ((⟨1 / 2, 1 / 3, -1 / 4⟩ : V3 ℝ) - ⟨(xa + xb) / 2, (ya + yb) / 2, (za + zb) / 2⟩))
        (-(2 / 2)) ([] ++ [2 / 2])) (-(2 / 2)) ([0] ++ [2 / 2])) (-(2 / 2)) ([-1 / 2, 1 / 4] ++ [2 / 2]) =
      cuboidB (⟨2, 2, 2⟩ : V3 ℝ) ⟨0, 0, 1⟩ ⟨1 / 2, 1 / 3, -1 / 4⟩ := by
  apply cuboid_grid_partition (⟨2, 2, 2⟩ : V3 ℝ) ⟨0, 0, 1⟩ ⟨1 / 2, 1 / 3, -1 / 4⟩ [-1 / 2, 1 / 4] [0] [] <;>
    simp <;> norm_num

/-- C13 (Cuboid wrapper, grid partition, all four fields): the cells of any axis-parallel grid sum to the whole for
`BHJM_magnet_cuboid` itself — B, H, J, M, every polarization — when the observer keeps, along each axis, the distance
`1e-15 · dim_i/2` (the whole body's shell half-width, which bounds the shell of every cell and every merged slab) from
every grid plane of that axis, faces included. -/
theorem cuboid_grid_partition_wrapper (f : Field) (dim pol p : V3 ℝ) (xs ys zs : List ℝ)
    (hxp : (-(dim.x / 2) :: (xs ++ [dim.x / 2])).Pairwise (· < ·))
    (hyp : (-(dim.y / 2) :: (ys ++ [dim.y / 2])).Pairwise (· < ·))
    (hzp : (-(dim.z / 2) :: (zs ++ [dim.z / 2])).Pairwise (· < ·))
    (hxo : ∀ t ∈ -(dim.x / 2) :: (xs ++ [dim.x / 2]), rtol * (dim.x / 2) ≤ |p.x - t|)
    (hyo : ∀ t ∈ -(dim.y / 2) :: (ys ++ [dim.y / 2]), rtol * (dim.y / 2) ≤ |p.y - t|)
    (hzo : ∀ t ∈ -(dim.z / 2) :: (zs ++ [dim.z / 2]), rtol * (dim.z / 2) ≤ |p.z - t|) :
    chainSum (fun xa xb => chainSum (fun ya yb => chainSum (fun za zb =>
        bhjmCuboid f ⟨xb - xa, yb - ya, zb - za⟩ pol (p - ⟨(xa + xb) / 2, (ya + yb) / 2, (za + zb) / 2⟩))
        (-(dim.z / 2)) (zs ++ [dim.z / 2])) (-(dim.y / 2)) (ys ++ [dim.y / 2])) (-(dim.x / 2)) (xs ++ [dim.x / 2]) =
      bhjmCuboid f dim pol p :=
  CuboidSplit.cuboid_grid_partition_wrapper f dim pol p xs ys zs hxp hyp hzp hxo hyo hzo

-- non-vacuity: the same 3 × 2 × 1 grid and inside observer, field H
example :
    chainSum (fun xa xb => chainSum (fun ya yb => chainSum (fun za zb =>
        bhjmCuboid .H ⟨xb - xa, yb - ya, zb - za⟩ ⟨0, 0, 1⟩
          ((⟨1 / 2, 1 / 3, -1 / 4⟩ : V3 ℝ) - ⟨(xa + xb) / 2, (ya + yb) / 2, (za + zb) / 2⟩))
        (-(2 / 2)) ([] ++ [2 / 2])) (-(2 / 2)) ([0] ++ [2 / 2])) (-(2 / 2)) ([-1 / 2, 1 / 4] ++ [2 / 2]) =
      bhjmCuboid .H (⟨2, 2, 2⟩ : V3 ℝ) ⟨0, 0, 1⟩ ⟨1 / 2, 1 / 3, -1 / 4⟩ := by
  apply cuboid_grid_partition_wrapper .H (⟨2, 2, 2⟩ : V3 ℝ) ⟨0, 0, 1⟩ ⟨1 / 2, 1 / 3, -1 / 4⟩ [-1 / 2, 1 / 4] [0] [] <;>
    simp [rtol] <;> norm_num [abs_of_pos, abs_of_neg]

end MagpyVerif.C13
