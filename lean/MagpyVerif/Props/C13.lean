/-
Props/C13.lean — a body gives the same field however it is represented or subdivided.
Proved: Sphere (outside) = Dipole with moment J·V/μ₀; TriangularMesh / Tetrahedron are by
construction the sum of their triangle sheets plus the inside term (wrapper `wrapH`, C02); a
straight current segment may be subdivided at any point of its carrier line, and reversing it
negates the field (both from the Biot–Savart integral representation, Lemmas/SegmentBS.lean).
A Cuboid cut by axis-parallel planes (one cut, a list of cuts along one axis, a full n×m×k grid) is the
sum of its parts with the same polarization — `cuboid_split_x/y/z`, `cuboid_split_x_list`,
`cuboid_grid_partition` for the kernel `cuboidB`, `cuboid_split_wrapper_x/y/z` and
`cuboid_grid_partition_wrapper` for all four fields of `bhjmCuboid` (via the surface-charge integral of C01, Lemmas/CuboidSplit.lean).
TriangularMesh.from_mesh / from_triangles (the `np.unique` glue, Model/MeshUnique.lean) give back the soup (`from_mesh_roundtrip`,
`from_mesh_preserves_field`), to_TriangleCollection is the sheet sum without the inside term; meshes and Tetrahedra glued along
shared walls add up (`trimesh_glue_additive`, `tetra_pair_glue`, `tetra_list_glue`); a Triangle cut through a point of an edge:
everything but the solid angle (`triangle_split_additive_partial`).
/- FULL: Cuboid = its mesh = its tetrahedra; Cylinder = full-angle segment = sum of segments;
   partition additivity of Cylinder / CylinderSegment / Sphere, of meshes cut through the interior of faces; Polyline → Circle.
   These equate different closed forms (each equivalent to C01 for both sides) and are not shown by theorem; the
   whole-vs-parts oracle checks them on the real code. -/
-/
import MagpyVerif.Lemmas.KernCylSeg
import MagpyVerif.Lemmas.KernCylSegScale
import MagpyVerif.Lemmas.KernReal
import MagpyVerif.Lemmas.KernelLiterals
import MagpyVerif.Lemmas.KernAlgebra
import MagpyVerif.Lemmas.SegmentBS
import MagpyVerif.Lemmas.TrimeshSum
import MagpyVerif.Lemmas.CuboidSplit
import MagpyVerif.Lemmas.MeshUnique
import MagpyVerif.Lemmas.TrimeshGlue
import MagpyVerif.Lemmas.TriangleSplit
import MagpyVerif.Lemmas.SolidAngle
namespace MagpyVerif.C13
open MagpyVerif MagpyVerif.Kern

/-- C13: outside the ball a homogeneously polarised Sphere is a Dipole with moment J·V/μ₀ -/
theorem sphere_outside_eq_dipole (d : ℝ) (pol x : V3 ℝ) (hout : |d| / 2 < Kern.norm x) :
    bhjmSphere .H d pol x =
      dipoleH (vs (4 / 3 * Real.pi * (|d| / 2) ^ 3 / mu0R) pol) x := by
  have hr : 0 < Kern.norm x := lt_of_le_of_lt (by positivity) hout
  have hr' : Kern.norm x ≠ 0 := hr.ne'
  have hmu : mu0R ≠ 0 := mu0R_pos.ne'
  have hpi : Real.pi ≠ 0 := Real.pi_ne_zero
  have hsq := norm_sq x
  simp only [bhjmSphere, dipoleH, lt_real, abs_real, n, ofNat_real, Nat.cast_ofNat, hout, decide_true, if_true, mu0_real]
  generalize Kern.norm x = r at *
  apply V3.ext' <;> simp [vs, vd, V3.dot] <;> field_simp <;> ring

-- non-vacuity (audit): diameter 2, observer (0, 0, 2) is outside
example : |(2 : ℝ)| / 2 < Kern.norm (⟨0, 0, 2⟩ : V3 ℝ) := by
  have h : Kern.norm (⟨0, 0, 2⟩ : V3 ℝ) = 2 := by
    simp only [Kern.norm, sqrt_real]
    rw [show (0:ℝ) * 0 + 0 * 0 + 2 * 2 = 2 * 2 by ring, Real.sqrt_mul_self (by norm_num)]
  rw [h]; norm_num


/-- TriangularMesh and Tetrahedron report the sum of their triangle sheets as μ₀H and add the
polarization inside for B (the `wrapH` dispatch): H of the body = H of the closed set of sheets -/
theorem mesh_H_is_sum_of_sheets (inside : Bool) (pol sheets : V3 ℝ) :
    wrapH .H inside pol sheets = vd sheets mu0R ∧
    wrapH .B inside pol sheets = sheets + (if inside then pol else zero3) := ⟨rfl, rfl⟩

/-- (added by the audit) `mesh_H_is_sum_of_sheets` above is `⟨rfl, rfl⟩` about the dispatch function `wrapH`, which the mesh model
does not even call.  This is the statement about the model that the driver runs (`Kern.bhjmTrimesh`, `trimesh` streams): for
every batch, every row's output is `wrapH` of the sum of ITS triangle sheets with ITS inside verdict — i.e. μ₀H of a
TriangularMesh is the sum over its Triangle sheets, B adds the polarization inside (inside test as a parameter). -/
theorem trimesh_row_is_wrapH_of_sheets {M : Type} (f : Field) (meshId : MeshRow ℝ → M) (inside : M → V3 ℝ → Bool)
    (r : MeshRow ℝ) :
    bhjmTrimeshRow f meshId inside r = wrapH f (inside (meshId r) r.obs) r.pol (meshRowSheets r) := by
  have h0 : (⟨0, 0, 0⟩ : V3 ℝ) + r.pol = r.pol := by apply V3.ext' <;> simp
  have h1 : meshRowSheets r + (⟨0, 0, 0⟩ : V3 ℝ) = meshRowSheets r := by apply V3.ext' <;> simp
  cases f <;> cases h : inside (meshId r) r.obs <;>
    simp [bhjmTrimeshRow, wrapH, h, zero3, n, h0, h1]

theorem trimesh_is_wrapH_of_sheets {M : Type} [DecidableEq M] (f : Field) (meshId : MeshRow ℝ → M)
    (inside : M → V3 ℝ → Bool) (rows : List (MeshRow ℝ)) :
    bhjmTrimesh f meshId inside rows =
      rows.map fun r => wrapH f (inside (meshId r) r.obs) r.pol (meshRowSheets r) := by
  rw [bhjmTrimesh_rowwise]
  exact List.map_congr_left fun r _ => trimesh_row_is_wrapH_of_sheets f meshId inside r


/-- `point_inside` of the Tetrahedron gives the same answer for either order of the last two
vertices (the barycentric coordinates `(λ1, λ2, λ3)` become `(λ1, λ3, λ2)`): the body is the same
set however its vertices are listed -/
-- (audit) for coplanar vertices (det = 0) the inside test answers "outside" everywhere (repo fix 657dea6: `regular = det != 0`;
-- before it the real-number model divided by 0 and answered "inside" everywhere); witness:
example : tetraInside (⟨0,0,0⟩ : V3 ℝ) ⟨1,0,0⟩ ⟨2,0,0⟩ ⟨3,0,0⟩ ⟨5,5,5⟩ = false := by simp [tetraInside, det3, n]
theorem tetraInside_swap_invariant (v0 v1 v2 v3 x : V3 ℝ) :
    tetraInside v0 v1 v3 v2 x = tetraInside v0 v1 v2 v3 x :=
  tetraInside_swap mu0R v0 v1 v2 v3 x

/-- hence the inside set used by the B branch of `BHJM_magnet_tetrahedron` (after
`check_chirality`) is the inside set used by its J and M branches (vertices as given) -/
theorem tetraInside_after_chirality (v0 v1 v2 v3 x : V3 ℝ) :
    tetraInside (tetraChirality v0 v1 v2 v3).1 (tetraChirality v0 v1 v2 v3).2.1
      (tetraChirality v0 v1 v2 v3).2.2.1 (tetraChirality v0 v1 v2 v3).2.2.2 x = tetraInside v0 v1 v2 v3 x :=
  tetraInside_chirality mu0R v0 v1 v2 v3 x

/-- C13 (Tetrahedron): `BHJM_magnet_tetrahedron` **is** the `wrapH` dispatch applied to the sum
of the `triangle_Bfield`s of its four faces `(0,2,1), (0,1,3), (1,2,3), (0,3,2)` of the
chirality-fixed vertices, with the barycentric inside test of the vertices as given — for all four
outputs.  (For H the code divides each sheet by μ₀ before summing; for B it tests inside on the
fixed vertices: both rewritten here.)  So a Tetrahedron and the closed set of its four Triangle
sheets have the same H everywhere, and B differs by the polarization inside. -/
theorem tetra_is_wrapH_of_four_sheets (f : Field) (v0 v1 v2 v3 pol x : V3 ℝ) :
    bhjmTetra f v0 v1 v2 v3 pol x =
      wrapH f (tetraInside v0 v1 v2 v3 x) pol
        (triangleB (tetraChirality v0 v1 v2 v3).1 (tetraChirality v0 v1 v2 v3).2.2.1 (tetraChirality v0 v1 v2 v3).2.1 pol x +
          triangleB (tetraChirality v0 v1 v2 v3).1 (tetraChirality v0 v1 v2 v3).2.1 (tetraChirality v0 v1 v2 v3).2.2.2 pol x +
          triangleB (tetraChirality v0 v1 v2 v3).2.1 (tetraChirality v0 v1 v2 v3).2.2.1 (tetraChirality v0 v1 v2 v3).2.2.2 pol x +
          triangleB (tetraChirality v0 v1 v2 v3).1 (tetraChirality v0 v1 v2 v3).2.2.2 (tetraChirality v0 v1 v2 v3).2.2.1 pol x) :=
  tetra_wrapH' mu0R f v0 v1 v2 v3 pol x

-- non-vacuity: a left-handed vertex order (the swap is performed) and an inside observer
example : tetraChirality (⟨0, 0, 0⟩ : V3 ℝ) ⟨1, 0, 0⟩ ⟨0, 0, 1⟩ ⟨0, 1, 0⟩ =
      (⟨0, 0, 0⟩, ⟨1, 0, 0⟩, ⟨0, 1, 0⟩, ⟨0, 0, 1⟩) ∧
    tetraInside (⟨0, 0, 0⟩ : V3 ℝ) ⟨1, 0, 0⟩ ⟨0, 0, 1⟩ ⟨0, 1, 0⟩ ⟨1 / 4, 1 / 4, 1 / 4⟩ = true := by
  constructor
  · simp [tetraChirality, det3, n]
  · simp [tetraInside, det3, n]
    norm_num

/-- C13 (Polyline): subdividing a straight segment p1→p2 at the collinear point
`p3 = p1 + τ (p2 − p1)` (any τ ≠ 0, 1 — for τ outside [0,1] the second piece runs backwards)
does not change the field: `segmentH` of the two pieces adds up to `segmentH` of the whole, for
every observer off the carrier line.  A Polyline with an extra collinear vertex is the same source. -/
theorem polyline_split_additive (cur τ : ℝ) (p1 p2 po : V3 ℝ) (hτ0 : τ ≠ 0) (hτ1 : τ ≠ 1)
    (hoff : 0 < SegBS.nsq (V3.cross (p2 - p1) (po - p1))) :
    segmentH cur p1 (SegBS.lerp p1 p2 τ) po + segmentH cur (SegBS.lerp p1 p2 τ) p2 po = segmentH cur p1 p2 po :=
  SegBS.segment_split p1 p2 po cur τ hτ0 hτ1 hoff

/-- C13 (Polyline): traversing a segment in the opposite direction negates its field -/
theorem polyline_reverse_negates (cur : ℝ) (p1 p2 po : V3 ℝ)
    (hoff : 0 < SegBS.nsq (V3.cross (p2 - p1) (po - p1))) :
    segmentH cur p2 p1 po = vs (-1) (segmentH cur p1 p2 po) :=
  SegBS.segment_reverse p1 p2 po cur hoff

-- non-vacuity: midpoint split of a unit segment along x, observer at (1/2, 1, 0)
example : (1/2 : ℝ) ≠ 0 ∧ (1/2 : ℝ) ≠ 1 ∧
    0 < SegBS.nsq (V3.cross ((⟨1, 0, 0⟩ : V3 ℝ) - ⟨0, 0, 0⟩) (⟨1/2, 1, 0⟩ - ⟨0, 0, 0⟩)) := by
  refine ⟨by norm_num, by norm_num, ?_⟩
  simp [SegBS.nsq, V3.cross]

end MagpyVerif.C13

/-! ### CylinderSegment with a full 360° range -/
namespace MagpyVerif.C13
open MagpyVerif MagpyVerif.Kern MagpyVerif.Kern.CylSeg

/-- C13 (CylinderSegment ↔ Cylinder): when the section angles span 360° or more, the ported
`BHJM_cylinder_segment_internal` returns Cylinder(diameter 2·r2, height h) minus — for a hollow ring, `r1 ≠ 0` —
Cylinder(diameter 2·r1, height h), for every field and observer; the segment formulas are not evaluated.
(`none`: a `cel0` call of the Cylinder kernel failed.) -/
-- (audit) `full_ring_is_cylinder_difference` / `partial_ring_is_segment` unfold the `if` of `BHJM_cylinder_segment_internal`
-- (`none = none` included): they say that the object-oriented wrapper BYPASSES the segment formulas at 360°, not that the
-- segment closed form at 360° equals the Cylinder closed form (that identity between closed forms is oracle only).
theorem full_ring_is_cylinder_difference (μ : ℝ) (S : SegSpecial) (fuel : Nat) (f : Field) (x : V3 ℝ)
    (r1 r2 h p1 p2 : ℝ) (pol : V3 ℝ) (hfull : 360 ≤ p2 - p1) :
    @bhjmCylSegInternal ℝ (realNumX μ S) fuel f x r1 r2 h p1 p2 pol =
      (@bhjmCylinder ℝ (realNum μ) fuel f (2 * r2, h) pol x).bind fun outer =>
        if r1 ≠ 0 then (@bhjmCylinder ℝ (realNum μ) fuel f (2 * r1, h) pol x).map fun inner => outer - inner
        else some outer :=
  internal_full_ring μ S fuel f x r1 r2 h p1 p2 pol hfull

/-- below 360° the internal wrapper is the segment solution -/
theorem partial_ring_is_segment (μ : ℝ) (S : SegSpecial) (fuel : Nat) (f : Field) (x : V3 ℝ)
    (r1 r2 h p1 p2 : ℝ) (pol : V3 ℝ) (hseg : p2 - p1 < 360) :
    @bhjmCylSegInternal ℝ (realNumX μ S) fuel f x r1 r2 h p1 p2 pol =
      @bhjmCylSeg ℝ (realNumX μ S) f x r1 r2 h p1 p2 pol :=
  internal_segment μ S fuel f x r1 r2 h p1 p2 pol hseg

-- non-vacuity: both hypotheses are satisfiable
example : (360 : ℝ) ≤ 360 - 0 ∧ (90 : ℝ) - 0 < 360 := by norm_num

end MagpyVerif.C13

namespace MagpyVerif.C13
open MagpyVerif MagpyVerif.Kern MagpyVerif.Kern.CylSeg

/-- C13 (angle representation): the helper `arctan_k_tan_2` of the CylinderSegment case functions continues
arctan(k·tan(φ/2)) periodically — describing the same angle one full turn further adds exactly π, for every k and
every φ, including the odd multiples of π where `np.round` meets a tie (ties-to-even: the number of full periods
then jumps by 0 or 2, and both values come from the `phi_red / 2` branch) -/
-- (audit) helper only: no theorem derives `bhjmCylSeg … (φ₁+360) (φ₂+360) = bhjmCylSeg … φ₁ φ₂` from it
theorem arctan_k_tan_2_periodic_continuation (μ : ℝ) (S : SegSpecial) (k φ : ℝ) :
    @arctan_k_tan_2 ℝ (realNumX μ S) k (φ + 2 * Real.pi) = @arctan_k_tan_2 ℝ (realNumX μ S) k φ + Real.pi :=
  arctan_k_tan_2_add_two_pi μ S k φ

end MagpyVerif.C13

/-! ### CylinderSegment: the range written one turn further; periodic continuation inside the case functions -/
namespace MagpyVerif.C13
open MagpyVerif MagpyVerif.Kern MagpyVerif.Kern.CylSeg

/- FULL: `bhjmCylSeg f x r1 r2 h (p1 + 360) (p2 + 360) pol = bhjmCylSeg f x r1 r2 h p1 p2 pol` for all ranges.  Not shown for
ranges that end at `p2 ≤ 0` (e.g. [−90°, −30°] against [270°, 330°]) or that are longer than a turn and start below −360°:
there the prologue keeps two different representatives (they differ by 2π), and equality of the fields would need the
quasi-periodicity of the incomplete elliptic integrals in their amplitude (`cylseg_full_turn_acts_on_amplitudes` shows that this
is the only place a full turn enters), which the opaque special functions do not provide; left to the whole-vs-parts and
angle-turns oracle. -/
/-- C13 (CylinderSegment): a range that ends at a positive angle and either reaches beyond 360° or starts at −360° or later
gives literally the same normalised row when both section angles are written 360° further (`turns` of the prologue goes up by
exactly one), hence the same B, H, J, M at every observer -/
theorem cylseg_angles_plus_360_partial (μ : ℝ) (S : SegSpecial) (f : Field) (x : V3 ℝ) (r1 r2 h p1 p2 : ℝ) (pol : V3 ℝ)
    (hp2 : 0 < p2) (hcase : 360 < p2 ∨ -360 ≤ p1) :
    @bhjmCylSeg ℝ (realNumX μ S) f x r1 r2 h (p1 + 360) (p2 + 360) pol =
      @bhjmCylSeg ℝ (realNumX μ S) f x r1 r2 h p1 p2 pol :=
  bhjmCylSeg_add_360 μ S f x r1 r2 h p1 p2 pol hp2 hcase

-- non-vacuity: [30°, 120°] against [390°, 480°]
example (μ : ℝ) (S : SegSpecial) (pol : V3 ℝ) :
    @bhjmCylSeg ℝ (realNumX μ S) .B ⟨3, 4, 5⟩ 1 2 3 (30 + 360) (120 + 360) pol =
      @bhjmCylSeg ℝ (realNumX μ S) .B ⟨3, 4, 5⟩ 1 2 3 30 120 pol :=
  cylseg_angles_plus_360_partial μ S .B _ 1 2 3 30 120 pol (by norm_num) (Or.inr (by norm_num))

/-- `arctan_k_tan_2_periodic_continuation` inside the case functions, explicit part: the two functions that use
`arctan_k_tan_2 k (2·phi_bar_j)` outside a special function gain `π cos θ_M sign(z_bar_k)` per half turn of the azimuthal
difference, and `Hr_zk_case233` (one such term with coefficient −c, two terms `arctan_k_tan_2 k± phi_bar_j` with +c) is
exactly 2π-periodic -/
theorem cylseg_arctan_continuation_explicit (μ : ℝ) (S : SegSpecial) (r pbj θ zb : ℝ) :
    @Hz_zk_case223 ℝ (realNumX μ S) r (pbj + Real.pi) θ zb =
      @Hz_zk_case223 ℝ (realNumX μ S) r pbj θ zb + Real.cos θ * sgnR zb * Real.pi ∧
    @Hz_zk_case233 ℝ (realNumX μ S) r (pbj + Real.pi) θ zb =
      @Hz_zk_case233 ℝ (realNumX μ S) r pbj θ zb + Real.cos θ * sgnR zb * Real.pi ∧
    @Hr_zk_case233 ℝ (realNumX μ S) r (pbj + 2 * Real.pi) θ zb = @Hr_zk_case233 ℝ (realNumX μ S) r pbj θ zb :=
  ⟨Hz_zk_case223_add_pi μ S r pbj θ zb, Hz_zk_case233_add_pi μ S r pbj θ zb, Hr_zk_case233_add_two_pi μ S r pbj θ zb⟩

/-- … and inside the incomplete integrals: in `Hr_zk_case234` and `Hr_zk_case235` a full turn of `phi_bar_j` is the same as
shifting the amplitude argument of `ellipkinc`, `ellipeinc`, `el3_angle` by π (`S.shiftPi`): `phi_bar_j / 2` and
`arctan_k_tan_2 k phi_bar_j` both gain exactly π, everything else is `sin` / `cos` of `phi_bar_j` -/
theorem cylseg_full_turn_acts_on_amplitudes (μ : ℝ) (S : SegSpecial) (r ri rb pbj θ zb : ℝ) :
    @Hr_zk_case234 ℝ (realNumX μ S) r (pbj + 2 * Real.pi) θ zb = @Hr_zk_case234 ℝ (realNumX μ S.shiftPi) r pbj θ zb ∧
    @Hr_zk_case235 ℝ (realNumX μ S) r ri rb (pbj + 2 * Real.pi) θ zb =
      @Hr_zk_case235 ℝ (realNumX μ S.shiftPi) r ri rb pbj θ zb :=
  ⟨Hr_zk_case234_add_two_pi μ S r pbj θ zb, Hr_zk_case235_add_two_pi μ S r ri rb pbj θ zb⟩

end MagpyVerif.C13

/-! ### Cuboid: the whole is the sum of the Cuboids it is cut into (Lemmas/CuboidSplit.lean)

The kernel `cuboidB` (port of `magnet_cuboid_Bfield`) and the wrapper `bhjmCuboid` are centred at the origin; a part
with centre `c` contributes its value at the shifted observer `p − c` (what `getB` does with `position=c`, no rotation).
Route: C01 (`cuboid_is_coulomb_integral`) turns each of the three bodies into `1/(4π) Σ_faces ± J·n ∫∫ (p−q)/|p−q|³ dA`
plus `J` inside; every face integral is evaluated (`faceX_x … faceZ_z`) as a second difference over the corners of the
face; the four faces parallel to the cut axis are additive in the cut range, the two internal faces at the cut carry
opposite charges over the same rectangle and cancel, each outer face belongs to one part, and off the cut plane the
observer is inside the whole iff it is inside exactly one part. -/
namespace MagpyVerif.C13
open MagpyVerif MagpyVerif.Kern MagpyVerif.CuboidCoulomb MagpyVerif.CuboidSplit

/-- C13 (Cuboid, cut ⟂ x): side lengths `dim > 0`, cut plane `x = t` strictly between the faces; left part of size
`(t + dim.x/2, dim.y, dim.z)` centred at `((t − dim.x/2)/2, 0, 0)`, right part of size `(dim.x/2 − t, dim.y, dim.z)` centred
at `((t + dim.x/2)/2, 0, 0)`, same polarization; every observer off the seven planes `x = ±dim.x/2`, `x = t`,
`|y| = dim.y/2`, `|z| = dim.z/2` — outside, inside either part, any octant. -/
theorem cuboid_split_x (dim pol p : V3 ℝ) (t : ℝ) (hdx : 0 < dim.x) (hdy : 0 < dim.y) (hdz : 0 < dim.z)
    (ht1 : -(dim.x / 2) < t) (ht2 : t < dim.x / 2)
    (hx : |p.x| ≠ dim.x / 2) (hxt : p.x ≠ t) (hy : |p.y| ≠ dim.y / 2) (hz : |p.z| ≠ dim.z / 2) :
    cuboidB dim pol p =
      cuboidB ⟨t + dim.x / 2, dim.y, dim.z⟩ pol (p - ⟨(t - dim.x / 2) / 2, 0, 0⟩) +
      cuboidB ⟨dim.x / 2 - t, dim.y, dim.z⟩ pol (p - ⟨(t + dim.x / 2) / 2, 0, 0⟩) :=
  CuboidSplit.cuboid_split_x dim pol p t hdx hdy hdz ht1 ht2 hx hxt hy hz

/-- C13 (Cuboid, cut ⟂ y) -/
theorem cuboid_split_y (dim pol p : V3 ℝ) (t : ℝ) (hdx : 0 < dim.x) (hdy : 0 < dim.y) (hdz : 0 < dim.z)
    (ht1 : -(dim.y / 2) < t) (ht2 : t < dim.y / 2)
    (hx : |p.x| ≠ dim.x / 2) (hy : |p.y| ≠ dim.y / 2) (hyt : p.y ≠ t) (hz : |p.z| ≠ dim.z / 2) :
    cuboidB dim pol p =
      cuboidB ⟨dim.x, t + dim.y / 2, dim.z⟩ pol (p - ⟨0, (t - dim.y / 2) / 2, 0⟩) +
      cuboidB ⟨dim.x, dim.y / 2 - t, dim.z⟩ pol (p - ⟨0, (t + dim.y / 2) / 2, 0⟩) :=
  CuboidSplit.cuboid_split_y dim pol p t hdx hdy hdz ht1 ht2 hx hy hyt hz

/-- C13 (Cuboid, cut ⟂ z) -/
theorem cuboid_split_z (dim pol p : V3 ℝ) (t : ℝ) (hdx : 0 < dim.x) (hdy : 0 < dim.y) (hdz : 0 < dim.z)
    (ht1 : -(dim.z / 2) < t) (ht2 : t < dim.z / 2)
    (hx : |p.x| ≠ dim.x / 2) (hy : |p.y| ≠ dim.y / 2) (hz : |p.z| ≠ dim.z / 2) (hzt : p.z ≠ t) :
    cuboidB dim pol p =
      cuboidB ⟨dim.x, dim.y, t + dim.z / 2⟩ pol (p - ⟨0, 0, (t - dim.z / 2) / 2⟩) +
      cuboidB ⟨dim.x, dim.y, dim.z / 2 - t⟩ pol (p - ⟨0, 0, (t + dim.z / 2) / 2⟩) :=
  CuboidSplit.cuboid_split_z dim pol p t hdx hdy hdz ht1 ht2 hx hy hz hzt

-- non-vacuity: a 2×2×2 cuboid cut at x = 1/2 (parts 3/2 and 1/2 wide); an observer outside in another octant, one inside
-- the left part, one inside the right part
example : cuboidB (⟨2, 2, 2⟩ : V3 ℝ) ⟨0, 0, 1⟩ ⟨-3, 1 / 2, 5⟩ =
    cuboidB ⟨1 / 2 + 2 / 2, 2, 2⟩ ⟨0, 0, 1⟩ (⟨-3, 1 / 2, 5⟩ - ⟨(1 / 2 - 2 / 2) / 2, 0, 0⟩) +
    cuboidB ⟨2 / 2 - 1 / 2, 2, 2⟩ ⟨0, 0, 1⟩ (⟨-3, 1 / 2, 5⟩ - ⟨(1 / 2 + 2 / 2) / 2, 0, 0⟩) := by
  apply cuboid_split_x (⟨2, 2, 2⟩ : V3 ℝ) ⟨0, 0, 1⟩ ⟨-3, 1 / 2, 5⟩ (1 / 2) <;> norm_num [abs_of_pos, abs_of_neg]
example : cuboidB (⟨2, 2, 2⟩ : V3 ℝ) ⟨0, 0, 1⟩ ⟨-1 / 4, 1 / 3, -1 / 4⟩ =
    cuboidB ⟨1 / 2 + 2 / 2, 2, 2⟩ ⟨0, 0, 1⟩ (⟨-1 / 4, 1 / 3, -1 / 4⟩ - ⟨(1 / 2 - 2 / 2) / 2, 0, 0⟩) +
    cuboidB ⟨2 / 2 - 1 / 2, 2, 2⟩ ⟨0, 0, 1⟩ (⟨-1 / 4, 1 / 3, -1 / 4⟩ - ⟨(1 / 2 + 2 / 2) / 2, 0, 0⟩) := by
  apply cuboid_split_x (⟨2, 2, 2⟩ : V3 ℝ) ⟨0, 0, 1⟩ ⟨-1 / 4, 1 / 3, -1 / 4⟩ (1 / 2) <;> norm_num [abs_of_pos, abs_of_neg]
example : cuboidB (⟨2, 2, 2⟩ : V3 ℝ) ⟨0, 0, 1⟩ ⟨3 / 4, 1 / 3, -1 / 4⟩ =
    cuboidB ⟨1 / 2 + 2 / 2, 2, 2⟩ ⟨0, 0, 1⟩ (⟨3 / 4, 1 / 3, -1 / 4⟩ - ⟨(1 / 2 - 2 / 2) / 2, 0, 0⟩) +
    cuboidB ⟨2 / 2 - 1 / 2, 2, 2⟩ ⟨0, 0, 1⟩ (⟨3 / 4, 1 / 3, -1 / 4⟩ - ⟨(1 / 2 + 2 / 2) / 2, 0, 0⟩) := by
  apply cuboid_split_x (⟨2, 2, 2⟩ : V3 ℝ) ⟨0, 0, 1⟩ ⟨3 / 4, 1 / 3, -1 / 4⟩ (1 / 2) <;> norm_num [abs_of_pos, abs_of_neg]

/-- C13 (Cuboid wrapper, cut ⟂ x): the same for `BHJM_magnet_cuboid` — masks, special cases, field selection — and for
**all four fields** B, H, J, M, every polarization (zero included), for observers outside the relative-1e-15 surface shells
of the three bodies (whole, left part, right part; the y- and z-shells are common to them).  Inside a shell the code
switches to its surface / edge special cases, whose values are conventions of the code, not of the partition. -/
theorem cuboid_split_wrapper_x (f : Field) (dim pol p : V3 ℝ) (t : ℝ) (hdy : 0 < dim.y) (hdz : 0 < dim.z)
    (ht1 : -(dim.x / 2) < t) (ht2 : t < dim.x / 2)
    (hx : rtol * (dim.x / 2) ≤ |(|p.x| - dim.x / 2)|) (hy : rtol * (dim.y / 2) ≤ |(|p.y| - dim.y / 2)|)
    (hz : rtol * (dim.z / 2) ≤ |(|p.z| - dim.z / 2)|)
    (hL : rtol * ((t + dim.x / 2) / 2) ≤ |(|p.x - (t - dim.x / 2) / 2| - (t + dim.x / 2) / 2)|)
    (hR : rtol * ((dim.x / 2 - t) / 2) ≤ |(|p.x - (t + dim.x / 2) / 2| - (dim.x / 2 - t) / 2)|) :
    bhjmCuboid f dim pol p =
      bhjmCuboid f ⟨t + dim.x / 2, dim.y, dim.z⟩ pol (p - ⟨(t - dim.x / 2) / 2, 0, 0⟩) +
      bhjmCuboid f ⟨dim.x / 2 - t, dim.y, dim.z⟩ pol (p - ⟨(t + dim.x / 2) / 2, 0, 0⟩) :=
  CuboidSplit.cuboid_split_wrapper_x dim pol p t hdy hdz f ht1 ht2 hx hy hz hL hR

/-- C13 (Cuboid wrapper, cut ⟂ y) -/
theorem cuboid_split_wrapper_y (f : Field) (dim pol p : V3 ℝ) (t : ℝ) (hdx : 0 < dim.x) (hdz : 0 < dim.z)
    (ht1 : -(dim.y / 2) < t) (ht2 : t < dim.y / 2)
    (hx : rtol * (dim.x / 2) ≤ |(|p.x| - dim.x / 2)|) (hy : rtol * (dim.y / 2) ≤ |(|p.y| - dim.y / 2)|)
    (hz : rtol * (dim.z / 2) ≤ |(|p.z| - dim.z / 2)|)
    (hL : rtol * ((t + dim.y / 2) / 2) ≤ |(|p.y - (t - dim.y / 2) / 2| - (t + dim.y / 2) / 2)|)
    (hR : rtol * ((dim.y / 2 - t) / 2) ≤ |(|p.y - (t + dim.y / 2) / 2| - (dim.y / 2 - t) / 2)|) :
    bhjmCuboid f dim pol p =
      bhjmCuboid f ⟨dim.x, t + dim.y / 2, dim.z⟩ pol (p - ⟨0, (t - dim.y / 2) / 2, 0⟩) +
      bhjmCuboid f ⟨dim.x, dim.y / 2 - t, dim.z⟩ pol (p - ⟨0, (t + dim.y / 2) / 2, 0⟩) :=
  CuboidSplit.cuboid_split_wrapper_y dim pol p t hdx hdz f ht1 ht2 hx hy hz hL hR

/-- C13 (Cuboid wrapper, cut ⟂ z) -/
theorem cuboid_split_wrapper_z (f : Field) (dim pol p : V3 ℝ) (t : ℝ) (hdx : 0 < dim.x) (hdy : 0 < dim.y)
    (ht1 : -(dim.z / 2) < t) (ht2 : t < dim.z / 2)
    (hx : rtol * (dim.x / 2) ≤ |(|p.x| - dim.x / 2)|) (hy : rtol * (dim.y / 2) ≤ |(|p.y| - dim.y / 2)|)
    (hz : rtol * (dim.z / 2) ≤ |(|p.z| - dim.z / 2)|)
    (hL : rtol * ((t + dim.z / 2) / 2) ≤ |(|p.z - (t - dim.z / 2) / 2| - (t + dim.z / 2) / 2)|)
    (hR : rtol * ((dim.z / 2 - t) / 2) ≤ |(|p.z - (t + dim.z / 2) / 2| - (dim.z / 2 - t) / 2)|) :
    bhjmCuboid f dim pol p =
      bhjmCuboid f ⟨dim.x, dim.y, t + dim.z / 2⟩ pol (p - ⟨0, 0, (t - dim.z / 2) / 2⟩) +
      bhjmCuboid f ⟨dim.x, dim.y, dim.z / 2 - t⟩ pol (p - ⟨0, 0, (t + dim.z / 2) / 2⟩) :=
  CuboidSplit.cuboid_split_wrapper_z dim pol p t hdx hdy f ht1 ht2 hx hy hz hL hR

-- non-vacuity: the 2×2×2 cuboid cut at x = 1/2, H at an observer inside the right part — all seven hypotheses hold
example : bhjmCuboid .H (⟨2, 2, 2⟩ : V3 ℝ) ⟨0, 0, 1⟩ ⟨3 / 4, 1 / 3, -1 / 4⟩ =
    bhjmCuboid .H ⟨1 / 2 + 2 / 2, 2, 2⟩ ⟨0, 0, 1⟩ (⟨3 / 4, 1 / 3, -1 / 4⟩ - ⟨(1 / 2 - 2 / 2) / 2, 0, 0⟩) +
    bhjmCuboid .H ⟨2 / 2 - 1 / 2, 2, 2⟩ ⟨0, 0, 1⟩ (⟨3 / 4, 1 / 3, -1 / 4⟩ - ⟨(1 / 2 + 2 / 2) / 2, 0, 0⟩) := by
  apply cuboid_split_wrapper_x .H (⟨2, 2, 2⟩ : V3 ℝ) ⟨0, 0, 1⟩ ⟨3 / 4, 1 / 3, -1 / 4⟩ (1 / 2) <;>
    (try unfold rtol) <;> norm_num [abs_of_pos, abs_of_neg]

-- the shell hypotheses `hL`, `hR` are necessary: for an observer ON the cut plane (inside the whole) both parts count it as
-- inside (the wrapper's inside mask is the closed body), so the parts' J adds up to 2·J — the real code does the same
-- (getJ: [0.3, −0.2, 1] for the whole, [0.6, −0.4, 2] for the two parts; H and M likewise, B differs by the tangential J)
example : bhjmCuboid .J (⟨2, 2, 2⟩ : V3 ℝ) ⟨0, 0, 1⟩ ⟨1 / 2, 1 / 3, -1 / 4⟩ ≠
    bhjmCuboid .J ⟨1 / 2 + 2 / 2, 2, 2⟩ ⟨0, 0, 1⟩ (⟨1 / 2, 1 / 3, -1 / 4⟩ - ⟨(1 / 2 - 2 / 2) / 2, 0, 0⟩) +
    bhjmCuboid .J ⟨2 / 2 - 1 / 2, 2, 2⟩ ⟨0, 0, 1⟩ (⟨1 / 2, 1 / 3, -1 / 4⟩ - ⟨(1 / 2 + 2 / 2) / 2, 0, 0⟩) := by
  intro h
  have hz := congrArg V3.z h
  simp [bhjmCuboid, wrapB, cuboidMasks, n, zero3] at hz
  norm_num [abs_of_pos, abs_of_neg] at hz

/-- C13 (Cuboid, many cuts ⟂ x): cut positions `cuts` strictly increasing and strictly between the faces (the list
`−dim.x/2 :: cuts ++ [dim.x/2]` is strictly increasing; `cuts` may be empty); the slabs between consecutive planes,
each a Cuboid of width `b − a` evaluated at the observer shifted by its centre `((a + b)/2, 0, 0)`, sum to the whole
(`chainSum f t0 [t1, …, tn] = f t0 t1 + f t1 t2 + … + f t(n−1) tn`). -/
theorem cuboid_split_x_list (dim pol p : V3 ℝ) (cuts : List ℝ) (hdy : 0 < dim.y) (hdz : 0 < dim.z)
    (hp : (-(dim.x / 2) :: (cuts ++ [dim.x / 2])).Pairwise (· < ·))
    (hxo : ∀ t ∈ -(dim.x / 2) :: (cuts ++ [dim.x / 2]), p.x ≠ t) (hy : |p.y| ≠ dim.y / 2) (hz : |p.z| ≠ dim.z / 2) :
    chainSum (fun a b => cuboidB ⟨b - a, dim.y, dim.z⟩ pol (p - ⟨(a + b) / 2, 0, 0⟩)) (-(dim.x / 2))
      (cuts ++ [dim.x / 2]) = cuboidB dim pol p :=
  CuboidSplit.cuboid_split_x_list dim pol p cuts hdy hdz hp hxo hy hz

/-- C13 (Cuboid, grid partition): interior cut positions `xs`, `ys`, `zs` per axis (each list strictly increasing and
strictly between the two faces; any may be empty); the `(|xs|+1)(|ys|+1)(|zs|+1)` cells — Cuboids of side lengths
`(xb − xa, yb − ya, zb − za)` with the same polarization, evaluated at the observer shifted by the cell centre — sum to
the whole Cuboid, for every observer in none of the grid planes (faces included): outside, or inside any cell. -/
theorem cuboid_grid_partition (dim pol p : V3 ℝ) (xs ys zs : List ℝ)
    (hxp : (-(dim.x / 2) :: (xs ++ [dim.x / 2])).Pairwise (· < ·))
    (hyp : (-(dim.y / 2) :: (ys ++ [dim.y / 2])).Pairwise (· < ·))
    (hzp : (-(dim.z / 2) :: (zs ++ [dim.z / 2])).Pairwise (· < ·))
    (hxo : ∀ t ∈ -(dim.x / 2) :: (xs ++ [dim.x / 2]), p.x ≠ t)
    (hyo : ∀ t ∈ -(dim.y / 2) :: (ys ++ [dim.y / 2]), p.y ≠ t)
    (hzo : ∀ t ∈ -(dim.z / 2) :: (zs ++ [dim.z / 2]), p.z ≠ t) :
    chainSum (fun xa xb => chainSum (fun ya yb => chainSum (fun za zb =>
        cuboidB ⟨xb - xa, yb - ya, zb - za⟩ pol (p - ⟨(xa + xb) / 2, (ya + yb) / 2, (za + zb) / 2⟩))
        (-(dim.z / 2)) (zs ++ [dim.z / 2])) (-(dim.y / 2)) (ys ++ [dim.y / 2])) (-(dim.x / 2)) (xs ++ [dim.x / 2]) =
      cuboidB dim pol p :=
  CuboidSplit.cuboid_grid_partition dim pol p xs ys zs hxp hyp hzp hxo hyo hzo

-- non-vacuity: what `chainSum` is (three slabs: two cuts), and a 3 × 2 × 1 grid of the 2×2×2 cuboid (cuts x = −1/2, 1/4;
-- y = 0; none in z) with an observer inside the cell [1/4, 1] × [0, 1] × [−1, 1]
example (f : ℝ → ℝ → V3 ℝ) (a b c d : ℝ) : chainSum f a [b, c, d] = f a b + (f b c + (f c d + ⟨0, 0, 0⟩)) := rfl
example :
    chainSum (fun xa xb => chainSum (fun ya yb => chainSum (fun za zb =>
        cuboidB ⟨xb - xa, yb - ya, zb - za⟩ ⟨0, 0, 1⟩
          ((⟨1 / 2, 1 / 3, -1 / 4⟩ : V3 ℝ) - ⟨(xa + xb) / 2, (ya + yb) / 2, (za + zb) / 2⟩))
        (-(2 / 2)) ([] ++ [2 / 2])) (-(2 / 2)) ([0] ++ [2 / 2])) (-(2 / 2)) ([-1 / 2, 1 / 4] ++ [2 / 2]) =
      cuboidB (⟨2, 2, 2⟩ : V3 ℝ) ⟨0, 0, 1⟩ ⟨1 / 2, 1 / 3, -1 / 4⟩ := by
  apply cuboid_grid_partition (⟨2, 2, 2⟩ : V3 ℝ) ⟨0, 0, 1⟩ ⟨1 / 2, 1 / 3, -1 / 4⟩ [-1 / 2, 1 / 4] [0] [] <;>
    simp <;> norm_num

/-- C13 (Cuboid wrapper, grid partition, all four fields): the cells of any axis-parallel grid sum to the whole for
`BHJM_magnet_cuboid` itself — B, H, J, M, every polarization — when the observer keeps, along each axis, the distance
`1e-15 · dim_i/2` (the whole body's shell half-width, which bounds the shell of every cell and every merged slab) from
every grid plane of that axis, faces included. -/
theorem cuboid_grid_partition_wrapper (f : Field) (dim pol p : V3 ℝ) (xs ys zs : List ℝ)
    (hxp : (-(dim.x / 2) :: (xs ++ [dim.x / 2])).Pairwise (· < ·))
    (hyp : (-(dim.y / 2) :: (ys ++ [dim.y / 2])).Pairwise (· < ·))
    (hzp : (-(dim.z / 2) :: (zs ++ [dim.z / 2])).Pairwise (· < ·))
    (hxo : ∀ t ∈ -(dim.x / 2) :: (xs ++ [dim.x / 2]), rtol * (dim.x / 2) ≤ |p.x - t|)
    (hyo : ∀ t ∈ -(dim.y / 2) :: (ys ++ [dim.y / 2]), rtol * (dim.y / 2) ≤ |p.y - t|)
    (hzo : ∀ t ∈ -(dim.z / 2) :: (zs ++ [dim.z / 2]), rtol * (dim.z / 2) ≤ |p.z - t|) :
    chainSum (fun xa xb => chainSum (fun ya yb => chainSum (fun za zb =>
        bhjmCuboid f ⟨xb - xa, yb - ya, zb - za⟩ pol (p - ⟨(xa + xb) / 2, (ya + yb) / 2, (za + zb) / 2⟩))
        (-(dim.z / 2)) (zs ++ [dim.z / 2])) (-(dim.y / 2)) (ys ++ [dim.y / 2])) (-(dim.x / 2)) (xs ++ [dim.x / 2]) =
      bhjmCuboid f dim pol p :=
  CuboidSplit.cuboid_grid_partition_wrapper f dim pol p xs ys zs hxp hyp hzp hxo hyo hzo

-- non-vacuity: the same 3 × 2 × 1 grid and inside observer, field H
example :
    chainSum (fun xa xb => chainSum (fun ya yb => chainSum (fun za zb =>
        bhjmCuboid .H ⟨xb - xa, yb - ya, zb - za⟩ ⟨0, 0, 1⟩
          ((⟨1 / 2, 1 / 3, -1 / 4⟩ : V3 ℝ) - ⟨(xa + xb) / 2, (ya + yb) / 2, (za + zb) / 2⟩))
        (-(2 / 2)) ([] ++ [2 / 2])) (-(2 / 2)) ([0] ++ [2 / 2])) (-(2 / 2)) ([-1 / 2, 1 / 4] ++ [2 / 2]) =
      bhjmCuboid .H (⟨2, 2, 2⟩ : V3 ℝ) ⟨0, 0, 1⟩ ⟨1 / 2, 1 / 3, -1 / 4⟩ := by
  apply cuboid_grid_partition_wrapper .H (⟨2, 2, 2⟩ : V3 ℝ) ⟨0, 0, 1⟩ ⟨1 / 2, 1 / 3, -1 / 4⟩ [-1 / 2, 1 / 4] [0] [] <;>
    simp [rtol] <;> norm_num [abs_of_pos, abs_of_neg]

end MagpyVerif.C13

/-! ### TriangularMesh converters: `from_mesh`, `from_triangles`, `to_TriangleCollection` (Model/MeshUnique.lean, Lemmas/MeshUnique.lean)

`from_mesh` and `from_triangles` turn a triangle soup into `(vertices, faces)` with
`np.unique(mesh.reshape((-1, 3)), axis=0, return_inverse=True)`; the object's `mesh` property — the array handed to
`BHJM_magnet_trimesh` — is `vertices[faces]` (`meshArray`).  The model of the two glue lines is run by the driver (`mesh unique`) and
compared with the real `from_mesh` / `from_triangles` on random soups (signed zeros, repeated corners, NaN, lengths 1e-9 … 1e6).
`RowLaws c`: the row order is a total preorder whose symmetric part is the row equality — true of ℝ (`rowLaws_real`), of ℚ, and of
IEEE doubles without NaN (where the symmetric part identifies −0.0 and 0.0).  With a NaN corner the statement is false of numpy as of
the model (`nan != nan`: the row is kept, but `vertices[faces] == mesh` fails there); the driver reports that verdict per soup. -/
namespace MagpyVerif.C13
open MagpyVerif MagpyVerif.Kern

/-- `np.unique(points, axis=0, return_inverse=True)`: every input row is `==` to the unique row its inverse index points at, the
unique rows are pairwise `!=`, each of them is an input row, and the inverse has one entry per input row -/
theorem unique_rows_spec {α : Type} {c : RowCmp α} (h : RowLaws c) (pts : List (V3 α)) :
    (∀ i (hi : i < pts.length), ∃ j v, (uniqueRows c pts).2[i]? = some j ∧ (uniqueRows c pts).1[j]? = some v ∧
        rowEq c v pts[i] = true) ∧
    (uniqueRows c pts).1.Pairwise (fun a b => rowEq c a b = false) ∧
    (∀ v ∈ (uniqueRows c pts).1, v ∈ pts) ∧ (uniqueRows c pts).2.length = pts.length :=
  ⟨uniqueRows_inverse h pts, uniqueRows_distinct h pts, uniqueRows_subset c pts, uniqueRows_length c pts⟩

/-- C13 (`from_mesh`): `(vertices, faces) := fromMesh soup` ⇒ `vertices[faces]` is the soup, triangle by triangle and corner by
corner, up to the carrier's `==` (over floats: up to the sign of a zero); as many faces as triangles; every index in range -/
theorem from_mesh_roundtrip {α : Type} [Num α] {c : RowCmp α} (h : RowLaws c) (soup : List (Tri α)) :
    List.Forall₂ (fun a b : Tri α => rowEq c a.1 b.1 = true ∧ rowEq c a.2.1 b.2.1 = true ∧ rowEq c a.2.2 b.2.2 = true)
      (meshArray (fromMesh c soup).1 (fromMesh c soup).2) soup ∧
    (fromMesh c soup).2.length = soup.length ∧
    ∀ f ∈ (fromMesh c soup).2, FaceInRange (fromMesh c soup).1.length f :=
  ⟨fromMesh_roundtrip h soup, fromMesh_faces_length c soup, fromMesh_faces_in_range h soup⟩

/-- … hence every quantity computed from the `(n, 3, 3)` array that respects the carrier's `==` (the sheet sum and the ray-casting
inside test are compositions of arithmetic and comparisons, which do) is the same for the converted mesh and for the soup -/
theorem from_mesh_preserves_respecting {α β : Type} [Num α] {c : RowCmp α} (h : RowLaws c) (g : List (Tri α) → β)
    (hg : ∀ m m', List.Forall₂ (fun a b : Tri α => rowEq c a.1 b.1 = true ∧ rowEq c a.2.1 b.2.1 = true ∧ rowEq c a.2.2 b.2.2 = true) m m' →
      g m = g m') (soup : List (Tri α)) :
    g (meshArray (fromMesh c soup).1 (fromMesh c soup).2) = g soup :=
  hg _ _ (fromMesh_roundtrip h soup)

-- (audit 2) this is about the two glue lines only (`fromMesh`, then `meshArray`).  `TriangularMesh.from_mesh` then calls the constructor
-- with the DEFAULT `reorient_faces=True`: for a soup with inward-facing triangles the real `.mesh` is NOT the soup (those triangles
-- come back with two corners exchanged, `Kern.reorientedMesh`, C16) and μ₀H of the flipped sheets changes sign.  So "`from_mesh`
-- preserves the field" is proved for `reorient_faces="skip"` (what the `mesh-unique` stream runs) and for soups that the
-- re-orientation leaves alone; the default path is the `mesh-converters` oracle's.
/-- over ℝ (`==` is identity) the round trip is an identity: `TriangularMesh.from_mesh(soup).mesh = soup` -/
theorem from_mesh_roundtrip_real (soup : List (Tri ℝ)) :
    meshArray (fromMesh RowCmp.real soup).1 (fromMesh RowCmp.real soup).2 = soup :=
  fromMesh_roundtrip_real soup

/-- `from_triangles` runs the same two lines on `[tria.vertices for tria in triangles]` -/
theorem from_triangles_roundtrip (triangleVertices : List (Tri ℝ)) :
    meshArray (fromTriangles RowCmp.real triangleVertices).1 (fromTriangles RowCmp.real triangleVertices).2 = triangleVertices :=
  fromMesh_roundtrip_real triangleVertices

/-- the vertices are the distinct corner points of the soup, each once: number of vertices = number of distinct points -/
theorem from_mesh_vertex_count [DecidableEq (V3 ℝ)] (soup : List (Tri ℝ)) :
    (fromMesh RowCmp.real soup).1.Nodup ∧ (∀ p, p ∈ (fromMesh RowCmp.real soup).1 ↔ p ∈ soupPoints soup) ∧
    (fromMesh RowCmp.real soup).1.length = (soupPoints soup).toFinset.card :=
  ⟨fromMesh_vertices_nodup soup, fromMesh_vertices_mem soup, fromMesh_vertex_count soup⟩

/-- C13 (`from_mesh` / `from_triangles` preserve the field): for every batch, replacing each row's soup by the `mesh` property of the
TriangularMesh that `from_mesh` builds from it leaves all four outputs of `BHJM_magnet_trimesh` unchanged (inside test and mesh
identification as parameters) -/
theorem from_mesh_preserves_field {M : Type} [DecidableEq M] (f : Field) (meshId : MeshRow ℝ → M) (inside : M → V3 ℝ → Bool)
    (rows : List (MeshRow ℝ)) :
    bhjmTrimesh f meshId inside (rows.map fun r =>
        { r with faces := meshArray (fromMesh RowCmp.real r.faces).1 (fromMesh RowCmp.real r.faces).2 }) =
      bhjmTrimesh f meshId inside rows := by
  have : (rows.map fun r : MeshRow ℝ =>
      { r with faces := meshArray (fromMesh RowCmp.real r.faces).1 (fromMesh RowCmp.real r.faces).2 }) = rows := by
    conv_rhs => rw [← List.map_id rows]
    apply List.map_congr_left
    intro r _
    rw [fromMesh_roundtrip_real]; rfl
  rw [this]

-- non-vacuity: a soup of two triangles sharing an edge (4 distinct corners out of 6); the hypotheses of the general statement hold over ℝ
example : RowLaws RowCmp.real := rowLaws_real
example : soupPoints [((⟨0, 0, 0⟩ : V3 ℝ), (⟨1, 0, 0⟩ : V3 ℝ), (⟨0, 1, 0⟩ : V3 ℝ)), (⟨1, 0, 0⟩, ⟨0, 1, 0⟩, ⟨1, 1, 0⟩)] =
    [⟨0, 0, 0⟩, ⟨1, 0, 0⟩, ⟨0, 1, 0⟩, ⟨1, 0, 0⟩, ⟨0, 1, 0⟩, ⟨1, 1, 0⟩] := rfl
-- the exclusion of NaN is necessary: with an element type whose `==` is not reflexive the run head is not `==` to itself
example : ¬ RowLaws (⟨fun _ _ => false, fun _ _ => false⟩ : RowCmp Unit) := fun h => by
  have := h.refl ⟨(), (), ()⟩
  simp [rowEq] at this

-- (audit 2) there is no model FUNCTION of `to_TriangleCollection` (nothing in Model/, no driver command): the left-hand side below is
-- the auditor-readable transcription "sum over `v in self.mesh` of `BHJM_triangle(polarization, vertices=v)`" of its first two lines;
-- `bhjmTriangle` and `wrapH` are driver-run.  `coll.position = self.position`, `coll.orientation = …` (pose, paths) and the style copy
-- are not in the statement.
/-- C13 (`to_TriangleCollection`): the Collection of `Triangle(polarization, vertices = v) for v in self.mesh` — whose field is the
sum of its children's fields (C05/C06) — has H = the sheet sum / μ₀, B = the sheet sum with NO inside term, J = M = 0: the `wrapH`
dispatch of the TriangularMesh with the inside verdict replaced by `false` -/
theorem to_triangle_collection_is_sheet_sum (f : Field) (mesh : List (Tri ℝ)) (pol obs : V3 ℝ) :
    sum3 (mesh.map fun t => bhjmTriangle f t.1 t.2.1 t.2.2 pol obs) = wrapH f false pol (sheetSum mesh pol obs) := by
  induction mesh with
  | nil => rw [List.map_nil, sum3_nil, sheetSum_nil, wrapH_zero]
  | cons t ts ih =>
    rw [List.map_cons, sum3_cons, ih, sheetSum_cons]
    cases f <;> apply V3.ext' <;> simp [bhjmTriangle, wrapH, vd, zero3, n] <;> ring

/-- … so the collection has the TriangularMesh's H everywhere, and its B, J, M wherever the mesh's inside test answers "outside" -/
theorem to_triangle_collection_preserves_field {M : Type} (f : Field) (meshId : MeshRow ℝ → M) (inside : M → V3 ℝ → Bool)
    (r : MeshRow ℝ) (h : f = .H ∨ inside (meshId r) r.obs = false) :
    sum3 (r.faces.map fun t => bhjmTriangle f t.1 t.2.1 t.2.2 r.pol r.obs) = bhjmTrimeshRow f meshId inside r := by
  rw [to_triangle_collection_is_sheet_sum, trimesh_row_is_wrapH_of_sheets]
  rcases h with rfl | h
  · rfl
  · rw [h]; rfl

-- inside the body the collection's B differs from the mesh's by the polarization (the `outside` hypothesis is necessary for B)
example (pol s : V3 ℝ) : wrapH .B true pol s = wrapH .B false pol s + pol := by
  apply V3.ext' <;> simp [wrapH, zero3, n]

end MagpyVerif.C13

/-! ### Gluing meshes and tetrahedra along shared walls (Lemmas/TrimeshGlue.lean)

A body cut into parts with the same polarization whose surfaces are triangulated so that the cut carries the SAME triangles on both
sides (with opposite winding): the internal walls cancel (`triangle_field_flip`), and with the inside predicate of the whole the
disjunction of the parts' predicates (at most one true at the observer) B, H, J, M of the parts add up to those of the whole. -/
namespace MagpyVerif.C13
open MagpyVerif MagpyVerif.Kern

/-- C13 (meshes, the sheet sums): `A` = walls `W` + rest `A'`, `B` = flipped walls `W'` + rest `B'` (faces in any order; a flipped
copy has two corners exchanged, any two); observer outside the `on_edge` tolerance of the walls' edges.  Then the mesh `A' ++ B'`
(the union without the internal walls) has the sheet sum of `A` plus that of `B`. -/
theorem trimesh_glue_sheets {A B A' B' W W' : List (Tri ℝ)} (hA : A.Perm (W ++ A')) (hB : B.Perm (W' ++ B'))
    (hf : List.Forall₂ TriFlipped W W') (pol obs : V3 ℝ) (hoff : ∀ t ∈ W, TriOffEdges t.1 t.2.1 t.2.2 obs) :
    sheetSum (A' ++ B') pol obs = sheetSum A pol obs + sheetSum B pol obs :=
  sheetSum_glue hA hB hf pol obs hoff

/-- C13 (meshes, all four fields): three rows of `BHJM_magnet_trimesh` with the same observer and polarization — the parts `A`,
`B` and the glued mesh `A' ++ B'`; the inside test of the glued mesh is the disjunction of the parts' tests and the observer is
not inside both.  Then B, H, J, M of the glued mesh = the sum of the parts' B, H, J, M. -/
theorem trimesh_glue_additive {M : Type} (f : Field) (meshId : MeshRow ℝ → M) (inside : M → V3 ℝ → Bool)
    {A B A' B' W W' : List (Tri ℝ)} (hA : A.Perm (W ++ A')) (hB : B.Perm (W' ++ B')) (hf : List.Forall₂ TriFlipped W W')
    (pol obs : V3 ℝ) (hoff : ∀ t ∈ W, TriOffEdges t.1 t.2.1 t.2.2 obs)
    (hin : inside (meshId ⟨A' ++ B', obs, pol⟩) obs = (inside (meshId ⟨A, obs, pol⟩) obs || inside (meshId ⟨B, obs, pol⟩) obs))
    (hdisj : ¬ (inside (meshId ⟨A, obs, pol⟩) obs = true ∧ inside (meshId ⟨B, obs, pol⟩) obs = true)) :
    bhjmTrimeshRow f meshId inside ⟨A' ++ B', obs, pol⟩ =
      bhjmTrimeshRow f meshId inside ⟨A, obs, pol⟩ + bhjmTrimeshRow f meshId inside ⟨B, obs, pol⟩ := by
  simp only [trimesh_row_is_wrapH_of_sheets]
  rw [hin]
  show wrapH f _ pol (sheetSum (A' ++ B') pol obs) = wrapH f _ pol (sheetSum A pol obs) + wrapH f _ pol (sheetSum B pol obs)
  rw [sheetSum_glue hA hB hf pol obs hoff]
  exact wrapH_glue f _ _ hdisj pol _ _

-- the exclusion "not inside both" is necessary (an observer counted by both parts gets J twice)
example : wrapH .J (true || true) (⟨0, 0, 1⟩ : V3 ℝ) (zero3 + zero3) ≠
    wrapH .J true ⟨0, 0, 1⟩ zero3 + wrapH .J true ⟨0, 0, 1⟩ zero3 := wrapH_glue_needs_disjoint

-- (audit 2) `trimesh_glue_additive` literally: for J and M the conclusion IS the pair of hypotheses `hin`, `hdisj` (the row's J is
-- `if inside … then pol else 0`); the content is in B and H, i.e. in `trimesh_glue_sheets` (the walls cancel).  `inside` / `meshId`
-- are free parameters: that the ray-casting test of the glued mesh is the disjunction of the parts' tests (`hin`) is assumed, not
-- proved for `maskInsideTrimesh` (C16 / oracle `glued`).  Neither theorem had an example with a non-empty wall list; here is one
-- that APPLIES `trimesh_glue_sheets`: the wall (0,0,0), (0,1,0), (1,0,0) once in each winding, arbitrary remaining faces
example (pol : V3 ℝ) (A' B' : List (Tri ℝ)) :
    sheetSum (A' ++ B') pol ⟨1 / 4, 1 / 4, 1 / 2⟩ =
      sheetSum ([((⟨0, 0, 0⟩ : V3 ℝ), (⟨0, 1, 0⟩ : V3 ℝ), (⟨1, 0, 0⟩ : V3 ℝ))] ++ A') pol ⟨1 / 4, 1 / 4, 1 / 2⟩ +
      sheetSum ([((⟨0, 0, 0⟩ : V3 ℝ), (⟨1, 0, 0⟩ : V3 ℝ), (⟨0, 1, 0⟩ : V3 ℝ))] ++ B') pol ⟨1 / 4, 1 / 4, 1 / 2⟩ := by
  apply trimesh_glue_sheets (List.Perm.refl _) (List.Perm.refl _)
    (List.Forall₂.cons (TriFlipped.swap12 _ _ _) List.Forall₂.nil)
  intro t ht
  rw [List.mem_singleton] at ht
  subst ht
  refine ⟨?_, ?_, ?_⟩ <;>
    simp only [TriEdgeOnV, triEdgeOn, V3.dot, V3.cross, V3.sub_x, V3.sub_y, V3.sub_z] <;> norm_num

/-- C13 (two tetrahedra sharing a face): `Tetrahedron(a,b,c,d)` and `Tetrahedron(a,b,c,e)` with the apexes `d`, `e` on opposite
sides of the common face; observer off the plane of that face and outside the `on_edge` tolerance of its edges.  The sum of the two
`BHJM_magnet_tetrahedron` outputs (all four fields, same polarization) is the `wrapH` dispatch — inside one or the other — of the
sheet sum of the SIX outer faces: the field of the bipyramid as a 6-face TriangularMesh. -/
theorem tetra_pair_glue (f : Field) (a b c d e pol x : V3 ℝ)
    (hd : 0 < det3 (b - a) (c - a) (d - a)) (he : det3 (b - a) (c - a) (e - a) < 0)
    (hx : det3 (b - a) (c - a) (x - a) ≠ 0) (hoff : TriOffEdges a c b x) :
    bhjmTetra f a b c d pol x + bhjmTetra f a b c e pol x =
      wrapH f (tetraInside a b c d x || tetraInside a b c e x) pol
        (sheetSum [(a, b, d), (b, c, d), (a, d, c), (a, e, b), (b, e, c), (a, c, e)] pol x) := by
  have h1 := tetra_is_wrapH_of_sheetSum f (a, b, c, d) pol x
  have h2 := tetra_is_wrapH_of_sheetSum f (a, b, c, e) pol x
  have f1 : tetraFaces (a, b, c, d) = [(a, c, b)] ++ [(a, b, d), (b, c, d), (a, d, c)] := by
    simp [tetraFaces, tetraChirality, n, not_lt.mpr hd.le]
  have f2 : tetraFaces (a, b, c, e) = [(a, e, b), (a, b, c), (b, e, c), (a, c, e)] := by
    simp [tetraFaces, tetraChirality, n, he]
  have p2 : (tetraFaces (a, b, c, e)).Perm ([(a, b, c)] ++ [(a, e, b), (b, e, c), (a, c, e)]) := by
    rw [f2]; exact List.Perm.swap _ _ _
  have hg := sheetSum_glue (W := [(a, c, b)]) (W' := [(a, b, c)]) (List.Perm.of_eq f1) p2
    (List.Forall₂.cons (TriFlipped.swap12 a c b) List.Forall₂.nil) pol x (by
      intro t ht; rw [List.mem_singleton] at ht; subst ht; exact hoff)
  simp only at h1 h2
  rw [h1, h2, ← wrapH_glue f _ _ (tetra_pair_disjoint a b c d e x hd he hx) pol, ← hg]
  rfl

/-- the same as a statement about the TriangularMesh made of the six outer faces, whose inside test is the union of the two -/
theorem tetra_pair_is_mesh {M : Type} (f : Field) (meshId : MeshRow ℝ → M) (inside : M → V3 ℝ → Bool) (a b c d e pol x : V3 ℝ)
    (hd : 0 < det3 (b - a) (c - a) (d - a)) (he : det3 (b - a) (c - a) (e - a) < 0)
    (hx : det3 (b - a) (c - a) (x - a) ≠ 0) (hoff : TriOffEdges a c b x)
    (hin : inside (meshId ⟨[(a, b, d), (b, c, d), (a, d, c), (a, e, b), (b, e, c), (a, c, e)], x, pol⟩) x =
      (tetraInside a b c d x || tetraInside a b c e x)) :
    bhjmTrimeshRow f meshId inside ⟨[(a, b, d), (b, c, d), (a, d, c), (a, e, b), (b, e, c), (a, c, e)], x, pol⟩ =
      bhjmTetra f a b c d pol x + bhjmTetra f a b c e pol x := by
  rw [tetra_pair_glue f a b c d e pol x hd he hx hoff, trimesh_row_is_wrapH_of_sheets, hin]
  rfl

-- non-vacuity: base (0,0,0), (1,0,0), (0,1,0), apexes (0,0,1) and (0,0,-1), observer (1/4, 1/4, 1/2) — inside the upper part
example : 0 < det3 ((⟨1, 0, 0⟩ : V3 ℝ) - ⟨0, 0, 0⟩) (⟨0, 1, 0⟩ - ⟨0, 0, 0⟩) (⟨0, 0, 1⟩ - ⟨0, 0, 0⟩) ∧
    det3 ((⟨1, 0, 0⟩ : V3 ℝ) - ⟨0, 0, 0⟩) (⟨0, 1, 0⟩ - ⟨0, 0, 0⟩) (⟨0, 0, -1⟩ - ⟨0, 0, 0⟩) < 0 ∧
    det3 ((⟨1, 0, 0⟩ : V3 ℝ) - ⟨0, 0, 0⟩) (⟨0, 1, 0⟩ - ⟨0, 0, 0⟩) (⟨1 / 4, 1 / 4, 1 / 2⟩ - ⟨0, 0, 0⟩) ≠ 0 ∧
    TriOffEdges (⟨0, 0, 0⟩ : V3 ℝ) ⟨0, 1, 0⟩ ⟨1, 0, 0⟩ ⟨1 / 4, 1 / 4, 1 / 2⟩ ∧
    tetraInside (⟨0, 0, 0⟩ : V3 ℝ) ⟨1, 0, 0⟩ ⟨0, 1, 0⟩ ⟨0, 0, 1⟩ ⟨1 / 4, 1 / 4, 1 / 2⟩ = true := by
  refine ⟨by simp [det3], by simp [det3], by simp [det3], ⟨?_, ?_, ?_⟩, ?_⟩
  · simp only [TriEdgeOnV, triEdgeOn, V3.dot, V3.cross, V3.sub_x, V3.sub_y, V3.sub_z]; norm_num
  · simp only [TriEdgeOnV, triEdgeOn, V3.dot, V3.cross, V3.sub_x, V3.sub_y, V3.sub_z]; norm_num
  · simp only [TriEdgeOnV, triEdgeOn, V3.dot, V3.cross, V3.sub_x, V3.sub_y, V3.sub_z]; norm_num
  · simp [tetraInside, det3, n]; norm_num

/-- C13 (a body cut into tetrahedra along full faces): the faces of all tetrahedra are — in any order — the boundary `Bd`, the
internal walls `W` and the flipped copies `W'` of the walls; the observer is inside at most one tetrahedron and outside the
`on_edge` tolerance of the walls' edges.  The fields of the tetrahedra (same polarization, all four of B, H, J, M) add up to the
`wrapH` dispatch of the boundary's sheet sum with the disjunction of the inside tests, i.e. to the TriangularMesh `Bd`. -/
theorem tetra_list_glue (f : Field) (Ts : List (V3 ℝ × V3 ℝ × V3 ℝ × V3 ℝ)) (Bd W W' : List (Tri ℝ)) (pol x : V3 ℝ)
    (hperm : (Ts.flatMap tetraFaces).Perm (Bd ++ (W ++ W'))) (hf : List.Forall₂ TriFlipped W W')
    (hoff : ∀ t ∈ W, TriOffEdges t.1 t.2.1 t.2.2 x)
    (hdisj : Ts.Pairwise fun S T => ¬ (tetraInside S.1 S.2.1 S.2.2.1 S.2.2.2 x = true ∧ tetraInside T.1 T.2.1 T.2.2.1 T.2.2.2 x = true)) :
    sum3 (Ts.map fun T => bhjmTetra f T.1 T.2.1 T.2.2.1 T.2.2.2 pol x) =
      wrapH f (Ts.any fun T => tetraInside T.1 T.2.1 T.2.2.1 T.2.2.2 x) pol (sheetSum Bd pol x) :=
  Kern.tetra_list_glue f Ts Bd W W' pol x hperm hf hoff hdisj

-- (audit 2) non-vacuity of `tetra_list_glue` (it had none): the bipyramid of `tetra_pair_glue` as a LIST of two tetrahedra meets
-- every hypothesis — `hperm` (the eight faces are the six outer ones, the wall and its flipped copy), `hf`, `hoff`, `hdisj` —
-- for every base `a b c` and apexes `d`, `e` on opposite sides (numbers: the example above)
example (f : Field) (a b c d e pol x : V3 ℝ)
    (hd : 0 < det3 (b - a) (c - a) (d - a)) (he : det3 (b - a) (c - a) (e - a) < 0)
    (hx : det3 (b - a) (c - a) (x - a) ≠ 0) (hoff : TriOffEdges a c b x) :
    sum3 ([(a, b, c, d), (a, b, c, e)].map fun T => bhjmTetra f T.1 T.2.1 T.2.2.1 T.2.2.2 pol x) =
      wrapH f ([(a, b, c, d), (a, b, c, e)].any fun T => tetraInside T.1 T.2.1 T.2.2.1 T.2.2.2 x) pol
        (sheetSum [(a, b, d), (b, c, d), (a, d, c), (a, e, b), (b, e, c), (a, c, e)] pol x) := by
  apply tetra_list_glue f _ _ [(a, c, b)] [(a, b, c)] pol x
  · have f1 : tetraFaces (a, b, c, d) = [(a, c, b), (a, b, d), (b, c, d), (a, d, c)] := by
      simp [tetraFaces, tetraChirality, n, not_lt.mpr hd.le]
    have f2 : tetraFaces (a, b, c, e) = [(a, e, b), (a, b, c), (b, e, c), (a, c, e)] := by
      simp [tetraFaces, tetraChirality, n, he]
    simp only [List.flatMap_cons, List.flatMap_nil, f1, f2, List.append_nil, List.cons_append, List.nil_append]
    refine List.Perm.trans ?_ (List.perm_middle (l₁ := [(a, b, d), (b, c, d), (a, d, c), (a, e, b), (b, e, c), (a, c, e)])
      (a := (a, c, b)) (l₂ := [(a, b, c)])).symm
    refine List.Perm.cons _ (List.Perm.cons _ (List.Perm.cons _ (List.Perm.cons _ (List.Perm.cons _ ?_))))
    exact List.perm_append_comm (l₁ := [(a, b, c)]) (l₂ := [(b, e, c), (a, c, e)])
  · exact List.Forall₂.cons (TriFlipped.swap12 a c b) List.Forall₂.nil
  · intro t ht; rw [List.mem_singleton] at ht; subst ht; exact hoff
  · simp only [List.pairwise_cons, List.mem_singleton, forall_eq, List.not_mem_nil, IsEmpty.forall_iff, implies_true,
      List.Pairwise.nil, and_true]
    exact tetra_pair_disjoint a b c d e x hd he hx

end MagpyVerif.C13

/-! ### Cutting a Triangle sheet through a point of an edge (Lemmas/TriangleSplit.lean) -/
namespace MagpyVerif.C13
open MagpyVerif MagpyVerif.Kern

/- FULL (`triangle_split_additive`): for `m = a + τ (b − a)`, `0 < τ < 1`, and every observer off the line `a b` and outside the
`on_edge` tolerance of the four edges involved, `triangleB a m c + triangleB m b c = triangleB a b c`.  Proved in this section EXCEPT
for the solid-angle terms: that the two Van Oosterom–Strackee values `2·atan2(N, D)` (with the code's clamp `|·| > 6.2831853 ↦ 0`) of
the pieces add up to that of the whole is the named hypothesis `SolidAngleAdditive`.  The NEXT section discharges it for every
observer off the plane of the triangle at which the whole is not clamped (`solid_angle_additive`, `triangle_split_additive`) and shows
that it is FALSE off the plane when the whole is clamped (`solid_angle_additive_iff`): the FULL statement is not true of the code.
In the plane of the triangle it is proved only in the sector where all three values vanish (`solid_angle_additive_coplanar`) and
modulo 4π off the closed segments (`solid_angle_additive_mod_2pi`). -/
/-- C13 (Triangle, everything but the solid angle): the normal of both pieces is the normal of the whole, the edge integral along
`a b` is additive over the subdivision (`τ·I(a→m) + (1−τ)·I(m→b) = I(a→b)`: every branch of the cancellation-free form is
`log(g(end)/g(start))/l`), the new edge `m c` is run once in each direction and cancels -/
theorem triangle_split_additive_partial (a b c pol obs : V3 ℝ) (τ : ℝ) (h0 : 0 < τ) (h1 : τ < 1)
    (hline : 0 < V3.dot (V3.cross (a - obs) (b - a)) (V3.cross (a - obs) (b - a)))
    (hoffW : ¬ TriEdgeOnV (a - obs) (b - obs) (b - a))
    (hoff1 : ¬ TriEdgeOnV (a - obs) (a + vs τ (b - a) - obs) (a + vs τ (b - a) - a))
    (hoff2 : ¬ TriEdgeOnV (a + vs τ (b - a) - obs) (b - obs) (b - (a + vs τ (b - a))))
    (hoffM : ¬ TriEdgeOnV (a + vs τ (b - a) - obs) (c - obs) (c - (a + vs τ (b - a))))
    (hsa : SolidAngleAdditive a (a + vs τ (b - a)) b c obs) :
    triangleB a (a + vs τ (b - a)) c pol obs + triangleB (a + vs τ (b - a)) b c pol obs = triangleB a b c pol obs :=
  triangleB_split a b c pol obs τ h0 h1 hline hoffW hoff1 hoff2 hoffM hsa

/-- the edge integral of `triangle_Bfield` is additive over a subdivision of the edge (the part of the statement that carries the
case distinctions of the code) -/
theorem triangle_edge_integral_split (R L : V3 ℝ) (τ : ℝ) (h0 : 0 < τ) (h1 : τ < 1) (hL : 0 < V3.dot L L)
    (hX : 0 < V3.dot (V3.cross R L) (V3.cross R L))
    (hoffW : ¬ TriEdgeOnV R (R + L) L) (hoff1 : ¬ TriEdgeOnV R (R + vs τ L) (vs τ L))
    (hoff2 : ¬ TriEdgeOnV (R + vs τ L) (R + L) (vs (1 - τ) L)) :
    τ * triEdgeI R (R + vs τ L) (vs τ L) + (1 - τ) * triEdgeI (R + vs τ L) (R + L) (vs (1 - τ) L) = triEdgeI R (R + L) L :=
  triEdgeI_split R L τ h0 h1 hL hX hoffW hoff1 hoff2

/-- `SolidAngleAdditive` in the part of the triangle's plane where the corners and the cut point are seen under pairwise acute
angles (all three values are 0 there) -/
theorem solid_angle_additive_coplanar (a m b c obs : V3 ℝ)
    (hN1 : V3.dot (c - obs) (V3.cross (m - obs) (a - obs)) = 0) (hN2 : V3.dot (c - obs) (V3.cross (b - obs) (m - obs)) = 0)
    (hN : V3.dot (c - obs) (V3.cross (b - obs) (a - obs)) = 0)
    (d1 : 0 ≤ V3.dot (c - obs) (m - obs)) (d2 : 0 ≤ V3.dot (c - obs) (a - obs)) (d3 : 0 ≤ V3.dot (m - obs) (a - obs))
    (d4 : 0 ≤ V3.dot (c - obs) (b - obs)) (d5 : 0 ≤ V3.dot (b - obs) (m - obs)) (d6 : 0 ≤ V3.dot (b - obs) (a - obs)) :
    SolidAngleAdditive a m b c obs :=
  solidAngleAdditive_of_coplanar a m b c obs hN1 hN2 hN d1 d2 d3 d4 d5 d6

-- non-vacuity: the triangle (0,0,0), (2,0,0), (0,1,0) cut at the midpoint (1,0,0) of its first edge, observer (−1,−1,0): every
-- hypothesis of `triangle_split_additive_partial` holds (the sheet's field there is not zero: the edge integrals are not)
example (pol : V3 ℝ) :
    triangleB (⟨0, 0, 0⟩ : V3 ℝ) (⟨0, 0, 0⟩ + vs (1 / 2) (⟨2, 0, 0⟩ - ⟨0, 0, 0⟩)) ⟨0, 1, 0⟩ pol ⟨-1, -1, 0⟩ +
      triangleB ((⟨0, 0, 0⟩ : V3 ℝ) + vs (1 / 2) (⟨2, 0, 0⟩ - ⟨0, 0, 0⟩)) ⟨2, 0, 0⟩ ⟨0, 1, 0⟩ pol ⟨-1, -1, 0⟩ =
    triangleB (⟨0, 0, 0⟩ : V3 ℝ) ⟨2, 0, 0⟩ ⟨0, 1, 0⟩ pol ⟨-1, -1, 0⟩ := by
  apply triangle_split_additive_partial _ _ _ pol _ (1 / 2) (by norm_num) (by norm_num)
  · simp [V3.dot, V3.cross]
  · simp only [TriEdgeOnV, triEdgeOn, V3.dot, V3.cross, V3.sub_x, V3.sub_y, V3.sub_z, V3.add_x, V3.add_y, V3.add_z, vs]; norm_num
  · simp only [TriEdgeOnV, triEdgeOn, V3.dot, V3.cross, V3.sub_x, V3.sub_y, V3.sub_z, V3.add_x, V3.add_y, V3.add_z, vs]; norm_num
  · simp only [TriEdgeOnV, triEdgeOn, V3.dot, V3.cross, V3.sub_x, V3.sub_y, V3.sub_z, V3.add_x, V3.add_y, V3.add_z, vs]; norm_num
  · simp only [TriEdgeOnV, triEdgeOn, V3.dot, V3.cross, V3.sub_x, V3.sub_y, V3.sub_z, V3.add_x, V3.add_y, V3.add_z, vs]; norm_num
  · apply solid_angle_additive_coplanar <;> simp [V3.dot, V3.cross, vs] <;> norm_num

end MagpyVerif.C13

/-! ### The solid angle of a Triangle cut through a point of an edge (Lemmas/SolidAngle.lean)

`solid_angle` returns `Ω = 2·arg(D + iN)` (Van Oosterom–Strackee), replaced by 0 when `|Ω| > 6.2831853`.  For the cut point
`m = a + τ (b − a)`: `N(a,m,c) = τ N(a,b,c)`, `N(m,b,c) = (1−τ) N(a,b,c)` and `z(a,m,c)·z(m,b,c) = k·z(a,b,c)` with the real
`k = (r_m r_c + R_m·R_c)(r_m + (1−τ) r_a + τ r_b) > 0`; hence the arguments add modulo 2π, and in ℝ off the plane of the triangle
(all three in `(0,π)` or all in `(−π,0)`).  The clamp does not commute with this: see `solid_angle_additive_iff`. -/
namespace MagpyVerif.C13
open MagpyVerif MagpyVerif.Kern

/-- the model's `solidAngle` (what the driver runs, at ℝ) is the clamped `solidAngleRaw = 2·arg(D + iN)` -/
theorem solid_angle_is_clamped_raw (R0 R1 R2 : V3 ℝ) :
    solidAngle R0 R1 R2 (Kern.norm R0) (Kern.norm R1) (Kern.norm R2) =
      if (62831853 : ℝ) / 10000000 < |solidAngleRaw R0 R1 R2| then 0 else solidAngleRaw R0 R1 R2 :=
  solidAngle_clamp R0 R1 R2

/-- C13 (solid angle, the algebra): `z(a,m,c) · z(m,b,c) = k · z(a,b,c)` with `k` real — every observer, every `τ` -/
theorem solid_angle_factorisation (Ra Rb Rc : V3 ℝ) (τ : ℝ) :
    saZ Ra (saM Ra Rb τ) Rc * saZ (saM Ra Rb τ) Rb Rc = ((saK Ra Rb Rc τ : ℝ) : ℂ) * saZ Ra Rb Rc :=
  saZ_factor Ra Rb Rc τ

/-- C13 (solid angle, modulo full turns): for an observer on none of the five closed segments `a m`, `m b`, `b c`, `c a`, `m c`
(`r_u r_v + U·V > 0`: `U`, `V` not antiparallel, neither zero) — in the plane of the triangle or off it — the unclamped solid
angles of the pieces add up to that of the whole up to a multiple of 4π (the half angles `arg z` up to a multiple of 2π) -/
theorem solid_angle_additive_mod_2pi (a b c obs : V3 ℝ) (τ : ℝ) (h0 : 0 ≤ τ) (h1 : τ ≤ 1)
    (ham : 0 < Kern.norm (a - obs) * Kern.norm (a + vs τ (b - a) - obs) + V3.dot (a + vs τ (b - a) - obs) (a - obs))
    (hmb : 0 < Kern.norm (a + vs τ (b - a) - obs) * Kern.norm (b - obs) + V3.dot (b - obs) (a + vs τ (b - a) - obs))
    (hbc : 0 < Kern.norm (b - obs) * Kern.norm (c - obs) + V3.dot (c - obs) (b - obs))
    (hac : 0 < Kern.norm (a - obs) * Kern.norm (c - obs) + V3.dot (c - obs) (a - obs))
    (hmc : 0 < Kern.norm (a + vs τ (b - a) - obs) * Kern.norm (c - obs) + V3.dot (c - obs) (a + vs τ (b - a) - obs)) :
    ∃ k : ℤ, solidAngleRaw (a - obs) (a + vs τ (b - a) - obs) (c - obs) + solidAngleRaw (a + vs τ (b - a) - obs) (b - obs) (c - obs) =
      solidAngleRaw (a - obs) (b - obs) (c - obs) + k * (4 * Real.pi) := by
  rw [saM_sub] at *
  exact solidAngleRaw_add_mod _ _ _ τ h0 h1 ham hmb hbc hac hmc

/-- C13 (solid angle, off the plane, before the clamp): the two values `2·atan2(N, D)` of the pieces add up to that of the whole
exactly, for EVERY observer off the plane of the triangle -/
theorem solid_angle_raw_additive (a b c obs : V3 ℝ) (τ : ℝ) (h0 : 0 < τ) (h1 : τ < 1)
    (hN : saN (a - obs) (b - obs) (c - obs) ≠ 0) :
    solidAngleRaw (a - obs) (a + vs τ (b - a) - obs) (c - obs) + solidAngleRaw (a + vs τ (b - a) - obs) (b - obs) (c - obs) =
      solidAngleRaw (a - obs) (b - obs) (c - obs) := by
  rw [saM_sub]
  exact solidAngleRaw_add _ _ _ τ h0 h1 hN

/-- C13 (solid angle as the code returns it): off the plane of the triangle the named hypothesis `SolidAngleAdditive` holds
**iff** the code does not clamp the whole triangle's value.  In the clamp band (`2π − |Ω| < 7.2e-9`: the observer within about
1e-9 triangle sizes of the sheet, over its interior) the whole gives 0 and the pieces do not add up to 0 -/
theorem solid_angle_additive_iff (a b c obs : V3 ℝ) (τ : ℝ) (h0 : 0 < τ) (h1 : τ < 1)
    (hN : saN (a - obs) (b - obs) (c - obs) ≠ 0) :
    SolidAngleAdditive a (a + vs τ (b - a)) b c obs ↔ ¬ SolidAngleClamped (a - obs) (b - obs) (c - obs) :=
  solidAngleAdditive_iff_of_offplane a b c obs τ h0 h1 hN

/-- C13 (`SolidAngleAdditive` discharged): observer off the plane, whole triangle not clamped -/
theorem solid_angle_additive (a b c obs : V3 ℝ) (τ : ℝ) (h0 : 0 < τ) (h1 : τ < 1)
    (hN : saN (a - obs) (b - obs) (c - obs) ≠ 0) (hcl : ¬ SolidAngleClamped (a - obs) (b - obs) (c - obs)) :
    SolidAngleAdditive a (a + vs τ (b - a)) b c obs :=
  (solid_angle_additive_iff a b c obs τ h0 h1 hN).mpr hcl

/-- C13 (the clamp breaks subdivision invariance; concrete input): the triangle (0,0,0), (4,0,0), (0,4,0) cut at the midpoint of
its first edge, observer (1, 1, 1e-10) — off the sheet, above its interior.  The code's solid angle of the whole is clamped to 0
(`2π − Ω ≈ 4.6e-10 < 7.2e-9`), that of the pieces does not add up to 0: `SolidAngleAdditive` is false.  (On the real code:
`Triangle.getB` at 1e-9 above the sheet returns the normal component 0 instead of `σ/2`; whole and halves differ by `σ/2` for
observers above the cut line, see the oracle case `triangle-split` and the report.) -/
theorem solid_angle_additive_fails_near_sheet :
    ¬ SolidAngleAdditive (⟨0, 0, 0⟩ : V3 ℝ) (⟨0, 0, 0⟩ + vs (1 / 2) (⟨4, 0, 0⟩ - ⟨0, 0, 0⟩)) ⟨4, 0, 0⟩ ⟨0, 4, 0⟩
      ⟨1, 1, 1 / 10000000000⟩ := by
  rw [solid_angle_additive_iff _ _ _ _ (1 / 2) (by norm_num) (by norm_num)
    (by simp only [saN, V3.dot, V3.cross, V3.sub_x, V3.sub_y, V3.sub_z]; norm_num), not_not]
  exact witness_clamped

/-- a checkable sufficient condition for "not clamped": `D ≥ 0`, i.e. `|Ω| ≤ π` -/
theorem solid_angle_not_clamped_of_D_nonneg (R0 R1 R2 : V3 ℝ) (hD : 0 ≤ saD R0 R1 R2) : ¬ SolidAngleClamped R0 R1 R2 :=
  not_clamped_of_D_nonneg R0 R1 R2 hD

/-- **C13 (Triangle cut through a point of an edge)**, without the named hypothesis: `m = a + τ (b − a)`, `0 < τ < 1`; the observer
is off the plane of the triangle, the code does not clamp the solid angle of the whole triangle there, and the observer is outside
the `on_edge` tolerance of the edge `a b`, of its two pieces and of the new edge `m c`.  Then
`triangle_Bfield(a, m, c) + triangle_Bfield(m, b, c) = triangle_Bfield(a, b, c)`. -/
theorem triangle_split_additive (a b c pol obs : V3 ℝ) (τ : ℝ) (h0 : 0 < τ) (h1 : τ < 1)
    (hN : saN (a - obs) (b - obs) (c - obs) ≠ 0) (hcl : ¬ SolidAngleClamped (a - obs) (b - obs) (c - obs))
    (hoffW : ¬ TriEdgeOnV (a - obs) (b - obs) (b - a))
    (hoff1 : ¬ TriEdgeOnV (a - obs) (a + vs τ (b - a) - obs) (a + vs τ (b - a) - a))
    (hoff2 : ¬ TriEdgeOnV (a + vs τ (b - a) - obs) (b - obs) (b - (a + vs τ (b - a))))
    (hoffM : ¬ TriEdgeOnV (a + vs τ (b - a) - obs) (c - obs) (c - (a + vs τ (b - a)))) :
    triangleB a (a + vs τ (b - a)) c pol obs + triangleB (a + vs τ (b - a)) b c pol obs = triangleB a b c pol obs :=
  triangleB_split_offplane a b c pol obs τ h0 h1 hN hcl hoffW hoff1 hoff2 hoffM

-- non-vacuity: the triangle (0,0,0), (2,0,0), (0,1,0) cut at the midpoint of its first edge, observer (−1,−1,1) off the plane
-- (N = 2, all scalar products positive so D > 0)
example (pol : V3 ℝ) :
    triangleB (⟨0, 0, 0⟩ : V3 ℝ) (⟨0, 0, 0⟩ + vs (1 / 2) (⟨2, 0, 0⟩ - ⟨0, 0, 0⟩)) ⟨0, 1, 0⟩ pol ⟨-1, -1, 1⟩ +
      triangleB ((⟨0, 0, 0⟩ : V3 ℝ) + vs (1 / 2) (⟨2, 0, 0⟩ - ⟨0, 0, 0⟩)) ⟨2, 0, 0⟩ ⟨0, 1, 0⟩ pol ⟨-1, -1, 1⟩ =
    triangleB (⟨0, 0, 0⟩ : V3 ℝ) ⟨2, 0, 0⟩ ⟨0, 1, 0⟩ pol ⟨-1, -1, 1⟩ := by
  apply triangle_split_additive _ _ _ pol _ (1 / 2) (by norm_num) (by norm_num)
  · simp [saN, V3.dot, V3.cross]; norm_num
  · apply solid_angle_not_clamped_of_D_nonneg
    have h1 := norm_nonneg' ((⟨0, 0, 0⟩ : V3 ℝ) - ⟨-1, -1, 1⟩)
    have h2 := norm_nonneg' ((⟨2, 0, 0⟩ : V3 ℝ) - ⟨-1, -1, 1⟩)
    have h3 := norm_nonneg' ((⟨0, 1, 0⟩ : V3 ℝ) - ⟨-1, -1, 1⟩)
    simp only [saD, V3.dot, V3.sub_x, V3.sub_y, V3.sub_z]
    norm_num
    positivity
  · simp only [TriEdgeOnV, triEdgeOn, V3.dot, V3.cross, V3.sub_x, V3.sub_y, V3.sub_z, V3.add_x, V3.add_y, V3.add_z, vs]; norm_num
  · simp only [TriEdgeOnV, triEdgeOn, V3.dot, V3.cross, V3.sub_x, V3.sub_y, V3.sub_z, V3.add_x, V3.add_y, V3.add_z, vs]; norm_num
  · simp only [TriEdgeOnV, triEdgeOn, V3.dot, V3.cross, V3.sub_x, V3.sub_y, V3.sub_z, V3.add_x, V3.add_y, V3.add_z, vs]; norm_num
  · simp only [TriEdgeOnV, triEdgeOn, V3.dot, V3.cross, V3.sub_x, V3.sub_y, V3.sub_z, V3.add_x, V3.add_y, V3.add_z, vs]; norm_num

/-- C13 (inside test of a Tetrahedron cut through a point of an edge): for a positively oriented `(a, b, c, d)` and
`m = a + τ (b − a)`, `point_inside` of the whole is the disjunction of the parts' tests, and an observer off the cut plane `m c d`
is inside at most one part -/
theorem tetra_inside_edge_split (a b c d x : V3 ℝ) (τ : ℝ) (h0 : 0 < τ) (h1 : τ < 1)
    (hΔ : 0 < det3 (b - a) (c - a) (d - a)) :
    tetraInside a b c d x = (tetraInside a (a + vs τ (b - a)) c d x || tetraInside (a + vs τ (b - a)) b c d x) ∧
    (det3 (x - (a + vs τ (b - a))) (c - (a + vs τ (b - a))) (d - (a + vs τ (b - a))) ≠ 0 →
      ¬ (tetraInside a (a + vs τ (b - a)) c d x = true ∧ tetraInside (a + vs τ (b - a)) b c d x = true)) :=
  tetraInside_edge_split a b c d x τ h0 h1 hΔ

/-- **C13 (Tetrahedron cut through a point of one edge into two Tetrahedra)**: `BHJM_magnet_tetrahedron` of `(a, m, c, d)` plus
that of `(m, b, c, d)`, `m = a + τ (b − a)`, is that of `(a, b, c, d)` — all four fields B, H, J, M, same polarization — for a
positively oriented `(a, b, c, d)` and an observer (inside or outside) that is
  * off the planes of the two faces that are cut, `a c b` and `a b d`, at which the code does not clamp their solid angles,
  * off the cut plane `m c d`,
  * outside the `on_edge` tolerance of the edge `a b`, of its pieces `a m`, `m b` and of the three edges of the cut triangle.
The faces `a c b` and `a b d` are split by `triangle_split_additive`, the cut triangle is run once in each orientation and cancels
(`triangle_field_flip`), the faces `b c d` and `a d c` are common, and the inside tests are `tetra_inside_edge_split`. -/
theorem tetra_edge_split_additive (f : Field) (a b c d pol x : V3 ℝ) (τ : ℝ) (h0 : 0 < τ) (h1 : τ < 1)
    (hΔ : 0 < det3 (b - a) (c - a) (d - a))
    (hN1 : saN (b - x) (a - x) (c - x) ≠ 0) (hcl1 : ¬ SolidAngleClamped (b - x) (a - x) (c - x))
    (hN2 : saN (a - x) (b - x) (d - x) ≠ 0) (hcl2 : ¬ SolidAngleClamped (a - x) (b - x) (d - x))
    (hcut : det3 (x - (a + vs τ (b - a))) (c - (a + vs τ (b - a))) (d - (a + vs τ (b - a))) ≠ 0)
    (hab : ¬ TriEdgeOnV (a - x) (b - x) (b - a))
    (ham : ¬ TriEdgeOnV (a - x) (a + vs τ (b - a) - x) (a + vs τ (b - a) - a))
    (hmb : ¬ TriEdgeOnV (a + vs τ (b - a) - x) (b - x) (b - (a + vs τ (b - a))))
    (hwall : TriOffEdges (a + vs τ (b - a)) c d x) :
    bhjmTetra f a (a + vs τ (b - a)) c d pol x + bhjmTetra f (a + vs τ (b - a)) b c d pol x = bhjmTetra f a b c d pol x :=
  tetra_edge_split f a b c d pol x τ h0 h1 hΔ hN1 hcl1 hN2 hcl2 hcut hab ham hmb hwall

-- non-vacuity: the tetrahedron (0,0,0), (2,0,0), (0,1,0), (0,0,1) cut through the midpoint (1,0,0) of its first edge, observer
-- (−1,−1,−1) (outside; all scalar products of the corner directions positive, so every D > 0)
example (f : Field) (pol : V3 ℝ) :
    bhjmTetra f (⟨0, 0, 0⟩ : V3 ℝ) (⟨0, 0, 0⟩ + vs (1 / 2) (⟨2, 0, 0⟩ - ⟨0, 0, 0⟩)) ⟨0, 1, 0⟩ ⟨0, 0, 1⟩ pol ⟨-1, -1, -1⟩ +
      bhjmTetra f ((⟨0, 0, 0⟩ : V3 ℝ) + vs (1 / 2) (⟨2, 0, 0⟩ - ⟨0, 0, 0⟩)) ⟨2, 0, 0⟩ ⟨0, 1, 0⟩ ⟨0, 0, 1⟩ pol ⟨-1, -1, -1⟩ =
    bhjmTetra f (⟨0, 0, 0⟩ : V3 ℝ) ⟨2, 0, 0⟩ ⟨0, 1, 0⟩ ⟨0, 0, 1⟩ pol ⟨-1, -1, -1⟩ := by
  have ha := norm_nonneg' ((⟨0, 0, 0⟩ : V3 ℝ) - ⟨-1, -1, -1⟩)
  have hb := norm_nonneg' ((⟨2, 0, 0⟩ : V3 ℝ) - ⟨-1, -1, -1⟩)
  have hc := norm_nonneg' ((⟨0, 1, 0⟩ : V3 ℝ) - ⟨-1, -1, -1⟩)
  have hd := norm_nonneg' ((⟨0, 0, 1⟩ : V3 ℝ) - ⟨-1, -1, -1⟩)
  apply tetra_edge_split_additive f _ _ _ _ pol _ (1 / 2) (by norm_num) (by norm_num)
  · simp [det3]
  · simp [saN, V3.dot, V3.cross]; norm_num
  · apply solid_angle_not_clamped_of_D_nonneg
    simp only [saD, V3.dot, V3.sub_x, V3.sub_y, V3.sub_z]
    norm_num
    positivity
  · simp [saN, V3.dot, V3.cross]; norm_num
  · apply solid_angle_not_clamped_of_D_nonneg
    simp only [saD, V3.dot, V3.sub_x, V3.sub_y, V3.sub_z]
    norm_num
    positivity
  · simp [det3, vs]; norm_num
  · simp only [TriEdgeOnV, triEdgeOn, V3.dot, V3.cross, V3.sub_x, V3.sub_y, V3.sub_z, V3.add_x, V3.add_y, V3.add_z, vs]; norm_num
  · simp only [TriEdgeOnV, triEdgeOn, V3.dot, V3.cross, V3.sub_x, V3.sub_y, V3.sub_z, V3.add_x, V3.add_y, V3.add_z, vs]; norm_num
  · simp only [TriEdgeOnV, triEdgeOn, V3.dot, V3.cross, V3.sub_x, V3.sub_y, V3.sub_z, V3.add_x, V3.add_y, V3.add_z, vs]; norm_num
  · refine ⟨?_, ?_, ?_⟩ <;>
      simp only [TriEdgeOnV, triEdgeOn, V3.dot, V3.cross, V3.sub_x, V3.sub_y, V3.sub_z, V3.add_x, V3.add_y, V3.add_z, vs] <;> norm_num

end MagpyVerif.C13
