/-
Props/C20e.lean — C20, the DEFAULTS layers of the style resolution derived from the state machine.

`get_style(obj, magpylib.defaults, **show_kwargs)` is `StyleEffective.getStyleW` (Model/StyleEffective.lean, tied to the
real function by the `seff` stream): the flat default dictionary is computed from the TREE of object 0 of the world
(`as_dict(flatten=True, separator="_")` of `defaults.display.style.base`, updated by the non-None entries of the object's
families in the order of the regenerated `get_families` table), and both updates are run by the state machine's
`updateObj` — validators, constructors, all-or-nothing.  The theorems read the result at a plain property of the object's
style in terms of READS of the world (`readAt`), for every well-formed world (every reachable world is one:
`C20c.reachable_states_wellformed`, `C20c.inv0_exec`; here `reachable_world_ok`).

/- FULL: for every reachable world, every object, every plain property `q` and ANY show() keywords: `get_style` returns
   unless <characterisation of the raising calls>, and the resolved style holds at `q` the first non-None of
   [keyword value ; own value ; family defaults, most specific first ; base default].
   Proved: `effective_style_reads_gen` / `effective_style_reads` / `effective_style_reads_exact` / `show_keyword_wins` for
   every well-formed world, over READS of the world, for show() keywords that after `magic_to_dict` FIT the object's
   style class (`fitsKids`: keys are properties, plain properties get non-dict values, sub-objects fitting dicts — the
   keywords of other families that `get_style` drops are covered, they are filtered by `specific` before), CONDITIONAL on
   `get_style` returning (`hres`).
   Missing: (1) when the two updates raise is not characterised (a keyword value a setter refuses, an unknown name below
   a valid first segment, a dict / None / string for a sub-object): the `seff` stream compares the exception classes, no
   theorem; in particular "without keywords get_style never raises in a reachable world" is observed by the stream only
   (it needs: every leaf of `normKids` is accepted, which follows from `vidsAgree` + fixpoints but is not written down);
   (2) keywords that assign a dict / None / a string to a SUB-OBJECT property (accepted by the code, outside `fitsKids`,
   as in C20d.FitOp); (3) the `style={…}` keyword of show() is not in the model; (4) the composition with the abstract
   map of C20d (`reads_refine`: `ownAt` / `dfltAt` are `readAt`s of a reachable world) is left to C20d. -/
-/
import MagpyVerif.Props.C20d
import MagpyVerif.Lemmas.StyleEffective

namespace MagpyVerif.C20e
open MagpyVerif.StyleNested MagpyVerif.StyleState MagpyVerif.Gen.StyleSchema MagpyVerif.C20c MagpyVerif.C20d
open MagpyVerif.StyleEffective MagpyVerif.Style

/-! ### what is read in the world -/

/-- the object's own value: `obj_j.style.<q>` -/
def ownAt (w : World) (j : Nat) (q : List Key) : Option Val :=
  match readAt w j q with
  | .ok (.leaf v) => v
  | _ => none

/-- the value the defaults of family `fam` hold for `q`: `magpylib.defaults.display.style.<fam>.<q>` when that is a plain
property of the family's default class — skipped (None) otherwise, in particular for a family without a defaults entry -/
def dfltAt (w : World) (fam : Str) (q : List Key) : Option Val :=
  match leafVid props0 (styleRoot ++ .str fam :: q) with
  | some _ => (match readAt w 0 (styleRoot ++ .str fam :: q) with | .ok (.leaf v) => v | _ => none)
  | none => none

/-- the precedence chain below the show() keywords: own value, family defaults MOST SPECIFIC FIRST (the reverse of the
order in which `get_style` merges them), base default -/
def chain (w : World) (j : Nat) (fams : List Str) (q : List Key) : Option Val :=
  firstSome (ownAt w j q :: (fams.reverse.map (fun f => dfltAt w f q)) ++ [dfltAt w "base".toList q])

/-- the same chain with the value `y` in the place of the object's own value -/
def chainFrom (w : World) (y : Option Val) (fams : List Str) (q : List Key) : Option Val :=
  firstSome (y :: (fams.reverse.map (fun f => dfltAt w f q)) ++ [dfltAt w "base".toList q])

/-! ### computed facts about the regenerated classes -/

theorem propsAt_style : propsAt props0 styleRoot = some cDisplayStyle.props := by rfl

/-- computed: `DisplayStyle` (the class of `defaults.display.style`) satisfies the schema conditions -/
theorem styleProps_facts :
    okProps cDisplayStyle.props = true ∧ okProps2 cDisplayStyle.props = true := by
  decide +kernel

/-- **computed over the regenerated classes and the regenerated `get_families` table**: for every object class, the
default classes of "base" and of its families FIT its style class — no leaf path of one is a proper prefix of a leaf path
of another (so the flat keys parse back uniquely and `update` never puts a dict where the style has a plain property) -/
theorem families_fit :
    (objectClasses.zip families).all (fun x =>
      match classes[x.1.2]? with
      | some c => famOK cDisplayStyle.props c.schema.props ("base".toList :: x.2.2)
      | none => false) = true := by
  decide +kernel


/-! ### the flat default dictionary in terms of reads of `magpylib.defaults` -/

theorem famFlat_nodup {sps : List (Key × Schema)} {sty : Dict} {f : Str} {fd : FlatD} (h : famFlat sps sty f = some fd) :
    nodupK fd = true := by
  unfold famFlat at h
  split at h
  · injection h with h; subst h; exact nodupK_flatDict _
  · cases h

/-- what `as_dict(flatten=True, separator="_")` of `defaults.display.style.<fam>` has under the key `"_".join(q)` is what
is READ in the world at `defaults.display.style.<fam>.<q>` (None when that is not a plain property) -/
theorem famLeaf_eq_dfltAt (w : World) (x0 : Tree) (hx0 : w[0]? = some ⟨0, [(dk, x0)]⟩) (sty : Dict)
    (hsty : wfKids (fixB tables) cDisplayStyle.props sty = true)
    (s4 : ∀ rest, readPath props0 [(dk, x0)] (styleRoot ++ rest) = readPath cDisplayStyle.props sty rest)
    (s5 : ∀ rest, leafVid props0 (styleRoot ++ rest) = leafVid cDisplayStyle.props rest)
    (f : Str) (q : List Str) (hne : q ≠ []) (hsf : ∀ x ∈ q, '_' ∉ x) :
    famLeaf cDisplayStyle.props sty f (.str (joinWith '_' q)) = dfltAt w f (q.map Key.str) := by
  obtain ⟨bases, hbz⟩ := classes_zero
  have hread : readAt w 0 (styleRoot ++ .str f :: q.map Key.str) = readPath cDisplayStyle.props sty (.str f :: q.map Key.str) := by
    rw [readAt_of w 0 _ _ _ hx0 hbz]
    exact s4 _
  unfold dfltAt
  rw [s5, hread]
  obtain ⟨a, b, hab⟩ : ∃ a b, q.map Key.str = a :: b := by
    cases q with
    | nil => exact absurd rfl hne
    | cons a b => exact ⟨_, _, rfl⟩
  unfold famLeaf famFlat
  cases hl : lookup (.str f) cDisplayStyle.props with
  | none => simp [hab, leafVid, hl]
  | some s =>
    cases s with
    | leaf v => simp [hab, leafVid, hl]
    | alias t => simp [hab, leafVid, hl]
    | obj psF a1 b1 c1 d1 =>
      obtain ⟨v0, hv1, hv2⟩ := wfKids_lookup (fixB tables) (.str f) (.obj psF a1 b1 c1 d1) rfl _ sty hsty hl
      obtain ⟨sub, rfl, hsub⟩ := wfVal_obj_elim hv2
      have hs1 := okProps_lookup styleProps_facts.1 hl
      have hs2 := okProps2_lookup styleProps_facts.2 hl
      rw [okSchema] at hs1
      rw [okSchema2] at hs2
      simp only [Bool.and_eq_true] at hs1 hs2
      have hgood := wfKids_good (fixB tables) psF hs2.1.1.1.1.1 hs2.1.1.1.1.2 sub hsub
      simp only [hv1]
      rw [flatDict_lookup sub hgood q hne hsf]
      have hlv : leafVid cDisplayStyle.props (.str f :: q.map Key.str) = leafVid psF (q.map Key.str) := by
        rw [hab]; simp [leafVid, hl]
      have hrd : readPath cDisplayStyle.props sty (.str f :: q.map Key.str) = readPath psF sub (q.map Key.str) := by
        simp [readPath, hl, hv1]
      rw [hlv, hrd]
      cases hq : leafVid psF (q.map Key.str) with
      | some vid' =>
        obtain ⟨y, hy1, hy2, _⟩ := read_wf (fixB tables) _ psF sub vid' hsub hq
        simp only [hy1, hy2]
      | none =>
        simp only []
        cases hg : getPath (.node sub) (q.map Key.str) with
        | none => rfl
        | some t =>
          cases t with
          | node kv => rfl
          | leaf v =>
            obtain ⟨vid', hv'⟩ := leafVid_of_getPath_leaf (fixB tables) _ psF sub v hs1.1.1 hs1.1.2 hsub hg
            rw [hq] at hv'; cases hv'

/-- computed (as in C20d): property names of every class are strings without underscore -/
theorem class_keys {c : ClassInfo} (hc : c ∈ classes) : keysOK '_' c.schema.props = true := by
  have h2 := List.all_eq_true.mp classes_wellformed2 c hc
  have h1 := List.all_eq_true.mp classes_wellformed.1 c hc
  simp only [Bool.and_eq_true] at h1
  cases hs : c.schema with
  | leaf v => rw [hs] at h1; cases h1.2
  | alias t => rw [hs] at h1; cases h1.2
  | obj ps a b ct vk =>
    rw [hs] at h2
    rw [okSchema2] at h2
    simp only [Bool.and_eq_true] at h2
    exact h2.1.1.1.1.2

/-! ### the resolution order, over reads of the world -/


/-- the general form: `y` is what the style holds at `q` after the FIRST update (the show() keywords) — the setter's image
of the keyword's value if the keywords have one at `q`, else the object's own value -/
theorem effective_style_reads_gen (w : World) (hwf : WFW w) (h0 : Inv0 w) (j : Nat) (o : Obj) (c : ClassInfo)
    (ho : w[j]? = some o) (hc : classes[o.cls]? = some c) (fams : List Str)
    (hfam : famOK cDisplayStyle.props c.schema.props ("base".toList :: fams) = true)
    (kw mk : Dict) (hmk : updArg none (specific o.tree kw) = .ok mk) (hfit : fitsKids c.schema.props mk = true)
    (hmw : StyleNested.wfKids mk = true) (q : List Str) (vid : Nat) (hq : leafVid c.schema.props (q.map Key.str) = some vid)
    (res : Dict) (hres : getStyleW w j fams kw = .ok res) :
    ∃ y x', (match getPath (.node mk) (q.map Key.str) with
        | some (.leaf v) => runV tables vid (.leaf v) = .ok y
        | _ => ownAt w j (q.map Key.str) = y) ∧
      fixB tables vid y = true ∧
      runV tables vid (.leaf (chainFrom w y fams (q.map Key.str))) = .ok x' ∧
      readPath c.schema.props res (q.map Key.str) = .ok (.leaf x') := by
  obtain ⟨o0, o', c0, c', bsf, e0, ej, ec0, ec, hb, _, htu⟩ := getStyle_ok_elim _ _ _ w j fams kw res hres
  rw [ho] at ej
  injection ej with ej
  subst ej
  rw [hc] at ec
  injection ec with ec
  subst ec
  obtain ⟨x0, hx0⟩ := h0
  rw [hx0] at e0
  injection e0 with e0
  subst e0
  obtain ⟨bases, hbz⟩ := classes_zero
  rw [show (Obj.mk 0 [(dk, x0)]).cls = 0 from rfl, hbz] at ec0
  injection ec0 with ec0
  subst ec0
  obtain ⟨c0', h1, hw0⟩ := hwf 0 _ hx0
  rw [show (Obj.mk 0 [(dk, x0)]).cls = 0 from rfl, hbz] at h1
  injection h1 with h1
  subst h1
  have hw0' : wfKids (fixB tables) props0 [(dk, x0)] = true := hw0
  obtain ⟨c'', h2, hwfj⟩ := hwf j o ho
  rw [hc] at h2
  injection h2 with h2
  subst h2
  have hcm : c ∈ classes := List.mem_of_getElem? hc
  obtain ⟨g1, g2, g3⟩ := class_facts hcm
  have hkeys := class_keys hcm
  obtain ⟨t1, hu1, hu2⟩ := twoUpdates_ok_elim _ _ _ _ _ _ _ htu
  -- the first update: the show() keywords do not touch `q`
  have hacc1 : (updateObj tables c.schema.props c.schema.others o.tree none (specific o.tree kw) true false).2 = .ok () := by rw [hu1]
  have hr1 := updateObj_fits_read tables _ _ o.tree none (specific o.tree kw) true mk hmk hfit hmw g1 g2 g3 hwfj hacc1 (q.map Key.str) vid hq
  rw [hu1] at hr1
  have hw1 : wfKids (fixB tables) c.schema.props t1 = true := by
    have := updateObj_wf tables validators_idempotent c.schema.props g1 c.schema.others o.tree none (specific o.tree kw) true false hwfj
    rw [hu1] at this
    exact this
  obtain ⟨y, hy1, hy2, hy3⟩ := read_wf (fixB tables) (q.map Key.str) c.schema.props t1 vid hw1 hq
  obtain ⟨y0, _, hy02, _⟩ := read_wf (fixB tables) (q.map Key.str) c.schema.props o.tree vid hwfj hq
  have hown : ownAt w j (q.map Key.str) = y0 := by
    unfold ownAt
    rw [readAt_of w j o c _ ho hc, hy02]
  have hspec : (match getPath (.node mk) (q.map Key.str) with
      | some (.leaf v) => runV tables vid (.leaf v) = .ok y
      | _ => ownAt w j (q.map Key.str) = y) := by
    have hold : readPath c.schema.props t1 (q.map Key.str) = readPath c.schema.props o.tree (q.map Key.str) →
        ownAt w j (q.map Key.str) = y := by
      intro h
      rw [hy2, hy02] at h
      injection h with h
      injection h with h
      rw [hown, h]
    cases hg : getPath (.node mk) (q.map Key.str) with
    | none => rw [hg] at hr1; exact hold hr1
    | some t =>
      cases t with
      | leaf v =>
        rw [hg] at hr1
        obtain ⟨x, hx1, hx2⟩ := hr1
        rw [hy2] at hx2
        injection hx2 with hx2
        injection hx2 with hx2
        simp only []
        rw [hx2]; exact hx1
      | node kv => rw [hg] at hr1; exact hold hr1
  -- the flat default dictionary
  obtain ⟨sty, s1, s2, _, s4, s5⟩ := subAt_wf (fixB tables) styleRoot props0 [(dk, x0)] _ hw0' propsAt_style
  have hb' : baseStyleFlat props0 [(dk, x0)] fams = .ok bsf := hb
  unfold baseStyleFlat at hb'
  rw [s1] at hb'
  simp only [] at hb'
  cases hfb : famFlat cDisplayStyle.props sty "base".toList with
  | none => rw [hfb] at hb'; cases hb'
  | some b =>
    rw [hfb] at hb'
    simp only [Except.ok.injEq] at hb'
    subst hb'
    have hbn : nodupK (mergeFams cDisplayStyle.props sty b fams) = true := nodupK_mergeFams _ _ fams b (famFlat_nodup hfb)
    have hF : ∀ f ∈ fams, f ∈ "base".toList :: fams := fun f hf => List.mem_cons_of_mem _ hf
    have hbk : ∀ kv ∈ mergeFams cDisplayStyle.props sty b fams,
        KeyFact (allDefaultLeaves cDisplayStyle.props ("base".toList :: fams)) kv.1 := by
      intro kv hkv
      obtain ⟨v', hv'⟩ := lookup_isSome_of_mem (show (kv.1, kv.2) ∈ _ from hkv)
      exact mergeFams_keys (fixB tables) _ sty styleProps_facts.1 styleProps_facts.2 s2 _ fams b hF
        (fun key v hl => famFlat_keys (fixB tables) _ sty styleProps_facts.1 styleProps_facts.2 s2 _ "base".toList
          (List.mem_cons_self ..) b hfb key v hl) kv.1 v' hv'
    obtain ⟨hA1, hA2⟩ := famOK_elim hfam
    have hacc2 : (updateObj tables c.schema.props c.schema.others t1 none
        (flatKw (mergeFams cDisplayStyle.props sty b fams)) false true).2 = .ok () := by rw [hu2]
    obtain ⟨x', hx1, hx2⟩ := fill_leaf tables c.schema.props c.schema.others t1 _ _ g1 g2 g3 hkeys hw1 hbn hbk hA1 hA2 hacc2 q vid hq y hy1
    rw [hu2] at hx2
    refine ⟨y, x', hspec, hy3, ?_, hx2⟩
    have hqne : q ≠ [] := by intro e; subst e; simp [leafVid] at hq
    have hgt : goodKids '_' t1 = true := wfKids_good (fixB tables) _ g2 hkeys t1 hw1
    have hqf : ∀ x ∈ q, '_' ∉ x := (good_getPath q (.node t1) _ (by simpa [Tree.good] using hgt) hy1).1
    have hfl : ∀ f, famLeaf cDisplayStyle.props sty f (.str (joinWith '_' q)) = dfltAt w f (q.map Key.str) :=
      fun f => famLeaf_eq_dfltAt w x0 hx0 sty s2 s4 s5 f q hqne hqf
    have hbase : (lookup (.str (joinWith '_' q)) b).join = dfltAt w "base".toList (q.map Key.str) := by
      rw [← hfl]; unfold famLeaf; rw [hfb]
    have hlk : (lookup (.str (joinWith '_' q)) (mergeFams cDisplayStyle.props sty b fams)).join =
        firstSome ((fams.reverse.map (fun f => dfltAt w f (q.map Key.str))) ++ [dfltAt w "base".toList (q.map Key.str)]) := by
      rw [lookup_mergeFams, hbase]
      simp only [hfl]
    rw [hlk, orDefault_firstSome] at hx1
    unfold chainFrom
    exact hx1

/-- **C20 — the effective style, DEFAULTS layers included, read in the world.**  In every well-formed world (every
reachable world), for an object `j` of class `c` whose families' default classes fit `c` (`famOK`, computed for every
regenerated object class: `families_fit`), show() keywords that — after `magic_to_dict` — fit the class and have NO value
at the plain property `q`: whenever `get_style` returns (`getStyleW … = ok res`), the resolved style holds at `q` the image
under `q`'s OWN validator of the first non-None of
  [ the value read in the object's own style at `q` ;
    for each family of the object, MOST SPECIFIC FIRST (reverse of the merge order), the value read in `magpylib.defaults`
    at `display.style.<family>.<q>` when that is a plain property of the family's default class (skipped otherwise,
    e.g. for "cuboid", which has no defaults entry) ;
    the value read at `display.style.base.<q>` ]
— the second update re-assigns ALL leaves, so the validator of the object's class has the last word
(`effective_style_reads_exact`: it changes nothing when the default's validator is the same one). -/
theorem effective_style_reads (w : World) (hwf : WFW w) (h0 : Inv0 w) (j : Nat) (o : Obj) (c : ClassInfo)
    (ho : w[j]? = some o) (hc : classes[o.cls]? = some c) (fams : List Str)
    (hfam : famOK cDisplayStyle.props c.schema.props ("base".toList :: fams) = true)
    (kw mk : Dict) (hmk : updArg none (specific o.tree kw) = .ok mk) (hfit : fitsKids c.schema.props mk = true)
    (hmw : StyleNested.wfKids mk = true) (q : List Str) (vid : Nat) (hq : leafVid c.schema.props (q.map Key.str) = some vid)
    (hkwq : ∀ v, getPath (.node mk) (q.map Key.str) ≠ some (.leaf v))
    (res : Dict) (hres : getStyleW w j fams kw = .ok res) :
    ∃ x', runV tables vid (.leaf (chain w j fams (q.map Key.str))) = .ok x' ∧
      readPath c.schema.props res (q.map Key.str) = .ok (.leaf x') := by
  obtain ⟨y, x', h1, _, h3, h4⟩ := effective_style_reads_gen w hwf h0 j o c ho hc fams hfam kw mk hmk hfit hmw q vid hq res hres
  refine ⟨x', ?_, h4⟩
  have hy : ownAt w j (q.map Key.str) = y := by
    cases hg : getPath (.node mk) (q.map Key.str) with
    | none => rw [hg] at h1; exact h1
    | some t =>
      cases t with
      | leaf v => exact absurd hg (hkwq v)
      | node kv => rw [hg] at h1; exact h1
  unfold chain
  rw [hy]
  exact h3

/-- **a show() keyword exactly at `q` wins**: if the keywords (after `magic_to_dict`) have the value `v` at the plain
property `q` and `q`'s setter stores a non-None value `a` for it, the resolved style holds `a` at `q` — whatever the
object's own style and the defaults say.  (A keyword whose stored value is None does not win: `_replace_None_only` fills
it from the defaults like an unset property — `effective_style_reads_gen`.) -/
theorem show_keyword_wins (w : World) (hwf : WFW w) (h0 : Inv0 w) (j : Nat) (o : Obj) (c : ClassInfo)
    (ho : w[j]? = some o) (hc : classes[o.cls]? = some c) (fams : List Str)
    (hfam : famOK cDisplayStyle.props c.schema.props ("base".toList :: fams) = true)
    (kw mk : Dict) (hmk : updArg none (specific o.tree kw) = .ok mk) (hfit : fitsKids c.schema.props mk = true)
    (hmw : StyleNested.wfKids mk = true) (q : List Str) (vid : Nat) (hq : leafVid c.schema.props (q.map Key.str) = some vid)
    (v : Option Val) (a : Val) (hkwq : getPath (.node mk) (q.map Key.str) = some (.leaf v))
    (hv : runV tables vid (.leaf v) = .ok (some a))
    (res : Dict) (hres : getStyleW w j fams kw = .ok res) :
    readPath c.schema.props res (q.map Key.str) = .ok (.leaf (some a)) := by
  obtain ⟨y, x', h1, h2, h3, h4⟩ := effective_style_reads_gen w hwf h0 j o c ho hc fams hfam kw mk hmk hfit hmw q vid hq res hres
  rw [hkwq] at h1
  simp only [] at h1
  rw [hv] at h1
  injection h1 with h1
  subst h1
  have : chainFrom w (some a) fams (q.map Key.str) = some a := rfl
  rw [this, runV_of_fixB h2] at h3
  injection h3 with h3
  rw [h4, ← h3]

/-! ### the validator of the object's class agrees with the validators of the defaults -/

/-- for every family with a defaults entry: a path that is a plain property both of the family's default class and of
the style class has the same validator in both -/
def vidsAgree (sps cps : List (Key × Schema)) (fams : List Str) : Bool :=
  fams.all (fun f => match lookup (.str f) sps with
    | some (.obj psF _ _ _ _) => (leavesL psF).all (fun p => match leafVid psF p, leafVid cps p with
      | some a, some b => a == b
      | _, _ => true)
    | _ => true)

/-- **computed over the regenerated classes and the `get_families` table**: every default that can flow into an object's
style is validated there by the same validator that accepted it in `magpylib.defaults` -/
theorem families_validators_agree :
    (objectClasses.zip families).all (fun x =>
      match classes[x.1.2]? with
      | some c => vidsAgree cDisplayStyle.props c.schema.props ("base".toList :: x.2.2)
      | none => false) = true := by
  decide +kernel

theorem firstSome_mem : ∀ (L : List (Option Val)) (v : Val), firstSome L = some v → some v ∈ L := by
  intro L
  induction L with
  | nil => intro v h; cases h
  | cons hd t ih =>
    intro v h
    cases hd with
    | none => exact List.mem_cons_of_mem _ (ih v h)
    | some a =>
      simp only [firstSome, Option.some.injEq] at h
      subst h
      exact List.mem_cons_self ..

/-- a non-None default that `dfltAt` reads is a fixpoint of the validator of the object's class at the same path -/
theorem dfltAt_fix (w : World) (hwf : WFW w) (h0 : Inv0 w) (cps : List (Key × Schema)) (F : List Str)
    (hagree : vidsAgree cDisplayStyle.props cps F = true) (f : Str) (hf : f ∈ F) (q : List Key) (vid : Nat)
    (hq : leafVid cps q = some vid) (v : Val) (hd : dfltAt w f q = some v) : fixB tables vid (some v) = true := by
  obtain ⟨x0, hx0⟩ := h0
  obtain ⟨bases, hbz⟩ := classes_zero
  obtain ⟨c0', h1, hw0⟩ := hwf 0 _ hx0
  rw [show (Obj.mk 0 [(dk, x0)]).cls = 0 from rfl, hbz] at h1
  injection h1 with h1
  subst h1
  have hw0' : wfKids (fixB tables) props0 [(dk, x0)] = true := hw0
  obtain ⟨sty, _, _, _, _, s5⟩ := subAt_wf (fixB tables) styleRoot props0 [(dk, x0)] _ hw0' propsAt_style
  unfold dfltAt at hd
  cases hl : leafVid props0 (styleRoot ++ .str f :: q) with
  | none => rw [hl] at hd; cases hd
  | some vid' =>
    rw [hl] at hd
    simp only [] at hd
    obtain ⟨y, _, hy2, hy3⟩ := read_wf (fixB tables) _ props0 [(dk, x0)] vid' hw0' hl
    rw [readAt_of w 0 _ _ _ hx0 hbz] at hd
    have hy2' : readPath cDefaultSettings.props [(dk, x0)] (styleRoot ++ .str f :: q) = .ok (.leaf y) := hy2
    rw [hy2'] at hd
    simp only [] at hd
    subst hd
    -- the two validators are the same one
    rw [s5] at hl
    have hqne : q ≠ [] := by intro e; subst e; simp [leafVid] at hq
    obtain ⟨a, b, rfl⟩ : ∃ a b, q = a :: b := by
      cases q with
      | nil => exact absurd rfl hqne
      | cons a b => exact ⟨a, b, rfl⟩
    simp only [leafVid] at hl
    split at hl
    · rename_i psF a1 b1 c1 d1 hlf
      unfold vidsAgree at hagree
      have h2 := List.all_eq_true.mp hagree f hf
      simp only [hlf] at h2
      have h3 := List.all_eq_true.mp h2 _ (mem_leavesL _ psF vid' hl)
      rw [hl, hq] at h3
      simp only [beq_iff_eq] at h3
      subst h3
      exact hy3
    · cases hl

/-- **C20 — the documented precedence, exactly.**  With the validators agreeing (`families_validators_agree`: computed for
every regenerated object class), under the hypotheses of `effective_style_reads` the resolved style holds at `q` EXACTLY
the first non-None of [own value ; family defaults, most specific first ; base default] (None if all are None): the
re-assignment of all leaves by the second update changes nothing, because every candidate is a fixpoint of `q`'s validator. -/
theorem effective_style_reads_exact (w : World) (hwf : WFW w) (h0 : Inv0 w) (j : Nat) (o : Obj) (c : ClassInfo)
    (ho : w[j]? = some o) (hc : classes[o.cls]? = some c) (fams : List Str)
    (hfam : famOK cDisplayStyle.props c.schema.props ("base".toList :: fams) = true)
    (hagree : vidsAgree cDisplayStyle.props c.schema.props ("base".toList :: fams) = true)
    (kw mk : Dict) (hmk : updArg none (specific o.tree kw) = .ok mk) (hfit : fitsKids c.schema.props mk = true)
    (hmw : StyleNested.wfKids mk = true) (q : List Str) (vid : Nat) (hq : leafVid c.schema.props (q.map Key.str) = some vid)
    (hkwq : ∀ v, getPath (.node mk) (q.map Key.str) ≠ some (.leaf v))
    (res : Dict) (hres : getStyleW w j fams kw = .ok res) :
    readPath c.schema.props res (q.map Key.str) = .ok (.leaf (chain w j fams (q.map Key.str))) := by
  obtain ⟨y, x', h1, h2, h3, h4⟩ := effective_style_reads_gen w hwf h0 j o c ho hc fams hfam kw mk hmk hfit hmw q vid hq res hres
  have hy : ownAt w j (q.map Key.str) = y := by
    cases hg : getPath (.node mk) (q.map Key.str) with
    | none => rw [hg] at h1; exact h1
    | some t =>
      cases t with
      | leaf v => exact absurd hg (hkwq v)
      | node kv => rw [hg] at h1; exact h1
  have hch : chainFrom w y fams (q.map Key.str) = chain w j fams (q.map Key.str) := by unfold chain chainFrom; rw [hy]
  have hfix : fixB tables vid (chainFrom w y fams (q.map Key.str)) = true := by
    cases hc' : chainFrom w y fams (q.map Key.str) with
    | none =>
      have : y = none := by
        cases y with
        | none => rfl
        | some a => simp [chainFrom, firstSome] at hc'
      rw [← this]; exact h2
    | some v =>
      have hm := firstSome_mem _ v hc'
      rcases List.mem_cons.mp hm with e | hm
      · rw [e]; exact h2
      · rcases List.mem_append.mp hm with hm | hm
        · obtain ⟨f, hf, hfe⟩ := List.mem_map.mp hm
          exact dfltAt_fix w hwf h0 _ _ hagree f (List.mem_cons_of_mem _ (List.mem_reverse.mp hf)) _ vid hq v hfe
        · simp only [List.mem_singleton] at hm
          exact dfltAt_fix w hwf h0 _ _ hagree "base".toList (List.mem_cons_self ..) _ vid hq v hm.symm
  rw [runV_of_fixB hfix] at h3
  injection h3 with h3
  rw [h4, ← h3, hch]

/-! ### every reachable world meets the hypotheses; non-vacuity -/

/-- the hypotheses `WFW`, `Inv0` of the theorems above hold after every history (C20c: `wfw_init`, `wfw_step`, `inv0_exec`) -/
theorem reachable_world_ok (cls : List Nat) (hcls : ∀ ci ∈ cls, ci < classes.length) (ops : List Op) :
    WFW (exec tables classes defaults (init cls) ops) ∧ Inv0 (exec tables classes defaults (init cls) ops) := by
  refine ⟨?_, inv0_exec ops _ (inv0_init cls)⟩
  have key : ∀ (l : List Op) (w : World), WFW w → WFW (exec tables classes defaults w l) := by
    intro l
    induction l with
    | nil => intro w h; exact h
    | cons op t ih => intro w h; rw [exec_cons]; exact ih _ (wfw_step w op h)
  exact key ops _ (wfw_init cls hcls)

/-- the families of every regenerated object class meet the hypotheses `famOK` / `vidsAgree`; e.g. for a Cuboid -/
example : famOK cDisplayStyle.props cMagnetStyle.props ("base".toList :: ["magnet".toList, "cuboid".toList]) = true ∧
    vidsAgree cDisplayStyle.props cMagnetStyle.props ("base".toList :: ["magnet".toList, "cuboid".toList]) = true := by
  decide +kernel

/-- non-vacuity of `effective_style_reads(_exact)` and `show_keyword_wins`: a Cuboid (families magnet, cuboid — the latter
without a defaults entry) after the history `defaults.display.style.magnet.magnetization.show = False`,
`defaults.display.style.base.update(opacity=0.5)`, `cuboid.style.path.line.width = 2`; show() keywords
`style_path_line_style="dashed"` and `style_arrows_x_show=True` (a key of the sensor family: valid, but dropped for a
magnet).  The keywords fit, `get_style` returns, and the resolved style reads False at `magnetization.show` (family
default beats nothing / base), 0.5 at `opacity` (base default; "magnet" has no such leaf, "cuboid" no entry), 2 at
`path.line.width` (own value beats the defaults), "dashed" at `path.line.style` (keyword) — as the chains say. -/
example :
    let kS : String → Key := fun s => .str s.toList
    let ops : List Op := [
      .setattr 0 [kS "display", kS "style", kS "magnet", kS "magnetization"] (kS "show") (.leaf (some 12)),
      .update 0 [kS "display", kS "style", kS "base"] none [(kS "opacity", .leaf (some 21))] true false,
      .setattr 1 [kS "path", kS "line"] (kS "width") (.leaf (some 15))]
    let w := exec tables classes defaults (init [1]) ops
    let fams : List Str := ["magnet".toList, "cuboid".toList]
    let kw : Dict := [(kS "path_line_style", .leaf (some 37)), (kS "arrows_x_show", .leaf (some 5))]
    let cps := cMagnetStyle.props
    let qShow := [kS "magnetization", kS "show"]
    let qWidth := [kS "path", kS "line", kS "width"]
    let qStyle := [kS "path", kS "line", kS "style"]
    (annot (init [1]) ops).map (·.2) = [true, true, true] ∧
    (match w[1]? with
      | some o =>
        (match updArg none (specific o.tree kw) with
          | .ok mk => fitsKids cps mk && StyleNested.wfKids mk &&
              (match getPath (.node mk) qStyle with | some (.leaf (some 37)) => true | _ => false) &&
              (match getPath (.node mk) qShow with | some (.leaf _) => false | _ => true) &&
              (match getPath (.node mk) qWidth with | some (.leaf _) => false | _ => true)
          | .error _ => false)
      | none => false) = true ∧
    (leafVid cps qShow).isSome = true ∧ (leafVid cps [kS "opacity"]).isSome = true ∧ (leafVid cps qWidth).isSome = true ∧
    chain w 1 fams qShow = some 12 ∧ chain w 1 fams [kS "opacity"] = some 21 ∧ chain w 1 fams qWidth = some 15 ∧
    dfltAt w "cuboid".toList [kS "opacity"] = none ∧ ownAt w 1 qShow = none ∧
    (match getStyleW w 1 fams kw with
      | .ok r =>
        (match readPath cps r qShow, readPath cps r [kS "opacity"], readPath cps r qWidth, readPath cps r qStyle with
          | .ok (.leaf (some 12)), .ok (.leaf (some 21)), .ok (.leaf (some 15)), .ok (.leaf (some 37)) => true
          | _, _, _, _ => false)
      | .error _ => false) = true := by
  decide +kernel

end MagpyVerif.C20e
