/-
Props/C06.lean — each output element depends only on its own source, path index and observer.
-/
import MagpyVerif.Lemmas.Level2Compose
namespace MagpyVerif.C06
open MagpyVerif MagpyVerif.Level2
variable {G V : Type}

section
variable [Group G] [AddCommGroup V] [DistribMulAction G V] [BEq G]

/-- row `m` of leaf `s` is `s`'s own field at its own (clamped) pose `m`, evaluated at the pixel
positions of path index `m`: no other source, no other path index enters; rows beyond the
longest path do not exist -/
theorem element_depends_on_own_source (sensors : List (Sens G V)) (M : Nat) (s : Src G V) (m : Nat) :
    (leafB sensors M s)[m]? = if m < M then some ((poso sensors m).map (level1 s m)) else none :=
  leafB_getElem? sensors M s m

/-- an object whose path is shorter than `m` stays at its last pose -/
theorem short_path_stays_at_last_pose {α : Type} (xs : List α) (m : Nat) (h : xs.length ≤ m + 1) : clampGet xs m = xs.getLast? := by
  unfold clampGet
  have : min m (xs.length - 1) = xs.length - 1 := by omega
  rw [this, List.getLast?_eq_getElem?]
end

/-- the value for a pixel is independent of which other sensors are in the call -/
theorem pixels_independent [Group G] [AddCommGroup V] [DistribMulAction G V] [BEq G]
    (ks1 ks2 : List (Sens G V)) (s : Src G V) (m : Nat) :
    (poso (ks1 ++ ks2) m).map (level1 s m) =
      (poso ks1 m).map (level1 s m) ++ (poso ks2 m).map (level1 s m) := by
  rw [poso_append, List.map_append]


section refines
variable [Group G] [AddCommGroup V] [DistribMulAction G V] [BEq G] [LawfulBEq G]

/-- **the whole pipeline**: for every number, order and nesting of sources and collections, every mix
of path lengths and every mix of pixel shapes, the tensor the marshalling code assembles
(`Model/Level2.tensor`: per-leaf evaluation through the leaf's own frame at its own clamped pose,
the slice-sum-and-delete collection loop, the three sensor back-rotation code paths, the handedness
flip, the split at the cumulative pixel indices) is, element by element, the specification: entry
`[e][m][k][j]` is the sum over the leaves of entry `e`, each at its own pose `m`, evaluated at
sensor `k`'s `j`-th pixel at the sensor's pose `m`, and expressed in that sensor's frame. No other
source, path index, sensor or pixel enters any element. -/
theorem level2_refines (flipX : V → V) (entries : List (Entry G V)) (sensors : List (Sens G V))
    (he : ∀ e ∈ entries, e.leaves ≠ []) (hs : ∀ k ∈ sensors, k.WF) :
    tensor flipX entries sensors = specTensor flipX entries sensors :=
  tensor_eq_spec flipX entries sensors he hs

/-- one output element, spelled out -/
theorem output_element (flipX : V → V) (entries : List (Entry G V)) (sensors : List (Sens G V))
    (he : ∀ e ∈ entries, e.leaves ≠ []) (hs : ∀ k ∈ sensors, k.WF)
    (i m n j : Nat) (e : Entry G V) (k : Sens G V) (r : G) (p px : V)
    (hi : entries[i]? = some e) (hm : m < pathLen (entries.flatMap Entry.leaves) sensors)
    (hn : sensors[n]? = some k) (hr : clampGet k.ori m = some r) (hp : clampGet k.pos m = some p)
    (hj : k.pixels[j]? = some px) :
    ((((tensor flipX entries sensors)[i]?.bind (·[m]?)).bind (·[n]?)).bind (·[j]?)) =
      some (let v := r⁻¹ • ((e.leaves.map fun s => level1 s m (r • px + p)).sum)
            if k.left then flipX v else v) := by
  rw [level2_refines flipX entries sensors he hs]
  unfold specTensor
  simp only [List.getElem?_map, hi, Option.map_some, Option.bind_some, List.getElem?_range hm, hn]
  simp only [pixPos, hr, hp, List.getElem?_map, hj, Option.map_some, specValue, sensT]
end refines

-- non-vacuity: the hypotheses of `level2_refines` are met by a concrete scene (one bare source, one
-- collection of two, two sensors with different pixel counts)
example :
    (∀ e ∈ ([.leaf { pos := [⟨1, 0, 0⟩], ori := [1], F := fun x => x },
       .coll [.leaf { pos := [⟨0, 1, 0⟩, ⟨0, 2, 0⟩], ori := [1, 1], F := fun x => x + x },
              .leaf { pos := [⟨0, 0, 1⟩], ori := [1], F := fun _ => ⟨1, 1, 1⟩ }]] : List (Entry (M3 Int) (V3 Int))),
        e.leaves ≠ []) ∧
    (∀ k ∈ ([{ pos := [⟨5, 0, 0⟩], ori := [1], pixels := [⟨0, 0, 0⟩, ⟨1, 0, 0⟩], pixShape := [2], left := true },
       { pos := [⟨0, 5, 0⟩], ori := [1], pixels := [⟨0, 0, 0⟩], pixShape := [1], left := false }] : List (Sens (M3 Int) (V3 Int))),
        k.ori ≠ [] ∧ k.pos.length = k.ori.length ∧ k.pixels.length = pixNum k) := by
  constructor
  · intro e he
    simp only [List.mem_cons, List.not_mem_nil, or_false] at he
    rcases he with rfl | rfl <;> simp [Entry.leaves]
  · intro k hk
    simp only [List.mem_cons, List.not_mem_nil, or_false] at hk
    rcases hk with rfl | rfl <;> simp [pixNum]

end MagpyVerif.C06
