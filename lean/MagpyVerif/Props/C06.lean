/-
Props/C06.lean — each output element depends only on its own source, path index and observer.
-/
import MagpyVerif.Lemmas.Level2
namespace MagpyVerif.C06
open MagpyVerif MagpyVerif.Level2
variable {G V : Type}

section
variable [Group G] [AddCommGroup V] [DistribMulAction G V] [BEq G]

/-- row `m` of leaf `s` is `s`'s own field at its own (clamped) pose `m`, evaluated at the pixel
positions of path index `m`: no other source, no other path index enters; rows beyond the
longest path do not exist -/
theorem element_depends_on_own_source (sensors : List (Sens G V)) (M : Nat) (s : Src G V) (m : Nat) :
    (leafB sensors M s)[m]? = if m < M then some ((poso sensors m).map (level1 s m)) else none :=
  leafB_getElem? sensors M s m

/-- an object whose path is shorter than `m` stays at its last pose -/
theorem short_path_stays_at_last_pose {α : Type} (xs : List α) (m : Nat) (h : xs.length ≤ m + 1) : clampGet xs m = xs.getLast? := by
  unfold clampGet
  have : min m (xs.length - 1) = xs.length - 1 := by omega
  rw [this, List.getLast?_eq_getElem?]
end

/-- the value for a pixel is independent of which other sensors are in the call -/
theorem pixels_independent [Group G] [AddCommGroup V] [DistribMulAction G V] [BEq G]
    (ks1 ks2 : List (Sens G V)) (s : Src G V) (m : Nat) :
    (poso (ks1 ++ ks2) m).map (level1 s m) =
      (poso ks1 m).map (level1 s m) ++ (poso ks2 m).map (level1 s m) := by
  rw [poso_append, List.map_append]

end MagpyVerif.C06
