/-
Props/C06.lean — each output element depends only on its own source, path index and observer.
-/
import MagpyVerif.Lemmas.KernCylSeg
import MagpyVerif.Lemmas.TrimeshBatch
import MagpyVerif.Lemmas.KernelLiterals
import MagpyVerif.Lemmas.Polyline
import MagpyVerif.Lemmas.TrimeshSum
import MagpyVerif.Lemmas.Level2Shape
import MagpyVerif.Lemmas.TrimeshInside
import MagpyVerif.Lemmas.OctaCarrier
import MagpyVerif.Lemmas.Celv
import MagpyVerif.Lemmas.CylinderBatch
import MagpyVerif.Lemmas.CelIterV
import MagpyVerif.Model.Level2State
namespace MagpyVerif.C06
open MagpyVerif MagpyVerif.Level2
variable {G V : Type}

section
variable [Group G] [AddCommGroup V] [DistribMulAction G V] [BEq G]

/-- row `m` of leaf `s` is `s`'s own field at its own (clamped) pose `m`, evaluated at the pixel
positions of path index `m`: no other source, no other path index enters; rows beyond the
longest path do not exist -/
theorem element_depends_on_own_source (sensors : List (Sens G V)) (M : Nat) (s : Src G V) (m : Nat) :
    (leafB sensors M s)[m]? = if m < M then some ((poso sensors m).map (level1 s m)) else none :=
  leafB_getElem? sensors M s m

/-- an object whose path is shorter than `m` stays at its last pose -/
theorem short_path_stays_at_last_pose {α : Type} (xs : List α) (m : Nat) (h : xs.length ≤ m + 1) : clampGet xs m = xs.getLast? := by
  unfold clampGet
  have : min m (xs.length - 1) = xs.length - 1 := by omega
  rw [this, List.getLast?_eq_getElem?]
end

/-! ### short paths are EDGE-padded, not tiled cyclically (c03post)

`getBH_level2` fills an object's path up to the longest one with `np.tile(path[-1], (M - m0, 1))` appended
(`Model/Level2State.tilePath`, the tiling model of C08) and then indexes the tiled arrays with the path index; the
pipeline model reads `clampGet xs m` directly.  The seeded change `np.resize(path, M)` repeats the path cyclically
(`Model/Level2.cyclicGet`). -/

/-- **short_paths_edge_padded**: indexing the TILED path of an object (`tilePath M xs`, `M` = longest path, `m < M`) gives
`clampGet xs m`; and that is `xs[m]` inside the object's own path and its LAST pose at every index `m ≥ len(xs)` — for
positions and orientations alike (`α` arbitrary), sources and sensors alike -/
theorem short_paths_edge_padded {α : Type} (xs : List α) (M m : Nat) (hne : xs ≠ []) (hM : xs.length ≤ M)
    (hm : m < M) :
    (Level2State.tilePath M xs)[m]? = clampGet xs m ∧
    (m < xs.length → clampGet xs m = xs[m]?) ∧
    (xs.length ≤ m → clampGet xs m = xs.getLast?) := by
  have hpos : 0 < xs.length := List.length_pos_iff.mpr hne
  refine ⟨?_, ?_, ?_⟩
  · unfold Level2State.tilePath clampGet
    obtain ⟨l, hl⟩ : ∃ l, xs.getLast? = some l := by
      cases h : xs.getLast? with
      | none => exact absurd (List.getLast?_eq_none_iff.mp h) hne
      | some l => exact ⟨l, rfl⟩
    simp only [hl]
    by_cases h : m < xs.length
    · have : min m (xs.length - 1) = m := by omega
      rw [this, List.getElem?_append_left h]
    · have h1 : min m (xs.length - 1) = xs.length - 1 := by omega
      rw [h1, List.getElem?_append_right (by omega), List.getElem?_replicate, if_pos (by omega),
        ← List.getLast?_eq_getElem?, hl]
  · intro h
    unfold clampGet
    have : min m (xs.length - 1) = m := by omega
    rw [this]
  · intro h
    exact short_path_stays_at_last_pose xs m (by omega)

/-- the element computed for path index `m ≥ len(path of s)` is the element for `s`'s LAST path index: source `s` is
evaluated at its last pose (position AND orientation) -/
theorem short_path_source_evaluated_at_last_pose [Group G] [AddCommGroup V] [DistribMulAction G V]
    (s : Src G V) (hlen : s.pos.length = s.ori.length) (m : Nat) (h : s.pos.length ≤ m + 1) (x : V) :
    level1 s m x = level1 s (s.pos.length - 1) x := by
  unfold level1
  rw [short_path_stays_at_last_pose s.pos m h, short_path_stays_at_last_pose s.ori m (by omega),
    short_path_stays_at_last_pose s.pos (s.pos.length - 1) (by omega),
    short_path_stays_at_last_pose s.ori (s.pos.length - 1) (by omega)]

/-- **witness: cyclic tiling is a different function** whenever a short path has at least two different poses: for
`xs = [a, b]` (`a ≠ b`), longest path 3, path index 2: edge padding gives `b` (the last pose), cyclic tiling gives `a` -/
theorem cyclic_tiling_differs {α : Type} (a b : α) (hab : a ≠ b) :
    clampGet [a, b] 2 = some b ∧ cyclicGet [a, b] 2 = some a ∧ (Level2State.tilePath 3 [a, b])[2]? = some b ∧
    cyclicGet [a, b] 2 ≠ clampGet [a, b] 2 := by
  have h1 : clampGet [a, b] 2 = some b := by simp [clampGet]
  have h2 : cyclicGet [a, b] 2 = some a := by simp [cyclicGet]
  refine ⟨h1, h2, by simp [Level2State.tilePath], ?_⟩
  rw [h1, h2]
  intro h
  exact hab (Option.some.inj h)

/-- and they agree exactly on paths of length 1 and on paths of full length — which is why only objects whose own
path length lies strictly between 1 and the maximum distinguish the two (what the `level2` stream counts as
`short_multi_step_paths`) -/
theorem cyclic_tiling_agrees_iff_trivial {α : Type} (xs : List α) (m : Nat) (hne : xs ≠ [])
    (h : xs.length = 1 ∨ m < xs.length) : cyclicGet xs m = clampGet xs m := by
  have hpos : 0 < xs.length := List.length_pos_iff.mpr hne
  unfold cyclicGet clampGet
  rcases h with h | h
  · have h1 : m % xs.length = 0 := by rw [h]; exact Nat.mod_one m
    have h2 : min m (xs.length - 1) = 0 := by omega
    rw [h1, h2]
  · have h1 : m % xs.length = m := Nat.mod_eq_of_lt h
    have h2 : min m (xs.length - 1) = m := by omega
    rw [h1, h2]

-- non-vacuity: a path of length 2 inside a call of longest path 4
example : (Level2State.tilePath 4 [10, 20])[3]? = clampGet [10, 20] 3 ∧ clampGet [10, 20] 3 = some 20 := by decide

-- (audit2) the example above evaluates both sides by `decide` and never applies the theorem; this one instantiates ALL hypotheses
-- of `short_paths_edge_padded` (a 3-step path in a call of longest path 4, path index 3 = beyond the object's own path)
example : (Level2State.tilePath 4 [10, 20, 30])[3]? = clampGet [10, 20, 30] 3 ∧
    (3 < [10, 20, 30].length → clampGet [10, 20, 30] 3 = [10, 20, 30][3]?) ∧
    ([10, 20, 30].length ≤ 3 → clampGet [10, 20, 30] 3 = [10, 20, 30].getLast?) :=
  short_paths_edge_padded [10, 20, 30] 4 3 (by simp) (by simp) (by omega)

/-- (audit2) `level1` — written with `clampGet` on the UNTILED paths in the pipeline model the driver runs — is the same function
written as the code does it: index `m` of the TILED position and orientation arrays (`tilePath M`, `M` ≥ both lengths, `m < M`).
This is the link AUDIT.md C06 found missing between the pipeline model's `clampGet` and C08's tiling model.  (`tilePath` itself is not
run by the driver; that `np.concatenate((path, np.tile(path[-1], …)))` is `tilePath` is read off the source.) -/
theorem level1_reads_tiled_paths [Group G] [AddCommGroup V] [DistribMulAction G V]
    (s : Src G V) (M m : Nat) (hpos : s.pos ≠ []) (hori : s.ori ≠ [])
    (hMp : s.pos.length ≤ M) (hMo : s.ori.length ≤ M) (hm : m < M) (x : V) :
    level1 s m x =
      match (Level2State.tilePath M s.ori)[m]?, (Level2State.tilePath M s.pos)[m]? with
      | some r, some p => r • s.F (r⁻¹ • (x - p))
      | _, _ => 0 := by
  rw [(short_paths_edge_padded s.ori M m hori hMo hm).1, (short_paths_edge_padded s.pos M m hpos hMp hm).1]
  rfl

-- (audit2) non-vacuity of `short_path_source_evaluated_at_last_pose` and `level1_reads_tiled_paths` at a genuine group action
-- (`ℤˣ` on `ℤ`): a 2-step path, path index 5 resp. longest path 6
example : level1 (⟨[1, 2], [1, -1], fun x => x + 1⟩ : Src ℤˣ ℤ) 5 7 =
    level1 (⟨[1, 2], [1, -1], fun x => x + 1⟩ : Src ℤˣ ℤ) 1 7 :=
  short_path_source_evaluated_at_last_pose _ rfl 5 (by simp) 7
example : level1 (⟨[1, 2], [1, -1], fun x => x + 1⟩ : Src ℤˣ ℤ) 5 7 =
    match (Level2State.tilePath 6 ([1, -1] : List ℤˣ))[5]?, (Level2State.tilePath 6 ([1, 2] : List ℤ))[5]? with
    | some r, some p => r • (fun x : ℤ => x + 1) (r⁻¹ • (7 - p))
    | _, _ => 0 :=
  level1_reads_tiled_paths _ 6 5 (by simp) (by simp) (by simp) (by simp) (by omega) 7

/-- the value for a pixel is independent of which other sensors are in the call -/
theorem pixels_independent [Group G] [AddCommGroup V] [DistribMulAction G V] [BEq G]
    (ks1 ks2 : List (Sens G V)) (s : Src G V) (m : Nat) :
    (poso (ks1 ++ ks2) m).map (level1 s m) =
      (poso ks1 m).map (level1 s m) ++ (poso ks2 m).map (level1 s m) := by
  rw [poso_append, List.map_append]


section refines
variable [Group G] [AddCommGroup V] [DistribMulAction G V] [BEq G] [LawfulBEq G]

/-- **the whole pipeline**: for every number, order and nesting of sources and collections, every mix
of path lengths and every mix of pixel shapes, the tensor the marshalling code assembles
(`Model/Level2.tensor`: per-leaf evaluation through the leaf's own frame at its own clamped pose,
the slice-sum-and-delete collection loop, the three sensor back-rotation code paths, the handedness
flip, the split at the cumulative pixel indices) is, element by element, the specification: entry
`[e][m][k][j]` is the sum over the leaves of entry `e`, each at its own pose `m`, evaluated at
sensor `k`'s `j`-th pixel at the sensor's pose `m`, and expressed in that sensor's frame. No other
source, path index, sensor or pixel enters any element. -/
theorem level2_refines (flipX : V → V) (entries : List (Entry G V)) (sensors : List (Sens G V))
    (he : ∀ e ∈ entries, e.leaves ≠ []) (hs : ∀ k ∈ sensors, k.WF) :
    tensor flipX entries sensors = specTensor flipX entries sensors :=
  tensor_eq_spec flipX entries sensors he hs

/-- one output element, spelled out -/
theorem output_element (flipX : V → V) (entries : List (Entry G V)) (sensors : List (Sens G V))
    (he : ∀ e ∈ entries, e.leaves ≠ []) (hs : ∀ k ∈ sensors, k.WF)
    (i m n j : Nat) (e : Entry G V) (k : Sens G V) (r : G) (p px : V)
    (hi : entries[i]? = some e) (hm : m < pathLen (entries.flatMap Entry.leaves) sensors)
    (hn : sensors[n]? = some k) (hr : clampGet k.ori m = some r) (hp : clampGet k.pos m = some p)
    (hj : k.pixels[j]? = some px) :
    ((((tensor flipX entries sensors)[i]?.bind (·[m]?)).bind (·[n]?)).bind (·[j]?)) =
      some (let v := r⁻¹ • ((e.leaves.map fun s => level1 s m (r • px + p)).sum)
            if k.left then flipX v else v) := by
  rw [level2_refines flipX entries sensors he hs]
  unfold specTensor
  simp only [List.getElem?_map, hi, Option.map_some, Option.bind_some, List.getElem?_range hm, hn]
  simp only [pixPos, hr, hp, List.getElem?_map, hj, Option.map_some, specValue, sensT]
end refines


/-! ### shape of the returned array; squeeze -/
section shape
variable [Mul G] [Inv G] [One G] [SMul G V] [Add V] [Sub V] [Zero V] [BEq G]

/-- **documented output shape** (`getBH_level2` with `squeeze=False`, ndarray output): whenever the
call succeeds the array has the axes (sources, path, sensors, pixel shape…) followed by the vector
axis of length 3 (an element of `V` here): `sources` is the number of top-level source entries (a
Collection counts once), or 1 after `sumup`; `path` is the longest path of all sources and sensors;
the pixel axes are the common pixel shape of the sensors (`pixel.shape[:-1]`, `(1,)` for a sensor
without pixel), or a single axis of length 1 after `pixel_agg` (the `expand_dims(axis=-2)`). -/
theorem getBH_shape (flipX : V → V) (vmin vmax : V → V → V) (entries : List (Entry G V))
    (sensors : List (Sens G V)) (sumup : Bool) (agg : Agg) (out : Out V)
    (h : getBH flipX vmin vmax entries sensors sumup false agg = .ok out) :
    ∃ k0, sensors.head? = some k0 ∧
      out.shape = [if sumup then 1 else entries.length,
                   pathLen (entries.flatMap Entry.leaves) sensors, sensors.length] ++
                  (if agg = .none then k0.pixShape else [1]) := by
  have hok := not_bad_of_getBH_ok h
  have hne : sensors ≠ [] := fun hs => hok (Or.inr (Or.inl hs))
  obtain ⟨k0, ks, hks⟩ := List.exists_cons_of_ne_nil hne
  refine ⟨k0, by rw [hks]; rfl, ?_⟩
  rw [getBH_ok flipX vmin vmax entries sensors sumup false agg hok] at h
  cases h
  subst hks
  by_cases ha : agg = .none <;> simp [shape0, ha]

/-- **squeeze only drops axes of length 1**: with `squeeze=True` the call succeeds exactly when it
does with `squeeze=False`, returns the very same data in the same order, and its shape is the
unsqueezed shape with exactly the entries equal to 1 removed — so no element is lost, duplicated or
moved, and the number of elements is unchanged. (The vector axis has length 3 and is never dropped.) -/
theorem squeeze_only_drops_ones (flipX : V → V) (vmin vmax : V → V → V) (entries : List (Entry G V))
    (sensors : List (Sens G V)) (sumup : Bool) (agg : Agg) :
    (∀ out, getBH flipX vmin vmax entries sensors sumup false agg = .ok out →
      getBH flipX vmin vmax entries sensors sumup true agg =
        .ok { shape := out.shape.filter (· ≠ 1), data := out.data } ∧
      (out.shape.filter (· ≠ 1)).prod = out.shape.prod) ∧
    (∀ err, getBH flipX vmin vmax entries sensors sumup false agg = .error err ↔
      getBH flipX vmin vmax entries sensors sumup true agg = .error err) := by
  constructor
  · intro out h
    have hok := not_bad_of_getBH_ok h
    rw [getBH_ok flipX vmin vmax entries sensors sumup false agg hok] at h
    rw [getBH_ok flipX vmin vmax entries sensors sumup true agg hok]
    cases h
    constructor
    · by_cases ha : agg = .none <;> simp [ha, List.filter_append]
    · exact prod_filter_ne_one _
  · intro err
    rw [getBH_error_iff, getBH_error_iff]
end shape

section size
variable [Group G] [AddCommGroup V] [DistribMulAction G V] [BEq G] [LawfulBEq G]

/-- **shape and data agree**: for well-formed sensors (non-empty pose path, as many pixel offsets as
the pixel shape says) the returned flat data has exactly `prod(shape)` elements.  (Only the length is stated here; the
element at row-major position `((l*M + m)*K + k)*P + p` being the `[l][m][k][p]` entry of the tensor that
`level2_refines` specifies is `getBH_data_is_tensor` below — no sumup, no pixel_agg —, `C05.sumup_is_sum_indexed` and
`C04.pixel_agg_is_reduction_end_to_end`.) -/
theorem getBH_size (flipX : V → V) (vmin vmax : V → V → V) (entries : List (Entry G V))
    (sensors : List (Sens G V)) (sumup : Bool) (agg : Agg) (out : Out V)
    (hs : ∀ k ∈ sensors, k.WF)
    (h : getBH flipX vmin vmax entries sensors sumup false agg = .ok out) :
    out.data.length = out.shape.prod := by
  have hok := not_bad_of_getBH_ok h
  have hne : sensors ≠ [] := fun hs => hok (Or.inr (Or.inl hs))
  obtain ⟨k0, ks, hks⟩ := List.exists_cons_of_ne_nil hne
  have hk0 : sensors.head? = some k0 := by rw [hks]; rfl
  have hrect := coreB_rect flipX vmin vmax entries sensors sumup agg hok hs k0 hk0
  rw [getBH_ok flipX vmin vmax entries sensors sumup false agg hok] at h
  cases h
  simp only [Bool.false_eq_true, if_false]
  rw [flat4_length hrect]
  by_cases ha : agg = .none
  · simp only [ha, if_true, shape0, headD_pixShape sensors k0 hk0, List.prod_append, List.prod_cons,
      List.prod_nil, pixNum_eq_prod]
    ring
  · simp only [ha, if_false, shape0, List.prod_append, List.prod_cons, List.prod_nil]
    ring

/-- without sumup and pixel_agg the flat data is the specified tensor in row-major order -/
theorem getBH_data_is_tensor (flipX : V → V) (vmin vmax : V → V → V) (entries : List (Entry G V))
    (sensors : List (Sens G V)) (out : Out V) (hs : ∀ k ∈ sensors, k.WF)
    (h : getBH flipX vmin vmax entries sensors false false .none = .ok out)
    (i m n j : Nat) (e : Entry G V) (k : Sens G V) (r : G) (p px : V)
    (hi : entries[i]? = some e) (hm : m < pathLen (entries.flatMap Entry.leaves) sensors)
    (hn : sensors[n]? = some k) (hr : clampGet k.ori m = some r) (hp : clampGet k.pos m = some p)
    (hj : k.pixels[j]? = some px) :
    out.data[((i * pathLen (entries.flatMap Entry.leaves) sensors + m) * sensors.length + n) *
        pixNum k + j]? =
      some (let v := r⁻¹ • ((e.leaves.map fun s => level1 s m (r • px + p)).sum)
            if k.left then flipX v else v) := by
  have hok := not_bad_of_getBH_ok h
  have hne : sensors ≠ [] := fun hs => hok (Or.inr (Or.inl hs))
  obtain ⟨k0, ks, hks⟩ := List.exists_cons_of_ne_nil hne
  have hk0 : sensors.head? = some k0 := by rw [hks]; rfl
  have hkmem : k ∈ sensors := List.mem_of_getElem? hn
  have hk0mem : k0 ∈ sensors := by rw [hks]; simp
  have hP : pixNum k = pixNum k0 := by
    apply pixNum_congr
    by_contra hne
    exact hok (Or.inr (Or.inr (Or.inr ⟨rfl, k, hkmem, k0, hk0mem, hne⟩)))
  have he : ∀ e ∈ entries, e.leaves ≠ [] := fun e he hl => hok (Or.inr (Or.inr (Or.inl ⟨e, he, hl⟩)))
  have hrect := coreB_rect flipX vmin vmax entries sensors false .none hok hs k0 hk0
  rw [getBH_ok flipX vmin vmax entries sensors false false .none hok] at h
  cases h
  simp only [if_true] at hrect
  have hjlt : j < pixNum k0 := by
    rw [← hP, ← (hs k hkmem).2.2]; exact (List.getElem?_eq_some_iff.mp hj).1
  have hnlt : n < sensors.length := (List.getElem?_eq_some_iff.mp hn).1
  rw [hP, flat4_getElem? hrect i m n j hm hnlt hjlt]
  simp only [coreB, Bool.false_eq_true, if_false, if_true, id]
  rw [tensor_eq_spec flipX entries sensors he hs]
  exact specTensor_elem flipX entries sensors i m n j e k r p px hi hm hn hr hp hj
end size

-- non-vacuity: the hypotheses of `level2_refines` are met by a concrete scene (one bare source, one
-- collection of two, two sensors with different pixel counts)
example :
    (∀ e ∈ ([.leaf { pos := [⟨1, 0, 0⟩], ori := [1], F := fun x => x },
       .coll [.leaf { pos := [⟨0, 1, 0⟩, ⟨0, 2, 0⟩], ori := [1, 1], F := fun x => x + x },
              .leaf { pos := [⟨0, 0, 1⟩], ori := [1], F := fun _ => ⟨1, 1, 1⟩ }]] : List (Entry (M3 Int) (V3 Int))),
        e.leaves ≠ []) ∧
    (∀ k ∈ ([{ pos := [⟨5, 0, 0⟩], ori := [1], pixels := [⟨0, 0, 0⟩, ⟨1, 0, 0⟩], pixShape := [2], left := true },
       { pos := [⟨0, 5, 0⟩], ori := [1], pixels := [⟨0, 0, 0⟩], pixShape := [1], left := false }] : List (Sens (M3 Int) (V3 Int))),
        k.ori ≠ [] ∧ k.pos.length = k.ori.length ∧ k.pixels.length = pixNum k) := by
  constructor
  · intro e he
    simp only [List.mem_cons, List.not_mem_nil, or_false] at he
    rcases he with rfl | rfl <;> simp [Entry.leaves]
  · intro k hk
    simp only [List.mem_cons, List.not_mem_nil, or_false] at hk
    rcases hk with rfl | rfl <;> simp [pixNum]

-- non-vacuity of `getBH_shape` / `getBH_size` / `squeeze_only_drops_ones` on the scene
-- `Level2.Example` (one bare source, one collection of two, path lengths 1 and 2, two sensors with
-- pixel shape (2,)): the call succeeds, with shape (2, 2, 2, 2) resp. (1, 2, 2, 1) resp. (2, 2)
open Level2.Example in
example : ∃ out, getBH exFlip exMin exMax exEntries exSensors false false .none = .ok out ∧
    out.shape = [2, 2, 2, 2] :=
  ⟨_, getBH_ok _ _ _ _ _ _ _ _ (exNotBad _), by simp [shape0, exPathLen]; simp [exEntries, exSensors]⟩
open Level2.Example in
example : ∃ out, getBH exFlip exMin exMax exEntries exSensors true false .sum = .ok out ∧
    out.shape = [1, 2, 2, 1] :=
  ⟨_, getBH_ok _ _ _ _ _ _ _ _ (exNotBad _), by simp [shape0, exPathLen]; simp [exSensors]⟩
open Level2.Example in
example : ∃ out, getBH exFlip exMin exMax exEntries exSensors true true .sum = .ok out ∧
    out.shape = [2, 2] :=
  ⟨_, getBH_ok _ _ _ _ _ _ _ _ (exNotBad _), by simp [shape0, exPathLen]; simp [exSensors]⟩


/-! ### kernels with batch-level control flow: TriangularMesh -/

/-- C06 (TriangularMesh, `in_out="auto"`): whatever rows are evaluated together — any number, any order, the same
mesh re-appearing after a different one, single-row groups at either end — the grouping loop of `BHJM_magnet_trimesh`
(consecutive rows with equal meshes share one inside/outside test against the group's first mesh) gives every row
exactly what it gets when evaluated alone: its own core value, plus its own polarization iff its observer is inside
ITS OWN mesh. -/
theorem trimesh_grouping_rowwise {M O V : Type} [DecidableEq M] [Add V]
    (inside : M → O → Bool) (rows : List (Trimesh.Row M O V)) :
    Trimesh.addInside inside rows = rows.map (Trimesh.rowwise inside) :=
  Trimesh.addInside_rowwise inside rows

/-- consequence: the value of a row does not depend on its batch mates -/
theorem trimesh_row_independent_of_batch {M O V : Type} [DecidableEq M] [Add V]
    (inside : M → O → Bool) (pre post : List (Trimesh.Row M O V)) (r : Trimesh.Row M O V) :
    (Trimesh.addInside inside (pre ++ r :: post))[pre.length]? = (Trimesh.addInside inside [r])[0]? := by
  rw [trimesh_grouping_rowwise, trimesh_grouping_rowwise]
  simp

-- non-vacuity: meshes A B A with the middle observer inside A only: the middle row (mesh B) gets nothing
example : MagpyVerif.Trimesh.addInside (fun (m : Nat) (x : Nat) => m == 0 && x == 1)
    [(⟨0, 0, 5, 0⟩ : MagpyVerif.Trimesh.Row Nat Nat Int), ⟨1, 1, 7, 0⟩, ⟨0, 1, 9, 0⟩] = [(0 : Int), 0, 9] := by decide

/-- C06 (TriangularMesh, all four fields): the whole of `BHJM_magnet_trimesh` on a batch — one flat call of the triangle
kernel with observers and polarizations repeated per face, the cut back into rows by `reshape(...).sum(axis=1)` (equal face
counts) or `np.split` at the cumulative face counts (different face counts), division by μ₀ for H, the row-grouping loop
for the inside term — gives every row exactly the value of the same operations applied to that row alone
(`bhjmTrimeshRow`: the sum of its own triangle sheets at its own observer with its own polarization, plus its own
polarization iff its observer is inside its own mesh). -/
theorem trimesh_batch_rowwise {α M : Type} [Kern.Num α] [DecidableEq M] (f : Kern.Field) (meshId : Kern.MeshRow α → M)
    (inside : M → V3 α → Bool) (rows : List (Kern.MeshRow α)) :
    Kern.bhjmTrimesh f meshId inside rows = rows.map (Kern.bhjmTrimeshRow f meshId inside) :=
  Kern.bhjmTrimesh_rowwise f meshId inside rows

/-- C06 / C02 (TriangularMesh with the REAL inside test): `BHJM_magnet_trimesh` with `mask_inside_trimesh` as ported in
Model/TrimeshInside.lean (bounding-box pre-filter + ray casting; the meshes of two rows count as the same group iff
their face arrays are equal) is row-wise for all four fields and every batch: each row gets the sum of its own triangle
sheets, plus its own polarization iff ITS observer is inside ITS mesh according to that test — so B, J and M of one row
use one and the same inside verdict, whatever other rows (same mesh or not) are evaluated in the same call.
Instance of `trimesh_batch_rowwise`; holds over every carrier (`Float` as executed by the driver, `ℝ`). -/
theorem trimesh_batch_rowwise_ray_test {α : Type} [Kern.Num α] [DecidableEq α] (f : Kern.Field)
    (rows : List (Kern.MeshRow α)) :
    Kern.bhjmTrimesh f (fun r => r.faces) Kern.maskInsideTrimesh rows =
      rows.map (Kern.bhjmTrimeshRow f (fun r => r.faces) Kern.maskInsideTrimesh) :=
  trimesh_batch_rowwise f (fun r => r.faces) Kern.maskInsideTrimesh rows

/-- C12 / C02 (TriangularMesh, all four fields, whole batch): multiplying the mesh and the observer of every row by the
same `l > 0` leaves the output of `BHJM_magnet_trimesh` (flat triangle-kernel call, cut into rows, grouping loop, ray-casting
inside test) unchanged: the triangle sheets are unit-free (`triangleB_scale'`) and so is the inside verdict
(`mask_inside_trimesh_scale_invariant`). -/
theorem trimesh_batch_scale_invariant [DecidableEq (List (Kern.Tri ℝ))] (l : ℝ) (hl : 0 < l) (f : Kern.Field)
    (rows : List (Kern.MeshRow ℝ)) :
    Kern.bhjmTrimesh f (fun r => r.faces) Kern.maskInsideTrimesh (rows.map (Kern.rowScale l)) =
      Kern.bhjmTrimesh f (fun r => r.faces) Kern.maskInsideTrimesh rows := by
  rw [trimesh_batch_rowwise, trimesh_batch_rowwise, List.map_map]
  apply List.map_congr_left
  intro r _
  exact Kern.bhjmTrimeshRow_scale l hl f r

-- non-vacuity: a batch of two rows with different meshes (a tetrahedron, and the same one twice as large); the second
-- observer lies outside its mesh's bounding box, so its J is zero whatever the first row is
noncomputable def exRowA : Kern.MeshRow ℝ :=
  { faces := [(⟨0, 0, 0⟩, ⟨0, 1, 0⟩, ⟨1, 0, 0⟩), (⟨0, 0, 0⟩, ⟨1, 0, 0⟩, ⟨0, 0, 1⟩), (⟨1, 0, 0⟩, ⟨0, 1, 0⟩, ⟨0, 0, 1⟩),
      (⟨0, 0, 0⟩, ⟨0, 0, 1⟩, ⟨0, 1, 0⟩)], obs := ⟨1 / 4, 1 / 4, 1 / 4⟩, pol := ⟨0, 0, 1⟩ }
noncomputable def exRowB : Kern.MeshRow ℝ :=
  { faces := [(⟨0, 0, 0⟩, ⟨0, 2, 0⟩, ⟨2, 0, 0⟩), (⟨0, 0, 0⟩, ⟨2, 0, 0⟩, ⟨0, 0, 2⟩), (⟨2, 0, 0⟩, ⟨0, 2, 0⟩, ⟨0, 0, 2⟩),
      (⟨0, 0, 0⟩, ⟨0, 0, 2⟩, ⟨0, 2, 0⟩)], obs := ⟨3, 1 / 4, 1 / 4⟩, pol := ⟨0, 0, 1⟩ }
open Kern Classical in
example : bhjmTrimesh .J (fun r => r.faces) maskInsideTrimesh [exRowA, exRowB] =
    [bhjmTrimeshRow .J (fun r => r.faces) maskInsideTrimesh exRowA, zero3] := by
  rw [trimesh_batch_rowwise_ray_test]
  have : maskInsideTrimesh exRowB.faces exRowB.obs = false := by
    simp [maskInsideTrimesh, exRowB, meshVerts, triVerts, insideBoxV, vertsMax, vertsMin, vMax, vMin, npMax_real,
      npMin_real, pyMax_real, n]
    norm_num
  simp only [List.map_cons, List.map_nil, bhjmTrimeshRow, this, Bool.false_eq_true, if_false]
open Kern Classical in
example : bhjmTrimesh .B (fun r => r.faces) maskInsideTrimesh ([exRowA, exRowB].map (rowScale (1 / 1000))) =
    bhjmTrimesh .B (fun r => r.faces) maskInsideTrimesh [exRowA, exRowB] :=
  trimesh_batch_scale_invariant _ (by norm_num) _ _

/-! ### kernels with batch-level control flow: Polyline -/

/-- C06 (Polyline): `current_vertices_field` evaluates a batch of Polyline instances through ONE flat call of the segment
kernel — observers and currents repeated per segment, segment starts/ends concatenated — and then cuts the result back
into instances, by `reshape((n0, n1-1, 3)).sum(axis=1)` when all instances have the same number of vertices and by
`np.split` at the cumulative segment counts otherwise.  In both branches, for every batch (any number of instances, any mix
of vertex counts, also instances with a single vertex), each instance gets exactly the sum over ITS OWN consecutive
vertex pairs at ITS OWN observer with ITS OWN current. -/
theorem polyline_batch_rowwise {α : Type} [Kern.Num α] (f : Kern.Field) (insts : List (Kern.PolyInst α)) :
    Kern.verticesField f insts = insts.map fun i => Kern.polylineRow f i.cur i.verts i.obs :=
  Kern.verticesField_rowwise f insts

/-- the two branches agree wherever both apply -/
theorem polyline_branches_agree {α : Type} [Kern.Num α] (f : Kern.Field) (n1 : Nat) (insts : List (Kern.PolyInst α))
    (h : ∀ i ∈ insts, i.verts.length = n1) :
    Kern.verticesFieldEqual f n1 insts = Kern.verticesFieldRagged f insts := by
  rw [Kern.verticesFieldEqual_rowwise f n1 insts h, Kern.verticesFieldRagged_rowwise]

end MagpyVerif.C06

/-! ### CylinderSegment: the case dispatch is total up to the four listed NaN ids -/
namespace MagpyVerif.C06
open MagpyVerif MagpyVerif.Kern MagpyVerif.Kern.CylSeg

/- FULL (false of the code): every id `determine_cases` returns is one of the 26 ids of the dispatch table.
The ids 111, 114, 121, 131 are returned (witness `determineCases_returns_111`) and are not in the table —
the source says so itself ("excluding the nan-cases 111, 114, 121, 131"); the block then stays NaN. -/
/-- for ALL inputs and any carrier (ℝ, Float, …; whatever the eight `close` tests answer): the id is one of the
26 handled ids or one of the four nan-ids — no other number can come out, so the dispatch never meets an id it
does not know -/
theorem determineCases_total_partial {α : Type} [NumX α] (r phi z r1 phi1 z1 : α) :
    determine_cases r phi z r1 phi1 z1 ∈ caseIds ∨ determine_cases r phi z r1 phi1 z1 ∈ nanIds :=
  determineCases_range r phi z r1 phi1 z1

/-- the dispatch falls through exactly for the nan-ids, and those occur exactly when the observer is at the height
of the boundary plane and either on the axis of a segment without bore or on the boundary radius in the boundary
half-plane -/
theorem dispatch_falls_through_iff {α : Type} [NumX α] (r phi z r1 phi1 z1 : α) (a : AllArgs α) :
    (caseDispatch (determine_cases r phi z r1 phi1 z1) a = none ↔ determine_cases r phi z r1 phi1 z1 ∈ nanIds) ∧
    (determine_cases r phi z r1 phi1 z1 ∈ nanIds ↔
      (close z z1 &&
        ((close r (n 0) && close r1 (n 0)) ||
         ((close (NumX.pymod (Num.abs (phi - phi1)) (n 2 * Num.pi)) (n 0) ||
            close (NumX.pymod (Num.abs (phi - phi1)) (n 2 * Num.pi)) (n 2 * Num.pi)) &&
           close r r1 && !close r1 (n 0) && !close r (n 0)))) = true) :=
  ⟨caseDispatch_eq_none_iff r phi z r1 phi1 z1 a, determineCases_unhandled_iff r phi z r1 phi1 z1⟩

/-- witness that the exclusion is necessary: on the axis (r = r_i = 0) at z = z_k, phi = phi_j the id is 111 -/
theorem determineCases_returns_111 (μ : ℝ) (S : SegSpecial) (phi z : ℝ) :
    @determine_cases ℝ (realNumX μ S) 0 phi z 0 phi z = 111 ∧ (111 : Nat) ∈ nanIds ∧ (111 : Nat) ∉ caseIds :=
  ⟨determine_cases_111 μ S phi z, by decide, by decide⟩


/-! ### on the carrier the driver computes with (AUDIT X1)

`level2_refines` is about `tensor` at an abstract `Group G`; the driver evaluates `tensor` at `M3 Int` / `V3 Int`
(Model/Basic.lean, `⁻¹` = transpose — not a group).  Through Lemmas/OctaCarrier.lean (`Oct`, the group of
octahedral rotation matrices; `tensor_at_Oct_eq_at_M3Int`) the statement holds for the driver's evaluation whenever
all rotation matrices of the input are octahedral (`IsOct`: orthogonal of determinant 1 — the streams send nothing
else).  `specTensorOp` is `specTensor` written with the bare operation classes (`specTensor_eq_op`, by `rfl`). -/
section driverCarrier
open MagpyVerif.Level2

/-- **`level2_refines` on the driver's carrier**: the tensor the driver computes (and the `level2` stream
compares with `getBH_level2`) is, element by element, the pointwise specification evaluated with the same integer
matrix operations. -/
theorem level2_refines_on_driver_carrier (flipX : V3 Int → V3 Int) (entries : List EntryZ)
    (sensors : List SensZ) (heo : ∀ e ∈ entries, e.RotsOct) (hso : ∀ k ∈ sensors, k.RotsOct)
    (he : ∀ e ∈ entries, e.leaves ≠ []) (hs : ∀ k ∈ sensors, k.WF) :
    tensor flipX entries sensors = specTensorOp flipX entries sensors :=
  tensor_eq_spec_on_driver_carrier flipX entries sensors heo hso he hs

/-- one output element of the driver's evaluation, spelled out with the integer matrix operations -/
theorem output_element_on_driver_carrier (flipX : V3 Int → V3 Int) (entries : List EntryZ)
    (sensors : List SensZ) (heo : ∀ e ∈ entries, e.RotsOct) (hso : ∀ k ∈ sensors, k.RotsOct)
    (he : ∀ e ∈ entries, e.leaves ≠ []) (hs : ∀ k ∈ sensors, k.WF)
    (i m n j : Nat) (e : EntryZ) (k : SensZ) (r : M3 Int) (p px : V3 Int)
    (hi : entries[i]? = some e) (hm : m < pathLen (entries.flatMap Entry.leaves) sensors)
    (hn : sensors[n]? = some k) (hr : clampGet k.ori m = some r) (hp : clampGet k.pos m = some p)
    (hj : k.pixels[j]? = some px) :
    ((((tensor flipX entries sensors)[i]?.bind (·[m]?)).bind (·[n]?)).bind (·[j]?)) =
      some (let v := r⁻¹ • ((e.leaves.map fun s => level1 s m (r • px + p)).sum)
            if k.left then flipX v else v) := by
  rw [level2_refines_on_driver_carrier flipX entries sensors heo hso he hs]
  unfold specTensorOp
  simp only [List.getElem?_map, hi, Option.map_some, Option.bind_some, List.getElem?_range hm, hn]
  simp only [pixPosOp, hr, hp, List.getElem?_map, hj, Option.map_some, specValueOp, sensTOp]

-- non-vacuity: driver-style data (`Level2.DriverExample`: nested entry, 90° rotations about z and x, integer
-- positions, left-handed two-step sensor) meets every hypothesis, so the theorem applies to this `M3 Int` evaluation
open Level2.DriverExample in
example : tensor drvFlip drvEntries drvSensors = specTensorOp drvFlip drvEntries drvSensors :=
  level2_refines_on_driver_carrier drvFlip drvEntries drvSensors drvEntries_rotsOct drvSensors_rotsOct
    drvEntries_leaves drvSensors_WF

-- (audit2) the example above applies `level2_refines_on_driver_carrier` only; this one instantiates ALL hypotheses of
-- `output_element_on_driver_carrier`: entry 0 (nested collection; its second leaf has a 1-step path, so the clamp is used), path
-- index 1 of 2, sensor 0 (left-handed), pixel 1
open Level2.DriverExample in
example : ((((tensor drvFlip drvEntries drvSensors)[0]?.bind (·[1]?)).bind (·[0]?)).bind (·[1]?)) =
    some (drvFlip ((1 : M3 Int)⁻¹ • (((Entry.leaves (.coll [.leaf ⟨[⟨3, 0, 0⟩, ⟨4, 0, 0⟩], [1, rotZ90], fun x => x + ⟨1, 0, 0⟩⟩,
          .coll [.leaf ⟨[⟨0, 0, 2⟩], [rotX90], fun x => x + x⟩]] : EntryZ)).map
        fun s => level1 s 1 ((1 : M3 Int) • (⟨1, 0, 0⟩ : V3 Int) + ⟨8, 1, 0⟩)).sum))) :=
  output_element_on_driver_carrier drvFlip drvEntries drvSensors drvEntries_rotsOct drvSensors_rotsOct
    drvEntries_leaves drvSensors_WF 0 1 0 1 _ _ 1 ⟨8, 1, 0⟩ ⟨1, 0, 0⟩ rfl
    (by simp [pathLen, drvEntries, drvSensors, Entry.leaves]) rfl rfl rfl rfl
end driverCarrier

end MagpyVerif.C06

/-! ### the complete elliptic integral on a batch: `celv` and the dispatcher `cel` (special_cel.py)

`cel` switches at `len(kcv) < 10` between a list comprehension over the scalar `cel0` and the masked array routine
`celv` (Model/Celv.lean, tied bit for bit by the `celbatch` rows of the kern stream).  What the code does: in
`celv` only masked entries are stepped and an entry leaves the loop when ITS OWN test `|g − k| > g·1e-6` fails —
no entry waits for the slowest one — but the loop body runs BEFORE the first test, so every entry gets at least one
pass, while `cel0` tests first.  Consequences proved below: inside `celv` a row's value is independent of the batch
(any carrier, also IEEE double); `cel0` and `celv` agree on every entry on which `cel0` makes at least one pass;
on the band `0 < |1 − |kc|| ≤ 1e-6` they return different real numbers, so across the threshold of the dispatcher
a row's value does depend on the batch size (measured on the real code: ≤ 7e-11 relative in `cel`, ≤ 8e-13 relative
in `getB` of a Cylinder for observers within 5e-7 radii of the axis — below the 1e-7 of the C06 oracle, above the
few-ulp level). -/
namespace MagpyVerif.C06
open MagpyVerif MagpyVerif.Kern

/-- **row-wise**: for every carrier (ℝ, Float, …), every batch (any length, any order, repeated entries) and every
fuel, `celv` on the batch is, entry by entry, `celv1` — the body-first loop of that entry alone; it returns iff every
entry's own loop has ended within `fuel` passes -/
theorem celv_rowwise {α : Type} [Num α] (fuel : Nat) (batch : List (CelArg α)) :
    celv fuel batch = seqOpt (batch.map (celv1 fuel)) :=
  celv_eq_seqOpt_celv1 fuel batch

/-- the same with indices: entry `i` of the batch result is the result of the one-entry batch `[batch[i]]` -/
theorem celv_entry_eq_alone {α : Type} [Num α] (fuel : Nat) (batch : List (CelArg α)) (vs : List α)
    (h : celv fuel batch = some vs) :
    ∃ hl : vs.length = batch.length, ∀ (i : Nat) (hi : i < batch.length),
      celv fuel [batch[i]] = some [vs[i]'(hl ▸ hi)] := by
  rw [celv_rowwise] at h
  obtain ⟨hl, hget⟩ := seqOpt_map_getElem _ _ _ h
  refine ⟨hl, fun i hi => ?_⟩
  rw [celv_rowwise]
  simp [seqOpt, hget i hi]

/-- any re-indexing of the batch — a sub-batch, another order, repeated entries, another length — re-indexes the
result -/
theorem celv_reindex {α : Type} [Num α] (fuel : Nat) (batch : List (CelArg α)) (vs : List α)
    (h : celv fuel batch = some vs) :
    ∃ hl : vs.length = batch.length, ∀ idx : List (Fin batch.length),
      celv fuel (idx.map fun i => batch[i.1]) = some (idx.map fun i => vs[i.1]'(by have := i.2; omega)) :=
  Kern.celv_reindex fuel batch vs h

/-- permuting the batch permutes the result: the (entry, value) pairs of the two calls are permutations of each
other -/
theorem celv_perm {α : Type} [Num α] (fuel : Nat) {l1 l2 : List (CelArg α)} (hp : l1.Perm l2) {v1 : List α}
    (h : celv fuel l1 = some v1) : ∃ v2, celv fuel l2 = some v2 ∧ (l1.zip v1).Perm (l2.zip v2) :=
  celv_perm' fuel hp h

-- non-vacuity (ℝ): a two-entry batch and its swap; both entries terminate (`kc ≠ 0`)
example : ∃ v1 v2, celv (celvFuel [⟨2, 1, 1, 1⟩, ⟨-3, -2, 1, 1⟩]) [(⟨2, 1, 1, 1⟩ : CelArg ℝ), ⟨-3, -2, 1, 1⟩] = some v1 ∧
    celv (celvFuel [⟨2, 1, 1, 1⟩, ⟨-3, -2, 1, 1⟩]) [(⟨-3, -2, 1, 1⟩ : CelArg ℝ), ⟨2, 1, 1, 1⟩] = some v2 ∧
    ([(⟨2, 1, 1, 1⟩ : CelArg ℝ), ⟨-3, -2, 1, 1⟩].zip v1).Perm ([(⟨-3, -2, 1, 1⟩ : CelArg ℝ), ⟨2, 1, 1, 1⟩].zip v2) := by
  have hs := celv_isSome_celvFuel [(⟨2, 1, 1, 1⟩ : CelArg ℝ), ⟨-3, -2, 1, 1⟩] (by
    intro x hx
    simp only [List.mem_cons, List.not_mem_nil, or_false] at hx
    rcases hx with rfl | rfl <;> norm_num) _ le_rfl
  obtain ⟨v1, hv1⟩ := Option.isSome_iff_exists.mp hs
  obtain ⟨v2, hv2, hperm⟩ := celv_perm _ (List.Perm.swap _ _ []) hv1
  exact ⟨v1, v2, hv1, hv2, hperm⟩

-- (audit2) `celv_entry_eq_alone` has the hypothesis `celv fuel batch = some vs`; it is met (ℝ, `kc ≠ 0`, fuel = the batch's bound:
-- `celv_isSome_celvFuel`, Props/C15 `celv_terminates`), so the statement is not one about two `none`s: entry 1 of the two-entry batch
example : ∃ vs : List ℝ, ∃ _ : vs.length = 2,
    celv (celvFuel [⟨2, 1, 1, 1⟩, ⟨-3, -2, 1, 1⟩]) [(⟨-3, -2, 1, 1⟩ : CelArg ℝ)] = some [vs[1]] := by
  have hs := celv_isSome_celvFuel [(⟨2, 1, 1, 1⟩ : CelArg ℝ), ⟨-3, -2, 1, 1⟩] (by
    intro x hx
    simp only [List.mem_cons, List.not_mem_nil, or_false] at hx
    rcases hx with rfl | rfl <;> norm_num) _ le_rfl
  obtain ⟨vs, hvs⟩ := Option.isSome_iff_exists.mp hs
  obtain ⟨hl, h⟩ := celv_entry_eq_alone _ _ vs hvs
  exact ⟨vs, hl, h 1 (by simp)⟩

/- FULL (false of the code): for every batch and sufficient fuel, entry `i` of `celv batch` equals `cel0 (batch[i])`;
   `cel` returns the same numbers on either side of its `n < 10` threshold.
   False on the band `0 < |1 − |kc|| ≤ 1e-6` (`cel0` returns without a pass, `celv` after one: witness
   `celv_ne_cel0_in_band`) and at `kc = 0` (`cel0` raises, `celv` never returns: Props/C15 `celv_loops_at_zero`). -/
/-- any carrier: on a batch each of whose entries makes `cel0` pass through its loop body at least once (`kc ≠ 0`,
test true at the start; the two spellings `p > 0` / `p <= 0` of the prologue test select the same branch, i.e. `p` is
not NaN) the list comprehension over `cel0` and `celv` return the same list — `cel0`'s fuel counts tests, `celv`'s
passes, hence `fuel + 1` against `fuel` -/
theorem celv_eq_cel0_partial {α : Type} [Num α] (fuel : Nat) (batch : List (CelArg α))
    (h : ∀ x ∈ batch, Num.lt (Kern.n 0) x.p = !Num.le x.p (Kern.n 0) ∧ Num.eq0 x.kc = false ∧
      celvCont (celvInit x) = true) :
    seqOpt (batch.map (cel0Arg (fuel + 1))) = celv fuel batch := by
  rw [celv_rowwise]
  congr 1
  apply List.map_congr_left
  intro x hx
  obtain ⟨h1, h2, h3⟩ := h x hx
  exact cel0Arg_eq_celv1 fuel x h1 h2 h3

-- (audit2) the three per-entry hypotheses of `celv_eq_cel0_partial` are satisfiable (ℝ: the prologue tests agree for every `p`,
-- `kc ≠ 0`, `|1 − |kc|| > 1e-6`); any fuel, here 5
example : seqOpt ([(⟨2, 1, 1, 1⟩ : CelArg ℝ), ⟨-3, -2, 1, 1⟩].map (cel0Arg (5 + 1))) =
    celv 5 [(⟨2, 1, 1, 1⟩ : CelArg ℝ), ⟨-3, -2, 1, 1⟩] :=
  celv_eq_cel0_partial 5 _ (by
    intro x hx
    refine ⟨prologue_tests_agree_real _, ?_, ?_⟩
    · simp only [List.mem_cons, List.not_mem_nil, or_false] at hx
      rcases hx with rfl | rfl <;> simp
    · rw [celvCont_init_iff]
      simp only [List.mem_cons, List.not_mem_nil, or_false] at hx
      rcases hx with rfl | rfl <;> norm_num [abs_of_pos, abs_of_neg])

/-- exact arithmetic, sufficient fuel: off the band and off `kc = 0` the two paths of the dispatcher agree, so the
value `cel` returns for an entry is `celv1` of that entry whatever the length of the batch -/
theorem cel_threshold_consistent_partial (batch : List (CelArg ℝ))
    (h : ∀ x ∈ batch, x.kc ≠ 0 ∧ 1 / 1000000 < |1 - (|x.kc|)|) (fuel : Nat) (hf : celvFuel batch + 1 ≤ fuel) :
    seqOpt (batch.map (cel0Arg fuel)) = celv fuel batch ∧
      celDispatch fuel batch = seqOpt (batch.map (celv1 fuel)) := by
  obtain ⟨f, rfl⟩ : ∃ f, fuel = f + 1 := ⟨fuel - 1, by omega⟩
  have key : seqOpt (batch.map (cel0Arg (f + 1))) = celv (f + 1) batch := by
    rw [celv_rowwise]
    congr 1
    apply List.map_congr_left
    intro x hx
    obtain ⟨h1, h2⟩ := h x hx
    rw [cel0Arg_eq_celv1 f x (prologue_tests_agree_real _) (by simpa using h1) ((celvCont_init_iff x).mpr h2)]
    have hs : (celv1 f x).isSome := celv1_isSome_mono (le_trans (celFuel1_le_celvFuel hx) (by omega))
      (celv1_isSome_celFuel1 x h1)
    obtain ⟨v, hv⟩ := Option.isSome_iff_exists.mp hs
    rw [hv]
    unfold celv1 at hv ⊢
    exact (celvDo_fuel_mono f 1 _ v hv).symm
  refine ⟨key, ?_⟩
  unfold celDispatch
  split_ifs
  · rw [key, celv_rowwise]
  · rw [celv_rowwise]

example : seqOpt ([(⟨2, 1, 1, 1⟩ : CelArg ℝ)].map (cel0Arg (celvFuel [⟨2, 1, 1, 1⟩] + 1))) =
    celv (celvFuel [⟨2, 1, 1, 1⟩] + 1) [(⟨2, 1, 1, 1⟩ : CelArg ℝ)] :=
  (cel_threshold_consistent_partial [⟨2, 1, 1, 1⟩] (by
    intro x hx
    simp only [List.mem_cons, List.not_mem_nil, or_false] at hx
    subst hx
    norm_num [abs_of_pos]) _ le_rfl).1

/-- the exclusion of the band is necessary: for `0 < k`, `k ≠ 1`, `|1 − k| ≤ 1e-6` (and `p = c = s = 1`, the complete
integral of the first kind) the scalar routine returns `π / (1 + k)`, the array routine `2π / (1 + √k)²`, for every
fuel ≥ 1 — two different real numbers; hence one entry evaluated alone (`cel`: scalar path) and the same entry in a
batch of ten (`cel`: array path) get different values -/
theorem celv_ne_cel0_in_band (fuel : Nat) (k : ℝ) (hk : 0 < k) (hk1 : k ≠ 1) (hband : |1 - k| ≤ 1 / 1000000) :
    celDispatch (fuel + 1) [(⟨k, 1, 1, 1⟩ : CelArg ℝ)] = some [Real.pi / (1 + k)] ∧
    celDispatch (fuel + 1) (List.replicate 10 (⟨k, 1, 1, 1⟩ : CelArg ℝ)) =
      some (List.replicate 10 (2 * Real.pi / (1 + √k) ^ 2)) ∧
    Real.pi / (1 + k) ≠ 2 * Real.pi / (1 + √k) ^ 2 := by
  refine ⟨?_, ?_, band_values_differ k hk hk1⟩
  · simp [celDispatch, seqOpt, band_cel0_value fuel k hk hband]
  · have : ¬ ((List.replicate 10 (⟨k, 1, 1, 1⟩ : CelArg ℝ)).length < 10) := by simp
    unfold celDispatch
    rw [if_neg this, celv_rowwise, List.map_replicate, band_celv1_value fuel k hk hband, seqOpt_eq_some_iff,
      List.map_replicate]

example : Real.pi / (1 + (1 + 1 / 2000000 : ℝ)) ≠ 2 * Real.pi / (1 + √(1 + 1 / 2000000 : ℝ)) ^ 2 :=
  (celv_ne_cel0_in_band 0 (1 + 1 / 2000000) (by norm_num) (by norm_num) (by
    rw [abs_of_nonpos (by norm_num)]; norm_num)).2.2

end MagpyVerif.C06

/-! ### `BHJM_magnet_cylinder` on a batch of rows (Model/CylinderBatch.lean)

The kernels call `cel` on whole columns: the axial kernel on the rows of `mask_pol_ax` (four calls), the diametral kernel on the rows
of `mask_pol_tv` with `r/r0 >= 0.05` (two calls).  `cel` switches at 10 entries between `cel0` per entry and `celv`.  So the routine that
computes a row's elliptic integrals depends on how many OTHER rows of the call have an axial / a transversal polarization component and
are not near the axis — on nothing else of the other rows.  Tied to the code by the `cylbatch` rows of the kern stream. -/
namespace MagpyVerif.C06
open MagpyVerif MagpyVerif.Kern

/-- **exact, every carrier (IEEE double included), every batch, every fuel**: the batch result is, row by row, the one-row function
`bhjmCylinderRowWith` in which a `cel` call is `celPath fuel n` — `cel0` for `n < 10`, the entry's own body-first loop `celv1` otherwise —
with `n = cylTvGenCount rows` for the diametral and `n = cylAxCount rows` for the axial kernel.  The call returns iff every row's own
computation returns.  This is the precise sense in which a row depends on the batch: through the two counts only -/
theorem cylinder_batch_rowwise {α : Type} [Num α] (fuel : Nat) (f : Field) (rows : List (CylRow α)) :
    bhjmCylinderBatch (celDispatch fuel) fuel f rows =
      seqOpt (rows.map (bhjmCylinderRowWith (celPath fuel (cylTvGenCount rows)) (celPath fuel (cylAxCount rows)) fuel f)) :=
  bhjmCylinderBatch_rowwise (celDispatch fuel) _ _ fuel f rows
    (fun b hb => by rw [celDispatch_rowwise, hb]) (fun b hb => by rw [celDispatch_rowwise, hb])

/-- every carrier: as long as fewer than 10 rows reach each kernel's `cel` calls, row `i` of the batch is what the call with row `i`
alone computes (`bhjmCylinder`, Model/Cylinder.lean) -/
theorem cylinder_batch_rowwise_below_threshold {α : Type} [Num α] (fuel : Nat) (f : Field) (rows : List (CylRow α))
    (htv : cylTvGenCount rows < 10) (hax : cylAxCount rows < 10) :
    bhjmCylinderBatch (celDispatch fuel) fuel f rows =
      seqOpt (rows.map fun row => bhjmCylinder fuel f (row.d, row.h) row.pol row.x) := by
  rw [cylinder_batch_rowwise]
  apply seqOpt_congr
  intro row _
  rw [bhjmCylinder_eq_with]
  simp [celPath, htv, hax]

/-- in particular (every carrier, IEEE double included): a call with fewer than 10 rows is row-wise without any exception -/
theorem cylinder_batch_rowwise_small {α : Type} [Num α] (fuel : Nat) (f : Field) (rows : List (CylRow α))
    (hlen : rows.length < 10) :
    bhjmCylinderBatch (celDispatch fuel) fuel f rows =
      seqOpt (rows.map fun row => bhjmCylinder fuel f (row.d, row.h) row.pol row.x) :=
  cylinder_batch_rowwise_below_threshold fuel f rows (lt_of_le_of_lt (cylTvGenCount_le rows) hlen)
    (lt_of_le_of_lt (cylAxCount_le rows) hlen)

example : bhjmCylinderBatch (celDispatch 7) 7 .H (List.replicate 9 exCylRow) =
    seqOpt ((List.replicate 9 exCylRow).map fun row => bhjmCylinder 7 .H (row.d, row.h) row.pol row.x) :=
  cylinder_batch_rowwise_small _ _ _ (by simp)

/- FULL (false of the code): for every batch, row `i` of `BHJM_magnet_cylinder(rows)` equals `BHJM_magnet_cylinder([rows[i]])`.
   False when a modulus of one of row `i`'s `cel` entries lies in the band `0 < |1 − |kc|| ≤ 1e-6` and 10 or more rows share the call
   (`celv_ne_cel0_in_band`, `cel_band_exact`; observers within ~5e-7 radii of the axis for the axial kernel, farther than ~1400 radii
   for the diametral kernel; measured on the real code ≤ 1.8e-12 relative, `cylbatch` rows), and not stated for `kc = 0` (`cel0` raises,
   `celv` does not return: Props/C15). -/
/-- exact arithmetic, sufficient fuel: if no modulus of the `cel` entries the rows contribute is 0 or lies in the band
`|1 − |kc|| ≤ 1e-6`, row `i` of the batch result is the one-row model of row `i`, whatever the size and composition of the batch -/
theorem cylinder_batch_rowwise_off_band (fuel : Nat) (f : Field) (rows : List (CylRow ℝ))
    (h : ∀ row ∈ rows, ∀ a ∈ cylRowTvArgs row ++ cylRowAxArgs row,
      a.kc ≠ 0 ∧ 1 / 1000000 < |1 - (|a.kc|)| ∧ celFuel1 |a.kc| (1 / 1000000) + 1 ≤ fuel) :
    bhjmCylinderBatch (celDispatch fuel) fuel f rows =
      seqOpt (rows.map fun row => bhjmCylinder fuel f (row.d, row.h) row.pol row.x) := by
  rw [cylinder_batch_rowwise]
  apply seqOpt_congr
  intro row hrow
  rw [bhjmCylinder_eq_with]
  apply bhjmCylinderRowWith_congr
  · intro a ha
    obtain ⟨h1, h2, h3⟩ := h row hrow a (List.mem_append_left _ ha)
    exact celPath_eq_cel0Arg_off_band a h1 h2 fuel h3 _
  · intro a ha
    obtain ⟨h1, h2, h3⟩ := h row hrow a (List.mem_append_right _ ha)
    exact celPath_eq_cel0Arg_off_band a h1 h2 fuel h3 _

-- non-vacuity: twelve rows (so `cel` takes its `celv` path) whose moduli √(5/17) are off the band
example : bhjmCylinderBatch (celDispatch (celFuel1 (√(5 / 17)) (1 / 1000000) + 1)) (celFuel1 (√(5 / 17)) (1 / 1000000) + 1) .B
      (List.replicate 12 exCylRow) =
    seqOpt ((List.replicate 12 exCylRow).map fun row =>
      bhjmCylinder (celFuel1 (√(5 / 17)) (1 / 1000000) + 1) .B (row.d, row.h) row.pol row.x) :=
  cylinder_batch_rowwise_off_band _ _ _ (exCylRow_off_band _ le_rfl 12)

/-- every carrier: permuting the rows of the call permutes the (row, value) pairs — the two sub-batch counts are invariant -/
theorem cylinder_batch_perm {α : Type} [Num α] (fuel : Nat) (f : Field) {l1 l2 : List (CylRow α)} (hp : l1.Perm l2)
    {v1 : List (V3 α)} (h : bhjmCylinderBatch (celDispatch fuel) fuel f l1 = some v1) :
    ∃ v2, bhjmCylinderBatch (celDispatch fuel) fuel f l2 = some v2 ∧ (l1.zip v1).Perm (l2.zip v2) := by
  rw [cylinder_batch_rowwise] at h
  rw [cylinder_batch_rowwise, ← cylTvGenCount_perm hp, ← cylAxCount_perm hp]
  exact seqOpt_map_perm _ hp h

-- non-vacuity: the call on twelve rows returns (fuel: the rows' `cel0` bound and the one-row model's bound)
example : ∃ v1 v2, bhjmCylinderBatch (celDispatch (max (celFuel1 (√(5 / 17)) (1 / 1000000) + 1) (cylFuelX 2 2 ⟨3, 0, 0⟩)))
      (max (celFuel1 (√(5 / 17)) (1 / 1000000) + 1) (cylFuelX 2 2 ⟨3, 0, 0⟩)) .B (List.replicate 12 exCylRow) = some v1 ∧
    bhjmCylinderBatch (celDispatch (max (celFuel1 (√(5 / 17)) (1 / 1000000) + 1) (cylFuelX 2 2 ⟨3, 0, 0⟩)))
      (max (celFuel1 (√(5 / 17)) (1 / 1000000) + 1) (cylFuelX 2 2 ⟨3, 0, 0⟩)) .B (List.replicate 12 exCylRow).reverse = some v2 ∧
    ((List.replicate 12 exCylRow).zip v1).Perm ((List.replicate 12 exCylRow).reverse.zip v2) := by
  have hs : (bhjmCylinderBatch (celDispatch (max (celFuel1 (√(5 / 17)) (1 / 1000000) + 1) (cylFuelX 2 2 ⟨3, 0, 0⟩)))
      (max (celFuel1 (√(5 / 17)) (1 / 1000000) + 1) (cylFuelX 2 2 ⟨3, 0, 0⟩)) .B (List.replicate 12 exCylRow)).isSome := by
    rw [cylinder_batch_rowwise_off_band _ _ _ (exCylRow_off_band _ (le_max_left _ _) 12), seqOpt_isSome_iff]
    intro o ho
    obtain ⟨row, hrow, rfl⟩ := List.mem_map.mp ho
    rw [List.eq_of_mem_replicate hrow]
    exact bhjmCylinder_isSome _ _ 2 2 _ _ (by norm_num) (by norm_num) (le_max_right _ _)
  obtain ⟨v1, hv1⟩ := Option.isSome_iff_exists.mp hs
  obtain ⟨v2, hv2, hperm⟩ := cylinder_batch_perm _ _ (List.reverse_perm _).symm hv1
  exact ⟨v1, v2, hv1, hv2, hperm⟩

/-- a row's value in two calls that form sub-batches on the same side of the threshold is the same (every carrier): e.g. the same
observer in a call of 12 and in a call of 40 rows reaching the kernel -/
theorem cylinder_row_depends_on_counts_only {α : Type} [Num α] (fuel : Nat) (f : Field) (rows rows' : List (CylRow α))
    (htv : (cylTvGenCount rows < 10) = (cylTvGenCount rows' < 10)) (hax : (cylAxCount rows < 10) = (cylAxCount rows' < 10))
    (row : CylRow α) :
    bhjmCylinderRowWith (celPath fuel (cylTvGenCount rows)) (celPath fuel (cylAxCount rows)) fuel f row =
      bhjmCylinderRowWith (celPath fuel (cylTvGenCount rows')) (celPath fuel (cylAxCount rows')) fuel f row := by
  have e1 : (celPath fuel (cylTvGenCount rows) : CelArg α → Option α) = celPath fuel (cylTvGenCount rows') := by
    unfold celPath; simp only [htv]
  have e2 : (celPath fuel (cylAxCount rows) : CelArg α → Option α) = celPath fuel (cylAxCount rows') := by
    unfold celPath; simp only [hax]
  rw [e1, e2]

/-- **what differs in the band** (exact arithmetic, any `p`, `c`, `s`): for an entry with `kc ≠ 0`, `|1 − |kc|| ≤ 1e-6` and any fuel
≥ 1, `cel0` returns the return expression `celvOut` at the state after the prologue, `celv` the same expression after one pass of the
loop body — these two numbers are what a row's `cel` value is below / from 10 rows -/
theorem cel_band_exact (fuel : Nat) (x : CelArg ℝ) (hkc : x.kc ≠ 0) (hband : |1 - (|x.kc|)| ≤ 1 / 1000000) :
    celPath (fuel + 1) 9 x = some (celvOut (celvInit x)) ∧
    celPath (fuel + 1) 10 x = some (celvOut (celvStep (celvInit x))) := by
  have := band_exact fuel x hkc hband
  simpa [celPath] using this

/-- for the complete integral of the first kind (`p = c = s = 1`; scipy-free `ellipk`) the two band values `π/(1+k)` (`cel0`) and
`2π/(1+√k)²` (`celv`) differ by exactly `(1−k)²/(1+√k)⁴` of the first, hence by at most `(1−k)²/15 ≤ 6.7e-14` of it.
(audit2, corrected: this is a statement about `cel(k, 1, 1, 1)` only.  The Cylinder kernels never pass that entry shape to `cel` —
they pass `(k, 1, 1, −1)`, `(k, γ², 1, γ)` (axial) and `(k, 1 − argc, 1, 1)` with `argc ≠ 0` (diametral); `ellipk` itself is scipy's.
So this bound is NOT the row-alone / row-in-batch difference observed through `BHJM_magnet_cylinder` (measured ≤ 1.8e-12 relative,
i.e. larger than this bound: those differences are dominated by rounding along two different operation sequences).  For the shape
`(k, 1, 1, −1)` see `cel_band_axial_entry` below; for the other two shapes no bound is proved.) -/
theorem cel_band_difference_le (k : ℝ) (hk : 0 < k) (hband : |1 - k| ≤ 1 / 1000000) :
    |Real.pi / (1 + k) - 2 * Real.pi / (1 + √k) ^ 2| ≤ (1 - k) ^ 2 / 15 * (Real.pi / (1 + k)) ∧
    (1 - k) ^ 2 / 15 * (Real.pi / (1 + k)) ≤ 1 / 15000000000000 * (Real.pi / (1 + k)) :=
  band_difference_le k hk hband

example : |Real.pi / (1 + (1 + 1 / 2000000 : ℝ)) - 2 * Real.pi / (1 + √(1 + 1 / 2000000 : ℝ)) ^ 2| ≤
    1 / 15000000000000 * (Real.pi / (1 + (1 + 1 / 2000000 : ℝ))) := by
  have := cel_band_difference_le (1 + 1 / 2000000) (by norm_num) (by rw [abs_of_nonpos (by norm_num)]; norm_num)
  exact le_trans this.1 this.2

/-! #### (audit2) the band for an entry shape the Cylinder really passes, and the batch-level reading of `…_counts_only` -/

/-- the first two `cel` calls of the axial kernel (`cel(k1, one, one, -one)`, `cel(k0, one, one, -one)`, the `Br` part) have the entry
shape `(k, 1, 1, −1)` — not the first-kind shape `(k, 1, 1, 1)` of `celv_ne_cel0_in_band` / `cel_band_difference_le` -/
theorem cylinder_axial_entry_shapes (o : CylObs ℝ) :
    ((cylAxArgs o).1.p = 1 ∧ (cylAxArgs o).1.c = 1 ∧ (cylAxArgs o).1.s = -1) ∧
    ((cylAxArgs o).2.1.p = 1 ∧ (cylAxArgs o).2.1.c = 1 ∧ (cylAxArgs o).2.1.s = -1) := by
  simp [cylAxArgs, Kern.n]

theorem band_out0_axial (k : ℝ) (hk : 0 < k) :
    celvOut (celvInit ⟨k, 1, 1, -1⟩) = Real.pi / 2 * (k - 1) / (1 + k) ^ 2 := by
  have h1 : ¬ ((1 : ℝ) ≤ 0) := by norm_num
  simp only [celvOut, celvInit, celvPre, Kern.n, ofNat_real, le_real, sqrt_real, abs_real, pi_real,
    Nat.cast_one, Nat.cast_ofNat, Nat.cast_zero, decide_eq_true_eq, if_neg h1, Real.sqrt_one,
    abs_of_pos hk]
  field_simp
  ring

theorem band_out1_axial (k : ℝ) (hk : 0 < k) :
    celvOut (celvStep (celvInit ⟨k, 1, 1, -1⟩)) =
      Real.pi / 2 * (k - 1) * (3 * k + 2 * √k + 3) / ((1 + k) * (1 + √k) ^ 4) := by
  have h1 : ¬ ((1 : ℝ) ≤ 0) := by norm_num
  have ht : 0 < √k := Real.sqrt_pos.2 hk
  have hkt : k = √k * √k := (Real.mul_self_sqrt hk.le).symm
  simp only [celvOut, celvStep, celvInit, celvPre, Kern.n, ofNat_real, le_real, sqrt_real, abs_real,
    pi_real, Nat.cast_one, Nat.cast_ofNat, Nat.cast_zero, decide_eq_true_eq, if_neg h1, Real.sqrt_one,
    abs_of_pos hk]
  generalize √k = t at *
  subst hkt
  field_simp
  ring

theorem band_axial_difference_eq (k : ℝ) (hk : 0 < k) :
    Real.pi / 2 * (k - 1) * (3 * k + 2 * √k + 3) / ((1 + k) * (1 + √k) ^ 4) - Real.pi / 2 * (k - 1) / (1 + k) ^ 2 =
      2 * (1 - k) ^ 2 * (k + √k + 1) / (1 + √k) ^ 6 * (Real.pi / 2 * (k - 1) / (1 + k) ^ 2) := by
  have ht : 0 < √k := Real.sqrt_pos.2 hk
  have hkt : k = √k * √k := (Real.mul_self_sqrt hk.le).symm
  generalize √k = t at *
  subst hkt
  have h1 : (1 + t * t) ≠ 0 := by positivity
  have h2 : (1 + t) ≠ 0 := by positivity
  field_simp
  ring

theorem band_axial_factor_le (k : ℝ) (hk : 0 < k) (hband : |1 - k| ≤ 1 / 1000000) :
    2 * (1 - k) ^ 2 * (k + √k + 1) / (1 + √k) ^ 6 ≤ (1 - k) ^ 2 / 10 := by
  have ht : 0 < √k := Real.sqrt_pos.2 hk
  have hk2 : 1 - 1 / 1000000 ≤ k := by have := (abs_le.mp hband).2; linarith
  have hk3 : k ≤ 1 + 1 / 1000000 := by have := (abs_le.mp hband).1; linarith
  have hts : 1 - 1 / 1000000 ≤ √k := by
    apply Real.le_sqrt_of_sq_le
    nlinarith
  have htu : √k ≤ 1 + 1 / 1000 := by
    rw [Real.sqrt_le_iff]; constructor <;> nlinarith
  have h6 : (62 : ℝ) ≤ (1 + √k) ^ 6 := by
    have h2 : (1.99 : ℝ) ≤ 1 + √k := by linarith
    calc (62 : ℝ) ≤ 1.99 ^ 6 := by norm_num
      _ ≤ (1 + √k) ^ 6 := pow_le_pow_left₀ (by norm_num) h2 6
  have hnum : 2 * (k + √k + 1) ≤ 6.2 := by linarith
  have hpos6 : (0 : ℝ) < (1 + √k) ^ 6 := by positivity
  rw [div_le_div_iff₀ hpos6 (by norm_num)]
  have hsq : 0 ≤ (1 - k) ^ 2 := sq_nonneg _
  nlinarith [mul_le_mul_of_nonneg_left h6 hsq, mul_le_mul_of_nonneg_left hnum hsq]

/-- **the band for the entry shape `(k, 1, 1, −1)` of the axial kernel's `Br`** (exact arithmetic, `0 < k ≠ 1`, `|1 − k| ≤ 1e-6`, any
fuel ≥ 1): in a `cel` call of fewer than 10 entries the entry gets `v0 = (π/2)(k−1)/(1+k)²` (`cel0`, no pass), from 10 entries on
`v1 = (π/2)(k−1)(3k+2√k+3)/((1+k)(1+√k)⁴)` (`celv`, one pass); the two numbers are different and differ by exactly
`2(1−k)²(k+√k+1)/(1+√k)⁶` of `v0`, hence by at most `(1−k)²/10 ≤ 1e-13` of it.  This decides (negatively) "the value `cel` returns for
an entry that the Cylinder kernel passes is independent of the batch size" and bounds the dependence for this entry shape; it says
nothing about the `(k, γ², 1, γ)` and `(k, 1 − argc, 1, 1)` entries, and nothing about `Br`, `Bz` themselves (differences of such
values, divided by a distance). -/
theorem cel_band_axial_entry (fuel : Nat) (k : ℝ) (hk : 0 < k) (hk1 : k ≠ 1) (hband : |1 - k| ≤ 1 / 1000000) :
    ∃ v0 v1 : ℝ, celPath (fuel + 1) 9 (⟨k, 1, 1, -1⟩ : CelArg ℝ) = some v0 ∧
      celPath (fuel + 1) 10 (⟨k, 1, 1, -1⟩ : CelArg ℝ) = some v1 ∧
      v0 = Real.pi / 2 * (k - 1) / (1 + k) ^ 2 ∧
      v1 - v0 = 2 * (1 - k) ^ 2 * (k + √k + 1) / (1 + √k) ^ 6 * v0 ∧
      v1 ≠ v0 ∧ |v1 - v0| ≤ (1 - k) ^ 2 / 10 * |v0| ∧ (1 - k) ^ 2 / 10 ≤ 1 / 10000000000000 := by
  have hex := cel_band_exact fuel (⟨k, 1, 1, -1⟩ : CelArg ℝ) hk.ne' (by simpa [abs_of_pos hk] using hband)
  rw [band_out0_axial k hk, band_out1_axial k hk] at hex
  have ht : 0 < √k := Real.sqrt_pos.2 hk
  have hdiff := band_axial_difference_eq k hk
  have hv0 : Real.pi / 2 * (k - 1) / (1 + k) ^ 2 ≠ 0 := by
    have : k - 1 ≠ 0 := sub_ne_zero.mpr hk1
    have hp := Real.pi_ne_zero
    positivity
  have hfac : 0 < 2 * (1 - k) ^ 2 * (k + √k + 1) / (1 + √k) ^ 6 := by
    have : 0 < (1 - k) ^ 2 := by
      have : 1 - k ≠ 0 := sub_ne_zero.mpr (Ne.symm hk1)
      positivity
    positivity
  refine ⟨_, _, hex.1, hex.2, rfl, hdiff, ?_, ?_, ?_⟩
  · intro h
    rw [h, sub_self] at hdiff
    exact (mul_ne_zero hfac.ne' hv0) hdiff.symm
  · rw [hdiff, abs_mul, abs_of_pos hfac]
    exact mul_le_mul_of_nonneg_right (band_axial_factor_le k hk hband) (abs_nonneg _)
  · have hsq : (1 - k) ^ 2 ≤ (1 / 1000000) ^ 2 := by
      rw [← sq_abs (1 - k)]
      exact pow_le_pow_left₀ (abs_nonneg _) hband 2
    calc (1 - k) ^ 2 / 10 ≤ (1 / 1000000) ^ 2 / 10 := by gcongr
      _ = 1 / 10000000000000 := by norm_num

-- non-vacuity: k = 1 + 5e-7 (an observer ~5e-7 radii from the axis)
example : ∃ v0 v1 : ℝ, celPath 1 9 (⟨1 + 1 / 2000000, 1, 1, -1⟩ : CelArg ℝ) = some v0 ∧
    celPath 1 10 (⟨1 + 1 / 2000000, 1, 1, -1⟩ : CelArg ℝ) = some v1 ∧ v1 ≠ v0 ∧ |v1 - v0| ≤ 1 / 10000000000000 * |v0| := by
  obtain ⟨v0, v1, h0, h1, _, _, hne, hle, hb⟩ := cel_band_axial_entry 0 (1 + 1 / 2000000) (by norm_num) (by norm_num) (by
    rw [abs_of_nonpos (by norm_num)]; norm_num)
  exact ⟨v0, v1, h0, h1, hne, le_trans hle (mul_le_mul_of_nonneg_right hb (abs_nonneg _))⟩

/-- **batch-level reading of `cylinder_row_depends_on_counts_only`** (every carrier, IEEE double included): if the same row occurs at
index `i` of one call and at index `j` of another call, both calls return, and the two calls are on the same side of the threshold 10
with each of their two sub-batch counts, then the row gets the same value in both calls — whatever else the calls contain, in whatever
order.  (`cylinder_row_depends_on_counts_only` alone is a congruence in `celPath`'s count argument, `celPath fuel n` reading `n` only
through `n < 10`; the content is `cylinder_batch_rowwise`.) -/
theorem cylinder_batch_entry_same_side {α : Type} [Num α] (fuel : Nat) (f : Field) (rows rows' : List (CylRow α))
    (htv : (cylTvGenCount rows < 10) = (cylTvGenCount rows' < 10)) (hax : (cylAxCount rows < 10) = (cylAxCount rows' < 10))
    (v v' : List (V3 α)) (h : bhjmCylinderBatch (celDispatch fuel) fuel f rows = some v)
    (h' : bhjmCylinderBatch (celDispatch fuel) fuel f rows' = some v')
    (i j : Nat) (hi : i < rows.length) (hj : j < rows'.length) (hrow : rows[i] = rows'[j]) :
    ∃ w, v[i]? = some w ∧ v'[j]? = some w := by
  rw [cylinder_batch_rowwise] at h h'
  obtain ⟨hl, hg⟩ := seqOpt_map_getElem _ _ _ h
  obtain ⟨hl', hg'⟩ := seqOpt_map_getElem _ _ _ h'
  have e := cylinder_row_depends_on_counts_only fuel f rows rows' htv hax rows[i]
  have h1 := hg i hi
  have h2 := hg' j hj
  rw [e, hrow, h2] at h1
  refine ⟨v[i]'(hl ▸ hi), List.getElem?_eq_getElem _, ?_⟩
  rw [List.getElem?_eq_getElem (hl' ▸ hj)]
  exact h1.symm ▸ rfl

-- non-vacuity (ℝ): the row at index 3 of a call of 12 rows and at index 5 of the reversed call (both calls return: off the band,
-- `bhjmCylinder_isSome`, `cylinder_batch_perm`)
example : ∃ w, ∃ v v' : List (V3 ℝ),
    bhjmCylinderBatch (celDispatch (max (celFuel1 (√(5 / 17)) (1 / 1000000) + 1) (cylFuelX 2 2 ⟨3, 0, 0⟩)))
      (max (celFuel1 (√(5 / 17)) (1 / 1000000) + 1) (cylFuelX 2 2 ⟨3, 0, 0⟩)) .B (List.replicate 12 exCylRow) = some v ∧
    bhjmCylinderBatch (celDispatch (max (celFuel1 (√(5 / 17)) (1 / 1000000) + 1) (cylFuelX 2 2 ⟨3, 0, 0⟩)))
      (max (celFuel1 (√(5 / 17)) (1 / 1000000) + 1) (cylFuelX 2 2 ⟨3, 0, 0⟩)) .B (List.replicate 12 exCylRow).reverse = some v' ∧
    v[3]? = some w ∧ v'[5]? = some w := by
  have hs : (bhjmCylinderBatch (celDispatch (max (celFuel1 (√(5 / 17)) (1 / 1000000) + 1) (cylFuelX 2 2 ⟨3, 0, 0⟩)))
      (max (celFuel1 (√(5 / 17)) (1 / 1000000) + 1) (cylFuelX 2 2 ⟨3, 0, 0⟩)) .B (List.replicate 12 exCylRow)).isSome := by
    rw [cylinder_batch_rowwise_off_band _ _ _ (exCylRow_off_band _ (le_max_left _ _) 12), seqOpt_isSome_iff]
    intro o ho
    obtain ⟨row, hrow, rfl⟩ := List.mem_map.mp ho
    rw [List.eq_of_mem_replicate hrow]
    exact bhjmCylinder_isSome _ _ 2 2 _ _ (by norm_num) (by norm_num) (le_max_right _ _)
  obtain ⟨v, hv⟩ := Option.isSome_iff_exists.mp hs
  obtain ⟨v', hv', _⟩ := cylinder_batch_perm _ _ (List.reverse_perm _).symm hv
  obtain ⟨w, h1, h2⟩ := cylinder_batch_entry_same_side _ _ _ _
    (by rw [cylTvGenCount_perm (List.reverse_perm _)]) (by rw [cylAxCount_perm (List.reverse_perm _)]) v v' hv hv' 3 5
    (by simp) (by simp) (by simp)
  exact ⟨w, v, v', hv, hv', h1, h2⟩

end MagpyVerif.C06

/-! ### `cel_iterv` (special_cel.py, the Circle kernel): every entry is stepped until the slowest one has met its test

`cel_iter` returns `cel_iterv(…)` for every batch size (below 15 entries the scalar loop `cel_iter0` runs first, its result is
discarded).  `cel_iterv` has no mask: `while np.any(|g − qc| >= qc·1e-8): <body on all entries>`. -/
namespace MagpyVerif.C06
open MagpyVerif MagpyVerif.Kern

/- FULL (false of the code): entry `i` of `cel_iterv(batch)` equals `cel_iter0(batch[i])`.  False whenever another entry of the batch
   needs more passes: the entry is stepped on, and away from the fixed point a pass changes the return expression (by an amount that
   contracts quadratically with the gap `em − 2√kk`; measured on Circle.getB ≤ 6e-16 relative — no bound is proved). -/
/-- exact arithmetic, rows of the shape the loop maintains (`0 < g`, `0 < qc`, `em = g + qc`, `kk = qc·g` — the rows the Circle
kernel builds, `circle_rows_have_shape`): if the batch loop returns `vs`, there is ONE pass count `N` such that entry `i` of `vs` is
the return expression of row `i` after `N` passes; row `i` alone would have stopped after its own `Nᵢ ≤ N` passes (an entry that has
met the exit test keeps meeting it); and `N` is attained: it is the pass count of the slowest entry, which gets exactly its own value -/
theorem cel_iterv_passes_partial (fuel : Nat) (rows : List (CelRow ℝ)) (hshape : ∀ s ∈ rows, CelShape s) (vs : List ℝ)
    (h : celIterV fuel rows = some vs) :
    ∃ N, N < fuel ∧ vs = rows.map (fun s => celRowOut (celRowStep^[N] s)) ∧
      (∀ s ∈ rows, ∃ Ns, Ns ≤ N ∧ celIterRow fuel s = some (celRowOut (celRowStep^[Ns] s))) ∧
      (rows ≠ [] → ∃ s ∈ rows, celIterRow fuel s = some (celRowOut (celRowStep^[N] s))) :=
  celIterV_passes fuel rows hshape vs h

/-- the rows `BHJM_circle` passes to `cel_iter` (`qc = kk = q`, `p = em = 1 + q`, `g = 1`, `q > 0`) have that shape -/
theorem circle_rows_have_shape (q cc ss : ℝ) (hq : 0 < q) : CelShape ⟨q, 1 + q, 1, cc, ss, 1 + q, q⟩ :=
  ⟨one_pos, hq, rfl, (mul_one q).symm⟩

-- non-vacuity: a two-row batch of Circle rows returns (Props/C15 `celIterV_terminates`), so the theorem applies
example : ∃ vs N, celIterV (celFuelV [⟨2, 3, 1, 1, 1, 3, 2⟩, ⟨5, 6, 1, 0, 1, 6, 5⟩])
      [(⟨2, 3, 1, 1, 1, 3, 2⟩ : CelRow ℝ), ⟨5, 6, 1, 0, 1, 6, 5⟩] = some vs ∧
    vs = [celRowOut (celRowStep^[N] ⟨2, 3, 1, 1, 1, 3, 2⟩), celRowOut (celRowStep^[N] ⟨5, 6, 1, 0, 1, 6, 5⟩)] := by
  have hs := celIterV_isSome_celFuelV [(⟨2, 3, 1, 1, 1, 3, 2⟩ : CelRow ℝ), ⟨5, 6, 1, 0, 1, 6, 5⟩] (by
    intro s hs
    simp only [List.mem_cons, List.not_mem_nil, or_false] at hs
    rcases hs with rfl | rfl <;> norm_num) _ le_rfl
  obtain ⟨vs, hvs⟩ := Option.isSome_iff_exists.mp hs
  obtain ⟨N, _, hv, _⟩ := cel_iterv_passes_partial _ _ (by
    intro s hs
    simp only [List.mem_cons, List.not_mem_nil, or_false] at hs
    rcases hs with rfl | rfl
    · have := circle_rows_have_shape 2 1 1 (by norm_num); norm_num at this; exact this
    · have := circle_rows_have_shape 5 0 1 (by norm_num); norm_num at this; exact this) vs hvs
  exact ⟨vs, N, hvs, by simpa using hv⟩

/-- any carrier: the batch value is the return expression after the same number `N` of passes for all entries, `N` the first pass
count at which every entry meets the exit test -/
theorem cel_iterv_same_pass_count {α : Type} [Num α] (fuel : Nat) (rows : List (CelRow α)) (vs : List α)
    (h : celIterV fuel rows = some vs) :
    ∃ N, N < fuel ∧ (∀ j, j < N → ∃ s ∈ rows, celRowCont (celRowStep^[j] s) = true) ∧
      (∀ s ∈ rows, celRowCont (celRowStep^[N] s) = false) ∧
      vs = rows.map fun s => celRowOut (celRowStep^[N] s) :=
  celIterV_some_spec fuel rows vs h

/-- at the fixed point of the iteration (`2√kk = em`) a pass does not change the return expression: the extra passes an entry gets
are harmless in the limit; how much they change the value before the limit is not bounded here -/
theorem cel_iterv_extra_pass_at_fixed_point (s : CelRow ℝ) (hfix : 2 * √s.kk = s.em) (hp : s.p ≠ 0) (hemp : s.em + s.p ≠ 0) :
    celRowOut (celRowStep s) = celRowOut s :=
  celRowOut_step_fixed s hfix hp hemp

example : celRowOut (celRowStep (⟨1, 2, 1, 3, 5, 2, 1⟩ : CelRow ℝ)) = celRowOut ⟨1, 2, 1, 3, 5, 2, 1⟩ :=
  cel_iterv_extra_pass_at_fixed_point _ (by norm_num) (by norm_num) (by norm_num)

/-- (audit2) the three theorems above are about `celIterV`; the driver's `celiter` command (and the stream) runs `celIterDispatch` —
`cel_iter` as written: below 15 entries the scalar loop on every entry first (result discarded; the call does not return if one of
them does not), then `cel_iterv`.  Exact arithmetic, rows of the loop's shape: the two are the same function for every batch length
and every fuel, because each entry alone stops no later than the batch loop (`cel_iterv_passes_partial`) — so the pre-loop changes
neither the value nor whether the call returns, and `cel_iter` has no batch-size switch at 15 in its VALUE -/
theorem cel_iter_dispatch_is_iterv_partial (fuel : Nat) (rows : List (CelRow ℝ)) (hshape : ∀ s ∈ rows, CelShape s) :
    celIterDispatch fuel rows = celIterV fuel rows := by
  unfold celIterDispatch
  split_ifs with hlen hall
  · rfl
  · cases hv : celIterV fuel rows with
    | none => rfl
    | some vs =>
      exfalso
      apply hall
      obtain ⟨N, _, _, hrow, _⟩ := cel_iterv_passes_partial fuel rows hshape vs hv
      rw [List.all_eq_true]
      intro s hs
      obtain ⟨Ns, _, hNs⟩ := hrow s hs
      rw [hNs]; rfl
  · rfl

example : celIterDispatch 9 [(⟨2, 3, 1, 1, 1, 3, 2⟩ : CelRow ℝ), ⟨5, 6, 1, 0, 1, 6, 5⟩] =
    celIterV 9 [(⟨2, 3, 1, 1, 1, 3, 2⟩ : CelRow ℝ), ⟨5, 6, 1, 0, 1, 6, 5⟩] :=
  cel_iter_dispatch_is_iterv_partial _ _ (by
    intro s hs
    simp only [List.mem_cons, List.not_mem_nil, or_false] at hs
    rcases hs with rfl | rfl
    · have := circle_rows_have_shape 2 1 1 (by norm_num); norm_num at this; exact this
    · have := circle_rows_have_shape 5 0 1 (by norm_num); norm_num at this; exact this)

end MagpyVerif.C06

/-! ### `el3v` (special_el3.py): the control-flow skeleton of its main loop -/
namespace MagpyVerif.C06
open MagpyVerif MagpyVerif.Kern

/- FULL (not shown): entry `i` of `el3v(batch)` equals `el30(batch[i])`, and `el3` returns the same numbers on either side
   of its `n < 10` threshold.  Shown here only for the loop's control flow with the per-entry statements abstract (`body`:
   the statements under `mask10`, `test`: `|g − s| > CA·g`, `post`: the statements under `mask11`); that each of those
   statements acts on an entry's own variables only is read off the source, not proved.  The values are tied by the `el3batch`
   rows of the kern stream (real `el3` / `el3v` on batches of 1..40 entries against the port of `el30` entry by entry, and
   `el3v(batch)[i]` bit-identical to `el3v([batch[i]])` on the real code).  Known difference of the two paths: for `x < 0` in
   the logarithmic branch `el30` raises ValueError where `el3v` returns NaN (known finding el3-nan-to-int). -/
/-- for every per-entry `body`, `test`, `post` and every state type: the masked array loop `mask10 = ones; while any(mask10):
body on mask10; mask11 = test (all entries); post on mask11; mask10 = mask11` computes for every entry what the scalar loop
`while True: body; if test: post else: break` (`el30`) computes for that entry alone — an entry leaves the loop when its own
test fails and is not touched afterwards; the batch returns iff every entry's own loop has ended within `fuel` passes -/
theorem el3v_loop_rowwise_partial {σ : Type} (L : MaskedLoop σ) (fuel : Nat) (batch : List σ) :
    L.run fuel (batch.map fun s => (s, true)) = seqOpt (batch.map (L.run1 fuel)) :=
  L.run_rowwise fuel batch

/-- the loop of `celv` (Model/Celv.lean, what the driver runs) is the instance `post = id` of the same skeleton -/
theorem celv_loop_is_skeleton_instance {α : Type} [Num α] (fuel : Nat) (st : List (CelvRow α × Bool)) :
    celvLoop fuel st =
      ((⟨celvStep, celvCont, id⟩ : MaskedLoop (CelvRow α)).run fuel st).map (fun l => l.map celvOut) :=
  celvLoop_eq_maskedLoop fuel st

-- non-vacuity: entries needing 3 passes, 1 pass (the forced first pass) and 2 passes in one batch
example : (⟨(· + 1), (· < 3), id⟩ : MaskedLoop Nat).run 5 ([0, 7, 1].map fun s => (s, true)) = some [3, 8, 3] := by decide

end MagpyVerif.C06
