/-
Props/C20b.lean — C20 "… and never leak": the resolved style that show() puts on `obj._style` while it builds the
traces (utility.style_temp_edit) is taken off again however the drawing ends.

Model: a `with style_temp_edit(obj, tmp): body` block as a three-step state machine over the object's `_style` slot
(read the original, assign the temporary style, run the body which returns or raises, restore).  Where the restore
happens — in a `finally` or after the body — and whether the original is read before the first assignment are not
assumed: they are the regenerated facts `Gen.StyleTemp.*`, read from the source's AST on every run.
-/
import MagpyVerif.Gen.StyleTemp

namespace MagpyVerif.C20b

/-- how the body of the `with` block ends -/
inductive Outcome where
  | returns
  | raises
  deriving DecidableEq, Repr

/-- content of `obj._style` after the block, as a function of the code's shape -/
def slotAfter {σ : Type} (origReadFirst restoreInFinally : Bool) (assignsOutsideTry : Nat) (orig tmp : σ) : Outcome → σ
  | .returns => if origReadFirst then orig else tmp
  | .raises => if origReadFirst && restoreInFinally && assignsOutsideTry == 0 then orig else tmp

/-- the block as the source has it now -/
def slotNow {σ : Type} (orig tmp : σ) (o : Outcome) : σ :=
  slotAfter Gen.StyleTemp.origReadFirst Gen.StyleTemp.restoreInFinally Gen.StyleTemp.assignsOutsideTry orig tmp o

/-- whatever happens while the traces are built, the object gets its own style back -/
theorem style_temp_edit_restores {σ : Type} (orig tmp : σ) (o : Outcome) : slotNow orig tmp o = orig := by
  have h1 : Gen.StyleTemp.origReadFirst = true := by decide
  have h2 : Gen.StyleTemp.restoreInFinally = true := by decide
  have h3 : Gen.StyleTemp.assignsOutsideTry = 0 := by decide
  cases o <;> simp [slotNow, slotAfter, h1, h2, h3]

/-- the hypothesis matters: without the `finally` a raising body leaves the temporary style behind -/
theorem without_finally_style_leaks : slotAfter true false 0 "own" "resolved" .raises = "resolved" := by decide

example : slotNow "own" "resolved" .raises = "own" := style_temp_edit_restores _ _ _

end MagpyVerif.C20b
