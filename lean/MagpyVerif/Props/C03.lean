/-
Props/C03.lean — fields are covariant under rigid motion of the whole setup.
Model: Model/Level2.lean (`level1` = getBH_level1's frame change, `leafB`, `sumT`); the motion
`(Q,t)` acts on a source by `p ↦ Q p + t`, `R ↦ Q R` on every path entry (what
`rotate(Q, anchor=0)` then `move(t)` realise, see C09) and on observer positions by `x ↦ Q x + t`.
The local field function `F` is arbitrary: the theorems hold for every source class.
-/
import MagpyVerif.Lemmas.Level2Compose
namespace MagpyVerif.C03
open MagpyVerif MagpyVerif.Level2
variable {G V : Type}
variable [Group G] [AddCommGroup V] [DistribMulAction G V]

/-- one source, one path index, one observer -/
theorem covariance_pointwise (Q : G) (t : V) (s : Src G V) (m : Nat) (x : V) :
    level1 (s.moved Q t) m (Q • x + t) = Q • level1 s m x :=
  level1_covariant Q t s m x

/-- a source entry (bare source or arbitrarily nested collection, any path lengths), all path
indices and all observer positions at once -/
theorem covariance (Q : G) (t : V) (leaves : List (Src G V)) (M : Nat) (X : List V) :
    sumT ((leaves.map (Src.moved Q t)).map (leafB [obsSensor (X.map fun x => Q • x + t)] M)) =
      (sumT (leaves.map (leafB [obsSensor X] M))).map (List.map (Q • ·)) :=
  entry_covariant Q t leaves M X

-- non-vacuity: a concrete source (rotated by 90° about z at the second path entry) evaluates
example : level1 (G := M3 Int) (V := V3 Int)
    { pos := [⟨3, 0, 0⟩, ⟨4, 0, 0⟩], ori := [1, ⟨⟨0, -1, 0⟩, ⟨1, 0, 0⟩, ⟨0, 0, 1⟩⟩], F := fun x => x + ⟨1, 0, 0⟩ } 5 ⟨10, 0, 0⟩
      = ⟨6, 1, 0⟩ := by decide


/-- with Sensor observers: if every leaf of an entry and the sensor are moved by the same rigid
motion (whole paths), the sensor reads the same values as before — at every path index, for every
pixel, either handedness, any nesting (the entry enters only through its leaves) -/
theorem covariance_with_sensor [BEq G] [LawfulBEq G] (flipX : V → V) (Q : G) (t : V) (e e' : Entry G V)
    (hl : e'.leaves = e.leaves.map (Src.moved Q t)) (k : Sens G V) (hk : k.ori ≠ []) (m : Nat) :
    (pixPos (k.moved Q t) m).map (specValue flipX e' (k.moved Q t) m) =
      (pixPos k m).map (specValue flipX e k m) := by
  rw [pixPos_moved, List.map_map]
  apply List.map_congr_left
  intro x _
  exact specValue_moved flipX Q t e e' hl k hk m x

end MagpyVerif.C03
