/-
Props/C03.lean — fields are covariant under rigid motion of the whole setup.
Model: Model/Level2.lean (`level1` = getBH_level1's frame change, `leafB`, `sumT`); the motion
`(Q,t)` acts on a source by `p ↦ Q p + t`, `R ↦ Q R` on every path entry (what
`rotate(Q, anchor=0)` then `move(t)` realise, see C09) and on observer positions by `x ↦ Q x + t`.
The local field function `F` is arbitrary: the theorems hold for every source class.
-/
import MagpyVerif.Lemmas.Level2
namespace MagpyVerif.C03
open MagpyVerif MagpyVerif.Level2
variable {G V : Type}
variable [Group G] [AddCommGroup V] [DistribMulAction G V]

/-- one source, one path index, one observer -/
theorem covariance_pointwise (Q : G) (t : V) (s : Src G V) (m : Nat) (x : V) :
    level1 (s.moved Q t) m (Q • x + t) = Q • level1 s m x :=
  level1_covariant Q t s m x

/-- a source entry (bare source or arbitrarily nested collection, any path lengths), all path
indices and all observer positions at once -/
theorem covariance (Q : G) (t : V) (leaves : List (Src G V)) (M : Nat) (X : List V) :
    sumT ((leaves.map (Src.moved Q t)).map (leafB [obsSensor (X.map fun x => Q • x + t)] M)) =
      (sumT (leaves.map (leafB [obsSensor X] M))).map (List.map (Q • ·)) :=
  entry_covariant Q t leaves M X

-- non-vacuity: a concrete source (rotated by 90° about z at the second path entry) evaluates
example : level1 (G := M3 Int) (V := V3 Int)
    { pos := [⟨3, 0, 0⟩, ⟨4, 0, 0⟩], ori := [1, ⟨⟨0, -1, 0⟩, ⟨1, 0, 0⟩, ⟨0, 0, 1⟩⟩], F := fun x => x + ⟨1, 0, 0⟩ } 5 ⟨10, 0, 0⟩
      = ⟨6, 1, 0⟩ := by decide

end MagpyVerif.C03
