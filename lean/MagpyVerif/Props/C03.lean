/-
Props/C03.lean — fields are covariant under rigid motion of the whole setup.
Model: Model/Level2.lean (`level1` = getBH_level1's frame change, `leafB`, `sumT`); the motion
`(Q,t)` acts on a source by `p ↦ Q p + t`, `R ↦ Q R` on every path entry (what
`rotate(Q, anchor=0)` then `move(t)` realise, see C09) and on observer positions by `x ↦ Q x + t`.
The local field function `F` is arbitrary: the theorems hold for every source class.
-/
import MagpyVerif.Lemmas.Level2Compose
import MagpyVerif.Lemmas.OctaCarrier
import Mathlib.Algebra.GroupWithZero.Action.Units
import Mathlib.Algebra.Ring.Int.Units
namespace MagpyVerif.C03
open MagpyVerif MagpyVerif.Level2
variable {G V : Type}
variable [Group G] [AddCommGroup V] [DistribMulAction G V]

/-- one source, one path index, one observer -/
theorem covariance_pointwise (Q : G) (t : V) (s : Src G V) (m : Nat) (x : V) :
    level1 (s.moved Q t) m (Q • x + t) = Q • level1 s m x :=
  level1_covariant Q t s m x

/-- a source entry (bare source or arbitrarily nested collection, any path lengths), all path
indices and all observer positions at once -/
theorem covariance (Q : G) (t : V) (leaves : List (Src G V)) (M : Nat) (X : List V) :
    sumT ((leaves.map (Src.moved Q t)).map (leafB [obsSensor (X.map fun x => Q • x + t)] M)) =
      (sumT (leaves.map (leafB [obsSensor X] M))).map (List.map (Q • ·)) :=
  entry_covariant Q t leaves M X

-- non-vacuity: a concrete source (rotated by 90° about z at the second path entry) evaluates
example : level1 (G := M3 Int) (V := V3 Int)
    { pos := [⟨3, 0, 0⟩, ⟨4, 0, 0⟩], ori := [1, ⟨⟨0, -1, 0⟩, ⟨1, 0, 0⟩, ⟨0, 0, 1⟩⟩], F := fun x => x + ⟨1, 0, 0⟩ } 5 ⟨10, 0, 0⟩
      = ⟨6, 1, 0⟩ := by decide


/-- with Sensor observers: if every leaf of an entry and the sensor are moved by the same rigid
motion (whole paths), the sensor reads the same values as before — at every path index, for every
pixel, either handedness, any nesting (the entry enters only through its leaves) -/
theorem covariance_with_sensor [BEq G] [LawfulBEq G] (flipX : V → V) (Q : G) (t : V) (e e' : Entry G V)
    (hl : e'.leaves = e.leaves.map (Src.moved Q t)) (k : Sens G V) (hk : k.ori ≠ []) (m : Nat) :
    (pixPos (k.moved Q t) m).map (specValue flipX e' (k.moved Q t) m) =
      (pixPos k m).map (specValue flipX e k m) := by
  rw [pixPos_moved, List.map_map]
  apply List.map_congr_left
  intro x _
  exact specValue_moved flipX Q t e e' hl k hk m x


/-! ### end-to-end statements about the pipeline model `Model/Level2.tensor` (what the driver executes and the
`level2` stream compares with `getBH_level2`); `covariance` / `covariance_with_sensor` above are statements about
the per-entry sum `sumT ∘ leafB` resp. the specification value `specValue`, these two are about `tensor` itself -/
section e2e
variable [BEq G] [LawfulBEq G]

/-- **C03 end to end, Sensor observers**: the whole marshalling pipeline (`Model/Level2.tensor`, what
`getBH_level2` computes before pixel_agg / sumup / squeeze) returns the very same tensor when every source
entry (bare or nested to any depth) and every sensor is moved by one rigid motion along its whole path. -/
theorem covariance_end_to_end (flipX : V → V) (Q : G) (t : V) (entries : List (Entry G V))
    (sensors : List (Sens G V)) (he : ∀ e ∈ entries, e.leaves ≠ []) (hs : ∀ k ∈ sensors, k.WF) :
    tensor flipX (entries.map (Entry.moved Q t)) (sensors.map (Sens.moved Q t)) =
      tensor flipX entries sensors := by
  have hs' : ∀ k ∈ sensors.map (Sens.moved Q t), k.WF := by
    intro k h
    obtain ⟨k0, h0, rfl⟩ := List.mem_map.mp h
    exact Sens.moved_WF Q t k0 (hs k0 h0)
  rw [tensor_eq_spec _ _ _ (moved_leaves_ne_nil Q t entries he) hs', tensor_eq_spec _ _ _ he hs]
  unfold specTensor
  rw [flatMap_leaves_moved, pathLen_moved, List.map_map]
  apply List.map_congr_left
  intro e _
  apply List.map_congr_left
  intro m _
  rw [List.map_map]
  apply List.map_congr_left
  intro k hk
  simp only [Function.comp]
  rw [pixPos_moved, List.map_map]
  apply List.map_congr_left
  intro x _
  exact specValue_moved flipX Q t e (e.moved Q t) (Entry.moved_leaves Q t e) k (hs k hk).1 m x

/-- **C03 end to end, position observers** (the property's literal statement): moving every source entry
(bare or nested, whole paths) and every observer position by one rigid motion `x ↦ Q x + t` rotates every
vector of the tensor the pipeline returns by `Q` and changes nothing else (same shape, same order). -/
theorem covariance_positions_end_to_end (flipX : V → V) (Q : G) (t : V) (entries : List (Entry G V))
    (X : List V) (he : ∀ e ∈ entries, e.leaves ≠ []) :
    tensor flipX (entries.map (Entry.moved Q t)) [obsSensor (X.map fun x => Q • x + t)] =
      (tensor flipX entries [obsSensor X]).map (List.map (List.map (List.map (Q • ·)))) := by
  have hw : ∀ (Y : List V), ∀ k ∈ [obsSensor (G := G) Y], k.WF := by
    intro Y k hk
    rw [List.mem_singleton.mp hk]
    exact obsSensor_WF Y
  rw [tensor_eq_spec _ _ _ (moved_leaves_ne_nil Q t entries he) (hw _), tensor_eq_spec _ _ _ he (hw _)]
  unfold specTensor
  have hpl : pathLen ((entries.map (Entry.moved Q t)).flatMap Entry.leaves)
      [obsSensor (G := G) (X.map fun x => Q • x + t)] =
      pathLen (entries.flatMap Entry.leaves) [obsSensor (G := G) X] := by
    rw [flatMap_leaves_moved]
    unfold pathLen
    simp [List.map_map, Function.comp_def, Src.moved, obsSensor]
  rw [hpl, List.map_map, List.map_map]
  apply List.map_congr_left
  intro e _
  simp only [Function.comp, List.map_map]
  apply List.map_congr_left
  intro m _
  simp only [Function.comp, List.map_cons, List.map_nil, pixPos_obsSensor, List.map_map]
  congr 1
  apply List.map_congr_left
  intro x _
  simp only [Function.comp, specValue_obsSensor, Entry.moved_leaves, List.map_map]
  rw [← sum_map_smul, List.map_map]
  congr 1
  apply List.map_congr_left
  intro s _
  exact level1_covariant Q t s m x
end e2e

-- non-vacuity WITH the algebraic hypotheses instantiated (the example above evaluates the model on the driver's
-- carrier `M3 Int`, which is not a `Group`): the group {1, -1} = ℤˣ acting on ℤ by multiplication (the reflection
-- group in one dimension), a nested entry with paths of length 2 and 1, a left-handed two-step sensor; all
-- hypotheses of `covariance_end_to_end` hold
example : ∃ (entries : List (Entry ℤˣ ℤ)) (sensors : List (Sens ℤˣ ℤ)),
    (∀ e ∈ entries, e.leaves ≠ []) ∧ (∀ k ∈ sensors, k.WF) ∧ entries ≠ [] ∧ sensors ≠ [] :=
  ⟨[.coll [.leaf ⟨[3, 4], [1, -1], fun x => x + 1⟩, .coll [.leaf ⟨[0], [1], fun x => 2 * x⟩]]],
   [⟨[7, 8], [-1, 1], [0, 1], [2], true⟩],
   by simp [Entry.leaves], by simp [Sens.WF, pixNum], by simp, by simp⟩


/-! ### on the carrier the driver computes with (AUDIT X1)

The theorems above are about the model functions at an abstract `Group G`; the driver (and through the
`level2` stream the real code) is compared with the same functions at `M3 Int` / `V3 Int`, where `⁻¹` is the
transpose — not a group.  Lemmas/OctaCarrier.lean shows that on the octahedral rotation matrices (`IsOct`:
orthogonal, determinant 1; the 24 matrices the streams use) the `M3 Int` evaluation IS the evaluation at the
group `Oct`; so the statements hold for what the driver computes.  `Entry.movedOp` / `Sens.movedOp` are
`Entry.moved` / `Sens.moved` written with the bare operation classes (`Entry.moved_eq_op`). -/
section driverCarrier

/-- **C03 end to end on the driver's carrier** (`M3 Int`, `V3 Int`, instances of Model/Basic.lean): if the
rotation `Q` and every rotation matrix of the sources' and sensors' orientation paths is octahedral, the
pipeline model evaluated *as the driver evaluates it* returns the same tensor for the moved scene. -/
theorem covariance_end_to_end_on_driver_carrier (flipX : V3 Int → V3 Int) (Q : M3 Int) (t : V3 Int)
    (entries : List EntryZ) (sensors : List SensZ)
    (hQ : IsOct Q) (heo : ∀ e ∈ entries, e.RotsOct) (hso : ∀ k ∈ sensors, k.RotsOct)
    (he : ∀ e ∈ entries, e.leaves ≠ []) (hs : ∀ k ∈ sensors, k.WF) :
    tensor flipX (entries.map (Entry.movedOp Q t)) (sensors.map (Sens.movedOp Q t)) =
      tensor flipX entries sensors := by
  obtain ⟨es, rfl⟩ := exists_oct_entries entries heo
  obtain ⟨ks, rfl⟩ := exists_oct_sensors sensors hso
  obtain ⟨q, rfl⟩ := Oct.exists_toM3_eq hQ
  have h := covariance_end_to_end flipX q t es ks
    (fun e h => (Entry.mapG_leaves_ne_nil Oct.toM3 e).mp (he _ (List.mem_map_of_mem h)))
    (fun k h => (Sens.mapG_WF Oct.toM3 k).mp (hs _ (List.mem_map_of_mem h)))
  rw [← tensor_at_Oct_eq_at_M3Int, ← tensor_at_Oct_eq_at_M3Int] at h
  simpa only [List.map_map, Function.comp_def, Entry.moved_toM3, Sens.moved_toM3] using h

/-- **C03 end to end on the driver's carrier, position observers**: the tensor of the moved scene is the
old one with every vector rotated by the integer matrix `Q` -/
theorem covariance_positions_end_to_end_on_driver_carrier (flipX : V3 Int → V3 Int) (Q : M3 Int) (t : V3 Int)
    (entries : List EntryZ) (X : List (V3 Int))
    (hQ : IsOct Q) (heo : ∀ e ∈ entries, e.RotsOct) (he : ∀ e ∈ entries, e.leaves ≠ []) :
    tensor flipX (entries.map (Entry.movedOp Q t)) [obsSensorOp (X.map fun x => Q • x + t)] =
      (tensor flipX entries [obsSensorOp X]).map (List.map (List.map (List.map (Q • ·)))) := by
  obtain ⟨es, rfl⟩ := exists_oct_entries entries heo
  obtain ⟨q, rfl⟩ := Oct.exists_toM3_eq hQ
  have h := covariance_positions_end_to_end flipX q t es X
    (fun e h => (Entry.mapG_leaves_ne_nil Oct.toM3 e).mp (he _ (List.mem_map_of_mem h)))
  rw [← tensor_at_Oct_eq_at_M3Int, ← tensor_at_Oct_eq_at_M3Int] at h
  simpa only [List.map_map, Function.comp_def, Entry.moved_toM3, List.map_cons, List.map_nil,
    obsSensor_toM3, Oct.coe_smul] using h

-- non-vacuity on driver-style data (`Level2.DriverExample`): a nested entry whose first leaf is rotated by 90°
-- about z at its second path entry, a left-handed two-step sensor rotated by 90° about z at its first step,
-- motion = 90° about x then a shift; every hypothesis of `covariance_end_to_end_on_driver_carrier` holds (they are
-- all decidable conditions on the integer data), so the theorem applies to this `M3 Int` evaluation
open Level2.DriverExample in
example (flipX : V3 Int → V3 Int) :
    tensor flipX (drvEntries.map (Entry.movedOp rotX90 ⟨1, -2, 5⟩)) (drvSensors.map (Sens.movedOp rotX90 ⟨1, -2, 5⟩)) =
      tensor flipX drvEntries drvSensors :=
  covariance_end_to_end_on_driver_carrier flipX rotX90 ⟨1, -2, 5⟩ drvEntries drvSensors isOct_rotX90
    drvEntries_rotsOct drvSensors_rotsOct drvEntries_leaves drvSensors_WF
-- one value, evaluated as the driver evaluates it: the second path entry of the first leaf (rotated 90° about z)
open Level2.DriverExample in
example : level1 (G := M3 Int) (V := V3 Int)
    ⟨[⟨3, 0, 0⟩, ⟨4, 0, 0⟩], [1, rotZ90], fun x => x + ⟨1, 0, 0⟩⟩ 1 ⟨10, 0, 0⟩ = ⟨6, 1, 0⟩ := by decide
end driverCarrier

end MagpyVerif.C03
