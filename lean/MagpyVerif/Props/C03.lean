/-
Props/C03.lean — fields are covariant under rigid motion of the whole setup.
Model: Model/Level2.lean (`level1` = getBH_level1's frame change, `leafB`, `sumT`); the motion
`(Q,t)` acts on a source by `p ↦ Q p + t`, `R ↦ Q R` on every path entry (what
`rotate(Q, anchor=0)` then `move(t)` realise, see C09) and on observer positions by `x ↦ Q x + t`.
The local field function `F` is arbitrary: the theorems hold for every source class.
-/
import MagpyVerif.Lemmas.Level2Compose
import MagpyVerif.Lemmas.OctaCarrier
import MagpyVerif.Lemmas.Level2Post
import MagpyVerif.Lemmas.Audit2C04
import Mathlib.Algebra.GroupWithZero.Action.Units
import Mathlib.Algebra.Ring.Int.Units
namespace MagpyVerif.C03
open MagpyVerif MagpyVerif.Level2
variable {G V : Type}
variable [Group G] [AddCommGroup V] [DistribMulAction G V]

/-- one source, one path index, one observer -/
theorem covariance_pointwise (Q : G) (t : V) (s : Src G V) (m : Nat) (x : V) :
    level1 (s.moved Q t) m (Q • x + t) = Q • level1 s m x :=
  level1_covariant Q t s m x

/-- a source entry (bare source or arbitrarily nested collection, any path lengths), all path
indices and all observer positions at once -/
theorem covariance (Q : G) (t : V) (leaves : List (Src G V)) (M : Nat) (X : List V) :
    sumT ((leaves.map (Src.moved Q t)).map (leafB [obsSensor (X.map fun x => Q • x + t)] M)) =
      (sumT (leaves.map (leafB [obsSensor X] M))).map (List.map (Q • ·)) :=
  entry_covariant Q t leaves M X

-- non-vacuity: a concrete source (rotated by 90° about z at the second path entry) evaluates
example : level1 (G := M3 Int) (V := V3 Int)
    { pos := [⟨3, 0, 0⟩, ⟨4, 0, 0⟩], ori := [1, ⟨⟨0, -1, 0⟩, ⟨1, 0, 0⟩, ⟨0, 0, 1⟩⟩], F := fun x => x + ⟨1, 0, 0⟩ } 5 ⟨10, 0, 0⟩
      = ⟨6, 1, 0⟩ := by decide


/-- with Sensor observers: if every leaf of an entry and the sensor are moved by the same rigid
motion (whole paths), the sensor reads the same values as before — at every path index, for every
pixel, either handedness, any nesting (the entry enters only through its leaves) -/
theorem covariance_with_sensor [BEq G] [LawfulBEq G] (flipX : V → V) (Q : G) (t : V) (e e' : Entry G V)
    (hl : e'.leaves = e.leaves.map (Src.moved Q t)) (k : Sens G V) (hk : k.ori ≠ []) (m : Nat) :
    (pixPos (k.moved Q t) m).map (specValue flipX e' (k.moved Q t) m) =
      (pixPos k m).map (specValue flipX e k m) := by
  rw [pixPos_moved, List.map_map]
  apply List.map_congr_left
  intro x _
  exact specValue_moved flipX Q t e e' hl k hk m x


/-! ### end-to-end statements about the pipeline model `Model/Level2.tensor` (what the driver executes and the
`level2` stream compares with `getBH_level2`); `covariance` / `covariance_with_sensor` above are statements about
the per-entry sum `sumT ∘ leafB` resp. the specification value `specValue`, these two are about `tensor` itself -/
section e2e
variable [BEq G] [LawfulBEq G]

/-- **C03 end to end, Sensor observers**: the whole marshalling pipeline (`Model/Level2.tensor`, what
`getBH_level2` computes before pixel_agg / sumup / squeeze) returns the very same tensor when every source
entry (bare or nested to any depth) and every sensor is moved by one rigid motion along its whole path. -/
theorem covariance_end_to_end (flipX : V → V) (Q : G) (t : V) (entries : List (Entry G V))
    (sensors : List (Sens G V)) (he : ∀ e ∈ entries, e.leaves ≠ []) (hs : ∀ k ∈ sensors, k.WF) :
    tensor flipX (entries.map (Entry.moved Q t)) (sensors.map (Sens.moved Q t)) =
      tensor flipX entries sensors := by
  have hs' : ∀ k ∈ sensors.map (Sens.moved Q t), k.WF := by
    intro k h
    obtain ⟨k0, h0, rfl⟩ := List.mem_map.mp h
    exact Sens.moved_WF Q t k0 (hs k0 h0)
  rw [tensor_eq_spec _ _ _ (moved_leaves_ne_nil Q t entries he) hs', tensor_eq_spec _ _ _ he hs]
  unfold specTensor
  rw [flatMap_leaves_moved, pathLen_moved, List.map_map]
  apply List.map_congr_left
  intro e _
  apply List.map_congr_left
  intro m _
  rw [List.map_map]
  apply List.map_congr_left
  intro k hk
  simp only [Function.comp]
  rw [pixPos_moved, List.map_map]
  apply List.map_congr_left
  intro x _
  exact specValue_moved flipX Q t e (e.moved Q t) (Entry.moved_leaves Q t e) k (hs k hk).1 m x

/-- **C03 end to end, position observers** (the property's literal statement): moving every source entry
(bare or nested, whole paths) and every observer position by one rigid motion `x ↦ Q x + t` rotates every
vector of the tensor the pipeline returns by `Q` and changes nothing else (same shape, same order). -/
theorem covariance_positions_end_to_end (flipX : V → V) (Q : G) (t : V) (entries : List (Entry G V))
    (X : List V) (he : ∀ e ∈ entries, e.leaves ≠ []) :
    tensor flipX (entries.map (Entry.moved Q t)) [obsSensor (X.map fun x => Q • x + t)] =
      (tensor flipX entries [obsSensor X]).map (List.map (List.map (List.map (Q • ·)))) := by
  have hw : ∀ (Y : List V), ∀ k ∈ [obsSensor (G := G) Y], k.WF := by
    intro Y k hk
    rw [List.mem_singleton.mp hk]
    exact obsSensor_WF Y
  rw [tensor_eq_spec _ _ _ (moved_leaves_ne_nil Q t entries he) (hw _), tensor_eq_spec _ _ _ he (hw _)]
  unfold specTensor
  have hpl : pathLen ((entries.map (Entry.moved Q t)).flatMap Entry.leaves)
      [obsSensor (G := G) (X.map fun x => Q • x + t)] =
      pathLen (entries.flatMap Entry.leaves) [obsSensor (G := G) X] := by
    rw [flatMap_leaves_moved]
    unfold pathLen
    simp [List.map_map, Function.comp_def, Src.moved, obsSensor]
  rw [hpl, List.map_map, List.map_map]
  apply List.map_congr_left
  intro e _
  simp only [Function.comp, List.map_map]
  apply List.map_congr_left
  intro m _
  simp only [Function.comp, List.map_cons, List.map_nil, pixPos_obsSensor, List.map_map]
  congr 1
  apply List.map_congr_left
  intro x _
  simp only [Function.comp, specValue_obsSensor, Entry.moved_leaves, List.map_map]
  rw [← sum_map_smul, List.map_map]
  congr 1
  apply List.map_congr_left
  intro s _
  exact level1_covariant Q t s m x
end e2e

-- non-vacuity WITH the algebraic hypotheses instantiated (the example above evaluates the model on the driver's
-- carrier `M3 Int`, which is not a `Group`): the group {1, -1} = ℤˣ acting on ℤ by multiplication (the reflection
-- group in one dimension), a nested entry with paths of length 2 and 1, a left-handed two-step sensor; all
-- hypotheses of `covariance_end_to_end` hold
example : ∃ (entries : List (Entry ℤˣ ℤ)) (sensors : List (Sens ℤˣ ℤ)),
    (∀ e ∈ entries, e.leaves ≠ []) ∧ (∀ k ∈ sensors, k.WF) ∧ entries ≠ [] ∧ sensors ≠ [] :=
  ⟨[.coll [.leaf ⟨[3, 4], [1, -1], fun x => x + 1⟩, .coll [.leaf ⟨[0], [1], fun x => 2 * x⟩]]],
   [⟨[7, 8], [-1, 1], [0, 1], [2], true⟩],
   by simp [Entry.leaves], by simp [Sens.WF, pixNum], by simp, by simp⟩


/-! ### after the post-processing: pixel_agg (any reduction), sumup, squeeze, dataframe (c03post)

`covariance_end_to_end` above is about the tensor BEFORE pixel_agg / sumup / squeeze.  The code's order is: collection
sums → per sensor: rotation into the sensor frame and handedness flip of every pixel value → reshape / split into
sensors → `pixel_agg_func` over each sensor's own pixels → `sumup` over the source axis → squeeze / expand_dims /
dataframe (`Model/Level2.getBHF`, `dataframeF`; the `Agg` versions the integer driver runs are the instances
`Agg.fn`, `getBH_eq_F`).  Because every pixel value is already expressed in the sensor's frame when it is aggregated,
NO property of the reduction is needed: -/
section post
variable [BEq G] [LawfulBEq G]

/-- **C03 after post-processing, Sensor observers**: for any common rigid motion `(Q, t)` of all source entries (bare or
nested) and all sensors along their whole paths, the FINAL result of getBH_level2 — error exit or shape and every
value, after `pixel_agg` with ANY function `f` of the pixel list (`max`, `min`, `median`, `std`, … ; `none` = no
pixel_agg), after `sumup`, after `squeeze` — is unchanged; all pixel shapes (also different ones per sensor), either
handedness, any path lengths. -/
theorem covariance_after_postprocessing (flipX : V → V) (Q : G) (t : V) (entries : List (Entry G V))
    (sensors : List (Sens G V)) (sumup squeeze : Bool) (agg : Option (List V → V))
    (hs : ∀ k ∈ sensors, k.WF) :
    getBHF flipX (entries.map (Entry.moved Q t)) (sensors.map (Sens.moved Q t)) sumup squeeze agg =
      getBHF flipX entries sensors sumup squeeze agg :=
  getBHF_moved flipX Q t entries sensors sumup squeeze agg hs

/-- the same for `output="dataframe"`: the rows (index tuple, value) are unchanged -/
theorem covariance_after_postprocessing_dataframe (flipX : V → V) (Q : G) (t : V) (entries : List (Entry G V))
    (sensors : List (Sens G V)) (sumup : Bool) (agg : Option (List V → V)) (hs : ∀ k ∈ sensors, k.WF) :
    (dataframeF flipX (entries.map (Entry.moved Q t)) (sensors.map (Sens.moved Q t)) sumup agg).map dataframeRows =
      (dataframeF flipX entries sensors sumup agg).map dataframeRows :=
  dataframeF_moved flipX Q t entries sensors sumup agg hs

/-- … and for the function the integer driver runs (`getBH` with the named reductions sum / min / max, `vmin`, `vmax`
arbitrary binary operations) -/
theorem covariance_after_postprocessing_named (flipX : V → V) (vmin vmax : V → V → V) (Q : G) (t : V)
    (entries : List (Entry G V)) (sensors : List (Sens G V)) (sumup squeeze : Bool) (agg : Agg)
    (hs : ∀ k ∈ sensors, k.WF) :
    getBH flipX vmin vmax (entries.map (Entry.moved Q t)) (sensors.map (Sens.moved Q t)) sumup squeeze agg =
      getBH flipX vmin vmax entries sensors sumup squeeze agg := by
  rw [getBH_eq_F, getBH_eq_F]
  exact getBHF_moved flipX Q t entries sensors sumup squeeze _ hs

/-- **C03 after post-processing, position observers**: sources and observer positions moved together — the final
array has the same shape and every vector is rotated by `Q`, after `sumup` (a sum, commutes with the rotation) and
`squeeze`.  With a `pixel_agg` the reduction must commute with the rotation (`f (l.map (Q • ·)) = Q • f l`; true of
`sum` and `mean`, false of `max / min / median / std`, which act componentwise in the GLOBAL frame here because a
position observer has the unit orientation — `position_observers_max_not_rotated` below). -/
theorem covariance_positions_after_postprocessing (flipX : V → V) (Q : G) (t : V) (entries : List (Entry G V))
    (X : List V) (sumup squeeze : Bool) (agg : Option (List V → V))
    (hagg : ∀ f, agg = some f → ∀ l : List V, f (l.map (Q • ·)) = Q • f l) :
    getBHF flipX (entries.map (Entry.moved Q t)) [obsSensor (X.map fun x => Q • x + t)] sumup squeeze agg =
      (getBHF flipX entries [obsSensor X] sumup squeeze agg).map
        (fun o => { o with data := o.data.map (Q • ·) }) :=
  getBHF_positions_moved flipX Q t entries X sumup squeeze agg hagg

/-- without pixel_agg the hypothesis is void -/
theorem covariance_positions_after_postprocessing_no_agg (flipX : V → V) (Q : G) (t : V)
    (entries : List (Entry G V)) (X : List V) (sumup squeeze : Bool) :
    getBHF flipX (entries.map (Entry.moved Q t)) [obsSensor (X.map fun x => Q • x + t)] sumup squeeze none =
      (getBHF flipX entries [obsSensor X] sumup squeeze none).map
        (fun o => { o with data := o.data.map (Q • ·) }) :=
  getBHF_positions_moved flipX Q t entries X sumup squeeze none (fun _ h => by cases h)

/-- `sum` (as the model's `aggList .sum`) commutes with every rotation, so `pixel_agg="sum"` over position observers is
covered by `covariance_positions_after_postprocessing` -/
theorem sum_commutes_with_rotation (vmin vmax : V → V → V) (Q : G) (l : List V) :
    aggList .sum vmin vmax (l.map (Q • ·)) = Q • aggList .sum vmin vmax l := by
  cases l with
  | nil => simp [aggList]
  | cons v vs =>
    simp only [List.map_cons, aggList]
    induction vs generalizing v with
    | nil => rfl
    | cons w ws ih => simp only [List.map_cons, List.foldl_cons, ← smul_add]; exact ih (v + w)
/-- (audit2) the dataframe statement at full strength: the whole `DataFrame` value (index columns AND value column, not
only their `zip` — `dataframeRows` truncates to the shorter of the two) or the error exit is unchanged -/
theorem covariance_after_postprocessing_dataframe_full (flipX : V → V) (Q : G) (t : V) (entries : List (Entry G V))
    (sensors : List (Sens G V)) (sumup : Bool) (agg : Option (List V → V)) (hs : ∀ k ∈ sensors, k.WF) :
    dataframeF flipX (entries.map (Entry.moved Q t)) (sensors.map (Sens.moved Q t)) sumup agg =
      dataframeF flipX entries sensors sumup agg := by
  by_cases hbad : BadInputF entries sensors agg
  · have e1 : dataframeF flipX entries sensors sumup agg = .error .badUserInput := by
      have := (level2CoreF_error_iff flipX entries sensors sumup agg .badUserInput).mpr ⟨rfl, hbad⟩
      unfold dataframeF; rw [this]
    have e2 : dataframeF flipX (entries.map (Entry.moved Q t)) (sensors.map (Sens.moved Q t)) sumup agg =
        .error .badUserInput := by
      have := (level2CoreF_error_iff flipX (entries.map (Entry.moved Q t)) (sensors.map (Sens.moved Q t)) sumup agg
        .badUserInput).mpr ⟨rfl, (badInputF_moved Q t entries sensors agg).mpr hbad⟩
      unfold dataframeF; rw [this]
    rw [e1, e2]
  · have he : ∀ e ∈ entries, e.leaves ≠ [] := fun e he hl => hbad (Or.inr (Or.inr (Or.inl ⟨e, he, hl⟩)))
    rw [dataframeF_ok flipX entries sensors sumup agg hbad,
      dataframeF_ok flipX _ _ sumup agg (fun h => hbad ((badInputF_moved Q t entries sensors agg).mp h)),
      coreBF_moved flipX Q t entries sensors sumup agg he hs, srcIds_moved, flatMap_leaves_moved, pathLen_moved,
      map_pixShape_moved, List.length_map]

/-- (audit2) **position observers with `pixel_agg="sum"`, for the function the integer driver runs** (`getBH … .sum`): the
hypothesis `hagg` of `covariance_positions_after_postprocessing` is discharged (`sum_commutes_with_rotation`), nothing is
assumed.  (`mean` is claimed to commute as well in the doc comment above; that is NOT proved here — `V` has no division.) -/
theorem covariance_positions_after_postprocessing_sum (flipX : V → V) (vmin vmax : V → V → V) (Q : G) (t : V)
    (entries : List (Entry G V)) (X : List V) (sumup squeeze : Bool) :
    getBH flipX vmin vmax (entries.map (Entry.moved Q t)) [obsSensor (X.map fun x => Q • x + t)] sumup squeeze .sum =
      (getBH flipX vmin vmax entries [obsSensor X] sumup squeeze .sum).map
        (fun o => { o with data := o.data.map (Q • ·) }) := by
  rw [getBH_eq_F, getBH_eq_F]
  exact covariance_positions_after_postprocessing flipX Q t entries X sumup squeeze _
    (fun f hf l => by
      have : f = aggList .sum vmin vmax := by
        have h : Agg.fn (V := V) .sum vmin vmax = some (aggList .sum vmin vmax) := rfl
        rw [h] at hf; exact (Option.some.inj hf).symm
      rw [this]; exact sum_commutes_with_rotation vmin vmax Q l)
end post

/-! #### the order in the model matters: aggregate-then-rotate is NOT covariant

`Model/Level2.tensorAggFirst` is the seeded change (pixel_agg applied to the global-frame values BEFORE the rotation
into the sensor frame): same stages, other order.  On the driver's carrier, with `max`: a sensor with the two pixels
(1,0,0), (2,0,0) reading the field B(x) = x.  Turning source and sensor together by 180° about z must not change the
reading (2,0,0) (right order, `covariance_after_postprocessing`); in the wrong order the maximum is taken over the
global values (−1,0,0), (−2,0,0) and then rotated: (1,0,0). -/
section wrongOrder
open Level2.Example

/-- componentwise maximum over the pixel list (`np.max(..., axis=pixel axes)`), the model's `aggList .max` -/
def maxV : List (V3 Int) → V3 Int := aggList .max exMin exMax

def rotZ180 : M3 Int := ⟨⟨-1, 0, 0⟩, ⟨0, -1, 0⟩, ⟨0, 0, 1⟩⟩
def wSrc : SrcZ := ⟨[⟨0, 0, 0⟩], [1], fun x => x⟩
def wEntries : List EntryZ := [.leaf wSrc]
def wSensors : List SensZ := [⟨[⟨0, 0, 0⟩], [1], [⟨1, 0, 0⟩, ⟨2, 0, 0⟩], [2], false⟩]

theorem wLeaves : wEntries.flatMap Entry.leaves = [wSrc] := by simp [wEntries, Entry.leaves]
theorem wLeaves_moved :
    (wEntries.map (Entry.movedOp rotZ180 0)).flatMap Entry.leaves = [wSrc.movedOp rotZ180 0] := by
  simp [wEntries, Entry.leaves, Entry.movedOp]

/-- **witness: aggregate-then-rotate with `max` is not invariant under a common rigid motion** (so the theorem above is
about the right order, and the order in the model is not immaterial) -/
theorem aggregate_then_rotate_not_covariant :
    tensorAggFirst exFlip maxV wEntries wSensors = [[[[⟨2, 0, 0⟩]]]] ∧
    tensorAggFirst exFlip maxV (wEntries.map (Entry.movedOp rotZ180 0)) (wSensors.map (Sens.movedOp rotZ180 0)) =
      [[[[⟨1, 0, 0⟩]]]] ∧
    tensorAggFirst exFlip maxV (wEntries.map (Entry.movedOp rotZ180 0)) (wSensors.map (Sens.movedOp rotZ180 0)) ≠
      tensorAggFirst exFlip maxV wEntries wSensors := by
  have h1 : tensorAggFirst exFlip maxV wEntries wSensors = [[[[⟨2, 0, 0⟩]]]] := by
    unfold tensorAggFirst; simp only [wLeaves]; decide
  have h2 : tensorAggFirst exFlip maxV (wEntries.map (Entry.movedOp rotZ180 0))
      (wSensors.map (Sens.movedOp rotZ180 0)) = [[[[⟨1, 0, 0⟩]]]] := by
    unfold tensorAggFirst; simp only [wLeaves_moved]; decide
  refine ⟨h1, h2, ?_⟩
  rw [h1, h2]; decide

/-- … while the order of the code gives (2,0,0) for both scenes -/
theorem rotate_then_aggregate_covariant_on_witness :
    aggTF maxV (tensor exFlip (wEntries.map (Entry.movedOp rotZ180 0)) (wSensors.map (Sens.movedOp rotZ180 0))) =
      [[[[⟨2, 0, 0⟩]]]] ∧
    aggTF maxV (tensor exFlip wEntries wSensors) = [[[[⟨2, 0, 0⟩]]]] := by
  constructor
  · unfold tensor; simp only [wLeaves_moved]; decide
  · unfold tensor; simp only [wLeaves]; decide

/-- and the two orders agree when the reduction commutes with the sensor-frame map (here: `sum`) — the difference is
exactly the non-linearity -/
theorem orders_agree_for_sum_on_witness :
    tensorAggFirst exFlip (aggList .sum exMin exMax) (wEntries.map (Entry.movedOp rotZ180 0))
        (wSensors.map (Sens.movedOp rotZ180 0)) =
      aggTF (aggList .sum exMin exMax)
        (tensor exFlip (wEntries.map (Entry.movedOp rotZ180 0)) (wSensors.map (Sens.movedOp rotZ180 0))) := by
  unfold tensorAggFirst tensor; simp only [wLeaves_moved]; decide

/-- position observers with `max`: the final value is NOT the rotated one (the hypothesis `hagg` of
`covariance_positions_after_postprocessing` cannot be dropped): observers (1,0,0), (2,0,0), field B(x) = x, turned by
180° about z: max over (−1,0,0), (−2,0,0) is (−1,0,0), not Q • (2,0,0) = (−2,0,0) -/
theorem position_observers_max_not_rotated :
    aggTF maxV (tensor exFlip (wEntries.map (Entry.movedOp rotZ180 0))
      [obsSensorOp ([⟨1, 0, 0⟩, ⟨2, 0, 0⟩].map fun x => rotZ180 • x + 0)]) = [[[[⟨-1, 0, 0⟩]]]] ∧
    aggTF maxV (tensor exFlip wEntries [obsSensorOp [⟨1, 0, 0⟩, ⟨2, 0, 0⟩]]) = [[[[⟨2, 0, 0⟩]]]] ∧
    rotZ180 • (⟨2, 0, 0⟩ : V3 Int) = ⟨-2, 0, 0⟩ := by
  refine ⟨?_, ?_, by decide⟩
  · unfold tensor; simp only [wLeaves_moved]; decide
  · unfold tensor; simp only [wLeaves]; decide
end wrongOrder

-- non-vacuity of `covariance_after_postprocessing`: hypotheses as for `covariance_end_to_end` (example above); the
-- statement covers accepted calls with different pixel shapes per sensor: on the scene `Level2.Example`
-- (pixel shapes (2,) and (3,)) the call with a reduction is accepted
open Level2.Example in
example : ∃ out, getBHF exFlip exEntries exSensorsMixed true false (some maxV) = .ok out :=
  ⟨_, getBHF_ok _ _ _ _ _ _ (by simp [BadInputF, exEntries, exSensorsMixed, Entry.leaves])⟩

/-! ### on the carrier the driver computes with (AUDIT X1)

The theorems above are about the model functions at an abstract `Group G`; the driver (and through the
`level2` stream the real code) is compared with the same functions at `M3 Int` / `V3 Int`, where `⁻¹` is the
transpose — not a group.  Lemmas/OctaCarrier.lean shows that on the octahedral rotation matrices (`IsOct`:
orthogonal, determinant 1; the 24 matrices the streams use) the `M3 Int` evaluation IS the evaluation at the
group `Oct`; so the statements hold for what the driver computes.  `Entry.movedOp` / `Sens.movedOp` are
`Entry.moved` / `Sens.moved` written with the bare operation classes (`Entry.moved_eq_op`). -/
section driverCarrier

/-- **C03 end to end on the driver's carrier** (`M3 Int`, `V3 Int`, instances of Model/Basic.lean): if the
rotation `Q` and every rotation matrix of the sources' and sensors' orientation paths is octahedral, the
pipeline model evaluated *as the driver evaluates it* returns the same tensor for the moved scene. -/
theorem covariance_end_to_end_on_driver_carrier (flipX : V3 Int → V3 Int) (Q : M3 Int) (t : V3 Int)
    (entries : List EntryZ) (sensors : List SensZ)
    (hQ : IsOct Q) (heo : ∀ e ∈ entries, e.RotsOct) (hso : ∀ k ∈ sensors, k.RotsOct)
    (he : ∀ e ∈ entries, e.leaves ≠ []) (hs : ∀ k ∈ sensors, k.WF) :
    tensor flipX (entries.map (Entry.movedOp Q t)) (sensors.map (Sens.movedOp Q t)) =
      tensor flipX entries sensors := by
  obtain ⟨es, rfl⟩ := exists_oct_entries entries heo
  obtain ⟨ks, rfl⟩ := exists_oct_sensors sensors hso
  obtain ⟨q, rfl⟩ := Oct.exists_toM3_eq hQ
  have h := covariance_end_to_end flipX q t es ks
    (fun e h => (Entry.mapG_leaves_ne_nil Oct.toM3 e).mp (he _ (List.mem_map_of_mem h)))
    (fun k h => (Sens.mapG_WF Oct.toM3 k).mp (hs _ (List.mem_map_of_mem h)))
  rw [← tensor_at_Oct_eq_at_M3Int, ← tensor_at_Oct_eq_at_M3Int] at h
  simpa only [List.map_map, Function.comp_def, Entry.moved_toM3, Sens.moved_toM3] using h

/-- **C03 end to end on the driver's carrier, position observers**: the tensor of the moved scene is the
old one with every vector rotated by the integer matrix `Q` -/
theorem covariance_positions_end_to_end_on_driver_carrier (flipX : V3 Int → V3 Int) (Q : M3 Int) (t : V3 Int)
    (entries : List EntryZ) (X : List (V3 Int))
    (hQ : IsOct Q) (heo : ∀ e ∈ entries, e.RotsOct) (he : ∀ e ∈ entries, e.leaves ≠ []) :
    tensor flipX (entries.map (Entry.movedOp Q t)) [obsSensorOp (X.map fun x => Q • x + t)] =
      (tensor flipX entries [obsSensorOp X]).map (List.map (List.map (List.map (Q • ·)))) := by
  obtain ⟨es, rfl⟩ := exists_oct_entries entries heo
  obtain ⟨q, rfl⟩ := Oct.exists_toM3_eq hQ
  have h := covariance_positions_end_to_end flipX q t es X
    (fun e h => (Entry.mapG_leaves_ne_nil Oct.toM3 e).mp (he _ (List.mem_map_of_mem h)))
  rw [← tensor_at_Oct_eq_at_M3Int, ← tensor_at_Oct_eq_at_M3Int] at h
  simpa only [List.map_map, Function.comp_def, Entry.moved_toM3, List.map_cons, List.map_nil,
    obsSensor_toM3, Oct.coe_smul] using h

/-- **C03 after post-processing on the driver's carrier**: with the integer matrix operations (`⁻¹` = transpose), for an
octahedral `Q` and octahedral orientation matrices in the scene, the final result (any reduction, sumup, squeeze) of
the moved scene is that of the original one -/
theorem covariance_after_postprocessing_on_driver_carrier (flipX : V3 Int → V3 Int) (Q : M3 Int) (t : V3 Int)
    (entries : List EntryZ) (sensors : List SensZ) (sumup squeeze : Bool) (agg : Option (List (V3 Int) → V3 Int))
    (hQ : IsOct Q) (heo : ∀ e ∈ entries, e.RotsOct) (hso : ∀ k ∈ sensors, k.RotsOct) (hs : ∀ k ∈ sensors, k.WF) :
    getBHF flipX (entries.map (Entry.movedOp Q t)) (sensors.map (Sens.movedOp Q t)) sumup squeeze agg =
      getBHF flipX entries sensors sumup squeeze agg := by
  obtain ⟨es, rfl⟩ := exists_oct_entries entries heo
  obtain ⟨ks, rfl⟩ := exists_oct_sensors sensors hso
  obtain ⟨q, rfl⟩ := Oct.exists_toM3_eq hQ
  have h := covariance_after_postprocessing flipX q t es ks sumup squeeze agg
    (fun k h => (Sens.mapG_WF Oct.toM3 k).mp (hs _ (List.mem_map_of_mem h)))
  rw [← getBHF_mapG octHom, ← getBHF_mapG octHom flipX es ks] at h
  simpa only [List.map_map, Function.comp_def, Entry.moved_toM3, Sens.moved_toM3] using h

-- non-vacuity: the witness scene above meets the hypotheses (so the right order IS invariant there by this theorem,
-- not only by evaluation)
example : getBHF Level2.Example.exFlip (wEntries.map (Entry.movedOp rotZ180 0)) (wSensors.map (Sens.movedOp rotZ180 0))
      true true (some maxV) = getBHF Level2.Example.exFlip wEntries wSensors true true (some maxV) :=
  covariance_after_postprocessing_on_driver_carrier _ rotZ180 0 wEntries wSensors true true _
    (by decide) (by simp [wEntries, wSrc, Entry.RotsOct, Entry.leaves]; decide) (by simp [wSensors, Sens.RotsOct]; decide)
    (by simp [wSensors, Sens.WF, pixNum])

-- non-vacuity on driver-style data (`Level2.DriverExample`): a nested entry whose first leaf is rotated by 90°
-- about z at its second path entry, a left-handed two-step sensor rotated by 90° about z at its first step,
-- motion = 90° about x then a shift; every hypothesis of `covariance_end_to_end_on_driver_carrier` holds (they are
-- all decidable conditions on the integer data), so the theorem applies to this `M3 Int` evaluation
open Level2.DriverExample in
example (flipX : V3 Int → V3 Int) :
    tensor flipX (drvEntries.map (Entry.movedOp rotX90 ⟨1, -2, 5⟩)) (drvSensors.map (Sens.movedOp rotX90 ⟨1, -2, 5⟩)) =
      tensor flipX drvEntries drvSensors :=
  covariance_end_to_end_on_driver_carrier flipX rotX90 ⟨1, -2, 5⟩ drvEntries drvSensors isOct_rotX90
    drvEntries_rotsOct drvSensors_rotsOct drvEntries_leaves drvSensors_WF
-- one value, evaluated as the driver evaluates it: the second path entry of the first leaf (rotated 90° about z)
open Level2.DriverExample in
example : level1 (G := M3 Int) (V := V3 Int)
    ⟨[⟨3, 0, 0⟩, ⟨4, 0, 0⟩], [1, rotZ90], fun x => x + ⟨1, 0, 0⟩⟩ 1 ⟨10, 0, 0⟩ = ⟨6, 1, 0⟩ := by decide
end driverCarrier

/-! #### (audit2) position observers after post-processing on the driver's carrier, and the witness at the level of the
FINAL result.  `covariance_positions_after_postprocessing` had no `_on_driver_carrier` version and no example that
instantiates its hypothesis `hagg` with an actual reduction; `position_observers_max_not_rotated` is about
`aggTF maxV (tensor …)`, not about what `getBHF` returns. -/
section driverCarrierPositions
open Level2.Example

/-- **C03 after post-processing on the driver's carrier, position observers**: integer matrix operations, octahedral `Q`
and orientation matrices; `hagg` is the same equivariance condition on the reduction, for the integer matrix `Q` -/
theorem covariance_positions_after_postprocessing_on_driver_carrier (flipX : V3 Int → V3 Int) (Q : M3 Int) (t : V3 Int)
    (entries : List EntryZ) (X : List (V3 Int)) (sumup squeeze : Bool) (agg : Option (List (V3 Int) → V3 Int))
    (hQ : IsOct Q) (heo : ∀ e ∈ entries, e.RotsOct)
    (hagg : ∀ f, agg = some f → ∀ l : List (V3 Int), f (l.map (Q • ·)) = Q • f l) :
    getBHF flipX (entries.map (Entry.movedOp Q t)) [obsSensorOp (X.map fun x => Q • x + t)] sumup squeeze agg =
      (getBHF flipX entries [obsSensorOp X] sumup squeeze agg).map
        (fun o => { o with data := o.data.map (Q • ·) }) := by
  obtain ⟨es, rfl⟩ := exists_oct_entries entries heo
  obtain ⟨q, rfl⟩ := Oct.exists_toM3_eq hQ
  have h := covariance_positions_after_postprocessing flipX q t es X sumup squeeze agg
    (fun f hf l => by simpa only [Oct.coe_smul] using hagg f hf l)
  have e1 := getBHF_mapG octHom flipX (es.map (Entry.moved q t)) [obsSensor (X.map fun x => q • x + t)] sumup squeeze agg
  have e2 := getBHF_mapG octHom flipX es [obsSensor X] sumup squeeze agg
  rw [← e1, ← e2] at h
  simpa only [List.map_map, Function.comp_def, Entry.moved_toM3, List.map_cons, List.map_nil,
    obsSensor_toM3, Oct.coe_smul] using h

/-- the model's `sum` commutes with EVERY integer matrix (only additivity of `M3.apply`) -/
theorem sum_commutes_with_integer_matrix (vmin vmax : V3 Int → V3 Int → V3 Int) (Q : M3 Int) (l : List (V3 Int)) :
    aggList .sum vmin vmax (l.map (Q • ·)) = Q • aggList .sum vmin vmax l := by
  cases l with
  | nil => simp only [List.map_nil, aggList]; exact (M3.smul_zero' Q).symm
  | cons v vs =>
    simp only [List.map_cons, aggList]
    induction vs generalizing v with
    | nil => rfl
    | cons w ws ih => simp only [List.map_cons, List.foldl_cons, ← M3.smul_add']; exact ih (v + w)

def wX : List (V3 Int) := [⟨1, 0, 0⟩, ⟨2, 0, 0⟩]

theorem wEntries_rotsOct : ∀ e ∈ wEntries, e.RotsOct := by
  simp [wEntries, wSrc, Entry.RotsOct, Entry.leaves]; decide

theorem w_notBad (X : List (V3 Int)) (f : List (V3 Int) → V3 Int) :
    ¬ BadInputF wEntries [obsSensorOp (G := M3 Int) X] (some f) := by
  simp [BadInputF, wEntries, Entry.leaves]
theorem w_notBad_moved (X : List (V3 Int)) (f : List (V3 Int) → V3 Int) :
    ¬ BadInputF (wEntries.map (Entry.movedOp rotZ180 0)) [obsSensorOp (G := M3 Int) X] (some f) := by
  simp [BadInputF, wEntries, Entry.leaves, Entry.movedOp]

-- non-vacuity: ALL hypotheses instantiated (octahedral data, `hagg` for the reduction `sum`), theorem applied, on the
-- witness scene with sumup and squeeze
example : getBHF exFlip (wEntries.map (Entry.movedOp rotZ180 0)) [obsSensorOp (wX.map fun x => rotZ180 • x + 0)] true true
      (some (aggList .sum exMin exMax)) =
    (getBHF exFlip wEntries [obsSensorOp wX] true true (some (aggList .sum exMin exMax))).map
      (fun o => { o with data := o.data.map (rotZ180 • ·) }) :=
  covariance_positions_after_postprocessing_on_driver_carrier exFlip rotZ180 0 wEntries wX true true _ (by decide)
    wEntries_rotsOct (fun f hf l => by cases hf; exact sum_commutes_with_integer_matrix exMin exMax rotZ180 l)

/-- **the witness at the level of the final result**: with `pixel_agg = max` over position observers both calls are
accepted, the moved scene returns (−1,0,0), the original one (2,0,0), and (−1,0,0) is not `Q • (2,0,0)` — i.e. the
conclusion of `covariance_positions_after_postprocessing_on_driver_carrier` is FALSE for `agg = some maxV`, so `hagg`
cannot be dropped (all other hypotheses hold: `rotZ180` is octahedral, `wEntries_rotsOct`) -/
theorem position_observers_max_not_rotated_final :
    ∃ o o', getBHF exFlip (wEntries.map (Entry.movedOp rotZ180 0)) [obsSensorOp (wX.map fun x => rotZ180 • x + 0)]
        false false (some maxV) = .ok o ∧
      getBHF exFlip wEntries [obsSensorOp wX] false false (some maxV) = .ok o' ∧
      o.data = [⟨-1, 0, 0⟩] ∧ o'.data = [⟨2, 0, 0⟩] ∧ o.data ≠ o'.data.map (rotZ180 • ·) := by
  refine ⟨_, _, getBHF_ok _ _ _ _ _ _ (w_notBad_moved _ _), getBHF_ok _ _ _ _ _ _ (w_notBad _ _), ?_, ?_, ?_⟩
  · simp only [coreBF, Bool.false_eq_true, if_false, id]
    exact (congrArg flat4 position_observers_max_not_rotated.1).trans (by decide)
  · simp only [coreBF, Bool.false_eq_true, if_false, id]
    exact (congrArg flat4 position_observers_max_not_rotated.2.1).trans (by decide)
  · simp only [coreBF, Bool.false_eq_true, if_false, id]
    rw [show flat4 (aggTF maxV (tensor exFlip (wEntries.map (Entry.movedOp rotZ180 0))
          [obsSensorOp (wX.map fun x => rotZ180 • x + 0)])) = [⟨-1, 0, 0⟩] from
        (congrArg flat4 position_observers_max_not_rotated.1).trans (by decide),
      show flat4 (aggTF maxV (tensor exFlip wEntries [obsSensorOp wX])) = [⟨2, 0, 0⟩] from
        (congrArg flat4 position_observers_max_not_rotated.2.1).trans (by decide)]
    decide
end driverCarrierPositions

/-! #### (audit2) the `level2f` driver command at the real numbers

`Driver/Level2FFam.run` evaluates `match PixelAgg.byName name with | some a => getBHF flipX es ks sumup squeeze a` at
`Float`.  The same expression at `V3 ℝ` with the octahedral group acting on it (Lemmas/Audit2C04.lean) is an instance of
`covariance_after_postprocessing` — for every reduction name of Model/PixelAgg (`mean, median, std, ptp, …`, or `none`). -/
theorem covariance_after_postprocessing_named_numpy_reduction (name : String) (a : Option (List (V3 ℝ) → V3 ℝ))
    (_hname : PixelAgg.byName (α := ℝ) name = some a) (flipX : V3 ℝ → V3 ℝ) (Q : Oct) (t : V3 ℝ)
    (entries : List (Entry Oct (V3 ℝ))) (sensors : List (Sens Oct (V3 ℝ))) (sumup squeeze : Bool)
    (hs : ∀ k ∈ sensors, k.WF) :
    getBHF flipX (entries.map (Entry.moved Q t)) (sensors.map (Sens.moved Q t)) sumup squeeze a =
      getBHF flipX entries sensors sumup squeeze a :=
  covariance_after_postprocessing flipX Q t entries sensors sumup squeeze a hs

-- instantiated with `np.std`
example (flipX : V3 ℝ → V3 ℝ) (Q : Oct) (t : V3 ℝ) (entries : List (Entry Oct (V3 ℝ)))
    (sensors : List (Sens Oct (V3 ℝ))) (hs : ∀ k ∈ sensors, k.WF) :
    getBHF flipX (entries.map (Entry.moved Q t)) (sensors.map (Sens.moved Q t)) true false (some (PixelAgg.comp PixelAgg.npStd)) =
      getBHF flipX entries sensors true false (some (PixelAgg.comp PixelAgg.npStd)) :=
  covariance_after_postprocessing_named_numpy_reduction "std" _ rfl flipX Q t entries sensors true false hs

end MagpyVerif.C03
