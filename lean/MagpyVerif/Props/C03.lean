/-
Props/C03.lean — fields are covariant under rigid motion of the whole setup.
Model: Model/Level2.lean (`level1` = getBH_level1's frame change, `leafB`, `sumT`); the motion
`(Q,t)` acts on a source by `p ↦ Q p + t`, `R ↦ Q R` on every path entry (what
`rotate(Q, anchor=0)` then `move(t)` realise, see C09) and on observer positions by `x ↦ Q x + t`.
The local field function `F` is arbitrary: the theorems hold for every source class.
-/
import MagpyVerif.Lemmas.Level2Compose
import Mathlib.Algebra.GroupWithZero.Action.Units
import Mathlib.Algebra.Ring.Int.Units
namespace MagpyVerif.C03
open MagpyVerif MagpyVerif.Level2
variable {G V : Type}
variable [Group G] [AddCommGroup V] [DistribMulAction G V]

/-- one source, one path index, one observer -/
theorem covariance_pointwise (Q : G) (t : V) (s : Src G V) (m : Nat) (x : V) :
    level1 (s.moved Q t) m (Q • x + t) = Q • level1 s m x :=
  level1_covariant Q t s m x

/-- a source entry (bare source or arbitrarily nested collection, any path lengths), all path
indices and all observer positions at once -/
theorem covariance (Q : G) (t : V) (leaves : List (Src G V)) (M : Nat) (X : List V) :
    sumT ((leaves.map (Src.moved Q t)).map (leafB [obsSensor (X.map fun x => Q • x + t)] M)) =
      (sumT (leaves.map (leafB [obsSensor X] M))).map (List.map (Q • ·)) :=
  entry_covariant Q t leaves M X

-- non-vacuity: a concrete source (rotated by 90° about z at the second path entry) evaluates
example : level1 (G := M3 Int) (V := V3 Int)
    { pos := [⟨3, 0, 0⟩, ⟨4, 0, 0⟩], ori := [1, ⟨⟨0, -1, 0⟩, ⟨1, 0, 0⟩, ⟨0, 0, 1⟩⟩], F := fun x => x + ⟨1, 0, 0⟩ } 5 ⟨10, 0, 0⟩
      = ⟨6, 1, 0⟩ := by decide


/-- with Sensor observers: if every leaf of an entry and the sensor are moved by the same rigid
motion (whole paths), the sensor reads the same values as before — at every path index, for every
pixel, either handedness, any nesting (the entry enters only through its leaves) -/
theorem covariance_with_sensor [BEq G] [LawfulBEq G] (flipX : V → V) (Q : G) (t : V) (e e' : Entry G V)
    (hl : e'.leaves = e.leaves.map (Src.moved Q t)) (k : Sens G V) (hk : k.ori ≠ []) (m : Nat) :
    (pixPos (k.moved Q t) m).map (specValue flipX e' (k.moved Q t) m) =
      (pixPos k m).map (specValue flipX e k m) := by
  rw [pixPos_moved, List.map_map]
  apply List.map_congr_left
  intro x _
  exact specValue_moved flipX Q t e e' hl k hk m x


/-! ### end-to-end statements about the pipeline model `Model/Level2.tensor` (what the driver executes and the
`level2` stream compares with `getBH_level2`); `covariance` / `covariance_with_sensor` above are statements about
the per-entry sum `sumT ∘ leafB` resp. the specification value `specValue`, these two are about `tensor` itself -/
section e2e
variable [BEq G] [LawfulBEq G]

/-- **C03 end to end, Sensor observers**: the whole marshalling pipeline (`Model/Level2.tensor`, what
`getBH_level2` computes before pixel_agg / sumup / squeeze) returns the very same tensor when every source
entry (bare or nested to any depth) and every sensor is moved by one rigid motion along its whole path. -/
theorem covariance_end_to_end (flipX : V → V) (Q : G) (t : V) (entries : List (Entry G V))
    (sensors : List (Sens G V)) (he : ∀ e ∈ entries, e.leaves ≠ []) (hs : ∀ k ∈ sensors, k.WF) :
    tensor flipX (entries.map (Entry.moved Q t)) (sensors.map (Sens.moved Q t)) =
      tensor flipX entries sensors := by
  have hs' : ∀ k ∈ sensors.map (Sens.moved Q t), k.WF := by
    intro k h
    obtain ⟨k0, h0, rfl⟩ := List.mem_map.mp h
    exact Sens.moved_WF Q t k0 (hs k0 h0)
  rw [tensor_eq_spec _ _ _ (moved_leaves_ne_nil Q t entries he) hs', tensor_eq_spec _ _ _ he hs]
  unfold specTensor
  rw [flatMap_leaves_moved, pathLen_moved, List.map_map]
  apply List.map_congr_left
  intro e _
  apply List.map_congr_left
  intro m _
  rw [List.map_map]
  apply List.map_congr_left
  intro k hk
  simp only [Function.comp]
  rw [pixPos_moved, List.map_map]
  apply List.map_congr_left
  intro x _
  exact specValue_moved flipX Q t e (e.moved Q t) (Entry.moved_leaves Q t e) k (hs k hk).1 m x

/-- **C03 end to end, position observers** (the property's literal statement): moving every source entry
(bare or nested, whole paths) and every observer position by one rigid motion `x ↦ Q x + t` rotates every
vector of the tensor the pipeline returns by `Q` and changes nothing else (same shape, same order). -/
theorem covariance_positions_end_to_end (flipX : V → V) (Q : G) (t : V) (entries : List (Entry G V))
    (X : List V) (he : ∀ e ∈ entries, e.leaves ≠ []) :
    tensor flipX (entries.map (Entry.moved Q t)) [obsSensor (X.map fun x => Q • x + t)] =
      (tensor flipX entries [obsSensor X]).map (List.map (List.map (List.map (Q • ·)))) := by
  have hw : ∀ (Y : List V), ∀ k ∈ [obsSensor (G := G) Y], k.WF := by
    intro Y k hk
    rw [List.mem_singleton.mp hk]
    exact obsSensor_WF Y
  rw [tensor_eq_spec _ _ _ (moved_leaves_ne_nil Q t entries he) (hw _), tensor_eq_spec _ _ _ he (hw _)]
  unfold specTensor
  have hpl : pathLen ((entries.map (Entry.moved Q t)).flatMap Entry.leaves)
      [obsSensor (G := G) (X.map fun x => Q • x + t)] =
      pathLen (entries.flatMap Entry.leaves) [obsSensor (G := G) X] := by
    rw [flatMap_leaves_moved]
    unfold pathLen
    simp [List.map_map, Function.comp_def, Src.moved, obsSensor]
  rw [hpl, List.map_map, List.map_map]
  apply List.map_congr_left
  intro e _
  simp only [Function.comp, List.map_map]
  apply List.map_congr_left
  intro m _
  simp only [Function.comp, List.map_cons, List.map_nil, pixPos_obsSensor, List.map_map]
  congr 1
  apply List.map_congr_left
  intro x _
  simp only [Function.comp, specValue_obsSensor, Entry.moved_leaves, List.map_map]
  rw [← sum_map_smul, List.map_map]
  congr 1
  apply List.map_congr_left
  intro s _
  exact level1_covariant Q t s m x
end e2e

-- non-vacuity WITH the algebraic hypotheses instantiated (the example above evaluates the model on the driver's
-- carrier `M3 Int`, which is not a `Group`): the group {1, -1} = ℤˣ acting on ℤ by multiplication (the reflection
-- group in one dimension), a nested entry with paths of length 2 and 1, a left-handed two-step sensor; all
-- hypotheses of `covariance_end_to_end` hold
example : ∃ (entries : List (Entry ℤˣ ℤ)) (sensors : List (Sens ℤˣ ℤ)),
    (∀ e ∈ entries, e.leaves ≠ []) ∧ (∀ k ∈ sensors, k.WF) ∧ entries ≠ [] ∧ sensors ≠ [] :=
  ⟨[.coll [.leaf ⟨[3, 4], [1, -1], fun x => x + 1⟩, .coll [.leaf ⟨[0], [1], fun x => 2 * x⟩]]],
   [⟨[7, 8], [-1, 1], [0, 1], [2], true⟩],
   by simp [Entry.leaves], by simp [Sens.WF, pixNum], by simp, by simp⟩

end MagpyVerif.C03
