/-
Props/C20g.lean — C20 "the last assignment wins" for the operation kinds `C20d.reads_refine` left out.

`reads_refine_all`: the refinement of a whole history to the VALUE read at one plain property, with
  * EVERY accepted attribute assignment, of any kind and at any depth: a value (also a dict) for a plain property, a
    dict / None / a string for a SUB-OBJECT property (the new object is built by the constructor: `propRead` / `ctorRead`
    say, from the class structure and the assigned value alone, what every leaf below reads afterwards — the setter's image
    of the value the dict has for it after the named parameters with their defaults and `magic_to_dict`, else of None,
    then the alias keys of the dict), the deprecated alias `Magnetization.size` (None: nothing; else the setter of
    `arrow.size`),
  * accepted updates with `_replace_None_only` True or False whose argument fits the receiver's class,
  * resets, `obj.style = …`, reads; rejected operations unrestricted.
The abstract step `absStep` transforms the value read before into the value read after; it never looks at a tree.
-/
import MagpyVerif.Props.C20d
import MagpyVerif.Lemmas.StyleLeaf

namespace MagpyVerif.C20g
open MagpyVerif.StyleNested MagpyVerif.StyleState MagpyVerif.Gen.StyleSchema MagpyVerif.C20c MagpyVerif.C20d

/-- an accepted update with (parsed) argument `m` on the sub-object at `p`, seen from the plain property `q` -/
def updStep (vid : Nat) (rno : Bool) (p q : List Key) (m : Except Kind Dict) (b : Except Kind Tree) : Except Kind Tree :=
  match m with
  | .ok m => updReadR tables rno p q m vid b
  | .error _ => b

/-- **the specification**, one operation with its outcome at a time, for the plain property `q` (validator `vid`) of
object `j`, whose class is `c`: the value read after the operation as a function of the value `b` read before, the
operation, its outcome and the class structure — nothing here looks at a tree.  A rejected operation changes nothing.  An
accepted attribute assignment `X.k = val` (`X` at `p`): `assignRead` — `q` itself takes the setter's image of `val`; when
`p ++ [k]` is a sub-object above `q`, `q` takes what the constructor gives it (`ctorRead`); when `k` is the alias of `q`,
the setter's image of a non-None `val`; anything else leaves `b`.  An accepted update stores the setter's image of the
value its argument has at `q` (with `_replace_None_only`: only if None was read before).  `defaults.reset()` puts the
default back; operations on other objects do nothing. -/
def absStep (j : Nat) (c : ClassInfo) (q : List Key) (vid : Nat) (b : Except Kind Tree) (x : Op × Bool) : Except Kind Tree :=
  if x.2 then
    match x.1 with
    | .setattr i p k val => if i = j then assignRead tables vid c.schema.props p k val q b else b
    | .update i p arg kwargs _ rno => if i = j then updStep vid rno p q (updArg arg kwargs) b else b
    | .reset => if j = 0 then readPath props0 resetResult.1 q else b
    | .resetStyle => if j = 0 then updStep vid false stylePath q styleArg b else b
    | .setStyle i val => if i = j then updStep vid false [] q (updArg (some (.node (styleKw val))) []) b else b
    | .setStyleObj _ _ => b
    | .read _ _ => b
  else b

/-- the (parsed) argument of an update fits the class of the receiver at `p`: every key is a property — or, with
`_match_properties=False` (`sko`), no property at all: then it is ignored —, plain properties get non-dict values,
sub-objects get fitting dictionaries (a condition on the SHAPE of the argument only; that its keys are pairwise different at
every level is guaranteed by `magic_to_dict`: `updArg_wf`) -/
def shapeFits (sko : Bool) (ps : List (Key × Schema)) (p : List Key) (m : Except Kind Dict) : Bool :=
  match propsAt ps p, m with
  | some ps', .ok m => fitsKidsS sko ps' m
  | _, _ => false

/-- what is still required of an ACCEPTED operation: nothing of an attribute assignment; of an update (also
`obj.style = dict`) that its argument after `magic_to_dict` fits the receiver's class (`shapeFits`) — `_replace_None_only`
and `_match_properties` are free -/
def CovOp (w0 : World) : Op → Prop
  | .update i p arg kwargs mt _ => ∃ c, clsOf w0 i = some c ∧ shapeFits (!mt) c.schema.props p (updArg arg kwargs) = true
  | .setStyle i val => ∃ c, clsOf w0 i = some c ∧ shapeFits false c.schema.props [] (updArg (some (.node (styleKw val))) []) = true
  | _ => True

/-- computed: the hard coded style defaults fit `DisplayStyle` -/
theorem styleArg_shapeFits : shapeFits true props0 stylePath styleArg = true := by
  decide +kernel

/-- an accepted update (any receiver, any notation, either `_replace_None_only`) with a fitting argument -/
theorem read_update_like_r (c : ClassInfo) (hcm : c ∈ classes) (tree : Dict) (hwf : wfKids (fixB tables) c.schema.props tree = true)
    (p : List Key) (arg : Option Tree) (kwargs : Dict) (mt rno : Bool)
    (hfit : shapeFits (!mt) c.schema.props p (updArg arg kwargs) = true)
    (hacc : (atPath (fun ps' os' c' => updateObj tables ps' os' c' arg kwargs mt rno) c.schema.props c.schema.others tree p).2 = .ok ())
    (q : List Key) (vid : Nat) (hq : leafVid c.schema.props q = some vid) :
    readPath c.schema.props (atPath (fun ps' os' c' => updateObj tables ps' os' c' arg kwargs mt rno)
        c.schema.props c.schema.others tree p).1 q =
      updStep vid rno p q (updArg arg kwargs) (readPath c.schema.props tree q) := by
  obtain ⟨g1, g2, g3⟩ := class_facts hcm
  unfold shapeFits at hfit
  cases hp : propsAt c.schema.props p with
  | none => rw [hp] at hfit; cases hfit
  | some ps' =>
    cases hm : updArg arg kwargs with
    | error e => rw [hp, hm] at hfit; cases hfit
    | ok m =>
      rw [hp, hm] at hfit
      exact update_at_readS tables _ _ tree p arg kwargs mt rno m hm ps' hp hfit g1 g2 g3 hwf hacc q vid hq

/-- **one operation**: the value read afterwards is `absStep` of the value read before -/
theorem readAt_step_all (w0 w : World) (hg : Good w0 w) (op : Op)
    (hfit : outOk (step tables classes defaults w op).2 = true → CovOp w0 op)
    (j : Nat) (c : ClassInfo) (hc0 : clsOf w0 j = some c) (q : List Key) (vid : Nat) (hq : leafVid c.schema.props q = some vid) :
    readAt (step tables classes defaults w op).1 j q =
      absStep j c q vid (readAt w j q) (op, outOk (step tables classes defaults w op).2) := by
  cases hacc : outOk (step tables classes defaults w op).2 with
  | false =>
    rw [not_accepted_world w hg.inv0 op hacc]
    simp [absStep]
  | true =>
    have hfo := hfit hacc
    obtain ⟨o, hw, hc⟩ := clsOf_elim (show clsOf w j = some c by rw [hg.cls]; exact hc0)
    have hcm : c ∈ classes := List.mem_of_getElem? hc
    obtain ⟨c', hc', hwf⟩ := hg.wf j o hw
    rw [hc] at hc'
    injection hc' with hc'
    subst hc'
    obtain ⟨g1, g2, g3⟩ := class_facts hcm
    have hframe : ∀ (i : Nat), i ≠ j → op.target = i → readAt (step tables classes defaults w op).1 j q = readAt w j q := by
      intro i hij ht
      exact readAt_congr (step_frame tables classes defaults w op j (by rw [ht]; exact fun e => hij e.symm)) q
    cases op with
    | update i p arg kwargs mt rno =>
      by_cases hij : i = j
      · subst hij
        obtain ⟨c2, hc2, hf2'⟩ := hfo
        rw [hc0] at hc2
        injection hc2 with hc2
        subst hc2
        have hf2 := hf2'
        have hstep : step tables classes defaults w (.update i p arg kwargs mt rno) = _ :=
          onObj_at (fun ps os cur => atPath (fun ps' os' c' => updateObj tables ps' os' c' arg kwargs mt rno) ps os cur p) w i o c hw hc
        rw [hstep] at hacc ⊢
        simp only [] at hacc ⊢
        have hacc' : (atPath (fun ps' os' c' => updateObj tables ps' os' c' arg kwargs mt rno) c.schema.props c.schema.others o.tree p).2 = .ok () := by
          cases hr : (atPath (fun ps' os' c' => updateObj tables ps' os' c' arg kwargs mt rno) c.schema.props c.schema.others o.tree p).2 with
          | ok u => rfl
          | error e => rw [hr] at hacc; cases hacc
        rw [readAt_setTree w i o c _ q hw hc, readAt_of w i o c q hw hc,
          read_update_like_r c hcm o.tree hwf p arg kwargs mt rno hf2 hacc' q vid hq]
        simp [absStep]
      · rw [hframe i hij rfl]
        simp [absStep, hij]
    | setattr i p k val =>
      by_cases hij : i = j
      · subst hij
        have hstep : step tables classes defaults w (.setattr i p k val) = _ :=
          onObj_at (fun ps os cur => atPath (assignOp tables k val) ps os cur p) w i o c hw hc
        rw [hstep] at hacc ⊢
        simp only [] at hacc ⊢
        have hacc' : (atPath (assignOp tables k val) c.schema.props c.schema.others o.tree p).2 = .ok () := by
          cases hr : (atPath (assignOp tables k val) c.schema.props c.schema.others o.tree p).2 with
          | ok u => rfl
          | error e => rw [hr] at hacc; cases hacc
        rw [readAt_setTree w i o c _ q hw hc, readAt_of w i o c q hw hc,
          assign_at_read tables _ _ o.tree p k val g1 g2 g3 hwf hacc' q vid hq]
        simp [absStep]
      · rw [hframe i hij rfl]
        simp [absStep, hij]
    | reset =>
      by_cases hj : j = 0
      · subst hj
        obtain ⟨x, hx⟩ := hg.inv0
        rw [hw] at hx
        injection hx with hx
        obtain ⟨bases, hb⟩ := classes_zero
        have ho : o.cls = 0 := by rw [hx]
        rw [ho, hb] at hc
        injection hc with hc
        rw [step_reset_inv0 w x (by rw [hw, hx])]
        simp only []
        rw [readAt_setTree w 0 o _ _ q hw (by rw [ho]; exact hb)]
        simp [absStep, props0_eq]
      · rw [hframe 0 (fun e => hj e.symm) rfl]
        simp [absStep, hj]
    | resetStyle =>
      by_cases hj : j = 0
      · subst hj
        obtain ⟨x, hx⟩ := hg.inv0
        rw [hw] at hx
        injection hx with hx
        obtain ⟨bases, hb⟩ := classes_zero
        have ho : o.cls = 0 := by rw [hx]
        have hc' := hc
        rw [ho, hb] at hc'
        injection hc' with hc'
        have hstep : step tables classes defaults w .resetStyle = _ := onObj_at (resetStyle tables defaults) w 0 o c hw hc
        rw [hstep] at hacc ⊢
        simp only [] at hacc ⊢
        rw [readAt_setTree w 0 o c _ q hw hc, readAt_of w 0 o c q hw hc]
        have hsf := styleArg_shapeFits
        unfold styleArg at hsf
        unfold resetStyle at hacc ⊢
        simp only [absStep, if_true]
        unfold styleArg
        cases hd : getPath defaults stylePath with
        | none => rw [show getPath defaults [Key.str "display".toList, Key.str "style".toList] = none from hd] at hacc; cases hacc
        | some d =>
          rw [show getPath defaults [Key.str "display".toList, Key.str "style".toList] = some d from hd] at hacc ⊢
          rw [hd] at hsf
          simp only [] at hacc ⊢ hsf
          have hacc' : (atPath (fun ps' os' c' => updateObj tables ps' os' c' (some d) [] false false) c.schema.props c.schema.others o.tree stylePath).2 = .ok () := by
            cases hr : (atPath (fun ps' os' c' => updateObj tables ps' os' c' (some d) [] false false) c.schema.props c.schema.others o.tree stylePath).2 with
            | ok u => rfl
            | error e =>
              have : (atPath (fun ps os c => updateObj tables ps os c (some d) [] false false) c.schema.props c.schema.others o.tree
                  [Key.str "display".toList, Key.str "style".toList]).2 = .error e := hr
              rw [this] at hacc; cases hacc
          have hf2 : shapeFits (!false) c.schema.props stylePath (updArg (some d) []) = true := by
            rw [← hc']; exact hsf
          exact read_update_like_r c hcm o.tree hwf stylePath (some d) [] false false hf2 hacc' q vid hq
      · rw [hframe 0 (fun e => hj e.symm) rfl]
        simp [absStep, hj]
    | setStyle i val =>
      by_cases hij : i = j
      · subst hij
        obtain ⟨c2, hc2, hf2'⟩ := hfo
        rw [hc0] at hc2
        injection hc2 with hc2
        subst hc2
        have hf2 : shapeFits (!true) c.schema.props [] (updArg (some (.node (styleKw val))) []) = true := hf2'
        by_cases hi0 : i = 0
        · subst hi0; simp [step, outOk] at hacc
        · have hstep : step tables classes defaults w (.setStyle i val) =
              onObj classes w i (fun ps os cur => atPath (fun ps' os' c' => updateObj tables ps' os' c' (some (.node (styleKw val))) [] true false) ps os cur []) := by
            simp only [step, hi0, if_false]
            cases val with
            | leaf v =>
              cases v with
              | none => rfl
              | some n => simp [step, hi0, outOk] at hacc
            | node kv => rfl
          rw [hstep, onObj_at _ w i o c hw hc] at hacc ⊢
          simp only [] at hacc ⊢
          have hacc' : (atPath (fun ps' os' c' => updateObj tables ps' os' c' (some (.node (styleKw val))) [] true false) c.schema.props c.schema.others o.tree []).2 = .ok () := by
            cases hr : (atPath (fun ps' os' c' => updateObj tables ps' os' c' (some (.node (styleKw val))) [] true false) c.schema.props c.schema.others o.tree []).2 with
            | ok u => rfl
            | error e => rw [hr] at hacc; cases hacc
          rw [readAt_setTree w i o c _ q hw hc, readAt_of w i o c q hw hc,
            read_update_like_r c hcm o.tree hwf [] _ [] true false hf2 hacc' q vid hq]
          simp [absStep]
      · rw [hframe i hij rfl]
        simp [absStep, hij]
    | setStyleObj i k =>
      rw [style_object_assignment_ignored]
      simp [absStep]
    | read i p =>
      rw [step_read_world]
      simp [absStep]

theorem reads_refine_all_from (w0 : World) (j : Nat) (c : ClassInfo) (hc0 : clsOf w0 j = some c) (q : List Key) (vid : Nat)
    (hq : leafVid c.schema.props q = some vid) : ∀ (ops : List Op) (w : World), Good w0 w →
    (∀ x ∈ annot w ops, x.2 = true → CovOp w0 x.1) →
    readAt (exec tables classes defaults w ops) j q = (annot w ops).foldl (absStep j c q vid) (readAt w j q) := by
  intro ops
  induction ops with
  | nil => intro w _ _; rfl
  | cons op t ih =>
    intro w hg hfit
    rw [exec_cons, annot, List.foldl_cons,
      ih _ (good_step w0 w hg op) (fun x hx => hfit x (List.mem_cons_of_mem _ hx)),
      readAt_step_all w0 w hg op (fun h => hfit (op, outOk (step tables classes defaults w op).2) (List.mem_cons_self ..) h) j c hc0 q vid hq]

/- FULL: the same with no condition at all on accepted operations (`CovOp` dropped).  Proved: every accepted attribute
   assignment is covered whatever it assigns (values, dicts, None, strings; plain properties, sub-objects, the alias), and
   every accepted update / `obj.style = dict` whose argument FITS, with either `_replace_None_only`.  Exactly what remains: an
   accepted `update` (or `obj.style = dict`) whose argument after `magic_to_dict` is not fitting, i.e. at some level
   (1) gives a non-dict value (None, a string) to a sub-object property, (2) gives a dict to a plain property,
   or (3) uses the deprecated alias key `size` of `Magnetization` (keys that are no properties, accepted only with
   `_match_properties=False`, are covered: they are ignored).  For those the loop of `update` is still characterised leaf by leaf — `setAllS_read`: the fold of the
   setters' effects `attrRead` over `new_dict` — but `new_dict = update_nested_dict(as_dict(), arg)` then contains the rebuilt
   dictionaries of the current sub-objects, so the fold is not yet a function of the call alone (needs: `construct` on
   `update_nested_dict(wellformed, arbitrary)` below a sub-object key = the same fold one level down). -/
/-- **C20 — the last assignment wins, for every kind of attribute assignment and both `_replace_None_only`.**  For any
number of objects of any classes and EVERY history over the full operation set on the defaults and on every object, accepted
or rejected, in which the accepted updates have fitting arguments (`CovOp`; nothing is asked of attribute assignments,
resets, reads, rejected operations): reading any plain property `q` of `magpylib.defaults` or of any object's own style
gives exactly the fold of `absStep` over the operations and their outcomes, started from the value at import time / after
construction. -/
theorem reads_refine_all_partial (cls : List Nat) (hcls : ∀ ci ∈ cls, ci < classes.length) (ops : List Op)
    (hfit : ∀ x ∈ annot (init cls) ops, x.2 = true → CovOp (init cls) x.1)
    (j : Nat) (c : ClassInfo) (hc0 : clsOf (init cls) j = some c) (q : List Key) (vid : Nat)
    (hq : leafVid c.schema.props q = some vid) :
    readAt (exec tables classes defaults (init cls) ops) j q =
      (annot (init cls) ops).foldl (absStep j c q vid) (readAt (init cls) j q) :=
  reads_refine_all_from (init cls) j c hc0 q vid hq ops (init cls) (good_init cls hcls) hfit

/-- **a sub-object assigned a dict / None / a string**: below it every plain property reads what the constructor gives it —
a function (`ctorRead`) of the class and the assigned value alone: whatever was stored there before is gone -/
theorem subobject_assignment_reads (cls : List Nat) (hcls : ∀ ci ∈ cls, ci < classes.length) (ops : List Op) (j : Nat) (c : ClassInfo)
    (hc0 : clsOf (init cls) j = some c) (k : Key) (val : Tree) (ps1 : List (Key × Schema)) (os1 : List Str) (sh : Option Key)
    (ct : List (Key × Option Val)) (vk : Bool) (hk : lookup k c.schema.props = some (.obj ps1 os1 sh ct vk))
    (hacc : outOk (step tables classes defaults (exec tables classes defaults (init cls) ops) (.setattr j [] k val)).2 = true)
    (q' : List Key) (vid : Nat) (hq : leafVid c.schema.props (k :: q') = some vid) :
    ∃ kw g, objKwargs tables sh val = .ok kw ∧ ctorDict ps1 ct vk kw = .ok g ∧
      readAt (step tables classes defaults (exec tables classes defaults (init cls) ops) (.setattr j [] k val)).1 j (k :: q') =
        ctorRead tables vid g ps1 q' (.error .attribute) := by
  have hg : Good (init cls) (exec tables classes defaults (init cls) ops) := by
    have key : ∀ (l : List Op) (w : World), Good (init cls) w → Good (init cls) (exec tables classes defaults w l) := by
      intro l
      induction l with
      | nil => intro w h; exact h
      | cons op t ih => intro w h; rw [exec_cons]; exact ih _ (good_step _ w h op)
    exact key ops _ (good_init cls hcls)
  have h1 := readAt_step_all (init cls) _ hg (.setattr j [] k val) (fun _ => trivial) j c hc0 (k :: q') vid hq
  rw [hacc] at h1
  simp only [absStep, if_true, assignRead, List.isPrefixOf, propsAt, List.length_nil, List.drop_zero, attrRead, hk] at h1
  rw [propRead] at h1
  simp only [if_true] at h1
  -- acceptance: the keyword arguments and the constructor's dictionary exist
  obtain ⟨o, hw, hc⟩ := clsOf_elim (show clsOf (exec tables classes defaults (init cls) ops) j = some c by rw [hg.cls]; exact hc0)
  have hstep : step tables classes defaults (exec tables classes defaults (init cls) ops) (.setattr j [] k val) = _ :=
    onObj_at (fun ps os cur => atPath (assignOp tables k val) ps os cur []) _ j o c hw hc
  rw [hstep] at hacc
  simp only [atPath_nil, assignOp, setAttr, hk] at hacc
  rw [setProp] at hacc
  cases hkw : objKwargs tables sh val with
  | error e => rw [hkw] at hacc; simp [outOk, Out.ofExcept] at hacc
  | ok kw =>
    rw [hkw] at hacc h1
    simp only [] at hacc h1
    cases hgd : ctorDict ps1 ct vk kw with
    | error e => rw [hgd] at hacc; simp [outOk, Out.ofExcept] at hacc
    | ok g =>
      rw [hgd] at h1
      exact ⟨kw, g, rfl, hgd, h1⟩

/-- non-vacuity and a worked case: a Cuboid-class style; `style.path = {"line": {"width": 3}}` after
`style.path.line.width = 10` and `style.path.line.style = 'dashed'`; `style.magnetization = None` after a magic update of
`magnetization_arrow_size`; the alias `style.magnetization.size = 2`; an update with `_replace_None_only=True` that finds a
non-None value (`opacity`) and one that finds None (`color`); a REJECTED assignment.  The specification (`absStep` fold)
and the model agree on `path.line.width` (3), `path.line.style` (None: the constructor's default, the old 'dashed' is
gone), `magnetization.arrow.size` (2), `opacity` (0.5 kept), `color` ('red' taken). -/
example :
    let pth : Key := .str "path".toList
    let line : Key := .str "line".toList
    let width : Key := .str "width".toList
    let sty : Key := .str "style".toList
    let mag : Key := .str "magnetization".toList
    let arrow : Key := .str "arrow".toList
    let size : Key := .str "size".toList
    let ops : List Op := [
      .setattr 1 [pth, line] width (.leaf (some 0)),
      .setattr 1 [pth, line] sty (.leaf (some 37)),
      .setattr 1 [] pth (.node [(line, .node [(width, .leaf (some 10))])]),
      .update 1 [] none [(.str "magnetization_arrow_size".toList, .leaf (some 10))] true false,
      .setattr 1 [] mag (.leaf none),
      .setattr 1 [mag] size (.leaf (some 15)),
      .setattr 1 [] (.str "opacity".toList) (.leaf (some 21)),
      .update 1 [] none [(.str "opacity".toList, .leaf (some 8)), (.str "color".toList, .leaf (some 22))] true true,
      .setattr 1 [] (.str "colour".toList) (.leaf (some 22))]
    let c : ClassInfo := ⟨"MagnetStyle".toList, [], cMagnetStyle⟩
    let ps := cMagnetStyle.props
    let rd := fun q => readAt (exec tables classes defaults (init [1]) ops) 1 q
    let sp := fun q => (annot (init [1]) ops).foldl (absStep 1 c q ((leafVid ps q).getD 0)) (readAt (init [1]) 1 q)
    let same := fun (q : List Key) (v : Option Val) =>
      (leafVid ps q).isSome && (match rd q with | .ok (.leaf x) => x == v | _ => false) && (match sp q with | .ok (.leaf x) => x == v | _ => false)
    (annot (init [1]) ops).map (·.2) = [true, true, true, true, true, true, true, true, false] ∧
    shapeFits false ps [] (updArg none [(.str "magnetization_arrow_size".toList, .leaf (some 10))]) = true ∧
    shapeFits false ps [] (updArg none [(.str "opacity".toList, .leaf (some 8)), (.str "color".toList, .leaf (some 22))]) = true ∧
    shapeFits true ps [] (updArg none [(.str "bogus_x".toList, .leaf (some 8)), (.str "opacity".toList, .leaf (some 8))]) = true ∧
    same [pth, line, width] (some 10) = true ∧ same [pth, line, sty] none = true ∧ same [mag, arrow, size] (some 15) = true ∧
    same [.str "opacity".toList] (some 21) = true ∧ same [.str "color".toList] (some 22) = true := by
  decide +kernel

end MagpyVerif.C20g
