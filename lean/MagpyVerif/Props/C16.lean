/-
Props/C16.lean — TriangularMesh status checks (combinatorial part).
Proved: an edge is reported open exactly when it does not occur in exactly two faces; the report
is invariant under any reordering of the faces and under rotating or flipping the winding of
any face (so `check_open` cannot depend on face order or winding).
/- FULL: also check_disconnected (modelled in Model/Mesh.lean and compared exactly with the real
   function by the `mesh` correspondence, partition theorem not proved), check_selfintersecting and
   the outward re-orientation (float geometry with absolute tolerances: ray test, inside test):
   permutation / flip / derived-mesh oracle on the real class. -/
-/
import MagpyVerif.Model.Mesh
namespace MagpyVerif.C16
open MagpyVerif.Mesh

/-- an edge is open iff it is an edge of the mesh that does not belong to exactly two faces -/
theorem open_iff_edge_count_ne_2 (faces : List Face) (e : Edge) :
    e ∈ openEdges faces ↔ e ∈ edgesOf faces ∧ (edgesOf faces).count e ≠ 2 := by
  simp [openEdges, List.mem_filter, List.mem_eraseDups]

/-- closed ⇔ every edge is shared by exactly two faces -/
theorem closed_iff (faces : List Face) :
    openEdges faces = [] ↔ ∀ e ∈ edgesOf faces, (edgesOf faces).count e = 2 := by
  rw [List.eq_nil_iff_forall_not_mem]
  constructor
  · intro h e he
    apply Decidable.byContradiction
    intro hne
    exact h e ((open_iff_edge_count_ne_2 faces e).mpr ⟨he, hne⟩)
  · intro h e he
    obtain ⟨h1, h2⟩ := (open_iff_edge_count_ne_2 faces e).mp he
    exact h2 (h e h1)

theorem sortPair_comm (a b : Nat) : sortPair a b = sortPair b a := by
  unfold sortPair
  by_cases h1 : a ≤ b <;> by_cases h2 : b ≤ a <;> simp [h1, h2]
  · have : a = b := Nat.le_antisymm h1 h2
    simp [this]
  · omega

theorem edgesOf_perm {f1 f2 : List Face} (h : f1.Perm f2) : (edgesOf f1).Perm (edgesOf f2) := by
  unfold edgesOf
  exact ((h.map _).append (h.map _)).append (h.map _)

/-- the open/closed verdict does not depend on the order of the faces -/
theorem open_invariant_under_face_permutation {f1 f2 : List Face} (h : f1.Perm f2) (e : Edge) :
    e ∈ openEdges f1 ↔ e ∈ openEdges f2 := by
  rw [open_iff_edge_count_ne_2, open_iff_edge_count_ne_2]
  have hp := edgesOf_perm h
  rw [hp.mem_iff, hp.count_eq]

/-- flipping the winding of a face (a,b,c) → (a,c,b) or rotating it (a,b,c) → (b,c,a) leaves its
three undirected edges unchanged as a multiset -/
theorem face_edges_flip_rotate (a b c : Nat) :
    (edgesOf [(a, c, b)]).Perm (edgesOf [(a, b, c)]) ∧ (edgesOf [(b, c, a)]).Perm (edgesOf [(a, b, c)]) := by
  simp only [edgesOf, List.map_cons, List.map_nil, List.cons_append, List.nil_append]
  constructor
  · rw [sortPair_comm c b]
    exact List.Perm.swap _ _ _ |>.trans (List.Perm.cons _ (List.Perm.swap _ _ _)) |>.trans (List.Perm.swap _ _ _)
  · rw [sortPair_comm c a, sortPair_comm b a]
    exact (List.Perm.cons _ (List.Perm.swap _ _ _)).trans (List.Perm.swap _ _ _)

example : openEdges [(0, 1, 2), (0, 1, 3), (0, 2, 3), (1, 2, 3)] = [] := by decide
example : openEdges [(0, 1, 2), (0, 1, 3), (0, 2, 3)] = [(1, 2), (1, 3), (2, 3)] := by decide
example : subsets 10 [(0, 1, 2), (3, 4, 5), (2, 6, 7), (5, 8, 9)] = [[0, 1, 2, 6, 7], [3, 4, 5, 8, 9]] := by decide

end MagpyVerif.C16
