/-
Props/C16.lean — TriangularMesh status checks and re-orientation (combinatorial part).
Proved:
* `check_open`: an edge is reported open exactly when it does not occur in exactly two faces; the report is invariant
  under any reordering of the faces and under rotating or flipping the winding of any face.
* `check_disconnected`: `get_disconnected_faces_subsets` (the nested while/for merge as written, with the fuel the
  driver uses shown sufficient) returns exactly the vertex-connected components: cover, pairwise disjoint, each subset
  connected and maximal; one subset iff the mesh is vertex-connected; verdict invariant under permuting faces,
  rewinding faces, renumbering vertices.
* `fix_trimesh_orientation`: the edge-propagation sweep of `get_inwards_mask` (seed test as a parameter) makes every
  orientable mesh consistently oriented, for every face order, every set of initially flipped faces and every answer
  of the seed tests; the orientability hypothesis is shown necessary.
* the seed's ray test `is_facet_inwards` and the inside test `mask_inside_trimesh` (ported in Model/TrimeshInside.lean, tied
  bit-for-bit by the `trimesh-inside` stream) do not depend on where the mesh is placed (translation invariance) nor on
  the order of the faces (`mask_inside_trimesh`).
* for a single tetrahedron with outward faces every observer strictly inside is found inside by `mask_inside_trimesh`,
  unless its test ray comes within the pass-through tolerance of an edge — and that exception is real.
* `check_selfintersecting` (`get_intersecting_triangles` / `segments_intersect_facets` AFTER the repair — a zero signed volume
  fits both signs, segments starting or ending in a corner of the facet are skipped, `r_factor = 2.0`, all lengths in units of
  the mesh size before the float32 cast; ported in Model/MeshIntersect.lean, tied by the `selfint` stream), in exact
  arithmetic: the segment/facet primitive reports a pair EXACTLY when both end points are farther than `eps` from the facet's
  plane and the segment has a point in common with the CLOSED facet (`segfacet_iff_closed`; hence sound, and complete for
  crossings through the interior, an edge or a corner — the crossing the old code missed is reported,
  `segfacet_reports_edge_crossing`); the corner mask never changes a verdict in exact arithmetic; the report is reindexed by a
  permutation of the face list, unchanged by a translation, and unchanged by a common length factor applied to vertices and
  `r` with `eps` FIXED (`selfint_scale_invariant`, full strength: on a mesh of positive size the function equals the
  un-normalised one called with `eps · size`, `selfint_eps_is_relative`); the default radius `2 ×` largest corner distance reaches
  every pair of facets with a common point, so no crossing found by the primitive is lost to the ball query
  (`selfint_radius_covers`, `selfint_reports_crossing_pair`).  Still NOT reported: a segment that ends within
  `eps · size` of the facet's plane, even inside the facet (`segfacet_misses_end_in_facet`; an octahedron whose equator lies in
  a box face: replay).  The primitive on its own keeps an absolute `eps` (`segfacet_not_scale_invariant`).
/- FULL: also "check_selfintersecting reports exactly the self-intersecting meshes" (false of the code: end points in the
   plane of the other facet, see above; and not shown: that two facets with a common point always have an edge of one
   meeting the other with end points off its plane — false in the touching / coplanar cases) and
   "consistent => all faces outwards" (needs: the ray test equals the geometric
   inside predicate of a closed non-self-intersecting surface away from its faces — not shown; permutation / flip /
   derived-mesh oracle on the real class). -/
-/
import MagpyVerif.Model.Mesh
import MagpyVerif.Lemmas.MeshConn
import MagpyVerif.Lemmas.MeshOrient
import MagpyVerif.Lemmas.TrimeshInside
import MagpyVerif.Lemmas.TrimeshTetra
import MagpyVerif.Lemmas.MeshIntersect
import MagpyVerif.Lemmas.MeshPerm
import MagpyVerif.Lemmas.TrianglePerm
import MagpyVerif.Lemmas.TrimeshWinding
import MagpyVerif.Lemmas.TrimeshSum
import MagpyVerif.Lemmas.TrimeshSeed
import MagpyVerif.Lemmas.TrimeshSeedTetra
namespace MagpyVerif.C16
open MagpyVerif.Mesh

/-- an edge is open iff it is an edge of the mesh that does not belong to exactly two faces -/
theorem open_iff_edge_count_ne_2 (faces : List Face) (e : Edge) :
    e ∈ openEdges faces ↔ e ∈ edgesOf faces ∧ (edgesOf faces).count e ≠ 2 := by
  simp [openEdges, List.mem_filter, List.mem_eraseDups]

/-- closed ⇔ every edge is shared by exactly two faces -/
theorem closed_iff (faces : List Face) :
    openEdges faces = [] ↔ ∀ e ∈ edgesOf faces, (edgesOf faces).count e = 2 := by
  rw [List.eq_nil_iff_forall_not_mem]
  constructor
  · intro h e he
    apply Decidable.byContradiction
    intro hne
    exact h e ((open_iff_edge_count_ne_2 faces e).mpr ⟨he, hne⟩)
  · intro h e he
    obtain ⟨h1, h2⟩ := (open_iff_edge_count_ne_2 faces e).mp he
    exact h2 (h e h1)

theorem sortPair_comm (a b : Nat) : sortPair a b = sortPair b a := by
  unfold sortPair
  by_cases h1 : a ≤ b <;> by_cases h2 : b ≤ a <;> simp [h1, h2]
  · have : a = b := Nat.le_antisymm h1 h2
    simp [this]
  · omega

theorem edgesOf_perm {f1 f2 : List Face} (h : f1.Perm f2) : (edgesOf f1).Perm (edgesOf f2) := by
  unfold edgesOf
  exact ((h.map _).append (h.map _)).append (h.map _)

/-- the open/closed verdict does not depend on the order of the faces -/
theorem open_invariant_under_face_permutation {f1 f2 : List Face} (h : f1.Perm f2) (e : Edge) :
    e ∈ openEdges f1 ↔ e ∈ openEdges f2 := by
  rw [open_iff_edge_count_ne_2, open_iff_edge_count_ne_2]
  have hp := edgesOf_perm h
  rw [hp.mem_iff, hp.count_eq]

/-- flipping the winding of a face (a,b,c) → (a,c,b) or rotating it (a,b,c) → (b,c,a) leaves its
three undirected edges unchanged as a multiset -/
theorem face_edges_flip_rotate (a b c : Nat) :
    (edgesOf [(a, c, b)]).Perm (edgesOf [(a, b, c)]) ∧ (edgesOf [(b, c, a)]).Perm (edgesOf [(a, b, c)]) := by
  simp only [edgesOf, List.map_cons, List.map_nil, List.cons_append, List.nil_append]
  constructor
  · rw [sortPair_comm c b]
    exact List.Perm.swap _ _ _ |>.trans (List.Perm.cons _ (List.Perm.swap _ _ _)) |>.trans (List.Perm.swap _ _ _)
  · rw [sortPair_comm c a, sortPair_comm b a]
    exact (List.Perm.cons _ (List.Perm.swap _ _ _)).trans (List.Perm.swap _ _ _)

example : openEdges [(0, 1, 2), (0, 1, 3), (0, 2, 3), (1, 2, 3)] = [] := by decide
example : openEdges [(0, 1, 2), (0, 1, 3), (0, 2, 3)] = [(1, 2), (1, 3), (2, 3)] := by decide
example : subsets 10 [(0, 1, 2), (3, 4, 5), (2, 6, 7), (5, 8, 9)] = [[0, 1, 2, 6, 7], [3, 4, 5, 8, 9]] := by decide

/-! ## `get_disconnected_faces_subsets` computes the vertex-connected components

`subsets (faces.length + 1) faces` is what the driver runs (and what the `mesh` stream compares with the real
function); the inner loop gets `3 * (rest.length + 1) + 1` fuel. `VConn faces u v` : `u` and `v` are linked by a
chain of faces of the input in which consecutive faces share a vertex (`Relation.ReflTransGen` of "lie on a
common face"); `FaceConn` is the same chain written on the faces. -/

/-- the fuel of the inner `while len(first) > lf` loop is sufficient: with any fuel above `rest.length`
(the driver's `3 * (rest.length + 1) + 1` is) the loop has reached the pass that does not enlarge `first`, so the
result does not depend on the fuel — the model returns what the unbounded Python loop returns. -/
theorem absorb_fuel_sufficient (first : List Nat) (rest : List Face) (n : Nat) (h : rest.length < n) :
    absorb n first rest = absorb (3 * (rest.length + 1) + 1) first rest :=
  absorb_fuel_irrelevant n _ first rest h (by omega)

/-- the fuel of the outer `while len(tria_temp) > 0` loop is sufficient: any fuel ≥ the number of faces gives the
same list of subsets as the driver's `faces.length + 1` (every outer pass removes at least the first face). -/
theorem subsets_fuel_sufficient (faces : List Face) (n : Nat) (h : faces.length ≤ n) :
    subsets n faces = subsets (faces.length + 1) faces :=
  subsets_fuel_irrelevant n _ faces h (by omega)

/-- when the inner loop ends, no face that is left over touches the collected vertex set, every face of `rest` was
either absorbed (all its vertices collected) or left over, and nothing was collected that is not linked to `first` -/
theorem absorb_reaches_fixpoint (first : List Nat) (rest : List Face) :
    AbsorbSpec first rest (absorb (3 * (rest.length + 1) + 1) first rest).1 (absorb (3 * (rest.length + 1) + 1) first rest).2 :=
  absorb_spec _ first rest (by omega)

/-- Main theorem for `check_disconnected`: the subsets returned by `get_disconnected_faces_subsets` are exactly the
vertex-connected components of the mesh: each subset is the full connectivity class of each of its members
(`cls`: connected, and closed under sharing a face), they cover all vertices of all faces, contain nothing
else, are non-empty and pairwise disjoint. -/
theorem subsets_are_vertex_connected_components (faces : List Face) :
    IsComponents faces (subsets (faces.length + 1) faces) :=
  subsets_isComponents _ faces (by omega)

/-- (1a) every vertex of every face lies in a returned subset -/
theorem subsets_cover (faces : List Face) : ∀ f ∈ faces, ∀ v ∈ verts f, ∃ s ∈ subsets (faces.length + 1) faces, v ∈ s :=
  (subsets_are_vertex_connected_components faces).cover

/-- (1b) the returned subsets are pairwise disjoint -/
theorem subsets_pairwise_disjoint (faces : List Face) :
    (subsets (faces.length + 1) faces).Pairwise (fun s t => ∀ v ∈ s, v ∉ t) :=
  (subsets_are_vertex_connected_components faces).disjoint

/-- (1) every vertex of every face lies in exactly one returned subset (one position of the returned list) -/
theorem vertex_in_exactly_one_subset (faces : List Face) (f : Face) (hf : f ∈ faces) (v : Nat) (hv : v ∈ verts f) :
    ∃! i : Fin (subsets (faces.length + 1) faces).length, v ∈ (subsets (faces.length + 1) faces)[i] := by
  obtain ⟨s, hs, hvs⟩ := subsets_cover faces f hf v hv
  obtain ⟨i, hi, rfl⟩ := List.getElem_of_mem hs
  refine ⟨⟨i, hi⟩, hvs, ?_⟩
  rintro ⟨j, hj⟩ hvj
  have hd := List.pairwise_iff_getElem.mp (subsets_pairwise_disjoint faces)
  apply Fin.ext
  show j = i
  rcases Nat.lt_trichotomy j i with h | h | h
  · exact absurd hvs (hd j i hj hi h v hvj)
  · exact h
  · exact absurd hvj (hd i j hi hj h v hvs)

/-- (2) two faces sharing a vertex have all their vertices in one and the same subset -/
theorem faces_sharing_vertex_same_subset (faces : List Face) (f g : Face) (hf : f ∈ faces) (hg : g ∈ faces)
    (w : Nat) (hwf : w ∈ verts f) (hwg : w ∈ verts g) :
    ∃ s ∈ subsets (faces.length + 1) faces, (∀ v ∈ verts f, v ∈ s) ∧ (∀ v ∈ verts g, v ∈ s) := by
  have c := subsets_are_vertex_connected_components faces
  obtain ⟨s, hs, hws⟩ := c.cover f hf w hwf
  exact ⟨s, hs, fun v hv => (c.cls s hs w hws v).mpr (vconn_of_face hf hwf hv),
    fun v hv => (c.cls s hs w hws v).mpr (vconn_of_face hg hwg hv)⟩

/-- (3) each subset is connected: any two of its vertices lie on faces `f`, `g` of the input that are linked by a
chain of faces of the input in which consecutive faces share a vertex -/
theorem subset_connected (faces : List Face) (s : List Nat) (hs : s ∈ subsets (faces.length + 1) faces)
    (u v : Nat) (hu : u ∈ s) (hv : v ∈ s) :
    VConn faces u v ∧ ∃ f ∈ faces, ∃ g ∈ faces, u ∈ verts f ∧ v ∈ verts g ∧ FaceConn faces f g := by
  have c := subsets_are_vertex_connected_components faces
  have huv := (c.cls s hs u hu v).mp hv
  obtain ⟨f, hf, huf⟩ := c.vertsOnly s hs u hu
  obtain ⟨g, hg, hvg, hfg⟩ := faceConn_of_vconn huv f hf huf
  exact ⟨huv, f, hf, g, hg, huf, hvg, hfg⟩

/-- (3') each subset is a whole component: a vertex linked to a member of the subset is a member -/
theorem subset_maximal (faces : List Face) (s : List Nat) (hs : s ∈ subsets (faces.length + 1) faces)
    (u v : Nat) (hu : u ∈ s) (huv : VConn faces u v) : v ∈ s :=
  ((subsets_are_vertex_connected_components faces).cls s hs u hu v).mpr huv

/-- (4) what `check_disconnected` reports: exactly one subset is returned iff the mesh is non-empty and
vertex-connected; so "disconnected" (`len(subsets) > 1`) is reported exactly for meshes with two vertices of
faces that are not linked -/
theorem one_subset_iff_connected (faces : List Face) :
    (subsets (faces.length + 1) faces).length = 1 ↔ faces ≠ [] ∧ VertexConnected faces :=
  (subsets_are_vertex_connected_components faces).length_eq_one_iff

theorem more_than_one_subset_iff_disconnected (faces : List Face) :
    1 < (subsets (faces.length + 1) faces).length ↔ faces ≠ [] ∧ ¬ VertexConnected faces := by
  have c := subsets_are_vertex_connected_components faces
  have h1 := c.length_eq_one_iff
  have h0 := c.eq_nil_iff
  rw [← List.length_eq_zero_iff] at h0
  constructor
  · intro h
    refine ⟨fun hn => ?_, fun hc => ?_⟩
    · have := h0.mpr hn; omega
    · have hne : faces ≠ [] := fun hn => by have := h0.mpr hn; omega
      have := h1.mpr ⟨hne, hc⟩; omega
  · rintro ⟨hne, hnc⟩
    have h0' : (subsets (faces.length + 1) faces).length ≠ 0 := fun h => hne (h0.mp h)
    have h1' : (subsets (faces.length + 1) faces).length ≠ 1 := fun h => hnc (h1.mp h).2
    omega

/-- (4) the verdict does not depend on the order of the faces, on repeated faces or on the winding of the
faces: two face lists whose faces have the same vertex sets get the same verdict -/
theorem connected_verdict_invariant {f1 f2 : List Face} (h : SameFaceSets f1 f2) :
    (subsets (f1.length + 1) f1).length = 1 ↔ (subsets (f2.length + 1) f2).length = 1 := by
  rw [one_subset_iff_connected, one_subset_iff_connected]
  exact ⟨fun ⟨a, b⟩ => ⟨h.ne_nil a, h.vertexConnected b⟩, fun ⟨a, b⟩ => ⟨h.symm.ne_nil a, h.symm.vertexConnected b⟩⟩

/-- … in particular under any permutation of the faces -/
theorem connected_verdict_invariant_under_face_permutation {f1 f2 : List Face} (h : f1.Perm f2) :
    (subsets (f1.length + 1) f1).length = 1 ↔ (subsets (f2.length + 1) f2).length = 1 :=
  connected_verdict_invariant (sameFaceSets_of_perm h)

/-- … and under rotating and/or flipping the winding of any of the faces (`windings f` are the six orders of the
three indices of `f`), also combined with a permutation of the faces -/
theorem connected_verdict_invariant_under_rewinding {f1 f2 f3 : List Face} (hp : f1.Perm f2)
    (hw : List.Forall₂ (fun f g => g ∈ windings f) f2 f3) :
    (subsets (f1.length + 1) f1).length = 1 ↔ (subsets (f3.length + 1) f3).length = 1 :=
  connected_verdict_invariant ((sameFaceSets_of_perm hp).trans (sameFaceSets_of_rewind hw))

/-- … and under renumbering the vertices by any injective map -/
theorem connected_verdict_invariant_under_renumbering {σ : Nat → Nat} (hσ : Function.Injective σ) (faces : List Face) :
    (subsets ((faces.map (mapFace σ)).length + 1) (faces.map (mapFace σ))).length = 1 ↔
      (subsets (faces.length + 1) faces).length = 1 := by
  rw [one_subset_iff_connected, one_subset_iff_connected, vertexConnected_map_iff hσ]
  simp

/-- more than the verdict: under those changes the returned subsets are the same sets of vertices -/
theorem subsets_invariant {f1 f2 : List Face} (h : SameFaceSets f1 f2) :
    ∀ s ∈ subsets (f1.length + 1) f1, ∃ t ∈ subsets (f2.length + 1) f2, ∀ v, v ∈ s ↔ v ∈ t := by
  intro s hs
  have c1 := subsets_are_vertex_connected_components f1
  have c2 := subsets_are_vertex_connected_components f2
  obtain ⟨u, hu⟩ := List.exists_mem_of_ne_nil s (c1.nonempty s hs)
  obtain ⟨g, hg, hug⟩ := c1.vertsOnly s hs u hu
  obtain ⟨k, hk, hgk⟩ := h.1 g hg
  obtain ⟨t, ht, hut⟩ := c2.cover k hk u ((hgk u).mp hug)
  exact ⟨t, ht, fun v => by rw [c1.cls s hs u hu v, c2.cls t ht u hut v, h.vconn]⟩

-- non-vacuity: a connected mesh, a mesh of two parts joined through one vertex, a disconnected mesh
example : VertexConnected [(0, 1, 2), (0, 1, 3), (0, 2, 3), (1, 2, 3)] :=
  ((one_subset_iff_connected _).mp (by decide)).2
example : VertexConnected [(0, 1, 2), (3, 4, 5), (2, 6, 3)] :=
  ((one_subset_iff_connected _).mp (by decide)).2
example : ¬ VertexConnected [(0, 1, 2), (3, 4, 5), (2, 6, 7), (5, 8, 9)] :=
  ((more_than_one_subset_iff_disconnected _).mp (by decide)).2
example : subsets 5 [(0, 1, 2), (3, 4, 5), (2, 6, 7), (5, 8, 9)] = [[0, 1, 2, 6, 7], [3, 4, 5, 8, 9]] := by decide
-- the inner loop really needs several passes (faces listed against the direction of growth): 4 passes here
example : absorb 2 [0, 1, 2] [(6, 7, 8), (4, 5, 6), (2, 3, 4)] ≠ absorb 4 [0, 1, 2] [(6, 7, 8), (4, 5, 6), (2, 3, 4)] := by decide
example : (absorb 4 [0, 1, 2] [(6, 7, 8), (4, 5, 6), (2, 3, 4)]).1 = [0, 1, 2, 3, 4, 5, 6, 7, 8] := by decide
example : SameFaceSets [(0, 1, 2), (3, 4, 5)] [(5, 4, 3), (1, 2, 0)] :=
  (sameFaceSets_of_perm (List.Perm.swap _ _ [])).trans
    (sameFaceSets_of_rewind (.cons (by decide) (.cons (by decide) .nil)))

/-! ## `get_inwards_mask` / `fix_trimesh_orientation`: the edge-propagation sweep

`inwardsMask seed tris` is the model of `get_inwards_mask` on the index triples, the ray test of the seed face
(`is_facet_inwards`) being the parameter `seed`. `Consistent tris ρ`: with the faces flagged by `ρ` flipped, no two
distinct faces traverse an edge in the same direction — for a closed edge-manifold mesh this says that any two faces
sharing an edge traverse it in opposite directions. The hypothesis "some consistent flagging exists" (the mesh is
orientable) cannot be dropped: `closed_manifold_connected_but_not_orientable` below. It implies that every edge
lies on at most two faces; closedness and connectedness are not needed. -/

/-- the fuel `2 * len(triangles) + 1` of the `while indices:` loop is sufficient (on an orientable mesh): the loop
ends with `indices` empty, and more fuel gives the same state -/
theorem orientLoop_fuel_sufficient (seed : List Nat → Bool) (tris : List Face) (ρ : Nat → Bool) (hρ : Consistent tris ρ)
    (m : Nat) (hm : 2 * tris.length + 1 ≤ m) :
    (orientLoop seed tris (2 * tris.length + 1) (orientInit tris)).indices = [] ∧
    orientLoop seed tris m (orientInit tris) = orientLoop seed tris (2 * tris.length + 1) (orientInit tris) := by
  have h := (orientLoop_consistent hρ seed).1
  exact ⟨h, orientLoop_fuel_irrelevant seed tris _ m _ h hm⟩

/-- `propagation_consistent`: on an orientable mesh — whatever the order of the faces, whichever faces are given
flipped, whatever the seed tests answer — flipping the faces flagged by `get_inwards_mask` leaves no two distinct
faces that traverse an edge in the same direction; the mask has one entry per face. -/
theorem propagation_consistent (seed : List Nat → Bool) (tris : List Face) (ρ : Nat → Bool) (hρ : Consistent tris ρ) :
    (inwardsMask seed tris).length = tris.length ∧
    Consistent tris (fun i => (inwardsMask seed tris).getD i false) :=
  (orientLoop_consistent hρ seed).2

/-- the same on the output of `fix_trimesh_orientation`: the returned faces are the given faces, each as it was or
flipped `(a, b, c) → (a, c, b)`, and two returned faces that share an edge traverse it in opposite directions -/
theorem fixOrientation_consistent (seed : List Nat → Bool) (tris : List Face) (ρ : Nat → Bool) (hρ : Consistent tris ρ) :
    (fixOrientation seed tris).length = tris.length ∧
    (∀ i, i < tris.length → (fixOrientation seed tris).getD i (0, 0, 0) = faceAt tris i ∨
      (fixOrientation seed tris).getD i (0, 0, 0) = flipFace (faceAt tris i)) ∧
    ∀ i j, i < tris.length → j < tris.length → i ≠ j → ∀ a b,
      (a, b) ∈ dirEdges ((fixOrientation seed tris).getD i (0, 0, 0)) →
      (a, b) ∉ dirEdges ((fixOrientation seed tris).getD j (0, 0, 0)) := by
  obtain ⟨hlen, hc⟩ := propagation_consistent seed tris ρ hρ
  have hget : ∀ i, i < tris.length → (fixOrientation seed tris).getD i (0, 0, 0) =
      if (inwardsMask seed tris).getD i false then flipFace (faceAt tris i) else faceAt tris i := by
    intro i hi
    have hi' : i < (inwardsMask seed tris).length := by rw [hlen]; exact hi
    simp only [fixOrientation, faceAt, List.getD_eq_getElem?_getD, List.getElem?_zipWith, List.getElem?_eq_getElem hi,
      List.getElem?_eq_getElem hi', Option.getD_some]
  have hdir : ∀ i, i < tris.length → ∀ e, e ∈ dirEdges ((fixOrientation seed tris).getD i (0, 0, 0)) ↔
      e ∈ orient ((inwardsMask seed tris).getD i false) (faceAt tris i) := by
    intro i hi e
    rw [hget i hi]
    cases (inwardsMask seed tris).getD i false
    · simp [orient]
    · simp only [if_true, orient]; exact mem_dirEdges_flipFace _ e
  refine ⟨by simp [fixOrientation, hlen], ?_, ?_⟩
  · intro i hi
    rw [hget i hi]
    cases (inwardsMask seed tris).getD i false
    · exact Or.inl (by simp)
    · exact Or.inr (by simp)
  · intro i j hi hj hij a b hab h
    exact hc i j hi hj hij (a, b) ((hdir i hi _).mp hab) ((hdir j hj _).mp h)

/-- spelled out for a shared edge: if returned face `i` traverses `a → b` and a different returned face `j` contains
the edge `{a, b}` (in either direction), then face `j` traverses it `b → a` -/
theorem shared_edge_traversed_oppositely (seed : List Nat → Bool) (tris : List Face) (ρ : Nat → Bool) (hρ : Consistent tris ρ)
    (i j : Nat) (hi : i < tris.length) (hj : j < tris.length) (hij : i ≠ j) (a b : Nat)
    (hab : (a, b) ∈ dirEdges ((fixOrientation seed tris).getD i (0, 0, 0)))
    (hshare : (a, b) ∈ dirEdges ((fixOrientation seed tris).getD j (0, 0, 0)) ∨
      (b, a) ∈ dirEdges ((fixOrientation seed tris).getD j (0, 0, 0))) :
    (b, a) ∈ dirEdges ((fixOrientation seed tris).getD j (0, 0, 0)) := by
  rcases hshare with h | h
  · exact absurd h ((fixOrientation_consistent seed tris ρ hρ).2.2 i j hi hj hij a b hab)
  · exact h

/-- the orientability hypothesis of `propagation_consistent` is necessary: a closed (every edge on exactly two faces),
vertex-connected mesh of index triples for which no choice of flips is consistent — so for it the mask returned by
`get_inwards_mask` cannot be consistent either. (Such a surface cannot be realised in space without
self-intersection; `check_selfintersecting` is the guard on the real class.) -/
theorem closed_manifold_connected_but_not_orientable :
    openEdges rp2 = [] ∧ (subsets (rp2.length + 1) rp2).length = 1 ∧ ¬ ∃ ρ, Consistent rp2 ρ :=
  ⟨by decide, by decide, not_orientable_of_all_conflict rp2 (by decide +kernel)⟩

-- non-vacuity: a tetrahedron given with two faces wound the wrong way is orientable …
example : Consistent [(0, 1, 2), (0, 1, 3), (0, 2, 3), (1, 2, 3)] (fun i => [false, true, false, true].getD i false) :=
  (conflict_iff _ _).mp (by decide)
-- … the sweep (seed verdict "outwards", resp. "inwards") returns these flips, resp. the complementary ones
example : inwardsMask (fun _ => false) [(0, 1, 2), (0, 1, 3), (0, 2, 3), (1, 2, 3)] = [false, true, false, true] := by decide
example : inwardsMask (fun _ => true) [(0, 1, 2), (0, 1, 3), (0, 2, 3), (1, 2, 3)] = [true, false, true, false] := by decide
example : fixOrientation (fun _ => false) [(0, 1, 2), (0, 1, 3), (0, 2, 3), (1, 2, 3)] = [(0, 1, 2), (0, 3, 1), (0, 2, 3), (1, 3, 2)] := by decide
-- two tetrahedra touching in vertex 0: a second seed is needed
example : inwardsMask (fun idx => idx.length == 4) [(0, 1, 2), (0, 1, 3), (0, 2, 3), (1, 2, 3), (0, 4, 5), (0, 4, 6), (0, 5, 6), (4, 5, 6)]
    = [false, true, false, true, true, false, true, false] := by decide
-- on the projective plane the returned flips are not consistent
example : conflict rp2 (inwardsMask (fun _ => false) rp2) = true := by decide

/-! ### the ray test behind the seed verdict and the inside/outside decision -/

/-- C16 / C02 (`mask_inside_trimesh`): shifting every vertex of the mesh and the observer by the same vector `d` does
not change the inside/outside verdict — for every list of faces and every observer.  The bounding box, the mesh size
and the start point of the test ray move with the mesh, and after the division by the mesh size the ray test only uses
differences of positions (facet edges, observer minus reference vertex, vertices minus ray start). -/
theorem mask_inside_trimesh_translation_invariant (d : V3 ℝ) (faces : List (Kern.Tri ℝ)) (x : V3 ℝ) :
    Kern.maskInsideTrimesh (faces.map (Kern.triShift d)) (x + d) = Kern.maskInsideTrimesh faces x :=
  Kern.maskInsideTrimesh_shift d faces x

/-- C16 (`is_facet_inwards`, the seed of `get_inwards_mask`): the inwards/outwards verdict of a facet does not depend
on where the mesh is placed. -/
theorem is_facet_inwards_translation_invariant (d : V3 ℝ) (face : Kern.Tri ℝ) (faces : List (Kern.Tri ℝ)) :
    Kern.isFacetInwards (Kern.triShift d face) (faces.map (Kern.triShift d)) = Kern.isFacetInwards face faces :=
  Kern.isFacetInwards_shift d face faces

/-- C16 (`mask_inside_trimesh`): the inside/outside verdict does not depend on the order in which the faces are listed —
for every list of faces, closed or not, and every observer (bounding box, mesh size and ray start are order-free
reductions; the ray test counts crossings and asks for any touch). -/
theorem mask_inside_trimesh_face_order_invariant {f1 f2 : List (Kern.Tri ℝ)} (hp : f1.Perm f2) (x : V3 ℝ) :
    Kern.maskInsideTrimesh f1 x = Kern.maskInsideTrimesh f2 x :=
  Kern.maskInsideTrimesh_perm hp x

-- non-vacuity: the unit tetrahedron moved by (5, −3, 2); the observer (1/4,1/4,1/4) + (5,−3,2) is found inside
example : Kern.maskInsideTrimesh (Kern.unitTetra.map (Kern.triShift ⟨5, -3, 2⟩))
    ((⟨1 / 4, 1 / 4, 1 / 4⟩ : V3 ℝ) + ⟨5, -3, 2⟩) = true := by
  rw [mask_inside_trimesh_translation_invariant]; exact Kern.unitTetra_quarter_inside
-- … and with the faces listed in reverse order
example : Kern.maskInsideTrimesh Kern.unitTetra.reverse ⟨1 / 4, 1 / 4, 1 / 4⟩ = true := by
  rw [mask_inside_trimesh_face_order_invariant (List.reverse_perm _)]; exact Kern.unitTetra_quarter_inside

/-- C16 / C02, `…_partial` (TriangularMesh made of ONE tetrahedron with outward faces, `v0 v1 v2 v3` right-handed): every
observer strictly inside (all four barycentric coordinates positive — the Tetrahedron class's `point_inside` then says
inside as well) is found INSIDE by `mask_inside_trimesh`, provided its test ray does not come within the pass-through
tolerance of an edge (`RayGeneric`: none of the three signed volumes per face, in mesh-size units, is below `1e-12` in
absolute value — the code's own `pass_through_boundary` is false for every face).  Proof: the observer passes the
bounding-box pre-filter; the start point lies outside the box, so one of its barycentric coordinates is negative; in
barycentric terms face `k` counts as crossed iff `σ_k/λ_k` (start over observer) is non-positive and the strict minimum
of the four ratios, which holds for exactly one `k`: the parity is odd.
/- FULL: `maskInsideTrimesh = tetraInside` away from the faces.  Missing: observers outside (even number of crossings and
   no touch).  The hypothesis `RayGeneric` cannot be dropped: `ray_through_edge_is_not_generic` /
   C02.`trimesh_ray_test_misses_interior_point`. -/ -/
theorem tetra_interior_found_by_ray_test_partial (v0 v1 v2 v3 x : V3 ℝ) (hd : 0 < Kern.tdet v0 v1 v2 v3)
    (hx : ∀ k, 0 < Kern.bary v0 v1 v2 v3 x k) (hgen : Kern.RayGeneric (Kern.tetraFaces v0 v1 v2 v3) x) :
    Kern.maskInsideTrimesh (Kern.tetraFaces v0 v1 v2 v3) x = true ∧ Kern.tetraInside v0 v1 v2 v3 x = true :=
  ⟨Kern.maskInsideTrimesh_tetra_inside v0 v1 v2 v3 x hd hx hgen, Kern.tetraInside_of_bary_pos v0 v1 v2 v3 x hd hx⟩

-- non-vacuity: the unit tetrahedron and the observer (1/4, 1/4, 1/4) meet all three hypotheses
example : 0 < Kern.tdet (⟨0, 0, 0⟩ : V3 ℝ) ⟨1, 0, 0⟩ ⟨0, 1, 0⟩ ⟨0, 0, 1⟩ ∧
    (∀ k, 0 < Kern.bary (⟨0, 0, 0⟩ : V3 ℝ) ⟨1, 0, 0⟩ ⟨0, 1, 0⟩ ⟨0, 0, 1⟩ ⟨1 / 4, 1 / 4, 1 / 4⟩ k) ∧
    Kern.RayGeneric (Kern.tetraFaces (⟨0, 0, 0⟩ : V3 ℝ) ⟨1, 0, 0⟩ ⟨0, 1, 0⟩ ⟨0, 0, 1⟩) ⟨1 / 4, 1 / 4, 1 / 4⟩ := by
  refine ⟨by simp [Kern.tdet, Kern.det3], ?_, Kern.unitTetra_quarter_generic⟩
  intro k
  fin_cases k <;> (simp [Kern.bary, Kern.tdet, Kern.det3]; try norm_num)

/-- the genericity hypothesis of `tetra_interior_found_by_ray_test_partial` is necessary: the observer
(0.120012345, 0.059923456, 0.574932109) is strictly inside the unit tetrahedron, its test ray passes through the edge
(0,0,0)–(0,0,1), and `mask_inside_trimesh` answers "outside" (reproduced on the real code) -/
theorem ray_through_edge_is_not_generic :
    (∀ k, 0 < Kern.bary (⟨0, 0, 0⟩ : V3 ℝ) ⟨1, 0, 0⟩ ⟨0, 1, 0⟩ ⟨0, 0, 1⟩
      ⟨120012345 / 1000000000, 59923456 / 1000000000, 574932109 / 1000000000⟩ k) ∧
    ¬ Kern.RayGeneric Kern.unitTetra ⟨120012345 / 1000000000, 59923456 / 1000000000, 574932109 / 1000000000⟩ ∧
    Kern.maskInsideTrimesh Kern.unitTetra ⟨120012345 / 1000000000, 59923456 / 1000000000, 574932109 / 1000000000⟩ = false := by
  have hb : ∀ k, 0 < Kern.bary (⟨0, 0, 0⟩ : V3 ℝ) ⟨1, 0, 0⟩ ⟨0, 1, 0⟩ ⟨0, 0, 1⟩
      ⟨120012345 / 1000000000, 59923456 / 1000000000, 574932109 / 1000000000⟩ k := by
    intro k
    fin_cases k <;> (simp [Kern.bary, Kern.tdet, Kern.det3]; try norm_num)
  refine ⟨hb, ?_, Kern.unitTetra_edge_ray_outside⟩
  intro hgen
  have h := (tetra_interior_found_by_ray_test_partial _ _ _ _ _ (by simp [Kern.tdet, Kern.det3]) hb
    (Kern.unitTetra_eq ▸ hgen)).1
  rw [← Kern.unitTetra_eq, Kern.unitTetra_edge_ray_outside] at h
  exact Bool.false_ne_true h

/-! ### `check_selfintersecting`: `segments_intersect_facets` and `get_intersecting_triangles` after the repair
(Model/MeshIntersect.lean, exact arithmetic: rounding function `id`) -/

open Kern in
/-- C16 (`segments_intersect_facets`, soundness): for any tolerance `eps ≥ 0` a reported (segment, facet) pair has a common
point — no false "self-intersecting" verdict comes from this primitive in exact arithmetic.  (The code requires `eps > 0`.) -/
theorem segfacet_sound (eps : ℝ) (heps : 0 ≤ eps) (s0 s1 : V3 ℝ) (t : Kern.Tri ℝ)
    (h : Kern.segFacet id eps s0 s1 t = true) : ∃ p, Kern.InSegment s0 s1 p ∧ Kern.InTriangle t p :=
  Kern.segFacet_sound_closed heps h

/-- … and the common point can be taken strictly inside the segment (in the closed facet: crossings through an edge or a
corner of the facet count since the repair) -/
theorem segfacet_sound_open_segment (eps : ℝ) (heps : 0 ≤ eps) (s0 s1 : V3 ℝ) (t : Kern.Tri ℝ)
    (h : Kern.segFacet id eps s0 s1 t = true) : ∃ p, Kern.InOpenSegment s0 s1 p ∧ Kern.InTriangle t p :=
  Kern.segFacet_sound heps h

-- non-vacuity: the segment (1/4,1/4,±1) through the facet (0,0,0),(1,0,0),(0,1,0) is reported with the default eps = 1e-6
example : ∃ p, Kern.InSegment Kern.witS0 Kern.witS1 p ∧ Kern.InTriangle Kern.witT p :=
  segfacet_sound (1 / 1000000) (by norm_num) _ _ _ Kern.wit_segFacet

/-- C16 (`segments_intersect_facets`, completeness): if the segment has a point in common with the CLOSED facet — interior,
edge or corner — and both end points are farther than `eps` from the facet's plane (as the code measures it), the pair is
reported -/
theorem segfacet_complete_closed (eps : ℝ) (heps : 0 ≤ eps) (s0 s1 : V3 ℝ) (t : Kern.Tri ℝ)
    (h0 : eps < |Kern.planeDist id t s0|) (h1 : eps < |Kern.planeDist id t s1|)
    (hp : ∃ p, Kern.InSegment s0 s1 p ∧ Kern.InTriangle t p) : Kern.segFacet id eps s0 s1 t = true :=
  (Kern.segFacet_iff_closed heps s0 s1 t).mpr ⟨h0, h1, hp⟩

/-- the special case the code before the repair already had: proper crossings (open segment, relative interior of the facet) -/
theorem segfacet_complete_proper (eps : ℝ) (heps : 0 ≤ eps) (s0 s1 : V3 ℝ) (t : Kern.Tri ℝ)
    (h0 : eps < |Kern.planeDist id t s0|) (h1 : eps < |Kern.planeDist id t s1|)
    (hp : ∃ p, Kern.InOpenSegment s0 s1 p ∧ Kern.InTriInterior t p) : Kern.segFacet id eps s0 s1 t = true := by
  obtain ⟨p, a, b⟩ := hp
  exact segfacet_complete_closed eps heps s0 s1 t h0 h1 ⟨p, a.closed, b.closed⟩

-- non-vacuity: the hypotheses hold for the witness segment (plane distances ±1, crossing point (1/4,1/4,0) = t0/2 + t1/4 + t2/4)
example : (1 / 1000000 : ℝ) < |Kern.planeDist id Kern.witT Kern.witS0| ∧ (1 / 1000000 : ℝ) < |Kern.planeDist id Kern.witT Kern.witS1| ∧
    ∃ p, Kern.InSegment Kern.witS0 Kern.witS1 p ∧ Kern.InTriangle Kern.witT p := by
  refine ⟨by rw [Kern.wit_g0]; norm_num, by rw [Kern.wit_g1]; norm_num, ?_⟩
  exact segfacet_sound (1 / 1000000) (by norm_num) _ _ _ Kern.wit_segFacet

/-- C16 (`segments_intersect_facets`): **what the repaired primitive decides, exactly** — the pair is reported iff both end
points are farther than `eps` from the facet's plane and the segment meets the closed facet -/
theorem segfacet_iff_closed (eps : ℝ) (heps : 0 ≤ eps) (s0 s1 : V3 ℝ) (t : Kern.Tri ℝ) :
    Kern.segFacet id eps s0 s1 t = true ↔
      eps < |Kern.planeDist id t s0| ∧ eps < |Kern.planeDist id t s1| ∧ ∃ p, Kern.InSegment s0 s1 p ∧ Kern.InTriangle t p :=
  Kern.segFacet_iff_closed heps s0 s1 t

-- non-vacuity: both sides hold for the witness
example : Kern.segFacet id (1 / 1000000) Kern.witS0 Kern.witS1 Kern.witT = true ∧
    ((1 / 1000000 : ℝ) < |Kern.planeDist id Kern.witT Kern.witS0| ∧ (1 / 1000000 : ℝ) < |Kern.planeDist id Kern.witT Kern.witS1| ∧
      ∃ p, Kern.InSegment Kern.witS0 Kern.witS1 p ∧ Kern.InTriangle Kern.witT p) :=
  ⟨Kern.wit_segFacet, (segfacet_iff_closed _ (by norm_num) _ _ _).mp Kern.wit_segFacet⟩

/-- the segment through the midpoint of an edge of the facet — for which the code before the repair reported nothing for any
`eps` (one signed volume is exactly 0 and `np.sign` made 0 different from ±1; that is how the Stella octangula and a cube united
with its copy shifted by half the space diagonal passed `check_selfintersecting`) — is reported with the default `eps` -/
theorem segfacet_reports_edge_crossing :
    Kern.segFacet id (1 / 1000000) (⟨1 / 2, 0, 1⟩ : V3 ℝ) ⟨1 / 2, 0, -1⟩ (⟨0, 0, 0⟩, ⟨1, 0, 0⟩, ⟨0, 1, 0⟩) = true :=
  Kern.segFacet_edge_crossing (by norm_num) (by norm_num)

/-- the mask `touch` of the repaired code (an end point of the segment has the coordinates of a corner of the facet) never
changes a verdict in exact arithmetic: such an end point has plane distance 0.  (In float32 that distance is rounding noise
that exceeds `eps` on needle-shaped facets; without the mask every such neighbour would be reported once zero volumes count.) -/
theorem segfacet_corner_mask_redundant (eps : ℝ) (heps : 0 ≤ eps) (s0 s1 : V3 ℝ) (t : Kern.Tri ℝ)
    (h0 : eps < |Kern.planeDist id t s0|) (h1 : eps < |Kern.planeDist id t s1|) : Kern.touchesCorner s0 s1 t = false :=
  Kern.touchesCorner_false_of_far heps h0 h1

example : Kern.touchesCorner Kern.witS0 Kern.witS1 Kern.witT = false :=
  segfacet_corner_mask_redundant (1 / 1000000) (by norm_num) _ _ _ (by rw [Kern.wit_g0]; norm_num) (by rw [Kern.wit_g1]; norm_num)

/- FULL: `segfacet_complete` — every segment that has a point in common with the closed facet is reported.  False: -/
/-- the exclusion of `segfacet_complete_closed` is necessary: a segment that ENDS in the relative interior of the facet meets
it and is reported for NO `eps ≥ 0`.  On the real code: an octahedron whose equator lies in a face of a box (its lower half
inside the box) passes `check_selfintersecting` -/
theorem segfacet_misses_end_in_facet :
    ∃ (s0 s1 : V3 ℝ) (t : Kern.Tri ℝ) (p : V3 ℝ), Kern.InSegment s0 s1 p ∧ Kern.InTriInterior t p ∧
      ∀ eps : ℝ, 0 ≤ eps → Kern.segFacet id eps s0 s1 t = false :=
  Kern.segFacet_misses_end_in_facet

/-- C16 (`get_intersecting_triangles`): translating all vertices does not change the report (index triples in range) -/
theorem selfint_translation_invariant (d : V3 ℝ) (r : Option ℝ) (rFactor eps : ℝ) (verts : List (V3 ℝ))
    (tris : List (Nat × Nat × Nat)) (h : Kern.TrisInRange verts.length tris) :
    Kern.getIntersectingTriangles id r rFactor eps (verts.map (· + d)) tris
      = Kern.getIntersectingTriangles id r rFactor eps verts tris :=
  Kern.getIntersectingTriangles_shift d r rFactor eps verts tris h

example : 0 ∈ Kern.getIntersectingTriangles id (some 10) 2 (1 / 1000000) (Kern.witVerts.map (· + (⟨7, -2, 3⟩ : V3 ℝ))) Kern.witTris := by
  rw [selfint_translation_invariant _ _ _ _ _ _ Kern.witTris_inRange]; exact Kern.wit_mesh_reported.1

/-- C16 (`get_intersecting_triangles`): reading the triangle list in the order σ 0, σ 1, … reindexes the report by σ -/
theorem selfint_face_order_invariant (r : Option ℝ) (rFactor eps : ℝ) (verts : List (V3 ℝ)) (tris : List (Nat × Nat × Nat))
    (σ : Equiv.Perm ℕ) (hσ : ∀ i, σ i < tris.length ↔ i < tris.length) (k : ℕ) :
    k ∈ Kern.getIntersectingTriangles id r rFactor eps verts (Kern.permuteTris σ tris)
      ↔ σ k ∈ Kern.getIntersectingTriangles id r rFactor eps verts tris :=
  Kern.getIntersectingTriangles_perm r rFactor eps verts tris σ hσ k

/-- … and the verdict of `TriangularMesh.check_selfintersecting` (defaults r=None, r_factor=2.0, eps=1e-6) is the same -/
theorem selfint_verdict_face_order_invariant (verts : List (V3 ℝ)) (tris : List (Nat × Nat × Nat))
    (σ : Equiv.Perm ℕ) (hσ : ∀ i, σ i < tris.length ↔ i < tris.length) :
    Kern.selfIntersecting id verts (Kern.permuteTris σ tris) = Kern.selfIntersecting id verts tris :=
  Kern.selfIntersecting_perm verts tris σ hσ

-- non-vacuity: the two faces of the witness mesh swapped; face 1 of the original is face 0 of the swapped list
example : 0 ∈ Kern.getIntersectingTriangles id (some 10) 2 (1 / 1000000) Kern.witVerts
    (Kern.permuteTris (Equiv.swap 0 1) Kern.witTris) := by
  rw [selfint_face_order_invariant _ _ _ _ _ (Equiv.swap 0 1)]
  · rw [Equiv.swap_apply_left]; exact Kern.wit_mesh_reported.2
  · intro i
    simp only [Kern.witTris, List.length_cons, List.length_nil]
    rcases Nat.lt_or_ge i 2 with h | h
    · interval_cases i <;> simp
    · rw [Equiv.swap_apply_of_ne_of_ne (by omega) (by omega)]

/-- C12 / C16 (`get_intersecting_triangles`, **unit invariance, full strength**): all lengths — the vertices and, when given,
the query radius — multiplied by the same factor `l > 0`, with the code's `eps` UNCHANGED, give the same report.  (Before the
repair this needed `eps` multiplied by `l` as well.) -/
theorem selfint_scale_invariant (l : ℝ) (hl : 0 < l) (r : Option ℝ) (rFactor eps : ℝ) (verts : List (V3 ℝ))
    (tris : List (Nat × Nat × Nat)) (h : Kern.TrisInRange verts.length tris) :
    Kern.getIntersectingTriangles id (r.map (l * ·)) rFactor eps (verts.map (Kern.vs l)) tris
      = Kern.getIntersectingTriangles id r rFactor eps verts tris :=
  Kern.getIntersectingTriangles_scale l hl r rFactor eps verts tris h

-- non-vacuity: the witness mesh in units a million times smaller (1e-6 of the size), eps = 1e-6 as before: still reported
example : 1 ∈ Kern.getIntersectingTriangles id (some (1 / 1000000 * 10)) 2 (1 / 1000000) (Kern.witVerts.map (Kern.vs (1 / 1000000))) Kern.witTris := by
  have h := selfint_scale_invariant (1 / 1000000) (by norm_num) (some 10) 2 (1 / 1000000) _ _ Kern.witTris_inRange
  simp only [Option.map_some] at h
  rw [h]; exact Kern.wit_mesh_reported.2

/-- … and the verdict of `TriangularMesh.check_selfintersecting` with it -/
theorem selfint_verdict_scale_invariant (l : ℝ) (hl : 0 < l) (verts : List (V3 ℝ)) (tris : List (Nat × Nat × Nat))
    (h : Kern.TrisInRange verts.length tris) :
    Kern.selfIntersecting id (verts.map (Kern.vs l)) tris = Kern.selfIntersecting id verts tris := by
  have := selfint_scale_invariant l hl none (Kern.n 2) (Kern.n 1 / Kern.n 1000000) verts tris h
  simp only [Option.map_none] at this
  unfold Kern.selfIntersecting Kern.selfIntersectingFaces
  rw [this]

/-- C12 / C16: how the repair achieves it — on a mesh of positive size the repaired function is the function as it was
before the normalisation (`getIntersectingTrianglesCore`: float32 cast, centroids, ball query, edge tests on the vertices
as given) called with the tolerance `size · eps`: `eps` is a fraction of the mesh size -/
theorem selfint_eps_is_relative (r : Option ℝ) (rFactor eps : ℝ) (verts : List (V3 ℝ)) (tris : List (Nat × Nat × Nat))
    (h : Kern.TrisInRange verts.length tris) (hs : 0 < Kern.vertsSize verts) :
    Kern.getIntersectingTriangles id r rFactor eps verts tris
      = Kern.getIntersectingTrianglesCore id r rFactor (Kern.vertsSize verts * eps) verts tris :=
  Kern.getIntersectingTriangles_eq_core r rFactor eps verts tris h hs

-- non-vacuity: the witness mesh has size 5
example : 0 < Kern.vertsSize Kern.witVerts := by rw [Kern.witVerts_size]; norm_num

/-- a mesh collapsed to a point (size 0, the case the code does not normalise): nothing is reported -/
theorem selfint_point_mesh_clean (r : Option ℝ) (rFactor eps : ℝ) (verts : List (V3 ℝ)) (tris : List (Nat × Nat × Nat))
    (h : Kern.TrisInRange verts.length tris) (hs : ¬ 0 < Kern.vertsSize verts) :
    Kern.getIntersectingTriangles id r rFactor eps verts tris = [] := by
  simp only [Kern.getIntersectingTriangles, Kern.normaliseVerts_nonpos r verts hs]
  exact Kern.getIntersectingTrianglesCore_degenerate r rFactor eps verts tris h hs

example : ¬ 0 < Kern.vertsSize ([⟨1, 2, 3⟩, ⟨1, 2, 3⟩] : List (V3 ℝ)) := by
  simp [Kern.vertsSize, Kern.vertsMax, Kern.vertsMin, Kern.vMax, Kern.vMin, Kern.npMax_real, Kern.npMin_real]

/-- C16 (`get_intersecting_triangles`, the query radius): two facets of the mesh that have a point in common have their
centroids within 2 × the largest corner–centroid distance — the default radius (`r_factor = 2.0`) of the repaired code, so the
k-d tree offers every intersecting pair to the edge tests.  (With the former 1.5 it did not: two spikes, two needles.) -/
theorem selfint_radius_covers (facets : List (Kern.Tri ℝ)) (t1 t2 : Kern.Tri ℝ) (h1 : t1 ∈ facets) (h2 : t2 ∈ facets) (p : V3 ℝ)
    (hp1 : Kern.InTriangle t1 p) (hp2 : Kern.InTriangle t2 p) :
    Kern.withinBall (2 * Kern.maxCornerDist id facets) (Kern.facetCentre id t2) (Kern.facetCentre id t1) = true :=
  Kern.withinBall_of_common_point facets t1 t2 h1 h2 p hp1 hp2

/-- C16 (`get_intersecting_triangles`, default radius): no crossing found by the primitive is lost to the ball query — if an
edge of facet `i` meets the closed facet `j ≠ i` with both end points farther than `eps` from its plane (`edgesHit`, by
`segfacet_iff_closed`), both facets are in the report -/
theorem selfint_reports_crossing_pair (eps : ℝ) (heps : 0 ≤ eps) (facets : List (Kern.Tri ℝ)) (i j : ℕ) (hi : i < facets.length)
    (hj : j < facets.length) (hne : i ≠ j)
    (hit : Kern.edgesHit id eps (facets.getD i Kern.zeroTri) (facets.getD j Kern.zeroTri) = true) :
    i ∈ Kern.intersectingFacets id none 2 eps facets ∧ j ∈ Kern.intersectingFacets id none 2 eps facets :=
  Kern.intersectingFacets_complete heps facets i j hi hj hne hit

-- non-vacuity: the two facets of the witness mesh, no radius given
example : 1 ∈ Kern.intersectingFacets id none 2 (1 / 1000000) [Kern.witT, (Kern.witS0, Kern.witS1, (⟨5, 5, 0⟩ : V3 ℝ))] ∧
    0 ∈ Kern.intersectingFacets id none 2 (1 / 1000000) [Kern.witT, (Kern.witS0, Kern.witS1, (⟨5, 5, 0⟩ : V3 ℝ))] := by
  apply selfint_reports_crossing_pair _ (by norm_num) _ 1 0 (by simp) (by simp) (by norm_num)
  simp only [Kern.edgesHit, List.getD_cons_succ, List.getD_cons_zero, Kern.wit_segFacet, if_true]
  simp

/-- the primitive `segments_intersect_facets` on its own keeps its absolute `eps` (only `get_intersecting_triangles`
normalises): the segment (1/4,1/4,±1) through the facet (0,0,0),(1,0,0),(0,1,0) is reported with `eps = 1e-6`; the same
configuration at 1e-7 of the size is not -/
theorem segfacet_not_scale_invariant :
    ∃ (l : ℝ) (s0 s1 : V3 ℝ) (t : Kern.Tri ℝ), 0 < l ∧ Kern.segFacet id (1 / 1000000) s0 s1 t = true ∧
      Kern.segFacet id (1 / 1000000) (Kern.vs l s0) (Kern.vs l s1) (Kern.triScale l t) = false :=
  ⟨1 / 10000000, Kern.witS0, Kern.witS1, Kern.witT, by norm_num, Kern.wit_segFacet, Kern.wit_segFacet_small⟩

end MagpyVerif.C16

/-! ### added by the audit: (A) rewinding invariance of the open-edge report for faces INSIDE a list (the header promised it,
`face_edges_flip_rotate` is about a one-face list); (C) an independent reading of the edge count (number of faces containing
both end points) — `open_iff_edge_count_ne_2` itself unfolds the model; (E) invariance under vertex renumbering; (B) termination of
the orientation loop WITHOUT the orientability hypothesis; (D) non-vacuity examples -/

namespace MagpyVerif.C16
open MagpyVerif.Mesh

/-- splitting off the first face -/
theorem edgesOf_cons_perm (f : Face) (fs : List Face) : (edgesOf (f :: fs)).Perm (edgesOf [f] ++ edgesOf fs) := by
  apply List.perm_iff_count.mpr
  intro e
  simp only [edgesOf, List.map_cons, List.map_nil, List.count_append, List.count_cons, List.count_nil]
  omega

theorem edgesOf_winding {f g : Face} (h : g ∈ windings f) : (edgesOf [g]).Perm (edgesOf [f]) := by
  obtain ⟨a, b, c⟩ := f
  simp only [windings, List.mem_cons, List.not_mem_nil, or_false] at h
  apply List.perm_iff_count.mpr
  intro e
  rcases h with rfl | rfl | rfl | rfl | rfl | rfl <;>
    simp only [edgesOf, List.map_cons, List.map_nil, List.count_append, List.count_cons, List.count_nil,
      sortPair_comm c b, sortPair_comm c a, sortPair_comm b a] <;> omega

theorem edgesOf_rewind_perm {f1 f2 : List Face} (hw : List.Forall₂ (fun f g => g ∈ windings f) f1 f2) :
    (edgesOf f2).Perm (edgesOf f1) := by
  induction hw with
  | nil => exact List.Perm.refl _
  | cons h _ ih =>
    exact (edgesOf_cons_perm _ _).trans (((edgesOf_winding h).append ih).trans (edgesOf_cons_perm _ _).symm)

/-- the open-edge report is the same set after any reordering of the faces combined with rotating / flipping the
winding of any of the faces -/
theorem open_invariant_under_rewinding {f1 f2 f3 : List Face} (hp : f1.Perm f2)
    (hw : List.Forall₂ (fun f g => g ∈ windings f) f2 f3) (e : Edge) :
    e ∈ openEdges f1 ↔ e ∈ openEdges f3 := by
  rw [open_invariant_under_face_permutation hp, open_iff_edge_count_ne_2, open_iff_edge_count_ne_2]
  have h := edgesOf_rewind_perm hw
  rw [h.mem_iff, h.count_eq]

example : (2, 3) ∈ openEdges [(3, 1, 2), (1, 0, 2)] ↔ (2, 3) ∈ openEdges [(0, 1, 2), (1, 2, 3)] :=
  open_invariant_under_rewinding (List.Perm.swap _ _ []) (.cons (by decide) (.cons (by decide) .nil)) _

end MagpyVerif.C16

namespace MagpyVerif.C16
open MagpyVerif.Mesh

/-- a face with three distinct indices contributes 1 to the count of the undirected edge {a, b} (a < b) iff it contains both -/
theorem count_edge_single (x y z a b : Nat) (hxy : x ≠ y) (hyz : y ≠ z) (hxz : x ≠ z) (hab : a < b) :
    (edgesOf [(x, y, z)]).count (a, b) = if a ∈ verts (x, y, z) ∧ b ∈ verts (x, y, z) then 1 else 0 := by
  simp only [edgesOf, List.map_cons, List.map_nil, List.cons_append, List.nil_append, verts,
    List.count_cons, List.count_nil, List.mem_cons, List.not_mem_nil, or_false, beq_iff_eq, sortPair]
  by_cases h1 : x ≤ y <;> by_cases h2 : y ≤ z <;> by_cases h3 : x ≤ z <;>
    simp only [h1, h2, h3, if_true, if_false, Prod.mk.injEq] <;> split_ifs <;> omega

/-- independent reading of the count used by `get_open_edges`: on faces with three distinct indices, the number of
occurrences of `(a, b)`, `a < b`, in the sorted edge list is the number of faces that contain both `a` and `b` -/
theorem edge_count_eq_faces_containing (faces : List Face)
    (hnd : ∀ f ∈ faces, f.1 ≠ f.2.1 ∧ f.2.1 ≠ f.2.2 ∧ f.1 ≠ f.2.2) (a b : Nat) (hab : a < b) :
    (edgesOf faces).count (a, b) = (faces.filter fun f => decide (a ∈ verts f ∧ b ∈ verts f)).length := by
  induction faces with
  | nil => simp [edgesOf]
  | cons f fs ih =>
    obtain ⟨x, y, z⟩ := f
    have h1 := hnd (x, y, z) List.mem_cons_self
    rw [(edgesOf_cons_perm _ fs).count_eq, List.count_append, ih (fun g hg => hnd g (List.mem_cons_of_mem _ hg)),
      count_edge_single x y z a b h1.1 h1.2.1 h1.2.2 hab, List.filter_cons]
    by_cases hc : a ∈ verts (x, y, z) ∧ b ∈ verts (x, y, z)
    · simp only [hc, and_self, if_true, decide_true, List.length_cons]; omega
    · simp only [hc, if_false, decide_false]; simp

/-- closed ⇔ every pair of vertices that lies on a common face lies on exactly two faces (faces with distinct indices) -/
example : (edgesOf [(0, 1, 2), (0, 1, 3), (0, 2, 3), (1, 2, 3)]).count (1, 3) = 2 := by decide
end MagpyVerif.C16

namespace MagpyVerif.C16
open MagpyVerif.Mesh

/-- the renumbered (and re-sorted) edge -/
def mapEdge (σ : Nat → Nat) (e : Edge) : Edge := sortPair (σ e.1) (σ e.2)

theorem mapEdge_sortPair (σ : Nat → Nat) (a b : Nat) : mapEdge σ (sortPair a b) = sortPair (σ a) (σ b) := by
  unfold mapEdge
  by_cases h : a ≤ b
  · simp [sortPair, h]
  · simp only [sortPair, h, if_false]; exact sortPair_comm _ _

theorem edgesOf_map (σ : Nat → Nat) (faces : List Face) :
    edgesOf (faces.map (mapFace σ)) = (edgesOf faces).map (mapEdge σ) := by
  have key : ∀ (p q : Face → Nat), (∀ f, p (mapFace σ f) = σ (p f)) → (∀ f, q (mapFace σ f) = σ (q f)) →
      (faces.map (mapFace σ)).map (fun f => sortPair (p f) (q f)) = (faces.map (fun f => sortPair (p f) (q f))).map (mapEdge σ) := by
    intro p q hp hq
    rw [List.map_map, List.map_map]
    apply List.map_congr_left
    intro f _
    simp only [Function.comp, hp, hq, mapEdge_sortPair]
  simp only [edgesOf, List.map_append]
  rw [key (·.1) (·.2.1) (fun _ => rfl) (fun _ => rfl), key (·.2.1) (·.2.2) (fun _ => rfl) (fun _ => rfl),
    key (·.1) (·.2.2) (fun _ => rfl) (fun _ => rfl)]

theorem sorted_of_mem_edgesOf {faces : List Face} {e : Edge} (h : e ∈ edgesOf faces) : e.1 ≤ e.2 := by
  simp only [edgesOf, List.mem_append, List.mem_map] at h
  have key : ∀ a b : Nat, (sortPair a b).1 ≤ (sortPair a b).2 := by
    intro a b; unfold sortPair; split <;> simp <;> omega
  rcases h with (⟨f, _, rfl⟩ | ⟨f, _, rfl⟩) | ⟨f, _, rfl⟩ <;> exact key _ _

theorem mapEdge_inj_sorted {σ : Nat → Nat} (hσ : Function.Injective σ) {e e' : Edge} (h1 : e.1 ≤ e.2) (h2 : e'.1 ≤ e'.2)
    (h : mapEdge σ e = mapEdge σ e') : e = e' := by
  obtain ⟨a, b⟩ := e
  obtain ⟨c, d⟩ := e'
  simp only [mapEdge, sortPair] at h
  simp only at h1 h2
  split_ifs at h <;> simp only [Prod.mk.injEq] at h <;> obtain ⟨p, q⟩ := h <;>
    have p' := hσ p <;> have q' := hσ q <;> (first | (subst p'; subst q'; rfl) | (simp only [Prod.mk.injEq]; omega))

theorem count_mapEdge {σ : Nat → Nat} (hσ : Function.Injective σ) (faces : List Face) {e : Edge} (he : e.1 ≤ e.2) :
    ((edgesOf faces).map (mapEdge σ)).count (mapEdge σ e) = (edgesOf faces).count e := by
  rw [List.count_eq_countP, List.countP_map, List.count_eq_countP]
  apply List.countP_congr
  intro x hx
  simp only [Function.comp, beq_iff_eq]
  exact ⟨fun h => mapEdge_inj_sorted hσ (sorted_of_mem_edgesOf hx) he h, fun h => by rw [h]⟩

/-- `check_open` does not depend on the numbering of the vertices: an injective renumbering maps the open edges onto the
open edges (re-sorted), in particular closed meshes stay closed -/
theorem open_invariant_under_renumbering {σ : Nat → Nat} (hσ : Function.Injective σ) (faces : List Face) (e : Edge)
    (he : e.1 ≤ e.2) : mapEdge σ e ∈ openEdges (faces.map (mapFace σ)) ↔ e ∈ openEdges faces := by
  rw [open_iff_edge_count_ne_2, open_iff_edge_count_ne_2, edgesOf_map, count_mapEdge hσ faces he]
  constructor
  · rintro ⟨hm, hc⟩
    obtain ⟨x, hx, hxe⟩ := List.mem_map.mp hm
    have := mapEdge_inj_sorted hσ (sorted_of_mem_edgesOf hx) he hxe
    exact ⟨this ▸ hx, hc⟩
  · rintro ⟨hm, hc⟩
    exact ⟨List.mem_map_of_mem hm, hc⟩

theorem closed_invariant_under_renumbering {σ : Nat → Nat} (hσ : Function.Injective σ) (faces : List Face) :
    openEdges (faces.map (mapFace σ)) = [] ↔ openEdges faces = [] := by
  rw [closed_iff, closed_iff, edgesOf_map]
  constructor
  · intro h e he
    rw [← count_mapEdge hσ faces (sorted_of_mem_edgesOf he)]
    exact h _ (List.mem_map_of_mem he)
  · intro h e' he'
    obtain ⟨e, he, rfl⟩ := List.mem_map.mp he'
    rw [count_mapEdge hσ faces (sorted_of_mem_edgesOf he)]
    exact h e he

-- non-vacuity: the open triangle fan renumbered by v ↦ 9 − v (order-reversing) keeps its three open edges
example : openEdges (([(0, 1, 2), (0, 1, 3), (0, 2, 3)] : List Face).map (mapFace (9 - ·))) = [(7, 8), (6, 8), (6, 7)] := by decide
end MagpyVerif.C16

namespace MagpyVerif.C16
open MagpyVerif.Mesh

/-- every pass of the `while indices:` loop lowers `2·len(indices) + [any_connected]` — for ANY face list, no orientability -/
theorem orientStep_measure_lt (seed : List Nat → Bool) (tris : List Face) (st : OrientSt) (hne : st.indices ≠ []) :
    Mesh.measure (orientStep seed tris st) < Mesh.measure st := by
  obtain ⟨i0, rest, hidx⟩ := List.exists_cons_of_ne_nil hne
  cases hconn : st.anyConnected
  · have hstep : orientStep seed tris st = OrientSt.mk (setAt st.mask st.indices (seed st.indices)) (st.indices.erase i0)
        (symmDiff [] (dirEdges (faceAt tris i0))) true := by
      simp only [orientStep, hconn, Bool.false_eq_true, if_false, hidx, scan, List.isEmpty_nil, if_true, faceAt]
    rw [hstep]
    simp only [Mesh.measure, hconn, hidx, List.erase_cons_head, List.length_cons, if_true, Bool.false_eq_true, if_false]
    omega
  · cases hscan : scan tris st.free st.indices with
    | none =>
      have hstep : orientStep seed tris st = { st with anyConnected := false } := by
        simp only [orientStep, hconn, if_true, hscan]
      rw [hstep]
      simp only [Mesh.measure, hconn, if_true, Bool.false_eq_true, if_false]
      omega
    | some r =>
      obtain ⟨j, flip, free'⟩ := r
      have hstep : orientStep seed tris st = OrientSt.mk (if flip then toggleAt st.mask j else st.mask) (st.indices.erase j)
          free' true := by
        simp only [orientStep, hconn, if_true, hscan]
      rw [hstep]
      have hj := (scan_some hscan).1
      have hl := List.length_erase_of_mem hj
      have hpos : 0 < st.indices.length := List.length_pos_of_mem hj
      simp only [Mesh.measure, hconn, if_true, hl]
      omega

theorem orientLoop_terminates (seed : List Nat → Bool) (tris : List Face) :
    ∀ (fuel : Nat) (st : OrientSt), measure st ≤ fuel → (orientLoop seed tris fuel st).indices = [] := by
  intro fuel
  induction fuel with
  | zero =>
    intro st hm
    simp only [Mesh.measure] at hm
    simp only [orientLoop]
    exact List.eq_nil_of_length_eq_zero (by omega)
  | succ fuel ih =>
    intro st hm
    simp only [orientLoop]
    by_cases hE : st.indices.isEmpty = true
    · rw [if_pos hE]; exact List.isEmpty_iff.mp hE
    · rw [if_neg hE]
      have hne : st.indices ≠ [] := fun h0 => hE (List.isEmpty_iff.mpr h0)
      have := orientStep_measure_lt seed tris st hne
      exact ih _ (by omega)

/-- the fuel `2 * len(triangles) + 1` is sufficient for EVERY face list (orientable or not): the loop ends with `indices`
empty and more fuel gives the same state — the model returns what the unbounded Python loop returns -/
theorem orientLoop_fuel_sufficient_all (seed : List Nat → Bool) (tris : List Face) (m : Nat) (hm : 2 * tris.length + 1 ≤ m) :
    (orientLoop seed tris (2 * tris.length + 1) (orientInit tris)).indices = [] ∧
    orientLoop seed tris m (orientInit tris) = orientLoop seed tris (2 * tris.length + 1) (orientInit tris) := by
  have h := orientLoop_terminates seed tris (2 * tris.length + 1) (orientInit tris) (by simp [Mesh.measure, orientInit])
  exact ⟨h, orientLoop_fuel_irrelevant seed tris _ m _ h hm⟩

-- non-vacuity on a non-orientable mesh
example : (orientLoop (fun _ => false) rp2 (2 * rp2.length + 1) (orientInit rp2)).indices = [] :=
  (orientLoop_fuel_sufficient_all _ rp2 _ (Nat.le_refl _)).1

end MagpyVerif.C16

namespace MagpyVerif.C16
open MagpyVerif.Mesh

-- non-vacuity (renumbering): vertices shifted by 5 — two parts stay two parts
example : (subsets (([(0, 1, 2), (3, 4, 5)] : List Face).map (mapFace (· + 5))).length.succ
    (([(0, 1, 2), (3, 4, 5)] : List Face).map (mapFace (· + 5)))).length ≠ 1 := by decide
example : Function.Injective (fun v : Nat => v + 5) := fun a b h => by simpa using h
example : ¬ (subsets (([(0, 1, 2), (3, 4, 5)] : List Face).map (mapFace (· + 5))).length.succ
    (([(0, 1, 2), (3, 4, 5)] : List Face).map (mapFace (· + 5)))).length = 1 := by
  rw [connected_verdict_invariant_under_renumbering (σ := (· + 5)) (fun a b h => by simpa using h)]
  decide

-- non-vacuity (shared edge): tetrahedron with faces 1 and 3 given flipped; returned face 0 runs 0 → 1, returned face 1 runs 1 → 0
example : (1, 0) ∈ dirEdges ((fixOrientation (fun _ => false) [(0, 1, 2), (0, 1, 3), (0, 2, 3), (1, 2, 3)]).getD 1 (0, 0, 0)) :=
  shared_edge_traversed_oppositely (fun _ => false) [(0, 1, 2), (0, 1, 3), (0, 2, 3), (1, 2, 3)]
    (fun i => [false, true, false, true].getD i false) ((conflict_iff _ _).mp (by decide))
    0 1 (by decide) (by decide) (by decide) 0 1 (by decide) (Or.inr (by decide))
end MagpyVerif.C16

/-! ## "the field does not depend on the order of faces, the winding of individual faces or the numbering of vertices"

The chain that `TriangularMesh` runs is modelled in Model/MeshPipeline.lean (`meshArray` = `vertices[faces]`, `seedOf` = the
seed call `is_facet_inwards(msh[indices[0]], msh[indices])`, `fixTrimeshOrientation`, `reorientedMesh`, `facesSubsets`) and tied by
the `meshperm` stream, which compares model and real code on VARIANTS of the same mesh (faces permuted, windings rotated /
flipped, vertices renumbered). -/

namespace MagpyVerif.C16
open MagpyVerif.Mesh MagpyVerif.Kern

/-! ### (1a) order of the faces -/

theorem sum3_perm {l1 l2 : List (V3 ℝ)} (h : l1.Perm l2) : sum3 l1 = sum3 l2 := by
  unfold sum3
  exact h.foldl_eq' (fun x _ y _ z => by apply V3.ext' <;> simp <;> ring) _

/-- the sum of the triangle sheets of one row (`BHJM.reshape((n0, n1, 3)).sum(axis=1)` / the `np.split` sums) does not depend on
the order of the faces -/
theorem trimesh_sheets_face_perm (r1 r2 : MeshRow ℝ) (hf : r1.faces.Perm r2.faces) (ho : r1.obs = r2.obs) (hp : r1.pol = r2.pol) :
    meshRowSheets r1 = meshRowSheets r2 := by
  unfold meshRowSheets
  rw [ho, hp]
  exact sum3_perm (hf.map _)

/-- the ray test counts crossings: the number of crossed faces (hence its parity) and the "any face touched" flag are functions
of the MULTISET of faces -/
theorem crossing_count_face_perm (l0 l1 : V3 ℝ) {f1 f2 : List (Tri ℝ)} (hp : f1.Perm f2) :
    (f1.map (faceTest l0 l1)).countP (·.1) = (f2.map (faceTest l0 l1)).countP (·.1) ∧
    (f1.map (faceTest l0 l1)).any (·.2) = (f2.map (faceTest l0 l1)).any (·.2) :=
  ⟨(hp.map _).countP_eq _, (hp.map _).any_eq⟩

/-- **`trimesh_field_face_perm`** — `BHJM_magnet_trimesh` (all four fields; the flat kernel call, the reshape / split sums, the row
grouping loop, the inside test `mask_inside_trimesh` with its bounding box, mesh size, ray start and crossing count) gives the same
output when the faces of every row's mesh are listed in a different order.  No hypothesis on the meshes (closed or not). -/
theorem trimesh_field_face_perm [DecidableEq (List (Tri ℝ))] (f : Field) (rows1 rows2 : List (MeshRow ℝ))
    (h : List.Forall₂ (fun r1 r2 => r1.faces.Perm r2.faces ∧ r1.obs = r2.obs ∧ r1.pol = r2.pol) rows1 rows2) :
    bhjmTrimesh f (·.faces) maskInsideTrimesh rows1 = bhjmTrimesh f (·.faces) maskInsideTrimesh rows2 := by
  rw [bhjmTrimesh_rowwise, bhjmTrimesh_rowwise]
  induction h with
  | nil => rfl
  | @cons r1 r2 _ _ hr _ ih =>
    obtain ⟨hf, ho, hp⟩ := hr
    rw [List.map_cons, List.map_cons, ih]
    congr 1
    have hs := trimesh_sheets_face_perm r1 r2 hf ho hp
    have hi : maskInsideTrimesh r1.faces r1.obs = maskInsideTrimesh r2.faces r2.obs := by
      rw [ho]; exact maskInsideTrimesh_perm hf _
    cases f <;> simp only [bhjmTrimeshRow, hs, hi, hp]

-- non-vacuity: the unit tetrahedron with its faces in reverse order, observer (1/4,1/4,1/4) (inside: B = sheets + J)
example [DecidableEq (List (Tri ℝ))] (pol : V3 ℝ) :
    bhjmTrimesh .B (·.faces) maskInsideTrimesh [⟨unitTetra.reverse, ⟨1 / 4, 1 / 4, 1 / 4⟩, pol⟩] =
      bhjmTrimesh .B (·.faces) maskInsideTrimesh [⟨unitTetra, ⟨1 / 4, 1 / 4, 1 / 4⟩, pol⟩] :=
  trimesh_field_face_perm .B _ _ (.cons ⟨List.reverse_perm _, rfl, rfl⟩ .nil)

/-! ### (1b) the Triangle kernel under a relabelling of its vertices -/

/-- **`triangle_field_cyclic`** — `triangle_Bfield` (the whole closed form: normal, charge, the three edge integrals with all their
branches, the solid angle with its clamp, the zero-area mask) is unchanged when the vertices are rotated `(v0, v1, v2) → (v1, v2, v0)`:
for every triangle, polarization and observer. -/
theorem triangle_field_cyclic (v0 v1 v2 pol obs : V3 ℝ) : triangleB v1 v2 v0 pol obs = triangleB v0 v1 v2 pol obs :=
  triangleB_cyclic v0 v1 v2 pol obs

/-- **`triangle_field_flip`** — exchanging two vertices (reversing the winding) negates `triangle_Bfield`, for every triangle
(with or without area), every polarization and every observer that is not within the code's `on_edge` tolerance of one of the three
edges (`TriOffEdges`: `rho2 ≤ 1e-30·l2 ∧ a < 0 < c` is false for each edge).
/- FULL: without `TriOffEdges`.  False of the code: in the `on_edge` branch the divergent edge integral is replaced by `log(-a/c)/l`,
   which changes sign when the edge is run backwards (`triangle_edge_on_edge_changes_sign`), while the true integral does not
   (`triangle_edge_integral_reverse`); so for an observer ON an edge the flipped triangle's field is not the negative. -/ -/
theorem triangle_field_flip (v0 v1 v2 pol obs : V3 ℝ) (hoff : TriOffEdges v0 v1 v2 obs) :
    triangleB v0 v2 v1 pol obs = -triangleB v0 v1 v2 pol obs :=
  triangleB_flip v0 v1 v2 pol obs hoff

/-- the parts of `triangle_field_flip`: the edge integral `I` is the same for the edge run backwards (off the edge) … -/
theorem triangle_edge_integral_reverse (R L : V3 ℝ) (hL : 0 < V3.dot L L) (hoff : ¬ TriEdgeOnV R (R + L) L) :
    triEdgeI (R + L) R (-L) = triEdgeI R (R + L) L :=
  triEdgeI_reverse R (R + L) L (-L) rfl rfl hL hoff

/-- … within the `on_edge` tolerance it changes sign (so `triangle_field_flip` needs its hypothesis) … -/
theorem triangle_edge_on_edge_changes_sign (R L : V3 ℝ) (hon : TriEdgeOnV R (R + L) L) :
    triEdgeI (R + L) R (-L) = -triEdgeI R (R + L) L :=
  triEdgeI_reverse_on R (R + L) L (-L) rfl rfl hon

/-- … and the solid angle (with the clamp `|2·arctan2| > 6.2831853 → 0`, which is what makes this hold on the triangle's plane
outside the triangle, where `arctan2(±0, D < 0) = ±π`) changes sign -/
theorem triangle_solid_angle_flip (R0 R1 R2 : V3 ℝ) (r0 r1 r2 : ℝ) :
    solidAngle R0 R2 R1 r0 r2 r1 = -solidAngle R0 R1 R2 r0 r1 r2 :=
  solidAngle_flip R0 R1 R2 r0 r1 r2

-- non-vacuity: the triangle (0,0,0), (1,0,0), (0,1,0) and the observer (0,0,1) are off all three edges
example : TriOffEdges (⟨0, 0, 0⟩ : V3 ℝ) ⟨1, 0, 0⟩ ⟨0, 1, 0⟩ ⟨0, 0, 1⟩ := by
  refine ⟨?_, ?_, ?_⟩ <;> simp only [TriEdgeOnV, triEdgeOn, V3.dot, V3.cross, V3.sub_x, V3.sub_y, V3.sub_z] <;> norm_num

-- non-vacuity of the exclusion: the observer (1/2,0,0) on the edge (0,0,0)–(1,0,0) is in the `on_edge` branch
example : TriEdgeOnV ((⟨0, 0, 0⟩ : V3 ℝ) - ⟨1 / 2, 0, 0⟩) ((⟨0, 0, 0⟩ : V3 ℝ) - ⟨1 / 2, 0, 0⟩ + ⟨1, 0, 0⟩) ⟨1, 0, 0⟩ := by
  simp only [TriEdgeOnV, triEdgeOn, V3.dot, V3.cross, V3.sub_x, V3.sub_y, V3.sub_z, V3.add_x, V3.add_y, V3.add_z]
  norm_num

/-- a cyclic rotation of a face -/
def triRot (t : Tri ℝ) : Tri ℝ := (t.2.1, t.2.2, t.1)

/-- the sum of the triangle sheets of a mesh does not depend on which vertex each face starts with -/
theorem trimesh_sheets_rotation (faces faces' : List (Tri ℝ)) (obs pol : V3 ℝ)
    (h : List.Forall₂ (fun t t' => t' = t ∨ t' = triRot t ∨ t' = triRot (triRot t)) faces faces') :
    meshRowSheets ⟨faces', obs, pol⟩ = meshRowSheets ⟨faces, obs, pol⟩ := by
  unfold meshRowSheets
  congr 1
  simp only
  induction h with
  | nil => rfl
  | cons ht _ ih =>
    rw [List.map_cons, List.map_cons, ih]
    congr 1
    rcases ht with rfl | rfl | rfl
    · rfl
    · exact triangle_field_cyclic _ _ _ _ _
    · simp only [triRot]
      rw [triangle_field_cyclic, triangle_field_cyclic]

/-! ### (1c) numbering of the vertices -/

section renumbering
variable {α : Type} [Num α]

/-- **`vertex_renumbering`** — for ANY carrier (also the driver's IEEE doubles): renumber the vertices by an injective `σ` (faces mapped
through `σ`, the vertex table rearranged accordingly: `verts'[σ i] = verts[i]`).  Then
(1) `vertices[faces]` is the IDENTICAL `(n, 3, 3)` array; (2) `get_inwards_mask` returns the identical mask (its seed calls
`is_facet_inwards(msh[indices[0]], msh[indices])` see identical arrays), `fix_trimesh_orientation` returns the renumbered faces, and
the mesh after `reorient_faces()` is the IDENTICAL array — so everything downstream (`BHJM_magnet_trimesh`, the inside test) is;
(3) `get_disconnected_faces_subsets` returns the renumbered face subsets, in the same order (also `subsets_inds`);
(4) `get_open_edges` reports the renumbered (re-sorted) edges. -/
theorem vertex_renumbering {σ : Nat → Nat} (hσ : Function.Injective σ) (verts verts' : List (V3 α))
    (hren : Renumbered σ verts verts') (faces : List Face) (hf : ∀ f ∈ faces, FaceInRange verts.length f) :
    meshArray verts' (faces.map (mapFace σ)) = meshArray verts faces ∧
    getInwardsMask verts' (faces.map (mapFace σ)) = getInwardsMask verts faces ∧
    fixTrimeshOrientation verts' (faces.map (mapFace σ)) = (fixTrimeshOrientation verts faces).map (mapFace σ) ∧
    reorientedMesh verts' (faces.map (mapFace σ)) = reorientedMesh verts faces ∧
    facesSubsets (faces.map (mapFace σ)) = (facesSubsets faces).map (List.map (mapFace σ)) ∧
    subsets ((faces.map (mapFace σ)).length + 1) (faces.map (mapFace σ)) = (subsets (faces.length + 1) faces).map (List.map σ) ∧
    ∀ e : Edge, e.1 ≤ e.2 → (mapEdge σ e ∈ openEdges (faces.map (mapFace σ)) ↔ e ∈ openEdges faces) :=
  ⟨meshArray_renumber hren faces hf, getInwardsMask_renumber hσ hren faces hf, fixTrimeshOrientation_renumber hσ hren faces hf,
    reorientedMesh_renumber hσ hren faces hf, facesSubsets_map hσ faces, by rw [List.length_map]; exact subsets_map hσ _ faces,
    fun e he => open_invariant_under_renumbering hσ faces e he⟩

/-- the sweep itself, for any seed test: `get_inwards_mask` / `fix_trimesh_orientation` on index triples commute with renumbering -/
theorem orientation_sweep_renumbering {σ : Nat → Nat} (hσ : Function.Injective σ) (seed : List Nat → Bool) (tris : List Face) :
    inwardsMask seed (tris.map (mapFace σ)) = inwardsMask seed tris ∧
    fixOrientation seed (tris.map (mapFace σ)) = (fixOrientation seed tris).map (mapFace σ) :=
  ⟨inwardsMask_map hσ seed tris, fixOrientation_map hσ seed tris⟩

-- non-vacuity: vertices 0 and 1 of a four-vertex table exchanged
example (a b c d : V3 α) : Function.Injective (Equiv.swap (0 : Nat) 1) ∧
    Renumbered (Equiv.swap (0 : Nat) 1) [a, b, c, d] [b, a, c, d] ∧
    ∀ f ∈ ([(0, 1, 2), (0, 1, 3), (0, 2, 3), (1, 2, 3)] : List Face), FaceInRange ([a, b, c, d] : List (V3 α)).length f := by
  refine ⟨(Equiv.swap 0 1).injective, ?_, ?_⟩
  swap
  · intro f hf
    simp only [List.mem_cons, List.not_mem_nil, or_false] at hf
    rcases hf with rfl | rfl | rfl | rfl <;> simp [FaceInRange]
  intro i hi
  simp only [List.length_cons, List.length_nil] at hi
  have h2 : (Equiv.swap (0 : Nat) 1) 2 = 2 := Equiv.swap_apply_of_ne_of_ne (by decide) (by decide)
  have h3 : (Equiv.swap (0 : Nat) 1) 3 = 3 := Equiv.swap_apply_of_ne_of_ne (by decide) (by decide)
  interval_cases i
  · rw [Equiv.swap_apply_left]; rfl
  · rw [Equiv.swap_apply_right]; rfl
  · rw [h2]; rfl
  · rw [h3]; rfl

end renumbering

/-! ### (1d) winding of the faces as given -/

/-- **`reorient_invariant_under_input_flips`** (index level, seed test as a parameter) — `tris` orientable (`Consistent tris ρ` for
some `ρ`) and edge-connected (every face reachable from face 0 through shared edges: one body).  Hand the same mesh over with any
subset `φ` of its faces flipped.  If the seed verdict is geometric — the first seed test answers for the flipped seed face the
opposite of what it answers for the unflipped one (`seed' = seed xor φ 0`) — `fix_trimesh_orientation` returns THE SAME list of
faces (same windings, same first vertices, same order). -/
theorem reorient_invariant_under_input_flips_index (tris : List Face) (ρ : Nat → Bool) (hρ : Consistent tris ρ)
    (hc : EdgeConnected tris) (seed seed' : List Nat → Bool) (φ : Nat → Bool)
    (hgeo : seed' (List.range tris.length) = (seed (List.range tris.length) ^^ φ 0)) :
    fixOrientation seed' (flipBy φ tris) = fixOrientation seed tris :=
  fixOrientation_flipBy hρ hc seed seed' φ hgeo

/-- … and what that list is: face `i` is flipped iff `ρ i xor ρ 0 xor (verdict of the first seed test)` — the reference
orientation normalised at the seed face -/
theorem reorient_mask_characterised (tris : List Face) (ρ : Nat → Bool) (hρ : Consistent tris ρ) (hc : EdgeConnected tris)
    (seed : List Nat → Bool) (i : Nat) (hi : i < tris.length) :
    (inwardsMask seed tris).getD i false = (ρ i ^^ (ρ 0 ^^ seed (List.range tris.length))) :=
  inwardsMask_eq_of_connected hρ hc seed i hi

/-- the consistent orientation of an edge-connected mesh is unique up to flipping all faces (what makes the seed face decide) -/
theorem consistent_orientation_unique (tris : List Face) (ρ ρ' : Nat → Bool) (h : Consistent tris ρ) (h' : Consistent tris ρ')
    (hc : EdgeConnected tris) (i : Nat) (hi : i < tris.length) : ρ' i = (ρ i ^^ (ρ 0 ^^ ρ' 0)) :=
  consistent_unique h h' hc i hi

/-- **`reorient_idempotent`** — reorienting the reoriented faces changes nothing, provided the second run's seed test finds the
(reoriented) seed face outwards -/
theorem reorient_idempotent_index (tris : List Face) (ρ : Nat → Bool) (hρ : Consistent tris ρ) (hc : EdgeConnected tris)
    (seed seed' : List Nat → Bool) (hgeo : seed' (List.range tris.length) = false) :
    fixOrientation seed' (fixOrientation seed tris) = fixOrientation seed tris :=
  fixOrientation_idem hρ hc seed seed' hgeo

section windingPipeline
variable {α : Type} [Num α]

/-- **`reorient_invariant_under_input_flips`** on the modelled pipeline (any carrier): the seed test is the real one,
`is_facet_inwards(msh[0], msh)` on `vertices[faces]`.  If its verdict for the mesh given with the faces `φ` flipped is the verdict
for the mesh as it is, negated iff the seed face itself is among the flipped ones (the check point then lies on the other side of the
facet: a GEOMETRIC fact about the ray test, hypothesis), then the reoriented faces and the `(n, 3, 3)` mesh are identical — hence so
is the field. -/
theorem reorient_invariant_under_input_flips (verts : List (V3 α)) (faces : List Face) (ρ : Nat → Bool) (hρ : Consistent faces ρ)
    (hc : EdgeConnected faces) (φ : Nat → Bool)
    (hgeo : seedOf (meshArray verts (flipBy φ faces)) (List.range faces.length) =
      (seedOf (meshArray verts faces) (List.range faces.length) ^^ φ 0)) :
    fixTrimeshOrientation verts (flipBy φ faces) = fixTrimeshOrientation verts faces ∧
    reorientedMesh verts (flipBy φ faces) = reorientedMesh verts faces := by
  have h := fixOrientation_flipBy hρ hc (seedOf (meshArray verts faces)) (seedOf (meshArray verts (flipBy φ faces))) φ hgeo
  exact ⟨h, by simp only [reorientedMesh, fixTrimeshOrientation, h]⟩

/-- **`reorient_idempotent`** on the modelled pipeline: a second `reorient_faces()` whose seed test finds face 0 outwards returns
the same faces and the same mesh -/
theorem reorient_idempotent (verts : List (V3 α)) (faces : List Face) (ρ : Nat → Bool) (hρ : Consistent faces ρ)
    (hc : EdgeConnected faces)
    (hgeo : seedOf (meshArray verts (fixTrimeshOrientation verts faces)) (List.range faces.length) = false) :
    fixTrimeshOrientation verts (fixTrimeshOrientation verts faces) = fixTrimeshOrientation verts faces ∧
    reorientedMesh verts (fixTrimeshOrientation verts faces) = reorientedMesh verts faces := by
  have h := fixOrientation_idem hρ hc (seedOf (meshArray verts faces)) (seedOf (meshArray verts (fixTrimeshOrientation verts faces))) hgeo
  have h' : fixTrimeshOrientation verts (fixTrimeshOrientation verts faces) = fixTrimeshOrientation verts faces := h
  exact ⟨h', by simp only [reorientedMesh, h']⟩

end windingPipeline

/-- the tetrahedron's four faces are edge-connected -/
theorem tetra_edgeConnected : EdgeConnected [(0, 1, 2), (0, 1, 3), (0, 2, 3), (1, 2, 3)] := by
  intro i hi
  simp only [List.length_cons, List.length_nil] at hi
  interval_cases i
  · exact Relation.ReflTransGen.refl
  · exact Relation.ReflTransGen.single ⟨by decide, by decide, (0, 1), by decide, by decide⟩
  · exact Relation.ReflTransGen.single ⟨by decide, by decide, (0, 2), by decide, by decide⟩
  · exact Relation.ReflTransGen.single ⟨by decide, by decide, (1, 2), by decide, by decide⟩

-- non-vacuity: the tetrahedron (faces 1 and 3 wound against the others) is orientable and edge-connected; given with faces 0 and 2
-- flipped and a seed test that answers accordingly, the sweep returns the same faces
example : fixOrientation (fun _ => true) (flipBy (fun i => i == 0 || i == 2) [(0, 1, 2), (0, 1, 3), (0, 2, 3), (1, 2, 3)]) =
    fixOrientation (fun _ => false) [(0, 1, 2), (0, 1, 3), (0, 2, 3), (1, 2, 3)] :=
  reorient_invariant_under_input_flips_index _ (fun i => [false, true, false, true].getD i false) ((conflict_iff _ _).mp (by decide))
    tetra_edgeConnected _ _ _ (by decide)
example : fixOrientation (fun _ => false) [(0, 1, 2), (0, 1, 3), (0, 2, 3), (1, 2, 3)] = [(0, 1, 2), (0, 3, 1), (0, 2, 3), (1, 3, 2)] := by decide
example : fixOrientation (fun _ => false) (fixOrientation (fun _ => false) [(0, 1, 2), (0, 1, 3), (0, 2, 3), (1, 2, 3)]) =
    fixOrientation (fun _ => false) [(0, 1, 2), (0, 1, 3), (0, 2, 3), (1, 2, 3)] :=
  reorient_idempotent_index _ (fun i => [false, true, false, true].getD i false) ((conflict_iff _ _).mp (by decide))
    tetra_edgeConnected _ _ rfl
-- the edge-connectedness hypothesis matters: two tetrahedra touching in vertex 0 need a second seed, whose verdict is not tied to
-- the first one's — with the second body's seed answering differently the returned faces differ
example : fixOrientation (fun idx => idx.length == 4) [(0, 1, 2), (0, 1, 3), (0, 2, 3), (1, 2, 3), (0, 4, 5), (0, 4, 6), (0, 5, 6), (4, 5, 6)] ≠
    fixOrientation (fun _ => false) [(0, 1, 2), (0, 1, 3), (0, 2, 3), (1, 2, 3), (0, 4, 5), (0, 4, 6), (0, 5, 6), (4, 5, 6)] := by decide

/-! ### (2) the final face selection of `get_disconnected_faces_subsets` -/

/-- **`disconnected_faces_selection`** — what `get_disconnected_faces_subsets` RETURNS (`faces[np.isin(faces, list(ps)).all(axis=1)]`
for every vertex subset `ps`, modelled by `facesSubsets`): every face of the mesh lies in exactly one returned subset, the returned
subsets concatenated are a rearrangement of the face list (each face once, with its multiplicity), each subset keeps the order
of the face list, and there is one face subset per vertex subset (`subsets_are_vertex_connected_components`). -/
theorem disconnected_faces_selection (faces : List Face) :
    (∀ f ∈ faces, ∃! i : Fin (facesSubsets faces).length, f ∈ (facesSubsets faces)[i]) ∧
    (facesSubsets faces).flatten.Perm faces ∧
    (∀ fs ∈ facesSubsets faces, fs.Sublist faces) ∧
    (facesSubsets faces).length = (subsets (faces.length + 1) faces).length :=
  ⟨fun f hf => face_in_exactly_one_subset faces f hf, facesSubsets_flatten_perm faces, facesSubsets_sublist faces,
    by simp [facesSubsets]⟩

/-- hence no returned face subset is empty and their sizes add up to the number of faces -/
theorem disconnected_faces_sizes (faces : List Face) :
    ((facesSubsets faces).map List.length).sum = faces.length := by
  have := (facesSubsets_flatten_perm faces).length_eq
  rwa [List.length_flatten] at this

example : facesSubsets [(0, 1, 2), (3, 4, 5), (2, 6, 7), (5, 8, 9)] = [[(0, 1, 2), (2, 6, 7)], [(3, 4, 5), (5, 8, 9)]] := by decide

end MagpyVerif.C16

namespace MagpyVerif.C16
open MagpyVerif.Kern

/-- C16 (`lines_end_in_trimesh`, the crossing part): whether a test line counts as crossing a face (`result_cross`: the line passes
through the triangle or its boundary tolerance, and its end points lie on different sides of the face's plane) does not depend on how
the three corners of the face are listed (six windings) — for every line and face -/
theorem crossing_winding_invariant (l0 l1 : V3 ℝ) (f g : Tri ℝ) (h : g ∈ triWindings f) :
    (faceTest l0 l1 g).1 = (faceTest l0 l1 f).1 :=
  faceTest_cross_winding l0 l1 f g h

/-- … hence the number of crossed faces, whose parity is the inside verdict `inside1`, is the same for a mesh given with other
windings.
/- FULL: `maskInsideTrimesh` itself is winding invariant.  False of the code in a thin layer: the second verdict `inside2` (touch:
   `|proj1| < 1e-7`, the projection normalised by the distance from the face's LAST corner, `faces[:, 2]`) changes with the corner
   order — unit tetrahedron, observer 5e-8 outside the face x+y+z = 1 near the corner (1,0,0): outside if that corner is listed
   last, "inside" (B gets +J) otherwise (reproduced on the real class). -/ -/
theorem crossing_count_winding_invariant (l0 l1 : V3 ℝ) (f1 f2 : List (Tri ℝ))
    (h : List.Forall₂ (fun f g => g ∈ triWindings f) f1 f2) :
    (f2.map (faceTest l0 l1)).countP (·.1) = (f1.map (faceTest l0 l1)).countP (·.1) :=
  crossCount_winding l0 l1 f1 f2 h

example (t : Tri ℝ) : triFlip t ∈ triWindings t := by simp [triWindings]

end MagpyVerif.C16

/-! ## the seed test `is_facet_inwards` itself (after repo fix ed093b8: displacement 1e-5 × the LONGEST edge)

`Kern.seedCheckPoint face` is the check point the model computes (`isFacetInwards face faces = maskInsideTrimesh faces (seedCheckPoint face)`
holds by `rfl`: first conjunct below), `Kern.touchProj` the quantity `proj1` of `lines_end_in_trimesh` whose absolute value is compared with
the touch tolerance 1e-7 (`Kern.faceTest_snd`, by `rfl`). -/

namespace MagpyVerif.C16
open MagpyVerif.Kern

/-- **`seed_checkpoint_clears_own_plane`** — for a facet of positive area, the check point `c + n̂·1e-5·(longest edge)` of
`is_facet_inwards` has, with respect to the facet's OWN plane and seen from any of its corners (the ray test measures from `f[2]`, or from
`f[1]` when the end point is within 1e-8 of `f[2]`), a normalised projection of at least `1e-5/(1 + 1e-5)` ≈ 100 × the touch tolerance
`1e-7`; so the entry of `result_touch` for the seed facet itself is `False` — for every start point of the test line, with the lengths as
given and divided by any positive mesh size.  (The centroid is at most 2/3 of the longest edge from a corner; the proof uses ≤ 1.) -/
theorem seed_checkpoint_clears_own_plane (face : Tri ℝ)
    (harea : 0 < vNorm2 (V3.cross (face.1 - face.2.1) (face.2.1 - face.2.2))) :
    (∀ faces, isFacetInwards face faces = maskInsideTrimesh faces (seedCheckPoint face)) ∧
    (∀ r, r = face.1 ∨ r = face.2.1 ∨ r = face.2.2 →
      (1 / 100000 : ℝ) / (1 + 1 / 100000) ≤
        vNormProj (seedCheckPoint face - r) (V3.cross (face.1 - face.2.2) (face.2.1 - face.2.2))) ∧
    (1 / 10000000 : ℝ) < (1 / 100000 : ℝ) / (1 + 1 / 100000) ∧
    (∀ l0, (faceTest l0 (seedCheckPoint face) face).2 = false) ∧
    (∀ l0 s, 0 < s → (faceTest l0 (vd (seedCheckPoint face) s) (triDiv s face)).2 = false) :=
  ⟨fun _ => rfl, fun r hr => seedCheckPoint_proj_ge face harea r hr, by norm_num,
    fun l0 => (seed_own_facet_not_touched face harea l0).1, fun l0 s hs => (seed_own_facet_not_touched face harea l0).2 s hs⟩

-- non-vacuity: the needle facet below has positive area
example : 0 < vNorm2 (V3.cross (sliverFacet.1 - sliverFacet.2.1) (sliverFacet.2.1 - sliverFacet.2.2)) := by
  simp only [sliverFacet, vNorm2, V3.cross, V3.sub_x, V3.sub_y, V3.sub_z]; norm_num

/-- **`old_rule_touches_sliver`** — the converse witness.  With the rule BEFORE ed093b8 (`seedCheckPointOld`: displacement
1e-5 × |v1|, the FIRST edge) the needle facet (0,0,0), (1/1250, 0, −3/5000), (12/25, 4/5, −9/25) — first edge 1/1000, longest edge 1:
aspect ratio 1000, listed from its short edge — has its check point within the touch tolerance of its own plane (normalised projection
≈ 1.5e-8 < 1e-7), and in the valid tetrahedron `sliverTetra` (apex (−13/25, 0, −1/2); all four faces outwards, mesh size 1) that facet, wound
OUTWARDS, is judged INWARDS: every face of the mesh would be flipped.  The rule since the fix judges it outwards. -/
theorem old_rule_touches_sliver :
    sliverFacet ∈ sliverTetra ∧
    0 < tdet (⟨-13 / 25, 0, -1 / 2⟩ : V3 ℝ) ⟨0, 0, 0⟩ ⟨1 / 1250, 0, -3 / 5000⟩ ⟨12 / 25, 4 / 5, -9 / 25⟩ ∧
    |touchProj (seedCheckPointOld sliverFacet) sliverFacet| < 1 / 10000000 ∧
    maskInsideTrimesh sliverTetra (seedCheckPointOld sliverFacet) = true ∧
    isFacetInwards sliverFacet sliverTetra = false :=
  ⟨by simp [sliverFacet, sliverTetra, tetraFaces], sliverTetra_outward, sliver_old_touches, sliverTetra_old_inside,
    sliverTetra_new_outside⟩

/-- **`touch_verdict_depends_on_reference_vertex`** — inside the touch band (closer than 1e-7, relative, to a face: the library's own
definition of 'on the surface') the verdict of `mask_inside_trimesh` depends on the vertex order of that face.  Unit tetrahedron, all
faces outwards; observer (0.9, 0.05, 0.05) + 3e-8·(1, 1, 1), about 5.2e-8 outside the face x + y + z = 1: with that face listed as
[2, 3, 1] (last corner (1,0,0), 0.12 away: |proj| ≈ 4.2e-7) the answer is OUTSIDE, listed as [3, 1, 2] (last corner (0,1,0), 1.3 away:
|proj| ≈ 4e-8) it is INSIDE.  Both lists are rotations of the same outward face (`triWindings`); the crossing counts agree
(`crossing_count_winding_invariant`).  Reproduced on the real class (getB differs by the polarization). -/
theorem touch_verdict_depends_on_reference_vertex :
    triRotate utSlant ∈ triWindings utSlant ∧ triRotate (triRotate utSlant) ∈ triWindings utSlant ∧
    unitTetraWith utSlant = unitTetra ∧
    maskInsideTrimesh (unitTetraWith (triRotate utSlant)) bandPoint = false ∧
    maskInsideTrimesh (unitTetraWith (triRotate (triRotate utSlant))) bandPoint = true :=
  ⟨by simp [triWindings], by simp [triWindings], rfl, band_outside, band_inside⟩

/-! ### is the seed verdict geometric?

/- FULL: `seed_verdict_geometric_convex` — for a CONVEX closed mesh (every vertex on the non-positive side of every outward face plane) the
   seed facet wound outwards gets the verdict "outwards", wound inwards "inwards" provided the displacement 1e-5 × (longest edge) is smaller
   than the body's thickness along the facet normal.  Missing: (a) for a general convex mesh the parity argument "a generic ray from outside to
   a point outside crosses the boundary 0 or 2 times" as `lines_end_in_trimesh` counts crossings (needs the closedness of the triangulation);
   (b) the verdict "outside" also needs that NO face is touched (a neighbouring face at a dihedral angle below ~1e-5 is). -/
Proved: the half that needs no parity (a check point that fails the bounding-box pre-filter: "outwards"), the decomposition
`mask_inside_trimesh = box ∧ (odd crossing count ∨ any touch)` with box and crossing count independent of the windings, and for a mesh
that is ONE tetrahedron given with ANY windings: check point strictly inside ⇒ "inwards"; check point beyond the plane of the seed facet only,
no other face touched ⇒ "outwards" (even crossing count: `Kern.beyond_one_face_parity`, `Kern.crossCount_tetra_beyond_first`). -/

/-- a check point outside the bounding box (enlarged by 1e-12 of its largest edge) is not ray-tested: verdict "outwards" — any mesh -/
theorem seed_verdict_outside_box_outwards (face : Tri ℝ) (faces : List (Tri ℝ))
    (h : insideBoxV (meshVerts faces) (seedCheckPoint face) = false) : isFacetInwards face faces = false := by
  rw [isFacetInwards_eq_mask, maskInsideTrimesh_eq, h]; rfl

/-- `mask_inside_trimesh` = pre-filter ∧ (odd number of crossed faces ∨ some face touched); the first two ingredients do not depend on how
the corners of the faces are listed, so for a mesh given with other windings an odd count of the reference listing decides "inside", an even
count together with "no face touched (as listed)" decides "outside" -/
theorem mask_inside_trimesh_rewinding (f1 f2 : List (Tri ℝ)) (h : List.Forall₂ (fun f g => g ∈ triWindings f) f1 f2) (x : V3 ℝ) :
    maskInsideTrimesh f2 x = (insideBoxV (meshVerts f1) x && (crossCount f1 x % 2 != 0 || anyTouch f2 x)) := by
  rw [maskInsideTrimesh_eq, insideBox_rewind h, crossCount_rewind h]

/-- **`seed_verdict_geometric_tetra_partial`** — a mesh that is ONE tetrahedron (`v0 v1 v2 v3` right-handed), its faces given with ANY
windings (`faces`); the seed facet of `get_inwards_mask` is the first face.  (1) If the first face is given OUTWARDS its check point lies
strictly beyond that face's plane (barycentric numerator of `v3` negative); given FLIPPED it lies on the body's side (numerator positive) —
the check point changes sides with the winding: the geometric fact.  (2) If the check point of a facet `g` is strictly inside (all four
numerators positive: the displacement 1e-5 × longest edge is smaller than the body's thickness along the normal) and its test ray is
generic, the verdict is "inwards", whatever the windings of the faces.  (3) If the check point of a facet `g` of positive area that is one of
the listed faces lies beyond the plane of the first face only (numerator of `v3` negative, the other three positive), its test ray is
generic and no OTHER face is touched (normalised projection ≥ 1e-7 from both corners the ray test may measure from; the own facet never is:
`seed_checkpoint_clears_own_plane`), the verdict is "outwards": the generic ray from outside to a point outside crosses an even number of
faces (`Kern.crossCount_tetra_beyond_first`).  With (1): on such a tetrahedron the verdict of the seed test is geometric — the hypothesis
`hgeo` of `reorient_invariant_under_input_flips`.
/- FULL: `seed_verdict_geometric_convex` (see above): any convex closed mesh, any seed facet.  Missing: the parity argument for a closed
   triangulated convex surface; the no-touch hypothesis for the other faces cannot be dropped (a neighbouring face at a dihedral angle below
   ~1e-5 is touched); `RayGeneric` cannot be dropped either (`ray_through_edge_is_not_generic`). -/ -/
theorem seed_verdict_geometric_tetra_partial (v0 v1 v2 v3 : V3 ℝ) (hd : 0 < tdet v0 v1 v2 v3) :
    (bary v0 v1 v2 v3 (seedCheckPoint (v0, v2, v1)) 3 < 0 ∧ 0 < bary v0 v1 v2 v3 (seedCheckPoint (triFlip (v0, v2, v1))) 3) ∧
    (∀ (faces : List (Tri ℝ)) (g : Tri ℝ), List.Forall₂ (fun f g => g ∈ triWindings f) (tetraFaces v0 v1 v2 v3) faces →
      (∀ k, 0 < bary v0 v1 v2 v3 (seedCheckPoint g) k) → RayGeneric (tetraFaces v0 v1 v2 v3) (seedCheckPoint g) →
      isFacetInwards g faces = true) ∧
    (∀ (faces : List (Tri ℝ)) (g : Tri ℝ), List.Forall₂ (fun f g => g ∈ triWindings f) (tetraFaces v0 v1 v2 v3) faces →
      0 < vNorm2 (V3.cross (g.1 - g.2.1) (g.2.1 - g.2.2)) →
      bary v0 v1 v2 v3 (seedCheckPoint g) 3 < 0 → 0 < bary v0 v1 v2 v3 (seedCheckPoint g) 0 →
      0 < bary v0 v1 v2 v3 (seedCheckPoint g) 1 → 0 < bary v0 v1 v2 v3 (seedCheckPoint g) 2 →
      RayGeneric (tetraFaces v0 v1 v2 v3) (seedCheckPoint g) →
      (∀ f ∈ faces, f ≠ g →
        (1 / 10000000 : ℝ) ≤ |vNormProj (seedCheckPoint g - f.2.1) (V3.cross (f.1 - f.2.2) (f.2.1 - f.2.2))| ∧
        (1 / 10000000 : ℝ) ≤ |vNormProj (seedCheckPoint g - f.2.2) (V3.cross (f.1 - f.2.2) (f.2.1 - f.2.2))|) →
      isFacetInwards g faces = false) := by
  refine ⟨seed_side_tetra v0 v1 v2 v3 hd, fun faces g hw hx hgen => ?_, fun faces g hw harea hx3 hx0 hx1 hx2 hgen ht => ?_⟩
  · rw [isFacetInwards_eq_mask]; exact maskInside_tetra_rewound_inside v0 v1 v2 v3 _ faces hw hd hx hgen
  · rw [isFacetInwards_eq_mask]
    apply maskInside_tetra_rewound_beyond_first v0 v1 v2 v3 _ faces hw hd hx3 hx0 hx1 hx2 hgen
    intro f hf
    by_cases hfg : f = g
    · subst hfg
      have hb : (1 / 10000000 : ℝ) ≤ (1 / 100000 : ℝ) / (1 + 1 / 100000) := by norm_num
      exact ⟨(hb.trans (seedCheckPoint_proj_ge f harea f.2.1 (Or.inr (Or.inl rfl)))).trans (le_abs_self _),
        (hb.trans (seedCheckPoint_proj_ge f harea f.2.2 (Or.inr (Or.inr rfl)))).trans (le_abs_self _)⟩
    · exact ht f hf hfg

theorem abs_proj_ge (a b : V3 ℝ) (h : 0 < vNorm2 a * vNorm2 b)
    (hh : (1 / 10000000 : ℝ) ^ 2 * (vNorm2 a * vNorm2 b) ≤ (V3.dot a b) ^ 2) : (1 / 10000000 : ℝ) ≤ |vNormProj a b| := by
  rw [← not_lt, vNormProj_abs_lt a b h _ (by norm_num)]
  exact not_lt.mpr hh

-- non-vacuity of (2): the tetrahedron (0,0,0), (3,0,0), (0,4,0), (0,0,1) given with its first face flipped — that face is judged inwards
example : isFacetInwards (triFlip ((⟨0, 0, 0⟩, ⟨0, 4, 0⟩, ⟨3, 0, 0⟩) : Tri ℝ))
    (triFlip ((⟨0, 0, 0⟩, ⟨0, 4, 0⟩, ⟨3, 0, 0⟩) : Tri ℝ) :: t345.tail) = true := by
  have hd : 0 < tdet (⟨0, 0, 0⟩ : V3 ℝ) ⟨3, 0, 0⟩ ⟨0, 4, 0⟩ ⟨0, 0, 1⟩ := by simp [tdet, det3]
  refine (seed_verdict_geometric_tetra_partial _ _ _ _ hd).2.1 _ _ ?_ ?_ ?_
  · refine .cons (by simp [triWindings]) (.cons ?_ (.cons ?_ (.cons ?_ .nil))) <;> simp [triWindings]
  · rw [t345_check_in]
    intro k
    fin_cases k <;> (simp [bary, tdet, det3]; try norm_num)
  · rw [t345_check_in]; exact t345_generic _ (Or.inl rfl)

-- non-vacuity of (3): the same tetrahedron as `tetraFaces` lists it — the first face is judged outwards
example : isFacetInwards ((⟨0, 0, 0⟩, ⟨0, 4, 0⟩, ⟨3, 0, 0⟩) : Tri ℝ) t345 = false := by
  have hd : 0 < tdet (⟨0, 0, 0⟩ : V3 ℝ) ⟨3, 0, 0⟩ ⟨0, 4, 0⟩ ⟨0, 0, 1⟩ := by simp [tdet, det3]
  refine (seed_verdict_geometric_tetra_partial _ _ _ _ hd).2.2 t345 _ ?_ ?_ ?_ ?_ ?_ ?_ ?_ ?_
  · refine .cons (by simp [triWindings]) (.cons ?_ (.cons ?_ (.cons ?_ .nil))) <;> simp [triWindings]
  · simp [vNorm2, V3.cross]
  · rw [t345_check_out]; simp [bary, tdet, det3]
  · rw [t345_check_out]; simp [bary, tdet, det3]; norm_num
  · rw [t345_check_out]; simp [bary, tdet, det3]
  · rw [t345_check_out]; simp [bary, tdet, det3]
  · rw [t345_check_out]; exact t345_generic _ (Or.inr rfl)
  · rw [t345_check_out]
    intro f hf hne
    simp only [t345, tetraFaces, List.mem_cons, List.not_mem_nil, or_false] at hf
    rcases hf with rfl | rfl | rfl | rfl
    · exact absurd rfl hne
    all_goals
      constructor <;> apply abs_proj_ge <;> simp only [V3.dot, V3.cross, vNorm2, V3.sub_x, V3.sub_y, V3.sub_z] <;> norm_num

end MagpyVerif.C16

/-! ## added by the second audit (audit2)

(A) `check_selfintersecting` at MESH level, exact arithmetic: `selfint_report_iff` / `selfint_verdict_iff` — what the report and the class's
verdict ARE, in terms of an independent geometric predicate (`EdgePierces`); before, only the direction "a pair found by the primitive is
reported" (`selfint_reports_crossing_pair`) was stated at mesh level.
(B) The mesh-level self-intersection theorems are about `rd = id`, which neither the driver (`trimesh selfint`: float32 only) nor the real
function executes.  The face-order statement does not need `rd = id`: `selfint_face_order_invariant_any_rounding` holds for EVERY rounding
function `ℝ → ℝ` (float32 round-to-nearest idealised as a function on the reals — no overflow, no NaN).  Translation / scale invariance
do not generalise (rounding does not commute with them).
(C) `reorient_invariant_under_input_flips` / `reorient_idempotent` carry the hypothesis `hgeo` about the REAL seed test; their examples
instantiated only the `_index` versions with constant stub seeds.  `reorient_tetra345_all_flips` discharges `hgeo` with the modelled
`is_facet_inwards` (through `seed_verdict_geometric_tetra_partial`) for ONE LITERAL tetrahedron and every subset of flipped faces: the first
— and only — mesh for which "after reorientation all faces point outwards" is a theorem about the pipeline model without a seed hypothesis. -/

namespace MagpyVerif.C16
open MagpyVerif.Kern MagpyVerif.Mesh

/-! ### (A) the report of `get_intersecting_triangles`, default radius, exact arithmetic -/

/-- an edge `a → b` of the first facet (taken as 0→1, 1→2, 2→0) has a point in common with the CLOSED second facet, and both its end points
are farther than `eps` from the second facet's plane (distance as the code measures it: `planeDist id` = `n·(p − t₂)/|n|`, 0 for a
zero-area facet).  The segment and triangle memberships are convex combinations (`InSegment`, `InTriangle`), not the code's volume test. -/
def EdgePierces (eps : ℝ) (f1 f2 : Tri ℝ) : Prop :=
  ∃ a b : V3 ℝ, ((a, b) = (f1.1, f1.2.1) ∨ (a, b) = (f1.2.1, f1.2.2) ∨ (a, b) = (f1.2.2, f1.1)) ∧
    eps < |planeDist id f2 a| ∧ eps < |planeDist id f2 b| ∧ ∃ p, InSegment a b p ∧ InTriangle f2 p

theorem edgesHit_iff_pierces (eps : ℝ) (heps : 0 ≤ eps) (f1 f2 : Tri ℝ) :
    edgesHit id eps f1 f2 = true ↔ EdgePierces eps f1 f2 := by
  have key : edgesHit id eps f1 f2 = true ↔ (segFacet id eps f1.1 f1.2.1 f2 = true ∨ segFacet id eps f1.2.1 f1.2.2 f2 = true ∨
      segFacet id eps f1.2.2 f1.1 f2 = true) := by
    simp only [edgesHit]
    cases segFacet id eps f1.1 f1.2.1 f2 <;> cases segFacet id eps f1.2.1 f1.2.2 f2 <;> cases segFacet id eps f1.2.2 f1.1 f2 <;> simp
  rw [key, segfacet_iff_closed eps heps, segfacet_iff_closed eps heps, segfacet_iff_closed eps heps]
  constructor
  · rintro (h | h | h)
    · exact ⟨_, _, Or.inl rfl, h⟩
    · exact ⟨_, _, Or.inr (Or.inl rfl), h⟩
    · exact ⟨_, _, Or.inr (Or.inr rfl), h⟩
  · rintro ⟨a, b, (h | h | h), hh⟩ <;> (obtain ⟨rfl, rfl⟩ := Prod.mk.inj h)
    · exact Or.inl hh
    · exact Or.inr (Or.inl hh)
    · exact Or.inr (Or.inr hh)

/-- **`selfint_report_iff`** — `get_intersecting_triangles` from the facets on (`r = None`, `r_factor = 2.0`, rounding `id`): facet `k` is
reported EXACTLY when it belongs to a pair `i ≠ j` of facets such that an edge of `i` pierces `j` (`EdgePierces`).  Both directions; the ball
query never matters (`selfint_radius_covers`). -/
theorem selfint_report_iff (eps : ℝ) (heps : 0 ≤ eps) (facets : List (Tri ℝ)) (k : ℕ) :
    k ∈ intersectingFacets id none 2 eps facets ↔
      ∃ i j, i < facets.length ∧ j < facets.length ∧ i ≠ j ∧ (i = k ∨ j = k) ∧
        EdgePierces eps (facets.getD i zeroTri) (facets.getD j zeroTri) := by
  constructor
  · intro h
    simp only [intersectingFacets, mem_intersectingCore, Flagged] at h
    obtain ⟨_, i, j, hi, hj, _, hne, hit, hor⟩ := h
    exact ⟨i, j, hi, hj, hne, hor, (edgesHit_iff_pierces eps heps _ _).mp hit⟩
  · rintro ⟨i, j, hi, hj, hne, hor, hp⟩
    have := selfint_reports_crossing_pair eps heps facets i j hi hj hne ((edgesHit_iff_pierces eps heps _ _).mpr hp)
    rcases hor with rfl | rfl
    · exact this.1
    · exact this.2

/-- **`selfint_verdict_iff`** — `TriangularMesh.check_selfintersecting` (defaults, rounding `id`) on a mesh of positive size with indices in
range: the verdict is `True` EXACTLY when some edge of some facet pierces another facet of `vertices[faces]` with both end points farther
than `1e-6 × size` from that facet's plane.  This is what the clause "reports a mesh as self-intersecting exactly when it is" comes to in
exact arithmetic; it is NOT "two facets have a common point that is not a common corner / edge" (`segfacet_misses_end_in_facet`). -/
theorem selfint_verdict_iff (verts : List (V3 ℝ)) (tris : List (Nat × Nat × Nat))
    (h : TrisInRange verts.length tris) (hs : 0 < vertsSize verts) :
    selfIntersecting id verts tris = true ↔
      ∃ i j, i < tris.length ∧ j < tris.length ∧ i ≠ j ∧
        EdgePierces (vertsSize verts * (1 / 1000000)) ((gatherFacets verts tris).getD i zeroTri)
          ((gatherFacets verts tris).getD j zeroTri) := by
  have hlen : (gatherFacets verts tris).length = tris.length := by simp [gatherFacets]
  have h2 : (Kern.n 2 : ℝ) = 2 := by simp [Kern.n]
  have he : (Kern.n 1 / Kern.n 1000000 : ℝ) = 1 / 1000000 := by simp [Kern.n]
  have heps : (0 : ℝ) ≤ vertsSize verts * (1 / 1000000) := by positivity
  unfold selfIntersecting selfIntersectingFaces
  rw [decide_eq_true_iff, selfint_eps_is_relative _ _ _ _ _ h hs, h2, he]
  simp only [getIntersectingTrianglesCore, verts_map_id]
  rw [intersectingFacets_two, ne_eq, List.eq_nil_iff_forall_not_mem]
  simp only [not_forall, not_not]
  constructor
  · rintro ⟨k, hk⟩
    obtain ⟨i, j, hi, hj, hne, _, hp⟩ := (selfint_report_iff _ heps _ k).mp hk
    exact ⟨i, j, hlen ▸ hi, hlen ▸ hj, hne, hp⟩
  · rintro ⟨i, j, hi, hj, hne, hp⟩
    exact ⟨i, (selfint_report_iff _ heps _ i).mpr ⟨i, j, hlen.symm ▸ hi, hlen.symm ▸ hj, hne, Or.inl rfl, hp⟩⟩

-- non-vacuity: the two-face witness mesh (size 5) is judged self-intersecting; the right-hand side is constructed, the theorem applied
example : selfIntersecting id witVerts witTris = true := by
  rw [selfint_verdict_iff _ _ witTris_inRange (by rw [witVerts_size]; norm_num), witVerts_size]
  refine ⟨1, 0, by simp [witTris], by simp [witTris], by norm_num, ?_⟩
  have hf : gatherFacets witVerts witTris = [witT, (witS0, witS1, ⟨5, 5, 0⟩)] := rfl
  rw [hf]
  apply (edgesHit_iff_pierces _ (by norm_num) _ _).mp
  simp only [List.getD_cons_succ, List.getD_cons_zero, edgesHit,
    wit_segFacet_of (eps := 5 * (1 / 1000000)) (by norm_num) (by norm_num), if_true]
  simp

/-! ### (B) face order under ANY rounding function -/

theorem maxCornerDist_perm_any (rd : ℝ → ℝ) {f1 f2 : List (Tri ℝ)} (hp : f1.Perm f2) :
    maxCornerDist rd f1 = maxCornerDist rd f2 := by
  have : RightCommutative (npMax : ℝ → ℝ → ℝ) := ⟨fun a b c => by simp only [npMax_real]; exact max_right_comm a b c⟩
  simp only [maxCornerDist]
  exact (hp.flatMap_right _).foldl_eq _

theorem intersectingFacets_perm_any (rd : ℝ → ℝ) (r : Option ℝ) (rf eps : ℝ) (facets : List (Tri ℝ)) (σ : Equiv.Perm ℕ)
    (hσ : ∀ i, σ i < facets.length ↔ i < facets.length) (k : ℕ) :
    k ∈ intersectingFacets rd r rf eps (permuteFacets σ facets) ↔ σ k ∈ intersectingFacets rd r rf eps facets := by
  simp only [intersectingFacets, permuteFacets_length, maxCornerDist_perm_any rd (permuteFacets_perm σ facets hσ)]
  apply intersectingCore_perm _ _ _ _ _ σ hσ
  · intro i j hi hj
    rw [getD_map_of_lt _ _ j (by rw [permuteFacets_length]; exact hj) zeroTri,
      getD_map_of_lt _ _ i (by rw [permuteFacets_length]; exact hi) zeroTri,
      getD_map_of_lt _ _ (σ j) ((hσ j).mpr hj) zeroTri, getD_map_of_lt _ _ (σ i) ((hσ i).mpr hi) zeroTri,
      permuteFacets_getD _ _ _ hi, permuteFacets_getD _ _ _ hj]
  · intro i j hi hj
    rw [permuteFacets_getD _ _ _ hi, permuteFacets_getD _ _ _ hj]

/-- **`selfint_face_order_invariant_any_rounding`** — `selfint_face_order_invariant` for EVERY rounding function `rd : ℝ → ℝ` applied after
each operation (in particular float32 round-to-nearest read as a function on the reals: what the driver's `trimesh selfint` and the real
function execute, up to overflow / NaN, which a real-valued `rd` cannot produce): reading the triangle list in the order σ 0, σ 1, …
reindexes the report by σ. -/
theorem selfint_face_order_invariant_any_rounding (rd : ℝ → ℝ) (r : Option ℝ) (rFactor eps : ℝ) (verts : List (V3 ℝ))
    (tris : List (Nat × Nat × Nat)) (σ : Equiv.Perm ℕ) (hσ : ∀ i, σ i < tris.length ↔ i < tris.length) (k : ℕ) :
    k ∈ getIntersectingTriangles rd r rFactor eps verts (permuteTris σ tris)
      ↔ σ k ∈ getIntersectingTriangles rd r rFactor eps verts tris := by
  have hlen : ∀ vv : List (V3 ℝ), (gatherFacets (vv.map (V3.map rd)) tris).length = tris.length := fun vv => by simp [gatherFacets]
  simp only [getIntersectingTriangles, getIntersectingTrianglesCore]
  rw [gatherFacets_permute σ _ tris (fun i hi => (hσ i).mpr hi)]
  exact intersectingFacets_perm_any rd _ rFactor eps _ σ (by rw [hlen]; exact hσ) k

/-- … and the verdict of `check_selfintersecting` with it, for every rounding function -/
theorem selfint_verdict_face_order_invariant_any_rounding (rd : ℝ → ℝ) (verts : List (V3 ℝ)) (tris : List (Nat × Nat × Nat))
    (σ : Equiv.Perm ℕ) (hσ : ∀ i, σ i < tris.length ↔ i < tris.length) :
    selfIntersecting rd verts (permuteTris σ tris) = selfIntersecting rd verts tris := by
  have hl : (permuteTris σ tris).length = tris.length := by simp [permuteTris]
  have two : ∀ tt, 1 < (selfIntersectingFaces rd verts tt).length ↔ selfIntersectingFaces rd verts tt ≠ [] := fun tt => by
    simp only [selfIntersectingFaces, getIntersectingTriangles, getIntersectingTrianglesCore, intersectingFacets]
    exact intersectingCore_two _ _ _
  have key : selfIntersectingFaces rd verts (permuteTris σ tris) = [] ↔ selfIntersectingFaces rd verts tris = [] := by
    simp only [List.eq_nil_iff_forall_not_mem, selfIntersectingFaces]
    constructor
    · intro h a ha
      apply h (σ.symm a)
      rw [selfint_face_order_invariant_any_rounding rd _ _ _ _ _ σ hσ, Equiv.apply_symm_apply]; exact ha
    · intro h a ha
      exact h (σ a) ((selfint_face_order_invariant_any_rounding rd _ _ _ _ _ σ hσ a).mp ha)
  unfold selfIntersecting
  exact decide_eq_decide.mpr (by rw [two, two]; exact not_congr key)

-- instance at a rounding function that is not the identity (a 24-bit fixed-point grid), the two faces of the witness mesh swapped
example (k : ℕ) :
    k ∈ getIntersectingTriangles (fun x => (⌊x * 16777216⌋ : ℝ) / 16777216) none 2 (1 / 1000000) witVerts
        (permuteTris (Equiv.swap 0 1) witTris)
      ↔ (Equiv.swap 0 1) k ∈ getIntersectingTriangles (fun x => (⌊x * 16777216⌋ : ℝ) / 16777216) none 2 (1 / 1000000) witVerts witTris := by
  apply selfint_face_order_invariant_any_rounding
  intro i
  simp only [witTris, List.length_cons, List.length_nil]
  rcases Nat.lt_or_ge i 2 with h | h
  · interval_cases i <;> simp
  · rw [Equiv.swap_apply_of_ne_of_ne (by omega) (by omega)]

/-! ### (C) the seed hypothesis discharged with the real seed test — one literal tetrahedron -/

/-- the vertex table and the index triples of the tetrahedron `t345` = (0,0,0), (3,0,0), (0,4,0), (0,0,1), every face listed outwards
(`tetraFaces` of a right-handed tetrahedron: `seed_verdict_geometric_tetra_partial` (1)) -/
noncomputable def verts345 : List (V3 ℝ) := [⟨0, 0, 0⟩, ⟨3, 0, 0⟩, ⟨0, 4, 0⟩, ⟨0, 0, 1⟩]
def faces345 : List Face := [(0, 2, 1), (0, 1, 3), (1, 2, 3), (0, 3, 2)]

theorem meshArray345 : meshArray verts345 faces345 = t345 := by
  simp [meshArray, triAt, verts345, faces345, t345, tetraFaces]

theorem faces345_edgeConnected : EdgeConnected faces345 := by
  intro i hi
  simp only [faces345, List.length_cons, List.length_nil] at hi
  interval_cases i
  · exact Relation.ReflTransGen.refl
  · exact Relation.ReflTransGen.single ⟨by decide, by decide, (1, 0), by decide, by decide⟩
  · exact Relation.ReflTransGen.single ⟨by decide, by decide, (2, 1), by decide, by decide⟩
  · exact Relation.ReflTransGen.single ⟨by decide, by decide, (0, 2), by decide, by decide⟩

theorem faces345_consistent : Consistent faces345 (fun i => [false, false, false, false].getD i false) :=
  (conflict_iff _ _).mp (by decide)

theorem seedOf_four (a b c d : Tri ℝ) : seedOf [a, b, c, d] (List.range 4) = isFacetInwards a [a, b, c, d] := by
  simp [seedOf, List.range, List.range.loop]

theorem meshArray345_flipBy (φ : Nat → Bool) : meshArray verts345 (flipBy φ faces345) =
    [if φ 0 then triFlip ((⟨0, 0, 0⟩, ⟨0, 4, 0⟩, ⟨3, 0, 0⟩) : Tri ℝ) else (⟨0, 0, 0⟩, ⟨0, 4, 0⟩, ⟨3, 0, 0⟩),
     if φ 1 then triFlip ((⟨0, 0, 0⟩, ⟨3, 0, 0⟩, ⟨0, 0, 1⟩) : Tri ℝ) else (⟨0, 0, 0⟩, ⟨3, 0, 0⟩, ⟨0, 0, 1⟩),
     if φ 2 then triFlip ((⟨3, 0, 0⟩, ⟨0, 4, 0⟩, ⟨0, 0, 1⟩) : Tri ℝ) else (⟨3, 0, 0⟩, ⟨0, 4, 0⟩, ⟨0, 0, 1⟩),
     if φ 3 then triFlip ((⟨0, 0, 0⟩, ⟨0, 0, 1⟩, ⟨0, 4, 0⟩) : Tri ℝ) else (⟨0, 0, 0⟩, ⟨0, 0, 1⟩, ⟨0, 4, 0⟩)] := by
  cases h0 : φ 0 <;> cases h1 : φ 1 <;> cases h2 : φ 2 <;> cases h3 : φ 3 <;>
    simp [meshArray, triAt, verts345, faces345, flipBy, flipFace, triFlip, h0, h1, h2, h3]

/-- the REAL seed test (`seedOf` = `is_facet_inwards(msh[0], msh)` of the model) on the tetrahedron handed over with ANY subset `φ` of its
faces flipped: the first face is judged "inwards" exactly when it is among the flipped ones -/
theorem seed_verdict_345 (φ : Nat → Bool) :
    seedOf (meshArray verts345 (flipBy φ faces345)) (List.range 4) = φ 0 := by
  have hd : 0 < tdet (⟨0, 0, 0⟩ : V3 ℝ) ⟨3, 0, 0⟩ ⟨0, 4, 0⟩ ⟨0, 0, 1⟩ := by simp [tdet, det3]
  rw [meshArray345_flipBy, seedOf_four]
  have hw : List.Forall₂ (fun f g => g ∈ triWindings f) (tetraFaces (⟨0, 0, 0⟩ : V3 ℝ) ⟨3, 0, 0⟩ ⟨0, 4, 0⟩ ⟨0, 0, 1⟩)
      [if φ 0 then triFlip ((⟨0, 0, 0⟩, ⟨0, 4, 0⟩, ⟨3, 0, 0⟩) : Tri ℝ) else (⟨0, 0, 0⟩, ⟨0, 4, 0⟩, ⟨3, 0, 0⟩),
       if φ 1 then triFlip ((⟨0, 0, 0⟩, ⟨3, 0, 0⟩, ⟨0, 0, 1⟩) : Tri ℝ) else (⟨0, 0, 0⟩, ⟨3, 0, 0⟩, ⟨0, 0, 1⟩),
       if φ 2 then triFlip ((⟨3, 0, 0⟩, ⟨0, 4, 0⟩, ⟨0, 0, 1⟩) : Tri ℝ) else (⟨3, 0, 0⟩, ⟨0, 4, 0⟩, ⟨0, 0, 1⟩),
       if φ 3 then triFlip ((⟨0, 0, 0⟩, ⟨0, 0, 1⟩, ⟨0, 4, 0⟩) : Tri ℝ) else (⟨0, 0, 0⟩, ⟨0, 0, 1⟩, ⟨0, 4, 0⟩)] := by
    refine .cons ?_ (.cons ?_ (.cons ?_ (.cons ?_ .nil))) <;> split <;> simp [triWindings]
  cases h0 : φ 0
  · -- first face as listed (outwards): check point beyond its plane only, generic ray, no other face touched — verdict "outwards"
    simp only [h0, Bool.false_eq_true, if_false] at hw ⊢
    refine (seed_verdict_geometric_tetra_partial _ _ _ _ hd).2.2 _ _ hw ?_ ?_ ?_ ?_ ?_ ?_ ?_
    · simp [vNorm2, V3.cross]
    · rw [t345_check_out]; simp [bary, tdet, det3]
    · rw [t345_check_out]; simp [bary, tdet, det3]; norm_num
    · rw [t345_check_out]; simp [bary, tdet, det3]
    · rw [t345_check_out]; simp [bary, tdet, det3]
    · rw [t345_check_out]; exact t345_generic _ (Or.inr rfl)
    · rw [t345_check_out]
      intro f hf hne
      simp only [List.mem_cons, List.not_mem_nil, or_false] at hf
      rcases hf with rfl | rfl | rfl | rfl
      · exact absurd rfl hne
      all_goals
        split <;> constructor <;> apply abs_proj_ge <;>
          simp only [triFlip, V3.dot, V3.cross, vNorm2, V3.sub_x, V3.sub_y, V3.sub_z] <;> norm_num
  · -- first face flipped: check point strictly inside, generic ray — verdict "inwards"
    simp only [h0, if_true] at hw ⊢
    refine (seed_verdict_geometric_tetra_partial _ _ _ _ hd).2.1 _ _ hw ?_ ?_
    · rw [t345_check_in]
      intro k
      fin_cases k <;> (simp [bary, tdet, det3]; try norm_num)
    · rw [t345_check_in]; exact t345_generic _ (Or.inl rfl)

/-- `hgeo` of `reorient_invariant_under_input_flips`, discharged for the real seed test and every subset of flipped faces -/
theorem seed_geometric_345_all (φ : Nat → Bool) :
    seedOf (meshArray verts345 (flipBy φ faces345)) (List.range faces345.length) =
      (seedOf (meshArray verts345 faces345) (List.range faces345.length) ^^ φ 0) := by
  have hl : faces345.length = 4 := rfl
  have h0 : flipBy (fun _ => false) faces345 = faces345 := by decide
  have := seed_verdict_345 (fun _ => false)
  rw [h0] at this
  rw [hl, seed_verdict_345 φ, this]; simp

/-- **`reorient_tetra345_all_flips`** — ALL hypotheses of `reorient_invariant_under_input_flips` instantiated (real carrier, REAL seed
test): the tetrahedron (0,0,0), (3,0,0), (0,4,0), (0,0,1) handed to `fix_trimesh_orientation` with ANY subset of its faces flipped comes back
as the outward listing `faces345`, and the mesh after `reorient_faces()` is `t345`.  "After the default face reorientation all faces point
outwards" — for this ONE literal mesh, in exact arithmetic. -/
theorem reorient_tetra345_all_flips (φ : Nat → Bool) :
    fixTrimeshOrientation verts345 (flipBy φ faces345) = faces345 ∧
    reorientedMesh verts345 (flipBy φ faces345) = t345 := by
  have h0 : flipBy (fun _ => false) faces345 = faces345 := by decide
  have hs : seedOf (meshArray verts345 faces345) (List.range faces345.length) = false := by
    have := seed_verdict_345 (fun _ => false); rwa [h0] at this
  have hbase : fixTrimeshOrientation verts345 faces345 = faces345 := by
    have := reorient_invariant_under_input_flips_index faces345 _ faces345_consistent faces345_edgeConnected
      (fun _ => false) (seedOf (meshArray verts345 faces345)) (fun _ => false) (by rw [hs]; rfl)
    rw [h0] at this
    show fixOrientation (seedOf (meshArray verts345 faces345)) faces345 = faces345
    rw [this]; decide
  have := reorient_invariant_under_input_flips verts345 faces345 _ faces345_consistent faces345_edgeConnected φ
    (seed_geometric_345_all φ)
  refine ⟨this.1.trans hbase, ?_⟩
  rw [this.2, reorientedMesh, hbase, meshArray345]

/-- … and a second `reorient_faces()` changes nothing (the hypothesis of `reorient_idempotent` holds here: the reoriented first face is
judged outwards by the real seed test) -/
theorem reorient_tetra345_idempotent (φ : Nat → Bool) :
    fixTrimeshOrientation verts345 (fixTrimeshOrientation verts345 (flipBy φ faces345)) =
      fixTrimeshOrientation verts345 (flipBy φ faces345) := by
  have h0 : flipBy (fun _ => false) faces345 = faces345 := by decide
  have hb := (reorient_tetra345_all_flips (fun _ => false)).1
  rw [h0] at hb
  rw [(reorient_tetra345_all_flips φ).1, hb]

-- the hypothesis `hgeo` of `reorient_idempotent` itself, with the real seed test
example (φ : Nat → Bool) :
    seedOf (meshArray verts345 (fixTrimeshOrientation verts345 (flipBy φ faces345))) (List.range (flipBy φ faces345).length) = false := by
  have h0 : flipBy (fun _ => false) faces345 = faces345 := by decide
  rw [(reorient_tetra345_all_flips φ).1, length_flipBy]
  have := seed_verdict_345 (fun _ => false)
  rwa [h0] at this

end MagpyVerif.C16

namespace MagpyVerif.C16
open MagpyVerif.Kern

-- (audit2) non-vacuity of `seed_verdict_outside_box_outwards` (it had no example).  Remark: this is the SAME facet as in the non-vacuity example
-- of part (3) of `seed_verdict_geometric_tetra_partial` — the first face of `t345` lies in a face of the bounding box, so its check point
-- (1, 4/3, −1/20000) already fails the bounding-box pre-filter and the real code never ray-tests it.  No example exercises (3) on a facet
-- whose check point is inside the box but outside the body (the slanted face of `t345`: irrational edge lengths, not done).
example : isFacetInwards ((⟨0, 0, 0⟩, ⟨0, 4, 0⟩, ⟨3, 0, 0⟩) : Tri ℝ) t345 = false := by
  apply seed_verdict_outside_box_outwards
  rw [t345_check_out]
  simp only [insideBoxV, t345_min, t345_max, pyMax_real, lt_real, Kern.n, ofNat_real]
  norm_num

end MagpyVerif.C16
