/-
Props/C15.lean — every finite input yields a finite field in bounded time (exact-arithmetic part).
Proved: for the kernels that are plain algebra, off the documented singular set every divisor
is non-zero (so in exact arithmetic the closed form is defined): Dipole off its position, Sphere
in both branches, straight segment normalisation for distinct end points.  Termination of the two
scalar Bulirsch loops of special_cel.py in exact arithmetic with an explicit iteration bound
(`celIter_terminates` for `cel_iter0`, `cel0_terminates` for `cel0`), hence of `BHJM_circle` for
every input (`bhjmCircle_terminates`: the wrapper's masks cover the set where the loop would not
exit, `circle_masks_cover_singular`); positivity of every divisor along the `cel_iter0` loop;
termination of the batch loop `cel_iterv` and of the dispatcher `cel_iter` (`celIterV_terminates`).
Cylinder (Model/Cylinder.lean): the near-axis Taylor branch divides by positive numbers only
(`cylinder_axis_branch_defined`); every `cel0` call of both kernels has a non-zero modulus off the masked
edge and `BHJM_magnet_cylinder` returns for every input with positive diameter (`cylinder_terminates`).
Cuboid: the wrapper's edge mask covers the zero set of all 24 logarithm factors of `magnet_cuboid_Bfield`
after the reflection into the bottom-Q4 octant (`cuboid_defined_off_edges`); `arctan2(0,0)` occurs exactly on
the three edge lines through the corner (a,-b,-c), extensions included, where the general branch is reached
(`cuboid_atan2_defined_off_edge_lines`, `cuboid_edge_extension_reaches_general`).
Triangle (repaired edge integral, no cancelling sums): every operation of `triangle_Bfield` is defined off the
closed edges — no further exception (`triangle_defined_off_edges`; the earlier singular cap inside the cone of the
`ind > 1e-12 l` switch is gone, `triangle_old_cap_regular`); the on-edge value is used exactly inside the `1e-15 l`
tube alongside an edge, which contains the open edge (`triangle_on_edge_branch_iff`, `triangle_on_open_edge_branch`);
a triangle without area returns 0 for every observer (`triangle_zero_area`).
Polyline: the two masks cover the singular set of the segment kernel (`polyline_masks_cover_singular`).
/- FULL: all classes, IEEE double, termination of the el3 iterations (not modelled; the vectorised `celv` — per
   entry the `cel0` loop run at least once, no `kc == 0` guard — IS modelled: `celv_terminates`, `celv_loops_at_zero`).  Not representable in
   exact real arithmetic: overflow/underflow (r**5 for r < 1e-65, sizes 1e9), NaN from inf−inf,
   float non-termination of `while |g−qc| >= qc·1e-8`.  The special-set oracle evaluates the real
   code at every boundary set ±1,2,4 ulp, denormal offsets, zero-size/zero-excitation sources and
   1e12 distances in watchdogged worker processes; its findings are recorded by input class. -/
-/
import MagpyVerif.Lemmas.KernReal
import MagpyVerif.Lemmas.KernelLiterals
import MagpyVerif.Lemmas.SegmentBS
import MagpyVerif.Lemmas.CelAGM
import MagpyVerif.Lemmas.Celv
import MagpyVerif.Lemmas.CelvDiv
import MagpyVerif.Lemmas.CelIterV
import MagpyVerif.Lemmas.KernCylinder
import MagpyVerif.Lemmas.KernDefined
import MagpyVerif.Lemmas.KernCylSegDisp
namespace MagpyVerif.C15
open MagpyVerif MagpyVerif.Kern

theorem norm_pos_of_ne_zero (x : V3 ℝ) (hx : x.x ≠ 0 ∨ x.y ≠ 0 ∨ x.z ≠ 0) : 0 < Kern.norm x := by
  simp only [Kern.norm, sqrt_real]
  apply Real.sqrt_pos.mpr
  rcases hx with h | h | h
  · nlinarith [mul_self_pos.mpr h, mul_self_nonneg x.y, mul_self_nonneg x.z]
  · nlinarith [mul_self_pos.mpr h, mul_self_nonneg x.x, mul_self_nonneg x.z]
  · nlinarith [mul_self_pos.mpr h, mul_self_nonneg x.x, mul_self_nonneg x.y]

/-- Dipole: away from the dipole position both divisors r³ and r⁵ (and 4, π) are non-zero -/
theorem dipole_defined_off_position (x : V3 ℝ) (hx : x.x ≠ 0 ∨ x.y ≠ 0 ∨ x.z ≠ 0) :
    Kern.norm x * Kern.norm x * Kern.norm x ≠ 0 ∧
    Kern.norm x * Kern.norm x * Kern.norm x * Kern.norm x * Kern.norm x ≠ 0 ∧ Real.pi ≠ 0 := by
  have h := norm_pos_of_ne_zero x hx
  exact ⟨by positivity, by positivity, Real.pi_ne_zero⟩

/-- Sphere: the only division by r⁵ sits in the outside branch, where r > |d|/2 ≥ 0 -/
theorem sphere_outside_divisor (d : ℝ) (x : V3 ℝ) (hout : |d| / 2 < Kern.norm x) :
    Kern.norm x * Kern.norm x * Kern.norm x * Kern.norm x * Kern.norm x ≠ 0 := by
  have : 0 < Kern.norm x := lt_of_le_of_lt (by positivity) hout
  positivity

/-- straight segment: the normalisation by the segment length is defined exactly for distinct
end points (zero-length segments are masked out by the wrapper) -/
theorem segment_length_pos (p1 p2 : V3 ℝ) (h : p1.x ≠ p2.x ∨ p1.y ≠ p2.y ∨ p1.z ≠ p2.z) :
    0 < Kern.norm (p1 - p2) := by
  apply norm_pos_of_ne_zero
  simp only [V3.sub_x, V3.sub_y, V3.sub_z]
  rcases h with h | h | h
  · exact Or.inl (sub_ne_zero.mpr h)
  · exact Or.inr (Or.inl (sub_ne_zero.mpr h))
  · exact Or.inr (Or.inr (sub_ne_zero.mpr h))


/-- straight segment, observer off the carrier line (the rows the wrapper's `mask1` lets through):
every divisor of the closed form — segment length, distance from the line `norm_o4`, norm of the
direction vector `norm_cros`, distances to the end points `norm_o1`, `norm_o2` — is positive, so
in exact arithmetic the kernel is defined on all of its general branch -/
theorem segment_defined_off_line (p1 p2 po : V3 ℝ)
    (hoff : 0 < SegBS.nsq (V3.cross (p2 - p1) (po - p1))) :
    let L := Kern.norm (p1 - p2)
    let q1 := vd p1 L; let q2 := vd p2 L; let qo := vd po L
    let p4 := q1 + vs (V3.dot (qo - q1) (q1 - q2)) (q1 - q2)
    0 < L ∧ 0 < Kern.norm (qo - p4) ∧ 0 < Kern.norm (V3.cross (q2 - q1) (qo - p4)) ∧
      0 < Kern.norm (qo - q1) ∧ 0 < Kern.norm (qo - q2) :=
  SegBS.segment_divisors p1 p2 po hoff

/-! ### termination of the Bulirsch `cel` loops (special_cel.py) in exact arithmetic -/

/-- `cel_iter0(qc, p, g, cc, ss, em, kk)`: whenever the loop variables `em` and `kk` are positive
(no condition on `qc`, `g`, `p`, `cc`, `ss`), the `while fabs(g - qc) >= qc*1e-8` loop exits after
at most `celFuel em kk = ⌈log₂(⌈D·1e8⌉ + 1)⌉ + 2` tests, `D = |em − 2√kk| / min(em, 2√kk)` the
relative gap of the arithmetic–geometric-mean pair after the first pass: the model returns a
value for every fuel from that bound on. -/
theorem celIter_terminates (qc p g cc ss em kk : ℝ) (hem : 0 < em) (hkk : 0 < kk) (fuel : ℕ)
    (hfuel : celFuel em kk ≤ fuel) : (celIter fuel qc p g cc ss em kk).isSome :=
  celIter_isSome_mono hfuel (celIter_isSome_celFuel qc p g cc ss em kk hem hkk)

example : (celIter (celFuel 3 2) (2 : ℝ) 3 1 1 1 3 2).isSome :=
  celIter_terminates 2 3 1 1 1 3 2 (by norm_num) (by norm_num) _ le_rfl

/-- the bound is of the stated size: it is defined as `Nat.clog 2 (⌈D / 1e-8⌉₊ + 1) + 2` -/
theorem celFuel_eq (em kk : ℝ) :
    celFuel em kk = Nat.clog 2 (⌈|em - 2 * √kk| / min em (2 * √kk) / (1 / 100000000)⌉₊ + 1) + 2 := rfl

/-- the value computed does not depend on the fuel: once `celIter` returns `v`, it returns `v` for
every larger fuel (so `some v` is *the* value of the Python loop) -/
theorem celIter_fuel_irrelevant (n k : ℕ) (qc p g cc ss em kk v : ℝ)
    (h : celIter n qc p g cc ss em kk = some v) : celIter (n + k) qc p g cc ss em kk = some v :=
  celIter_fuel_mono n k qc p g cc ss em kk v h

example : celIter (1 + 7) (1 : ℝ) 2 1 5 6 2 1 = some (Real.pi / 2 * (6 + 5 * 2) / (2 * (2 + 2))) := by
  apply celIter_fuel_irrelevant
  rw [celIter]
  simp only [Kern.n, ofNat_real, le_real, abs_real, pi_real, Nat.cast_one, Nat.cast_ofNat,
    decide_eq_true_eq]
  rw [if_neg (by norm_num)]

/-- the hypothesis `0 < kk` of `celIter_terminates` cannot be dropped: started with `kk = 0` and
`qc ≤ 0` (the Circle call on the wire, `q = 0`: the hang fixed in af5dcd4) the loop never exits -/
theorem celIter_never_exits_at_zero (fuel : ℕ) (qc p g cc ss em : ℝ) (hqc : qc ≤ 0) :
    celIter fuel qc p g cc ss em 0 = none :=
  celIter_none_of_kk_zero fuel qc p g cc ss em hqc

example : celIter 1000 (0 : ℝ) 1 1 0 0 1 0 = none := celIter_never_exits_at_zero _ _ _ _ _ _ _ le_rfl

/-- in the range `1e-40 ≤ q ≤ 1e40` the bound for the Circle / `cel0` start (`g = 1`) is at most
200, the fuel the driver uses -/
theorem celFuel1_small {q : ℝ} (h1 : 1 / 10 ^ 40 ≤ q) (h2 : q ≤ 10 ^ 40) :
    celFuel1 q (1 / 100000000) ≤ 200 := celFuel1_le_200 h1 h2

example : celFuel1 1 (1 / 100000000) = 1 := by simp [celFuel1, agmSteps]

/-- `current_circle_Hfield` for one row (`circleHcyl`, radius `r0`, observer `(r, z)` in cylinder
coordinates): for `r0 ≠ 0`, `r / r0 ≥ 0` and the observer not on the wire (`¬(z = 0 ∧ r = r0)`)
— then `q2 > 0`, the loop variable `kk = q = √q2` is positive — both `cel_iter` calls terminate:
the model returns a value for every fuel ≥ `circleFuel r0 r z` -/
theorem circle_cel_terminates (r0 r z i0 : ℝ) (hr0 : r0 ≠ 0) (hr : 0 ≤ r / r0)
    (hwire : ¬ (z = 0 ∧ r = r0)) (fuel : ℕ) (hfuel : circleFuel r0 r z ≤ fuel) :
    (circleHcyl fuel r0 r z i0).isSome :=
  circleHcyl_isSome fuel r0 r z i0 (circleQ2_pos hr0 hr hwire) hfuel

example : (circleHcyl (circleFuel 1 2 0) (1 : ℝ) 2 0 1).isSome :=
  circle_cel_terminates 1 2 0 1 (by norm_num) (by norm_num) (by norm_num) _ le_rfl

/-- the masks of `BHJM_circle` cover the singular set of the general branch: a row with
`mask1` (`r0 = 0`) and `mask2` (`|r − r0| < 1e-15·r0 ∧ |z| < 1e-15·r0`) both false has `q2 > 0`
(`r ≥ 0` holds by construction, `r = √(x² + y²)`; `mask3` is not needed for termination) -/
theorem circle_masks_cover_singular (d : ℝ) (x : V3 ℝ) (h1 : ¬ (|d / 2| = 0))
    (h2 : ¬ (|√(x.x * x.x + x.y * x.y) - (|d / 2|)| < 1 / 1000000000000000 * |d / 2| ∧
      |x.z| < 1 / 1000000000000000 * |d / 2|)) :
    0 < circleQ2 |d / 2| (√(x.x * x.x + x.y * x.y)) x.z :=
  circle_masks_imply_q2_pos d x h1 h2

example : 0 < circleQ2 |(2 : ℝ) / 2| (√((3 : ℝ) * 3 + 4 * 4)) 1 :=
  circle_masks_cover_singular 2 ⟨3, 4, 1⟩ (by norm_num) (by
    intro h
    have := h.2
    norm_num at this)

/-- Circle, general branch (masks 1–3 false: `r0 ≠ 0`, not on the wire, `r ≠ 0`): every divisor of
`current_circle_Hfield` — `r0`, `x0 = z² + (r+1)²`, `r` (also under `sqrt`), `q2`, `p = 1 + q` —
is positive (normalised `r = r/r0`, `z = z/r0`), so in exact arithmetic the closed form is defined
on all of the general branch; and the on-axis branch's divisor `(z² + r0²)^(3/2)` is positive -/
theorem circle_defined_off_singular (d : ℝ) (x : V3 ℝ) (h1 : ¬ (|d / 2| = 0))
    (h2 : ¬ (|√(x.x * x.x + x.y * x.y) - (|d / 2|)| < 1 / 1000000000000000 * |d / 2| ∧
      |x.z| < 1 / 1000000000000000 * |d / 2|))
    (h3 : ¬ (√(x.x * x.x + x.y * x.y) = 0)) :
    let r0 := |d / 2|
    let r := √(x.x * x.x + x.y * x.y) / r0
    let z := x.z / r0
    0 < r0 ∧ 0 < r ∧ 0 < √r ∧ 0 < z * z + (r + 1) * (r + 1) ∧ 0 < circleQ2 r0 (√(x.x * x.x + x.y * x.y)) x.z ∧
      0 < 1 + √(circleQ2 r0 (√(x.x * x.x + x.y * x.y)) x.z) ∧
      0 < (x.z * x.z + r0 * r0) * √(x.z * x.z + r0 * r0) := by
  intro r0 r z
  have hr0 : 0 < r0 := lt_of_le_of_ne (abs_nonneg _) (Ne.symm h1)
  have hr : 0 < r := div_pos (lt_of_le_of_ne (Real.sqrt_nonneg _) (Ne.symm h3)) hr0
  have hq := circle_masks_imply_q2_pos d x h1 h2
  have hw : 0 < x.z * x.z + r0 * r0 := by nlinarith [mul_self_nonneg x.z, mul_pos hr0 hr0]
  refine ⟨hr0, hr, Real.sqrt_pos.2 hr, by nlinarith [mul_self_nonneg z], hq, ?_, ?_⟩
  · have := Real.sqrt_nonneg (circleQ2 r0 (√(x.x * x.x + x.y * x.y)) x.z); linarith
  · exact mul_pos hw (Real.sqrt_pos.2 hw)

example : 0 < circleQ2 |(2 : ℝ) / 2| (√((3 : ℝ) * 3 + 4 * 4)) 0 :=
  (circle_defined_off_singular 2 ⟨3, 4, 0⟩ (by norm_num) (by
    intro h
    have h5 : √((3 : ℝ) * 3 + 4 * 4) = 5 := by
      rw [show (3 : ℝ) * 3 + 4 * 4 = 5 ^ 2 by norm_num]; exact Real.sqrt_sq (by norm_num)
    have := h.1
    simp only [h5] at this
    norm_num at this) (by
    intro h
    have h5 : √((3 : ℝ) * 3 + 4 * 4) = 5 := by
      rw [show (3 : ℝ) * 3 + 4 * 4 = 5 ^ 2 by norm_num]; exact Real.sqrt_sq (by norm_num)
    rw [h5] at h; norm_num at h)).2.2.2.2.1

/-- `BHJM_circle` for one row, every field, every diameter, current and observer (in exact
arithmetic no input is excluded): the special cases return at once and in the general branch
both cel iterations exit; the model returns a value for every fuel ≥ `circleFuelX d x` -/
theorem bhjmCircle_terminates (f : Field) (d cur : ℝ) (x : V3 ℝ) (fuel : ℕ)
    (hfuel : circleFuelX d x ≤ fuel) : (bhjmCircle fuel f d cur x).isSome :=
  bhjmCircle_isSome fuel f d cur x hfuel

example : (bhjmCircle (circleFuelX 2 ⟨3, 4, 1⟩) .B (2 : ℝ) 1 ⟨3, 4, 1⟩).isSome :=
  bhjmCircle_terminates .B 2 1 ⟨3, 4, 1⟩ _ le_rfl

/-- a value returned by `celIter` is the return expression of `cel_iter0` evaluated at the first
state of the orbit of the loop body (`celRowStep`) at which the `while` condition (`celRowCont`)
fails, and the loop body was executed on exactly the earlier states of the orbit -/
theorem celIter_value_spec (fuel : ℕ) (s : CelRow ℝ) (v : ℝ)
    (h : celIter fuel s.qc s.p s.g s.cc s.ss s.em s.kk = some v) :
    ∃ m, m < fuel ∧ (∀ j, j < m → celRowCont (celRowStep^[j] s) = true) ∧
      celRowCont (celRowStep^[m] s) = false ∧ v = celRowOut (celRowStep^[m] s) :=
  celIterRow_some_spec fuel s v h

/-- along the whole orbit of the `cel_iter0` loop body started with `p, em, kk > 0`, the divisor
`p` of the loop body and the divisor `em·(em + p)` of the return expression are non-zero (even
positive): every division executed is defined -/
theorem celIter_divisors_nonzero (s : CelRow ℝ) (hp : 0 < s.p) (hem : 0 < s.em) (hkk : 0 < s.kk)
    (n : ℕ) : (celRowStep^[n] s).p ≠ 0 ∧
      (celRowStep^[n] s).em * ((celRowStep^[n] s).em + (celRowStep^[n] s).p) ≠ 0 := by
  obtain ⟨h1, h2, _⟩ := celRowIterate_pos hp hem hkk n
  exact ⟨h1.ne', (by positivity :
    0 < (celRowStep^[n] s).em * ((celRowStep^[n] s).em + (celRowStep^[n] s).p)).ne'⟩

/-- the Circle calls `cel_iter(q, p, 1, cc, ss, p, q)` with `p = 1 + q`, `q > 0` start in a state
meeting the hypotheses of `celIter_divisors_nonzero` -/
example (q cc ss : ℝ) (hq : 0 < q) (n : ℕ) :
    (celRowStep^[n] (⟨q, 1 + q, 1, cc, ss, 1 + q, q⟩ : CelRow ℝ)).p ≠ 0 :=
  (celIter_divisors_nonzero ⟨q, 1 + q, 1, cc, ss, 1 + q, q⟩ (by positivity) (by positivity) hq n).1

/-- `cel_iterv` on a batch (every entry is stepped until `np.any(fabs(g - qc) >= qc*1e-8)` is
false): if every row has `em, kk > 0` the loop exits after at most `celFuelV rows` (the largest of
the rows' bounds `celFuel em kk`) tests — a row that has met its exit test keeps meeting it while
the others are still iterating (`CelInv.exit_stable`) -/
theorem celIterV_terminates (rows : List (CelRow ℝ)) (hpos : ∀ s ∈ rows, 0 < s.em ∧ 0 < s.kk)
    (fuel : ℕ) (hfuel : celFuelV rows ≤ fuel) : (celIterV fuel rows).isSome :=
  celIterV_isSome_celFuelV rows hpos fuel hfuel

example : (celIterV (celFuelV [⟨2, 3, 1, 1, 1, 3, 2⟩, ⟨1, 1, 1, 0, 1, 5, 7⟩])
    [(⟨2, 3, 1, 1, 1, 3, 2⟩ : CelRow ℝ), ⟨1, 1, 1, 0, 1, 5, 7⟩]).isSome :=
  celIterV_terminates _ (by
    intro s hs
    simp only [List.mem_cons, List.not_mem_nil, or_false] at hs
    rcases hs with rfl | rfl <;> norm_num) _ le_rfl

/-- `cel_iter` as written (scalar loop on each entry for fewer than 15 entries, result unused,
then `cel_iterv` on the batch) terminates under the same hypothesis with the same bound -/
theorem celIterDispatch_terminates (rows : List (CelRow ℝ))
    (hpos : ∀ s ∈ rows, 0 < s.em ∧ 0 < s.kk) (fuel : ℕ) (hfuel : celFuelV rows ≤ fuel) :
    (celIterDispatch fuel rows).isSome :=
  celIterDispatch_isSome_celFuelV rows hpos fuel hfuel

example : (celIterDispatch (celFuelV [⟨2, 3, 1, 1, 1, 3, 2⟩]) [(⟨2, 3, 1, 1, 1, 3, 2⟩ : CelRow ℝ)]).isSome :=
  celIterDispatch_terminates _ (by
    intro s hs
    simp only [List.mem_cons, List.not_mem_nil, or_false] at hs
    subst hs; norm_num) _ le_rfl

/-- on a batch of one row `cel_iterv` is `cel_iter0` (so the one-row Circle model `circleHcyl`,
written with the scalar loop, is the code path `cel_iter → cel_iterv` for a single observer) -/
theorem celIterV_single (fuel : ℕ) (s : CelRow ℝ) :
    celIterV fuel [s] = (celIter fuel s.qc s.p s.g s.cc s.ss s.em s.kk).map (fun v => [v]) :=
  celIterV_singleton fuel s

/-- `cel0(kc, p, c, s)` (the scalar routine of the Cylinder kernels, errtol 1e-6): for `kc ≠ 0`
and all `p, c, s` the `while abs(g - k) > g*errtol` loop exits after at most
`celFuel1 |kc| 1e-6 = ⌈log₂(⌈D·1e6⌉ + 1)⌉ + 1` tests, `D = |1 − |kc|| / min(1, |kc|)` -/
theorem cel0_terminates (kc p c s : ℝ) (hkc : kc ≠ 0) (fuel : ℕ)
    (hfuel : celFuel1 |kc| (1 / 1000000) ≤ fuel) : (cel0 fuel kc p c s).isSome := by
  obtain ⟨v, hv⟩ := Option.isSome_iff_exists.mp (cel0_isSome_celFuel1 kc p c s hkc)
  obtain ⟨k, rfl⟩ := Nat.exists_eq_add_of_le hfuel
  rw [cel0_fuel_mono _ k kc p c s v hv]; rfl

example : (cel0 (celFuel1 |(-3 : ℝ)| (1 / 1000000)) (-3 : ℝ) (-2) 1 1).isSome :=
  cel0_terminates (-3) (-2) 1 1 (by norm_num) _ le_rfl

/-- `cel0` fails (`raise RuntimeError("FAIL")`, `none` in the model) exactly for `kc = 0`, given
enough fuel -/
theorem cel0_none_iff (kc p c s : ℝ) (fuel : ℕ) (hfuel : celFuel1 |kc| (1 / 1000000) ≤ fuel) :
    cel0 fuel kc p c s = none ↔ kc = 0 := by
  constructor
  · intro h
    by_contra hkc
    have := cel0_terminates kc p c s hkc fuel hfuel
    rw [h] at this
    exact absurd this (by simp)
  · rintro rfl
    exact cel0_eq_none_of_zero fuel p c s

example : cel0 5 (0 : ℝ) 1 1 1 = none := (cel0_none_iff 0 1 1 1 5 (by simp [celFuel1, agmSteps])).mpr rfl

/-- the value of `cel0` does not depend on the fuel -/
theorem cel0_fuel_irrelevant (n k : ℕ) (kc p c s v : ℝ) (h : cel0 n kc p c s = some v) :
    cel0 (n + k) kc p c s = some v :=
  cel0_fuel_mono n k kc p c s v h

/-! ### the vectorised `celv` and the dispatcher `cel` (Model/Celv.lean) -/

/-- `celv(kc, p, c, s)` on a batch (masked loop, body before the first test, no `kc == 0` guard): if every entry has
`kc ≠ 0` (the termination hypothesis of `cel0_terminates`; no condition on `p`, `c`, `s`, on the length or on the order
of the batch) the `while np.any(mask)` loop ends after at most `celvFuel batch` passes — the LARGEST of the entries'
`cel0` bounds `celFuel1 |kc| 1e-6 = ⌈log₂(⌈D·1e6⌉ + 1)⌉ + 1`, `D = |1 − |kc|| / min(1, |kc|)`: an entry stops when its
own test fails and is not touched while the others go on -/
theorem celv_terminates (batch : List (CelArg ℝ)) (hkc : ∀ x ∈ batch, x.kc ≠ 0) (fuel : ℕ)
    (hfuel : celvFuel batch ≤ fuel) : (celv fuel batch).isSome :=
  celv_isSome_celvFuel batch hkc fuel hfuel

example : (celv (celvFuel [⟨2, 1, 1, 1⟩, ⟨-3, -2, 1, 1⟩, ⟨2, 1, 1, 1⟩])
    [(⟨2, 1, 1, 1⟩ : CelArg ℝ), ⟨-3, -2, 1, 1⟩, ⟨2, 1, 1, 1⟩]).isSome :=
  celv_terminates _ (by
    intro x hx
    simp only [List.mem_cons, List.not_mem_nil, or_false] at hx
    rcases hx with rfl | rfl | rfl <;> norm_num) _ le_rfl

/-- the bound is the maximum of the entries' bounds: it dominates each of them and is attained (or is 0 for the
empty batch) -/
theorem celvFuel_is_max (batch : List (CelArg ℝ)) :
    (∀ x ∈ batch, celFuel1 |x.kc| (1 / 1000000) ≤ celvFuel batch) ∧
    (batch = [] ∧ celvFuel batch = 0 ∨ ∃ x ∈ batch, celvFuel batch = celFuel1 |x.kc| (1 / 1000000)) := by
  refine ⟨fun x hx => celFuel1_le_celvFuel hx, ?_⟩
  induction batch with
  | nil => exact Or.inl ⟨rfl, rfl⟩
  | cons a t ih =>
    right
    rcases ih with ⟨rfl, h0⟩ | ⟨x, hx, hx2⟩
    · exact ⟨a, by simp, by simp [celvFuel]⟩
    · rcases le_total (celFuel1 |a.kc| (1 / 1000000)) (celvFuel t) with h | h
      · exact ⟨x, by simp [hx], by rw [← hx2]; exact max_eq_right h⟩
      · exact ⟨a, by simp, max_eq_left h⟩

/-- the value of `celv` does not depend on the fuel -/
theorem celv_fuel_irrelevant (n k : ℕ) (batch : List (CelArg ℝ)) (vs : List ℝ) (h : celv n batch = some vs) :
    celv (n + k) batch = some vs := by
  rw [celv_eq_seqOpt_celv1, seqOpt_eq_some_iff] at h ⊢
  rw [← h]
  apply List.map_congr_left
  intro x hx
  have hs := isSome_of_map_eq_map_some _ _ _ h x hx
  obtain ⟨v, hv⟩ := Option.isSome_iff_exists.mp hs
  rw [hv]
  unfold celv1 at hv ⊢
  exact celvDo_fuel_mono n k _ v hv

/-- **no division by zero inside `celv` / `cel0`** (exact arithmetic): for `kc ≠ 0` and ARBITRARY `p`, `c`, `s` every divisor of the
routine is positive — the prologue's `g = 1 − p` (branch `p <= 0`) and `pp` (`√p`, resp. `√((kc² − p)/(1 − p))`; divisors `s / pp`,
`-q / (g*g*pp)`, `ss / pp`, `k / pp`), the loop's `pp` at every pass (`ss / pp`, `kk / pp`) and the return expression's
`em * (em + pp)` at every pass.  The list of divisors is read off the source (header of Lemmas/CelvDiv.lean); the states are those of
the model (`celvInit`, `celvStep`), and `celv_value_is_out_after_passes` says a returned value is the return expression at one of them -/
theorem celv_divisors_nonzero (x : CelArg ℝ) (hkc : x.kc ≠ 0) :
    (x.p ≤ 0 → 0 < 1 - x.p) ∧ 0 < (celvPre x.kc x.p x.c x.s).1 ∧
    ∀ m, 0 < (celvStep^[m] (celvInit x)).pp ∧
      0 < (celvStep^[m] (celvInit x)).em * ((celvStep^[m] (celvInit x)).em + (celvStep^[m] (celvInit x)).pp) := by
  refine ⟨fun hp => by linarith, celvPre_pp_pos _ _ _ _ hkc, fun m => ?_⟩
  obtain ⟨h1, h2, _⟩ := celvIterate_pos x hkc m
  exact ⟨h1, by positivity⟩

example : 0 < (celvPre (2 : ℝ) (-3) 1 1).1 := (celv_divisors_nonzero ⟨2, -3, 1, 1⟩ (by norm_num)).2.1

/-- any carrier: a value `celv` returns for an entry is the return expression after `m ≥ 1` passes -/
theorem celv_value_is_out_after_passes {α : Type} [Num α] (fuel : ℕ) (x : CelArg α) (v : α) (h : celv1 fuel x = some v) :
    ∃ m, 1 ≤ m ∧ m ≤ fuel ∧ v = celvOut (celvStep^[m] (celvInit x)) :=
  celvDo_some_spec fuel _ v h

/-- the hypothesis `kc ≠ 0` of `celv_divisors_nonzero` cannot be dropped: for `kc = 0`, `p = 0` the prologue's `pp` is 0 and the next
statements divide by it.  (On the real code `cel0` raises RuntimeError at `kc == 0` before it gets there; `celv` has no guard and
does not return for such an entry, `celv_loops_at_zero`.  In IEEE double the same happens for `0 < |kc| < 1.5e-162`, `p = 0`, where
`kc*kc` underflows to 0: `cel0(1e-162, 0, 1, 0.3)` returns NaN — not reachable through Cylinder, whose `kc` with `p = 0` is either
exactly 0 or ≥ 2.2e-162) -/
theorem celv_divisor_vanishes_at_zero (c s : ℝ) : (celvPre 0 0 c s).1 = 0 := celvPre_pp_zero c s

/-- the hypothesis `kc ≠ 0` of `celv_terminates` cannot be dropped, and one such entry is enough: a batch that
contains an entry with `kc = 0` never leaves the loop, whatever the other entries are (its `k` stays 0 and its `g`
stays 1, so `|g − k| > g·1e-6` holds after every pass) — no row of the call gets a result.  This is the known finding
`hang-or-crash:Cylinder:denormal-height` (≥ 10 observers; for fewer `cel0` raises `RuntimeError`, `cel0_none_iff`) -/
theorem celv_loops_at_zero (batch : List (CelArg ℝ)) (x : CelArg ℝ) (hx : x ∈ batch) (hkc : x.kc = 0) (fuel : ℕ) :
    celv fuel batch = none := by
  rw [celv_eq_seqOpt_celv1]
  apply seqOpt_eq_none_of_mem
  exact List.mem_map.mpr ⟨x, hx, celv1_none_of_kc_zero fuel x hkc⟩

example : celv 1000 [(⟨2, 1, 1, 1⟩ : CelArg ℝ), ⟨0, 1, 1, 1⟩, ⟨3, 1, 1, 1⟩] = none :=
  celv_loops_at_zero _ ⟨0, 1, 1, 1⟩ (by simp) rfl _

/-- the dispatcher `cel` (list comprehension over `cel0` below 10 entries, `celv` from 10 on) returns for every batch
all of whose entries have `kc ≠ 0`, with the same bound on either side of the threshold -/
theorem celDispatch_terminates (batch : List (CelArg ℝ)) (hkc : ∀ x ∈ batch, x.kc ≠ 0) (fuel : ℕ)
    (hfuel : celvFuel batch ≤ fuel) : (celDispatch fuel batch).isSome := by
  unfold celDispatch
  split_ifs
  · rw [seqOpt_isSome_iff]
    intro o ho
    obtain ⟨x, hx, rfl⟩ := List.mem_map.mp ho
    exact cel0_terminates x.kc x.p x.c x.s (hkc x hx) fuel (le_trans (celFuel1_le_celvFuel hx) hfuel)
  · exact celv_terminates batch hkc fuel hfuel

example : (celDispatch (celvFuel (List.replicate 12 ⟨2, 1, 1, 1⟩)) (List.replicate 12 (⟨2, 1, 1, 1⟩ : CelArg ℝ))).isSome :=
  celDispatch_terminates _ (by
    intro x hx
    rw [List.eq_of_mem_replicate hx]; norm_num) _ le_rfl

/-- with an entry `kc = 0` the dispatcher returns on neither side of the threshold (model `none`: `RuntimeError` of
`cel0` below 10 entries, the endless loop of `celv` from 10 on) -/
theorem celDispatch_none_at_zero (batch : List (CelArg ℝ)) (x : CelArg ℝ) (hx : x ∈ batch) (hkc : x.kc = 0) (fuel : ℕ) :
    celDispatch fuel batch = none := by
  unfold celDispatch
  split_ifs
  · apply seqOpt_eq_none_of_mem
    refine List.mem_map.mpr ⟨x, hx, ?_⟩
    unfold cel0Arg
    rw [hkc]
    exact cel0_eq_none_of_zero fuel x.p x.c x.s
  · exact celv_loops_at_zero batch x hx hkc fuel

/-! ### Cylinder: the near-axis branch -/

/-- C15 (Cylinder): for `r/r0 < 0.05` (observers on and near the axis, where the general diametral
formula divides by `r²`) `magnet_cylinder_diametral_Hfield` takes its Taylor branch: no elliptic
integral is evaluated (the model returns a value for every fuel, also 0) and every divisor of the
branch — `zpp = (z+z0)²+1`, `zmm = (z−z0)²+1`, their square roots and their powers up to the fifth,
besides the constants 4, 8, 64 — is positive, for every `z0`, `z`, `phi` and every `r` (also `r = 0`) -/
theorem cylinder_axis_branch_defined (fuel : Nat) (z0 r z phi : ℝ) (hr : r < 5 / 100) :
    cylDiametralH fuel z0 r z phi = some (cylDiametralSmallR z0 r z phi) ∧
    (let zpp := (z + z0) * (z + z0) + 1
     let zmm := (z - z0) * (z - z0) + 1
     0 < zpp ∧ 0 < zmm ∧ 0 < Real.sqrt zpp ∧ 0 < Real.sqrt zmm ∧
     0 < zpp * zpp ∧ 0 < zmm * zmm ∧ 0 < zpp * zpp * zpp ∧ 0 < zmm * zmm * zmm ∧
     0 < zpp * zpp * zpp * zpp ∧ 0 < zmm * zmm * zmm * zmm ∧
     0 < zpp * zpp * zpp * zpp * zpp ∧ 0 < zmm * zmm * zmm * zmm * zmm) := by
  obtain ⟨h1, h2, h3, h4⟩ := cylSmallR_divisors z0 z
  refine ⟨?_, h1, h2, h3, h4, ?_, ?_, ?_, ?_, ?_, ?_, ?_, ?_⟩
  · have : r < (5 : ℝ) / 100 := hr
    simp only [cylDiametralH, lt_real, n, ofNat_real, Nat.cast_ofNat, this, decide_true, if_true]
  all_goals positivity

-- non-vacuity: exactly on the axis
example : cylDiametralH 0 (1 : ℝ) 0 2 0 = some (cylDiametralSmallR 1 0 2 0) :=
  (cylinder_axis_branch_defined 0 1 0 2 0 (by norm_num)).1

/-- C15 (Cylinder): the geometric edge `r = r0 ∧ |z| = h/2` — the only observers where a modulus
`k1` / `k0` of the axial kernel vanishes, i.e. where `cel0` would `raise RuntimeError("FAIL")` — lies
inside the wrapper's on-edge mask (`np.isclose` accepts exact equality), so those rows never reach
the kernels; off that set both moduli are non-zero (for `r ≥ 0`), and the moduli `sqrt(1 − argp)`,
`sqrt(1 − argm)` of the diametral kernel are non-zero for every `r ≥ 0` -/
theorem cylinder_edge_mask_covers_singular (z0 r z : ℝ) (hr : 0 ≤ r) :
    (r = 1 → |z| = z0 → (cylMasks z0 r z).onEdge = true) ∧
    (¬ (z + z0 = 0 ∧ r = 1) → cylK (z + z0) r ≠ 0) ∧ (¬ (z - z0 = 0 ∧ r = 1) → cylK (z - z0) r ≠ 0) ∧
    cylKd (z + z0) r ≠ 0 ∧ cylKd (z - z0) r ≠ 0 :=
  ⟨cylMasks_onEdge_of_eq z0 r z, cylK_ne_zero _ r hr, cylK_ne_zero _ r hr, cylKd_ne_zero _ r hr, cylKd_ne_zero _ r hr⟩

/-- C15 (Cylinder): `BHJM_magnet_cylinder` for one row returns a value for every field, every
polarization and every observer — inside, outside, on hull, bases, edge and axis — of every cylinder
with positive diameter and non-negative height, in exact arithmetic: each of the up to ten `cel0`
calls has a non-zero modulus (the rows where it would vanish are masked, see above) and its
`while` loop exits; the model returns a value for every fuel ≥ `cylFuelX d h x`
(the largest `celFuel1 |kc| 1e-6` over the four moduli) -/
theorem cylinder_terminates (f : Field) (d h : ℝ) (pol x : V3 ℝ) (hd : 0 < d) (hh : 0 ≤ h) (fuel : ℕ)
    (hfuel : cylFuelX d h x ≤ fuel) : (bhjmCylinder fuel f (d, h) pol x).isSome :=
  bhjmCylinder_isSome fuel f d h pol x hd hh hfuel

example : (bhjmCylinder (cylFuelX 2 3 ⟨3, 4, 1⟩) .B ((2 : ℝ), 3) ⟨1, 2, 3⟩ ⟨3, 4, 1⟩).isSome :=
  cylinder_terminates .B 2 3 _ _ (by norm_num) (by norm_num) _ le_rfl

/-! ### Cuboid: the edge mask covers the singular set of the closed form -/

/-- C15 (Cuboid): a row that `BHJM_magnet_cuboid` sends to the general branch (`mask_gen`: polarization
and all side lengths non-zero, observer not within the relative tolerance `1e-15` of one of the
twelve body edges), for positive side lengths: after the reflection into the bottom-Q4 octant
(`cuboidReflect`, `x ↦ |x|, y ↦ -|y|, z ↦ -|z|`) each of the 24 factors inside the six logarithms of
`magnet_cuboid_Bfield` has a fixed sign (`CuboidLogSigns`: 20 are positive; the four that the source
writes `(ymb - mmp)`, `(ypb - ppp)`, `(zmc - mpm)`, `(zpc - ppp)` are negative, two in each of two
products), all six products — spelled here as in the source — are positive, and the three logarithmic
factors of the model `cuboidFF` are sums of logarithms of positive numbers.  Only the three factors
containing the corner distance `mpp` can vanish at all, and they do so exactly on the closed body
edges (`cuboid_log_zero_on_edge_x/y/z`), not on their extensions: the mask covers the singular set. -/
theorem cuboid_defined_off_edges (dim pol obs : V3 ℝ) (hx : 0 < dim.x) (hy : 0 < dim.y)
    (hz : 0 < dim.z) (hgen : (cuboidMasks dim pol obs).general = true) :
    let r := cuboidReflect obs
    let xma := r.x - dim.x / 2; let xpa := r.x + dim.x / 2
    let ymb := r.y - dim.y / 2; let ypb := r.y + dim.y / 2
    let zmc := r.z - dim.z / 2; let zpc := r.z + dim.z / 2
    let mmm := √(xma * xma + ymb * ymb + zmc * zmc); let pmp := √(xpa * xpa + ymb * ymb + zpc * zpc)
    let pmm := √(xpa * xpa + ymb * ymb + zmc * zmc); let mmp := √(xma * xma + ymb * ymb + zpc * zpc)
    let mpm := √(xma * xma + ypb * ypb + zmc * zmc); let ppp := √(xpa * xpa + ypb * ypb + zpc * zpc)
    let ppm := √(xpa * xpa + ypb * ypb + zmc * zmc); let mpp := √(xma * xma + ypb * ypb + zpc * zpc)
    CuboidLogSigns xma xpa ymb ypb zmc zpc ∧
    0 < (xma + mmm) * (xpa + ppm) * (xpa + pmp) * (xma + mpp) ∧
    0 < (xpa + pmm) * (xma + mpm) * (xma + mmp) * (xpa + ppp) ∧
    0 < (-ymb + mmm) * (-ypb + ppm) * (-ymb + pmp) * (-ypb + mpp) ∧
    0 < (-ymb + pmm) * (-ypb + mpm) * (ymb - mmp) * (ypb - ppp) ∧
    0 < (-zmc + mmm) * (-zmc + ppm) * (-zpc + pmp) * (-zpc + mpp) ∧
    0 < (-zmc + pmm) * (zmc - mpm) * (-zpc + mmp) * (zpc - ppp) ∧
    (cuboidFF xma xpa ymb ypb zmc zpc).ff2x =
      Real.log (xma + mmm) + Real.log (xpa + ppm) + Real.log (xpa + pmp) + Real.log (xma + mpp) -
      (Real.log (xpa + pmm) + Real.log (xma + mpm) + Real.log (xma + mmp) + Real.log (xpa + ppp)) ∧
    (cuboidFF xma xpa ymb ypb zmc zpc).ff2y =
      Real.log (-ymb + mmm) + Real.log (-ypb + ppm) + Real.log (-ymb + pmp) + Real.log (-ypb + mpp) -
      (Real.log (-ymb + pmm) + Real.log (-ypb + mpm) + Real.log (-(ymb - mmp)) + Real.log (-(ypb - ppp))) ∧
    (cuboidFF xma xpa ymb ypb zmc zpc).ff2z =
      Real.log (-zmc + mmm) + Real.log (-zmc + ppm) + Real.log (-zpc + pmp) + Real.log (-zpc + mpp) -
      (Real.log (-zmc + pmm) + Real.log (-(zmc - mpm)) + Real.log (-zpc + mmp) + Real.log (-(zpc - ppp))) := by
  intro r xma xpa ymb ypb zmc zpc mmm pmp pmm mmp mpm ppp ppm mpp
  obtain ⟨h1, h2, h3, hoff⟩ := cuboidMasks_general_off_edges dim pol obs hx hy hz hgen
  have S : CuboidLogSigns xma xpa ymb ypb zmc zpc := cuboid_log_signs h1 h2 h3 hoff
  have L := cuboidFF_logs_of_signs S
  refine ⟨S, ?_, ?_, ?_, ?_, ?_, ?_, L.1, L.2.1, L.2.2⟩
  · exact mul_pos (mul_pos (mul_pos S.x1 S.x2) S.x3) S.x4
  · exact mul_pos (mul_pos (mul_pos S.x5 S.x6) S.x7) S.x8
  · exact mul_pos (mul_pos (mul_pos S.y1 S.y2) S.y3) S.y4
  · have := mul_pos (mul_pos (mul_pos S.y5 S.y6) (neg_pos.mpr S.y7)) (neg_pos.mpr S.y8)
    simp only [cdist] at this
    nlinarith [this]
  · exact mul_pos (mul_pos (mul_pos S.z1 S.z2) S.z3) S.z4
  · have := mul_pos (mul_pos (mul_pos S.z5 (neg_pos.mpr S.z6)) S.z7) (neg_pos.mpr S.z8)
    simp only [cdist] at this
    nlinarith [this]

-- non-vacuity: an observer outside, one on a face, one on an edge *extension* are general rows
example : (cuboidMasks (⟨1, 2, 3⟩ : V3 ℝ) ⟨0, 0, 1⟩ ⟨2, 3, 4⟩).general = true := by
  simp [cuboidMasks, n]; norm_num
example : (cuboidMasks (⟨1, 2, 3⟩ : V3 ℝ) ⟨0, 0, 1⟩ ⟨1 / 2, 0, 0⟩).general = true := by
  simp [cuboidMasks, n]; norm_num
example : 0 < (cuboidReflect (⟨2, 3, 4⟩ : V3 ℝ)).x - 1 / 2 +
    √(((cuboidReflect (⟨2, 3, 4⟩ : V3 ℝ)).x - 1 / 2) * ((cuboidReflect (⟨2, 3, 4⟩ : V3 ℝ)).x - 1 / 2) +
      ((cuboidReflect (⟨2, 3, 4⟩ : V3 ℝ)).y + 2 / 2) * ((cuboidReflect (⟨2, 3, 4⟩ : V3 ℝ)).y + 2 / 2) +
      ((cuboidReflect (⟨2, 3, 4⟩ : V3 ℝ)).z + 3 / 2) * ((cuboidReflect (⟨2, 3, 4⟩ : V3 ℝ)).z + 3 / 2)) :=
  (cuboid_defined_off_edges ⟨1, 2, 3⟩ ⟨0, 0, 1⟩ ⟨2, 3, 4⟩ (by norm_num) (by norm_num) (by norm_num)
    (by simp [cuboidMasks, n]; norm_num)).1.x4

/-- C15 (Cuboid): a general row whose reflected observer is moreover off the three edge *lines*
through the corner `(a, -b, -c)` (body edges and their extensions): none of the 24 `arctan2` calls
of `magnet_cuboid_Bfield` (`cuboidAtan2Args`, tied to the model by `cuboidFF_atan2_args`) receives
`(0, 0)`.  The extra hypothesis is necessary, see `cuboid_edge_extension_reaches_general`. -/
theorem cuboid_atan2_defined_off_edge_lines (dim pol obs : V3 ℝ) (hx : 0 < dim.x) (hy : 0 < dim.y)
    (hz : 0 < dim.z) (hgen : (cuboidMasks dim pol obs).general = true)
    (hline : ¬ (|obs.x| = dim.x / 2 ∧ |obs.y| = dim.y / 2) ∧ ¬ (|obs.x| = dim.x / 2 ∧ |obs.z| = dim.z / 2) ∧
      ¬ (|obs.y| = dim.y / 2 ∧ |obs.z| = dim.z / 2)) :
    let r := cuboidReflect obs
    ∀ p ∈ cuboidAtan2Args (r.x - dim.x / 2) (r.x + dim.x / 2) (r.y - dim.y / 2) (r.y + dim.y / 2)
      (r.z - dim.z / 2) (r.z + dim.z / 2), p.1 ≠ 0 ∨ p.2 ≠ 0 := by
  intro r
  obtain ⟨h1, h2, h3, _⟩ := cuboidMasks_general_off_edges dim pol obs hx hy hz hgen
  have hr : r = ⟨|obs.x|, -|obs.y|, -|obs.z|⟩ := cuboidReflect_eq obs
  refine cuboid_atan2_args_ne_zero h1 h2 h3 ?_ ?_ ?_ <;> simp only [hr] <;> rintro ⟨e1, e2⟩
  · exact hline.1 ⟨by linarith, by linarith⟩
  · exact hline.2.1 ⟨by linarith, by linarith⟩
  · exact hline.2.2 ⟨by linarith, by linarith⟩

example : ∀ p ∈ cuboidAtan2Args ((cuboidReflect (⟨2, 3, 4⟩ : V3 ℝ)).x - 1 / 2) ((cuboidReflect (⟨2, 3, 4⟩ : V3 ℝ)).x + 1 / 2)
    ((cuboidReflect (⟨2, 3, 4⟩ : V3 ℝ)).y - 2 / 2) ((cuboidReflect (⟨2, 3, 4⟩ : V3 ℝ)).y + 2 / 2)
    ((cuboidReflect (⟨2, 3, 4⟩ : V3 ℝ)).z - 3 / 2) ((cuboidReflect (⟨2, 3, 4⟩ : V3 ℝ)).z + 3 / 2), p.1 ≠ 0 ∨ p.2 ≠ 0 :=
  cuboid_atan2_defined_off_edge_lines ⟨1, 2, 3⟩ ⟨0, 0, 1⟩ ⟨2, 3, 4⟩ (by norm_num) (by norm_num) (by norm_num)
    (by simp [cuboidMasks, n]; norm_num) (by norm_num)

/-- C15 (Cuboid), what the edge mask does NOT cover: on the *extension* of a body edge (here the
observer `(a, -b, -2c)` of the cuboid with sides `(1, 2, 3)`, on the line through the vertical edge
`x = a, y = -b` below the body) the row is a general row, all logarithm arguments are positive
(`cuboid_defined_off_edges` applies), and `arctan2(0, 0)` IS evaluated.  In IEEE arithmetic that is
not an error (`numpy.arctan2(±0, +0) = ±0`) and the occurrences enter `ff1x`, `ff1y` with opposite
signs; the real code returns the continuous finite value there (probed, see the report). -/
theorem cuboid_edge_extension_reaches_general :
    (cuboidMasks (⟨1, 2, 3⟩ : V3 ℝ) ⟨0, 0, 1⟩ ⟨1 / 2, -1, -3⟩).general = true ∧
    (0, 0) ∈ cuboidAtan2Args ((cuboidReflect (⟨1 / 2, -1, -3⟩ : V3 ℝ)).x - 1 / 2)
      ((cuboidReflect (⟨1 / 2, -1, -3⟩ : V3 ℝ)).x + 1 / 2) ((cuboidReflect (⟨1 / 2, -1, -3⟩ : V3 ℝ)).y - 2 / 2)
      ((cuboidReflect (⟨1 / 2, -1, -3⟩ : V3 ℝ)).y + 2 / 2) ((cuboidReflect (⟨1 / 2, -1, -3⟩ : V3 ℝ)).z - 3 / 2)
      ((cuboidReflect (⟨1 / 2, -1, -3⟩ : V3 ℝ)).z + 3 / 2) := by
  refine ⟨by simp [cuboidMasks, n]; norm_num, ?_⟩
  apply cuboid_atan2_zero_on_edge_lines
  left
  rw [cuboidReflect_eq]
  norm_num

/-! ### Triangle sheet (`triangle_Bfield`; also every face of Tetrahedron and TriangularMesh) -/

theorem sub_add_sub_edge (a b o : V3 ℝ) : (a - o) + (b - a) = b - o := by
  apply V3.ext' <;> simp only [V3.add_x, V3.add_y, V3.add_z, V3.sub_x, V3.sub_y, V3.sub_z] <;> ring

theorem originOnSegment_symm {R S : V3 ℝ} (h : OriginOnSegment R S) : OriginOnSegment S R := by
  obtain ⟨t, h0, h1, hx, hy, hz⟩ := h
  exact ⟨1 - t, by linarith, by linarith, by linarith, by linarith, by linarith⟩

/-- C15 (Triangle): the masks of `triangle_Bfield` are the zero-area mask (`|n| == 0`) and, per edge, the
on-edge test of the edge integral (`rho2 <= 1e-30 l2`, `a < 0 < c`).  For a triangle with non-zero normal vector
and an observer that is not on one of the three *closed edges* (vertices included; the edge *extensions*, the
plane of the triangle and every neighbourhood of the edge lines are allowed) every operation of the kernel is
defined: the zero-area mask is not taken and the normalisation divides by `|n| > 0`; for each edge the branch of
`triEdgeI` that is taken — the on-edge value `log(-a/c)/l` inside the `1e-15 l` tube alongside the edge, else
the sub-branch selected by the signs of `a`, `c` (`TriEdgeDefined`, tied to the model by
`triEdgeI_eq`/`triEdgeS`) — takes square roots of non-negative numbers, divides by positive numbers and takes
`log` of a positive number; the `arctan2` of `solid_angle` does not receive `(0, 0)`.
There is no further hypothesis: the cone around the ray from an edge's start vertex along the edge, in which
the earlier switch `ind ≤ 1e-12·l` evaluated `log(|l - r| / r)` (zero argument at distance `l` from the start
vertex: a singular cap that the true field does not have), does not exist in the repaired kernel, and the
on-edge value has no singular point inside its tube.  The hypothesis "off the closed edges" is only needed for
the vertices and for the general branch: on the open edge the on-edge branch is taken
(`triangle_on_open_edge_branch`) and is defined as well; at a vertex `log` receives `0/0` or divides by `r = 0`. -/
theorem triangle_defined_off_edges (v0 v1 v2 obs : V3 ℝ)
    (hnd : (V3.cross (v1 - v0) (v2 - v0)).x ≠ 0 ∨ (V3.cross (v1 - v0) (v2 - v0)).y ≠ 0 ∨
      (V3.cross (v1 - v0) (v2 - v0)).z ≠ 0)
    (he01 : ¬ OriginOnSegment (v0 - obs) (v1 - obs)) (he12 : ¬ OriginOnSegment (v1 - obs) (v2 - obs))
    (he02 : ¬ OriginOnSegment (v0 - obs) (v2 - obs)) :
    let R0 := v0 - obs; let R1 := v1 - obs; let R2 := v2 - obs
    let L0 := v1 - v0; let L1 := v2 - v1; let L2 := v0 - v2
    0 < Kern.norm (V3.cross (v1 - v0) (v2 - v0)) ∧
    TriEdgeDefined (V3.dot R0 R0) (V3.dot R1 R1) (V3.dot L0 L0) (V3.dot R0 L0) (V3.dot R1 L0)
      (V3.dot (V3.cross R0 L0) (V3.cross R0 L0)) (V3.dot (V3.cross R1 L0) (V3.cross R1 L0)) ∧
    TriEdgeDefined (V3.dot R1 R1) (V3.dot R2 R2) (V3.dot L1 L1) (V3.dot R1 L1) (V3.dot R2 L1)
      (V3.dot (V3.cross R1 L1) (V3.cross R1 L1)) (V3.dot (V3.cross R2 L1) (V3.cross R2 L1)) ∧
    TriEdgeDefined (V3.dot R2 R2) (V3.dot R0 R0) (V3.dot L2 L2) (V3.dot R2 L2) (V3.dot R0 L2)
      (V3.dot (V3.cross R2 L2) (V3.cross R2 L2)) (V3.dot (V3.cross R0 L2) (V3.cross R0 L2)) ∧
    (V3.dot R2 (V3.cross R1 R0) ≠ 0 ∨
      Kern.norm R0 * Kern.norm R1 * Kern.norm R2 + V3.dot R2 R1 * Kern.norm R0 + V3.dot R2 R0 * Kern.norm R1 +
        V3.dot R1 R0 * Kern.norm R2 ≠ 0) := by
  intro R0 R1 R2 L0 L1 L2
  obtain ⟨l0, l1, l2⟩ := triangle_edges_pos v0 v1 v2 hnd
  have e0 : R0 + L0 = R1 := sub_add_sub_edge v0 v1 obs
  have e1 : R1 + L1 = R2 := sub_add_sub_edge v1 v2 obs
  have e2 : R2 + L2 = R0 := sub_add_sub_edge v2 v0 obs
  have d0 := triEdge_defined R0 L0 l0 (by rw [e0]; exact he01)
  have d1 := triEdge_defined R1 L1 l1 (by rw [e1]; exact he12)
  have d2 := triEdge_defined R2 L2 l2 (by rw [e2]; exact fun h => he02 (originOnSegment_symm h))
  rw [e0] at d0; rw [e1] at d1; rw [e2] at d2
  exact ⟨norm_pos_of_ne_zero _ hnd, d0, d1, d2, solidAngle_args_ne_zero R0 R1 R2 he01 he12 he02⟩

-- non-vacuity: the unit right triangle in the plane z = 0, observer two units above a vertex
example : 0 < Kern.norm (V3.cross ((⟨1, 0, 0⟩ : V3 ℝ) - ⟨0, 0, 0⟩) (⟨0, 1, 0⟩ - ⟨0, 0, 0⟩)) :=
  (triangle_defined_off_edges ⟨0, 0, 0⟩ ⟨1, 0, 0⟩ ⟨0, 1, 0⟩ ⟨0, 0, 2⟩
    (by simp [V3.cross])
    (by rintro ⟨t, _, _, _, _, hz⟩; simp only [V3.sub_z] at hz; norm_num at hz; linarith)
    (by rintro ⟨t, _, _, _, _, hz⟩; simp only [V3.sub_z] at hz; norm_num at hz; linarith)
    (by rintro ⟨t, _, _, _, _, hz⟩; simp only [V3.sub_z] at hz; norm_num at hz; linarith)).1

/-- C15 (Triangle), the earlier singular cap is regular now: the observer `(x, 0, y)` on the unit sphere
around `v0 = 0` with `x = (10¹⁴ - 1)/(10¹⁴ + 1)`, `y = 2·10⁷/(10¹⁴ + 1)` (angle `2·10⁻⁷` to the edge
`v0 → v1 = (1,0,0)`, distance `2·10⁻⁷` from the end vertex, off the triangle's plane) made the earlier kernel
take `log 0` (`ind ≈ 2·10⁻¹⁴ ≤ 10⁻¹²·l`, `r = l`).  It is off the three closed edges, so
`triangle_defined_off_edges` applies: the edge integral of that edge is defined there (and so are the others). -/
theorem triangle_old_cap_regular :
    let v0 : V3 ℝ := ⟨0, 0, 0⟩; let v1 : V3 ℝ := ⟨1, 0, 0⟩
    let obs : V3 ℝ := ⟨(10 ^ 14 - 1) / (10 ^ 14 + 1), 0, 2 * 10 ^ 7 / (10 ^ 14 + 1)⟩
    V3.dot (v0 - obs) (v0 - obs) = V3.dot (v1 - v0) (v1 - v0) ∧
    TriEdgeDefined (V3.dot (v0 - obs) (v0 - obs)) (V3.dot (v1 - obs) (v1 - obs)) (V3.dot (v1 - v0) (v1 - v0))
        (V3.dot (v0 - obs) (v1 - v0)) (V3.dot (v1 - obs) (v1 - v0))
        (V3.dot (V3.cross (v0 - obs) (v1 - v0)) (V3.cross (v0 - obs) (v1 - v0)))
        (V3.dot (V3.cross (v1 - obs) (v1 - v0)) (V3.cross (v1 - obs) (v1 - v0))) := by
  intro v0 v1 obs
  have hz : ∀ R S : V3 ℝ, R.z = -(2 * 10 ^ 7 / (10 ^ 14 + 1)) → S.z = -(2 * 10 ^ 7 / (10 ^ 14 + 1)) →
      ¬ OriginOnSegment R S := by
    rintro R S hR hS ⟨t, _, _, _, _, h⟩
    rw [hR, hS] at h
    have : (1 - t) * -(2 * 10 ^ 7 / (10 ^ 14 + 1) : ℝ) + t * -(2 * 10 ^ 7 / (10 ^ 14 + 1)) =
        -(2 * 10 ^ 7 / (10 ^ 14 + 1)) := by ring
    rw [this] at h
    norm_num at h
  have h := triangle_defined_off_edges v0 v1 ⟨0, 1, 0⟩ obs (by simp [V3.cross, v0, v1])
    (hz _ _ (by simp [v0, obs]) (by simp [v1, obs])) (hz _ _ (by simp [v1, obs]) (by simp [obs]))
    (hz _ _ (by simp [v0, obs]) (by simp [obs]))
  refine ⟨?_, h.2.1⟩
  simp only [V3.dot, V3.sub_x, V3.sub_y, V3.sub_z, v0, v1, obs]
  norm_num

/-- C15 (Triangle): the on-edge value of the edge integral from vertex `a` to vertex `b` is used exactly for the
observers that cannot be told from the edge in double precision: closer than `1e-15` edge lengths to the
edge line (`|R×L|² ≤ 1e-30 |L|⁴`) with the foot point strictly between the two ends (`R·L < 0 < R·L + L·L`,
`R = a - obs`, `L = b - a`) -/
theorem triangle_on_edge_branch_iff (a b obs : V3 ℝ) (hab : 0 < V3.dot (b - a) (b - a)) :
    triEdgeOn (V3.dot (a - obs) (a - obs)) (V3.dot (b - obs) (b - obs)) (V3.dot (b - a) (b - a))
      (V3.dot (a - obs) (b - a)) (V3.dot (b - obs) (b - a))
      (V3.dot (V3.cross (a - obs) (b - a)) (V3.cross (a - obs) (b - a)))
      (V3.dot (V3.cross (b - obs) (b - a)) (V3.cross (b - obs) (b - a))) ↔
    V3.dot (V3.cross (a - obs) (b - a)) (V3.cross (a - obs) (b - a)) ≤
        1 / 1000000000000000000000000000000 * (V3.dot (b - a) (b - a) * V3.dot (b - a) (b - a)) ∧
      V3.dot (a - obs) (b - a) < 0 ∧ 0 < V3.dot (a - obs) (b - a) + V3.dot (b - a) (b - a) := by
  have h := triEdgeOn_iff (a - obs) (b - a) hab
  rw [sub_add_sub_edge a b obs] at h
  exact h

/-- … in particular for every observer on the open edge (`obs = a + t (b - a)`, `0 < t < 1`), where
`triangle_Bfield` returns the finite value `log(-a/c)/l = log(t/(1 - t))/l` for this edge -/
theorem triangle_on_open_edge_branch (a b : V3 ℝ) (t : ℝ) (hab : 0 < V3.dot (b - a) (b - a)) (h0 : 0 < t) (h1 : t < 1) :
    let obs : V3 ℝ := ⟨a.x + t * (b.x - a.x), a.y + t * (b.y - a.y), a.z + t * (b.z - a.z)⟩
    triEdgeOn (V3.dot (a - obs) (a - obs)) (V3.dot (b - obs) (b - obs)) (V3.dot (b - a) (b - a))
      (V3.dot (a - obs) (b - a)) (V3.dot (b - obs) (b - a))
      (V3.dot (V3.cross (a - obs) (b - a)) (V3.cross (a - obs) (b - a)))
      (V3.dot (V3.cross (b - obs) (b - a)) (V3.cross (b - obs) (b - a))) := by
  intro obs
  rw [triangle_on_edge_branch_iff a b obs hab]
  have hrl : V3.dot (a - obs) (b - a) = -(t * V3.dot (b - a) (b - a)) := by
    simp only [V3.dot, V3.sub_x, V3.sub_y, V3.sub_z, obs]; ring
  have hx : V3.dot (V3.cross (a - obs) (b - a)) (V3.cross (a - obs) (b - a)) = 0 := by
    simp only [V3.dot, V3.cross, V3.sub_x, V3.sub_y, V3.sub_z, obs]; ring
  refine ⟨?_, ?_, ?_⟩
  · rw [hx]; positivity
  · rw [hrl]; nlinarith
  · rw [hrl]; nlinarith

/-- C15 (Triangle, Tetrahedron and TriangularMesh faces): a triangle without area (collinear vertices, normal
vector `(v1 - v0) × (v2 - v0) = 0`) is masked — `triangle_Bfield` and all four outputs of `BHJM_triangle`
are 0 for every observer and every polarization, so such a face contributes nothing to a Tetrahedron or a
TriangularMesh sum (earlier: `0/0` in the normalisation, NaN everywhere) -/
theorem triangle_zero_area (f : Field) (v0 v1 v2 pol obs : V3 ℝ)
    (h0 : V3.cross (v1 - v0) (v2 - v0) = ⟨0, 0, 0⟩) :
    triangleB v0 v1 v2 pol obs = zero3 ∧ bhjmTriangle f v0 v1 v2 pol obs = zero3 := by
  have hB : triangleB v0 v1 v2 pol obs = zero3 := by
    simp only [triangleB, h0, Kern.norm, sqrt_real, eq0_real]
    simp
  refine ⟨hB, ?_⟩
  cases f <;> simp only [bhjmTriangle, hB]
  apply V3.ext' <;> simp [vd, zero3, n]

-- non-vacuity: three collinear vertices
example : triangleB (⟨0, 0, 0⟩ : V3 ℝ) ⟨1, 0, 0⟩ ⟨2, 0, 0⟩ ⟨1, 2, 3⟩ ⟨4, 5, 6⟩ = zero3 :=
  (triangle_zero_area .B _ _ _ _ _ (by apply V3.ext' <;> simp [V3.cross])).1

/-! ### Polyline: the two masks cover the singular set of the segment kernel -/

/-- C15 (Polyline): a row of `BHJM_current_polyline` that passes both masks — `mask_equal` false
(start ≠ end, compared exactly) and `mask1` of `current_polyline_Hfield` false (the distance
`norm_o4` of the observer from the carrier line, in units of the segment length, is not below
`1e-15`) — has its observer off the carrier line, so every divisor of the kernel (segment length,
`norm_o4`, `norm_cros`, `norm_o1`, `norm_o2`) is positive; and on such a row the wrapper returns the
closed form `segmentH` (H) resp. `μ₀·segmentH` (B) -/
theorem polyline_masks_cover_singular (cur : ℝ) (p1 p2 po : V3 ℝ) (hne : v3eq p1 p2 = false)
    (hmask : ¬ (segmentCore (vd p1 (Kern.norm (p1 - p2))) (vd p2 (Kern.norm (p1 - p2)))
      (vd po (Kern.norm (p1 - p2)))).2.1 < 1 / 1000000000000000) :
    (let L := Kern.norm (p1 - p2)
     let q1 := vd p1 L; let q2 := vd p2 L; let qo := vd po L
     let p4 := q1 + vs (V3.dot (qo - q1) (q1 - q2)) (q1 - q2)
     0 < L ∧ 0 < Kern.norm (qo - p4) ∧ 0 < Kern.norm (V3.cross (q2 - q1) (qo - p4)) ∧
       0 < Kern.norm (qo - q1) ∧ 0 < Kern.norm (qo - q2)) ∧
    bhjmSegment .H cur p1 p2 po = segmentH cur p1 p2 po ∧
    bhjmSegment .B cur p1 p2 po = vs mu0R (segmentH cur p1 p2 po) := by
  refine ⟨segment_defined_off_line p1 p2 po (polyline_masks_off_line p1 p2 po hne hmask), ?_, ?_⟩
  · simp only [bhjmSegment, hne, Bool.false_eq_true, if_false, segmentHMasked, segmentH, lt_real, n,
      ofNat_real, Nat.cast_one, Nat.cast_ofNat, hmask, decide_false]
  · simp only [bhjmSegment, hne, Bool.false_eq_true, if_false, segmentHMasked, segmentH, lt_real, n,
      ofNat_real, Nat.cast_one, Nat.cast_ofNat, hmask, decide_false, mu0_real]

/-- C15 (Polyline): the rows the masks catch return 0 without evaluating the kernel: zero-length
segments (every field) and observers on the carrier line (`norm_o4 < 1e-15`) -/
theorem polyline_masked_rows_zero (f : Field) (cur : ℝ) (p1 p2 po : V3 ℝ) :
    bhjmSegment f cur p1 p1 po = zero3 ∧
    ((segmentCore (vd p1 (Kern.norm (p1 - p2))) (vd p2 (Kern.norm (p1 - p2)))
      (vd po (Kern.norm (p1 - p2)))).2.1 < 1 / 1000000000000000 → segmentHMasked cur p1 p2 po = zero3) := by
  constructor
  · cases f <;> simp [bhjmSegment, v3eq]
  · intro h
    simp only [segmentHMasked, lt_real, n, ofNat_real, Nat.cast_one, Nat.cast_ofNat, h, decide_true, if_true]

-- non-vacuity: unit segment on the x-axis, observer at height 1 above its start
example : 0 < Kern.norm ((⟨0, 0, 0⟩ : V3 ℝ) - ⟨1, 0, 0⟩) := by
  have hL : Kern.norm ((⟨0, 0, 0⟩ : V3 ℝ) - ⟨1, 0, 0⟩) = 1 := by
    simp [Kern.norm]
  have h := polyline_masks_cover_singular 1 ⟨0, 0, 0⟩ ⟨1, 0, 0⟩ ⟨0, 0, 1⟩ (by simp [v3eq]) (by
    rw [hL]
    have hu : SegBS.nsq (vd (⟨1, 0, 0⟩ : V3 ℝ) 1 - vd ⟨0, 0, 0⟩ 1) = 1 := by simp [SegBS.nsq, vd]
    rw [SegBS.core_unit _ _ _ hu]
    simp [SegBS.nsq, vd, V3.dot]
    norm_num)
  exact h.1.1

end MagpyVerif.C15

/-! ### added by the audit: non-vacuity examples for the definedness theorems that had none -/

namespace MagpyVerif.C15
open MagpyVerif MagpyVerif.Kern

-- after dipole_defined_off_position
example : Kern.norm (⟨1, 2, 2⟩ : V3 ℝ) * Kern.norm (⟨1, 2, 2⟩ : V3 ℝ) * Kern.norm (⟨1, 2, 2⟩ : V3 ℝ) ≠ 0 :=
  (dipole_defined_off_position ⟨1, 2, 2⟩ (Or.inl (by norm_num))).1

-- after sphere_outside_divisor: diameter 2, observer (3,0,0): |d|/2 = 1 < 3
example : |(2 : ℝ)| / 2 < Kern.norm (⟨3, 0, 0⟩ : V3 ℝ) := by
  have : Kern.norm (⟨3, 0, 0⟩ : V3 ℝ) = 3 := by
    simp only [Kern.norm, sqrt_real]
    rw [show (3 : ℝ) * 3 + 0 * 0 + 0 * 0 = 3 ^ 2 by norm_num]; exact Real.sqrt_sq (by norm_num)
  rw [this]; norm_num

-- after segment_length_pos
example : 0 < Kern.norm ((⟨0, 0, 0⟩ : V3 ℝ) - ⟨1, 0, 0⟩) :=
  segment_length_pos _ _ (Or.inl (by norm_num))

-- after segment_defined_off_line: unit segment on the x-axis, observer (0,0,1)
example : 0 < SegBS.nsq (V3.cross ((⟨1, 0, 0⟩ : V3 ℝ) - ⟨0, 0, 0⟩) (⟨0, 0, 1⟩ - ⟨0, 0, 0⟩)) := by
  simp [SegBS.nsq, V3.cross]

-- after cylinder_edge_mask_covers_singular: an observer exactly on the edge (normalised r = 1, z = z0 = 3/2) is masked …
example : (cylMasks (3 / 2 : ℝ) 1 (3 / 2)).onEdge = true :=
  (cylinder_edge_mask_covers_singular (3 / 2) 1 (3 / 2) (by norm_num)).1 rfl (by norm_num)
-- … and one on the hull but not on the edge is not, and its modulus is non-zero
example : cylK ((1 : ℝ) + 3 / 2) 1 ≠ 0 :=
  (cylinder_edge_mask_covers_singular (3 / 2) 1 1 (by norm_num)).2.1 (by norm_num)

end MagpyVerif.C15

/-! ### CylinderSegment: definedness of the case dispatch -/
namespace MagpyVerif.C15
open MagpyVerif MagpyVerif.Kern MagpyVerif.Kern.CylSeg

/-- C15 (CylinderSegment): the NaN rows of the ported `BHJM_cylinder_segment`, exactly.  The dispatch table of
`magnet_cylinder_segment_Hfield` has no entry for the case ids 111, 114, 121, 131 (`determineCases_total_partial`,
C06); the wrapper returns a NaN row iff the field is B or H, the wrapper's own surface mask lets the observer through,
and at one of the eight boundaries `(r_i, phi_j, z_k)` `close` (rtol = atol = 1e-12) puts the observer at the height
`z_k` and either on the axis of a segment without bore or on the radius `r_i` in the half-plane `phi_j`. -/
theorem cylseg_nan_rows_characterised (μ : ℝ) (S : SegSpecial) (f : Field) (x : V3 ℝ) (r1 r2 h p1 p2 : ℝ) (pol : V3 ℝ) :
    let N := @segNormalise ℝ (realNumX μ S) x r1 r2 h p1 p2
    let r := Real.sqrt (N.obs.x * N.obs.x + N.obs.y * N.obs.y)
    let phi := Complex.arg ⟨N.obs.x, N.obs.y⟩
    @bhjmCylSeg ℝ (realNumX μ S) f x r1 r2 h p1 p2 pol = none ↔
      (f = .B ∨ f = .H) ∧ (@segMasks ℝ (realNumX μ S) r phi N.obs.z N.r1 N.r2 N.phi1 N.phi2 N.z1 N.z2).notOnSurf = true ∧
        ∃ s ∈ List.range 8, @unhandledAt ℝ (realNumX μ S) r phi N.obs.z (@bdry ℝ N.r1 N.r2 N.phi1 N.phi2 N.z1 N.z2 s).1
          (@bdry ℝ N.r1 N.r2 N.phi1 N.phi2 N.z1 N.z2 s).2.1 (@bdry ℝ N.r1 N.r2 N.phi1 N.phi2 N.z1 N.z2 s).2.2 = true :=
  bhjmCylSeg_eq_none_iff μ S f x r1 r2 h p1 p2 pol

/-- **C15 (CylinderSegment), full strength (after the repair of the wrapper's masks, see `fixed:` in known_findings.json)**:
`wrapper_never_dispatches_unhandled` — for every segment with `|r1| ≤ |r2|` (the documented `r1 < r2`; the hypothesis is only
used when the outer radius is 0), every observer, every field and every polarization, `BHJM_cylinder_segment` returns a row.
In particular every observer that the surface mask lets through to the core has, at each of the eight boundaries, one of the 26
case ids of the dispatch table: no NaN block.  Before the repair this was false (the end points of the apex line of a wedge whose
range does not contain azimuth 0, and a `1e-14 … 1e-12` shell around every vertex, returned NaN on the real code). -/
theorem wrapper_never_dispatches_unhandled (μ : ℝ) (S : SegSpecial) (f : Field) (x : V3 ℝ) (r1 r2 h p1 p2 : ℝ)
    (pol : V3 ℝ) (hr12 : |r1| ≤ |r2|) :
    (@bhjmCylSeg ℝ (realNumX μ S) f x r1 r2 h p1 p2 pol).isSome = true :=
  bhjmCylSeg_isSome μ S f x r1 r2 h p1 p2 pol hr12

-- non-vacuity: the wedge of the former counterexample satisfies the hypothesis
example : |(0 : ℝ)| ≤ |(1 : ℝ)| := by norm_num

/-- the mechanism: whenever a boundary `(r_i, phi_j, z_k)` of the segment would get an unhandled id, the wrapper's masks
call the observer a surface point (`r ≥ 0`, `r1 ≥ 0` and "outer radius ≈ 0 ⇒ inner radius ≈ 0" hold for every normalised row) -/
theorem cylseg_unhandled_ids_are_surface_rows (μ : ℝ) (S : SegSpecial) (r phi z r1 r2 p1 p2 z1 z2 ri pj zk : ℝ)
    (hr : 0 ≤ r) (hr1 : 0 ≤ r1)
    (hr12 : @close ℝ (realNumX μ S) r2 (@n ℝ (realNum μ) 0) = true → @close ℝ (realNumX μ S) r1 (@n ℝ (realNum μ) 0) = true)
    (hri : ri = r1 ∨ ri = r2) (hpj : pj = p1 ∨ pj = p2) (hzk : zk = z1 ∨ zk = z2)
    (h : @unhandledAt ℝ (realNumX μ S) r phi z ri pj zk = true) :
    (@segMasks ℝ (realNumX μ S) r phi z r1 r2 p1 p2 z1 z2).notOnSurf = false :=
  segMasks_surface_of_unhandled μ S r phi z r1 r2 p1 p2 z1 z2 ri pj zk hr hr1 hr12 hri hpj hzk h

/-- the two observers that returned NaN before the repair are surface rows now (normalised quantities): the end point of the
apex line of `CylinderSegment(dimension=(0,1,2,30,120))` at `(0,0,1)`, and the point `5e-13` outside the vertex
`(r2, phi1, z2)` of the normalised ring segment `r1 = 1/2`, `r2 = 1`, `phi ∈ [0, 1]` rad, `z ∈ [−1, 1]` -/
theorem cylseg_former_nan_rows_are_surface_rows (μ : ℝ) (S : SegSpecial) :
    (@segMasks ℝ (realNumX μ S) 0 0 1 0 1 1 2 (-1) 1).notOnSurf = false ∧
    (@segMasks ℝ (realNumX μ S) (1 + 5 / 10000000000000) 0 (1 + 5 / 10000000000000) (1 / 2) 1 0 1 (-1) 1).notOnSurf = false :=
  ⟨apex_end_point_surface μ S, next_to_vertex_surface μ S⟩

/-- kept: observers that `close` keeps off both base planes get a row without any hypothesis on the radii -/
theorem cylseg_row_off_base_planes (μ : ℝ) (S : SegSpecial) (f : Field) (x : V3 ℝ) (r1 r2 h p1 p2 : ℝ)
    (pol : V3 ℝ)
    (hz1 : @close ℝ (realNumX μ S) (@segNormalise ℝ (realNumX μ S) x r1 r2 h p1 p2).obs.z
      (@segNormalise ℝ (realNumX μ S) x r1 r2 h p1 p2).z1 = false)
    (hz2 : @close ℝ (realNumX μ S) (@segNormalise ℝ (realNumX μ S) x r1 r2 h p1 p2).obs.z
      (@segNormalise ℝ (realNumX μ S) x r1 r2 h p1 p2).z2 = false) :
    (@bhjmCylSeg ℝ (realNumX μ S) f x r1 r2 h p1 p2 pol).isSome = true :=
  bhjmCylSeg_isSome_of_off_planes μ S f x r1 r2 h p1 p2 pol hz1 hz2

-- non-vacuity: the mid-plane is off both base planes of a segment of height 2
example (μ : ℝ) (S : SegSpecial) : @close ℝ (realNumX μ S) 0 (-1) = false ∧ @close ℝ (realNumX μ S) 0 1 = false := by
  constructor <;> simp [close, isclose, n] <;> norm_num

end MagpyVerif.C15
