/-
Props/C15.lean — every finite input yields a finite field in bounded time (exact-arithmetic part).
Proved: for the kernels that are plain algebra, off the documented singular set every divisor
is non-zero (so in exact arithmetic the closed form is defined): Dipole off its position, Sphere
in both branches, straight segment normalisation for distinct end points.
/- FULL: all classes, IEEE double, termination of the cel/el3 iterations.  Not representable in
   exact real arithmetic: overflow/underflow (r**5 for r < 1e-65, sizes 1e9), NaN from inf−inf,
   float non-termination of `while |g−qc| >= qc·1e-8`.  The special-set oracle evaluates the real
   code at every boundary set ±1,2,4 ulp, denormal offsets, zero-size/zero-excitation sources and
   1e12 distances in watchdogged worker processes; its findings are recorded by input class. -/
-/
import MagpyVerif.Lemmas.KernReal
import MagpyVerif.Lemmas.SegmentBS
namespace MagpyVerif.C15
open MagpyVerif MagpyVerif.Kern

theorem norm_pos_of_ne_zero (x : V3 ℝ) (hx : x.x ≠ 0 ∨ x.y ≠ 0 ∨ x.z ≠ 0) : 0 < Kern.norm x := by
  simp only [Kern.norm, sqrt_real]
  apply Real.sqrt_pos.mpr
  rcases hx with h | h | h
  · nlinarith [mul_self_pos.mpr h, mul_self_nonneg x.y, mul_self_nonneg x.z]
  · nlinarith [mul_self_pos.mpr h, mul_self_nonneg x.x, mul_self_nonneg x.z]
  · nlinarith [mul_self_pos.mpr h, mul_self_nonneg x.x, mul_self_nonneg x.y]

/-- Dipole: away from the dipole position both divisors r³ and r⁵ (and 4, π) are non-zero -/
theorem dipole_defined_off_position (x : V3 ℝ) (hx : x.x ≠ 0 ∨ x.y ≠ 0 ∨ x.z ≠ 0) :
    Kern.norm x * Kern.norm x * Kern.norm x ≠ 0 ∧
    Kern.norm x * Kern.norm x * Kern.norm x * Kern.norm x * Kern.norm x ≠ 0 ∧ Real.pi ≠ 0 := by
  have h := norm_pos_of_ne_zero x hx
  exact ⟨by positivity, by positivity, Real.pi_ne_zero⟩

/-- Sphere: the only division by r⁵ sits in the outside branch, where r > |d|/2 ≥ 0 -/
theorem sphere_outside_divisor (d : ℝ) (x : V3 ℝ) (hout : |d| / 2 < Kern.norm x) :
    Kern.norm x * Kern.norm x * Kern.norm x * Kern.norm x * Kern.norm x ≠ 0 := by
  have : 0 < Kern.norm x := lt_of_le_of_lt (by positivity) hout
  positivity

/-- straight segment: the normalisation by the segment length is defined exactly for distinct
end points (zero-length segments are masked out by the wrapper) -/
theorem segment_length_pos (p1 p2 : V3 ℝ) (h : p1.x ≠ p2.x ∨ p1.y ≠ p2.y ∨ p1.z ≠ p2.z) :
    0 < Kern.norm (p1 - p2) := by
  apply norm_pos_of_ne_zero
  simp only [V3.sub_x, V3.sub_y, V3.sub_z]
  rcases h with h | h | h
  · exact Or.inl (sub_ne_zero.mpr h)
  · exact Or.inr (Or.inl (sub_ne_zero.mpr h))
  · exact Or.inr (Or.inr (sub_ne_zero.mpr h))


/-- straight segment, observer off the carrier line (the rows the wrapper's `mask1` lets through):
every divisor of the closed form — segment length, distance from the line `norm_o4`, norm of the
direction vector `norm_cros`, distances to the end points `norm_o1`, `norm_o2` — is positive, so
in exact arithmetic the kernel is defined on all of its general branch -/
theorem segment_defined_off_line (p1 p2 po : V3 ℝ)
    (hoff : 0 < SegBS.nsq (V3.cross (p2 - p1) (po - p1))) :
    let L := Kern.norm (p1 - p2)
    let q1 := vd p1 L; let q2 := vd p2 L; let qo := vd po L
    let p4 := q1 + vs (V3.dot (qo - q1) (q1 - q2)) (q1 - q2)
    0 < L ∧ 0 < Kern.norm (qo - p4) ∧ 0 < Kern.norm (V3.cross (q2 - q1) (qo - p4)) ∧
      0 < Kern.norm (qo - q1) ∧ 0 < Kern.norm (qo - q2) :=
  SegBS.segment_divisors p1 p2 po hoff

end MagpyVerif.C15
