/-
Props/C15.lean — every finite input yields a finite field in bounded time (exact-arithmetic part).
Proved: for the kernels that are plain algebra, off the documented singular set every divisor
is non-zero (so in exact arithmetic the closed form is defined): Dipole off its position, Sphere
in both branches, straight segment normalisation for distinct end points.  Termination of the two
scalar Bulirsch loops of special_cel.py in exact arithmetic with an explicit iteration bound
(`celIter_terminates` for `cel_iter0`, `cel0_terminates` for `cel0`), hence of `BHJM_circle` for
every input (`bhjmCircle_terminates`: the wrapper's masks cover the set where the loop would not
exit, `circle_masks_cover_singular`); positivity of every divisor along the `cel_iter0` loop;
termination of the batch loop `cel_iterv` and of the dispatcher `cel_iter` (`celIterV_terminates`).
Cylinder (Model/Cylinder.lean): the near-axis Taylor branch divides by positive numbers only
(`cylinder_axis_branch_defined`); every `cel0` call of both kernels has a non-zero modulus off the masked
edge and `BHJM_magnet_cylinder` returns for every input with positive diameter (`cylinder_terminates`).
/- FULL: all classes, IEEE double, termination of the el3 iterations and of the vectorised `celv`
   (per entry the `cel0` loop run at least once, no `kc == 0` guard; not modelled).  Not representable in
   exact real arithmetic: overflow/underflow (r**5 for r < 1e-65, sizes 1e9), NaN from inf−inf,
   float non-termination of `while |g−qc| >= qc·1e-8`.  The special-set oracle evaluates the real
   code at every boundary set ±1,2,4 ulp, denormal offsets, zero-size/zero-excitation sources and
   1e12 distances in watchdogged worker processes; its findings are recorded by input class. -/
-/
import MagpyVerif.Lemmas.KernReal
import MagpyVerif.Lemmas.KernelLiterals
import MagpyVerif.Lemmas.SegmentBS
import MagpyVerif.Lemmas.CelAGM
import MagpyVerif.Lemmas.KernCylinder
namespace MagpyVerif.C15
open MagpyVerif MagpyVerif.Kern

theorem norm_pos_of_ne_zero (x : V3 ℝ) (hx : x.x ≠ 0 ∨ x.y ≠ 0 ∨ x.z ≠ 0) : 0 < Kern.norm x := by
  simp only [Kern.norm, sqrt_real]
  apply Real.sqrt_pos.mpr
  rcases hx with h | h | h
  · nlinarith [mul_self_pos.mpr h, mul_self_nonneg x.y, mul_self_nonneg x.z]
  · nlinarith [mul_self_pos.mpr h, mul_self_nonneg x.x, mul_self_nonneg x.z]
  · nlinarith [mul_self_pos.mpr h, mul_self_nonneg x.x, mul_self_nonneg x.y]

/-- Dipole: away from the dipole position both divisors r³ and r⁵ (and 4, π) are non-zero -/
theorem dipole_defined_off_position (x : V3 ℝ) (hx : x.x ≠ 0 ∨ x.y ≠ 0 ∨ x.z ≠ 0) :
    Kern.norm x * Kern.norm x * Kern.norm x ≠ 0 ∧
    Kern.norm x * Kern.norm x * Kern.norm x * Kern.norm x * Kern.norm x ≠ 0 ∧ Real.pi ≠ 0 := by
  have h := norm_pos_of_ne_zero x hx
  exact ⟨by positivity, by positivity, Real.pi_ne_zero⟩

/-- Sphere: the only division by r⁵ sits in the outside branch, where r > |d|/2 ≥ 0 -/
theorem sphere_outside_divisor (d : ℝ) (x : V3 ℝ) (hout : |d| / 2 < Kern.norm x) :
    Kern.norm x * Kern.norm x * Kern.norm x * Kern.norm x * Kern.norm x ≠ 0 := by
  have : 0 < Kern.norm x := lt_of_le_of_lt (by positivity) hout
  positivity

/-- straight segment: the normalisation by the segment length is defined exactly for distinct
end points (zero-length segments are masked out by the wrapper) -/
theorem segment_length_pos (p1 p2 : V3 ℝ) (h : p1.x ≠ p2.x ∨ p1.y ≠ p2.y ∨ p1.z ≠ p2.z) :
    0 < Kern.norm (p1 - p2) := by
  apply norm_pos_of_ne_zero
  simp only [V3.sub_x, V3.sub_y, V3.sub_z]
  rcases h with h | h | h
  · exact Or.inl (sub_ne_zero.mpr h)
  · exact Or.inr (Or.inl (sub_ne_zero.mpr h))
  · exact Or.inr (Or.inr (sub_ne_zero.mpr h))


/-- straight segment, observer off the carrier line (the rows the wrapper's `mask1` lets through):
every divisor of the closed form — segment length, distance from the line `norm_o4`, norm of the
direction vector `norm_cros`, distances to the end points `norm_o1`, `norm_o2` — is positive, so
in exact arithmetic the kernel is defined on all of its general branch -/
theorem segment_defined_off_line (p1 p2 po : V3 ℝ)
    (hoff : 0 < SegBS.nsq (V3.cross (p2 - p1) (po - p1))) :
    let L := Kern.norm (p1 - p2)
    let q1 := vd p1 L; let q2 := vd p2 L; let qo := vd po L
    let p4 := q1 + vs (V3.dot (qo - q1) (q1 - q2)) (q1 - q2)
    0 < L ∧ 0 < Kern.norm (qo - p4) ∧ 0 < Kern.norm (V3.cross (q2 - q1) (qo - p4)) ∧
      0 < Kern.norm (qo - q1) ∧ 0 < Kern.norm (qo - q2) :=
  SegBS.segment_divisors p1 p2 po hoff

/-! ### termination of the Bulirsch `cel` loops (special_cel.py) in exact arithmetic -/

/-- `cel_iter0(qc, p, g, cc, ss, em, kk)`: whenever the loop variables `em` and `kk` are positive
(no condition on `qc`, `g`, `p`, `cc`, `ss`), the `while fabs(g - qc) >= qc*1e-8` loop exits after
at most `celFuel em kk = ⌈log₂(⌈D·1e8⌉ + 1)⌉ + 2` tests, `D = |em − 2√kk| / min(em, 2√kk)` the
relative gap of the arithmetic–geometric-mean pair after the first pass: the model returns a
value for every fuel from that bound on. -/
theorem celIter_terminates (qc p g cc ss em kk : ℝ) (hem : 0 < em) (hkk : 0 < kk) (fuel : ℕ)
    (hfuel : celFuel em kk ≤ fuel) : (celIter fuel qc p g cc ss em kk).isSome :=
  celIter_isSome_mono hfuel (celIter_isSome_celFuel qc p g cc ss em kk hem hkk)

example : (celIter (celFuel 3 2) (2 : ℝ) 3 1 1 1 3 2).isSome :=
  celIter_terminates 2 3 1 1 1 3 2 (by norm_num) (by norm_num) _ le_rfl

/-- the bound is of the stated size: it is defined as `Nat.clog 2 (⌈D / 1e-8⌉₊ + 1) + 2` -/
theorem celFuel_eq (em kk : ℝ) :
    celFuel em kk = Nat.clog 2 (⌈|em - 2 * √kk| / min em (2 * √kk) / (1 / 100000000)⌉₊ + 1) + 2 := rfl

/-- the value computed does not depend on the fuel: once `celIter` returns `v`, it returns `v` for
every larger fuel (so `some v` is *the* value of the Python loop) -/
theorem celIter_fuel_irrelevant (n k : ℕ) (qc p g cc ss em kk v : ℝ)
    (h : celIter n qc p g cc ss em kk = some v) : celIter (n + k) qc p g cc ss em kk = some v :=
  celIter_fuel_mono n k qc p g cc ss em kk v h

example : celIter (1 + 7) (1 : ℝ) 2 1 5 6 2 1 = some (Real.pi / 2 * (6 + 5 * 2) / (2 * (2 + 2))) := by
  apply celIter_fuel_irrelevant
  rw [celIter]
  simp only [Kern.n, ofNat_real, le_real, abs_real, pi_real, Nat.cast_one, Nat.cast_ofNat,
    decide_eq_true_eq]
  rw [if_neg (by norm_num)]

/-- the hypothesis `0 < kk` of `celIter_terminates` cannot be dropped: started with `kk = 0` and
`qc ≤ 0` (the Circle call on the wire, `q = 0`: the hang fixed in af5dcd4) the loop never exits -/
theorem celIter_never_exits_at_zero (fuel : ℕ) (qc p g cc ss em : ℝ) (hqc : qc ≤ 0) :
    celIter fuel qc p g cc ss em 0 = none :=
  celIter_none_of_kk_zero fuel qc p g cc ss em hqc

example : celIter 1000 (0 : ℝ) 1 1 0 0 1 0 = none := celIter_never_exits_at_zero _ _ _ _ _ _ _ le_rfl

/-- in the range `1e-40 ≤ q ≤ 1e40` the bound for the Circle / `cel0` start (`g = 1`) is at most
200, the fuel the driver uses -/
theorem celFuel1_small {q : ℝ} (h1 : 1 / 10 ^ 40 ≤ q) (h2 : q ≤ 10 ^ 40) :
    celFuel1 q (1 / 100000000) ≤ 200 := celFuel1_le_200 h1 h2

example : celFuel1 1 (1 / 100000000) = 1 := by simp [celFuel1, agmSteps]

/-- `current_circle_Hfield` for one row (`circleHcyl`, radius `r0`, observer `(r, z)` in cylinder
coordinates): for `r0 ≠ 0`, `r / r0 ≥ 0` and the observer not on the wire (`¬(z = 0 ∧ r = r0)`)
— then `q2 > 0`, the loop variable `kk = q = √q2` is positive — both `cel_iter` calls terminate:
the model returns a value for every fuel ≥ `circleFuel r0 r z` -/
theorem circle_cel_terminates (r0 r z i0 : ℝ) (hr0 : r0 ≠ 0) (hr : 0 ≤ r / r0)
    (hwire : ¬ (z = 0 ∧ r = r0)) (fuel : ℕ) (hfuel : circleFuel r0 r z ≤ fuel) :
    (circleHcyl fuel r0 r z i0).isSome :=
  circleHcyl_isSome fuel r0 r z i0 (circleQ2_pos hr0 hr hwire) hfuel

example : (circleHcyl (circleFuel 1 2 0) (1 : ℝ) 2 0 1).isSome :=
  circle_cel_terminates 1 2 0 1 (by norm_num) (by norm_num) (by norm_num) _ le_rfl

/-- the masks of `BHJM_circle` cover the singular set of the general branch: a row with
`mask1` (`r0 = 0`) and `mask2` (`|r − r0| < 1e-15·r0 ∧ |z| < 1e-15·r0`) both false has `q2 > 0`
(`r ≥ 0` holds by construction, `r = √(x² + y²)`; `mask3` is not needed for termination) -/
theorem circle_masks_cover_singular (d : ℝ) (x : V3 ℝ) (h1 : ¬ (|d / 2| = 0))
    (h2 : ¬ (|√(x.x * x.x + x.y * x.y) - (|d / 2|)| < 1 / 1000000000000000 * |d / 2| ∧
      |x.z| < 1 / 1000000000000000 * |d / 2|)) :
    0 < circleQ2 |d / 2| (√(x.x * x.x + x.y * x.y)) x.z :=
  circle_masks_imply_q2_pos d x h1 h2

example : 0 < circleQ2 |(2 : ℝ) / 2| (√((3 : ℝ) * 3 + 4 * 4)) 1 :=
  circle_masks_cover_singular 2 ⟨3, 4, 1⟩ (by norm_num) (by
    intro h
    have := h.2
    norm_num at this)

/-- Circle, general branch (masks 1–3 false: `r0 ≠ 0`, not on the wire, `r ≠ 0`): every divisor of
`current_circle_Hfield` — `r0`, `x0 = z² + (r+1)²`, `r` (also under `sqrt`), `q2`, `p = 1 + q` —
is positive (normalised `r = r/r0`, `z = z/r0`), so in exact arithmetic the closed form is defined
on all of the general branch; and the on-axis branch's divisor `(z² + r0²)^(3/2)` is positive -/
theorem circle_defined_off_singular (d : ℝ) (x : V3 ℝ) (h1 : ¬ (|d / 2| = 0))
    (h2 : ¬ (|√(x.x * x.x + x.y * x.y) - (|d / 2|)| < 1 / 1000000000000000 * |d / 2| ∧
      |x.z| < 1 / 1000000000000000 * |d / 2|))
    (h3 : ¬ (√(x.x * x.x + x.y * x.y) = 0)) :
    let r0 := |d / 2|
    let r := √(x.x * x.x + x.y * x.y) / r0
    let z := x.z / r0
    0 < r0 ∧ 0 < r ∧ 0 < √r ∧ 0 < z * z + (r + 1) * (r + 1) ∧ 0 < circleQ2 r0 (√(x.x * x.x + x.y * x.y)) x.z ∧
      0 < 1 + √(circleQ2 r0 (√(x.x * x.x + x.y * x.y)) x.z) ∧
      0 < (x.z * x.z + r0 * r0) * √(x.z * x.z + r0 * r0) := by
  intro r0 r z
  have hr0 : 0 < r0 := lt_of_le_of_ne (abs_nonneg _) (Ne.symm h1)
  have hr : 0 < r := div_pos (lt_of_le_of_ne (Real.sqrt_nonneg _) (Ne.symm h3)) hr0
  have hq := circle_masks_imply_q2_pos d x h1 h2
  have hw : 0 < x.z * x.z + r0 * r0 := by nlinarith [mul_self_nonneg x.z, mul_pos hr0 hr0]
  refine ⟨hr0, hr, Real.sqrt_pos.2 hr, by nlinarith [mul_self_nonneg z], hq, ?_, ?_⟩
  · have := Real.sqrt_nonneg (circleQ2 r0 (√(x.x * x.x + x.y * x.y)) x.z); linarith
  · exact mul_pos hw (Real.sqrt_pos.2 hw)

example : 0 < circleQ2 |(2 : ℝ) / 2| (√((3 : ℝ) * 3 + 4 * 4)) 0 :=
  (circle_defined_off_singular 2 ⟨3, 4, 0⟩ (by norm_num) (by
    intro h
    have h5 : √((3 : ℝ) * 3 + 4 * 4) = 5 := by
      rw [show (3 : ℝ) * 3 + 4 * 4 = 5 ^ 2 by norm_num]; exact Real.sqrt_sq (by norm_num)
    have := h.1
    simp only [h5] at this
    norm_num at this) (by
    intro h
    have h5 : √((3 : ℝ) * 3 + 4 * 4) = 5 := by
      rw [show (3 : ℝ) * 3 + 4 * 4 = 5 ^ 2 by norm_num]; exact Real.sqrt_sq (by norm_num)
    rw [h5] at h; norm_num at h)).2.2.2.2.1

/-- `BHJM_circle` for one row, every field, every diameter, current and observer (in exact
arithmetic no input is excluded): the special cases return at once and in the general branch
both cel iterations exit; the model returns a value for every fuel ≥ `circleFuelX d x` -/
theorem bhjmCircle_terminates (f : Field) (d cur : ℝ) (x : V3 ℝ) (fuel : ℕ)
    (hfuel : circleFuelX d x ≤ fuel) : (bhjmCircle fuel f d cur x).isSome :=
  bhjmCircle_isSome fuel f d cur x hfuel

example : (bhjmCircle (circleFuelX 2 ⟨3, 4, 1⟩) .B (2 : ℝ) 1 ⟨3, 4, 1⟩).isSome :=
  bhjmCircle_terminates .B 2 1 ⟨3, 4, 1⟩ _ le_rfl

/-- a value returned by `celIter` is the return expression of `cel_iter0` evaluated at the first
state of the orbit of the loop body (`celRowStep`) at which the `while` condition (`celRowCont`)
fails, and the loop body was executed on exactly the earlier states of the orbit -/
theorem celIter_value_spec (fuel : ℕ) (s : CelRow ℝ) (v : ℝ)
    (h : celIter fuel s.qc s.p s.g s.cc s.ss s.em s.kk = some v) :
    ∃ m, m < fuel ∧ (∀ j, j < m → celRowCont (celRowStep^[j] s) = true) ∧
      celRowCont (celRowStep^[m] s) = false ∧ v = celRowOut (celRowStep^[m] s) :=
  celIterRow_some_spec fuel s v h

/-- along the whole orbit of the `cel_iter0` loop body started with `p, em, kk > 0`, the divisor
`p` of the loop body and the divisor `em·(em + p)` of the return expression are non-zero (even
positive): every division executed is defined -/
theorem celIter_divisors_nonzero (s : CelRow ℝ) (hp : 0 < s.p) (hem : 0 < s.em) (hkk : 0 < s.kk)
    (n : ℕ) : (celRowStep^[n] s).p ≠ 0 ∧
      (celRowStep^[n] s).em * ((celRowStep^[n] s).em + (celRowStep^[n] s).p) ≠ 0 := by
  obtain ⟨h1, h2, _⟩ := celRowIterate_pos hp hem hkk n
  exact ⟨h1.ne', (by positivity :
    0 < (celRowStep^[n] s).em * ((celRowStep^[n] s).em + (celRowStep^[n] s).p)).ne'⟩

/-- the Circle calls `cel_iter(q, p, 1, cc, ss, p, q)` with `p = 1 + q`, `q > 0` start in a state
meeting the hypotheses of `celIter_divisors_nonzero` -/
example (q cc ss : ℝ) (hq : 0 < q) (n : ℕ) :
    (celRowStep^[n] (⟨q, 1 + q, 1, cc, ss, 1 + q, q⟩ : CelRow ℝ)).p ≠ 0 :=
  (celIter_divisors_nonzero ⟨q, 1 + q, 1, cc, ss, 1 + q, q⟩ (by positivity) (by positivity) hq n).1

/-- `cel_iterv` on a batch (every entry is stepped until `np.any(fabs(g - qc) >= qc*1e-8)` is
false): if every row has `em, kk > 0` the loop exits after at most `celFuelV rows` (the largest of
the rows' bounds `celFuel em kk`) tests — a row that has met its exit test keeps meeting it while
the others are still iterating (`CelInv.exit_stable`) -/
theorem celIterV_terminates (rows : List (CelRow ℝ)) (hpos : ∀ s ∈ rows, 0 < s.em ∧ 0 < s.kk)
    (fuel : ℕ) (hfuel : celFuelV rows ≤ fuel) : (celIterV fuel rows).isSome :=
  celIterV_isSome_celFuelV rows hpos fuel hfuel

example : (celIterV (celFuelV [⟨2, 3, 1, 1, 1, 3, 2⟩, ⟨1, 1, 1, 0, 1, 5, 7⟩])
    [(⟨2, 3, 1, 1, 1, 3, 2⟩ : CelRow ℝ), ⟨1, 1, 1, 0, 1, 5, 7⟩]).isSome :=
  celIterV_terminates _ (by
    intro s hs
    simp only [List.mem_cons, List.not_mem_nil, or_false] at hs
    rcases hs with rfl | rfl <;> norm_num) _ le_rfl

/-- `cel_iter` as written (scalar loop on each entry for fewer than 15 entries, result unused,
then `cel_iterv` on the batch) terminates under the same hypothesis with the same bound -/
theorem celIterDispatch_terminates (rows : List (CelRow ℝ))
    (hpos : ∀ s ∈ rows, 0 < s.em ∧ 0 < s.kk) (fuel : ℕ) (hfuel : celFuelV rows ≤ fuel) :
    (celIterDispatch fuel rows).isSome :=
  celIterDispatch_isSome_celFuelV rows hpos fuel hfuel

example : (celIterDispatch (celFuelV [⟨2, 3, 1, 1, 1, 3, 2⟩]) [(⟨2, 3, 1, 1, 1, 3, 2⟩ : CelRow ℝ)]).isSome :=
  celIterDispatch_terminates _ (by
    intro s hs
    simp only [List.mem_cons, List.not_mem_nil, or_false] at hs
    subst hs; norm_num) _ le_rfl

/-- on a batch of one row `cel_iterv` is `cel_iter0` (so the one-row Circle model `circleHcyl`,
written with the scalar loop, is the code path `cel_iter → cel_iterv` for a single observer) -/
theorem celIterV_single (fuel : ℕ) (s : CelRow ℝ) :
    celIterV fuel [s] = (celIter fuel s.qc s.p s.g s.cc s.ss s.em s.kk).map (fun v => [v]) :=
  celIterV_singleton fuel s

/-- `cel0(kc, p, c, s)` (the scalar routine of the Cylinder kernels, errtol 1e-6): for `kc ≠ 0`
and all `p, c, s` the `while abs(g - k) > g*errtol` loop exits after at most
`celFuel1 |kc| 1e-6 = ⌈log₂(⌈D·1e6⌉ + 1)⌉ + 1` tests, `D = |1 − |kc|| / min(1, |kc|)` -/
theorem cel0_terminates (kc p c s : ℝ) (hkc : kc ≠ 0) (fuel : ℕ)
    (hfuel : celFuel1 |kc| (1 / 1000000) ≤ fuel) : (cel0 fuel kc p c s).isSome := by
  obtain ⟨v, hv⟩ := Option.isSome_iff_exists.mp (cel0_isSome_celFuel1 kc p c s hkc)
  obtain ⟨k, rfl⟩ := Nat.exists_eq_add_of_le hfuel
  rw [cel0_fuel_mono _ k kc p c s v hv]; rfl

example : (cel0 (celFuel1 |(-3 : ℝ)| (1 / 1000000)) (-3 : ℝ) (-2) 1 1).isSome :=
  cel0_terminates (-3) (-2) 1 1 (by norm_num) _ le_rfl

/-- `cel0` fails (`raise RuntimeError("FAIL")`, `none` in the model) exactly for `kc = 0`, given
enough fuel -/
theorem cel0_none_iff (kc p c s : ℝ) (fuel : ℕ) (hfuel : celFuel1 |kc| (1 / 1000000) ≤ fuel) :
    cel0 fuel kc p c s = none ↔ kc = 0 := by
  constructor
  · intro h
    by_contra hkc
    have := cel0_terminates kc p c s hkc fuel hfuel
    rw [h] at this
    exact absurd this (by simp)
  · rintro rfl
    exact cel0_eq_none_of_zero fuel p c s

example : cel0 5 (0 : ℝ) 1 1 1 = none := (cel0_none_iff 0 1 1 1 5 (by simp [celFuel1, agmSteps])).mpr rfl

/-- the value of `cel0` does not depend on the fuel -/
theorem cel0_fuel_irrelevant (n k : ℕ) (kc p c s v : ℝ) (h : cel0 n kc p c s = some v) :
    cel0 (n + k) kc p c s = some v :=
  cel0_fuel_mono n k kc p c s v h

/-! ### Cylinder: the near-axis branch -/

/-- C15 (Cylinder): for `r/r0 < 0.05` (observers on and near the axis, where the general diametral
formula divides by `r²`) `magnet_cylinder_diametral_Hfield` takes its Taylor branch: no elliptic
integral is evaluated (the model returns a value for every fuel, also 0) and every divisor of the
branch — `zpp = (z+z0)²+1`, `zmm = (z−z0)²+1`, their square roots and their powers up to the fifth,
besides the constants 4, 8, 64 — is positive, for every `z0`, `z`, `phi` and every `r` (also `r = 0`) -/
theorem cylinder_axis_branch_defined (fuel : Nat) (z0 r z phi : ℝ) (hr : r < 5 / 100) :
    cylDiametralH fuel z0 r z phi = some (cylDiametralSmallR z0 r z phi) ∧
    (let zpp := (z + z0) * (z + z0) + 1
     let zmm := (z - z0) * (z - z0) + 1
     0 < zpp ∧ 0 < zmm ∧ 0 < Real.sqrt zpp ∧ 0 < Real.sqrt zmm ∧
     0 < zpp * zpp ∧ 0 < zmm * zmm ∧ 0 < zpp * zpp * zpp ∧ 0 < zmm * zmm * zmm ∧
     0 < zpp * zpp * zpp * zpp ∧ 0 < zmm * zmm * zmm * zmm ∧
     0 < zpp * zpp * zpp * zpp * zpp ∧ 0 < zmm * zmm * zmm * zmm * zmm) := by
  obtain ⟨h1, h2, h3, h4⟩ := cylSmallR_divisors z0 z
  refine ⟨?_, h1, h2, h3, h4, ?_, ?_, ?_, ?_, ?_, ?_, ?_, ?_⟩
  · have : r < (5 : ℝ) / 100 := hr
    simp only [cylDiametralH, lt_real, n, ofNat_real, Nat.cast_ofNat, this, decide_true, if_true]
  all_goals positivity

-- non-vacuity: exactly on the axis
example : cylDiametralH 0 (1 : ℝ) 0 2 0 = some (cylDiametralSmallR 1 0 2 0) :=
  (cylinder_axis_branch_defined 0 1 0 2 0 (by norm_num)).1

/-- C15 (Cylinder): the geometric edge `r = r0 ∧ |z| = h/2` — the only observers where a modulus
`k1` / `k0` of the axial kernel vanishes, i.e. where `cel0` would `raise RuntimeError("FAIL")` — lies
inside the wrapper's on-edge mask (`np.isclose` accepts exact equality), so those rows never reach
the kernels; off that set both moduli are non-zero (for `r ≥ 0`), and the moduli `sqrt(1 − argp)`,
`sqrt(1 − argm)` of the diametral kernel are non-zero for every `r ≥ 0` -/
theorem cylinder_edge_mask_covers_singular (z0 r z : ℝ) (hr : 0 ≤ r) :
    (r = 1 → |z| = z0 → (cylMasks z0 r z).onEdge = true) ∧
    (¬ (z + z0 = 0 ∧ r = 1) → cylK (z + z0) r ≠ 0) ∧ (¬ (z - z0 = 0 ∧ r = 1) → cylK (z - z0) r ≠ 0) ∧
    cylKd (z + z0) r ≠ 0 ∧ cylKd (z - z0) r ≠ 0 :=
  ⟨cylMasks_onEdge_of_eq z0 r z, cylK_ne_zero _ r hr, cylK_ne_zero _ r hr, cylKd_ne_zero _ r hr, cylKd_ne_zero _ r hr⟩

/-- C15 (Cylinder): `BHJM_magnet_cylinder` for one row returns a value for every field, every
polarization and every observer — inside, outside, on hull, bases, edge and axis — of every cylinder
with positive diameter and non-negative height, in exact arithmetic: each of the up to ten `cel0`
calls has a non-zero modulus (the rows where it would vanish are masked, see above) and its
`while` loop exits; the model returns a value for every fuel ≥ `cylFuelX d h x`
(the largest `celFuel1 |kc| 1e-6` over the four moduli) -/
theorem cylinder_terminates (f : Field) (d h : ℝ) (pol x : V3 ℝ) (hd : 0 < d) (hh : 0 ≤ h) (fuel : ℕ)
    (hfuel : cylFuelX d h x ≤ fuel) : (bhjmCylinder fuel f (d, h) pol x).isSome :=
  bhjmCylinder_isSome fuel f d h pol x hd hh hfuel

example : (bhjmCylinder (cylFuelX 2 3 ⟨3, 4, 1⟩) .B ((2 : ℝ), 3) ⟨1, 2, 3⟩ ⟨3, 4, 1⟩).isSome :=
  cylinder_terminates .B 2 3 _ _ (by norm_num) (by norm_num) _ le_rfl

end MagpyVerif.C15
