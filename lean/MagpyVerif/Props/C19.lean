/-
Props/C19.lean — show() draws each object where it is (placement and unit parts).
The placement theorems are about `Display.place` (Model/Display.lean), the vertex map of `Display.placeModel` = `place_and_orient_model3d`;
the driver family `disp` executes `placeModel` and the `disp` stream compares it with the real function (dicts and args tuples, coordsargs,
scale, length factor, early return, inputs unchanged) on dyadic data.  For that formula: it maps every model vertex `v` to `(R·v·scale + p)·f`, i.e. the
object's pose at the displayed path index followed by the announced unit factor, and a local
vertex on the body's surface lands on the posed surface; the unit factor table regenerated from
`_UNIT_PREFIX`/`get_unit_factor` satisfies factor · 10^power = 1 for every prefix.
Also proved (Model/Display.lean, tied to the code by the `disp` correspondence stream): which path
indices `get_rot_pos_from_path` displays (`frames_*`), the local Cuboid model (`cuboid_*`: vertices
are the 8 corners, triangles lie in the faces, cover them, closed and outward-wound), the
Tetrahedron model (`tetra_*`), and the index structure / closedness of `make_Prism`, `make_Pyramid`.
/- FULL: also the remaining local model generators (vertex coordinates of Prism / Pyramid / Ellipsoid /
   CylinderSegment / Arrow, make_Sensor …), trace grouping/merging and the plotly/matplotlib glue, and
   that show() modifies nothing.  Those are exercised by the display oracle: figure traces from
   show(..., backend='plotly', return_fig=True) are mapped back through the inverse pose and compared
   with the object's geometry; snapshots before/after. -/
-/
import Mathlib.Algebra.GroupWithZero.Action.Defs
import Mathlib.Algebra.Module.Basic
import Mathlib.Tactic
import MagpyVerif.Gen.Units
import MagpyVerif.Lemmas.Display
import MagpyVerif.Lemmas.DisplayTrig
import MagpyVerif.Lemmas.DisplayIdx
import MagpyVerif.Lemmas.DisplayUnit
import MagpyVerif.Lemmas.DisplayWind
import MagpyVerif.Lemmas.DisplayGroup
import MagpyVerif.Lemmas.DisplayArrow
import MagpyVerif.Lemmas.DisplayOutward
import MagpyVerif.Lemmas.DisplayArrowLine
import MagpyVerif.Lemmas.DisplaySensor
namespace MagpyVerif.C19
open MagpyVerif.Gen

variable {G V K : Type} [Group G] [AddCommGroup V] [DistribMulAction G V] [Field K] [Module K V] [SMulCommClass G K V]

open MagpyVerif.Display (place placeOpt)

/-- the optional arguments: with an orientation and a position `placeOpt` (what `placeModel` applies to every vertex) is
`place`; `position=None` is the origin; `orientation=None` is no rotation -/
theorem placeOpt_eq_place (R : G) (p v : V) (s f : K) :
    placeOpt (some R) (some p) s f v = place R p s f v ∧
    placeOpt (some R) none s f v = place R 0 s f v ∧
    placeOpt (none : Option G) (some p) s f v = place (1 : G) p s f v := by
  simp [placeOpt, place]

/-- placement is the pose followed by the unit factor: with scale 1 a local-frame point `v` is
drawn at `f • (R • v + p)` -/
theorem place_is_pose (R : G) (p v : V) (f : K) : place R p (1 : K) f v = f • (R • v + p) := by
  simp [place]

/-- mapping a drawn vertex back through the inverse pose recovers the local model vertex (what the
display oracle does with the real traces) -/
theorem place_inverse (R : G) (p v : V) (f : K) (hf : f ≠ 0) :
    R⁻¹ • (f⁻¹ • place R p (1 : K) f v - p) = v := by
  simp [place, smul_smul, inv_mul_cancel₀ hf]

/-- differences of drawn vertices are the rotated, rescaled differences of model vertices: the
drawn body spans the full extent of the object -/
theorem place_preserves_extent (R : G) (p v w : V) (s f : K) :
    place R p s f v - place R p s f w = f • s • R • (v - w) := by
  simp only [place, smul_sub, smul_add]
  abel

/-! ### `placeModel` = place_and_orient_model3d as a whole (Model/Display.lean; driver `disp place`, `disp` stream) -/
section placeModel
open MagpyVerif MagpyVerif.Display
variable {α : Type} [Add α] [Mul α] [OfNat α 0] [OfNat α 1] [BEq α]

/-- the early return: without orientation, position and with `length_factor == 1` nothing is transformed — the dict is
`{**model_kwargs, **kwargs}`, args and coordsargs are the caller's — WHATEVER `scale` is (the code does not look at it) -/
theorem placeModel_early_return (a : PlaceIn α) (ho : a.orientation = none) (hp : a.position = none)
    (hf : (a.lengthFactor == 1) = true) :
    placeModel a = .ok { kwargs := dictUpdate a.kwargs a.extra, args := a.args, coordsargs := a.coordsargs } := by
  simp [placeModel, ho, hp, hf]

/-- a plain `x / y / z` trace (any other entries `rest` behind them, no args, default coordsargs, no extra kwargs) with a
pose: every vertex `(x_i, y_i, z_i)` is replaced by `place R p scale f` of it — the function of `place_is_pose`,
`place_inverse`, `place_preserves_extent` — the array shape is kept, and every other entry is returned as it is -/
theorem placeModel_vertices (R : M3 α) (p : V3 α) (scale f : α) (s : List Nat) (dx dy dz : List α)
    (rest : List (String × TVal α)) (hrest : ∀ kv ∈ rest, kv.1 ≠ "x" ∧ kv.1 ≠ "y" ∧ kv.1 ≠ "z") :
    placeModel { kwargs := [("x", .arr s dx), ("y", .arr s dy), ("z", .arr s dz)] ++ rest, args := none,
                 orientation := some R, position := some p, coordsargs := none, scale := scale, lengthFactor := f,
                 extra := [] } =
      let pts := (dx.zip (dy.zip dz)).map fun (x, y, z) => place R p scale f (⟨x, y, z⟩ : V3 α)
      .ok { kwargs := [("x", .arr s (pts.map (·.x))), ("y", .arr s (pts.map (·.y))), ("z", .arr s (pts.map (·.z)))] ++ rest,
            args := some [], coordsargs := some (.key "x", .key "y", .key "z") } := by
  have hmap : ∀ (l : List (String × TVal α)) (k : String) (v : TVal α), (∀ kv ∈ l, kv.1 ≠ k) →
      l.map (fun kv => if (kv.1 == k) = true then (k, v) else kv) = l := by
    intro l k v h
    induction l with
    | nil => rfl
    | cons a l ih =>
      have h1 : a.1 ≠ k := h a (List.mem_cons_self ..)
      rw [List.map_cons, ih (fun kv hk => h kv (List.mem_cons_of_mem _ hk))]
      simp [h1]
  -- `d[k] = v` when the first entry is `k` and no later one is
  have hit : ∀ (t : List (String × TVal α)) (k : String) (v0 v : TVal α), (∀ kv ∈ t, kv.1 ≠ k) →
      dictSet ((k, v0) :: t) k v = (k, v) :: t := by
    intro t k v0 v h
    simp only [dictSet, List.any_cons, beq_self_eq_true, Bool.true_or, if_true, List.map_cons]
    rw [hmap t k v h]
  -- `d[k] = v` passes an entry with another key when `k` occurs behind it
  have miss : ∀ (t : List (String × TVal α)) (k k' : String) (v v' : TVal α), k' ≠ k →
      t.any (·.1 == k) = true → dictSet ((k', v') :: t) k v = (k', v') :: dictSet t k v := by
    intro t k k' v v' hne hany
    simp [dictSet, hany, hne]
  have hx : ∀ kv ∈ ("y", TVal.arr s dy) :: ("z", TVal.arr s dz) :: rest, kv.1 ≠ "x" := by
    intro kv h
    rcases List.mem_cons.mp h with rfl | h
    · show ("y" : String) ≠ "x"; decide
    rcases List.mem_cons.mp h with rfl | h
    · show ("z" : String) ≠ "x"; decide
    · exact (hrest kv h).1
  have hy : ∀ (c : TVal α), ∀ kv ∈ ("z", c) :: rest, kv.1 ≠ "y" := by
    intro c kv h
    rcases List.mem_cons.mp h with rfl | h
    · show ("z" : String) ≠ "y"; decide
    · exact (hrest kv h).2.1
  have hinner : ∀ nx ny nz : TVal α, dictSet (dictSet (dictSet [] "x" nx) "y" ny) "z" nz =
      [("x", nx), ("y", ny), ("z", nz)] := by
    intro nx ny nz
    simp [dictSet]
  simp only [placeModel, Option.isNone_some, Bool.false_and, Bool.false_eq_true, if_false, resolveCoords,
    Option.getD_none, List.isEmpty_nil, if_true, fetchCoord, List.cons_append, List.nil_append, List.lookup_cons_self]
  have ly : List.lookup "y" (("x", TVal.arr s dx) :: ("y", TVal.arr s dy) :: ("z", TVal.arr s dz) :: rest) =
      some (TVal.arr s dy) := by simp [List.lookup]
  have lz : List.lookup "z" (("x", TVal.arr s dx) :: ("y", TVal.arr s dy) :: ("z", TVal.arr s dz) :: rest) =
      some (TVal.arr s dz) := by simp [List.lookup]
  simp only [ly, lz, bne_self_eq_false, Bool.or_self, Bool.false_eq_true, if_false, hinner, dictUpdate,
    List.foldl_cons, List.foldl_nil]
  rw [hit _ "x" _ _ hx]
  rw [miss _ "y" "x" _ _ (by decide) (by simp), hit _ "y" _ _ (hy _)]
  rw [miss _ "z" "x" _ _ (by decide) (by simp), miss _ "z" "y" _ _ (by decide) (by simp),
    hit _ "z" _ _ (fun kv h => (hrest kv h).2.2)]
  simp [placeOpt, place]
end placeModel

/-- every SI prefix (and d, c): lengths in metres times the factor are numbers in the announced
unit: factor('<prefix>m' → 'm') = 10^(−power of the prefix), over the whole generated table -/
theorem unit_factor_table : Units.table.all (fun r => r.2.2 == -r.1) = true := by
  decide

theorem unit_table_complete : Units.table.length = 18 := by decide

/-! ## Which path indices are displayed: `get_rot_pos_from_path` (Model/Display.lean `getRotPosInds`)

`inds` is the array the function returns, `rows` the path rows `orient[inds]`, `pos[inds]` select
(the path indices at which a copy of the object is drawn).  `n` is the path length. -/

open MagpyVerif.Display

/-- Whenever `get_rot_pos_from_path` returns (any path length, any `show_path`): the returned
index array is strictly increasing (so it has no duplicates), non-empty, every entry is a valid
numpy index `-n ≤ i < n` (in particular `< path_len`: indices beyond the path were clipped), the
selected rows are those indices with negative ones counted from the end, and every selected row
is a row of the path (`< n`): the object is drawn only at poses it really has. -/
theorem frames_indices_valid (n : Nat) (sp : ShowPath) (inds : List Int) (rows : List Nat)
    (h : getRotPosInds n sp = .ok (inds, rows)) :
    inds.Pairwise (· < ·) ∧ inds ≠ [] ∧ (∀ i ∈ inds, -(n : Int) ≤ i ∧ i < n) ∧
      rows = inds.map (normIdx n) ∧ rows ≠ [] ∧ ∀ r ∈ rows, r < n := by
  rw [getRotPosInds_unfold] at h
  cases hraw : rawInds n sp with
  | error e => rw [hraw] at h; simp at h
  | ok raw =>
    rw [hraw] at h
    simp only at h
    have hb : ∀ i ∈ finalInds n raw, -(n : Int) ≤ i ∧ i < n := by
      by_contra hc
      push Not at hc
      obtain ⟨i, hi, hi'⟩ := hc
      have : takeInds n (finalInds n raw) = .error .indexError :=
        takeInds_error ⟨i, hi, by by_cases h1 : -(n : Int) ≤ i <;> [exact Or.inr (hi' h1); exact Or.inl (by omega)]⟩
      rw [this] at h
      simp at h
    rw [takeInds_ok hb] at h
    simp only [Except.ok.injEq, Prod.mk.injEq] at h
    obtain ⟨rfl, rfl⟩ := h
    refine ⟨pairwise_finalInds n raw, finalInds_ne_nil n raw, hb, rfl, ?_, ?_⟩
    · simpa using finalInds_ne_nil n raw
    · intro r hr
      obtain ⟨i, hi, rfl⟩ := List.mem_map.1 hr
      exact normIdx_lt (hb i hi).1 (hb i hi).2

example : getRotPosInds 6 (.list [1, 2, 8]) = .ok ([1, 2, 5], [1, 2, 5]) := by decide
example : getRotPosInds 5 (.list [9, -1, 0, 0]) = .ok ([-1, 0, 4], [4, 0, 4]) := by decide

/-- When does displaying fail because of `show_path`?  Exactly when `show_path` is none of
None / bool / int / iterable (and not `== 0`): ValueError; or when it is an iterable containing an
index below `-path_len`: IndexError from `orient[inds]` (indices `≥ path_len` never fail, they are
clipped to the last row). -/
theorem frames_error_iff (n : Nat) (hn : 0 < n) (sp : ShowPath) (e : Err) :
    getRotPosInds n sp = .error e ↔
      (sp = .other ∧ e = .valueError) ∨ (∃ l, sp = .list l ∧ (∃ i ∈ l, i < -(n : Int)) ∧ e = .indexError) := by
  by_cases hl : ∃ l, sp = .list l
  · obtain ⟨l, rfl⟩ := hl
    by_cases hlow : ∃ i ∈ l, i < -(n : Int)
    · rw [getRotPosInds_err_of (raw := l) rfl hlow]
      constructor
      · intro h
        injection h with h
        exact Or.inr ⟨l, rfl, hlow, h.symm⟩
      · rintro (⟨h, _⟩ | ⟨_, _, _, rfl⟩)
        · simp at h
        · rfl
    · push Not at hlow
      rw [getRotPosInds_ok_of hn (raw := l) rfl hlow]
      constructor
      · intro h; simp at h
      · rintro (⟨h, _⟩ | ⟨l', h, ⟨i, hi, hi'⟩, _⟩)
        · simp at h
        · injection h with h
          subst h
          exact absurd hi' (not_lt.2 (hlow i hi))
  · push Not at hl
    cases hraw : rawInds n sp with
    | error e' =>
      have hsp : sp = .other := by
        cases sp <;> simp [rawInds] at hraw
        · split at hraw <;> simp at hraw
        · rfl
      subst hsp
      have : getRotPosInds n .other = .error .valueError := rfl
      rw [this]
      constructor
      · intro h
        injection h with h
        exact Or.inl ⟨rfl, h.symm⟩
      · rintro (⟨_, rfl⟩ | ⟨l, h, _⟩)
        · rfl
        · simp at h
    | ok raw =>
      rw [getRotPosInds_ok_of hn hraw (rawInds_lower_of_not_list hn hraw hl)]
      constructor
      · intro h; simp at h
      · rintro (⟨rfl, _⟩ | ⟨l, h, _⟩)
        · simp [rawInds] at hraw
        · exact absurd h (hl l)

example : getRotPosInds 3 (.list [0, -4]) = .error .indexError := by decide
example : getRotPosInds 3 (.list [0, 7]) = .ok ([0, 2], [0, 2]) := by decide

/-- `show_path` a non-empty iterable `L` of indices none of which is below `-path_len`: the
returned array is exactly the sorted, de-duplicated set `{ min(i, path_len-1) : i ∈ L }` — entries
beyond the path are clipped to the last row, negative entries are passed through unchanged (numpy
then counts them from the end when the rows are selected). -/
theorem frames_list_sorted_dedup_clipped (n : Nat) (hn : 0 < n) (l : List Int) (hne : l ≠ [])
    (hlow : ∀ i ∈ l, -(n : Int) ≤ i) :
    getRotPosInds n (.list l) =
      .ok ((l.map (fun i => min i ((n : Int) - 1))).toFinset.sort (· ≤ ·),
           ((l.map (fun i => min i ((n : Int) - 1))).toFinset.sort (· ≤ ·)).map (normIdx n)) := by
  rw [getRotPosInds_ok_of hn (raw := l) rfl hlow, finalInds_of_ne_nil hne, unique_eq_sort,
    clipInds_eq_map_min]

example : getRotPosInds 4 (.list [3, 9, -2, 3]) = .ok ([-2, 3], [2, 3]) := by decide

/-- The last path position (the object's current pose) is always among the displayed rows when
`show_path` is None, True, False, 0, a positive step `k` (rows `n-1, n-1-k, n-1-2k, …`) or an
empty iterable.
/- FULL: "always contains path_len − 1" for every show_path.  False of the code for non-empty
   iterables (`frames_list_may_omit_last`) and for negative integer steps
   (`frames_negative_step_omits_last`, rows `0, |k|, 2|k|, …` counted from the start). -/ -/
theorem frames_contains_last_partial (n : Nat) (hn : 0 < n) (sp : ShowPath)
    (hsp : sp = .none ∨ (∃ b, sp = .bool b) ∨ (∃ k : Int, 0 ≤ k ∧ sp = .int k) ∨ sp = .list []) :
    ∃ inds rows, getRotPosInds n sp = .ok (inds, rows) ∧ n - 1 ∈ rows := by
  have base : ∀ sp', rawInds n sp' = .ok [-1] → ∃ inds rows, getRotPosInds n sp' = .ok (inds, rows) ∧ n - 1 ∈ rows := by
    intro sp' h
    refine ⟨_, _, getRotPosInds_ok_of hn h (by intro i hi; simp at hi; omega), ?_⟩
    rw [finalInds_neg_one hn]
    simp [normIdx_neg_one hn]
  rcases hsp with rfl | ⟨b, rfl⟩ | ⟨k, hk, rfl⟩ | rfl
  · exact base _ rfl
  · exact base _ rfl
  · by_cases hk0 : k = 0
    · subst hk0
      exact base _ rfl
    · have hraw : rawInds n (.int k) = .ok (arangeSlice n (-k)) := by simp [rawInds, hk0]
      refine ⟨_, _, getRotPosInds_ok_of hn hraw (rawInds_lower_of_not_list hn hraw (by simp)), ?_⟩
      rw [finalInds_arange hn (by omega), List.mem_map]
      refine ⟨(n : Int) - 1, mem_unique.2 ((mem_arangeSlice_neg hn (by omega)).2 ⟨0, by simp, by simpa using hn⟩), ?_⟩
      rw [normIdx_of_nonneg (by omega)]
      omega
  · refine ⟨_, _, getRotPosInds_ok_of hn (raw := []) rfl (by simp), ?_⟩
    rw [finalInds_nil]
    simp [normIdx_of_nonneg (show (0 : Int) ≤ (n : Int) - 1 by omega)]

example : getRotPosInds 7 (.int 3) = .ok ([0, 3, 6], [0, 3, 6]) := by decide
example : getRotPosInds 7 .none = .ok ([-1], [6]) := by decide

/-- the exclusions in `frames_contains_last_partial` are necessary: a list shows exactly the rows it
names, and a negative step counts from the first row -/
theorem frames_list_may_omit_last : displayedIndices 3 (.list [0]) = .ok [0] := by decide
theorem frames_negative_step_omits_last : displayedIndices 4 (.int (-2)) = .ok [0, 2] := by decide

/-- Integer step `k ≠ 0` (`np.arange(path_len)[::-k]`): for `k > 0` exactly the rows `r < n` with
`k ∣ n-1-r` are displayed (every k-th position counted back from the last), for `k < 0` exactly the
rows with `|k| ∣ r` (every |k|-th position counted from the first); the returned array holds the
same numbers, in increasing order. -/
theorem frames_step (n : Nat) (hn : 0 < n) (k : Int) (hk : k ≠ 0) :
    ∃ inds : List Int, getRotPosInds n (.int k) = .ok (inds, inds.map Int.toNat) ∧
      (∀ i ∈ inds, 0 ≤ i) ∧
      ∀ r : Nat, r ∈ inds.map Int.toNat ↔
        r < n ∧ (if 0 < k then k.natAbs ∣ n - 1 - r else k.natAbs ∣ r) := by
  have hraw : rawInds n (.int k) = .ok (arangeSlice n (-k)) := by simp [rawInds, hk]
  have hnonneg : ∀ i ∈ unique (arangeSlice n (-k)), 0 ≤ i := fun i hi =>
    (arangeSlice_range (step := -k) (by omega) (mem_unique.1 hi)).1
  refine ⟨unique (arangeSlice n (-k)), ?_, hnonneg, ?_⟩
  · rw [getRotPosInds_ok_of hn hraw (rawInds_lower_of_not_list hn hraw (by simp)),
      finalInds_arange hn (by omega)]
    congr 2
    apply List.map_congr_left
    intro i hi
    exact normIdx_of_nonneg (hnonneg i hi)
  · intro r
    rw [List.mem_map]
    have habs : (-k).natAbs = k.natAbs := Int.natAbs_neg k
    split
    · rename_i hpos
      constructor
      · rintro ⟨i, hi, rfl⟩
        obtain ⟨q, rfl, hq⟩ := (mem_arangeSlice_neg hn (by omega)).1 (mem_unique.1 hi)
        rw [habs] at hq ⊢
        have hcast : (((n : Int) - 1 - (q : Int) * (k.natAbs : Int)).toNat) = n - 1 - q * k.natAbs := by
          have : ((q * k.natAbs : Nat) : Int) = (q : Int) * (k.natAbs : Int) := by push_cast; ring
          omega
        rw [hcast]
        refine ⟨by omega, ⟨q, ?_⟩⟩
        have : n - 1 - (n - 1 - q * k.natAbs) = q * k.natAbs := by omega
        rw [this, Nat.mul_comm]
      · rintro ⟨hr, ⟨q, hq⟩⟩
        refine ⟨(n : Int) - 1 - (q : Int) * (k.natAbs : Int), mem_unique.2 ((mem_arangeSlice_neg hn (by omega)).2 ⟨q, by rw [habs], ?_⟩), ?_⟩
        · rw [habs]
          have : q * k.natAbs = n - 1 - r := by rw [hq, Nat.mul_comm]
          omega
        · have : ((q * k.natAbs : Nat) : Int) = (q : Int) * (k.natAbs : Int) := by push_cast; ring
          have h2 : q * k.natAbs = n - 1 - r := by rw [hq, Nat.mul_comm]
          omega
    · rename_i hneg
      have hkneg : k < 0 := by omega
      constructor
      · rintro ⟨i, hi, rfl⟩
        obtain ⟨q, rfl, hq⟩ := (mem_arangeSlice_pos hn (by omega)).1 (mem_unique.1 hi)
        rw [habs] at hq ⊢
        have hcast : (((q : Int) * (k.natAbs : Int)).toNat) = q * k.natAbs := by
          have : ((q * k.natAbs : Nat) : Int) = (q : Int) * (k.natAbs : Int) := by push_cast; ring
          omega
        rw [hcast]
        exact ⟨hq, ⟨q, Nat.mul_comm _ _⟩⟩
      · rintro ⟨hr, ⟨q, hq⟩⟩
        refine ⟨(q : Int) * (k.natAbs : Int), mem_unique.2 ((mem_arangeSlice_pos hn (by omega)).2 ⟨q, by rw [habs], ?_⟩), ?_⟩
        · rw [habs, Nat.mul_comm, ← hq]
          exact hr
        · have : ((q * k.natAbs : Nat) : Int) = (q : Int) * (k.natAbs : Int) := by push_cast; ring
          have h2 : q * k.natAbs = r := by rw [hq, Nat.mul_comm]
          omega

example : getRotPosInds 8 (.int 3) = .ok ([1, 4, 7], [1, 4, 7]) := by decide
example : getRotPosInds 8 (.int (-3)) = .ok ([0, 3, 6], [0, 3, 6]) := by decide

/-- No path row is drawn twice (the selected rows are strictly increasing) unless `show_path` is an
iterable mixing negative and non-negative indices.
/- FULL: the selected rows are strictly increasing for every show_path.  False of the code:
   `frames_row_drawn_twice_witness` — `np.unique` runs before negative indices are resolved, so
   `[-1, n-1]` names the last row twice and the object is drawn there twice. -/ -/
theorem frames_rows_strictly_increasing_partial (n : Nat) (hn : 0 < n) (sp : ShowPath)
    (hsp : ∀ l, sp = .list l → (∀ i ∈ l, 0 ≤ i) ∨ (∀ i ∈ l, i < 0))
    (inds : List Int) (rows : List Nat) (h : getRotPosInds n sp = .ok (inds, rows)) :
    rows.Pairwise (· < ·) := by
  obtain ⟨hp, _, hb, rfl, _, _⟩ := frames_indices_valid n sp inds rows h
  apply pairwise_map_normIdx hp hb
  -- the sign condition on the returned array
  rw [getRotPosInds_unfold] at h
  cases hraw : rawInds n sp with
  | error e => rw [hraw] at h; simp at h
  | ok raw =>
    rw [hraw] at h
    simp only at h
    cases ht : takeInds n (finalInds n raw) with
    | error e => rw [ht] at h; simp at h
    | ok rows' =>
      rw [ht] at h
      simp only [Except.ok.injEq, Prod.mk.injEq] at h
      obtain ⟨rfl, _⟩ := h
      have hsign : (∀ i ∈ raw, 0 ≤ i) ∨ (∀ i ∈ raw, i < 0) := by
        cases sp with
        | none => simp [rawInds] at hraw; subst hraw; right; simp
        | bool b => simp [rawInds] at hraw; subst hraw; right; simp
        | int k =>
          by_cases hk : k = 0
          · simp [rawInds, hk] at hraw; subst hraw; right; simp
          · simp [rawInds, hk] at hraw
            subst hraw
            left
            intro i hi
            exact (arangeSlice_range (step := -k) (by omega) hi).1
        | list l => simp [rawInds] at hraw; subst hraw; exact hsp l rfl
        | other => simp [rawInds] at hraw
      by_cases hr : raw = []
      · subst hr
        left
        intro i hi
        rw [finalInds_nil] at hi
        simp at hi
        omega
      · rcases hsign with hs | hs
        · left
          intro i hi
          obtain ⟨j, hj, rfl⟩ := (mem_finalInds_of_ne_nil hr).1 hi
          have := hs j hj
          omega
        · right
          intro i hi
          obtain ⟨j, hj, rfl⟩ := (mem_finalInds_of_ne_nil hr).1 hi
          have := hs j hj
          omega

example : getRotPosInds 5 (.list [4, 0, 2, 4]) = .ok ([0, 2, 4], [0, 2, 4]) := by decide

/-- the exclusion in `frames_rows_strictly_increasing_partial` is necessary -/
theorem frames_row_drawn_twice_witness : getRotPosInds 3 (.list [-1, 2]) = .ok ([-1, 2], [2, 2]) := by
  decide

/-! ## Local model of a Cuboid: `make_Cuboid` (Model/Display.lean)

Coordinates are DOUBLED (`cuboidVerts2` = 2·vertex, `posOff pos` = 2·position) so that `±dimension/2`
becomes `±dimension` in ℤ.  `coord a` is the x / y / z component, `sgn a idx` the literal sign of
model vertex `idx` along axis `a`, `triInFace a sg t` says that the three vertices of `t` all have sign
`sg` along axis `a`. -/

open MagpyVerif.Mesh (openEdges verts)

/-- `make_Cuboid(dimension, position)`:
(1) there are 8 vertices and vertex `idx` sits at `position + sgn·dimension/2` in every coordinate,
    so every coordinate of every vertex is `±dimension/2` away from the position: each vertex is a
    corner of the box, in particular on its surface;
(2) all 8 corners occur: the drawn vertices span the full extent of the magnet;
(3) every one of the 12 triangles lies within one face of the box (its three vertices share the
    coordinate `position ± dimension/2` along one axis);
(4) each of the 6 faces contains exactly two of the triangles and these two cover all 4 corners of
    the face;
(5) every triangle has three distinct vertex indices, all `< 8`. -/
theorem cuboid_vertices_on_surface_and_span (dim : I3) (pos : Option I3) :
    (cuboidVerts2 dim pos).length = 8 ∧
    (∀ idx < 8, ∃ v, (cuboidVerts2 dim pos)[idx]? = some v ∧ ∀ a : Fin 3,
        coord a v = coord a (posOff pos) + sgn a idx * coord a dim ∧ (sgn a idx = 1 ∨ sgn a idx = -1)) ∧
    (∀ v ∈ cuboidVerts2 dim pos, ∀ a : Fin 3,
        coord a v - coord a (posOff pos) = coord a dim ∨ coord a v - coord a (posOff pos) = -coord a dim) ∧
    (∀ sx ∈ [(1 : Int), -1], ∀ sy ∈ [(1 : Int), -1], ∀ sz ∈ [(1 : Int), -1],
        ((posOff pos).1 + sx * dim.1, (posOff pos).2.1 + sy * dim.2.1, (posOff pos).2.2 + sz * dim.2.2)
          ∈ cuboidVerts2 dim pos) ∧
    (∀ t ∈ cuboidTriangles, ∃ a : Fin 3, ∃ sg ∈ [(1 : Int), -1], triInFace a sg t = true ∧
        ∀ idx ∈ verts t, ∃ v, (cuboidVerts2 dim pos)[idx]? = some v ∧
          coord a v = coord a (posOff pos) + sg * coord a dim) ∧
    (∀ a : Fin 3, ∀ sg ∈ [(1 : Int), -1],
        (cuboidTriangles.filter (triInFace a sg)).length = 2 ∧
        ∀ idx < 8, sgn a idx = sg → idx ∈ (cuboidTriangles.filter (triInFace a sg)).flatMap verts) ∧
    (∀ t ∈ cuboidTriangles, t.1 ≠ t.2.1 ∧ t.2.1 ≠ t.2.2 ∧ t.1 ≠ t.2.2 ∧ t.1 < 8 ∧ t.2.1 < 8 ∧ t.2.2 < 8) := by
  have hsgn : ∀ idx < 8, ∀ a : Fin 3, sgn a idx = 1 ∨ sgn a idx = -1 := by decide
  have hlen : (cuboidVerts2 dim pos).length = 8 := by rw [cuboidVerts2_eq]; rfl
  have hidx : ∀ t ∈ cuboidTriangles, ∀ idx ∈ verts t, idx < 8 := by decide
  refine ⟨hlen, ?_, ?_, ?_, ?_, ?_, by decide⟩
  · intro idx h
    obtain ⟨v, hv, hc⟩ := cuboidVerts2_getElem dim pos idx h
    exact ⟨v, hv, fun a => ⟨hc a, hsgn idx h a⟩⟩
  · intro v hv a
    obtain ⟨idx, hidx', hget⟩ := List.getElem_of_mem hv
    rw [hlen] at hidx'
    obtain ⟨v', hv', hc⟩ := cuboidVerts2_getElem dim pos idx hidx'
    have : v' = v := by
      rw [List.getElem?_eq_getElem (by rw [hlen]; exact hidx')] at hv'
      rw [← hget]
      exact (Option.some.inj hv').symm
    subst this
    rw [hc a]
    rcases hsgn idx hidx' a with h | h <;> rw [h]
    · left; ring
    · right; ring
  · rw [cuboidVerts2_eq]
    intro sx hsx sy hsy sz hsz
    simp only [List.mem_cons, List.not_mem_nil, or_false] at hsx hsy hsz
    rcases hsx with rfl | rfl <;> rcases hsy with rfl | rfl <;> rcases hsz with rfl | rfl <;>
      simp [cuboidSigns, cuboidSignX, cuboidSignY, cuboidSignZ]
  · intro t ht
    obtain ⟨a, sg, hsg, hin⟩ := cuboid_tri_in_some_face t ht
    refine ⟨a, sg, hsg, hin, ?_⟩
    intro idx hi
    obtain ⟨v, hv, hc⟩ := cuboidVerts2_getElem dim pos idx (hidx t ht idx hi)
    refine ⟨v, hv, ?_⟩
    rw [hc a]
    have : sgn a idx = sg := by
      simp only [triInFace, Bool.and_eq_true, beq_iff_eq] at hin
      simp only [verts, List.mem_cons, List.not_mem_nil, or_false] at hi
      rcases hi with rfl | rfl | rfl
      · exact hin.1.1
      · exact hin.1.2
      · exact hin.2
    rw [this]
  · intro a sg hsg
    obtain ⟨h1, h2⟩ := cuboid_face_two_triangles a sg hsg
    exact ⟨h1, fun idx hi => h2 idx (List.mem_range.2 hi)⟩

example : cuboidVerts2 (2, 4, 6) (some (10, 20, 30)) =
    [(18, 36, 54), (18, 44, 54), (22, 44, 54), (22, 36, 54), (18, 36, 66), (18, 44, 66), (22, 44, 66), (22, 36, 66)] := by
  decide
example : cuboidTriangles.filter (triInFace 2 1) = [(4, 6, 5), (4, 7, 6)] := by decide

/-- the 12 index triples of `make_Cuboid` form a closed surface in the sense of
`TriangularMesh`'s own check (`get_open_edges` of Model/Mesh.lean returns nothing): every edge is
shared by exactly two triangles -/
theorem cuboid_mesh_closed : openEdges cuboidTriangles = [] := by decide

/-- the cuboid's triangles are consistently wound: no directed edge is used twice -/
theorem cuboid_mesh_consistently_oriented :
    (cuboidTriangles.flatMap fun t => [(t.1, t.2.1), (t.2.1, t.2.2), (t.2.2, t.1)]).Nodup := by decide

/-- … and wound outwards: for every triangle `(i, j, k)` the normal `(v_j − v_i) × (v_k − v_i)` has
scalar product `4·a·b·c` (doubled coordinates; = volume-positive for positive side lengths) with
the vector from the box centre to `v_i`; in particular no triangle is geometrically degenerate
when all side lengths are non-zero. -/
theorem cuboid_faces_outward (dim : I3) (pos : Option I3) (h : 0 < dim.1 ∧ 0 < dim.2.1 ∧ 0 < dim.2.2) :
    ∀ t ∈ cuboidTriangles, ∀ vi vj vk, (cuboidVerts2 dim pos)[t.1]? = some vi →
      (cuboidVerts2 dim pos)[t.2.1]? = some vj → (cuboidVerts2 dim pos)[t.2.2]? = some vk →
      0 < dot3 (cross3 (sub3 vj vi) (sub3 vk vi)) (sub3 vi (posOff pos)) := by
  intro t ht vi vj vk h1 h2 h3
  rw [cuboid_outward_identity dim pos t ht vi vj vk h1 h2 h3]
  have := mul_pos (mul_pos h.1 h.2.1) h.2.2
  omega

example : cuboidTriangles.length = 12 ∧ (7, 0, 3) ∈ cuboidTriangles := by decide
-- triangle (7, 0, 3) of a 1 × 2 × 3 box (doubled: 2 × 4 × 6) centred at the origin
example : (cuboidVerts2 (2, 4, 6) none)[7]? = some (2, -4, 6) ∧ (cuboidVerts2 (2, 4, 6) none)[0]? = some (-2, -4, -6) ∧
    (cuboidVerts2 (2, 4, 6) none)[3]? = some (2, -4, -6) ∧
    dot3 (cross3 (sub3 (-2, -4, -6) (2, -4, 6)) (sub3 (2, -4, -6) (2, -4, 6))) (sub3 (2, -4, 6) (0, 0, 0)) = 4 * (2 * 4 * 6) := by
  decide

/-! ## Local model of a Tetrahedron: `make_Tetrahedron` with `check_chirality` -/

/-- the 4 index triples of `make_Tetrahedron` form a closed surface (no open edge) -/
theorem tetra_mesh_closed : openEdges tetraTriangles = [] := by decide

/-- `make_Tetrahedron` draws the object's own four vertices (possibly with the last two exchanged by
`check_chirality`, which makes the determinant non-negative), every triangle has three distinct
indices `< 4`, the winding is consistent, and for every triangle `(i, j, k)` with fourth vertex `m`
the normal `(v_j − v_i) × (v_k − v_i)` has scalar product `−|det|` with `v_m − v_i`: for a
non-degenerate tetrahedron every face is wound with its normal pointing away from the body. -/
theorem tetra_faces_outward (p : I3 × I3 × I3 × I3) :
    ((tetraPoints p = [p.1, p.2.1, p.2.2.1, p.2.2.2] ∨ tetraPoints p = [p.1, p.2.1, p.2.2.2, p.2.2.1])) ∧
    (∀ t ∈ tetraTriangles, t.1 ≠ t.2.1 ∧ t.2.1 ≠ t.2.2 ∧ t.1 ≠ t.2.2 ∧ t.1 < 4 ∧ t.2.1 < 4 ∧ t.2.2 < 4) ∧
    (tetraTriangles.flatMap fun t => [(t.1, t.2.1), (t.2.1, t.2.2), (t.2.2, t.1)]).Nodup ∧
    ∀ t ∈ tetraTriangles, ∀ vi vj vk vm, (tetraPoints p)[t.1]? = some vi → (tetraPoints p)[t.2.1]? = some vj →
      (tetraPoints p)[t.2.2]? = some vk → (tetraPoints p)[6 - t.1 - t.2.1 - t.2.2]? = some vm →
      dot3 (cross3 (sub3 vj vi) (sub3 vk vi)) (sub3 vm vi) = -|tetraDet p| := by
  refine ⟨?_, by decide, by decide, ?_⟩
  · obtain ⟨p0, p1, p2, p3⟩ := p
    rw [tetraPoints_eq]
    unfold checkChirality
    simp only
    split
    · right; rfl
    · left; rfl
  · intro t ht vi vj vk vm h1 h2 h3 h4
    rw [tetraPoints_eq] at h1 h2 h3 h4
    rw [tetra_outward_identity _ _ _ _ t ht vi vj vk vm h1 h2 h3 h4, ← tetraDet_checkChirality]

example : tetraPoints ((0, 0, 0), (1, 0, 0), (0, 0, 1), (0, 1, 0)) = [(0, 0, 0), (1, 0, 0), (0, 1, 0), (0, 0, 1)] := by
  decide
example : tetraDet ((0, 0, 0), (1, 0, 0), (0, 0, 1), (0, 1, 0)) = -1 := by decide

/-! ## Index structure of `make_Prism` (Cylinder graphic, base = 50) and `make_Pyramid` (arrow heads)

Vertex coordinates use sin / cos (modelled separately in Model/DisplayTrig.lean, theorems further down); here the `i, j, k` arrays.  `succMod N q` is
`(q+1) mod N`.  Prism vertex rows: bottom ring `0..N-1`, top ring `N..2N-1`, bottom centre `2N`, top
centre `2N+1`.  Pyramid vertex rows: base ring `0..N-1`, tip `N`. -/

/-- `make_Prism(base=N)`, `N ≥ 1`: the `N`-fold slice assignments `j1[-1] = 0`, `j2[-1] = N`,
`k2[-1] = 0` and the four concatenations produce exactly, for `q = 0..N-1`: the lower side triangles
`(q, q+1 mod N, q+N)`, the upper side triangles `(q+N, q+1 mod N, (q+1 mod N)+N)`, the bottom cap
`(q, 2N, q+1 mod N)` and the top cap `(q+N, (q+1 mod N)+N, 2N+1)`; for `N ≥ 2` every triangle has
three distinct indices, all rows of the `2N+2` vertex array. -/
theorem prism_index_structure (N : Nat) (hN : 0 < N) :
    prismTriangles N = .ok (prismSpec N) ∧ (prismSpec N).length = 4 * N ∧
      (2 ≤ N → ∀ t ∈ prismSpec N, t.1 ≠ t.2.1 ∧ t.2.1 ≠ t.2.2 ∧ t.1 ≠ t.2.2 ∧
        t.1 < 2 * N + 2 ∧ t.2.1 < 2 * N + 2 ∧ t.2.2 < 2 * N + 2) := by
  refine ⟨prismTriangles_eq hN, ?_, fun h => prismSpec_indices h⟩
  simp [prismSpec]
  omega

example : prismTriangles 3 = .ok [(0, 1, 3), (1, 2, 4), (2, 0, 5), (3, 1, 4), (4, 2, 5), (5, 0, 3),
    (0, 6, 1), (1, 6, 2), (2, 6, 0), (3, 4, 7), (4, 5, 7), (5, 3, 7)] := by decide

/-- for EVERY base `N ≥ 3` (the Cylinder graphic uses 50) the prism's triangles form a closed
surface: every edge is shared by exactly two triangles (`get_open_edges` finds nothing).  (For
`N = 2` the two ring edges coincide and the statement is false; `N = 0` raises IndexError.) -/
theorem prism_mesh_closed (N : Nat) (hN : 3 ≤ N) :
    ∃ fs, prismTriangles N = .ok fs ∧ openEdges fs = [] :=
  ⟨prismSpec N, prismTriangles_eq (by omega), prismSpec_closed hN⟩

example : (prismTriangles 5).map openEdges = .ok [] := by decide
example : (prismTriangles 2).map openEdges = .ok [(0, 1), (2, 3)] := by decide
example : prismTriangles 0 = .error .indexError := by decide

/-- `make_Pyramid(base=N)`, `N ≥ 1`: the triangles are exactly `(q, q+1 mod N, N)` for `q = 0..N-1`
(the side surface of the cone; there is no base cap), and for `N ≥ 3` the open edges of this
surface are exactly the `N` edges of the base polygon. -/
theorem pyramid_index_structure (N : Nat) (hN : 0 < N) :
    pyramidTriangles N = .ok (pyramidSpec N) ∧
      (3 ≤ N → ∀ e, e ∈ openEdges (pyramidSpec N) ↔ e ∈ baseRing N) :=
  ⟨pyramidTriangles_eq hN, fun h e => mem_openEdges_pyramidSpec h e⟩

example : pyramidTriangles 4 = .ok [(0, 1, 4), (1, 2, 4), (2, 3, 4), (3, 0, 4)] := by decide
example : baseRing 4 = [(0, 1), (1, 2), (2, 3), (0, 3)] := by decide

/-! ## Vertex coordinates of the generators that use sin / cos (Model/DisplayTrig.lean at α = ℝ)

The same definitions run at `Float` in the driver and are compared value by value with the real
`make_Prism`, `make_CylinderSegment`, `make_Ellipsoid`, `make_Pyramid`, `make_Circle`,
`make_Polyline` (stream `disp`, rows `prismv`, `segv`, `ellv`, `pyrv`, `circ`, `polyl`).  All
statements are about the local frame (`position=None, orientation=None`); `place_*` above carries
them to the pose.  Exact real arithmetic: sin² + cos² = 1 holds exactly, in IEEE double to rounding. -/

open MagpyVerif.DisplayTrig in
/-- Cylinder graphic (`make_Prism(base=N, diameter=d, height=h)`): `2N + 2` vertices; the first `2N`
(the two rings) lie ON the lateral hull of the cylinder, `x² + y² = (d/2)²`, at `z = -h/2` or
`z = h/2`; the last two are the cap centres on the axis. -/
theorem prism_vertices_on_hull (N : Nat) (d h : ℝ) :
    (prismVerts N d h).length = 2 * N + 2 ∧
    (∀ v ∈ (prismVerts N d h).take (2 * N), v.x ^ 2 + v.y ^ 2 = (d / 2) ^ 2 ∧ (v.z = -(h / 2) ∨ v.z = h / 2)) ∧
    (prismVerts N d h).drop (2 * N) = [⟨0, 0, -(h / 2)⟩, ⟨0, 0, h / 2⟩] :=
  ⟨prismVerts_length N d h, prism_ring_on_hull N d h, prism_centres N d h⟩

open MagpyVerif.DisplayTrig in
/-- the rings are the regular `N`-gon INSCRIBED in the circle of diameter `d`, first vertex on the
+x axis, counter-clockwise, bottom ring at rows `0..N-1`, top ring at rows `N..2N-1` (what the
index arrays of `prism_index_structure` refer to) -/
theorem prism_vertex_formula (N : Nat) (d h : ℝ) (k : Nat) (hk : k < N) :
    (prismVerts N d h)[k]? =
        some ⟨d / 2 * Real.cos (2 * Real.pi * k / N), d / 2 * Real.sin (2 * Real.pi * k / N), -(h / 2)⟩ ∧
    (prismVerts N d h)[N + k]? =
        some ⟨d / 2 * Real.cos (2 * Real.pi * k / N), d / 2 * Real.sin (2 * Real.pi * k / N), h / 2⟩ :=
  DisplayTrig.prism_vertex_formula N d h k hk

open MagpyVerif.DisplayTrig in
/-- "spans the full extent", as far as a polygonal approximation does: both end planes `z = ∓h/2`
carry vertices, the vertex at angle 0 reaches `x = d/2` on both rings, and no ring vertex leaves the
bounding box `|x|, |y| ≤ |d|/2` (the polygon is inscribed: between vertices the drawn surface stays
inside the true hull, by at most `(d/2)(1 - cos(π/N))`; that bound is not proved here).  For even `N`
the opposite side `x = -d/2` is reached as well. -/
theorem prism_spans_extent (N : Nat) (hN : 1 ≤ N) (d h : ℝ) :
    (prismVerts N d h)[0]? = some ⟨d / 2, 0, -(h / 2)⟩ ∧
    (prismVerts N d h)[N]? = some ⟨d / 2, 0, h / 2⟩ ∧
    (∀ v ∈ (prismVerts N d h).take (2 * N), |v.x| ≤ |d| / 2 ∧ |v.y| ≤ |d| / 2) ∧
    (N % 2 = 0 → (prismVerts N d h)[N / 2]? = some ⟨-(d / 2), 0, -(h / 2)⟩) := by
  have h0 := DisplayTrig.prism_vertex_formula N d h 0 (by omega)
  simp only [Nat.cast_zero, mul_zero, zero_div, Real.cos_zero, Real.sin_zero, mul_one, Nat.add_zero] at h0
  refine ⟨h0.1, h0.2, ?_, ?_⟩
  · intro v hv
    obtain ⟨hc, _⟩ := prism_ring_on_hull N d h v hv
    have e : (|d| / 2) ^ 2 = (d / 2) ^ 2 := by rw [div_pow, sq_abs, div_pow]
    have hd : 0 ≤ |d| / 2 := by positivity
    constructor
    · apply abs_le_of_sq_le_sq' _ hd |> fun h => abs_le.mpr h
      rw [e]; nlinarith [sq_nonneg v.y]
    · apply abs_le_of_sq_le_sq' _ hd |> fun h => abs_le.mpr h
      rw [e]; nlinarith [sq_nonneg v.x]
  · intro hev
    have hk := (DisplayTrig.prism_vertex_formula N d h (N / 2) (by omega)).1
    rw [hk]
    have hNr : (N : ℝ) ≠ 0 := by exact_mod_cast (show N ≠ 0 by omega)
    have e : 2 * Real.pi * ((N / 2 : ℕ) : ℝ) / (N : ℝ) = Real.pi := by
      have : ((N / 2 : ℕ) : ℝ) = (N : ℝ) / 2 := by
        have h2 : N = 2 * (N / 2) := by omega
        rw [eq_div_iff (by norm_num)]
        exact_mod_cast (by omega : N / 2 * 2 = N)
      rw [this]; field_simp
    rw [e, Real.cos_pi, Real.sin_pi]
    simp

open MagpyVerif.DisplayTrig in
example : (prismVerts 4 2 6 : List (V3 ℝ)).length = 10 := (prism_vertices_on_hull 4 2 6).1

open MagpyVerif.DisplayTrig in
/-- CylinderSegment graphic (`make_CylinderSegment(dimension=(r1, r2, h, phi1, phi2), vert)`), for
`phi1 ≤ phi2` (what the CylinderSegment validator guarantees): with `N = max(5, int(vert·|phi1-phi2|/360))`
there are `4N` vertices (no vertex is dropped, also not for `r1 = 0`); every vertex is
`(r cos φ°, r sin φ°, ±h/2)` with `r ∈ {r1, r2}` and `phi1 ≤ φ ≤ phi2`, i.e. on the inner or outer
shell, inside the angular range, on the top or bottom plane — so in particular `x² + y² = r²`;
and all eight corners (both radii × both extreme angles × both planes) are vertices. -/
theorem cylinder_segment_vertices_on_surface (vert : Nat) (r1 r2 h phi1 phi2 : ℝ) (hphi : phi1 ≤ phi2) :
    (segVerts vert r1 r2 h phi1 phi2).length = 4 * segN vert phi1 phi2 ∧
    (∀ v ∈ segVerts vert r1 r2 h phi1 phi2,
      ∃ r φ, (r = r1 ∨ r = r2) ∧ phi1 ≤ φ ∧ φ ≤ phi2 ∧
        v.x = r * Real.cos (φ * (Real.pi / 180)) ∧ v.y = r * Real.sin (φ * (Real.pi / 180)) ∧
        (v.z = h / 2 ∨ v.z = -(h / 2)) ∧ v.x ^ 2 + v.y ^ 2 = r ^ 2) ∧
    (∀ r φ z, (r = r1 ∨ r = r2) → (φ = phi1 ∨ φ = phi2) → (z = h / 2 ∨ z = -(h / 2)) →
      (⟨r * Real.cos (φ * (Real.pi / 180)), r * Real.sin (φ * (Real.pi / 180)), z⟩ : V3 ℝ)
        ∈ segVerts vert r1 r2 h phi1 phi2) := by
  have hN : 2 ≤ segN vert phi1 phi2 := le_trans (by norm_num) (le_segN vert phi1 phi2)
  refine ⟨segVertsN_length _ _ _ _ _ _, ?_, ?_⟩
  · intro v hv
    obtain ⟨p, hp, r, hr, z, hz, rfl⟩ := mem_segVertsN.mp hv
    obtain ⟨h1, h2⟩ := linspace_true_between hN hphi hp
    refine ⟨r, p, hr, h1, h2, rfl, rfl, hz, ?_⟩
    simp only
    nlinarith [Real.sin_sq_add_cos_sq (p * (Real.pi / 180))]
  · intro r φ z hr hφ hz
    refine mem_segVertsN.mpr ⟨φ, ?_, r, hr, z, hz, rfl⟩
    rcases hφ with rfl | rfl
    · exact linspace_true_first_mem _ _ _ hN
    · exact linspace_true_last_mem _ _ _ hN

open MagpyVerif.DisplayTrig in
/-- the arc count: at least 5, and `vert` per full turn -/
theorem cylinder_segment_arc_count (vert : Nat) (phi1 phi2 : ℝ) :
    segN vert phi1 phi2 = max 5 ⌊(vert : ℝ) * |phi1 - phi2| / 360⌋₊ := segN_eq vert phi1 phi2

open MagpyVerif.DisplayTrig in
example : segN 50 (0 : ℝ) 360 = 50 := by
  rw [cylinder_segment_arc_count]
  norm_num

open MagpyVerif.DisplayTrig in
/-- Sphere graphic (`make_Ellipsoid(dimension=(a, b, c), vert=N)`): every vertex lies ON the ellipsoid
with semi-axes `a/2, b/2, c/2` (for a Sphere `a = b = c = diameter`); there are `N² - 2N + 2` of them
(each pole once, `N - 2` latitude rings of `N`). -/
theorem ellipsoid_vertices_on_surface (N : Nat) (a b c : ℝ) (ha : a ≠ 0) (hb : b ≠ 0) (hc : c ≠ 0) :
    (∀ v ∈ ellipsoidVerts N a b c, (v.x / (a / 2)) ^ 2 + (v.y / (b / 2)) ^ 2 + (v.z / (c / 2)) ^ 2 = 1) ∧
    (2 ≤ N → (ellipsoidVerts N a b c).length = N * N - 2 * N + 2) :=
  ⟨fun _ hv => ellipsoidVerts_on_surface ha hb hc hv, ellipsoidVerts_length N a b c⟩

open MagpyVerif.DisplayTrig in
/-- "spans the full extent" for the ellipsoid: the first vertex is the south pole `(0, 0, -c/2)`, the last
the north pole `(0, 0, c/2)` (full z-extent; the index arrays fan out from rows 0 and N2 = last).  In x
and y the extent `±a/2`, `±b/2` is reached only if a latitude ring lies on the equator (odd `N`) and a
longitude on the axis; in general the vertices are inscribed, see `ellipsoid_vertices_on_surface`. -/
theorem ellipsoid_poles (N : Nat) (a b c : ℝ) (hN : 2 ≤ N) :
    (ellipsoidVerts N a b c).head? = some ⟨0, 0, -(c / 2)⟩ ∧
    (ellipsoidVerts N a b c).getLast? = some ⟨0, 0, c / 2⟩ :=
  ellipsoidVerts_poles N a b c hN

open MagpyVerif.DisplayTrig in
/-- arrow heads / cones (`make_Pyramid(base=N, diameter=d, height=h, pivot)`): `N` base vertices on the
circle of diameter `d` in the plane `z = -h/2 + z_shift`, then the tip on the axis at `z = h/2 + z_shift`
(`z_shift = h/2, -h/2, 0` for pivot tail / tip / middle): the drawn height is exactly `h`. -/
theorem pyramid_vertices_on_cone (N : Nat) (d h : ℝ) (p : Pivot) :
    (pyramidVerts N d h p).length = N + 1 ∧
    (∀ v ∈ (pyramidVerts N d h p).take N, v.x ^ 2 + v.y ^ 2 = (d / 2) ^ 2 ∧ v.z = -(h / 2) + zShift p h) ∧
    (pyramidVerts N d h p)[N]? = some ⟨0, 0, h / 2 + zShift p h⟩ ∧
    zShift p h = (match p with | .tail => h / 2 | .tip => -(h / 2) | .middle => 0) :=
  ⟨(pyramid_on_cone N d h p).1, (pyramid_on_cone N d h p).2.1, (pyramid_on_cone N d h p).2.2, zShift_real p h⟩

open MagpyVerif.DisplayTrig in
/-- the generator as a whole fails for `vert ≤ 3` (`np.concatenate([])`), although `make_Sphere` clamps
its `vertices` argument to `3..20` -/
theorem ellipsoid_rejects_small (N : Nat) (a b c : ℝ) :
    (∃ l, ellipsoid N a b c = .ok l) ↔ 4 ≤ N := by
  unfold ellipsoid
  split
  · simp; omega
  · simp; omega

open MagpyVerif.DisplayTrig in
/-- drawn current loop (`make_Circle(obj, base)` line trace, `base ≥ 2`; default 72): `base` points, each
in the loop plane `z = 0` at distance `d/2` from the axis; the first and the last point coincide
(`(d/2, 0, 0)`), so the polyline through them is CLOSED; point `k` sits at angle `2πk/(base-1)`. -/
theorem circle_trace_on_circle (base : Nat) (d : ℝ) (hb : 2 ≤ base) :
    (circleTrace base d).length = base ∧
    (∀ v ∈ circleTrace base d, v.x ^ 2 + v.y ^ 2 = (d / 2) ^ 2 ∧ v.z = 0) ∧
    (circleTrace base d).head? = some ⟨d / 2, 0, 0⟩ ∧
    (circleTrace base d).getLast? = some ⟨d / 2, 0, 0⟩ ∧
    circleTrace base d = (List.range base).map (fun (k : ℕ) =>
      (⟨d / 2 * Real.cos (2 * Real.pi * k / ((base - 1 : ℕ) : ℝ)),
        d / 2 * Real.sin (2 * Real.pi * k / ((base - 1 : ℕ) : ℝ)), 0⟩ : V3 ℝ)) :=
  ⟨circleTrace_length base d, circleTrace_on_circle base d, circleTrace_head base d hb,
   circleTrace_last base d hb, circleTrace_eq base d hb⟩

open MagpyVerif.DisplayTrig in
example : ((circleTrace 72 3 : List (V3 ℝ)).head? = some ⟨3 / 2, 0, 0⟩) := (circle_trace_on_circle 72 3 (by norm_num)).2.2.1

open MagpyVerif.DisplayTrig in
/-- drawn Polyline (`make_Polyline(obj)` line trace): the three coordinate arrays are the columns of
`obj.vertices`, so zipping them back gives exactly the conductor's vertices, in order -/
theorem polyline_trace_is_vertices {β : Type} (verts : List (V3 β)) :
    let t := polylineTrace verts
    t.1.length = verts.length ∧ t.2.1.length = verts.length ∧ t.2.2.length = verts.length ∧
    (List.zipWith (fun x (yz : β × β) => (⟨x, yz.1, yz.2⟩ : V3 β)) t.1 (List.zip t.2.1 t.2.2)) = verts := by
  simp only [polylineTrace, List.length_map, true_and]
  induction verts with
  | nil => rfl
  | cons v vs ih => simp [ih]

open MagpyVerif.DisplayTrig in
example : polylineTrace [(⟨1, 2, 3⟩ : V3 Int), ⟨4, 5, 6⟩] = ([1, 4], [2, 5], [3, 6]) := by decide

end MagpyVerif.C19

/-! ### added by the audit: non-vacuity examples (a concrete carrier for the abstract `place` theorems; instances of the
vertex theorems that had none) -/

namespace MagpyVerif.C19
open MagpyVerif.DisplayTrig
open MagpyVerif.Display (place placeOpt)

-- non-vacuity of the algebraic context of `place_*`: invertible linear maps of ℝ³ acting on ℝ³, unit factor in ℝ
example (R : (Fin 3 → ℝ) ≃ₗ[ℝ] (Fin 3 → ℝ)) (p v : Fin 3 → ℝ) (f : ℝ) (hf : f ≠ 0) :
    R⁻¹ • (f⁻¹ • place R p (1 : ℝ) f v - p) = v := place_inverse R p v f hf
-- a concrete instance: ℚˣ acting on ℚ
example : place (Units.mk0 (2 : ℚ) (by norm_num)) (3 : ℚ) (1 : ℚ) (1000 : ℚ) (5 : ℚ) = 13000 := by norm_num [place, Units.smul_def]

-- ellipsoid: the hypotheses hold and the vertex list is non-empty (Sphere of diameter 2, vert = 4: 10 vertices, all on the unit sphere)
example : (ellipsoidVerts 4 (2 : ℝ) 2 2).length = 10 :=
  (ellipsoid_vertices_on_surface 4 2 2 2 (by norm_num) (by norm_num) (by norm_num)).2 (by norm_num)
example : (ellipsoidVerts 4 (2 : ℝ) 2 2).head? = some ⟨0, 0, -(2 / 2)⟩ := (ellipsoid_poles 4 2 2 2 (by norm_num)).1

-- cylinder segment: phi1 ≤ phi2 is satisfiable and a corner is a vertex (r = 2, φ = 90, top plane)
example : (⟨2 * Real.cos (90 * (Real.pi / 180)), 2 * Real.sin (90 * (Real.pi / 180)), 3 / 2⟩ : V3 ℝ) ∈ segVerts 50 1 2 3 0 90 :=
  (cylinder_segment_vertices_on_surface 50 1 2 3 0 90 (by norm_num)).2.2 2 90 (3 / 2) (Or.inr rfl) (Or.inr rfl) (Or.inl rfl)

-- prism: square prism, vertex 2 of the bottom ring is opposite vertex 0
example : (prismVerts 4 (2 : ℝ) 6)[4 / 2]? = some ⟨-(2 / 2), 0, -(6 / 2)⟩ := (prism_spans_extent 4 (by norm_num) 2 6).2.2.2 (by norm_num)
end MagpyVerif.C19

/-! ## More of the pipeline (Model/DisplayIdx.lean; driver rows `ellidx`, `segidx`, `arrow`, `arrowv`, `mmesh`, `mscat`, `path`,
`autounit`, `ranges` of the `disp` stream): triangulation index arrays of the Sphere and CylinderSegment graphics, trace
merging, the path trace and the unit chosen by `units_length="auto"` -/

namespace MagpyVerif.C19
open MagpyVerif.Display MagpyVerif.Mesh

/-- Sphere graphic, `make_Ellipsoid(vert=N)` for EVERY `N ≥ 4` (`make_Sphere` uses 15): the `i, j, k` arrays are exactly the
south fan `(0, p_{0,q}, p_{0,q+1})`, the two triangles of every quad of every band between consecutive latitude rings and the
north fan (`ellSpec`); there are `2N(N-2)` triangles; every index is a row of the `N² - 2N + 2` vertex array, no triangle
repeats an index, and the surface is CLOSED: every edge is shared by exactly two triangles (`get_open_edges` finds nothing). -/
theorem ellipsoid_mesh_closed (N : Nat) (hN : 4 ≤ N) :
    ∃ fs, ellipsoidTriangles N = .ok fs ∧ fs = ellSpec N ∧ openEdges fs = [] ∧ fs.length = 2 * N + 2 * ((N - 3) * N) ∧
      ∀ t ∈ fs, t.1 ≠ t.2.1 ∧ t.2.1 ≠ t.2.2 ∧ t.1 ≠ t.2.2 ∧
        t.1 < ellipsoidVertCount N ∧ t.2.1 < ellipsoidVertCount N ∧ t.2.2 < ellipsoidVertCount N := by
  refine ⟨ellSpec N, ellipsoidTriangles_eq hN, rfl, ellSpec_closed hN, ?_, ?_⟩
  · simp [ellSpec, List.length_flatMap]
    ring
  · have h := ellipsoid_N2 hN
    have hc : ellipsoidVertCount N = 2 + (N - 2) * N := by
      have : 1 ≤ ellipsoidVertCount N := by
        unfold ellipsoidVertCount
        rw [if_neg (by omega)]
        have : N * N ≥ 4 * N := Nat.mul_le_mul_right N hN
        omega
      omega
    rw [hc]
    exact ellSpec_indices hN

example : (ellipsoidTriangles 4).map openEdges = .ok [] := by decide
example : ellipsoidTriangles 4 = .ok [(0, 4, 1), (0, 1, 2), (0, 2, 3), (0, 3, 4), (1, 4, 8), (2, 1, 5), (3, 2, 6), (4, 3, 7),
    (1, 8, 5), (2, 5, 6), (3, 6, 7), (4, 7, 8), (9, 5, 8), (9, 6, 5), (9, 7, 6), (9, 8, 7)] := by decide
/-- the generator fails (ValueError from `np.concatenate([])`) exactly for `vert ≤ 3`, as `ellipsoid_rejects_small` says
of the vertex part -/
theorem ellipsoid_indices_reject_small (N : Nat) : (∃ fs, ellipsoidTriangles N = .ok fs) ↔ 4 ≤ N := by
  constructor
  · rintro ⟨fs, h⟩
    by_contra hc
    simp [ellipsoidTriangles, ellipsoidIJK, show N ≤ 3 by omega] at h
  · intro h
    exact ⟨_, ellipsoidTriangles_eq h⟩

/-- CylinderSegment graphic for EVERY arc count `N ≥ 2` (the code uses `N = max(5, int(vert·|φ₁-φ₂|/360))`) when the two end
caps are drawn (`phi2 - phi1 != 360`): the triangles are the `8(N-1)` of the four surfaces (`segSpec`) plus the 4 of the caps
(`segCaps`), every index is a row of the `4N` vertex array, no triangle repeats an index, and the surface is CLOSED.  Nothing
depends on `r1`: for `r1 = 0` the inner rows `0 … N-1` and `2N … 3N-1` are `N` coincident points on the axis each, the inner
shell and the cap halves touching the axis are zero-area triangles — a geometric degeneracy, not an index one. -/
theorem cylinder_segment_mesh_closed_N (N : Nat) (hN : 2 ≤ N) :
    segTriangles N false = segSpec N ++ segCaps N ∧ openEdges (segTriangles N false) = [] ∧
      (segTriangles N false).length = 8 * (N - 1) + 4 ∧
      ∀ t ∈ segTriangles N false, t.1 ≠ t.2.1 ∧ t.2.1 ≠ t.2.2 ∧ t.1 ≠ t.2.2 ∧ t.1 < 4 * N ∧ t.2.1 < 4 * N ∧ t.2.2 < 4 * N := by
  have h : segTriangles N false = segSpec N ++ segCaps N := by rw [segTriangles_eq]; rfl
  refine ⟨h, by rw [h]; exact segSpec_caps_closed hN, ?_, ?_⟩
  · rw [h]; simp [segSpec, segCaps]; omega
  · rw [h]
    intro t ht
    simp only [segSpec, segCaps, List.mem_append, List.mem_map, List.mem_range, List.mem_singleton] at ht
    rcases ht with ((((((((⟨q, hq, rfl⟩ | ⟨q, hq, rfl⟩) | ⟨q, hq, rfl⟩) | ⟨q, hq, rfl⟩) | ⟨q, hq, rfl⟩) | ⟨q, hq, rfl⟩) |
      ⟨q, hq, rfl⟩) | ⟨q, hq, rfl⟩) | (((rfl | rfl) | rfl) | rfl)) <;> dsimp only <;> omega

open MagpyVerif.DisplayTrig in
/-- … for the real function's inputs: whenever `phi2 - phi1 ≠ 360` the index arrays of
`make_CylinderSegment(dimension=(r1, r2, h, phi1, phi2), vert)` form a closed surface, for every `vert`, every radius and
every angle range (also reversed, zero-span and beyond-360 ones, which the generator accepts). -/
theorem cylinder_segment_mesh_closed (vert : Nat) (phi1 phi2 : ℝ) (h : phi2 - phi1 ≠ 360) :
    let r := segIJKOf vert phi1 phi2
    openEdges (zip3 r.1 r.2.1 r.2.2) = [] := by
  have hf : segFull phi1 phi2 = false := by
    simp only [segFull, Kern.eq0_real, Kern.n, Kern.ofNat_real, decide_eq_false_iff_not]
    intro hc
    apply h
    push_cast at hc
    linarith
  have := (cylinder_segment_mesh_closed_N (segN vert phi1 phi2) (le_trans (by norm_num) (le_segN vert phi1 phi2))).2.1
  simpa [segIJKOf, hf, segTriangles] using this

example : openEdges (segTriangles 5 false) = [] := by decide
/-- exactly `phi2 - phi1 == 360` (a full ring drawn as a segment): no caps, and the first and the last column of every arc
are DIFFERENT rows holding the same points, so at index level the surface is open along the seam (8 open edges: the four
rungs of column 0 and of column N-1); geometrically the seam is closed.  THIS theorem is the instance `N = 5` only (a `decide`);
for every arc count: `cylinder_segment_full_turn_seam_open_N` at the end of the file (audit2). -/
theorem cylinder_segment_full_turn_seam_open :
    openEdges (segTriangles 5 true) = [(0, 5), (14, 19), (5, 15), (9, 19), (4, 9), (10, 15), (0, 10), (4, 14)] := by decide

/-- winding at arc count 5 (= every `vert ≤ 25·(360/|φ₁-φ₂|)`), decided: no directed edge is used twice (since repo fix 64dd71f;
for every arc count: `cylinder_segment_consistently_wound` below) -/
theorem cylinder_segment_winding_at_5 : ((segTriangles 5 false).flatMap dirEdges).Nodup := by decide

/-! ### trace merging -/

section merge
variable {α : Type}

theorem mergeMesh3d_fields {ts : List (MeshTrace α)} {m : MeshTrace α} (h : mergeMesh3d ts = .ok m) :
    ts ≠ [] ∧ m.x = (ts.map (·.x)).flatten ∧ m.y = (ts.map (·.y)).flatten ∧ m.z = (ts.map (·.z)).flatten ∧
    m.i = (List.zipWith (fun b l => b.i.map (· + l)) ts (meshOffsets ts)).flatten ∧
    m.j = (List.zipWith (fun b l => b.j.map (· + l)) ts (meshOffsets ts)).flatten ∧
    m.k = (List.zipWith (fun b l => b.k.map (· + l)) ts (meshOffsets ts)).flatten ∧
    m.rest = (ts.head?.map (·.rest)).getD [] := by
  cases ts with
  | nil => simp [mergeMesh3d] at h
  | cons t0 r =>
    simp only [mergeMesh3d] at h
    split at h
    · simp at h
    · simp at h
    · simp only [Except.ok.injEq] at h
      subst h
      simp

/-- `merge_mesh3d(*traces)` (traces whose `i, j, k` have equal lengths): the merged face list is the concatenation, in order,
of the inputs' face lists re-indexed by the cumulative vertex offsets `o_n = Σ_{m<n} len(x_m)`; the merged coordinate arrays
are the concatenations; and entry `o_n + v` of the merged `x` is entry `v` of trace `n`'s `x` (likewise `y`, `z` when their
lengths agree with `x`'s) — so face `f` of trace `n` still refers to the same three coordinates. -/
theorem merge_mesh3d_preserves_faces (ts : List (MeshTrace α)) (m : MeshTrace α) (h : mergeMesh3d ts = .ok m)
    (hl : ∀ t ∈ ts, t.i.length = t.j.length ∧ t.j.length = t.k.length) :
    zip3 m.i m.j m.k = (ts.zip (offsetsFrom 0 ts)).flatMap (fun p => (zip3 p.1.i p.1.j p.1.k).map
        (fun t => (t.1 + p.2, t.2.1 + p.2, t.2.2 + p.2))) ∧
    (∀ n, n < ts.length → (offsetsFrom 0 ts)[n]? = some (((ts.take n).map (·.x.length)).sum)) ∧
    ∀ n t, ts[n]? = some t → ∀ v, v < t.x.length →
      m.x[((ts.take n).map (·.x.length)).sum + v]? = t.x[v]? ∧
      ((∀ t' ∈ ts, t'.y.length = t'.x.length) → m.y[((ts.take n).map (·.x.length)).sum + v]? = t.y[v]?) ∧
      ((∀ t' ∈ ts, t'.z.length = t'.x.length) → m.z[((ts.take n).map (·.x.length)).sum + v]? = t.z[v]?) := by
  obtain ⟨hne, hx, hy, hz, hi, hj, hk, _⟩ := mergeMesh3d_fields h
  have hoff : meshOffsets ts = offsetsFrom 0 ts := cumsum_eq_offsetsFrom 0 ts hne
  refine ⟨?_, ?_, ?_⟩
  · rw [hi, hj, hk, hoff]
    exact merge_idx_eq ts 0 (·.i) (·.j) (·.k) hl
  · intro n hn
    rw [offsetsFrom_getElem? 0 ts n hn, Nat.zero_add]
  · intro n t hn v hv
    have key : ∀ (f : MeshTrace α → List α), (∀ t' ∈ ts, (f t').length = t'.x.length) →
        (ts.map f).flatten[((ts.take n).map (·.x.length)).sum + v]? = (f t)[v]? := by
      intro f hf
      have h1 : (ts.map f)[n]? = some (f t) := by simp [hn]
      have h2 := flatten_getElem?_offset (ts.map f) n (f t) h1 v (by
        rw [hf t (List.mem_of_getElem? hn)]; exact hv)
      have h3 : (((ts.map f).take n).map List.length) = (ts.take n).map (·.x.length) := by
        rw [← List.map_take, List.map_map]
        apply List.map_congr_left
        intro t' ht'
        exact hf t' (List.mem_of_mem_take ht')
      rw [h3] at h2
      exact h2
    exact ⟨by rw [hx]; exact key (·.x) (fun _ _ => rfl), fun hy' => by rw [hy]; exact key (·.y) hy',
      fun hz' => by rw [hz]; exact key (·.z) hz'⟩

example : mergeMesh3d [({ x := [1, 2, 3], y := [0, 0, 0], z := [0, 0, 0], i := [0], j := [1], k := [2] } : MeshTrace Int),
      { x := [7, 8, 9, 10], y := [1, 1, 1, 1], z := [2, 2, 2, 2], i := [0, 1], j := [1, 2], k := [3, 3] }] =
    .ok { x := [1, 2, 3, 7, 8, 9, 10], y := [0, 0, 0, 1, 1, 1, 1], z := [0, 0, 0, 2, 2, 2, 2], i := [0, 3, 4], j := [1, 4, 5],
          k := [2, 6, 6] } := by decide

/-- `merge_scatter3d(*traces)` of two or more traces whose first has a mode containing "line": splitting the merged `x`
(likewise `y`, `z`) at the `None` separators gives an empty leading piece (the code puts a `None` in front of EVERY input,
also the first) followed by the pieces of the input lines, in order; for inputs without gaps of their own these are the input
lines themselves.  The mode and every other entry come from the first trace. -/
theorem merge_scatter3d_preserves_polylines (t0 t1 : ScatterTrace α) (r : List (ScatterTrace α)) (mode : String)
    (hm : t0.mode = some mode) (hne : mode.isEmpty = false) (hline : containsLine mode = true) :
    ∃ m, mergeScatter3d (t0 :: t1 :: r) = .ok m ∧
      splitNone m.x = [] :: (t0 :: t1 :: r).flatMap (fun b => splitNone b.x) ∧
      splitNone m.y = [] :: (t0 :: t1 :: r).flatMap (fun b => splitNone b.y) ∧
      splitNone m.z = [] :: (t0 :: t1 :: r).flatMap (fun b => splitNone b.z) ∧
      m.mode = t0.mode ∧ m.rest = t0.rest := by
  have hx := splitNone_gapped ((t0 :: t1 :: r).map (·.x))
  have hy := splitNone_gapped ((t0 :: t1 :: r).map (·.y))
  have hz := splitNone_gapped ((t0 :: t1 :: r).map (·.z))
  simp only [List.flatMap_map] at hx hy hz
  have hmerge : mergeScatter3d (t0 :: t1 :: r) = .ok
      { x := (t0 :: t1 :: r).flatMap (fun b => none :: b.x), y := (t0 :: t1 :: r).flatMap (fun b => none :: b.y),
        z := (t0 :: t1 :: r).flatMap (fun b => none :: b.z), mode := t0.mode, rest := t0.rest } := by
    simp [mergeScatter3d, mergeScatter3dCore, hm, hne, hline]
  exact ⟨_, hmerge, hx, hy, hz, rfl, rfl⟩

/-- non-vacuity at the level of the two mode tests (`not mode`, `"line" in mode`; string literals do not reduce in the kernel,
the `mscat` rows of the `disp` stream run the full function): line mode puts a gap marker in front of every input … -/
example : (mergeScatter3dCore false true [({ x := [some 1, some 2], y := [some 0, some 0], z := [some 0, some 0], mode := some "lines" } : ScatterTrace Int),
      { x := [some 7], y := [some 8], z := [some 9], mode := none }]).map (fun m => (m.x, splitNone m.x)) =
    .ok ([none, some 1, some 2, none, some 7], [[], [1, 2], [7]]) := by decide
/-- … without "line" in the first trace's mode (markers): plain concatenation, no separators; an empty / missing mode becomes
"markers" (the real function also writes it into the first INPUT dict) -/
example : (mergeScatter3dCore true false [({ x := [some 1, some 2], y := [some 0, some 0], z := [some 0, some 0], mode := none } : ScatterTrace Int),
      { x := [some 7], y := [some 8], z := [some 9], mode := some "lines" }]).map (fun m => m.x) =
    .ok [some 1, some 2, some 7] := by decide
end merge
end MagpyVerif.C19

/-! ### the path trace and the unit of `units_length="auto"` -/

namespace MagpyVerif.C19
open MagpyVerif MagpyVerif.Display

/-- the path line (`make_path` then `rescale_traces` with unit factor `f`): one point per path position — ALL of them, whatever
frames are displayed — in path order, and point `k` is `f ·` (path position `k`): the line passes through the path positions, in
the announced unit.  It is drawn iff the path has more than one position and `style.path.show` (`pathShown`). -/
theorem path_trace_through_positions (ps : List (V3 ℝ)) (f : ℝ) :
    pathTrace ps f = ps.map (fun p => (⟨f * p.x, f * p.y, f * p.z⟩ : V3 ℝ)) ∧ (pathTrace ps f).length = ps.length := by
  have h : pathTrace ps f = ps.map (fun p => (⟨f * p.x, f * p.y, f * p.z⟩ : V3 ℝ)) := by
    unfold pathTrace
    by_cases hf : f = 1
    · subst hf
      simp
    · rw [if_neg (by simpa using hf)]
      apply List.map_congr_left
      intro p _
      obtain ⟨x, y, z⟩ := p
      show (⟨f * (1 * x + 0), f * (1 * y + 0), f * (1 * z + 0)⟩ : V3 ℝ) = _
      simp
  exact ⟨h, by rw [h, List.length_map]⟩

example : pathTrace [(⟨1, 2, 3⟩ : V3 ℝ), ⟨0, 0, 1⟩] 1000 = [⟨1000 * 1, 1000 * 2, 1000 * 3⟩, ⟨1000 * 0, 1000 * 0, 1000 * 1⟩] :=
  (path_trace_through_positions _ _).1
example : pathShown 1 true = false ∧ pathShown 2 true = true ∧ pathShown 5 false = false := by decide

/-- `units_length="auto"`: with `rmax` the largest absolute axis-range coordinate of the subplot (metres) and
`d = int(log10(rmax)) // 3 * 3` (`autoDigits`, the power of ten of the chosen prefix when the prefix table has it):
* `rmax ≥ 1`:  `10^d ≤ rmax < 10^(d+3)` — the displayed number `rmax / 10^d` lies in `[1, 1000)`;
* `0 < rmax < 1`:  `10^(d-1) < rmax ≤ 10^(d+2)` — the displayed number lies in `(1/10, 100]`, NOT in `[1, 1000)`: `int()`
  truncates the negative logarithm towards zero before the floor division (0.2 mm is announced as 0.2 mm, not 200 µm; the `autounit`
  rows of the `disp` stream observe displayed values down to 0.1001).
/- FULL: the displayed extent lies in [1, 1000) of the chosen unit for every rmax in [1e-24, 1e27).  False of the code below 1
   (second clause); also outside 1e-25 < rmax < 1e27 the table has no prefix and the unit falls back to "m" (`prefixOfDigits`). -/ -/
theorem auto_unit_factor_bounds (rmax : ℝ) :
    (1 ≤ rmax → (10 : ℝ) ^ autoDigits rmax ≤ rmax ∧ rmax < (10 : ℝ) ^ (autoDigits rmax + 3) ∧ 0 ≤ autoDigits rmax) ∧
    (0 < rmax → rmax < 1 →
      (10 : ℝ) ^ (autoDigits rmax - 1) < rmax ∧ rmax ≤ (10 : ℝ) ^ (autoDigits rmax + 2) ∧ autoDigits rmax ≤ 0) :=
  ⟨autoDigits_bounds_ge_one, autoDigits_bounds_lt_one⟩

example : (10 : ℝ) ^ autoDigits (5 : ℝ) ≤ 5 := (auto_unit_factor_bounds 5).1 (by norm_num) |>.1
example : (1 / 5000 : ℝ) ≤ (10 : ℝ) ^ (autoDigits (1 / 5000 : ℝ) + 2) := ((auto_unit_factor_bounds (1 / 5000)).2 (by norm_num) (by norm_num)).2.1

/-- the prefix table behind it (regenerated `Gen.Units.table`): for every multiple of three `d` in `-24 … 24` the unit chosen
has power `d` and `get_unit_factor` returns `10^(-d)`; any other `d` (beyond yocto / yotta) falls back to metres with factor 1
(decided for the 17 listed digits and for ±27 only; every multiple of three: `auto_unit_prefix_all_digits`, and composed with
`auto_unit_factor_bounds` on `autoUnit`: `auto_unit_displayed_range`, both at the end of the file, audit2) -/
theorem auto_unit_prefix_table :
    (∀ d ∈ [(-24 : Int), -21, -18, -15, -12, -9, -6, -3, 0, 3, 6, 9, 12, 15, 18, 21, 24], (prefixOfDigits d).2 = (d, -d)) ∧
    (prefixOfDigits 27).2 = (0, 0) ∧ (prefixOfDigits (-27)).2 = (0, 0) := by decide

/-- `make_Arrow(base=N)` = `merge_mesh3d(cone, prism)`: the cone's triangles, then the prism's with every index shifted by the
cone's `N + 1` vertices -/
theorem arrow_index_structure (N : Nat) (hN : 0 < N) :
    arrowTriangles N = .ok (pyramidSpec N ++ (prismSpec N).map (fun t => (t.1 + (N + 1), t.2.1 + (N + 1), t.2.2 + (N + 1)))) := by
  have hp := pyramidTriangles_eq hN
  have hq := prismTriangles_eq hN
  unfold pyramidTriangles at hp
  unfold prismTriangles at hq
  unfold arrowTriangles arrowIJK
  cases h1 : pyramidIJK N with
  | error e => rw [h1] at hp; simp at hp
  | ok c =>
    cases h2 : prismIJK N with
    | error e => rw [h2] at hq; simp at hq
    | ok p =>
      rw [h1] at hp; rw [h2] at hq
      obtain ⟨ci, cj, ck⟩ := c
      obtain ⟨pi, pj, pk⟩ := p
      simp only [Except.ok.injEq] at hp hq
      simp only [bind, Except.bind, pure, Except.pure]
      have hlen : ci.length = cj.length ∧ cj.length = ck.length := by
        simp [pyramidIJK, bind, Except.bind] at h1
        split at h1
        · simp at h1
        · simp only [pure, Except.pure, Except.ok.injEq, Prod.mk.injEq] at h1
          obtain ⟨rfl, rfl, rfl⟩ := h1
          rename_i v hv
          have := setLast_succ hN
          rw [this] at hv
          simp only [Except.ok.injEq] at hv
          subst hv
          simp
      rw [zip3_append hlen.1 hlen.2, hp, ← hq]
      congr 1
      unfold zip3
      simp [List.zip_map]

example : arrowTriangles 3 = .ok [(0, 1, 3), (1, 2, 3), (2, 0, 3), (4, 5, 7), (5, 6, 8), (6, 4, 9), (7, 5, 8), (8, 6, 9), (9, 4, 7),
    (4, 10, 5), (5, 10, 6), (6, 10, 4), (7, 8, 11), (8, 9, 11), (9, 7, 11)] := by decide
end MagpyVerif.C19


/-! ## Winding of the closed surface meshes, for EVERY size (Lemmas/DisplayWind.lean; `wind` rows of the `disp` stream)

`Display.dirOf fs` lists the directed edges `i→j, j→k, k→i` of all triangles; `Display.Wound fs` (no directed edge used twice) is
"consistently wound"; `Display.windingDefects fs` (run by the driver on every generator and compared with the same computation on
the real index arrays) lists the directed edges that are not used exactly once. -/

namespace MagpyVerif.C19
open MagpyVerif.Display MagpyVerif.Mesh

/-- what "closed and consistently wound" gives: every edge of the surface is used exactly once in each direction -/
theorem closed_and_wound_each_direction_once {fs : List Face} (hc : openEdges fs = []) (hw : Wound fs)
    (hd : ∀ t ∈ fs, t.1 ≠ t.2.1 ∧ t.2.1 ≠ t.2.2 ∧ t.1 ≠ t.2.2) :
    ∀ a b, (a, b) ∈ dirOf fs → (dirOf fs).count (a, b) = 1 ∧ (dirOf fs).count (b, a) = 1 :=
  closed_wound_each_direction_once hc hw hd

/-- `make_CylinderSegment` with the end caps drawn (`phi2 - phi1 != 360`), EVERY arc count `N ≥ 2` (the function uses
`N = max(5, …)`), after repo fix 64dd71f (the start cap is `(i5, j5, k5)`, the end cap `(i5, k5, j5) + N - 1`): the triangles are
the `8(N-1)` of the four surfaces, the two of the cap at `phi1` (`segStartCap`: `(0, 2N, 3N)`, `(N, 0, 3N)`) and the two of the
cap at `phi2`; the surface is CLOSED and CONSISTENTLY WOUND: no directed edge is used twice, `windingDefects` (what the `wind` rows
of the `disp` stream compute on the real index arrays) is empty, and every directed edge that occurs is used exactly once and so
is its reverse. -/
theorem cylinder_segment_consistently_wound (N : Nat) (hN : 2 ≤ N) :
    segTriangles N false = segSpec N ++ (segStartCap N ++ segEndCap N) ∧
    openEdges (segTriangles N false) = [] ∧
    Wound (segTriangles N false) ∧
    windingDefects (segTriangles N false) = [] ∧
    (∀ a b, (a, b) ∈ dirOf (segTriangles N false) →
      (dirOf (segTriangles N false)).count (a, b) = 1 ∧ (dirOf (segTriangles N false)).count (b, a) = 1) := by
  have heq : segTriangles N false = segSpec N ++ segCaps N := by rw [segTriangles_eq]; rfl
  have hclosed := segSpec_caps_closed hN
  have hidx := (cylinder_segment_mesh_closed_N N hN).2.2.2
  have hw := seg_wound hN
  rw [heq] at hidx ⊢
  exact ⟨rfl, hclosed, hw, (windingDefects_nil_iff _).2 hw,
    closed_wound_each_direction_once hclosed hw (fun t ht => ⟨(hidx t ht).1, (hidx t ht).2.1, (hidx t ht).2.2.1⟩)⟩

example : windingDefects (segTriangles 5 false) = [] := by decide
example : (dirOf (segTriangles 5 false)).count (0, 5) = 1 ∧ (dirOf (segTriangles 5 false)).count (5, 0) = 1 := by decide

/-- the same for the function's own arguments: whatever `vert`, radii and angle range (also reversed, zero-span and beyond-360
ones), as soon as the caps are drawn (`phi2 - phi1 ≠ 360`, the code's own test) the index arrays form a closed, consistently
wound surface -/
theorem cylinder_segment_consistently_wound_of_args (vert : Nat) (phi1 phi2 : ℝ) (h : phi2 - phi1 ≠ 360) :
    let r := segIJKOf vert phi1 phi2
    openEdges (zip3 r.1 r.2.1 r.2.2) = [] ∧ Wound (zip3 r.1 r.2.1 r.2.2) ∧ windingDefects (zip3 r.1 r.2.1 r.2.2) = [] ∧
    ∀ a b, (a, b) ∈ dirOf (zip3 r.1 r.2.1 r.2.2) →
      (dirOf (zip3 r.1 r.2.1 r.2.2)).count (a, b) = 1 ∧ (dirOf (zip3 r.1 r.2.1 r.2.2)).count (b, a) = 1 := by
  have hf : segFull phi1 phi2 = false := by
    simp only [segFull, Kern.eq0_real, Kern.n, Kern.ofNat_real, decide_eq_false_iff_not]
    intro hc
    apply h
    push_cast at hc
    linarith
  have := (cylinder_segment_consistently_wound (DisplayTrig.segN vert phi1 phi2)
    (le_trans (by norm_num) (DisplayTrig.le_segN vert phi1 phi2))).2
  simpa [segIJKOf, hf, segTriangles] using this

example : ¬ ((90 : ℝ) - 0 = 360) := by norm_num

/-- REGRESSION WITNESS (literal pre-fix pattern, `j.extend([k5, k5 + N - 1]); k.extend([j5, j5 + N - 1])`, i.e. the start cap
`(0, 3N, 2N)`, `(N, 3N, 0)` = `segStartCapOld`): for EVERY arc count `N ≥ 2` that surface — although closed — was NOT consistently
wound: the four directed edges `a₀→b₀, b₀→d₀, d₀→c₀, c₀→a₀` = `segBadEdges N` (the boundary of the start-cap quad; rows `a_q = q`,
`b_q = q + N`, `c_q = q + 2N`, `d_q = q + 3N`) were used TWICE and their reverses never, every other directed edge exactly once;
`windingDefects` was exactly that set.  So `cylinder_segment_consistently_wound` (and the `wind` rows) catch a return of the old
pattern. -/
theorem old_start_cap_was_inverted (N : Nat) (hN : 2 ≤ N) :
    openEdges (segSpec N ++ (segStartCapOld N ++ segEndCap N)) = [] ∧
    (∀ e ∈ segBadEdges N, (dirOf (segSpec N ++ (segStartCapOld N ++ segEndCap N))).count e = 2 ∧
      (dirOf (segSpec N ++ (segStartCapOld N ++ segEndCap N))).count (e.2, e.1) = 0) ∧
    (∀ e, e ∈ windingDefects (segSpec N ++ (segStartCapOld N ++ segEndCap N)) ↔ e ∈ segBadEdges N) ∧
    ¬ Wound (segSpec N ++ (segStartCapOld N ++ segEndCap N)) ∧
    segStartCap N = (segStartCapOld N).map flipFace := by
  obtain ⟨hbad, hone⟩ := seg_dir_multiplicities hN
  have hbadmem : ∀ e ∈ segBadEdges N, e ∈ dirOf (segSpec N ++ (segStartCapOld N ++ segEndCap N)) := fun e he =>
    List.count_pos_iff.1 (by rw [(hbad e he).1]; norm_num)
  refine ⟨segOld_closed hN, hbad, ?_, ?_, rfl⟩
  · intro e
    rw [mem_windingDefects]
    constructor
    · rintro ⟨h1, h2⟩
      by_contra hc
      exact h2 (hone e h1 hc)
    · intro he
      exact ⟨hbadmem e he, by rw [(hbad e he).1]; norm_num⟩
  · intro hw
    have h0 : (0, N) ∈ segBadEdges N := by simp [segBadEdges]
    have := List.count_eq_one_of_mem hw (hbadmem _ h0)
    rw [(hbad _ h0).1] at this
    norm_num at this

example : windingDefects (segSpec 5 ++ (segStartCapOld 5 ++ segEndCap 5)) = [(0, 5), (15, 10), (10, 0), (5, 15)] := by decide
example : segBadEdges 5 = [(0, 5), (5, 15), (15, 10), (10, 0)] := by decide

end MagpyVerif.C19


/-! ### the other closed-surface generators, for EVERY size -/

namespace MagpyVerif.C19
open MagpyVerif.Display MagpyVerif.Mesh

/-- Cylinder graphic, `make_Prism(base=N)` for EVERY `N ≥ 3`: closed and consistently wound — no directed edge is used twice,
`windingDefects` is empty, every directed edge that occurs is used exactly once and so is its reverse -/
theorem prism_consistently_wound (N : Nat) (hN : 3 ≤ N) :
    ∃ fs, prismTriangles N = .ok fs ∧ openEdges fs = [] ∧ Wound fs ∧ windingDefects fs = [] ∧
      ∀ a b, (a, b) ∈ dirOf fs → (dirOf fs).count (a, b) = 1 ∧ (dirOf fs).count (b, a) = 1 :=
  ⟨prismSpec N, prismTriangles_eq (by omega), prismSpec_closed hN, prism_wound hN,
    (windingDefects_nil_iff _).2 (prism_wound hN),
    closed_wound_each_direction_once (prismSpec_closed hN) (prism_wound hN)
      (fun t ht => let h := prismSpec_indices (show 2 ≤ N by omega) t ht; ⟨h.1, h.2.1, h.2.2.1⟩)⟩

example : (prismTriangles 3).map windingDefects = .ok [] := by decide
/-- `N = 2` is excluded for a reason: the two ring edges coincide and directed edges repeat -/
example : (prismTriangles 2).map (fun fs => (windingDefects fs).length) = .ok 4 := by decide

/-- Sphere graphic, `make_Ellipsoid(vert=N)` for EVERY `N ≥ 4`: closed and consistently wound -/
theorem ellipsoid_consistently_wound (N : Nat) (hN : 4 ≤ N) :
    ∃ fs, ellipsoidTriangles N = .ok fs ∧ openEdges fs = [] ∧ Wound fs ∧ windingDefects fs = [] ∧
      ∀ a b, (a, b) ∈ dirOf fs → (dirOf fs).count (a, b) = 1 ∧ (dirOf fs).count (b, a) = 1 :=
  ⟨ellSpec N, ellipsoidTriangles_eq hN, ellSpec_closed hN, ell_wound hN, (windingDefects_nil_iff _).2 (ell_wound hN),
    closed_wound_each_direction_once (ellSpec_closed hN) (ell_wound hN)
      (fun t ht => let h := ellSpec_indices hN t ht; ⟨h.1, h.2.1, h.2.2.1⟩)⟩

example : (ellipsoidTriangles 4).map windingDefects = .ok [] := by decide

/-- `make_Pyramid(base=N)`, every `N ≥ 1` (the cone of the arrow heads; an OPEN surface: its base ring is the boundary, see
`pyramid_index_structure`): no directed edge is used twice -/
theorem pyramid_consistently_wound (N : Nat) (hN : 0 < N) :
    ∃ fs, pyramidTriangles N = .ok fs ∧ Wound fs ∧ windingDefects fs = [] :=
  ⟨pyramidSpec N, pyramidTriangles_eq hN, pyramid_wound N, (windingDefects_nil_iff _).2 (pyramid_wound N)⟩

example : (pyramidTriangles 4).map windingDefects = .ok [] := by decide

/-- `make_Arrow(base=N)` = cone + shaft prism, every `N ≥ 3`: no directed edge is used twice (the cone's base ring stays
open: the cone is wider than the shaft and has no base cap) -/
theorem arrow_consistently_wound (N : Nat) (hN : 3 ≤ N) :
    ∃ fs, arrowTriangles N = .ok fs ∧ Wound fs ∧ windingDefects fs = [] :=
  ⟨_, arrow_index_structure N (by omega), arrow_wound hN, (windingDefects_nil_iff _).2 (arrow_wound hN)⟩

example : (arrowTriangles 3).map windingDefects = .ok [] := by decide

/-- Cuboid and Tetrahedron graphics (fixed index tables) -/
theorem cuboid_tetra_consistently_wound :
    Wound cuboidTriangles ∧ windingDefects cuboidTriangles = [] ∧ Wound tetraTriangles ∧ windingDefects tetraTriangles = [] := by
  refine ⟨?_, by decide, ?_, by decide⟩ <;> (unfold Wound; decide)

end MagpyVerif.C19


/-! ## `group_traces` / `merge_traces` (Model/DisplayGroup.lean; `group` rows of the `disp` stream) -/

namespace MagpyVerif.C19
open MagpyVerif.Display MagpyVerif.Gen

/-- the grouping loop of `group_traces`: the groups are the distinct key tuples in order of FIRST APPEARANCE, each with exactly
the inputs that have this key, in input order.  Hence every input trace lands in exactly one group (the one of its key), and the
group keys are pairwise different. -/
theorem group_traces_partition (ts : List GTrace) :
    groupBy groupKey ts = (ts.map groupKey).eraseDups.map (fun k => (k, ts.filter (fun t => groupKey t == k))) ∧
    (∀ t ∈ ts, ∀ g ∈ groupBy groupKey ts, t ∈ g.2 ↔ g.1 = groupKey t) ∧
    ((groupBy groupKey ts).map (·.1)).Nodup := by
  have h := groupBy_spec groupKey ts
  refine ⟨h, ?_, ?_⟩
  · intro t ht g hg
    rw [h] at hg
    obtain ⟨k, _, rfl⟩ := List.mem_map.1 hg
    simp only [List.mem_filter, ht, true_and, beq_iff_eq]
    exact eq_comm
  · rw [h, List.map_map]
    have : ((fun g : List String × List GTrace => g.1) ∘ fun k => (k, ts.filter (fun t => groupKey t == k))) = id := rfl
    rw [this, List.map_id]
    exact nodup_eraseDups _

/-- traces are merged only within a group and only within a type: every output trace of `group_traces` consists of inputs with
ONE group key and ONE type; a merged mesh / scatter output is `merge_mesh3d` / `merge_scatter3d` of at least two `mesh3d` /
`scatter3d` inputs (so by `merge_mesh3d_preserves_faces` / `merge_scatter3d_preserves_polylines` it contains exactly its
members' faces / polylines); traces of any other type are passed through one by one; and the outputs' members are exactly
the inputs (nothing is dropped, nothing invented). -/
theorem group_traces_merges_within_group (ts : List GTrace) :
    (∀ o ∈ groupTraces ts,
      (∃ k ty, ∀ t ∈ o.members, groupKey t = k ∧ t.ty = ty ∧ t ∈ ts) ∧
      (∀ m, o = .mergedMesh m → 2 ≤ m.length ∧ ∀ t ∈ m, t.ty = "mesh3d") ∧
      (∀ m, o = .mergedScatter m → 2 ≤ m.length ∧ ∀ t ∈ m, t.ty = "scatter3d")) ∧
    (∀ t, t ∈ (groupTraces ts).flatMap GOut.members ↔ t ∈ ts) := by
  constructor
  · intro o ho
    unfold groupTraces at ho
    rw [groupBy_spec] at ho
    simp only [List.mem_flatMap, List.mem_map] at ho
    obtain ⟨g, ⟨k, _, rfl⟩, ho⟩ := ho
    obtain ⟨⟨ty, h1⟩, h2, h3⟩ := mergeTraces_outputs _ o ho
    refine ⟨⟨k, ty, fun t ht => ?_⟩, h2, h3⟩
    obtain ⟨e1, e2⟩ := h1 t ht
    obtain ⟨m1, m2⟩ := List.mem_filter.1 e2
    exact ⟨by simpa using m2, e1, m1⟩
  · intro t
    unfold groupTraces
    constructor
    · intro h
      obtain ⟨o, ho, ht⟩ := List.mem_flatMap.1 h
      obtain ⟨g, hg, ho'⟩ := List.mem_flatMap.1 ho
      have : t ∈ g.2 := (mem_mergeTraces_members g.2 t).1 (List.mem_flatMap.2 ⟨o, ho', ht⟩)
      exact (mem_groupBy_members groupKey ts t).1 ⟨g, hg, this⟩
    · intro ht
      obtain ⟨g, hg, h⟩ := (mem_groupBy_members groupKey ts t).2 ht
      obtain ⟨o, ho, h'⟩ := List.mem_flatMap.1 ((mem_mergeTraces_members g.2 t).2 h)
      exact List.mem_flatMap.2 ⟨o, List.mem_flatMap.2 ⟨g, hg, ho⟩, h'⟩

/-- the group key is the TUPLE of the values (repo fix 4b91a64), so equal keys mean equal types and equal value tuples: every
property that enters the key — legendgroup, opacity, row, col, color and the type-specific ones — has the same `str(value)` in
both traces (a missing key counts as `""`, facecolor as "is None") -/
theorem group_key_injective (t t' : GTrace) (h : groupKey t = groupKey t') :
    t.ty = t'.ty ∧ (∀ k ∈ commonKeys ++ specKeys t.ty, keyPart t k = keyPart t' k) ∧
    keyPart t "legendgroup" = keyPart t' "legendgroup" ∧ keyPart t "opacity" = keyPart t' "opacity" ∧
    keyPart t "row" = keyPart t' "row" ∧ keyPart t "col" = keyPart t' "col" ∧ keyPart t "color" = keyPart t' "color" := by
  simp only [groupKey, List.cons.injEq] at h
  obtain ⟨hty, hm⟩ := h
  rw [← hty] at hm
  have hall : ∀ k ∈ commonKeys ++ specKeys t.ty, keyPart t k = keyPart t' k := List.map_inj_left.1 hm
  have hc : ∀ k ∈ commonKeys, keyPart t k = keyPart t' k := fun k hk => hall k (List.mem_append_left _ hk)
  exact ⟨hty, hall, hc _ (by simp [commonKeys]), hc _ (by simp [commonKeys]), hc _ (by simp [commonKeys]),
    hc _ (by simp [commonKeys]), hc _ (by simp [commonKeys])⟩

/-- traces of different subplots are never merged: two inputs that end in the same output trace of `group_traces` have the
same row and the same col (and opacity, legendgroup, color) -/
theorem traces_of_different_subplots_never_merge (ts : List GTrace) (o : GOut) (ho : o ∈ groupTraces ts)
    (t t' : GTrace) (ht : t ∈ o.members) (ht' : t' ∈ o.members) :
    keyPart t "row" = keyPart t' "row" ∧ keyPart t "col" = keyPart t' "col" ∧
    keyPart t "opacity" = keyPart t' "opacity" ∧ keyPart t "legendgroup" = keyPart t' "legendgroup" ∧
    keyPart t "color" = keyPart t' "color" := by
  obtain ⟨⟨k, _, hk⟩, _, _⟩ := (group_traces_merges_within_group ts).1 o ho
  have h := group_key_injective t t' ((hk t ht).1.trans (hk t' ht').1.symm)
  exact ⟨h.2.2.2.2.1, h.2.2.2.2.2.1, h.2.2.2.1, h.2.2.1, h.2.2.2.2.2.2⟩

/-- non-vacuity: (row 1, col 12) and (row 11, col 2) are two groups -/
example : (groupTraces [{ ty := "mesh3d", props := [("row", "1"), ("col", "12")], facecolorNone := true, id := 0 },
    { ty := "mesh3d", props := [("row", "11"), ("col", "2")], facecolorNone := true, id := 1 }]).length = 2 := by
  simp [groupTraces, groupBy, insertGroup, groupKey, commonKeys, specKeys, keyPart, List.lookup, mergeTraces, mergeDispatch]

/-- REGRESSION WITNESS (literal pre-fix key, `gr = "".join(gr)` = `groupKeyConcat`): built WITHOUT separators, different value
tuples gave the same key — a trace in subplot (row 1, col 12) and one in subplot (row 11, col 2) with otherwise equal properties
shared it and were merged into ONE trace (which kept the first one's row / col); on the real code showing one object in these
two subplots raised `KeyError: (11, 2)`.  The tuple keys of the two differ. -/
theorem concat_key_collision_witness :
    groupKeyConcat { ty := "mesh3d", props := [("row", "1"), ("col", "12")], facecolorNone := true, id := 0 } =
      groupKeyConcat { ty := "mesh3d", props := [("row", "11"), ("col", "2")], facecolorNone := true, id := 1 } ∧
    groupKey { ty := "mesh3d", props := [("row", "1"), ("col", "12")], facecolorNone := true, id := 0 } ≠
      groupKey { ty := "mesh3d", props := [("row", "11"), ("col", "2")], facecolorNone := true, id := 1 } := by
  constructor
  · simp [groupKeyConcat, commonKeys, specKeys, keyPart, List.lookup]
  · simp [groupKey, commonKeys, specKeys, keyPart, List.lookup]

/-- upper-case prefixes: the regenerated table lists every power of `_UNIT_PREFIX` (incl. M, G, T, P, E, Z, Y = 6 … 24) and
d, c, and `unit_factor_table` gives each of them the factor `10^(-power)`: a prefix read case-insensitively ('Mm' as milli)
changes the recorded exponent of its row and breaks `unit_factor_table` -/
theorem unit_table_powers :
    Units.table.map (·.1) = [-24, -21, -18, -15, -12, -9, -6, -3, 3, 6, 9, 12, 15, 18, 21, 24, -1, -2] ∧
    (Units.table.filter (fun r => decide (6 ≤ r.1))).map (fun r => (r.1, r.2.2)) =
      [(6, -6), (9, -9), (12, -12), (15, -15), (18, -18), (21, -21), (24, -24)] := by decide

end MagpyVerif.C19


/-! ## Current arrows and sensor pixels (Model/DisplayArrow.lean at α = ℝ; `arrowc`, `arrowl`, `pixels` rows of the `disp` stream) -/

namespace MagpyVerif.C19
open MagpyVerif MagpyVerif.DisplayTrig

/-- the arrow head drawn on a `current.Circle` (`draw_arrow_on_circle`; `make_Circle` passes `sign = np.sign(current)` and
`angle_pos_deg = 360·round(offset·base)/base`), in the loop's own frame, with `φ = angle_pos_deg·π/180`: three points barb, tip,
barb in the loop plane `z = 0`; the TIP lies ON the circle of diameter `d` at azimuth `φ`; the two barbs are mirror images in the
tangent line through the tip (`b₁ − b₂` is radial); and tip − (midpoint of the barbs) = `(d/2)·hy·e_t` with
`e_t = (−sin φ, cos φ)` the COUNTER-CLOCKWISE tangent and `hy = circHy·sgn(sign)`: the arrow points counter-clockwise (seen
from +z: the direction in which a positive current flows in a Circle) iff `sign > 0`, clockwise iff `sign < 0`, and degenerates
to a radial bar for `sign = 0`. -/
theorem circle_arrow_on_circle (sign d a : ℝ) (scaled : Bool) (θ : ℝ) :
    ∃ b1 tip b2 : V3 ℝ, arrowOnCircle sign d a scaled θ = [b1, tip, b2] ∧
      tip = ⟨d / 2 * Real.cos (θ * (Real.pi / 180)), d / 2 * Real.sin (θ * (Real.pi / 180)), 0⟩ ∧
      tip.x ^ 2 + tip.y ^ 2 = (d / 2) ^ 2 ∧ b1.z = 0 ∧ tip.z = 0 ∧ b2.z = 0 ∧
      tip.x - (b1.x + b2.x) / 2 = d / 2 * (circHy d a scaled * sgn sign) * (-Real.sin (θ * (Real.pi / 180))) ∧
      tip.y - (b1.y + b2.y) / 2 = d / 2 * (circHy d a scaled * sgn sign) * Real.cos (θ * (Real.pi / 180)) ∧
      b1.x - b2.x = d * (3 / 5 * circHy d a scaled) * Real.cos (θ * (Real.pi / 180)) ∧
      b1.y - b2.y = d * (3 / 5 * circHy d a scaled) * Real.sin (θ * (Real.pi / 180)) := by
  refine ⟨_, _, _, arrowOnCircle_eq sign d a scaled θ, rfl, ?_, rfl, rfl, rfl, ?_, ?_, ?_, ?_⟩
  · have := Real.sin_sq_add_cos_sq (θ * (Real.pi / 180))
    simp only
    nlinarith
  all_goals (simp only; ring)

/-- the direction: for a positive current (and `d > 0`, a positive arrow size) the component of (tip − barb midpoint) along the
counter-clockwise tangent is positive, for a negative current negative -/
theorem circle_arrow_direction (sign d a : ℝ) (θ : ℝ) (hd : 0 < d) (ha : 0 < a) :
    (0 < sign → 0 < d / 2 * (circHy d a true * sgn sign)) ∧ (sign < 0 → d / 2 * (circHy d a true * sgn sign) < 0) ∧
    (0 < sign → 0 < d / 2 * (circHy d a false * sgn sign)) ∧ (sign < 0 → d / 2 * (circHy d a false * sgn sign) < 0) := by
  have h1 : 0 < circHy d a true := by simp [circHy]; positivity
  have h2 : 0 < circHy d a false := by simp [circHy]; positivity
  refine ⟨fun h => ?_, fun h => ?_, fun h => ?_, fun h => ?_⟩
  · rw [sgn_pos h]; positivity
  · rw [sgn_neg h]; nlinarith
  · rw [sgn_pos h]; positivity
  · rw [sgn_neg h]; nlinarith

example : arrowOnCircle (1 : ℝ) 2 1 true 0 = [⟨2 / 2 * ((1 + 3 / 5 * (1 / 5 * 1)) * Real.cos (0 * (Real.pi / 180)) + 1 / 5 * 1 * sgn (1 : ℝ) * Real.sin (0 * (Real.pi / 180))),
    2 / 2 * ((1 + 3 / 5 * (1 / 5 * 1)) * Real.sin (0 * (Real.pi / 180)) - 1 / 5 * 1 * sgn (1 : ℝ) * Real.cos (0 * (Real.pi / 180))), 0⟩,
    ⟨2 / 2 * Real.cos (0 * (Real.pi / 180)), 2 / 2 * Real.sin (0 * (Real.pi / 180)), 0⟩,
    ⟨2 / 2 * ((1 - 3 / 5 * (1 / 5 * 1)) * Real.cos (0 * (Real.pi / 180)) + 1 / 5 * 1 * sgn (1 : ℝ) * Real.sin (0 * (Real.pi / 180))),
     2 / 2 * ((1 - 3 / 5 * (1 / 5 * 1)) * Real.sin (0 * (Real.pi / 180)) - 1 / 5 * 1 * sgn (1 : ℝ) * Real.cos (0 * (Real.pi / 180))), 0⟩] := by
  simpa [circHy] using arrowOnCircle_eq (1 : ℝ) 2 1 true 0

/-- the arrow of a Polyline segment (`draw_arrowed_line`, template in the segment's own frame: the segment of length `L` runs
along +y, centred; the function then turns it into the direction of `vec` with scipy and shifts it to the segment's middle — that
rigid motion is not modelled): the first and the last point are the segment's END POINTS `(0, ∓L/2, 0)`; the tip is ON the
segment at `(arrow_pos − 1/2)·L` (its middle for the default 0.5); for `arrow_pos = 0.5` the two barbs sit at
`(∓0.6·size·L, −sgn(sign)·size·L, 0)`: BEHIND the tip with respect to the direction of `vec` iff `sign > 0`. -/
theorem polyline_arrow_on_segment (sign a p L : ℝ) :
    (arrowedLineLocal sign a p L)[0]? = some ⟨0, -(L / 2), 0⟩ ∧ (arrowedLineLocal sign a p L)[6]? = some ⟨0, L / 2, 0⟩ ∧
    (arrowedLineLocal sign a p L)[1]? = some ⟨0, (p - 1 / 2) * L, 0⟩ ∧
    (0 ≤ p → p ≤ 1 → |(p - 1 / 2) * L| ≤ |L| / 2) ∧
    arrowedLineLocal sign a (1 / 2) L =
      [⟨0, -(L / 2), 0⟩, ⟨0, 0, 0⟩, ⟨-(3 / 5 * a * L), -(sgn sign * a * L), 0⟩, ⟨0, 0, 0⟩,
       ⟨3 / 5 * a * L, -(sgn sign * a * L), 0⟩, ⟨0, 0, 0⟩, ⟨0, L / 2, 0⟩] := by
  obtain ⟨h1, h0, h6⟩ := arrowedLineLocal_tip sign a p L
  refine ⟨h0, h6, h1, ?_, arrowedLineLocal_eq sign a L⟩
  intro hp0 hp1
  rw [abs_mul]
  have : |p - 1 / 2| ≤ 1 / 2 := abs_le.2 ⟨by linarith, by linarith⟩
  nlinarith [abs_nonneg L]

/-- Sensor pixels (`make_Pixels`, the pixel part of `make_Sensor`), in the sensor's own frame: one cube per pixel, in the order
of the (unique, sorted) pixel rows; the 8 vertices of the cube of pixel `p` are `p + (±s/2, ±s/2, ±s/2)`, so the cube is CENTRED
on the pixel position (the vertex sum is `8p`) and has side `s = pixelDim`; `place_is_pose` then puts every vertex at the
sensor's pose.  Size rule: `sizemode = "absolute"`: `s = style.pixel.size`; `"scaled"` with at least two different pixels:
`s = size · m/2` where `m` is the SMALLEST distance between two pixels (so for `size ≤ 1` the cubes of different pixels do not
reach each other's centres). -/
theorem sensor_pixel_cubes (p : V3 ℝ) (ps : List (V3 ℝ)) (s : ℝ) :
    pixelCubes (p :: ps) s = cubeAt p s ++ pixelCubes ps s ∧ (cubeAt p s).length = 8 ∧
    (∀ v ∈ cubeAt p s, |v.x - p.x| = |s| / 2 ∧ |v.y - p.y| = |s| / 2 ∧ |v.z - p.z| = |s| / 2) ∧
    ((cubeAt p s).map (·.x)).sum = 8 * p.x ∧ ((cubeAt p s).map (·.y)).sum = 8 * p.y ∧ ((cubeAt p s).map (·.z)).sum = 8 * p.z := by
  have hs1 : |s / 2| = |s| / 2 := by rw [abs_div]; norm_num
  have hs2 : |-(s / 2)| = |s| / 2 := by rw [abs_neg, hs1]
  refine ⟨rfl, by rw [cubeAt_eq]; rfl, ?_, ?_, ?_, ?_⟩
  · intro v hv
    rw [cubeAt_eq] at hv
    simp only [List.mem_cons, List.not_mem_nil, or_false] at hv
    rcases hv with rfl | rfl | rfl | rfl | rfl | rfl | rfl | rfl <;>
      simp only [add_sub_cancel_left, sub_sub_cancel_left, hs1, hs2, and_self]
  all_goals (rw [cubeAt_eq]; simp; ring)

theorem sensor_pixel_size_rule (p q : V3 ℝ) (r : List (V3 ℝ)) (size dimExt : ℝ) :
    pixelDim (p :: q :: r) false size dimExt = size ∧
    ∃ m, minOf ((pairsOf (p :: q :: r)).map fun pr => dist3 pr.1 pr.2) = some m ∧
      (∀ pr ∈ pairsOf (p :: q :: r), m ≤ dist3 pr.1 pr.2) ∧
      (m ≠ 0 → pixelDim (p :: q :: r) true size dimExt = m / 2 * size) := by
  constructor
  · simp [pixelDim]
  · have hne : (pairsOf (p :: q :: r)).map (fun pr => dist3 pr.1 pr.2) ≠ [] := by simp [pairsOf]
    cases hm : minOf ((pairsOf (p :: q :: r)).map fun pr => dist3 pr.1 pr.2) with
    | none =>
      cases hl : (pairsOf (p :: q :: r)).map (fun pr => dist3 pr.1 pr.2) with
      | nil => exact absurd hl hne
      | cons a l => rw [hl] at hm; simp [minOf] at hm
    | some m =>
      obtain ⟨_, h2⟩ := minOf_spec _ m hm
      refine ⟨m, rfl, fun pr hpr => h2 _ (List.mem_map.2 ⟨pr, hpr, rfl⟩), fun h0 => ?_⟩
      simp only [pixelDim, if_true, hm, Kern.eq0_real, h0, decide_false, Bool.false_eq_true, if_false, n_real]
      norm_num

example : pixelDim [(⟨0, 0, 0⟩ : V3 ℝ), ⟨1, 0, 0⟩] false 2 1 = 2 := (sensor_pixel_size_rule _ _ _ _ _).1

end MagpyVerif.C19


/-! ## OUTWARD winding of the closed-surface generators (Model/DisplayOutward.lean at α = ℝ; `svol` rows of the `disp` stream)

`DisplayTrig.faceOut vs f o` is `det[a - o, b - o, c - o]` for the triangle `f = (a, b, c)`: the normal `(b - a) × (c - a)` in INDEX
ORDER (what plotly lights a `mesh3d` face by) dotted with (centroid − o) (`face_out_is_normal_dot_centroid`).  Each theorem names ONE
triangle of the generator's own index arrays and shows that, seen from an interior point, its normal points AWAY from it; the
`*_consistently_wound` theorems say every edge of the closed surface is used once in each direction, i.e. neighbouring triangles
agree about the side — on a connected surface that carries the orientation of the one triangle to all (this last step, a graph
traversal, is NOT formalised; the `svol` rows compare the signed volume Σ det[a, b, c] of model and real arrays: positive in every
row).  No generator is wound inwards. -/

namespace MagpyVerif.C19
open MagpyVerif MagpyVerif.DisplayTrig MagpyVerif.Display MagpyVerif.Mesh

theorem face_out_is_normal_dot_centroid (a b c o : V3 ℝ) :
    det3v (a - o) (b - o) (c - o) =
      V3.dot (V3.cross (b - a) (c - a)) (⟨(a.x + b.x + c.x) / 3 - o.x, (a.y + b.y + c.y) / 3 - o.y, (a.z + b.z + c.z) / 3 - o.z⟩ : V3 ℝ) :=
  det3v_eq_normal_dot a b c o

/-- Cylinder graphic `make_Prism(base=N, diameter=d, height=h)`, EVERY `N ≥ 3`, `d ≠ 0`, `h > 0`: the side triangle `(0, 1, N)` of the
generator's index arrays (bottom ring 0 → bottom ring 1 → top ring 0), seen from the centre of the prism, has
`normal · (centroid − centre) = (d/2)² sin(2π/N) h > 0`; the surface is closed and consistently wound -/
theorem prism_wound_outwards (N : Nat) (hN : 3 ≤ N) (d h : ℝ) (hd : d ≠ 0) (hh : 0 < h) :
    ∃ fs, prismTriangles N = .ok fs ∧ (0, 1, N) ∈ fs ∧ openEdges fs = [] ∧ Wound fs ∧
      ∃ v, faceOut (prismVerts N d h) (0, 1, N) ⟨0, 0, 0⟩ = some v ∧ 0 < v := by
  refine ⟨prismSpec N, prismTriangles_eq (by omega), ?_, prismSpec_closed hN, prism_wound hN, _, prism_face0_out N hN d h, ?_⟩
  · have := prism_F1 (N := N) (q := 0) (by omega)
    simpa [succMod, Nat.mod_eq_of_lt (show 1 < N by omega)] using this
  · have := sin_two_pi_div_pos hN
    have : 0 < (d / 2) ^ 2 := by positivity
    positivity

example : ∃ v, faceOut (prismVerts 50 (2 : ℝ) 3) (0, 1, 50) ⟨0, 0, 0⟩ = some v ∧ 0 < v :=
  let ⟨_, _, _, _, _, h⟩ := prism_wound_outwards 50 (by norm_num) 2 3 (by norm_num) (by norm_num); h

/-- cone `make_Pyramid(base=N, diameter=d, height=h, pivot)`, every `N ≥ 3` (an open surface: no base): the triangle `(0, 1, N)`
(base ring 0 → base ring 1 → tip), seen from the point of the axis at base height, faces away from the axis -/
theorem pyramid_wound_outwards (N : Nat) (hN : 3 ≤ N) (d h : ℝ) (p : Pivot) (hd : d ≠ 0) (hh : 0 < h) :
    ∃ fs, pyramidTriangles N = .ok fs ∧ (0, 1, N) ∈ fs ∧ Wound fs ∧
      ∃ v, faceOut (pyramidVerts N d h p) (0, 1, N) ⟨0, 0, -(h / 2) + zShift p h⟩ = some v ∧ 0 < v := by
  refine ⟨pyramidSpec N, pyramidTriangles_eq (by omega), ?_, pyramid_wound N, _, pyramid_face0_out N hN d h p, ?_⟩
  · have : (0, succMod N 0, N) ∈ pyramidSpec N := List.mem_map.2 ⟨0, List.mem_range.2 (by omega), rfl⟩
    simpa [succMod, Nat.mod_eq_of_lt (show 1 < N by omega)] using this
  · have := sin_two_pi_div_pos hN
    have : 0 < (d / 2) ^ 2 := by positivity
    positivity

example : ∃ v, faceOut (pyramidVerts 30 (1 : ℝ) 2 .tail) (0, 1, 30) ⟨0, 0, -(2 / 2) + zShift .tail 2⟩ = some v ∧ 0 < v :=
  let ⟨_, _, _, _, h⟩ := pyramid_wound_outwards 30 (by norm_num) 1 2 .tail (by norm_num) (by norm_num); h

/-- `make_CylinderSegment` for EVERY arc count `N ≥ 2`, radii `r1 < r2`, `0 < r2` (also `r1 = 0`), angle range
`0 < φ2 − φ1 < 180°·(N − 1)` (one arc step below a half turn), with or without the caps: the top-face triangle `(1, N, N + 1)` (inner
arc 1 → outer arc 0 → outer arc 1), seen from ANY point `o` below the top plane (`o.z < h/2`: every interior point), has
`normal · (centroid − o) = (r2 − r1) r2 sin(step) (h/2 − o.z) > 0`; with the caps drawn the surface is closed and consistently wound -/
theorem cylinder_segment_wound_outwards (N : Nat) (hN : 2 ≤ N) (r1 r2 h phi1 phi2 : ℝ) (hr : r1 < r2) (hr2 : 0 < r2)
    (h1 : phi1 < phi2) (h2 : phi2 - phi1 < 180 * ((N - 1 : ℕ) : ℝ)) (o : V3 ℝ) (ho : o.z < h / 2) :
    (1, N, N + 1) ∈ segTriangles N false ∧ (1, N, N + 1) ∈ segTriangles N true ∧
    openEdges (segTriangles N false) = [] ∧ Wound (segTriangles N false) ∧
    ∃ v, faceOut (segVertsN N r1 r2 h phi1 phi2) (1, N, N + 1) o = some v ∧ 0 < v := by
  have hmem : (1, N, N + 1) ∈ segSpec N := by
    unfold segSpec
    simp only [List.mem_append, List.mem_map, List.mem_range]
    exact Or.inl (Or.inl (Or.inl (Or.inl (Or.inl (Or.inl (Or.inr ⟨0, by omega, by simp⟩))))))
  have hw := (cylinder_segment_consistently_wound N hN)
  refine ⟨?_, ?_, hw.2.1, hw.2.2.1, _, seg_face_out N hN r1 r2 h phi1 phi2 o, ?_⟩
  · rw [segTriangles_eq]; exact List.mem_append_left _ hmem
  · rw [segTriangles_eq]; exact hmem
  · have := seg_step_sin_pos N hN phi1 phi2 h1 h2
    have h3 : 0 < r2 - r1 := by linarith
    have h4 : 0 < h / 2 - o.z := by linarith
    positivity

/-- the same for the function's own arguments (`N = max(5, int(vert·|φ1 − φ2|/360))`): every `vert`, every range `φ1 < φ2 ≤ φ1 + 360` -/
theorem cylinder_segment_wound_outwards_of_args (vert : Nat) (r1 r2 h phi1 phi2 : ℝ) (hr : r1 < r2) (hr2 : 0 < r2)
    (h1 : phi1 < phi2) (h2 : phi2 - phi1 ≤ 360) (o : V3 ℝ) (ho : o.z < h / 2) :
    ∃ v, faceOut (segVerts vert r1 r2 h phi1 phi2) (1, segN vert phi1 phi2, segN vert phi1 phi2 + 1) o = some v ∧ 0 < v := by
  have h5 := le_segN vert phi1 phi2
  have hm : (4 : ℝ) ≤ ((segN vert phi1 phi2 - 1 : ℕ) : ℝ) := by exact_mod_cast (show 4 ≤ segN vert phi1 phi2 - 1 by omega)
  exact (cylinder_segment_wound_outwards (segN vert phi1 phi2) (by omega) r1 r2 h phi1 phi2 hr hr2 h1 (by nlinarith) o ho).2.2.2.2

example : ∃ v, faceOut (segVerts 25 (0 : ℝ) 1 1 0 90) (1, segN 25 (0 : ℝ) 90, segN 25 (0 : ℝ) 90 + 1) ⟨1 / 2, 1 / 4, 0⟩ = some v ∧ 0 < v :=
  cylinder_segment_wound_outwards_of_args 25 0 1 1 0 90 (by norm_num) (by norm_num) (by norm_num) (by norm_num) _ (by norm_num)

/-- Sphere graphic `make_Ellipsoid(dimension=(a, b, c), vert=N)`, EVERY `N ≥ 4`, positive axes: the south-cap triangle `(0, 1, 2)`
(south pole → first ring at longitude 0 → first ring at longitude 2π/N; the ring runs from +y towards +x), seen from the centre,
has `normal · (centroid − centre) = (a/2)(b/2)(c/2) cos²θ₁ sin(2π/N) > 0`; the surface is closed and consistently wound -/
theorem ellipsoid_wound_outwards (N : Nat) (hN : 4 ≤ N) (a b c : ℝ) (ha : 0 < a) (hb : 0 < b) (hc : 0 < c) :
    ∃ fs, ellipsoidTriangles N = .ok fs ∧ (0, 1, 2) ∈ fs ∧ openEdges fs = [] ∧ Wound fs ∧
      ∃ v, faceOut (ellipsoidVerts N a b c) (0, 1, 2) ⟨0, 0, 0⟩ = some v ∧ 0 < v := by
  refine ⟨ellSpec N, ellipsoidTriangles_eq hN, ?_, ellSpec_closed hN, ell_wound hN, _, ellipsoid_face_out N (by omega) a b c, ?_⟩
  · have := ell_S (N := N) (q := 1) (by omega)
    have e2 : succMod N 1 = 2 := by unfold succMod; exact Nat.mod_eq_of_lt (by omega)
    simpa [ringJ, e2] using this
  · have h1 := sin_two_pi_div_pos (show 3 ≤ N by omega)
    have h2 := cos_ellTheta1_pos (show 3 ≤ N by omega)
    positivity

example : ∃ v, faceOut (ellipsoidVerts 15 (1 : ℝ) 1 1) (0, 1, 2) ⟨0, 0, 0⟩ = some v ∧ 0 < v :=
  let ⟨_, _, _, _, _, h⟩ := ellipsoid_wound_outwards 15 (by norm_num) 1 1 1 (by norm_num) (by norm_num) (by norm_num); h

end MagpyVerif.C19


/-! ## The arrow of a Polyline segment AFTER the rotation onto the segment (Model/DisplayArrowLine.lean at α = ℝ; rows `arrowr`, `arrowsv`)

`draw_arrowed_line` turns the template with scipy's `Rotation.from_rotvec(r).apply`; in the model that call is the parameter `rot`
(the driver passes Rodrigues' formula `rotvecApply`).  `TurnsOnto T vec` is what the theorem needs of `T = rot r` for the rotation
vector `r` the code computes (`arrowRotvec`): on the template's plane it is linear, takes ŷ to `vec/|vec|` and x̂ to a unit vector
perpendicular to `vec` — true of every rotation that takes ŷ to `vec/|vec|`; for scipy it is the stated ASSUMPTION, for
`rotvecApply` it is proved in the anti-parallel branch (`polyline_arrow_antiparallel`) and trivially when nothing is rotated. -/

namespace MagpyVerif.C19
open MagpyVerif MagpyVerif.Kern MagpyVerif.DisplayTrig

/-- `draw_arrowed_line(vec, pos, sign, arrow_size, arrow_pos)` (pivot "middle", line included; `draw_arrow_from_vertices` passes the
segment `vec = v_{i+1} − v_i` and its middle `pos`), for every `vec ≠ 0`: the seven points are
start of the segment `pos − vec/2`, TIP, barb, tip, barb, tip, end `pos + vec/2`; the tip lies ON the segment at the fraction
`arrow_pos` from its start (`start + arrow_pos·vec`); the two barbs are mirror images in the segment: their midpoint lies on the
segment's line, `sgn(sign)·size·|vec|` behind the tip, and they sit `0.6·size·|vec|` to either side along a unit vector `e ⟂ vec`. -/
theorem polyline_arrow_placed (rot : V3 ℝ → V3 ℝ → V3 ℝ) (vec pos : V3 ℝ) (sign size apos : ℝ) (hv : Kern.norm vec ≠ 0)
    (hrot : ∀ r, arrowRotvec vec = some r → TurnsOnto (rot r) vec) :
    ∃ e start tip b1 b2 stop : V3 ℝ, V3.dot e vec = 0 ∧ V3.dot e e = 1 ∧
      arrowedLine rot vec pos sign size apos .middle true = [some start, some tip, some b1, some tip, some b2, some tip, some stop] ∧
      start = pos - vs (1 / 2) vec ∧ stop = pos + vs (1 / 2) vec ∧ tip = start + vs apos vec ∧
      vs (1 / 2) (b1 + b2) = tip - vs (sgn sign * size) vec ∧
      b2 - b1 = vs (2 * (3 / 5 * size * Kern.norm vec)) e ∧ V3.dot (b2 - b1) vec = 0 := by
  obtain ⟨e, he1, he2, hl⟩ := arrowedLine_of_turnsOnto rot vec pos sign size apos hv hrot
  refine ⟨e, _, _, _, _, _, he1, he2, hl, rfl, rfl, ?_, ?_, ?_, ?_⟩
  · apply V3.ext' <;> simp only [vs, V3.add_x, V3.add_y, V3.add_z, V3.sub_x, V3.sub_y, V3.sub_z] <;> ring
  · apply V3.ext' <;> simp only [vs, V3.add_x, V3.add_y, V3.add_z, V3.sub_x, V3.sub_y, V3.sub_z] <;> ring
  · apply V3.ext' <;> simp only [vs, V3.add_x, V3.add_y, V3.add_z, V3.sub_x, V3.sub_y, V3.sub_z] <;> ring
  · simp only [V3.dot, vs, V3.add_x, V3.add_y, V3.add_z, V3.sub_x, V3.sub_y, V3.sub_z] at he1 ⊢
    linear_combination (2 * (3 / 5 * size * Kern.norm vec)) * he1

/-- the EXACTLY ANTI-PARALLEL segment `vec = (0, −L, 0)`, with Rodrigues' rotation (what the driver runs): the code takes the branch
`from_rotvec([0, 0, π])` (`n == 0 and dot == -1`), the half turn about z, and the arrow is the one of `polyline_arrow_placed` with
`e = (−1, 0, 0)`: no hypothesis on the rotation is left -/
theorem polyline_arrow_antiparallel (L : ℝ) (hL : 0 < L) (pos : V3 ℝ) (sign size apos : ℝ) :
    arrowRotvec (⟨0, -L, 0⟩ : V3 ℝ) = some ⟨0, 0, Real.pi⟩ ∧
    arrowedLine rotvecApply ⟨0, -L, 0⟩ pos sign size apos .middle true = arrowPts ⟨0, -L, 0⟩ pos sign size apos ⟨-1, 0, 0⟩ := by
  have hn : Kern.norm (⟨0, -L, 0⟩ : V3 ℝ) = L := by
    rw [norm_real]
    simp only [mul_zero, zero_add, add_zero, neg_mul_neg]
    exact Real.sqrt_mul_self hL.le
  have hr : arrowRotvec (⟨0, -L, 0⟩ : V3 ℝ) = some ⟨0, 0, Real.pi⟩ := by
    rw [arrowRotvec_real]
    simp [hn, hL.ne']
  refine ⟨hr, ?_⟩
  have hpts : ∀ x y : ℝ, rotvecApply (⟨0, 0, Real.pi⟩ : V3 ℝ) ⟨x, y, 0⟩ = vs x ⟨-1, 0, 0⟩ + vs y (vd ⟨0, -L, 0⟩ (Kern.norm (⟨0, -L, 0⟩ : V3 ℝ))) := by
    intro x y
    rw [rotvecApply_pi, hn]
    apply V3.ext' <;> simp [vs, vd, hL.ne']
  obtain ⟨e, _, _, hl⟩ := arrowedLine_key rotvecApply ⟨0, -L, 0⟩ pos sign size apos (by rw [hn]; exact hL.ne') (rotvecApply ⟨0, 0, Real.pi⟩)
    ⟨⟨-1, 0, 0⟩, by simp [V3.dot], by simp [V3.dot], hpts⟩ (by rw [hr])
  -- the witness of `arrowedLine_key` is the `e` handed in; redo the computation with it fixed
  have : arrowedLine rotvecApply ⟨0, -L, 0⟩ pos sign size apos .middle true =
      ((arrowTemplate sign size apos true).map (Option.map fun v =>
        (⟨(v.x + 0) * L, (v.y + 0) * L, (v.z + 0) * L⟩ : V3 ℝ))).map (Option.map (fun v => rotvecApply ⟨0, 0, Real.pi⟩ v + pos)) := by
    unfold arrowedLine
    simp only [arrowAnchor, n_real, Nat.cast_zero, hr, hn]
    simp [List.map_map, Function.comp_def]
  rw [this]
  simp only [arrowTemplate, if_true, n_real, half_real, Nat.cast_zero, Nat.cast_ofNat, List.map_cons, List.cons_append, List.nil_append,
    List.map_nil, Option.map_some, add_zero, zero_mul, rotvecApply_pi, arrowPts, hn]
  simp only [List.cons.injEq, Option.some.injEq, and_true]
  refine ⟨?_, ?_, ?_, ?_, ?_, ?_, ?_⟩ <;>
    (apply V3.ext' <;> simp only [vs, V3.add_x, V3.add_y, V3.add_z, V3.sub_x, V3.sub_y, V3.sub_z] <;> ring)

/-- non-vacuity of `polyline_arrow_placed`: for the anti-parallel segment the hypothesis on the rotation HOLDS for Rodrigues' formula -/
example (L : ℝ) (hL : 0 < L) : ∀ r, arrowRotvec (⟨0, -L, 0⟩ : V3 ℝ) = some r → TurnsOnto (rotvecApply r) ⟨0, -L, 0⟩ := by
  intro r hr
  have hn : Kern.norm (⟨0, -L, 0⟩ : V3 ℝ) = L := by
    rw [norm_real]
    simp only [mul_zero, zero_add, add_zero, neg_mul_neg]
    exact Real.sqrt_mul_self hL.le
  rw [(polyline_arrow_antiparallel L hL ⟨0, 0, 0⟩ 1 1 1).1] at hr
  cases hr
  refine ⟨⟨-1, 0, 0⟩, by simp [V3.dot], by simp [V3.dot], ?_⟩
  intro x y
  rw [rotvecApply_pi, hn]
  apply V3.ext' <;> simp [vs, vd, hL.ne']

/-- `draw_arrow_from_vertices`: the loop over the segments and the size rule.  For vertices `p, q, …`: ValueError for fewer than two
vertices; otherwise the FIRST block is `draw_arrowed_line` of the first segment `q − p` placed at its middle `p + (q − p)/2` with
size `0.1·arrow_size` (scaled) or `arrow_size/|q − p|` (absolute; `0` for a zero-length segment), followed by the blocks of the
remaining vertices `q, …` (nothing when `q` is the last) -/
theorem arrows_from_vertices_loop (rot : V3 ℝ → V3 ℝ → V3 ℝ) (p q : V3 ℝ) (rest : List (V3 ℝ)) (sign size apos : ℝ)
    (scaled incl : Bool) :
    arrowFromVertices rot ([] : List (V3 ℝ)) sign size apos scaled incl = .error .valueError ∧
    arrowFromVertices rot [p] sign size apos scaled incl = .error .valueError ∧
    arrowFromVertices rot (p :: q :: rest) sign size apos scaled incl =
      .ok (arrowedLine rot (q - p) (p + vd (q - p) 2) sign
            (if scaled then size * (1 / 10) else if Kern.norm (q - p) = 0 then 0 else size / Kern.norm (q - p)) apos .middle incl ++
          (match arrowFromVertices rot (q :: rest) sign size apos scaled incl with
           | .ok l => l
           | .error _ => [])) := by
  refine ⟨by simp [arrowFromVertices, diffs], by simp [arrowFromVertices, diffs], ?_⟩
  cases rest with
  | nil => cases scaled <;> simp [arrowFromVertices, diffs, arrowSizes]
  | cons r rest => cases scaled <;> simp [arrowFromVertices, diffs, arrowSizes]

example : (arrowFromVertices rotvecApply [(⟨0, 0, 0⟩ : V3 ℝ), ⟨0, -2, 0⟩] 1 1 (1 / 2) true true).toOption =
    some (arrowedLine rotvecApply (⟨0, -2, 0⟩ - ⟨0, 0, 0⟩) (⟨0, 0, 0⟩ + vd (⟨0, -2, 0⟩ - ⟨0, 0, 0⟩) 2) 1 (1 * (1 / 10)) (1 / 2) .middle true ++ []) := by
  rw [(arrows_from_vertices_loop rotvecApply ⟨0, 0, 0⟩ ⟨0, -2, 0⟩ [] 1 1 (1 / 2) true true).2.2,
    (arrows_from_vertices_loop rotvecApply ⟨0, -2, 0⟩ ⟨0, 0, 0⟩ [] 1 1 (1 / 2) true true).2.1]
  simp [Except.toOption]

end MagpyVerif.C19


/-! ## The Sensor axes glyph (Model/DisplaySensor.lean at α = ℝ, template regenerated as `Gen.SensorMesh`; rows `sensor`) -/

namespace MagpyVerif.C19
open MagpyVerif MagpyVerif.Kern MagpyVerif.DisplayTrig

/-- in the sensor's own frame, for EVERY `dim_ext` (vector or scalar) and both handednesses: (1) all vertices of the glyph's centre
(the 12 faces of the template's centre cube, its 8 corners) are the ORIGIN — after `place_and_orient_model3d` the sensor's position
(`sensor_glyph_placed`); (2) vertex 97 is used only by faces of the range coloured x for a right-handed sensor (z for a left-handed
one), 34 only by the y range, 33 only by the range coloured z (x for a left-handed one); (3) right-handed: these tips are at
`(d_x, ~0, ~0)`, `(~0, d_y, ~0)`, `(~0, 0, d_z)` — the arrows point along +x, +y, +z, their length is HALF of `dim_ext·2`, i.e.
`dim_ext`; (4) left-handed: the tip of the x-coloured arrow (33) is at `(−d_x, 0, ~0)`, the y tip stays on +y, the z-coloured one (97)
on +z: exactly the x arrow is flipped.  `~0` are the template's rounding residues times `dim_ext`, all below `2⁻⁵⁰·dim_ext`. -/
theorem sensor_glyph_axes (d : V3 ℝ) :
    (∀ left, ∀ f ∈ Gen.SensorMesh.faces.take 12, (sensorGlyph left d)[f.1]? = some ⟨0, 0, 0⟩ ∧
      (sensorGlyph left d)[f.2.1]? = some ⟨0, 0, 0⟩ ∧ (sensorGlyph left d)[f.2.2]? = some ⟨0, 0, 0⟩) ∧
    (∃ e1 e2 e3 e4 e5 : ℝ, |e1| ≤ 1 / 2 ^ 50 ∧ |e2| ≤ 1 / 2 ^ 50 ∧ |e3| ≤ 1 / 2 ^ 50 ∧ |e4| ≤ 1 / 2 ^ 50 ∧ |e5| ≤ 1 / 2 ^ 50 ∧
      (sensorGlyph false d)[97]? = some ⟨d.x, d.y * e1, d.z * e2⟩ ∧
      (sensorGlyph false d)[34]? = some ⟨d.x * e3, d.y, d.z * e4⟩ ∧
      (sensorGlyph false d)[33]? = some ⟨d.x * e5, 0, d.z⟩ ∧
      (sensorGlyph true d)[33]? = some ⟨-d.x, 0, d.z * e5⟩ ∧
      (sensorGlyph true d)[34]? = some ⟨d.x * -e4, d.y, d.z * e3⟩ ∧
      (sensorGlyph true d)[97]? = some ⟨d.x * -e2, d.y * e1, d.z⟩) := by
  constructor
  · intro left f hf
    have hall := centre_faces_use_corners
    rw [List.all_eq_true] at hall
    have := hall f hf
    simp only [Bool.and_eq_true, List.contains_iff_mem] at this
    exact ⟨glyph_corner_is_origin left d _ this.1.1, glyph_corner_is_origin left d _ this.1.2, glyph_corner_is_origin left d _ this.2⟩
  · obtain ⟨r1, r2, r3⟩ := glyph_tips_right d
    obtain ⟨l1, l2, l3⟩ := glyph_tips_left d
    refine ⟨8052135434725825 / 2 ^ 106, -5249326743147243 / 2 ^ 108, -7751120502399483 / 2 ^ 106, -2545433574297143 / 2 ^ 106,
      -131941395258825 / 2 ^ 100, ?_, ?_, ?_, ?_, ?_, r1, r2, r3, l1, ?_, ?_⟩
    · rw [abs_le]; constructor <;> norm_num
    · rw [abs_le]; constructor <;> norm_num
    · rw [abs_le]; constructor <;> norm_num
    · rw [abs_le]; constructor <;> norm_num
    · rw [abs_le]; constructor <;> norm_num
    · rw [l2]; congr 2; ring
    · rw [l3]; congr 2; ring

/-- which arrow a tip vertex belongs to (regenerated index arrays and `indices` of `get_sensor_mesh`) -/
theorem sensor_glyph_tip_ranges :
    Gen.SensorMesh.ranges = [(0, 12), (12, 68), (68, 124), (124, 180)] ∧ Gen.SensorMesh.faces.length = 180 ∧
    (let uses (v : Nat) (f : Nat × Nat × Nat) : Bool := f.1 == v || f.2.1 == v || f.2.2 == v
     ∀ k < 180, ((Gen.SensorMesh.faces.getD k (0, 0, 0)) |> uses 97) = true → 12 ≤ k ∧ k < 68) ∧
    (let uses (v : Nat) (f : Nat × Nat × Nat) : Bool := f.1 == v || f.2.1 == v || f.2.2 == v
     ∀ k < 180, ((Gen.SensorMesh.faces.getD k (0, 0, 0)) |> uses 34) = true → 68 ≤ k ∧ k < 124) ∧
    (let uses (v : Nat) (f : Nat × Nat × Nat) : Bool := f.1 == v || f.2.1 == v || f.2.2 == v
     ∀ k < 180, ((Gen.SensorMesh.faces.getD k (0, 0, 0)) |> uses 33) = true → 124 ≤ k ∧ k < 180) :=
  tips_belong_to_ranges

open MagpyVerif.Display in
/-- after `place_and_orient_model3d(trace, orientation=R, position=p)` (scale 1, length factor `f`): the glyph's origin is at the
sensor's position (times the unit factor), and a tip `t` lies at `f·(R t + p)`: tip − origin = `f·R t`, the sensor's own axis
direction turned by the sensor's orientation -/
theorem sensor_glyph_placed (R : M3 ℝ) (p t : V3 ℝ) (f : ℝ) :
    place R p (1 : ℝ) f (⟨0, 0, 0⟩ : V3 ℝ) = V3.smul f p ∧
    place R p (1 : ℝ) f t - place R p (1 : ℝ) f (⟨0, 0, 0⟩ : V3 ℝ) = V3.smul f (M3.apply R t) := by
  constructor
  · apply V3.ext' <;> simp [place, HSMul.hSMul, SMul.smul, V3.smul, M3.apply, V3.dot]
  · apply V3.ext' <;> simp [place, HSMul.hSMul, SMul.smul, V3.smul, M3.apply, V3.dot] <;> ring

/-- the hull box: a zero extent is replaced by `pixel_dim / 2`, the box is centred on the middle of the pixels' bounding box -/
example : hullBox [(⟨0, 0, 0⟩ : V3 ℝ), ⟨2, 0, 0⟩] 1 = boxAt ⟨1 / 2 * (2 + 0), 1 / 2 * (0 + 0), 1 / 2 * (0 + 0)⟩ ⟨2 - 0, 1 / 2, 1 / 2⟩ := by
  simp [hullBox, pixelBounds, Display.minMax, Display.fmin, Display.fmax]
  norm_num

end MagpyVerif.C19


/-! ## User `model3d` traces of a non-generic backend at several path frames (Model/DisplayExtra.lean; rows `extraf`) -/

namespace MagpyVerif.C19
open MagpyVerif MagpyVerif.Display

/-- the frame loop of `get_generic_traces3D` over ONE user trace with static kwargs: the user's dict after the loop is the dict before
it, there is one trace per displayed pose, and frame `k` is `process_extra_trace` of the ORIGINAL user trace at pose `k` — a function
of (user coordinates, pose `k`) only, independent of the frames before it -/
theorem extra_trace_frames_independent {α : Type} [Add α] [Mul α] [OfNat α 0] [OfNat α 1] [BEq α]
    (u : ExtraTrace α) (poses : List (M3 α × V3 α)) (kw : List (String × TVal α)) (ts : List (PlaceOut α))
    (h : extraFrames u poses = .ok (kw, ts)) :
    kw = u.kwargs ∧ ts.length = poses.length ∧
    ∀ k (hk : k < poses.length), ∃ t, ts[k]? = some t ∧ processExtraTrace u poses[k].1 poses[k].2 = .ok (u.kwargs, t) :=
  extraFrames_spec u poses kw ts h

/-- a concrete user trace (one point at the origin) shown at two poses that both shift by `(1, 0, 0)` -/
def extraDemo : ExtraTrace Int :=
  { kwargs := [("x", .arr [1] [0]), ("y", .arr [1] [0]), ("z", .arr [1] [0])], args := none, coordsargs := none, scale := 1 }
def extraDemoPoses : List (M3 Int × V3 Int) := [(1, ⟨1, 0, 0⟩), (1, ⟨1, 0, 0⟩)]

/-- non-vacuity, and what the frames are: both frames put the point at `x = 1`, the user's dict still says `x = 0` -/
theorem extra_trace_demo :
    ((extraFrames extraDemo extraDemoPoses).toOption.map fun r => (r.1, r.2.map fun t => t.kwargs.lookup "x")) =
      some (extraDemo.kwargs, [some (.arr [1] [1]), some (.arr [1] [1])]) := by decide

/-- REGRESSION WITNESS (the variant WITHOUT the dict copy `{**extr.kwargs}`, `copy = false`): `trace3d["kwargs"].update(kwargs)` then
writes the placed coordinates into the user's dict — the second frame is placed on top of the first (`x = 2` instead of `1`) and the
user's dict is altered.  The `extraf` rows compare every frame and the user's dict with the real code. -/
theorem extra_trace_without_copy_accumulates :
    ((extraFramesWith false extraDemo extraDemoPoses).toOption.map fun r => (r.1.lookup "x", r.2.map fun t => t.kwargs.lookup "x")) =
      some (some (.arr [1] [2]), [some (.arr [1] [1]), some (.arr [1] [2])]) := by decide


/-! ## added by the second audit (audit2)

* `place` on the carrier the driver runs (`M3 ℝ` acting on `V3 ℝ` with the model's own instances, the ones of `placeModel_vertices`):
  the `place_*` theorems above need a Mathlib `Group G` / `DistribMulAction G V` / `Module K V` (`K` a field) and are instantiated
  only at `ℚˣ` on `ℚ` and at linear equivalences of `Fin 3 → ℝ` — never at `M3` / `V3`.  For an ORTHOGONAL matrix (`R⁻¹ * R = 1`
  with the model's `Inv` = transpose) placement multiplies all distances by `|f · scale|` and is inverted by the oracle's map back.
* `units_length="auto"` end to end on the regenerated table: `autoUnit` (what the driver runs) for every `rmax`, not a literal
  list of digits.
* the exact-360 ring for EVERY arc count (the old theorem is the instance `N = 5`).
* `merge_scatter3d` without the two string hypotheses nobody can instantiate in the kernel.
-/

namespace MagpyVerif.C19
open MagpyVerif MagpyVerif.Display MagpyVerif.Mesh MagpyVerif.Gen
section placeV3
open MagpyVerif MagpyVerif.Display

/-- `place` with the model's own instances (`M3.apply`, `V3.smul`, componentwise `+`), componentwise -/
theorem place_V3_eq (R : M3 ℝ) (p v : V3 ℝ) (s f : ℝ) :
    place R p s f v = ⟨f * (s * R.r1.dot v + p.x), f * (s * R.r2.dot v + p.y), f * (s * R.r3.dot v + p.z)⟩ := rfl

/-- the six column relations of an orthogonal matrix (`R⁻¹` is the model's transpose) -/
theorem orth_entries {R : M3 ℝ} (hR : R⁻¹ * R = 1) :
    R.r1.x * R.r1.x + R.r2.x * R.r2.x + R.r3.x * R.r3.x = 1 ∧
    R.r1.x * R.r1.y + R.r2.x * R.r2.y + R.r3.x * R.r3.y = 0 ∧
    R.r1.x * R.r1.z + R.r2.x * R.r2.z + R.r3.x * R.r3.z = 0 ∧
    R.r1.y * R.r1.y + R.r2.y * R.r2.y + R.r3.y * R.r3.y = 1 ∧
    R.r1.y * R.r1.z + R.r2.y * R.r2.z + R.r3.y * R.r3.z = 0 ∧
    R.r1.z * R.r1.z + R.r2.z * R.r2.z + R.r3.z * R.r3.z = 1 :=
  ⟨congrArg (fun m : M3 ℝ => m.r1.x) hR, congrArg (fun m : M3 ℝ => m.r1.y) hR, congrArg (fun m : M3 ℝ => m.r1.z) hR,
   congrArg (fun m : M3 ℝ => m.r2.y) hR, congrArg (fun m : M3 ℝ => m.r2.z) hR, congrArg (fun m : M3 ℝ => m.r3.z) hR⟩

/-- squared Euclidean distance -/
def dist2 (a b : V3 ℝ) : ℝ := (a.x - b.x) ^ 2 + (a.y - b.y) ^ 2 + (a.z - b.z) ^ 2

/-- with an orthogonal `R` (what a scipy Rotation's matrix is — assumed) placement multiplies every squared distance between model
vertices by `(f · scale)²`: the drawn body is the model body, rigidly moved and rescaled by the unit factor — its extent is the
object's extent.  (`place_preserves_extent` says this only up to an unspecified group action.) -/
theorem place_V3_isometry (R : M3 ℝ) (hR : R⁻¹ * R = 1) (p v w : V3 ℝ) (s f : ℝ) :
    dist2 (place R p s f v) (place R p s f w) = (f * s) ^ 2 * dist2 v w := by
  obtain ⟨h1, h2, h3, h4, h5, h6⟩ := orth_entries hR
  obtain ⟨⟨a, b, c⟩, ⟨d, e, g⟩, ⟨h, i, j⟩⟩ := R
  obtain ⟨vx, vy, vz⟩ := v
  obtain ⟨wx, wy, wz⟩ := w
  simp only [place_V3_eq, dist2, V3.dot] at *
  linear_combination (f * s) ^ 2 * ((vx - wx) ^ 2 * h1 + 2 * (vx - wx) * (vy - wy) * h2 + 2 * (vx - wx) * (vz - wz) * h3 +
    (vy - wy) ^ 2 * h4 + 2 * (vy - wy) * (vz - wz) * h5 + (vz - wz) ^ 2 * h6)

/-- the oracle's map back on the model's carrier: for an orthogonal `R` and `f ≠ 0` it recovers the local vertex -/
theorem place_V3_inverse (R : M3 ℝ) (hR : R⁻¹ * R = 1) (p v : V3 ℝ) (f : ℝ) (hf : f ≠ 0) :
    R⁻¹ • (f⁻¹ • place R p (1 : ℝ) f v - p) = v := by
  obtain ⟨h1, h2, h3, h4, h5, h6⟩ := orth_entries hR
  obtain ⟨⟨a, b, c⟩, ⟨d, e, g⟩, ⟨h, i, j⟩⟩ := R
  obtain ⟨vx, vy, vz⟩ := v
  obtain ⟨px, py, pz⟩ := p
  have hc : ∀ X P : ℝ, f⁻¹ * (f * (1 * X + P)) - P = X := by
    intro X P; rw [inv_mul_cancel_left₀ hf]; ring
  show (⟨a * (f⁻¹ * (f * (1 * (a * vx + b * vy + c * vz) + px)) - px) + d * (f⁻¹ * (f * (1 * (d * vx + e * vy + g * vz) + py)) - py) +
          h * (f⁻¹ * (f * (1 * (h * vx + i * vy + j * vz) + pz)) - pz),
        b * (f⁻¹ * (f * (1 * (a * vx + b * vy + c * vz) + px)) - px) + e * (f⁻¹ * (f * (1 * (d * vx + e * vy + g * vz) + py)) - py) +
          i * (f⁻¹ * (f * (1 * (h * vx + i * vy + j * vz) + pz)) - pz),
        c * (f⁻¹ * (f * (1 * (a * vx + b * vy + c * vz) + px)) - px) + g * (f⁻¹ * (f * (1 * (d * vx + e * vy + g * vz) + py)) - py) +
          j * (f⁻¹ * (f * (1 * (h * vx + i * vy + j * vz) + pz)) - pz)⟩ : V3 ℝ) = ⟨vx, vy, vz⟩
  simp only [hc, V3.mk.injEq]
  simp only at h1 h2 h3 h4 h5 h6
  refine ⟨?_, ?_, ?_⟩
  · linear_combination vx * h1 + vy * h2 + vz * h3
  · linear_combination vx * h2 + vy * h4 + vz * h5
  · linear_combination vx * h3 + vy * h5 + vz * h6


/-- rotation by 90° about z is orthogonal in the model's sense … -/
theorem rotZ90_orthogonal : (⟨⟨0, -1, 0⟩, ⟨1, 0, 0⟩, ⟨0, 0, 1⟩⟩ : M3 ℝ)⁻¹ * ⟨⟨0, -1, 0⟩, ⟨1, 0, 0⟩, ⟨0, 0, 1⟩⟩ = 1 := by
  show M3.mul (M3.transpose _) _ = M3.one
  simp [M3.mul, M3.transpose, M3.one, V3.dot]
/-- … so `place_V3_isometry` / `place_V3_inverse` apply to it (all hypotheses instantiated) -/
example (p v w : V3 ℝ) :
    dist2 (place (⟨⟨0, -1, 0⟩, ⟨1, 0, 0⟩, ⟨0, 0, 1⟩⟩ : M3 ℝ) p (2 : ℝ) (1000 : ℝ) v)
        (place (⟨⟨0, -1, 0⟩, ⟨1, 0, 0⟩, ⟨0, 0, 1⟩⟩ : M3 ℝ) p (2 : ℝ) (1000 : ℝ) w) = (1000 * 2) ^ 2 * dist2 v w :=
  place_V3_isometry _ rotZ90_orthogonal p v w 2 1000
example (p v : V3 ℝ) :
    (⟨⟨0, -1, 0⟩, ⟨1, 0, 0⟩, ⟨0, 0, 1⟩⟩ : M3 ℝ)⁻¹ • ((1000 : ℝ)⁻¹ • place (⟨⟨0, -1, 0⟩, ⟨1, 0, 0⟩, ⟨0, 0, 1⟩⟩ : M3 ℝ) p (1 : ℝ) (1000 : ℝ) v - p) = v :=
  place_V3_inverse _ rotZ90_orthogonal p v 1000 (by norm_num)
end placeV3

/-- `placeModel_vertices` applied (hypothesis `hrest` instantiated): a two-vertex trace with one other entry, rotated by 90° about z,
scaled by 2, shifted -/
example :=
  placeModel_vertices (α := Int) ⟨⟨0, -1, 0⟩, ⟨1, 0, 0⟩, ⟨0, 0, 1⟩⟩ ⟨10, 20, 30⟩ 2 1 [2] [1, 0] [0, 1] [0, 0] [("i", TVal.other 7)] (by decide)

/-- `merge_mesh3d_preserves_faces` applied (both hypotheses instantiated) -/
example : zip3 [0, 3, 4] [1, 4, 5] [2, 6, 6] = [(0, 1, 2), (3, 4, 6), (4, 5, 6)] ∧ True :=
  ⟨by decide, trivial⟩
example := (merge_mesh3d_preserves_faces
    [({ x := [1, 2, 3], y := [0, 0, 0], z := [0, 0, 0], i := [0], j := [1], k := [2] } : MeshTrace Int),
      { x := [7, 8, 9, 10], y := [1, 1, 1, 1], z := [2, 2, 2, 2], i := [0, 1], j := [1, 2], k := [3, 3] }]
    { x := [1, 2, 3, 7, 8, 9, 10], y := [0, 0, 0, 1, 1, 1, 1], z := [0, 0, 0, 2, 2, 2, 2], i := [0, 3, 4], j := [1, 4, 5], k := [2, 6, 6] }
    (by decide) (by decide)).1

/-- `digits = … // 3 * 3` is a multiple of three: the rows `d` (-1) and `c` (-2) of the regenerated table — which `get_unit_factor`
knows but `_UNIT_PREFIX` does not — are never selected by `prefixOfDigits ∘ autoDigits` (the model looks `digits` up in
`Gen.Units.table`, which contains them) -/
theorem auto_unit_digits_multiple_of_three (x : ℝ) : (3 : Int) ∣ autoDigits x := by
  unfold autoDigits
  split
  · exact dvd_zero 3
  · exact Dvd.intro_left _ rfl
/-- every power recorded in the regenerated table lies in -24 … 24 -/
theorem units_table_powers_in_range : ∀ r ∈ Units.table, -24 ≤ r.1 ∧ r.1 ≤ 24 := by decide
/-- `auto_unit_prefix_table` for EVERY multiple of three (not the literal list of 17 + 2): inside -24 … 24 the regenerated table
gives power `d` and factor exponent `-d` (`d = 0`: no row, unit "m", factor 1); outside the fallback (0, 0) -/
theorem auto_unit_prefix_all_digits (d : Int) (h3 : (3 : Int) ∣ d) :
    (prefixOfDigits d).2 = if -24 ≤ d ∧ d ≤ 24 then (d, -d) else (0, 0) := by
  by_cases hr : -24 ≤ d ∧ d ≤ 24
  · rw [if_pos hr]
    obtain ⟨k, rfl⟩ := h3
    obtain ⟨h1, h2⟩ := hr
    have hk1 : -8 ≤ k := by omega
    have hk2 : k ≤ 8 := by omega
    interval_cases k <;> decide
  · rw [if_neg hr]
    have : Units.table.find? (fun r => r.1 == d) = none := by
      rw [List.find?_eq_none]
      intro r hr' hc
      have := units_table_powers_in_range r hr'
      simp only [beq_iff_eq] at hc
      omega
    simp [prefixOfDigits, this]

/-- `units_length="auto"` end to end, on `autoUnit` (the function the `autounit` / `ranges` rows run) over the regenerated table:
for `1 ≤ rmax < 10^27` the unit's power is `autoDigits rmax`, the factor is `10^(-power)` and the displayed number
`rmax · factor` lies in `[1, 1000)`; for `10^-25 < rmax < 1` it lies in `(1/10, 100]` (real-number carrier: `int(log10 x)` is the
exact truncation). -/
theorem auto_unit_displayed_range (rmax : ℝ) :
    (1 ≤ rmax → rmax < (10 : ℝ) ^ (27 : Int) →
      (autoUnit rmax).2.1 = autoDigits rmax ∧ (autoUnit rmax).2.2 = -autoDigits rmax ∧
      1 ≤ rmax * (10 : ℝ) ^ (autoUnit rmax).2.2 ∧ rmax * (10 : ℝ) ^ (autoUnit rmax).2.2 < 1000) ∧
    ((10 : ℝ) ^ (-25 : Int) < rmax → rmax < 1 →
      (autoUnit rmax).2.1 = autoDigits rmax ∧ (autoUnit rmax).2.2 = -autoDigits rmax ∧
      1 / 10 < rmax * (10 : ℝ) ^ (autoUnit rmax).2.2 ∧ rmax * (10 : ℝ) ^ (autoUnit rmax).2.2 ≤ 100) := by
  have h3 := auto_unit_digits_multiple_of_three rmax
  have hall := auto_unit_prefix_all_digits (autoDigits rmax) h3
  have h10 : (0 : ℝ) < 10 := by norm_num
  constructor
  · intro h1 h27
    obtain ⟨b1, b2, b3⟩ := autoDigits_bounds_ge_one h1
    have hlt : autoDigits rmax < 27 := by
      by_contra hc
      push Not at hc
      have : (10 : ℝ) ^ (27 : Int) ≤ (10 : ℝ) ^ autoDigits rmax := zpow_le_zpow_right₀ (by norm_num) hc
      linarith
    have hr : -24 ≤ autoDigits rmax ∧ autoDigits rmax ≤ 24 := by omega
    rw [if_pos hr] at hall
    have e1 : (autoUnit rmax).2.1 = autoDigits rmax := by simp [autoUnit, hall]
    have e2 : (autoUnit rmax).2.2 = -autoDigits rmax := by simp [autoUnit, hall]
    refine ⟨e1, e2, ?_, ?_⟩
    · rw [e2, zpow_neg, ← div_eq_mul_inv, le_div_iff₀ (zpow_pos h10 _)]
      linarith
    · rw [e2, zpow_neg, ← div_eq_mul_inv, div_lt_iff₀ (zpow_pos h10 _)]
      have : (10 : ℝ) ^ (autoDigits rmax + 3) = 1000 * (10 : ℝ) ^ autoDigits rmax := by
        rw [zpow_add₀ (by norm_num)]; norm_num; ring
      linarith
  · intro h25 h1
    have hpos : 0 < rmax := lt_trans (zpow_pos h10 _) h25
    obtain ⟨b1, b2, b3⟩ := autoDigits_bounds_lt_one hpos h1
    have hgt : -27 < autoDigits rmax := by
      by_contra hc
      push Not at hc
      have : (10 : ℝ) ^ (autoDigits rmax + 2) ≤ (10 : ℝ) ^ (-25 : Int) := zpow_le_zpow_right₀ (by norm_num) (by omega)
      linarith
    have hr : -24 ≤ autoDigits rmax ∧ autoDigits rmax ≤ 24 := by omega
    rw [if_pos hr] at hall
    have e1 : (autoUnit rmax).2.1 = autoDigits rmax := by simp [autoUnit, hall]
    have e2 : (autoUnit rmax).2.2 = -autoDigits rmax := by simp [autoUnit, hall]
    refine ⟨e1, e2, ?_, ?_⟩
    · rw [e2, zpow_neg, ← div_eq_mul_inv, lt_div_iff₀ (zpow_pos h10 _)]
      have : (10 : ℝ) ^ (autoDigits rmax - 1) = 1 / 10 * (10 : ℝ) ^ autoDigits rmax := by
        rw [zpow_sub₀ (by norm_num)]; norm_num; ring
      linarith
    · rw [e2, zpow_neg, ← div_eq_mul_inv, div_le_iff₀ (zpow_pos h10 _)]
      have : (10 : ℝ) ^ (autoDigits rmax + 2) = 100 * (10 : ℝ) ^ autoDigits rmax := by
        rw [zpow_add₀ (by norm_num)]; norm_num; ring
      linarith

/-- non-vacuity: 5 m -/
example : (1 : ℝ) ≤ 5 * (10 : ℝ) ^ (autoUnit (5 : ℝ)).2.2 :=
  ((auto_unit_displayed_range 5).1 (by norm_num) (by norm_num)).2.2.1

/-- `get_open_edges`: the undirected edges not used exactly twice -/
theorem mem_openEdges_iff (fs : List Face) (e : Edge) :
    e ∈ openEdges fs ↔ e ∈ edgesOf fs ∧ (edgesOf fs).count e ≠ 2 := by
  simp [openEdges, List.mem_filter, List.mem_eraseDups]

/-- without the caps (exact 360) an edge is open iff exactly one CAP triangle would have used it -/
theorem seg_full_open_iff_cap_edge {N : Nat} (hN : 2 ≤ N) (e : Edge) :
    e ∈ openEdges (segTriangles N true) ↔ (edgesOf (segCaps N)).count e = 1 := by
  have heq : segTriangles N true = segSpec N := by rw [segTriangles_eq]; rfl
  rw [heq, mem_openEdges_iff]
  have hc := edgesOf_seg_count (show 1 ≤ N by omega) e
  rw [edgesOf_count_append] at hc
  have hle : (segEdges N).count e ≤ 1 := List.nodup_iff_count_le_one.1 (segEdges_nodup hN) e
  rw [← List.count_pos_iff]
  omega

/-- the 12 undirected edges of the four cap triangles -/
theorem edgesOf_segCaps {N : Nat} (hN : 1 ≤ N) : edgesOf (segCaps N) =
    [(0, 2 * N), (0, N), (N - 1, 4 * N - 1), (2 * N - 1, 4 * N - 1),
     (2 * N, 3 * N), (0, 3 * N), (3 * N - 1, 4 * N - 1), (N - 1, 4 * N - 1),
     (0, 3 * N), (N, 3 * N), (N - 1, 3 * N - 1), (N - 1, 2 * N - 1)] := by
  simp only [edgesOf, segCaps, List.map_cons, List.map_nil, List.cons_append, List.nil_append]
  have s1 : sortPair 0 (2 * N) = (0, 2 * N) := sortPair_lt (by omega)
  have s2 : sortPair N 0 = (0, N) := sortPair_gt (by omega)
  have s3 : sortPair (0 + N - 1) (3 * N + N - 1) = (N - 1, 4 * N - 1) := by rw [sortPair_lt (by omega)]; congr 1 <;> omega
  have s4 : sortPair (N + N - 1) (3 * N + N - 1) = (2 * N - 1, 4 * N - 1) := by rw [sortPair_lt (by omega)]; congr 1 <;> omega
  have s5 : sortPair (2 * N) (3 * N) = (2 * N, 3 * N) := sortPair_lt (by omega)
  have s6 : sortPair 0 (3 * N) = (0, 3 * N) := sortPair_lt (by omega)
  have s7 : sortPair (3 * N + N - 1) (2 * N + N - 1) = (3 * N - 1, 4 * N - 1) := by rw [sortPair_gt (by omega)]; congr 1 <;> omega
  have s8 : sortPair (3 * N + N - 1) (0 + N - 1) = (N - 1, 4 * N - 1) := by rw [sortPair_gt (by omega)]; congr 1 <;> omega
  have s9 : sortPair N (3 * N) = (N, 3 * N) := sortPair_lt (by omega)
  have s10 : sortPair (0 + N - 1) (2 * N + N - 1) = (N - 1, 3 * N - 1) := by rw [sortPair_lt (by omega)]; congr 1 <;> omega
  have s11 : sortPair (N + N - 1) (0 + N - 1) = (N - 1, 2 * N - 1) := by rw [sortPair_gt (by omega)]; congr 1 <;> omega
  rw [s1, s2, s3, s4, s5, s6, s7, s8, s9, s10, s11]

set_option linter.unusedSimpArgs false in
/-- `cylinder_segment_full_turn_seam_open` for EVERY arc count `N ≥ 2` (the old theorem decides `N = 5`; `vert = 50` over 360°
gives `N = 50`): with `phi2 - phi1 == 360` the open edges of the index arrays are EXACTLY the eight rungs of the first and the last
column (inner-outer top, inner-outer bottom, inner top-bottom, outer top-bottom, at `q = 0` and at `q = N - 1`). -/
theorem cylinder_segment_full_turn_seam_open_N (N : Nat) (hN : 2 ≤ N) (e : Edge) :
    e ∈ openEdges (segTriangles N true) ↔
      e ∈ [(0, N), (2 * N, 3 * N), (0, 2 * N), (N, 3 * N),
           (N - 1, 2 * N - 1), (3 * N - 1, 4 * N - 1), (N - 1, 3 * N - 1), (2 * N - 1, 4 * N - 1)] := by
  rw [seg_full_open_iff_cap_edge hN, edgesOf_segCaps (by omega)]
  obtain ⟨a, b⟩ := e
  simp only [List.count_cons, List.count_nil, beq_iff_eq, Prod.mk.injEq, List.mem_cons, List.not_mem_nil, or_false]
  by_cases h0 : 0 = a ∧ 2 * N = b
  · simp (disch := omega) only [if_pos, if_neg, true_iff, false_iff]; omega
  by_cases h1 : 0 = a ∧ N = b
  · simp (disch := omega) only [if_pos, if_neg, true_iff, false_iff]; omega
  by_cases h2 : N - 1 = a ∧ 4 * N - 1 = b
  · simp (disch := omega) only [if_pos, if_neg, true_iff, false_iff]; omega
  by_cases h3 : 2 * N - 1 = a ∧ 4 * N - 1 = b
  · simp (disch := omega) only [if_pos, if_neg, true_iff, false_iff]; omega
  by_cases h4 : 2 * N = a ∧ 3 * N = b
  · simp (disch := omega) only [if_pos, if_neg, true_iff, false_iff]; omega
  by_cases h5 : 0 = a ∧ 3 * N = b
  · simp (disch := omega) only [if_pos, if_neg, true_iff, false_iff]; omega
  by_cases h6 : 3 * N - 1 = a ∧ 4 * N - 1 = b
  · simp (disch := omega) only [if_pos, if_neg, true_iff, false_iff]; omega
  by_cases h7 : N = a ∧ 3 * N = b
  · simp (disch := omega) only [if_pos, if_neg, true_iff, false_iff]; omega
  by_cases h8 : N - 1 = a ∧ 3 * N - 1 = b
  · simp (disch := omega) only [if_pos, if_neg, true_iff, false_iff]; omega
  by_cases h9 : N - 1 = a ∧ 2 * N - 1 = b
  · simp (disch := omega) only [if_pos, if_neg, true_iff, false_iff]; omega
  simp (disch := omega) only [if_pos, if_neg, true_iff, false_iff]; omega

/-- `merge_scatter3d_preserves_polylines` without its two string hypotheses (`mode.isEmpty = false`, `containsLine mode = true`:
`"lines".isEmpty = false` is decidable, `containsLine "lines" = true` is not provable by `decide` / `rfl` / `simp` — `String.splitOn`
does not reduce — so the old theorem has no instance with a concrete mode in Lean): the function the two Booleans are passed to,
at (mode non-empty, "line" in mode). -/
theorem merge_scatter3d_core_preserves_polylines {α : Type} (t0 t1 : ScatterTrace α) (r : List (ScatterTrace α)) :
    ∃ m, mergeScatter3dCore false true (t0 :: t1 :: r) = .ok m ∧
      splitNone m.x = [] :: (t0 :: t1 :: r).flatMap (fun b => splitNone b.x) ∧
      splitNone m.y = [] :: (t0 :: t1 :: r).flatMap (fun b => splitNone b.y) ∧
      splitNone m.z = [] :: (t0 :: t1 :: r).flatMap (fun b => splitNone b.z) ∧
      m.mode = t0.mode ∧ m.rest = t0.rest := by
  have hx := splitNone_gapped ((t0 :: t1 :: r).map (·.x))
  have hy := splitNone_gapped ((t0 :: t1 :: r).map (·.y))
  have hz := splitNone_gapped ((t0 :: t1 :: r).map (·.z))
  simp only [List.flatMap_map] at hx hy hz
  have hmerge : mergeScatter3dCore false true (t0 :: t1 :: r) = .ok
      { x := (t0 :: t1 :: r).flatMap (fun b => none :: b.x), y := (t0 :: t1 :: r).flatMap (fun b => none :: b.y),
        z := (t0 :: t1 :: r).flatMap (fun b => none :: b.z), mode := t0.mode, rest := t0.rest } := by
    simp [mergeScatter3dCore]
  exact ⟨_, hmerge, hx, hy, hz, rfl, rfl⟩

example : ∃ m, mergeScatter3dCore false true [({ x := [some 1, some 2], y := [some 0, some 0], z := [some 0, some 0], mode := some "lines" } : ScatterTrace Int),
      { x := [some 7], y := [some 8], z := [some 9], mode := none }] = .ok m ∧ splitNone m.x = [[], [1, 2], [7]] := by
  obtain ⟨m, h, hx, _⟩ := merge_scatter3d_core_preserves_polylines
    ({ x := [some 1, some 2], y := [some 0, some 0], z := [some 0, some 0], mode := some "lines" } : ScatterTrace Int)
    { x := [some 7], y := [some 8], z := [some 9], mode := none } []
  exact ⟨m, h, by rw [hx]; decide⟩


/-- the seam theorem applied: at N = 50 (vert = 50, full turn) the rung (0, 50) is open, the arc edge (0, 1) is not -/
example : ((0, 50) : Edge) ∈ openEdges (segTriangles 50 true) ∧ ((0, 1) : Edge) ∉ openEdges (segTriangles 50 true) :=
  ⟨(cylinder_segment_full_turn_seam_open_N 50 (by norm_num) _).2 (by simp),
   fun h => by have := (cylinder_segment_full_turn_seam_open_N 50 (by norm_num) _).1 h; simp at this⟩
end MagpyVerif.C19
