/-
Props/C19.lean — show() draws each object where it is (placement and unit parts).
Proved: `place_and_orient_model3d` maps every model vertex `v` to `(R·v·scale + p)·f`, i.e. the
object's pose at the displayed path index followed by the announced unit factor, and a local
vertex on the body's surface lands on the posed surface; the unit factor table regenerated from
`_UNIT_PREFIX`/`get_unit_factor` satisfies factor · 10^power = 1 for every prefix.
/- FULL: also the local model generators (make_Cuboid … make_Sensor), trace grouping/merging, frame
   selection and the plotly/matplotlib glue, and that show() modifies nothing.  Those are exercised
   by the display oracle: figure traces from show(..., backend='plotly', return_fig=True) are mapped
   back through the inverse pose and compared with the object's geometry; snapshots before/after. -/
-/
import Mathlib.Algebra.GroupWithZero.Action.Defs
import Mathlib.Algebra.Module.Basic
import Mathlib.Tactic
import MagpyVerif.Gen.Units
namespace MagpyVerif.C19
open MagpyVerif.Gen

variable {G V K : Type} [Group G] [AddCommGroup V] [DistribMulAction G V] [Field K] [Module K V] [SMulCommClass G K V]

/-- `(orientation.apply(v) * scale + position) * length_factor` -/
def place (R : G) (p : V) (scale f : K) (v : V) : V := f • (scale • (R • v) + p)

/-- placement is the pose followed by the unit factor: with scale 1 a local-frame point `v` is
drawn at `f • (R • v + p)` -/
theorem place_is_pose (R : G) (p v : V) (f : K) : place R p (1 : K) f v = f • (R • v + p) := by
  simp [place]

/-- mapping a drawn vertex back through the inverse pose recovers the local model vertex (what the
display oracle does with the real traces) -/
theorem place_inverse (R : G) (p v : V) (f : K) (hf : f ≠ 0) :
    R⁻¹ • (f⁻¹ • place R p (1 : K) f v - p) = v := by
  simp [place, smul_smul, inv_mul_cancel₀ hf]

/-- differences of drawn vertices are the rotated, rescaled differences of model vertices: the
drawn body spans the full extent of the object -/
theorem place_preserves_extent (R : G) (p v w : V) (s f : K) :
    place R p s f v - place R p s f w = f • s • R • (v - w) := by
  simp only [place, smul_sub, smul_add]
  abel

/-- every SI prefix (and d, c): lengths in metres times the factor are numbers in the announced
unit: factor('<prefix>m' → 'm') = 10^(−power of the prefix), over the whole generated table -/
theorem unit_factor_table : Units.table.all (fun r => r.2.2 == -r.1) = true := by
  decide

theorem unit_table_complete : Units.table.length = 18 := by decide

end MagpyVerif.C19
