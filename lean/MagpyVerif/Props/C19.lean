/-
Props/C19.lean — show() draws each object where it is (placement and unit parts).
Proved: `place_and_orient_model3d` maps every model vertex `v` to `(R·v·scale + p)·f`, i.e. the
object's pose at the displayed path index followed by the announced unit factor, and a local
vertex on the body's surface lands on the posed surface; the unit factor table regenerated from
`_UNIT_PREFIX`/`get_unit_factor` satisfies factor · 10^power = 1 for every prefix.
Also proved (Model/Display.lean, tied to the code by the `disp` correspondence stream): which path
indices `get_rot_pos_from_path` displays (`frames_*`), the local Cuboid model (`cuboid_*`: vertices
are the 8 corners, triangles lie in the faces, cover them, closed and outward-wound), the
Tetrahedron model (`tetra_*`), and the index structure / closedness of `make_Prism`, `make_Pyramid`.
/- FULL: also the remaining local model generators (vertex coordinates of Prism / Pyramid / Ellipsoid /
   CylinderSegment / Arrow, make_Sensor …), trace grouping/merging and the plotly/matplotlib glue, and
   that show() modifies nothing.  Those are exercised by the display oracle: figure traces from
   show(..., backend='plotly', return_fig=True) are mapped back through the inverse pose and compared
   with the object's geometry; snapshots before/after. -/
-/
import Mathlib.Algebra.GroupWithZero.Action.Defs
import Mathlib.Algebra.Module.Basic
import Mathlib.Tactic
import MagpyVerif.Gen.Units
import MagpyVerif.Lemmas.Display
namespace MagpyVerif.C19
open MagpyVerif.Gen

variable {G V K : Type} [Group G] [AddCommGroup V] [DistribMulAction G V] [Field K] [Module K V] [SMulCommClass G K V]

/-- `(orientation.apply(v) * scale + position) * length_factor` -/
def place (R : G) (p : V) (scale f : K) (v : V) : V := f • (scale • (R • v) + p)

/-- placement is the pose followed by the unit factor: with scale 1 a local-frame point `v` is
drawn at `f • (R • v + p)` -/
theorem place_is_pose (R : G) (p v : V) (f : K) : place R p (1 : K) f v = f • (R • v + p) := by
  simp [place]

/-- mapping a drawn vertex back through the inverse pose recovers the local model vertex (what the
display oracle does with the real traces) -/
theorem place_inverse (R : G) (p v : V) (f : K) (hf : f ≠ 0) :
    R⁻¹ • (f⁻¹ • place R p (1 : K) f v - p) = v := by
  simp [place, smul_smul, inv_mul_cancel₀ hf]

/-- differences of drawn vertices are the rotated, rescaled differences of model vertices: the
drawn body spans the full extent of the object -/
theorem place_preserves_extent (R : G) (p v w : V) (s f : K) :
    place R p s f v - place R p s f w = f • s • R • (v - w) := by
  simp only [place, smul_sub, smul_add]
  abel

/-- every SI prefix (and d, c): lengths in metres times the factor are numbers in the announced
unit: factor('<prefix>m' → 'm') = 10^(−power of the prefix), over the whole generated table -/
theorem unit_factor_table : Units.table.all (fun r => r.2.2 == -r.1) = true := by
  decide

theorem unit_table_complete : Units.table.length = 18 := by decide

/-! ## Which path indices are displayed: `get_rot_pos_from_path` (Model/Display.lean `getRotPosInds`)

`inds` is the array the function returns, `rows` the path rows `orient[inds]`, `pos[inds]` select
(the path indices at which a copy of the object is drawn).  `n` is the path length. -/

open MagpyVerif.Display

/-- Whenever `get_rot_pos_from_path` returns (any path length, any `show_path`): the returned
index array is strictly increasing (so it has no duplicates), non-empty, every entry is a valid
numpy index `-n ≤ i < n` (in particular `< path_len`: indices beyond the path were clipped), the
selected rows are those indices with negative ones counted from the end, and every selected row
is a row of the path (`< n`): the object is drawn only at poses it really has. -/
theorem frames_indices_valid (n : Nat) (sp : ShowPath) (inds : List Int) (rows : List Nat)
    (h : getRotPosInds n sp = .ok (inds, rows)) :
    inds.Pairwise (· < ·) ∧ inds ≠ [] ∧ (∀ i ∈ inds, -(n : Int) ≤ i ∧ i < n) ∧
      rows = inds.map (normIdx n) ∧ rows ≠ [] ∧ ∀ r ∈ rows, r < n := by
  rw [getRotPosInds_unfold] at h
  cases hraw : rawInds n sp with
  | error e => rw [hraw] at h; simp at h
  | ok raw =>
    rw [hraw] at h
    simp only at h
    have hb : ∀ i ∈ finalInds n raw, -(n : Int) ≤ i ∧ i < n := by
      by_contra hc
      push Not at hc
      obtain ⟨i, hi, hi'⟩ := hc
      have : takeInds n (finalInds n raw) = .error .indexError :=
        takeInds_error ⟨i, hi, by by_cases h1 : -(n : Int) ≤ i <;> [exact Or.inr (hi' h1); exact Or.inl (by omega)]⟩
      rw [this] at h
      simp at h
    rw [takeInds_ok hb] at h
    simp only [Except.ok.injEq, Prod.mk.injEq] at h
    obtain ⟨rfl, rfl⟩ := h
    refine ⟨pairwise_finalInds n raw, finalInds_ne_nil n raw, hb, rfl, ?_, ?_⟩
    · simpa using finalInds_ne_nil n raw
    · intro r hr
      obtain ⟨i, hi, rfl⟩ := List.mem_map.1 hr
      exact normIdx_lt (hb i hi).1 (hb i hi).2

example : getRotPosInds 6 (.list [1, 2, 8]) = .ok ([1, 2, 5], [1, 2, 5]) := by decide
example : getRotPosInds 5 (.list [9, -1, 0, 0]) = .ok ([-1, 0, 4], [4, 0, 4]) := by decide

/-- When does displaying fail because of `show_path`?  Exactly when `show_path` is none of
None / bool / int / iterable (and not `== 0`): ValueError; or when it is an iterable containing an
index below `-path_len`: IndexError from `orient[inds]` (indices `≥ path_len` never fail, they are
clipped to the last row). -/
theorem frames_error_iff (n : Nat) (hn : 0 < n) (sp : ShowPath) (e : Err) :
    getRotPosInds n sp = .error e ↔
      (sp = .other ∧ e = .valueError) ∨ (∃ l, sp = .list l ∧ (∃ i ∈ l, i < -(n : Int)) ∧ e = .indexError) := by
  by_cases hl : ∃ l, sp = .list l
  · obtain ⟨l, rfl⟩ := hl
    by_cases hlow : ∃ i ∈ l, i < -(n : Int)
    · rw [getRotPosInds_err_of (raw := l) rfl hlow]
      constructor
      · intro h
        injection h with h
        exact Or.inr ⟨l, rfl, hlow, h.symm⟩
      · rintro (⟨h, _⟩ | ⟨_, _, _, rfl⟩)
        · simp at h
        · rfl
    · push Not at hlow
      rw [getRotPosInds_ok_of hn (raw := l) rfl hlow]
      constructor
      · intro h; simp at h
      · rintro (⟨h, _⟩ | ⟨l', h, ⟨i, hi, hi'⟩, _⟩)
        · simp at h
        · injection h with h
          subst h
          exact absurd hi' (not_lt.2 (hlow i hi))
  · push Not at hl
    cases hraw : rawInds n sp with
    | error e' =>
      have hsp : sp = .other := by
        cases sp <;> simp [rawInds] at hraw
        · split at hraw <;> simp at hraw
        · rfl
      subst hsp
      have : getRotPosInds n .other = .error .valueError := rfl
      rw [this]
      constructor
      · intro h
        injection h with h
        exact Or.inl ⟨rfl, h.symm⟩
      · rintro (⟨_, rfl⟩ | ⟨l, h, _⟩)
        · rfl
        · simp at h
    | ok raw =>
      rw [getRotPosInds_ok_of hn hraw (rawInds_lower_of_not_list hn hraw hl)]
      constructor
      · intro h; simp at h
      · rintro (⟨rfl, _⟩ | ⟨l, h, _⟩)
        · simp [rawInds] at hraw
        · exact absurd h (hl l)

example : getRotPosInds 3 (.list [0, -4]) = .error .indexError := by decide
example : getRotPosInds 3 (.list [0, 7]) = .ok ([0, 2], [0, 2]) := by decide

/-- `show_path` a non-empty iterable `L` of indices none of which is below `-path_len`: the
returned array is exactly the sorted, de-duplicated set `{ min(i, path_len-1) : i ∈ L }` — entries
beyond the path are clipped to the last row, negative entries are passed through unchanged (numpy
then counts them from the end when the rows are selected). -/
theorem frames_list_sorted_dedup_clipped (n : Nat) (hn : 0 < n) (l : List Int) (hne : l ≠ [])
    (hlow : ∀ i ∈ l, -(n : Int) ≤ i) :
    getRotPosInds n (.list l) =
      .ok ((l.map (fun i => min i ((n : Int) - 1))).toFinset.sort (· ≤ ·),
           ((l.map (fun i => min i ((n : Int) - 1))).toFinset.sort (· ≤ ·)).map (normIdx n)) := by
  rw [getRotPosInds_ok_of hn (raw := l) rfl hlow, finalInds_of_ne_nil hne, unique_eq_sort,
    clipInds_eq_map_min]

example : getRotPosInds 4 (.list [3, 9, -2, 3]) = .ok ([-2, 3], [2, 3]) := by decide

/-- The last path position (the object's current pose) is always among the displayed rows when
`show_path` is None, True, False, 0, a positive step `k` (rows `n-1, n-1-k, n-1-2k, …`) or an
empty iterable.
/- FULL: "always contains path_len − 1" for every show_path.  False of the code for non-empty
   iterables (`frames_list_may_omit_last`) and for negative integer steps
   (`frames_negative_step_omits_last`, rows `0, |k|, 2|k|, …` counted from the start). -/ -/
theorem frames_contains_last_partial (n : Nat) (hn : 0 < n) (sp : ShowPath)
    (hsp : sp = .none ∨ (∃ b, sp = .bool b) ∨ (∃ k : Int, 0 ≤ k ∧ sp = .int k) ∨ sp = .list []) :
    ∃ inds rows, getRotPosInds n sp = .ok (inds, rows) ∧ n - 1 ∈ rows := by
  have base : ∀ sp', rawInds n sp' = .ok [-1] → ∃ inds rows, getRotPosInds n sp' = .ok (inds, rows) ∧ n - 1 ∈ rows := by
    intro sp' h
    refine ⟨_, _, getRotPosInds_ok_of hn h (by intro i hi; simp at hi; omega), ?_⟩
    rw [finalInds_neg_one hn]
    simp [normIdx_neg_one hn]
  rcases hsp with rfl | ⟨b, rfl⟩ | ⟨k, hk, rfl⟩ | rfl
  · exact base _ rfl
  · exact base _ rfl
  · by_cases hk0 : k = 0
    · subst hk0
      exact base _ rfl
    · have hraw : rawInds n (.int k) = .ok (arangeSlice n (-k)) := by simp [rawInds, hk0]
      refine ⟨_, _, getRotPosInds_ok_of hn hraw (rawInds_lower_of_not_list hn hraw (by simp)), ?_⟩
      rw [finalInds_arange hn (by omega), List.mem_map]
      refine ⟨(n : Int) - 1, mem_unique.2 ((mem_arangeSlice_neg hn (by omega)).2 ⟨0, by simp, by simpa using hn⟩), ?_⟩
      rw [normIdx_of_nonneg (by omega)]
      omega
  · refine ⟨_, _, getRotPosInds_ok_of hn (raw := []) rfl (by simp), ?_⟩
    rw [finalInds_nil]
    simp [normIdx_of_nonneg (show (0 : Int) ≤ (n : Int) - 1 by omega)]

example : getRotPosInds 7 (.int 3) = .ok ([0, 3, 6], [0, 3, 6]) := by decide
example : getRotPosInds 7 .none = .ok ([-1], [6]) := by decide

/-- the exclusions in `frames_contains_last_partial` are necessary: a list shows exactly the rows it
names, and a negative step counts from the first row -/
theorem frames_list_may_omit_last : displayedIndices 3 (.list [0]) = .ok [0] := by decide
theorem frames_negative_step_omits_last : displayedIndices 4 (.int (-2)) = .ok [0, 2] := by decide

/-- Integer step `k ≠ 0` (`np.arange(path_len)[::-k]`): for `k > 0` exactly the rows `r < n` with
`k ∣ n-1-r` are displayed (every k-th position counted back from the last), for `k < 0` exactly the
rows with `|k| ∣ r` (every |k|-th position counted from the first); the returned array holds the
same numbers, in increasing order. -/
theorem frames_step (n : Nat) (hn : 0 < n) (k : Int) (hk : k ≠ 0) :
    ∃ inds : List Int, getRotPosInds n (.int k) = .ok (inds, inds.map Int.toNat) ∧
      (∀ i ∈ inds, 0 ≤ i) ∧
      ∀ r : Nat, r ∈ inds.map Int.toNat ↔
        r < n ∧ (if 0 < k then k.natAbs ∣ n - 1 - r else k.natAbs ∣ r) := by
  have hraw : rawInds n (.int k) = .ok (arangeSlice n (-k)) := by simp [rawInds, hk]
  have hnonneg : ∀ i ∈ unique (arangeSlice n (-k)), 0 ≤ i := fun i hi =>
    (arangeSlice_range (step := -k) (by omega) (mem_unique.1 hi)).1
  refine ⟨unique (arangeSlice n (-k)), ?_, hnonneg, ?_⟩
  · rw [getRotPosInds_ok_of hn hraw (rawInds_lower_of_not_list hn hraw (by simp)),
      finalInds_arange hn (by omega)]
    congr 2
    apply List.map_congr_left
    intro i hi
    exact normIdx_of_nonneg (hnonneg i hi)
  · intro r
    rw [List.mem_map]
    have habs : (-k).natAbs = k.natAbs := Int.natAbs_neg k
    split
    · rename_i hpos
      constructor
      · rintro ⟨i, hi, rfl⟩
        obtain ⟨q, rfl, hq⟩ := (mem_arangeSlice_neg hn (by omega)).1 (mem_unique.1 hi)
        rw [habs] at hq ⊢
        have hcast : (((n : Int) - 1 - (q : Int) * (k.natAbs : Int)).toNat) = n - 1 - q * k.natAbs := by
          have : ((q * k.natAbs : Nat) : Int) = (q : Int) * (k.natAbs : Int) := by push_cast; ring
          omega
        rw [hcast]
        refine ⟨by omega, ⟨q, ?_⟩⟩
        have : n - 1 - (n - 1 - q * k.natAbs) = q * k.natAbs := by omega
        rw [this, Nat.mul_comm]
      · rintro ⟨hr, ⟨q, hq⟩⟩
        refine ⟨(n : Int) - 1 - (q : Int) * (k.natAbs : Int), mem_unique.2 ((mem_arangeSlice_neg hn (by omega)).2 ⟨q, by rw [habs], ?_⟩), ?_⟩
        · rw [habs]
          have : q * k.natAbs = n - 1 - r := by rw [hq, Nat.mul_comm]
          omega
        · have : ((q * k.natAbs : Nat) : Int) = (q : Int) * (k.natAbs : Int) := by push_cast; ring
          have h2 : q * k.natAbs = n - 1 - r := by rw [hq, Nat.mul_comm]
          omega
    · rename_i hneg
      have hkneg : k < 0 := by omega
      constructor
      · rintro ⟨i, hi, rfl⟩
        obtain ⟨q, rfl, hq⟩ := (mem_arangeSlice_pos hn (by omega)).1 (mem_unique.1 hi)
        rw [habs] at hq ⊢
        have hcast : (((q : Int) * (k.natAbs : Int)).toNat) = q * k.natAbs := by
          have : ((q * k.natAbs : Nat) : Int) = (q : Int) * (k.natAbs : Int) := by push_cast; ring
          omega
        rw [hcast]
        exact ⟨hq, ⟨q, Nat.mul_comm _ _⟩⟩
      · rintro ⟨hr, ⟨q, hq⟩⟩
        refine ⟨(q : Int) * (k.natAbs : Int), mem_unique.2 ((mem_arangeSlice_pos hn (by omega)).2 ⟨q, by rw [habs], ?_⟩), ?_⟩
        · rw [habs, Nat.mul_comm, ← hq]
          exact hr
        · have : ((q * k.natAbs : Nat) : Int) = (q : Int) * (k.natAbs : Int) := by push_cast; ring
          have h2 : q * k.natAbs = r := by rw [hq, Nat.mul_comm]
          omega

example : getRotPosInds 8 (.int 3) = .ok ([1, 4, 7], [1, 4, 7]) := by decide
example : getRotPosInds 8 (.int (-3)) = .ok ([0, 3, 6], [0, 3, 6]) := by decide

/-- No path row is drawn twice (the selected rows are strictly increasing) unless `show_path` is an
iterable mixing negative and non-negative indices.
/- FULL: the selected rows are strictly increasing for every show_path.  False of the code:
   `frames_row_drawn_twice_witness` — `np.unique` runs before negative indices are resolved, so
   `[-1, n-1]` names the last row twice and the object is drawn there twice. -/ -/
theorem frames_rows_strictly_increasing_partial (n : Nat) (hn : 0 < n) (sp : ShowPath)
    (hsp : ∀ l, sp = .list l → (∀ i ∈ l, 0 ≤ i) ∨ (∀ i ∈ l, i < 0))
    (inds : List Int) (rows : List Nat) (h : getRotPosInds n sp = .ok (inds, rows)) :
    rows.Pairwise (· < ·) := by
  obtain ⟨hp, _, hb, rfl, _, _⟩ := frames_indices_valid n sp inds rows h
  apply pairwise_map_normIdx hp hb
  -- the sign condition on the returned array
  rw [getRotPosInds_unfold] at h
  cases hraw : rawInds n sp with
  | error e => rw [hraw] at h; simp at h
  | ok raw =>
    rw [hraw] at h
    simp only at h
    cases ht : takeInds n (finalInds n raw) with
    | error e => rw [ht] at h; simp at h
    | ok rows' =>
      rw [ht] at h
      simp only [Except.ok.injEq, Prod.mk.injEq] at h
      obtain ⟨rfl, _⟩ := h
      have hsign : (∀ i ∈ raw, 0 ≤ i) ∨ (∀ i ∈ raw, i < 0) := by
        cases sp with
        | none => simp [rawInds] at hraw; subst hraw; right; simp
        | bool b => simp [rawInds] at hraw; subst hraw; right; simp
        | int k =>
          by_cases hk : k = 0
          · simp [rawInds, hk] at hraw; subst hraw; right; simp
          · simp [rawInds, hk] at hraw
            subst hraw
            left
            intro i hi
            exact (arangeSlice_range (step := -k) (by omega) hi).1
        | list l => simp [rawInds] at hraw; subst hraw; exact hsp l rfl
        | other => simp [rawInds] at hraw
      by_cases hr : raw = []
      · subst hr
        left
        intro i hi
        rw [finalInds_nil] at hi
        simp at hi
        omega
      · rcases hsign with hs | hs
        · left
          intro i hi
          obtain ⟨j, hj, rfl⟩ := (mem_finalInds_of_ne_nil hr).1 hi
          have := hs j hj
          omega
        · right
          intro i hi
          obtain ⟨j, hj, rfl⟩ := (mem_finalInds_of_ne_nil hr).1 hi
          have := hs j hj
          omega

example : getRotPosInds 5 (.list [4, 0, 2, 4]) = .ok ([0, 2, 4], [0, 2, 4]) := by decide

/-- the exclusion in `frames_rows_strictly_increasing_partial` is necessary -/
theorem frames_row_drawn_twice_witness : getRotPosInds 3 (.list [-1, 2]) = .ok ([-1, 2], [2, 2]) := by
  decide

/-! ## Local model of a Cuboid: `make_Cuboid` (Model/Display.lean)

Coordinates are DOUBLED (`cuboidVerts2` = 2·vertex, `posOff pos` = 2·position) so that `±dimension/2`
becomes `±dimension` in ℤ.  `coord a` is the x / y / z component, `sgn a idx` the literal sign of
model vertex `idx` along axis `a`, `triInFace a sg t` says that the three vertices of `t` all have sign
`sg` along axis `a`. -/

open MagpyVerif.Mesh (openEdges verts)

/-- `make_Cuboid(dimension, position)`:
(1) there are 8 vertices and vertex `idx` sits at `position + sgn·dimension/2` in every coordinate,
    so every coordinate of every vertex is `±dimension/2` away from the position: each vertex is a
    corner of the box, in particular on its surface;
(2) all 8 corners occur: the drawn vertices span the full extent of the magnet;
(3) every one of the 12 triangles lies within one face of the box (its three vertices share the
    coordinate `position ± dimension/2` along one axis);
(4) each of the 6 faces contains exactly two of the triangles and these two cover all 4 corners of
    the face;
(5) every triangle has three distinct vertex indices, all `< 8`. -/
theorem cuboid_vertices_on_surface_and_span (dim : I3) (pos : Option I3) :
    (cuboidVerts2 dim pos).length = 8 ∧
    (∀ idx < 8, ∃ v, (cuboidVerts2 dim pos)[idx]? = some v ∧ ∀ a : Fin 3,
        coord a v = coord a (posOff pos) + sgn a idx * coord a dim ∧ (sgn a idx = 1 ∨ sgn a idx = -1)) ∧
    (∀ v ∈ cuboidVerts2 dim pos, ∀ a : Fin 3,
        coord a v - coord a (posOff pos) = coord a dim ∨ coord a v - coord a (posOff pos) = -coord a dim) ∧
    (∀ sx ∈ [(1 : Int), -1], ∀ sy ∈ [(1 : Int), -1], ∀ sz ∈ [(1 : Int), -1],
        ((posOff pos).1 + sx * dim.1, (posOff pos).2.1 + sy * dim.2.1, (posOff pos).2.2 + sz * dim.2.2)
          ∈ cuboidVerts2 dim pos) ∧
    (∀ t ∈ cuboidTriangles, ∃ a : Fin 3, ∃ sg ∈ [(1 : Int), -1], triInFace a sg t = true ∧
        ∀ idx ∈ verts t, ∃ v, (cuboidVerts2 dim pos)[idx]? = some v ∧
          coord a v = coord a (posOff pos) + sg * coord a dim) ∧
    (∀ a : Fin 3, ∀ sg ∈ [(1 : Int), -1],
        (cuboidTriangles.filter (triInFace a sg)).length = 2 ∧
        ∀ idx < 8, sgn a idx = sg → idx ∈ (cuboidTriangles.filter (triInFace a sg)).flatMap verts) ∧
    (∀ t ∈ cuboidTriangles, t.1 ≠ t.2.1 ∧ t.2.1 ≠ t.2.2 ∧ t.1 ≠ t.2.2 ∧ t.1 < 8 ∧ t.2.1 < 8 ∧ t.2.2 < 8) := by
  have hsgn : ∀ idx < 8, ∀ a : Fin 3, sgn a idx = 1 ∨ sgn a idx = -1 := by decide
  have hlen : (cuboidVerts2 dim pos).length = 8 := by rw [cuboidVerts2_eq]; rfl
  have hidx : ∀ t ∈ cuboidTriangles, ∀ idx ∈ verts t, idx < 8 := by decide
  refine ⟨hlen, ?_, ?_, ?_, ?_, ?_, by decide⟩
  · intro idx h
    obtain ⟨v, hv, hc⟩ := cuboidVerts2_getElem dim pos idx h
    exact ⟨v, hv, fun a => ⟨hc a, hsgn idx h a⟩⟩
  · intro v hv a
    obtain ⟨idx, hidx', hget⟩ := List.getElem_of_mem hv
    rw [hlen] at hidx'
    obtain ⟨v', hv', hc⟩ := cuboidVerts2_getElem dim pos idx hidx'
    have : v' = v := by
      rw [List.getElem?_eq_getElem (by rw [hlen]; exact hidx')] at hv'
      rw [← hget]
      exact (Option.some.inj hv').symm
    subst this
    rw [hc a]
    rcases hsgn idx hidx' a with h | h <;> rw [h]
    · left; ring
    · right; ring
  · rw [cuboidVerts2_eq]
    intro sx hsx sy hsy sz hsz
    simp only [List.mem_cons, List.not_mem_nil, or_false] at hsx hsy hsz
    rcases hsx with rfl | rfl <;> rcases hsy with rfl | rfl <;> rcases hsz with rfl | rfl <;>
      simp [cuboidSigns, cuboidSignX, cuboidSignY, cuboidSignZ]
  · intro t ht
    obtain ⟨a, sg, hsg, hin⟩ := cuboid_tri_in_some_face t ht
    refine ⟨a, sg, hsg, hin, ?_⟩
    intro idx hi
    obtain ⟨v, hv, hc⟩ := cuboidVerts2_getElem dim pos idx (hidx t ht idx hi)
    refine ⟨v, hv, ?_⟩
    rw [hc a]
    have : sgn a idx = sg := by
      simp only [triInFace, Bool.and_eq_true, beq_iff_eq] at hin
      simp only [verts, List.mem_cons, List.not_mem_nil, or_false] at hi
      rcases hi with rfl | rfl | rfl
      · exact hin.1.1
      · exact hin.1.2
      · exact hin.2
    rw [this]
  · intro a sg hsg
    obtain ⟨h1, h2⟩ := cuboid_face_two_triangles a sg hsg
    exact ⟨h1, fun idx hi => h2 idx (List.mem_range.2 hi)⟩

example : cuboidVerts2 (2, 4, 6) (some (10, 20, 30)) =
    [(18, 36, 54), (18, 44, 54), (22, 44, 54), (22, 36, 54), (18, 36, 66), (18, 44, 66), (22, 44, 66), (22, 36, 66)] := by
  decide
example : cuboidTriangles.filter (triInFace 2 1) = [(4, 6, 5), (4, 7, 6)] := by decide

/-- the 12 index triples of `make_Cuboid` form a closed surface in the sense of
`TriangularMesh`'s own check (`get_open_edges` of Model/Mesh.lean returns nothing): every edge is
shared by exactly two triangles -/
theorem cuboid_mesh_closed : openEdges cuboidTriangles = [] := by decide

/-- the cuboid's triangles are consistently wound: no directed edge is used twice -/
theorem cuboid_mesh_consistently_oriented :
    (cuboidTriangles.flatMap fun t => [(t.1, t.2.1), (t.2.1, t.2.2), (t.2.2, t.1)]).Nodup := by decide

/-- … and wound outwards: for every triangle `(i, j, k)` the normal `(v_j − v_i) × (v_k − v_i)` has
scalar product `4·a·b·c` (doubled coordinates; = volume-positive for positive side lengths) with
the vector from the box centre to `v_i`; in particular no triangle is geometrically degenerate
when all side lengths are non-zero. -/
theorem cuboid_faces_outward (dim : I3) (pos : Option I3) (h : 0 < dim.1 ∧ 0 < dim.2.1 ∧ 0 < dim.2.2) :
    ∀ t ∈ cuboidTriangles, ∀ vi vj vk, (cuboidVerts2 dim pos)[t.1]? = some vi →
      (cuboidVerts2 dim pos)[t.2.1]? = some vj → (cuboidVerts2 dim pos)[t.2.2]? = some vk →
      0 < dot3 (cross3 (sub3 vj vi) (sub3 vk vi)) (sub3 vi (posOff pos)) := by
  intro t ht vi vj vk h1 h2 h3
  rw [cuboid_outward_identity dim pos t ht vi vj vk h1 h2 h3]
  have := mul_pos (mul_pos h.1 h.2.1) h.2.2
  omega

example : cuboidTriangles.length = 12 ∧ (7, 0, 3) ∈ cuboidTriangles := by decide
-- triangle (7, 0, 3) of a 1 × 2 × 3 box (doubled: 2 × 4 × 6) centred at the origin
example : (cuboidVerts2 (2, 4, 6) none)[7]? = some (2, -4, 6) ∧ (cuboidVerts2 (2, 4, 6) none)[0]? = some (-2, -4, -6) ∧
    (cuboidVerts2 (2, 4, 6) none)[3]? = some (2, -4, -6) ∧
    dot3 (cross3 (sub3 (-2, -4, -6) (2, -4, 6)) (sub3 (2, -4, -6) (2, -4, 6))) (sub3 (2, -4, 6) (0, 0, 0)) = 4 * (2 * 4 * 6) := by
  decide

/-! ## Local model of a Tetrahedron: `make_Tetrahedron` with `check_chirality` -/

/-- the 4 index triples of `make_Tetrahedron` form a closed surface (no open edge) -/
theorem tetra_mesh_closed : openEdges tetraTriangles = [] := by decide

/-- `make_Tetrahedron` draws the object's own four vertices (possibly with the last two exchanged by
`check_chirality`, which makes the determinant non-negative), every triangle has three distinct
indices `< 4`, the winding is consistent, and for every triangle `(i, j, k)` with fourth vertex `m`
the normal `(v_j − v_i) × (v_k − v_i)` has scalar product `−|det|` with `v_m − v_i`: for a
non-degenerate tetrahedron every face is wound with its normal pointing away from the body. -/
theorem tetra_faces_outward (p : I3 × I3 × I3 × I3) :
    ((tetraPoints p = [p.1, p.2.1, p.2.2.1, p.2.2.2] ∨ tetraPoints p = [p.1, p.2.1, p.2.2.2, p.2.2.1])) ∧
    (∀ t ∈ tetraTriangles, t.1 ≠ t.2.1 ∧ t.2.1 ≠ t.2.2 ∧ t.1 ≠ t.2.2 ∧ t.1 < 4 ∧ t.2.1 < 4 ∧ t.2.2 < 4) ∧
    (tetraTriangles.flatMap fun t => [(t.1, t.2.1), (t.2.1, t.2.2), (t.2.2, t.1)]).Nodup ∧
    ∀ t ∈ tetraTriangles, ∀ vi vj vk vm, (tetraPoints p)[t.1]? = some vi → (tetraPoints p)[t.2.1]? = some vj →
      (tetraPoints p)[t.2.2]? = some vk → (tetraPoints p)[6 - t.1 - t.2.1 - t.2.2]? = some vm →
      dot3 (cross3 (sub3 vj vi) (sub3 vk vi)) (sub3 vm vi) = -|tetraDet p| := by
  refine ⟨?_, by decide, by decide, ?_⟩
  · obtain ⟨p0, p1, p2, p3⟩ := p
    rw [tetraPoints_eq]
    unfold checkChirality
    simp only
    split
    · right; rfl
    · left; rfl
  · intro t ht vi vj vk vm h1 h2 h3 h4
    rw [tetraPoints_eq] at h1 h2 h3 h4
    rw [tetra_outward_identity _ _ _ _ t ht vi vj vk vm h1 h2 h3 h4, ← tetraDet_checkChirality]

example : tetraPoints ((0, 0, 0), (1, 0, 0), (0, 0, 1), (0, 1, 0)) = [(0, 0, 0), (1, 0, 0), (0, 1, 0), (0, 0, 1)] := by
  decide
example : tetraDet ((0, 0, 0), (1, 0, 0), (0, 0, 1), (0, 1, 0)) = -1 := by decide

/-! ## Index structure of `make_Prism` (Cylinder graphic, base = 50) and `make_Pyramid` (arrow heads)

Vertex coordinates use sin / cos and are not modelled; the `i, j, k` arrays are.  `succMod N q` is
`(q+1) mod N`.  Prism vertex rows: bottom ring `0..N-1`, top ring `N..2N-1`, bottom centre `2N`, top
centre `2N+1`.  Pyramid vertex rows: base ring `0..N-1`, tip `N`. -/

/-- `make_Prism(base=N)`, `N ≥ 1`: the `N`-fold slice assignments `j1[-1] = 0`, `j2[-1] = N`,
`k2[-1] = 0` and the four concatenations produce exactly, for `q = 0..N-1`: the lower side triangles
`(q, q+1 mod N, q+N)`, the upper side triangles `(q+N, q+1 mod N, (q+1 mod N)+N)`, the bottom cap
`(q, 2N, q+1 mod N)` and the top cap `(q+N, (q+1 mod N)+N, 2N+1)`; for `N ≥ 2` every triangle has
three distinct indices, all rows of the `2N+2` vertex array. -/
theorem prism_index_structure (N : Nat) (hN : 0 < N) :
    prismTriangles N = .ok (prismSpec N) ∧ (prismSpec N).length = 4 * N ∧
      (2 ≤ N → ∀ t ∈ prismSpec N, t.1 ≠ t.2.1 ∧ t.2.1 ≠ t.2.2 ∧ t.1 ≠ t.2.2 ∧
        t.1 < 2 * N + 2 ∧ t.2.1 < 2 * N + 2 ∧ t.2.2 < 2 * N + 2) := by
  refine ⟨prismTriangles_eq hN, ?_, fun h => prismSpec_indices h⟩
  simp [prismSpec]
  omega

example : prismTriangles 3 = .ok [(0, 1, 3), (1, 2, 4), (2, 0, 5), (3, 1, 4), (4, 2, 5), (5, 0, 3),
    (0, 6, 1), (1, 6, 2), (2, 6, 0), (3, 4, 7), (4, 5, 7), (5, 3, 7)] := by decide

/-- for EVERY base `N ≥ 3` (the Cylinder graphic uses 50) the prism's triangles form a closed
surface: every edge is shared by exactly two triangles (`get_open_edges` finds nothing).  (For
`N = 2` the two ring edges coincide and the statement is false; `N = 0` raises IndexError.) -/
theorem prism_mesh_closed (N : Nat) (hN : 3 ≤ N) :
    ∃ fs, prismTriangles N = .ok fs ∧ openEdges fs = [] :=
  ⟨prismSpec N, prismTriangles_eq (by omega), prismSpec_closed hN⟩

example : (prismTriangles 5).map openEdges = .ok [] := by decide
example : (prismTriangles 2).map openEdges = .ok [(0, 1), (2, 3)] := by decide
example : prismTriangles 0 = .error .indexError := by decide

/-- `make_Pyramid(base=N)`, `N ≥ 1`: the triangles are exactly `(q, q+1 mod N, N)` for `q = 0..N-1`
(the side surface of the cone; there is no base cap), and for `N ≥ 3` the open edges of this
surface are exactly the `N` edges of the base polygon. -/
theorem pyramid_index_structure (N : Nat) (hN : 0 < N) :
    pyramidTriangles N = .ok (pyramidSpec N) ∧
      (3 ≤ N → ∀ e, e ∈ openEdges (pyramidSpec N) ↔ e ∈ baseRing N) :=
  ⟨pyramidTriangles_eq hN, fun h e => mem_openEdges_pyramidSpec h e⟩

example : pyramidTriangles 4 = .ok [(0, 1, 4), (1, 2, 4), (2, 3, 4), (3, 0, 4)] := by decide
example : baseRing 4 = [(0, 1), (1, 2), (2, 3), (0, 3)] := by decide

end MagpyVerif.C19
