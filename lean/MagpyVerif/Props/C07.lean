/-
Props/C07.lean — all interfaces to the same computation return the same numbers (functional
interface part: rank table and tiling; the table is regenerated from /repo on every run).
/- FULL: also source/sensor/collection method wrappers and core functions: those are delegation
   glue, covered by the cross-interface oracle on the real code. Proved here in addition: the
   error exits of getBH_level2 and the row order of output='dataframe'. -/
-/
import MagpyVerif.Model.DictIface
import MagpyVerif.Gen.Ndim
import MagpyVerif.Lemmas.Level2Shape
namespace MagpyVerif.C07
open MagpyVerif.DictIface MagpyVerif.Gen

def lookup2 (t : List (String × List (String × Nat))) (c p : String) : Option Nat :=
  (t.lookup c).bind (·.lookup p)

/-- every entry of every registered class's `_field_func_kwargs_ndim` is exactly one more than
the rank of a single value of that parameter (checked over the whole generated table) -/
theorem table_is_rank_plus_one :
    Ndim.table.all (fun (c, ps) => ps.all (fun (p, nd) => lookup2 Ndim.singleRank c p = some (nd - 1) && nd ≥ 1)) = true := by
  decide

/-- with such an entry, a single value is tiled and a stack of values is taken per instance —
never the other way round -/
theorem classification_correct (r : Nat) :
    treat (r + 1) r = .tile ∧ treat (r + 1) (r + 1) = .stack := by
  simp [treat]

/-- row `i` of the computation receives the single value, or the `i`-th value of a stack
(a stack of length one counts as a single value), once all stack lengths agree -/
theorem dict_interface_tiling {α : Type} (n i : Nat) (hi : i < n) (g : Given α) :
    (rows n g)[i]? =
      match g with
      | .single v => some v
      | .stack vs => if vs.length = 1 then vs[0]? else vs[i]? := by
  cases g with
  | single v => simp [rows, hi]
  | stack vs =>
    match vs with
    | [] => simp [rows]
    | [x] => simp [rows, hi]
    | x :: y :: zs => simp [rows]

/-- stacks of different lengths (other than 1) are rejected -/
theorem mismatched_lengths_rejected {α : Type} (a b : List α) (ha : a.length ≠ 1) (hb : b.length ≠ 1)
    (hab : a.length ≠ b.length) : vecLen [Given.stack a, Given.stack b] = none := by
  simp [vecLen, Given.len?, ha, hb]
  exact fun h => hab h.symm

example : vecLen [Given.stack [1, 2, 3], Given.single 5, Given.stack [7]] = some 3 := by decide

/-! ### getBH_level2: which inputs are rejected; `output="dataframe"` -/
section level2
open MagpyVerif MagpyVerif.Level2
variable {G V : Type}

section
variable [Mul G] [Inv G] [One G] [SMul G V] [Add V] [Sub V] [Zero V] [BEq G]

/-- **error cases** (C07/C17): `getBH_level2` (ndarray output, any `sumup` / `squeeze`) fails exactly
when there are no sources, no observers, a top-level Collection that contains no source at any
depth, or — only without `pixel_agg` — two sensors with different pixel shapes; the failure is then
always `MagpylibBadUserInput`. Every other input yields an array. The same holds, with the same
condition, for `output="dataframe"`: both interfaces accept and reject the same inputs. -/
theorem error_cases (flipX : V → V) (vmin vmax : V → V → V) (entries : List (Entry G V))
    (sensors : List (Sens G V)) (sumup squeeze : Bool) (agg : Agg) (err : Err) :
    (getBH flipX vmin vmax entries sensors sumup squeeze agg = .error err ↔
      err = .badUserInput ∧
        (entries = [] ∨ sensors = [] ∨ (∃ e ∈ entries, e.leaves = []) ∨
          (agg = .none ∧ ∃ k ∈ sensors, ∃ k' ∈ sensors, k.pixShape ≠ k'.pixShape))) ∧
    (dataframe flipX vmin vmax entries sensors sumup agg = .error err ↔
      getBH flipX vmin vmax entries sensors sumup squeeze agg = .error err) := by
  constructor
  · exact getBH_error_iff flipX vmin vmax entries sensors sumup squeeze agg err
  · rw [getBH_error_iff, dataframe_error_iff]

/-- an entry has no leaves exactly if it is a collection all of whose children have none -/
theorem no_leaves_iff (e : Entry G V) :
    e.leaves = [] ↔ ∃ cs, e = .coll cs ∧ ∀ c ∈ cs, c.leaves = [] := by
  cases e with
  | leaf s => simp [Entry.leaves]
  | coll cs => simp [Entry.leaves]
end

section
variable [Group G] [AddCommGroup V] [DistribMulAction G V] [BEq G] [LawfulBEq G]

/-- **dataframe index order and values** (the `output == "dataframe"` branch, any `sumup` and
`pixel_agg`): the call succeeds exactly when the ndarray call does; the value columns are the data of
the ndarray result (`B.reshape(-1, 3)`) unchanged; the `itertools.product(src_ids, range(M), sens_ids,
range(P))` index has exactly as many rows as there are values (so the column assignment is
well-formed); and row number `((l·M + m)·K + k)·P + p` carries the index tuple `(source l, m, sensor
k, p)` — the same row-major order in which the array is flattened. With `sumup` and more than one
source the single source id is `"sumup (L)"`. -/
theorem dataframe_index_order (flipX : V → V) (vmin vmax : V → V → V) (entries : List (Entry G V))
    (sensors : List (Sens G V)) (sumup : Bool) (agg : Agg) (out : Out V)
    (hs : ∀ k ∈ sensors, k.WF)
    (hout : getBH flipX vmin vmax entries sensors sumup false agg = .ok out)
    (k0 : Sens G V) (hk0 : sensors.head? = some k0) :
    ∃ df, dataframe flipX vmin vmax entries sensors sumup agg = .ok df ∧
      df.values = out.data ∧ df.index.length = df.values.length ∧
      ∀ l m k p, l < (if sumup then 1 else entries.length) →
        m < pathLen (entries.flatMap Entry.leaves) sensors → k < sensors.length →
        p < (if agg = .none then pixNum k0 else 1) →
        df.index[((l * pathLen (entries.flatMap Entry.leaves) sensors + m) * sensors.length + k) *
            (if agg = .none then pixNum k0 else 1) + p]? =
          some (if sumup = true ∧ entries.length > 1 then .sumup entries.length else .src l, m, k, p) := by
  have hok := not_bad_of_getBH_ok hout
  have hE : entries ≠ [] := fun h => hok (Or.inl h)
  have hr := coreB_rect flipX vmin vmax entries sensors sumup agg hok hs k0 hk0
  rw [getBH_ok flipX vmin vmax entries sensors sumup false agg hok] at hout
  cases hout
  refine ⟨_, dataframe_ok flipX vmin vmax entries sensors sumup agg hok, rfl, ?_, ?_⟩
  · simp only []
    rw [product4_length, flat4_length hr, srcIds_length entries sumup hE, headD_pixShape sensors k0 hk0]
    simp only [List.length_range]
    rfl
  · intro l m k p hl hm hk hp
    simp only []
    rw [headD_pixShape sensors k0 hk0]
    have := product4_getElem? (srcIds entries sumup)
      (List.range (pathLen (entries.flatMap Entry.leaves) sensors)) (List.range sensors.length)
      (List.range (if agg = .none then pixNum k0 else 1)) l m k p _ m k p
      (srcIds_getElem? entries sumup l hl hE) (List.getElem?_range hm) (List.getElem?_range hk)
      (List.getElem?_range hp)
    simp only [List.length_range] at this
    exact this

/-- **dataframe_order** (no sumup, no pixel_agg): row number `((i·M + m)·K + n)·P + j` of the
dataframe has the index columns (source `i`, path `m`, sensor `n`, pixel `j`) and its value columns
hold the tensor element `[i][m][n][j]`, i.e. the field of entry `i` (sum over its leaves, each at its
own pose `m`) at pixel `j` of sensor `n` at the sensor's pose `m`, in the sensor's frame. -/
theorem dataframe_order (flipX : V → V) (vmin vmax : V → V → V) (entries : List (Entry G V))
    (sensors : List (Sens G V)) (df : DataFrame V) (hs : ∀ k ∈ sensors, k.WF)
    (hdf : dataframe flipX vmin vmax entries sensors false .none = .ok df)
    (i m n j : Nat) (e : Entry G V) (k : Sens G V) (r : G) (p px : V)
    (hi : entries[i]? = some e) (hm : m < pathLen (entries.flatMap Entry.leaves) sensors)
    (hn : sensors[n]? = some k) (hr : clampGet k.ori m = some r) (hp : clampGet k.pos m = some p)
    (hj : k.pixels[j]? = some px) :
    (dataframeRows df)[((i * pathLen (entries.flatMap Entry.leaves) sensors + m) * sensors.length + n) *
        pixNum k + j]? =
      some ((.src i, m, n, j),
        (let v := r⁻¹ • ((e.leaves.map fun s => level1 s m (r • px + p)).sum)
         if k.left then flipX v else v)) := by
  have hok : ¬ BadInput entries sensors .none := by
    intro hbad
    rw [(dataframe_error_iff flipX vmin vmax entries sensors false .none .badUserInput).mpr
      ⟨rfl, hbad⟩] at hdf
    cases hdf
  have hne : sensors ≠ [] := fun hs => hok (Or.inr (Or.inl hs))
  obtain ⟨k0, ks, hks⟩ := List.exists_cons_of_ne_nil hne
  have hk0 : sensors.head? = some k0 := by rw [hks]; rfl
  have hkmem : k ∈ sensors := List.mem_of_getElem? hn
  have hk0mem : k0 ∈ sensors := by rw [hks]; simp
  have hP : pixNum k = pixNum k0 := by
    apply pixNum_congr
    by_contra hne
    exact hok (Or.inr (Or.inr (Or.inr ⟨rfl, k, hkmem, k0, hk0mem, hne⟩)))
  have he : ∀ e ∈ entries, e.leaves ≠ [] := fun e he hl => hok (Or.inr (Or.inr (Or.inl ⟨e, he, hl⟩)))
  have hjlt : j < pixNum k0 := by
    rw [← hP, ← (hs k hkmem).2.2]; exact (List.getElem?_eq_some_iff.mp hj).1
  have hnlt : n < sensors.length := (List.getElem?_eq_some_iff.mp hn).1
  have hilt : i < entries.length := (List.getElem?_eq_some_iff.mp hi).1
  obtain ⟨df', hdf', hval, _, hidx⟩ := dataframe_index_order flipX vmin vmax entries sensors false .none
    _ hs (getBH_ok flipX vmin vmax entries sensors false false .none hok) k0 hk0
  rw [hdf] at hdf'
  cases hdf'
  have h1 := hidx i m n j (by simpa using hilt) hm hnlt (by simpa using hjlt)
  simp only [if_true, Bool.false_eq_true, false_and, if_false] at h1
  have hr4 := coreB_rect flipX vmin vmax entries sensors false .none hok hs k0 hk0
  simp only [if_true, Bool.false_eq_true, if_false] at hr4
  have h2 : df.values[((i * pathLen (entries.flatMap Entry.leaves) sensors + m) * sensors.length + n) *
        pixNum k0 + j]? = some (let v := r⁻¹ • ((e.leaves.map fun s => level1 s m (r • px + p)).sum)
         if k.left then flipX v else v) := by
    rw [hval]
    simp only []
    rw [flat4_getElem? hr4 i m n j hm hnlt hjlt]
    simp only [coreB, Bool.false_eq_true, if_false, if_true, id]
    rw [tensor_eq_spec flipX entries sensors he hs]
    exact specTensor_elem flipX entries sensors i m n j e k r p px hi hm hn hr hp hj
  rw [hP]
  unfold dataframeRows
  exact List.getElem?_zip_eq_some.mpr ⟨h1, h2⟩
end
end level2

-- non-vacuity: `itertools.product` order on a 2 × 1 × 2 × 2 index (row 5 = (1, 0, 0, 1)); the scene
-- `Level2.Example` is accepted by both output branches; the four rejected kinds of input
example : Level2.product4 [10, 11] [0] [20, 21] [0, 1] =
    [(10, 0, 20, 0), (10, 0, 20, 1), (10, 0, 21, 0), (10, 0, 21, 1),
     (11, 0, 20, 0), (11, 0, 20, 1), (11, 0, 21, 0), (11, 0, 21, 1)] := by decide
example : (Level2.product4 [10, 11] [0] [20, 21] [0, 1])[((1 * 1 + 0) * 2 + 0) * 2 + 1]? = some (11, 0, 20, 1) := by
  decide
open MagpyVerif.Level2 MagpyVerif.Level2.Example in
example : (∃ df, dataframe exFlip exMin exMax exEntries exSensors false .none = .ok df) ∧
    (∃ out, getBH exFlip exMin exMax exEntries exSensors false false .none = .ok out) :=
  ⟨⟨_, dataframe_ok _ _ _ _ _ _ _ (exNotBad _)⟩, ⟨_, getBH_ok _ _ _ _ _ _ _ _ (exNotBad _)⟩⟩
-- … and the index hypotheses of `dataframe_order` are met there by (entry 1 = the collection, path
-- index 1, sensor 0, pixel 1), which is row ((1·2 + 1)·2 + 0)·2 + 1 = 13 of the 16 rows
open MagpyVerif.Level2 MagpyVerif.Level2.Example in
example : (∃ e, exEntries[1]? = some e) ∧ 1 < pathLen (exEntries.flatMap Entry.leaves) exSensors ∧
    (∃ k, exSensors[0]? = some k ∧ clampGet k.ori 1 = some 1 ∧ clampGet k.pos 1 = some ⟨5, 0, 0⟩ ∧
      k.pixels[1]? = some ⟨1, 0, 0⟩ ∧ k.ori ≠ [] ∧ k.pos.length = k.ori.length ∧
      k.pixels.length = pixNum k) := by
  refine ⟨⟨_, rfl⟩, by rw [exPathLen]; decide, ⟨_, rfl, ?_⟩⟩
  simp [clampGet, pixNum]
open MagpyVerif.Level2 MagpyVerif.Level2.Example in
example :
    getBH exFlip exMin exMax [] exSensors false true .none = .error .badUserInput ∧
    getBH exFlip exMin exMax exEntries [] false true .sum = .error .badUserInput ∧
    getBH exFlip exMin exMax (exEntries ++ [.coll [.coll []]]) exSensors true false .sum =
      .error .badUserInput ∧
    getBH exFlip exMin exMax exEntries exSensorsMixed false false .none = .error .badUserInput := by
  refine ⟨(error_cases _ _ _ _ _ _ _ _ _).1.mpr ⟨rfl, Or.inl rfl⟩,
    (error_cases _ _ _ _ _ _ _ _ _).1.mpr ⟨rfl, Or.inr (Or.inl rfl)⟩,
    (error_cases _ _ _ _ _ _ _ _ _).1.mpr ⟨rfl, Or.inr (Or.inr (Or.inl ⟨.coll [.coll []], by simp, by simp [Entry.leaves]⟩))⟩,
    (error_cases _ _ _ _ _ _ _ _ _).1.mpr ⟨rfl, exBadMixed⟩⟩

end MagpyVerif.C07
