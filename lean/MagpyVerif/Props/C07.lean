/-
Props/C07.lean — all interfaces to the same computation return the same numbers (functional
interface part: rank table and tiling; the table is regenerated from /repo on every run).
/- FULL: also source/sensor/collection method wrappers, core functions and output='dataframe'
   order: those are delegation glue, covered by the cross-interface oracle on the real code. -/
-/
import MagpyVerif.Model.DictIface
import MagpyVerif.Gen.Ndim
namespace MagpyVerif.C07
open MagpyVerif.DictIface MagpyVerif.Gen

def lookup2 (t : List (String × List (String × Nat))) (c p : String) : Option Nat :=
  (t.lookup c).bind (·.lookup p)

/-- every entry of every registered class's `_field_func_kwargs_ndim` is exactly one more than
the rank of a single value of that parameter (checked over the whole generated table) -/
theorem table_is_rank_plus_one :
    Ndim.table.all (fun (c, ps) => ps.all (fun (p, nd) => lookup2 Ndim.singleRank c p = some (nd - 1) && nd ≥ 1)) = true := by
  decide

/-- with such an entry, a single value is tiled and a stack of values is taken per instance —
never the other way round -/
theorem classification_correct (r : Nat) :
    treat (r + 1) r = .tile ∧ treat (r + 1) (r + 1) = .stack := by
  simp [treat]

/-- row `i` of the computation receives the single value, or the `i`-th value of a stack
(a stack of length one counts as a single value), once all stack lengths agree -/
theorem dict_interface_tiling {α : Type} (n i : Nat) (hi : i < n) (g : Given α) :
    (rows n g)[i]? =
      match g with
      | .single v => some v
      | .stack vs => if vs.length = 1 then vs[0]? else vs[i]? := by
  cases g with
  | single v => simp [rows, hi]
  | stack vs =>
    match vs with
    | [] => simp [rows]
    | [x] => simp [rows, hi]
    | x :: y :: zs => simp [rows]

/-- stacks of different lengths (other than 1) are rejected -/
theorem mismatched_lengths_rejected {α : Type} (a b : List α) (ha : a.length ≠ 1) (hb : b.length ≠ 1)
    (hab : a.length ≠ b.length) : vecLen [Given.stack a, Given.stack b] = none := by
  simp [vecLen, Given.len?, ha, hb]
  exact fun h => hab h.symm

example : vecLen [Given.stack [1, 2, 3], Given.single 5, Given.stack [7]] = some 3 := by decide

end MagpyVerif.C07
