/-
Props/C07.lean — all interfaces to the same computation return the same numbers (functional
interface part: rank table and tiling; the table is regenerated from /repo on every run).
/- FULL: also the core functions (magpylib.core.*): covered by the cross-interface oracle on the real code.
   Proved here in addition: the error exits of getBH_level2, the row order of output='dataframe', and — on the
   model of the input formatting and of the method wrappers (Model/Iface.lean, tied by the `iface` stream) — that
   src.getX / sens.getX / coll.getX are the top-level call with the corresponding arguments, that position arrays
   are sensors at the origin, and what format_src_inputs / check_duplicates do. -/
-/
import MagpyVerif.Model.DictIface
import MagpyVerif.Lemmas.DictIface
import MagpyVerif.Gen.Ndim
import MagpyVerif.Lemmas.Level2Shape
import MagpyVerif.Lemmas.Iface
import MagpyVerif.Lemmas.OctaIface
namespace MagpyVerif.C07
open MagpyVerif.DictIface MagpyVerif.Gen

def lookup2 (t : List (String × List (String × Nat))) (c p : String) : Option Nat :=
  (t.lookup c).bind (·.lookup p)

/-- every entry of every registered class's `_field_func_kwargs_ndim` is exactly one more than
the rank of a single value of that parameter (checked over the whole generated table) -/
theorem table_is_rank_plus_one :
    Ndim.table.all (fun (c, ps) => ps.all (fun (p, nd) => lookup2 Ndim.singleRank c p = some (nd - 1) && nd ≥ 1)) = true := by
  decide

/-- (added by the audit) `table_is_rank_plus_one` is an `all` over the regenerated table and would hold vacuously for an
empty table or empty parameter lists: the ten public source classes are all present, each with a non-empty parameter
list, and the rank table lists exactly the same classes and parameters -/
theorem table_covers_source_classes :
    ["Circle", "Cuboid", "Cylinder", "CylinderSegment", "Dipole", "Polyline", "Sphere", "Tetrahedron", "Triangle",
      "TriangularMesh"].all (fun c => match Ndim.table.lookup c with | some ps => !ps.isEmpty | none => false) = true ∧
    Ndim.table.map (fun r => (r.1, r.2.map Prod.fst)) = Ndim.singleRank.map (fun r => (r.1, r.2.map Prod.fst)) := by
  decide

/-- with such an entry, a single value is tiled and a stack of values is taken per instance —
never the other way round -/
theorem classification_correct (r : Nat) :
    treat (r + 1) r = .tile ∧ treat (r + 1) (r + 1) = .stack := by
  simp [treat]

/-- row `i` of the computation receives the single value, or the `i`-th value of a stack
(a stack of length one counts as a single value), once all stack lengths agree -/
theorem dict_interface_tiling {α : Type} (n i : Nat) (hi : i < n) (g : Given α) :
    (rows n g)[i]? =
      match g with
      | .single v => some v
      | .stack vs => if vs.length = 1 then vs[0]? else vs[i]? := by
  cases g with
  | single v => simp [rows, hi]
  | stack vs =>
    match vs with
    | [] => simp [rows]
    | [x] => simp [rows, hi]
    | x :: y :: zs => simp [rows]

/-- stacks of different lengths (other than 1) are rejected -/
theorem mismatched_lengths_rejected {α : Type} (a b : List α) (ha : a.length ≠ 1) (hb : b.length ≠ 1)
    (hab : a.length ≠ b.length) : vecLen [Given.stack a, Given.stack b] = none := by
  simp [vecLen, agree, Given.len?, ha, hb]
  exact fun h => hab h.symm

example : vecLen [Given.stack [1, 2, 3], Given.single 5, Given.stack [7]] = some 3 := by decide

/-! ### the whole functional call (`DictIface.call` = getBH_dict_level2, executed by the driver family `dict` and tied to
the real function by the `dict` stream) -/
section dictcall
variable {G V α : Type}

/-- the tiled pose rows are the picked values: `dict_interface_tiling` in the form used below -/
theorem pose_rows_are_picked {β : Type} (n i : Nat) (hi : i < n) (g : Given β) (hg : ∀ l, g.len? = some l → l = n) :
    (rows n g).length = n ∧ (rows n g)[i]? = pick i g :=
  ⟨(rows_spec n g hg).1, (rows_spec n g hg).2 i hi⟩

/-- **what the field function receives for one keyword** (the "i-th parameter set"): for the j-th keyword `k = a` (a
well-formed float array; `e` the table entry of `k`, 1 if `k` is in no table) and every row `i < n`:
* rank = e and length ≠ 1 — a stack: its length IS n and row i is `a[i]`;
* rank = e and length 1 — the one value, all unit axes squeezed away, padded with unit axes to rank e − 1;
* rank < e — the value itself, padded with unit axes to rank e − 1 (the same for every row);
* rank > e — handed on untouched (`a[i]`, whatever its length). -/
theorem marshalled_arg_row (table : List (String × Nat)) (c : Call G V α) (m : Marshalled G V α)
    (h : marshal table c = .ok m) (j : Nat) (k : String) (a : Arr α)
    (hj : c.params[j]? = some (k, .arr a)) (hwf : a.WF) (hpos : 0 < a.ndim) (i : Nat) (hi : i < m.n) :
    ∃ cv, m.args[j]? = some (k, cv) ∧
      (a.ndim = expected table k → a.len ≠ 1 → a.len = m.n ∧ cv.row i = a.row i) ∧
      (a.ndim = expected table k → a.len = 1 →
        cv.row i = ⟨List.replicate (expected table k - 1 - a.squeeze.ndim) 1 ++ a.squeeze.shape, a.data⟩) ∧
      (a.ndim < expected table k →
        cv.row i = ⟨List.replicate (expected table k - 1 - a.ndim) 1 ++ a.shape, a.data⟩) ∧
      (expected table k < a.ndim → cv.row i = a.row i) := by
  obtain ⟨secured, hs, hn, hargs, -, -, -⟩ := marshal_ok h
  -- the j-th secured entry
  have hsec : secured[j]? = some (k, secure (expected table k) (.arr a)) := by
    obtain ⟨y, hy, ho⟩ := mapM_ok_getElem? _ _ _ hs j _ hj
    simp only [convert, Except.map] at hy
    cases hy
    exact ho
  refine ⟨tileArg (expected table k) m.n (secure (expected table k) (.arr a)).1, ?_, ?_, ?_, ?_, ?_⟩
  · rw [hargs, List.getElem?_map, hsec]; rfl
  · intro he hl
    have hcnt : (secure (expected table k) (Conv.arr a)) = (.arr a, some a.len) := by
      simp [secure, treat, he, hl]
    have hmem : a.len ∈ secured.filterMap (·.2.2) ++
        [c.observers.len?, c.position.len?, c.orientation.len?].filterMap id := by
      refine List.mem_append_left _ (List.mem_filterMap.mpr ⟨_, List.mem_of_getElem? hsec, ?_⟩)
      rw [hcnt]
    refine ⟨agree_eq_some hn _ hmem, ?_⟩
    rw [hcnt]; simp [tileArg, treat, he, Conv.row]
  · intro he hl
    have hlt : a.squeeze.ndim < expected table k := he ▸ squeeze_ndim_lt hl hpos
    have hne : a.squeeze.ndim ≠ expected table k := Nat.ne_of_lt hlt
    simp only [secure, treat, he, hl, if_true, tileArg, hne, if_false, hlt, Conv.row]
    exact tile_row _ _ _ hi _ (squeeze_WF hwf)
  · intro hlt
    have hne : a.ndim ≠ expected table k := Nat.ne_of_lt hlt
    simp only [secure, treat, hne, if_false, hlt, if_true, tileArg, Conv.row]
    simp only [reduceCtorEq, if_false, hne, hlt, if_true]
    exact tile_row _ _ _ hi _ hwf
  · intro hgt
    have hne : a.ndim ≠ expected table k := Nat.ne_of_gt hgt
    have hnl : ¬ a.ndim < expected table k := Nat.not_lt_of_gt hgt
    simp [secure, treat, hne, hnl, tileArg, Conv.row]

section
variable [Inv G] [SMul G V] [Sub V] [Zero V]

/-- **dict_interface_is_level1_rowwise** — the functional interface IS the object interface's `level1`, row by row:
if `getB("Class", observers, position=…, orientation=…, **kwargs)` returns, then the class is registered, the call
has a well-defined number of rows n (every counted stack length), the result has exactly n rows (shape (n, 3), or (3,)
when n = 1 and `squeeze`), and row i is `Level2.level1` — the per-leaf evaluation that C03–C06 are about — of a
source whose field function is the class's field function at the i-th parameter set (`paramSet m i`, see
`marshalled_arg_row`), at the i-th pose (the single position / orientation, the only entry of a length-1 stack, or
entry i of a stack), at the i-th observer.  Stated twice: with the one-pose source `{pos := [p], ori := [r]}`, and
with the tiled pose lists that the code builds, read at path index i. -/
theorem dict_interface_is_level1_rowwise (tables : List (String × List (String × Nat))) (cls : String)
    (F : List (String × Arr α) → V → V) (c : Call G V α) (out : Level2.Out V)
    (h : call tables cls F c = .ok out) :
    ∃ table m, tables.lookup cls = some table ∧ marshal table c = .ok m ∧
      out.data.length = m.n ∧
      out.shape = (if c.squeeze then [m.n].filter (· ≠ 1) else [m.n]) ∧
      ∀ i, i < m.n → ∃ x p r,
        pick i c.observers = some x ∧ pick i c.position = some p ∧ pick i c.orientation = some r ∧
        out.data[i]? = some (Level2.level1 { pos := [p], ori := [r], F := F (paramSet m i) } 0 x) ∧
        out.data[i]? =
          some (Level2.level1 { pos := m.position, ori := m.orientation, F := F (paramSet m i) } i x) := by
  unfold call at h
  split at h
  · cases h
  · rename_i table htab
    split at h
    · cases h
    · rename_i m hm
      cases h
      refine ⟨table, m, htab, hm, by simp [fieldRows], rfl, ?_⟩
      intro i hi
      obtain ⟨ho, hp, hr⟩ := marshal_pose_lens hm
      obtain ⟨-, -, -, -, eo, ep, er⟩ := marshal_ok hm
      obtain ⟨x, hx⟩ := pick_isSome m.n i hi c.observers ho
      obtain ⟨p, hpp⟩ := pick_isSome m.n i hi c.position hp
      obtain ⟨r, hrr⟩ := pick_isSome m.n i hi c.orientation hr
      have gx : m.observers[i]? = some x := by rw [eo, (rows_spec m.n _ ho).2 i hi, hx]
      have gp : m.position[i]? = some p := by rw [ep, (rows_spec m.n _ hp).2 i hi, hpp]
      have gr : m.orientation[i]? = some r := by rw [er, (rows_spec m.n _ hr).2 i hi, hrr]
      have lp : m.position.length = m.n := by rw [ep]; exact (rows_spec m.n _ hp).1
      have lr : m.orientation.length = m.n := by rw [er]; exact (rows_spec m.n _ hr).1
      have row : (fieldRows F m)[i]? = some (r • F (paramSet m i) (r⁻¹ • (x - p))) := by
        simp [fieldRows, hi, gx, gp, gr]
      refine ⟨x, p, r, hx, hpp, hrr, ?_, ?_⟩
      · rw [row]; simp [Level2.level1, Level2.clampGet]
      · rw [row]
        have mi : min i (m.n - 1) = i := by omega
        simp [Level2.level1, Level2.clampGet, lp, lr, mi, gp, gr]

/-- the source-frame observers handed to the field function are `r_i⁻¹ • (x_i − p_i)` of the picked values -/
theorem local_observers_rowwise (table : List (String × Nat)) (c : Call G V α) (m : Marshalled G V α)
    (hm : marshal table c = .ok m) (i : Nat) (hi : i < m.n) :
    ∃ x p r, pick i c.observers = some x ∧ pick i c.position = some p ∧ pick i c.orientation = some r ∧
      (localObs m)[i]? = some (r⁻¹ • (x - p)) := by
  obtain ⟨ho, hp, hr⟩ := marshal_pose_lens hm
  obtain ⟨-, -, -, -, eo, ep, er⟩ := marshal_ok hm
  obtain ⟨x, hx⟩ := pick_isSome m.n i hi c.observers ho
  obtain ⟨p, hpp⟩ := pick_isSome m.n i hi c.position hp
  obtain ⟨r, hrr⟩ := pick_isSome m.n i hi c.orientation hr
  have gx : m.observers[i]? = some x := by rw [eo, (rows_spec m.n _ ho).2 i hi, hx]
  have gp : m.position[i]? = some p := by rw [ep, (rows_spec m.n _ hp).2 i hi, hpp]
  have gr : m.orientation[i]? = some r := by rw [er, (rows_spec m.n _ hr).2 i hi, hrr]
  exact ⟨x, p, r, hx, hpp, hrr, by simp [localObs, hi, gx, gp, gr]⟩
end

/-- which calls are rejected before any length is looked at, and with what: an unregistered class is
MagpylibBadUserInput; otherwise the FIRST keyword (in call order) that cannot be converted decides — `None`:
MagpylibBadUserInput, `[]` / a 0-d ndarray: a leaked IndexError, a list of equally long arrays of different shapes: a
leaked ValueError -/
theorem unregistered_class_rejected [Inv G] [SMul G V] [Sub V] [Zero V]
    (tables : List (String × List (String × Nat))) (cls : String)
    (F : List (String × Arr α) → V → V) (c : Call G V α) (h : tables.lookup cls = none) :
    call tables cls F c = .error .badUserInput := by
  simp [call, h]

end dictcall

/-! non-vacuity: a call on the driver's carrier (integer vectors, signed permutation matrices) with a stacked
`dimension` (2 rows), a single `polarization`, a length-1 position stack and two orientations: n = 2, the result has
two rows, and `marshalled_arg_row` / `dict_interface_is_level1_rowwise` apply to it -/
namespace DictExample
open MagpyVerif
abbrev Vec := V3 Int
abbrev Rot := M3 Int
def rz : Rot := ⟨⟨0, -1, 0⟩, ⟨1, 0, 0⟩, ⟨0, 0, 1⟩⟩
def exCall : Call Rot Vec Int :=
  { params := [("dimension", .arr ⟨[2, 3], [1, 2, 3, 4, 5, 6]⟩), ("polarization", .arr ⟨[3], [7, 8, 9]⟩),
               ("current", .num 5)],
    observers := .single ⟨1, 2, 3⟩, position := .stack [⟨1, 0, 0⟩], orientation := .stack [1, rz], squeeze := true }
/-- field function: first entry of every argument slice, added to the observer -/
def exF (ps : List (String × Arr Int)) (x : Vec) : Vec :=
  x + ⟨((ps.map fun p => p.2.data.headD 0).foldl (· + ·) 0), 0, 0⟩
def exTables : List (String × List (String × Nat)) := Gen.Ndim.table

example : (call exTables "Cuboid" exF exCall).toOption.map (fun o => (o.shape, o.data)) =
    some ([2], [⟨13, 2, 3⟩, ⟨0, 18, 3⟩]) := by decide
example : ((marshal [("dimension", 2), ("polarization", 2)] exCall).toOption.map
    fun m => (m.n, m.args.map fun a => match a.2 with | .arr x => x.shape | .ragged _ => [])) =
    some (2, [[2, 3], [2, 3], [2]]) := by decide
example : (match call exTables "NoSuchClass" exF exCall with | .error .badUserInput => true | _ => false) = true := by decide
example : (marshal [("dimension", 2)] { exCall with position := .stack [0, 0, 0] }).toOption.isNone = true := by decide
example : (match marshal (G := Rot) (V := Vec) (α := Int) [] { exCall with params := [("current", .emptyOrZeroDim)] } with
    | .error CallErr.indexError => true | _ => false) = true := by decide
end DictExample

/-! ### getBH_level2: which inputs are rejected; `output="dataframe"` -/
section level2
open MagpyVerif MagpyVerif.Level2
variable {G V : Type}

section
variable [Mul G] [Inv G] [One G] [SMul G V] [Add V] [Sub V] [Zero V] [BEq G]

/-- **error cases** (C07/C17): `getBH_level2` (ndarray output, any `sumup` / `squeeze`) fails exactly
when there are no sources, no observers, a top-level Collection that contains no source at any
depth, or — only without `pixel_agg` — two sensors with different pixel shapes; the failure is then
always `MagpylibBadUserInput`. Every other input yields an array. The same holds, with the same
condition, for `output="dataframe"`: both interfaces accept and reject the same inputs. -/
theorem error_cases (flipX : V → V) (vmin vmax : V → V → V) (entries : List (Entry G V))
    (sensors : List (Sens G V)) (sumup squeeze : Bool) (agg : Agg) (err : Err) :
    (getBH flipX vmin vmax entries sensors sumup squeeze agg = .error err ↔
      err = .badUserInput ∧
        (entries = [] ∨ sensors = [] ∨ (∃ e ∈ entries, e.leaves = []) ∨
          (agg = .none ∧ ∃ k ∈ sensors, ∃ k' ∈ sensors, k.pixShape ≠ k'.pixShape))) ∧
    (dataframe flipX vmin vmax entries sensors sumup agg = .error err ↔
      getBH flipX vmin vmax entries sensors sumup squeeze agg = .error err) := by
  constructor
  · exact getBH_error_iff flipX vmin vmax entries sensors sumup squeeze agg err
  · rw [getBH_error_iff, dataframe_error_iff]

/-- an entry has no leaves exactly if it is a collection all of whose children have none -/
theorem no_leaves_iff (e : Entry G V) :
    e.leaves = [] ↔ ∃ cs, e = .coll cs ∧ ∀ c ∈ cs, c.leaves = [] := by
  cases e with
  | leaf s => simp [Entry.leaves]
  | coll cs => simp [Entry.leaves]
end

section
variable [Group G] [AddCommGroup V] [DistribMulAction G V] [BEq G] [LawfulBEq G]

/-- **dataframe index order and values** (the `output == "dataframe"` branch, any `sumup` and
`pixel_agg`): the call succeeds exactly when the ndarray call does; the value columns are the data of
the ndarray result (`B.reshape(-1, 3)`) unchanged; the `itertools.product(src_ids, range(M), sens_ids,
range(P))` index has exactly as many rows as there are values (so the column assignment is
well-formed); and row number `((l·M + m)·K + k)·P + p` carries the index tuple `(source l, m, sensor
k, p)` — the same row-major order in which the array is flattened. With `sumup` and more than one
source the single source id is `"sumup (L)"`. -/
theorem dataframe_index_order (flipX : V → V) (vmin vmax : V → V → V) (entries : List (Entry G V))
    (sensors : List (Sens G V)) (sumup : Bool) (agg : Agg) (out : Out V)
    (hs : ∀ k ∈ sensors, k.WF)
    (hout : getBH flipX vmin vmax entries sensors sumup false agg = .ok out)
    (k0 : Sens G V) (hk0 : sensors.head? = some k0) :
    ∃ df, dataframe flipX vmin vmax entries sensors sumup agg = .ok df ∧
      df.values = out.data ∧ df.index.length = df.values.length ∧
      ∀ l m k p, l < (if sumup then 1 else entries.length) →
        m < pathLen (entries.flatMap Entry.leaves) sensors → k < sensors.length →
        p < (if agg = .none then pixNum k0 else 1) →
        df.index[((l * pathLen (entries.flatMap Entry.leaves) sensors + m) * sensors.length + k) *
            (if agg = .none then pixNum k0 else 1) + p]? =
          some (if sumup = true ∧ entries.length > 1 then .sumup entries.length else .src l, m, k, p) := by
  have hok := not_bad_of_getBH_ok hout
  have hE : entries ≠ [] := fun h => hok (Or.inl h)
  have hr := coreB_rect flipX vmin vmax entries sensors sumup agg hok hs k0 hk0
  rw [getBH_ok flipX vmin vmax entries sensors sumup false agg hok] at hout
  cases hout
  refine ⟨_, dataframe_ok flipX vmin vmax entries sensors sumup agg hok, rfl, ?_, ?_⟩
  · simp only []
    rw [product4_length, flat4_length hr, srcIds_length entries sumup hE, headD_pixShape sensors k0 hk0]
    simp only [List.length_range]
    rfl
  · intro l m k p hl hm hk hp
    simp only []
    rw [headD_pixShape sensors k0 hk0]
    have := product4_getElem? (srcIds entries sumup)
      (List.range (pathLen (entries.flatMap Entry.leaves) sensors)) (List.range sensors.length)
      (List.range (if agg = .none then pixNum k0 else 1)) l m k p _ m k p
      (srcIds_getElem? entries sumup l hl hE) (List.getElem?_range hm) (List.getElem?_range hk)
      (List.getElem?_range hp)
    simp only [List.length_range] at this
    exact this

/-- **dataframe_order** (no sumup, no pixel_agg): row number `((i·M + m)·K + n)·P + j` of the
dataframe has the index columns (source `i`, path `m`, sensor `n`, pixel `j`) and its value columns
hold the tensor element `[i][m][n][j]`, i.e. the field of entry `i` (sum over its leaves, each at its
own pose `m`) at pixel `j` of sensor `n` at the sensor's pose `m`, in the sensor's frame. -/
theorem dataframe_order (flipX : V → V) (vmin vmax : V → V → V) (entries : List (Entry G V))
    (sensors : List (Sens G V)) (df : DataFrame V) (hs : ∀ k ∈ sensors, k.WF)
    (hdf : dataframe flipX vmin vmax entries sensors false .none = .ok df)
    (i m n j : Nat) (e : Entry G V) (k : Sens G V) (r : G) (p px : V)
    (hi : entries[i]? = some e) (hm : m < pathLen (entries.flatMap Entry.leaves) sensors)
    (hn : sensors[n]? = some k) (hr : clampGet k.ori m = some r) (hp : clampGet k.pos m = some p)
    (hj : k.pixels[j]? = some px) :
    (dataframeRows df)[((i * pathLen (entries.flatMap Entry.leaves) sensors + m) * sensors.length + n) *
        pixNum k + j]? =
      some ((.src i, m, n, j),
        (let v := r⁻¹ • ((e.leaves.map fun s => level1 s m (r • px + p)).sum)
         if k.left then flipX v else v)) := by
  have hok : ¬ BadInput entries sensors .none := by
    intro hbad
    rw [(dataframe_error_iff flipX vmin vmax entries sensors false .none .badUserInput).mpr
      ⟨rfl, hbad⟩] at hdf
    cases hdf
  have hne : sensors ≠ [] := fun hs => hok (Or.inr (Or.inl hs))
  obtain ⟨k0, ks, hks⟩ := List.exists_cons_of_ne_nil hne
  have hk0 : sensors.head? = some k0 := by rw [hks]; rfl
  have hkmem : k ∈ sensors := List.mem_of_getElem? hn
  have hk0mem : k0 ∈ sensors := by rw [hks]; simp
  have hP : pixNum k = pixNum k0 := by
    apply pixNum_congr
    by_contra hne
    exact hok (Or.inr (Or.inr (Or.inr ⟨rfl, k, hkmem, k0, hk0mem, hne⟩)))
  have he : ∀ e ∈ entries, e.leaves ≠ [] := fun e he hl => hok (Or.inr (Or.inr (Or.inl ⟨e, he, hl⟩)))
  have hjlt : j < pixNum k0 := by
    rw [← hP, ← (hs k hkmem).2.2]; exact (List.getElem?_eq_some_iff.mp hj).1
  have hnlt : n < sensors.length := (List.getElem?_eq_some_iff.mp hn).1
  have hilt : i < entries.length := (List.getElem?_eq_some_iff.mp hi).1
  obtain ⟨df', hdf', hval, _, hidx⟩ := dataframe_index_order flipX vmin vmax entries sensors false .none
    _ hs (getBH_ok flipX vmin vmax entries sensors false false .none hok) k0 hk0
  rw [hdf] at hdf'
  cases hdf'
  have h1 := hidx i m n j (by simpa using hilt) hm hnlt (by simpa using hjlt)
  simp only [if_true, Bool.false_eq_true, false_and, if_false] at h1
  have hr4 := coreB_rect flipX vmin vmax entries sensors false .none hok hs k0 hk0
  simp only [if_true, Bool.false_eq_true, if_false] at hr4
  have h2 : df.values[((i * pathLen (entries.flatMap Entry.leaves) sensors + m) * sensors.length + n) *
        pixNum k0 + j]? = some (let v := r⁻¹ • ((e.leaves.map fun s => level1 s m (r • px + p)).sum)
         if k.left then flipX v else v) := by
    rw [hval]
    simp only []
    rw [flat4_getElem? hr4 i m n j hm hnlt hjlt]
    simp only [coreB, Bool.false_eq_true, if_false, if_true, id]
    rw [tensor_eq_spec flipX entries sensors he hs]
    exact specTensor_elem flipX entries sensors i m n j e k r p px hi hm hn hr hp hj
  rw [hP]
  unfold dataframeRows
  exact List.getElem?_zip_eq_some.mpr ⟨h1, h2⟩
end
end level2

-- non-vacuity: `itertools.product` order on a 2 × 1 × 2 × 2 index (row 5 = (1, 0, 0, 1)); the scene
-- `Level2.Example` is accepted by both output branches; the four rejected kinds of input
example : Level2.product4 [10, 11] [0] [20, 21] [0, 1] =
    [(10, 0, 20, 0), (10, 0, 20, 1), (10, 0, 21, 0), (10, 0, 21, 1),
     (11, 0, 20, 0), (11, 0, 20, 1), (11, 0, 21, 0), (11, 0, 21, 1)] := by decide
example : (Level2.product4 [10, 11] [0] [20, 21] [0, 1])[((1 * 1 + 0) * 2 + 0) * 2 + 1]? = some (11, 0, 20, 1) := by
  decide
open MagpyVerif.Level2 MagpyVerif.Level2.Example in
example : (∃ df, dataframe exFlip exMin exMax exEntries exSensors false .none = .ok df) ∧
    (∃ out, getBH exFlip exMin exMax exEntries exSensors false false .none = .ok out) :=
  ⟨⟨_, dataframe_ok _ _ _ _ _ _ _ (exNotBad _)⟩, ⟨_, getBH_ok _ _ _ _ _ _ _ _ (exNotBad _)⟩⟩
-- … and the index hypotheses of `dataframe_order` are met there by (entry 1 = the collection, path
-- index 1, sensor 0, pixel 1), which is row ((1·2 + 1)·2 + 0)·2 + 1 = 13 of the 16 rows
open MagpyVerif.Level2 MagpyVerif.Level2.Example in
example : (∃ e, exEntries[1]? = some e) ∧ 1 < pathLen (exEntries.flatMap Entry.leaves) exSensors ∧
    (∃ k, exSensors[0]? = some k ∧ clampGet k.ori 1 = some 1 ∧ clampGet k.pos 1 = some ⟨5, 0, 0⟩ ∧
      k.pixels[1]? = some ⟨1, 0, 0⟩ ∧ k.ori ≠ [] ∧ k.pos.length = k.ori.length ∧
      k.pixels.length = pixNum k) := by
  refine ⟨⟨_, rfl⟩, by rw [exPathLen]; decide, ⟨_, rfl, ?_⟩⟩
  simp [clampGet, pixNum]
open MagpyVerif.Level2 MagpyVerif.Level2.Example in
example :
    getBH exFlip exMin exMax [] exSensors false true .none = .error .badUserInput ∧
    getBH exFlip exMin exMax exEntries [] false true .sum = .error .badUserInput ∧
    getBH exFlip exMin exMax (exEntries ++ [.coll [.coll []]]) exSensors true false .sum =
      .error .badUserInput ∧
    getBH exFlip exMin exMax exEntries exSensorsMixed false false .none = .error .badUserInput := by
  refine ⟨(error_cases _ _ _ _ _ _ _ _ _).1.mpr ⟨rfl, Or.inl rfl⟩,
    (error_cases _ _ _ _ _ _ _ _ _).1.mpr ⟨rfl, Or.inr (Or.inl rfl)⟩,
    (error_cases _ _ _ _ _ _ _ _ _).1.mpr ⟨rfl, Or.inr (Or.inr (Or.inl ⟨.coll [.coll []], by simp, by simp [Entry.leaves]⟩))⟩,
    (error_cases _ _ _ _ _ _ _ _ _).1.mpr ⟨rfl, exBadMixed⟩⟩

/-! ### the input formatting in front of getBH_level2 and the method wrappers (Model/Iface.lean) -/
section iface
open MagpyVerif MagpyVerif.Level2 MagpyVerif.Iface
variable {G V : Type}

section
variable [Mul G] [Inv G] [One G] [SMul G V] [Add V] [Sub V] [Zero V] [BEq G]

/-- **method wrappers agree with the top-level function.** `src.getX(*obs, squeeze, pixel_agg, output)` is
`getX([src], obs…, sumup=False, …)`; `sens.getX(*srcs, sumup, …)` is `getX(srcs…, [sens], …)`; and
`coll.getX(*inputs, …)` is, by the three branches of `_validate_getBH_inputs`: with sources and sensors
`getX(coll, coll)` (any positional input is rejected with MagpylibBadUserInput); without sources
`getX(inputs, coll)` with the inputs as a tuple (NOT unpacked); without sensors `getX(coll, inputs…)`. Star
arguments are unpacked by `format_star_input` (a single argument stands for itself); `squeeze`, `pixel_agg`,
`output` (and `sumup` where the method has it) are passed through unchanged, `sumup=False` otherwise. Which
branch is taken depends only on whether `sources_all` / `sensors_all` (any depth) are empty. -/
theorem method_wrappers_agree (flipX : V → V) (vmin vmax : V → V → V) :
    (∀ (i : Nat) (s : Src G V) (obs : List (Inp G V)) (squeeze : Bool) (agg : AggIn) (outOk : Bool),
      srcMethod flipX vmin vmax i s obs squeeze agg outOk =
        getBtop flipX vmin vmax (.list [.obj (.src i s)]) (starInput obs)
          { sumup := false, squeeze := squeeze, agg := agg, outOk := outOk }) ∧
    (∀ (i : Nat) (k : Sens G V) (srcs : List (Inp G V)) (f : Flags),
      sensMethod flipX vmin vmax i k srcs f =
        getBtop flipX vmin vmax (starInput srcs) (.list [.obj (.sens i k)]) f) ∧
    (∀ (i : Nat) (cs : List (Iface.Obj G V)) (inputs : List (Inp G V)) (squeeze : Bool) (agg : AggIn) (outOk : Bool),
      let c : Inp G V := .obj (.coll i cs)
      let f : Flags := { sumup := false, squeeze := squeeze, agg := agg, outOk := outOk }
      collMethod flipX vmin vmax i cs inputs squeeze agg outOk =
        match collBranch i cs with
        | .both => if inputs = [] then getBtop flipX vmin vmax c c f else .error .badUserInput
        | .noSources => getBtop flipX vmin vmax (.list inputs) c f
        | .noSensors => getBtop flipX vmin vmax c (starInput inputs) f) ∧
    (∀ (i : Nat) (cs : List (Iface.Obj G V)),
      (collBranch i cs = .both ↔ (Obj.coll i cs).sourcesAll ≠ [] ∧ (Obj.coll i cs).sensorsAll ≠ []) ∧
      (collBranch i cs = .noSources ↔ (Obj.coll i cs).sourcesAll = []) ∧
      (collBranch i cs = .noSensors ↔ (Obj.coll i cs).sourcesAll ≠ [] ∧ (Obj.coll i cs).sensorsAll = [])) := by
  refine ⟨fun _ _ _ _ _ _ => rfl, fun _ _ _ _ => rfl, ?_, ?_⟩
  · intro i cs inputs squeeze agg outOk
    simp only [collMethod, validateInputs]
    cases collBranch i cs with
    | both => cases inputs <;> simp
    | noSources => rfl
    | noSensors =>
      match inputs with
      | [] => rfl
      | [x] => rfl
      | x :: y :: zs => rfl
  · intro i cs
    unfold collBranch
    by_cases hS : (Obj.coll i cs).sourcesAll = [] <;> by_cases hK : (Obj.coll i cs).sensorsAll = [] <;>
      simp [hS, hK]

/-- **the method forms of one configuration coincide**: `src.getX(sens) = sens.getX(src)`; for a Collection without
sensors `coll.getX(sens) = sens.getX(coll)`; for a Collection without sources `coll.getX(src) = src.getX(coll)` — each
with the same `squeeze` / `pixel_agg` / `output` (and `sumup=False`, which the source and collection methods fix). -/
theorem method_forms_coincide (flipX : V → V) (vmin vmax : V → V → V) (i j : Nat) (s : Src G V) (k : Sens G V)
    (cs : List (Iface.Obj G V)) (squeeze : Bool) (agg : AggIn) (outOk : Bool) :
    let f : Flags := { sumup := false, squeeze := squeeze, agg := agg, outOk := outOk }
    srcMethod flipX vmin vmax i s [.obj (.sens j k)] squeeze agg outOk =
      sensMethod flipX vmin vmax j k [.obj (.src i s)] f ∧
    (collBranch i cs = .noSensors →
      collMethod flipX vmin vmax i cs [.obj (.sens j k)] squeeze agg outOk =
        sensMethod flipX vmin vmax j k [.obj (.coll i cs)] f) ∧
    (collBranch i cs = .noSources →
      collMethod flipX vmin vmax i cs [.obj (.src j s)] squeeze agg outOk =
        srcMethod flipX vmin vmax j s [.obj (.coll i cs)] squeeze agg outOk) := by
  refine ⟨rfl, ?_, ?_⟩
  · intro hb
    rw [(method_wrappers_agree flipX vmin vmax).2.2.1 i cs _ squeeze agg outOk, hb]
    rfl
  · intro hb
    rw [(method_wrappers_agree flipX vmin vmax).2.2.1 i cs _ squeeze agg outOk, hb]
    rfl

/-- **observers_as_positions** (C04): a bare array of positions of shape `sh ++ [3]` as observers gives the same
result — shape and numbers, under every flag combination, errors included — as a Sensor at the origin with unit
orientation, right-handed, holding that array as its pixel (`pix_shapes` entry `(1, 3)` for a bare `(3,)`). -/
theorem observers_as_positions (flipX : V → V) (vmin vmax : V → V → V) (srcs : Inp G V) (sh : List Nat)
    (d : List V) (hd : d ≠ []) (i : Nat) (f : Flags) :
    getBtop flipX vmin vmax srcs (.pos sh d) f =
      getBtop flipX vmin vmax srcs (.obj (.sens i (freshSensor sh d))) f ∧
    (freshSensor sh d : Sens G V) =
      { pos := [0], ori := [1], pixels := d, pixShape := if sh = [] then [1] else sh, left := false } := by
  constructor
  · unfold getBtop
    cases formatSrc srcs with
    | error e => rfl
    | ok sf =>
      cases checkPixelAgg f.agg with
      | error e => rfl
      | ok agg => simp only [formatObs_pos sh d agg hd, formatObs_sensor, List.map_cons, List.map_nil]
  · cases sh <;> rfl

/-- shape bookkeeping for position observers: with `squeeze=False` and no `pixel_agg` the result has shape
`(number of top-level sources (1 with sumup), longest path, 1) ++ sh` (`(…, 1, 1)` for a bare `(3,)`) -/
theorem positions_output_shape (flipX : V → V) (vmin vmax : V → V → V) (srcs : Inp G V) (sh : List Nat)
    (d : List V) (sumup : Bool) (out : Out V)
    (h : getBtop flipX vmin vmax srcs (.pos sh d)
      { sumup := sumup, squeeze := false, agg := .agg .none, outOk := true } = .ok out) :
    ∃ sf, formatSrc srcs = .ok sf ∧
      out.shape = [if sumup then 1 else sf.sources.length,
        pathLen (sf.srcList.map (·.2)) [(freshSensor sh d : Sens G V)], 1] ++ (if sh = [] then [1] else sh) := by
  unfold getBtop at h
  cases hs : formatSrc srcs with
  | error e => rw [hs] at h; cases h
  | ok sf =>
    rw [hs] at h
    refine ⟨sf, rfl, ?_⟩
    have hsf := (formatSrc_ok_iff srcs sf).mp hs
    by_cases hd : d = []
    · simp [checkPixelAgg, formatObs, sensorOfArray, hd] at h
    · simp only [checkPixelAgg, formatObs_pos sh d .none hd, List.map_cons, List.map_nil] at h
      cases hg : getBH flipX vmin vmax sf.entries [freshSensor sh d] sumup false Agg.none with
      | error e => rw [hg] at h; cases e <;> simp [liftErr] at h
      | ok o =>
        rw [hg] at h
        simp only [liftErr, if_true, Except.ok.injEq] at h
        subst h
        have hok := not_bad_of_getBH_ok hg
        rw [getBH_ok flipX vmin vmax _ _ sumup false .none hok] at hg
        injection hg with hg
        rw [← hg]
        have hlen : sf.entries.length = sf.sources.length := by
          apply toEntries_length_of_good
          intro o ho
          apply hsf.2.1
          rw [hsf.2.2.1]
          exact List.mem_map_of_mem ho
        have hleaves : sf.entries.flatMap Entry.leaves = sf.srcList.map (·.2) := by
          rw [hsf.2.2.2]; exact toEntries_leaves sf.sources
        simp only [shape0, Bool.false_eq_true, if_false, if_true, hlen, hleaves, List.map_cons, List.map_nil,
          List.headD_cons, freshSensor, List.isEmpty_iff, List.length_cons, List.length_nil, Nat.zero_add]
end

section
variable [Group G] [AddCommGroup V] [DistribMulAction G V] [BEq G] [LawfulBEq G]
/-- … and that sensor's pixels sit at the given positions at every path index, it counts as unrotated (no
back-rotation is applied) and it is right-handed: the numbers are the global field at the positions themselves -/
theorem position_pixels_are_the_positions (sh : List Nat) (d : List V) (m : Nat) :
    poso [(freshSensor sh d : Sens G V)] m = d ∧ unrotated (freshSensor sh d : Sens G V) = true ∧
      (freshSensor sh d : Sens G V).left = false := by
  refine ⟨?_, ?_, rfl⟩
  · simp [poso, freshSensor, clampGet]
  · simp [unrotated, freshSensor]
end

/-- **format_src_flatten_spec.** `format_src_inputs` (i) wraps a bare object into a one-element list; (ii) on success
returns exactly the given top-level entries, in order and without dropping repeats (`sources`), together with
`src_list` = the concatenation, in order, of each entry's `sources_all` — and the entries handed to the marshalling
model have exactly these leaves; (iii) fails — always with MagpylibBadUserInput — exactly when the list is empty or
some entry is not a source or a Collection holding a source at some depth (a Sensor, a nested list, a position
array, anything else, a Collection without sources); (iv) `sources_all` of a Collection is the depth-first
concatenation over its children, for every nesting depth. -/
theorem format_src_flatten_spec (inp : Inp G V) :
    (∀ sf, formatSrc inp = .ok sf →
      sf.sources.map Inp.obj = items inp ∧ sf.srcList = sf.sources.flatMap Obj.sourcesAll ∧
      sf.entries.length = sf.sources.length ∧ sf.entries.flatMap Entry.leaves = sf.srcList.map (·.2)) ∧
    ((∃ sf, formatSrc inp = .ok sf) ↔ items inp ≠ [] ∧ ∀ x ∈ items inp, GoodSrc x) ∧
    (∀ e, formatSrc inp = .error e → e = .badUserInput) ∧
    (∀ (i : Nat) (cs : List (Iface.Obj G V)), (Obj.coll i cs).sourcesAll = cs.flatMap Obj.sourcesAll) ∧
    (∀ (o : Iface.Obj G V) (e : Entry G V), o.toEntry? = some e → e.leaves = o.sourcesAll.map (·.2)) := by
  refine ⟨?_, ?_, formatSrc_error inp, sourcesAll_coll, toEntry?_leaves⟩
  · intro sf hs
    have hsf := (formatSrc_ok_iff inp sf).mp hs
    refine ⟨hsf.2.2.1.symm, hsf.2.2.2, ?_, ?_⟩
    · apply toEntries_length_of_good
      intro o ho
      apply hsf.2.1
      rw [hsf.2.2.1]
      exact List.mem_map_of_mem ho
    · rw [hsf.2.2.2]; exact toEntries_leaves sf.sources
  · constructor
    · rintro ⟨sf, hs⟩
      have hsf := (formatSrc_ok_iff inp sf).mp hs
      exact ⟨hsf.1, hsf.2.1⟩
    · rintro ⟨hne, hg⟩
      obtain ⟨os, hos⟩ : ∃ os : List (Iface.Obj G V), items inp = os.map Inp.obj := by
        generalize items inp = xs at hg
        induction xs with
        | nil => exact ⟨[], rfl⟩
        | cons x xs ih =>
          obtain ⟨os, hos⟩ := ih (fun y hy => hg y (List.mem_cons_of_mem _ hy))
          rcases hg x (by simp) with ⟨i, s, rfl⟩ | ⟨i, cs, rfl, _⟩
          · exact ⟨.src i s :: os, by simp [hos]⟩
          · exact ⟨.coll i cs :: os, by simp [hos]⟩
      exact ⟨⟨os, os.flatMap Obj.sourcesAll⟩, (formatSrc_ok_iff inp _).mpr ⟨hne, hg, hos, rfl⟩⟩

/-- **check_duplicates** keeps the first occurrence of every object, in order: the result has no repeats, the same
members, is a sublist of the input, and the warning is printed exactly when something was dropped. (Nothing on the
field-computation path calls it — see `duplicates_are_kept`.) -/
theorem check_duplicates_spec {α : Type} [DecidableEq α] (xs : List α) :
    (checkDuplicates xs).1.Nodup ∧ (∀ x, x ∈ (checkDuplicates xs).1 ↔ x ∈ xs) ∧
      (checkDuplicates xs).1.Sublist xs ∧ ((checkDuplicates xs).2 = true ↔ ¬ xs.Nodup) := by
  obtain ⟨h1, h2, t, h3, h4⟩ := foldl_dedupStep xs [] List.nodup_nil
  rw [List.nil_append] at h3
  have hfst : (checkDuplicates xs).1 = t := by rw [checkDuplicates_fst, h3]
  refine ⟨by rw [checkDuplicates_fst]; exact h1, fun x => by rw [checkDuplicates_fst, h2]; simp,
    by rw [hfst]; exact h4, ?_⟩
  have hsnd : (checkDuplicates xs).2 = ((checkDuplicates xs).1.length != xs.length) := rfl
  rw [hsnd, hfst]
  constructor
  · intro hne hnd
    have := foldl_dedupStep_of_nodup xs [] hnd (by simp)
    rw [h3, List.nil_append] at this
    simp [this] at hne
  · intro hnd
    simp only [bne_iff_ne, ne_eq]
    intro hlen
    apply hnd
    have := h4.eq_of_length hlen
    rw [← this, ← h3]; exact h1

/-- **duplicates_are_kept**: the same source listed twice stays listed twice — `format_src_inputs` returns both
in `sources` and in `src_list` (so the result has two equal rows); only the `set(src_list + sensors)` used for the
longest path and for tiling holds every object once, and the longest path over that set is the longest path over all
leaves and sensors (what the marshalling model uses). -/
theorem duplicates_are_kept (i : Nat) (s : Src G V) (sensors : List (OId × Sens G V)) :
    formatSrc (.list [.obj (.src i s), .obj (.src i s)]) =
      .ok { sources := [.src i s, .src i s], srcList := [(i, s), (i, s)] } ∧
    (∀ srcList : List (Nat × Src G V),
      (objList srcList sensors).Nodup ∧
      (∀ p, p ∈ objList srcList sensors ↔
        p ∈ (srcList.map fun q => (OId.user q.1, q.2.pos.length)) ++ (sensors.map fun q => (q.1, q.2.pos.length))) ∧
      maxPathLen srcList sensors = pathLen (srcList.map (·.2)) (sensors.map (·.2))) := by
  refine ⟨by simp [formatSrc_eq, items, checkSrcEntries, checkSrcEntry, Obj.sourcesAll], fun srcList => ?_⟩
  obtain ⟨h1, h2, _, _⟩ := check_duplicates_spec
    ((srcList.map fun q => (OId.user q.1, q.2.pos.length)) ++ (sensors.map fun q => (q.1, q.2.pos.length)))
  refine ⟨h1, h2, ?_⟩
  unfold maxPathLen pathLen
  apply foldl_max_congr
  intro n
  simp only [List.mem_map, List.mem_append]
  constructor
  · rintro ⟨p, hp, rfl⟩
    rcases List.mem_append.mp ((h2 p).mp hp) with h | h
    · obtain ⟨q, hq, rfl⟩ := List.mem_map.mp h
      exact Or.inl ⟨q.2, ⟨q, hq, rfl⟩, rfl⟩
    · obtain ⟨q, hq, rfl⟩ := List.mem_map.mp h
      exact Or.inr ⟨q.2, ⟨q, hq, rfl⟩, rfl⟩
  · rintro (⟨a, ⟨q, hq, rfl⟩, rfl⟩ | ⟨a, ⟨q, hq, rfl⟩, rfl⟩)
    · exact ⟨(OId.user q.1, q.2.pos.length), (h2 _).mpr (List.mem_append_left _ (List.mem_map_of_mem hq)), rfl⟩
    · exact ⟨(q.1, q.2.pos.length), (h2 _).mpr (List.mem_append_right _ (List.mem_map_of_mem hq)), rfl⟩

section
variable [One G] [Zero V]
/-- **a Collection as observers is the list of its sensors** (`sensors_all`, depth first); without any sensor it is
rejected; a bare Sensor is the one-element list. -/
theorem collection_observers_are_its_sensors (i : Nat) (cs : List (Iface.Obj G V)) (agg : Agg) :
    ((Obj.coll i cs).sensorsAll ≠ [] →
      formatObs (.obj (.coll i cs)) agg =
        formatObs (.list ((Obj.coll i cs).sensorsAll.map fun p => Inp.obj (.sens p.1 p.2))) agg) ∧
    ((Obj.coll i cs).sensorsAll = [] → formatObs (.obj (.coll i cs)) agg = .error .badUserInput) ∧
    (∀ (j : Nat) (k : Sens G V), formatObs (.obj (.sens j k)) agg = .ok [(.user j, k)]) := by
  refine ⟨formatObs_coll i cs agg, ?_, fun j k => formatObs_sensor j k agg⟩
  intro h
  simp [formatObs, asArray_list_obj_none, obsLoop, obsEntry, h]
end
end iface

-- non-vacuity on the world `Iface.Example` (sources s0 (path 1), s1 (path 2); sensors k0, k1 with pixel shape (2,);
-- collections cS (sources only, nested), cK (sensors only, nested), cB (both), cE (empty)):
-- all three `_validate_getBH_inputs` branches occur; the calls below succeed
open MagpyVerif.Iface MagpyVerif.Iface.Example MagpyVerif.Level2 MagpyVerif.Level2.Example in
example : collBranch 14 [.src 0 s0, .sens 2 k0] = .both ∧ collBranch 12 [.sens 2 k0, .coll 13 [.sens 3 k1]] = .noSources ∧
    collBranch 10 [.src 0 s0, .coll 11 [.src 1 s1]] = .noSensors ∧ collBranch (G := R) (V := W) 15 [.coll 16 []] = .noSources := by
  refine ⟨?_, ?_, ?_, ?_⟩ <;> simp [collBranch, Obj.sourcesAll, Obj.sensorsAll]
-- src.getB(k0, k1) and cK.getB(s0, s1, pixel_agg="sum") return arrays of shape (1, 2, 2, 2) resp. (2, 2, 2, 1); cB.getB() with
-- squeeze returns shape (2,)
open MagpyVerif.Iface MagpyVerif.Iface.Example MagpyVerif.Level2 MagpyVerif.Level2.Example in
example : ∃ out, srcMethod exFlip exMin exMax 1 s1 [.obj (.sens 2 k0), .obj (.sens 3 k1)] false (.agg .none) true = .ok out ∧
    out.shape = [1, 2, 2, 2] := by
  refine ⟨_, getBtop_ok exFlip exMin exMax _ _ _ ⟨[.src 1 s1], [(1, s1)]⟩ .none [(.user 2, k0), (.user 3, k1)] ?_ rfl ?_ ?_, ?_⟩
  · simp [formatSrc_eq, items, checkSrcEntries, checkSrcEntry, Obj.sourcesAll]
  · simp [starInput, formatObs, Inp.asArray, Inp.asArrays, obsLoop, obsEntry, allSame, k0, k1]
  · simp [BadInput, SrcFmt.entries, Obj.toEntries, Obj.toEntry?, Entry.leaves, k0, k1]
  · simp [shape0, pathLen, SrcFmt.entries, Obj.toEntries, Obj.toEntry?, Entry.leaves, s1, k0, k1]
open MagpyVerif.Iface MagpyVerif.Iface.Example MagpyVerif.Level2 MagpyVerif.Level2.Example in
example : ∃ out, collMethod exFlip exMin exMax 12 [.sens 2 k0, .coll 13 [.sens 3 k1]] [.obj (.src 0 s0), .obj (.src 1 s1)]
      false (.agg .sum) true = .ok out ∧ out.shape = [2, 2, 2, 1] := by
  have hb : collBranch 12 [.sens 2 k0, .coll 13 [.sens 3 k1]] = .noSources := by
    simp [collBranch, Obj.sourcesAll, Obj.sensorsAll]
  rw [((method_wrappers_agree exFlip exMin exMax).2.2.1 12 _ _ false (.agg .sum) true), hb]
  refine ⟨_, getBtop_ok exFlip exMin exMax _ _ _ ⟨[.src 0 s0, .src 1 s1], [(0, s0), (1, s1)]⟩ .sum
    [(.user 2, k0), (.user 3, k1)] ?_ rfl ?_ ?_, ?_⟩
  · simp [formatSrc_eq, items, checkSrcEntries, checkSrcEntry, Obj.sourcesAll]
  · simp [formatObs, Inp.asArray, Inp.asArrays, obsLoop, obsEntry, Obj.sensorsAll]
  · simp [BadInput, SrcFmt.entries, Obj.toEntries, Obj.toEntry?, Entry.leaves]
  · simp [shape0, pathLen, SrcFmt.entries, Obj.toEntries, Obj.toEntry?, Entry.leaves, s0, s1, k0, k1]
open MagpyVerif.Iface MagpyVerif.Iface.Example MagpyVerif.Level2 MagpyVerif.Level2.Example in
example : ∃ out, collMethod exFlip exMin exMax 14 [.src 0 s0, .sens 2 k0] [] true (.agg .none) true = .ok out ∧
    out.shape = [2] := by
  have hb : collBranch 14 [.src 0 s0, .sens 2 k0] = .both := by
    simp [collBranch, Obj.sourcesAll, Obj.sensorsAll]
  rw [((method_wrappers_agree exFlip exMin exMax).2.2.1 14 _ _ true (.agg .none) true), hb]
  dsimp only
  rw [if_pos rfl]
  refine ⟨_, getBtop_ok exFlip exMin exMax _ _ _ ⟨[.coll 14 [.src 0 s0, .sens 2 k0]], [(0, s0)]⟩ .none
    [(.user 2, k0)] ?_ rfl ?_ ?_, ?_⟩
  · simp [formatSrc_eq, items, checkSrcEntries, checkSrcEntry, Obj.sourcesAll]
  · simp [formatObs, Inp.asArray, Inp.asArrays, obsLoop, obsEntry, Obj.sensorsAll, allSame]
  · simp [BadInput, SrcFmt.entries, Obj.toEntries, Obj.toEntry?, Entry.leaves]
  · simp [shape0, pathLen, SrcFmt.entries, Obj.toEntries, Obj.toEntry?, Entry.leaves, s0, k0]
-- malformed calls and their error kinds: no sources, a sensor as source, an empty / a nested collection without sources, a
-- nested list, a sources-only collection as observer, mixed pixel shapes (accepted only with pixel_agg), unknown pixel_agg
-- (AttributeError, raised before the observers are looked at), inputs to a collection holding both
open MagpyVerif.Iface MagpyVerif.Iface.Example MagpyVerif.Level2 MagpyVerif.Level2.Example in
example :
    errOf (getBtop exFlip exMin exMax (.list []) (.obj (.sens 2 k0)) flags) = some .badUserInput ∧
    errOf (formatSrc (.obj (.sens 2 k0) : Inp R W)) = some .badUserInput ∧
    errOf (formatSrc (.obj cE)) = some .badUserInput ∧
    errOf (formatSrc (.list [.obj (.src 0 s0), .list [.obj (.src 1 s1)]])) = some .badUserInput ∧
    errOf (formatObs (.obj cS) .none) = some .badUserInput ∧
    errOf (formatObs (.list [.obj (.sens 2 k0), .pos [] [(⟨1, 2, 3⟩ : W)]]) .none) = some .badUserInput ∧
    errOf (formatObs (.list [.obj (.sens 2 k0), .pos [] [(⟨1, 2, 3⟩ : W)]]) .sum) = none ∧
    errOf (getBtop exFlip exMin exMax (.obj cS) (.list []) { flags with agg := .bad }) = some .attributeError ∧
    errOf (collMethod exFlip exMin exMax 14 [.src 0 s0, .sens 2 k0] [.obj (.sens 3 k1)] true (.agg .none) true)
      = some .badUserInput := by
  refine ⟨?_, ?_, ?_, ?_, ?_, ?_, ?_, ?_, ?_⟩
  · simp [getBtop, formatSrc_eq, items, errOf]
  · simp [formatSrc_eq, items, checkSrcEntries, checkSrcEntry, errOf]
  · simp [formatSrc_eq, items, checkSrcEntries, checkSrcEntry, Obj.sourcesAll, cE, errOf]
  · simp [formatSrc_eq, items, checkSrcEntries, checkSrcEntry, errOf]
  · simp [formatObs, Inp.asArray, Inp.asArrays, obsLoop, obsEntry, Obj.sensorsAll, cS, errOf]
  · simp [formatObs, Inp.asArray, Inp.asArrays, obsLoop, obsEntry, sensorOfArray, freshSensor, allSame, k0, errOf]
  · simp [formatObs, Inp.asArray, Inp.asArrays, obsLoop, obsEntry, sensorOfArray, errOf]
  · simp [getBtop, formatSrc_eq, items, checkSrcEntries, checkSrcEntry, Obj.sourcesAll, cS, checkPixelAgg, errOf]
  · simp [collMethod, validateInputs, collBranch, Obj.sourcesAll, Obj.sensorsAll, errOf]
-- a list of two position arrays of equal shape is ONE numeric array for numpy (one sensor, pixel shape (2, 2)) while two
-- of different shapes are two sensors; `check_duplicates` on [3, 1, 3, 2, 1]
open MagpyVerif.Iface MagpyVerif.Iface.Example in
example :
    ((formatObs (G := R) (.list [.pos [2] [(⟨1, 0, 0⟩ : W), ⟨2, 0, 0⟩], .pos [2] [⟨3, 0, 0⟩, ⟨4, 0, 0⟩]]) .sum).toOption.map
      fun ks => ks.map (·.2.pixShape)) = some [[2, 2]] ∧
    ((formatObs (G := R) (.list [.pos [2] [(⟨1, 0, 0⟩ : W), ⟨2, 0, 0⟩], .pos [] [⟨3, 0, 0⟩]]) .sum).toOption.map
      fun ks => ks.map (·.2.pixShape)) = some [[2], [1]] ∧
    checkDuplicates [3, 1, 3, 2, 1] = ([3, 1, 2], true) ∧ checkDuplicates [3, 1, 2] = ([3, 1, 2], false) := by
  refine ⟨?_, ?_, by decide, by decide⟩
  · simp [formatObs, Inp.asArray, Inp.asArrays, sensorOfArray, freshSensor, Except.toOption]
  · simp [formatObs, Inp.asArray, Inp.asArrays, obsLoop, obsEntry, sensorOfArray, freshSensor, Except.toOption]


/-! ### on the carrier the driver computes with (AUDIT X1)

The driver families `level2`, `iface` and `dict` evaluate the models of this file at `M3 Int` / `V3 Int` (Model/Basic.lean,
`⁻¹` = transpose — not a group).  Most theorems above are stated with the bare operation classes and apply to that
carrier *verbatim*, for arbitrary integer matrices: `error_cases`, `method_wrappers_agree`, `method_forms_coincide`,
`observers_as_positions`, `positions_output_shape`, `format_src_flatten_spec`, `collection_observers_are_its_sensors`,
`marshalled_arg_row`, `dict_interface_is_level1_rowwise`, `local_observers_rowwise` (instances recorded below).  Three are
over an abstract `Group G`: `dataframe_index_order`, `dataframe_order`, `position_pixels_are_the_positions`; they are
transferred here through Lemmas/OctaCarrier.lean / Lemmas/OctaIface.lean (`Oct` = the group of octahedral rotation
matrices; every interface function is natural in the inclusion `Oct → M3 Int`), under the decidable hypothesis that the
rotation matrices of the input are octahedral — the only ones the streams send.  In addition the whole interface
(`getBtop`, the three method forms, `getBH_dict_level2`) evaluated by the driver on octahedral data IS the same model
evaluated at the group `Oct`, so everything C03–C06 prove about `level1` / `tensor` at a group applies behind it. -/
section driverCarrier
open MagpyVerif MagpyVerif.Level2 MagpyVerif.Iface

/-- **`dataframe_index_order` on the driver's carrier** -/
theorem dataframe_index_order_on_driver_carrier (flipX : V3 Int → V3 Int) (vmin vmax : V3 Int → V3 Int → V3 Int)
    (entries : List EntryZ) (sensors : List SensZ) (sumup : Bool) (agg : Agg) (out : Out (V3 Int))
    (heo : ∀ e ∈ entries, e.RotsOct) (hso : ∀ k ∈ sensors, k.RotsOct) (hs : ∀ k ∈ sensors, k.WF)
    (hout : getBH flipX vmin vmax entries sensors sumup false agg = .ok out)
    (k0 : SensZ) (hk0 : sensors.head? = some k0) :
    ∃ df, dataframe flipX vmin vmax entries sensors sumup agg = .ok df ∧
      df.values = out.data ∧ df.index.length = df.values.length ∧
      ∀ l m k p, l < (if sumup then 1 else entries.length) →
        m < pathLen (entries.flatMap Entry.leaves) sensors → k < sensors.length →
        p < (if agg = .none then pixNum k0 else 1) →
        df.index[((l * pathLen (entries.flatMap Entry.leaves) sensors + m) * sensors.length + k) *
            (if agg = .none then pixNum k0 else 1) + p]? =
          some (if sumup = true ∧ entries.length > 1 then .sumup entries.length else .src l, m, k, p) := by
  obtain ⟨es, rfl⟩ := exists_oct_entries entries heo
  obtain ⟨ks, rfl⟩ := exists_oct_sensors sensors hso
  rw [List.head?_map] at hk0
  cases hk : ks.head? with
  | none => rw [hk] at hk0; cases hk0
  | some k0' =>
    rw [hk] at hk0
    simp only [Option.map_some, Option.some.injEq] at hk0
    subst hk0
    rw [getBH_at_Oct_eq_at_M3Int] at hout
    have hs' : ∀ k ∈ ks, k.WF := fun k h => (Sens.mapG_WF Oct.toM3 k).mp (hs _ (List.mem_map_of_mem h))
    have := dataframe_index_order flipX vmin vmax es ks sumup agg out hs' hout k0' hk
    simpa only [dataframe_at_Oct_eq_at_M3Int, flatMap_leaves_mapG, pathLen_mapG, List.length_map, pixNum_mapG]
      using this

/-- **`dataframe_order` on the driver's carrier**: row number `((i·M + m)·K + n)·P + j` of the dataframe the driver
builds carries the index `(source i, m, sensor n, pixel j)` and the value: sum over the leaves of entry `i` of `level1`
at pixel `j` of sensor `n`, taken into the sensor frame — all with the integer matrix operations (`r⁻¹` = transpose) -/
theorem dataframe_order_on_driver_carrier (flipX : V3 Int → V3 Int) (vmin vmax : V3 Int → V3 Int → V3 Int)
    (entries : List EntryZ) (sensors : List SensZ) (df : DataFrame (V3 Int))
    (heo : ∀ e ∈ entries, e.RotsOct) (hso : ∀ k ∈ sensors, k.RotsOct) (hs : ∀ k ∈ sensors, k.WF)
    (hdf : dataframe flipX vmin vmax entries sensors false .none = .ok df)
    (i m n j : Nat) (e : EntryZ) (k : SensZ) (r : M3 Int) (p px : V3 Int)
    (hi : entries[i]? = some e) (hm : m < pathLen (entries.flatMap Entry.leaves) sensors)
    (hn : sensors[n]? = some k) (hr : clampGet k.ori m = some r) (hp : clampGet k.pos m = some p)
    (hj : k.pixels[j]? = some px) :
    (dataframeRows df)[((i * pathLen (entries.flatMap Entry.leaves) sensors + m) * sensors.length + n) *
        pixNum k + j]? =
      some ((.src i, m, n, j),
        (let v := r⁻¹ • ((e.leaves.map fun s => level1 s m (r • px + p)).sum)
         if k.left then flipX v else v)) := by
  obtain ⟨es, rfl⟩ := exists_oct_entries entries heo
  obtain ⟨ks, rfl⟩ := exists_oct_sensors sensors hso
  rw [List.getElem?_map] at hi hn
  cases hi' : es[i]? with
  | none => rw [hi'] at hi; cases hi
  | some e' =>
  cases hn' : ks[n]? with
  | none => rw [hn'] at hn; cases hn
  | some k' =>
  rw [hi'] at hi
  rw [hn'] at hn
  simp only [Option.map_some, Option.some.injEq] at hi hn
  subst hi
  subst hn
  have hr2 : (clampGet k'.ori m).map Oct.toM3 = some r := by rw [← clampGet_map]; exact hr
  cases hr' : clampGet k'.ori m with
  | none => rw [hr'] at hr2; cases hr2
  | some r' =>
  rw [hr'] at hr2
  simp only [Option.map_some, Option.some.injEq] at hr2
  subst hr2
  rw [dataframe_at_Oct_eq_at_M3Int] at hdf
  have hs' : ∀ k ∈ ks, k.WF := fun k h => (Sens.mapG_WF Oct.toM3 k).mp (hs _ (List.mem_map_of_mem h))
  rw [flatMap_leaves_mapG, pathLen_mapG] at hm
  have h := dataframe_order flipX vmin vmax es ks df hs' hdf i m n j e' k' r' p px hi' hm hn' hr' hp hj
  have hval : ((Entry.toM3 e').leaves.map fun s => level1 s m (r'.toM3 • px + p)).sum =
      (e'.leaves.map fun s => level1 s m (r' • px + p)).sum := by
    rw [Entry.mapG_leaves, List.map_map]
    congr 1
    apply List.map_congr_left
    intro s _
    exact level1_at_Oct_eq_at_M3Int s m (r' • px + p)
  simp only [flatMap_leaves_mapG, pathLen_mapG, List.length_map, pixNum_mapG, hval]
  exact h

/-- **`position_pixels_are_the_positions` on the driver's carrier**: the Sensor the driver creates for a position
array has its pixels at the given positions at every path index (`1 • px + 0` with the integer unit matrix), counts as
unrotated under the derived `==`, and is right-handed -/
theorem position_pixels_are_the_positions_on_driver_carrier (sh : List Nat) (d : List (V3 Int)) (m : Nat) :
    poso [(freshSensor sh d : SensZ)] m = d ∧ unrotated (freshSensor sh d : SensZ) = true ∧
      (freshSensor sh d : SensZ).left = false := by
  obtain ⟨h1, h2, _⟩ := position_pixels_are_the_positions (G := Oct) sh d m
  refine ⟨?_, ?_, rfl⟩
  · rw [← freshSensor_toM3]
    exact (poso_at_Oct_eq_at_M3Int [freshSensor sh d] m).trans h1
  · rw [← freshSensor_toM3]
    exact (unrotated_mapG octHom _).trans h2

/-- **the top-level call and the three method forms on the driver's carrier are the group model's**: for call inputs
whose rotation matrices (orientation paths of all sources and sensors mentioned, any depth) are octahedral, what the
driver family `iface` computes with the integer matrix operations is `getBtop` / `src.getX` / `sens.getX` /
`coll.getX` evaluated at the group `Oct` on the corresponding inputs — results (shape, data, error kind) are equal -/
theorem interface_on_driver_carrier_is_group_model (flipX : V3 Int → V3 Int) (vmin vmax : V3 Int → V3 Int → V3 Int) :
    (∀ (s o : InpZ) (f : Flags), s.RotsOct → o.RotsOct →
      ∃ s' o' : Inp Oct (V3 Int), s'.toM3 = s ∧ o'.toM3 = o ∧
        getBtop flipX vmin vmax s o f = getBtop flipX vmin vmax s' o' f) ∧
    (∀ (i : Nat) (self : SrcZ) (obs : List InpZ) (squeeze : Bool) (agg : AggIn) (outOk : Bool),
      (∀ r ∈ self.ori, IsOct r) → Inp.RotsOctL obs →
      ∃ (self' : Src Oct (V3 Int)) (obs' : List (Inp Oct (V3 Int))), self'.toM3 = self ∧ Inp.mapGs Oct.toM3 obs' = obs ∧
        srcMethod flipX vmin vmax i self obs squeeze agg outOk =
          srcMethod flipX vmin vmax i self' obs' squeeze agg outOk) ∧
    (∀ (i : Nat) (self : SensZ) (srcs : List InpZ) (f : Flags), self.RotsOct → Inp.RotsOctL srcs →
      ∃ (self' : Sens Oct (V3 Int)) (srcs' : List (Inp Oct (V3 Int))), self'.toM3 = self ∧
        Inp.mapGs Oct.toM3 srcs' = srcs ∧
        sensMethod flipX vmin vmax i self srcs f = sensMethod flipX vmin vmax i self' srcs' f) ∧
    (∀ (i : Nat) (cs : List WObjZ) (inputs : List InpZ) (squeeze : Bool) (agg : AggIn) (outOk : Bool),
      (∀ c ∈ cs, c.RotsOct) → Inp.RotsOctL inputs →
      ∃ (cs' : List (Iface.Obj Oct (V3 Int))) (inputs' : List (Inp Oct (V3 Int))),
        Obj.mapGs Oct.toM3 cs' = cs ∧ Inp.mapGs Oct.toM3 inputs' = inputs ∧
        collMethod flipX vmin vmax i cs inputs squeeze agg outOk =
          collMethod flipX vmin vmax i cs' inputs' squeeze agg outOk) := by
  refine ⟨?_, ?_, ?_, ?_⟩
  · intro s o f hs ho
    obtain ⟨s', rfl⟩ := exists_oct_inp s hs
    obtain ⟨o', rfl⟩ := exists_oct_inp o ho
    exact ⟨s', o', rfl, rfl, getBtop_at_Oct_eq_at_M3Int flipX vmin vmax s' o' f⟩
  · intro i self obs squeeze agg outOk hself hobs
    obtain ⟨l, hl⟩ := exists_map_eq_of_forall_mem Oct.toM3 self.ori (fun r hr => Oct.exists_toM3_eq (hself r hr))
    obtain ⟨obs', rfl⟩ := exists_oct_inps obs hobs
    refine ⟨{ pos := self.pos, ori := l, F := self.F }, obs', ?_, rfl, ?_⟩
    · simp only [Src.toM3, Src.mapG, hl]
    · have := srcMethod_at_Oct_eq_at_M3Int flipX vmin vmax i { pos := self.pos, ori := l, F := self.F } obs'
        squeeze agg outOk
      simpa only [Src.toM3, Src.mapG, hl] using this
  · intro i self srcs f hself hsrcs
    obtain ⟨self', rfl⟩ := exists_oct_sensor self hself
    obtain ⟨srcs', rfl⟩ := exists_oct_inps srcs hsrcs
    exact ⟨self', srcs', rfl, rfl, sensMethod_at_Oct_eq_at_M3Int flipX vmin vmax i self' srcs' f⟩
  · intro i cs inputs squeeze agg outOk hcs hin
    obtain ⟨cs', rfl⟩ := exists_oct_wobjs cs hcs
    obtain ⟨inputs', rfl⟩ := exists_oct_inps inputs hin
    exact ⟨cs', inputs', rfl, rfl, collMethod_at_Oct_eq_at_M3Int flipX vmin vmax i cs' inputs' squeeze agg outOk⟩

/-- **`method_forms_coincide` on the driver's carrier** — an instance (bare operation classes; no hypothesis on the
matrices) -/
theorem method_forms_coincide_on_driver_carrier (flipX : V3 Int → V3 Int) (vmin vmax : V3 Int → V3 Int → V3 Int)
    (i j : Nat) (s : SrcZ) (k : SensZ) (cs : List WObjZ) (squeeze : Bool) (agg : AggIn) (outOk : Bool) :
    let f : Flags := { sumup := false, squeeze := squeeze, agg := agg, outOk := outOk }
    srcMethod flipX vmin vmax i s [.obj (.sens j k)] squeeze agg outOk =
      sensMethod flipX vmin vmax j k [.obj (.src i s)] f ∧
    (collBranch i cs = .noSensors →
      collMethod flipX vmin vmax i cs [.obj (.sens j k)] squeeze agg outOk =
        sensMethod flipX vmin vmax j k [.obj (.coll i cs)] f) ∧
    (collBranch i cs = .noSources →
      collMethod flipX vmin vmax i cs [.obj (.src j s)] squeeze agg outOk =
        srcMethod flipX vmin vmax j s [.obj (.coll i cs)] squeeze agg outOk) :=
  method_forms_coincide flipX vmin vmax i j s k cs squeeze agg outOk

/-- **`observers_as_positions` on the driver's carrier** — an instance (bare operation classes) -/
theorem observers_as_positions_on_driver_carrier (flipX : V3 Int → V3 Int) (vmin vmax : V3 Int → V3 Int → V3 Int)
    (srcs : InpZ) (sh : List Nat) (d : List (V3 Int)) (hd : d ≠ []) (i : Nat) (f : Flags) :
    getBtop flipX vmin vmax srcs (.pos sh d) f =
      getBtop flipX vmin vmax srcs (.obj (.sens i (freshSensor sh d))) f :=
  (observers_as_positions flipX vmin vmax srcs sh d hd i f).1

/-- **`dict_interface_is_level1_rowwise` on the driver's carrier**: if the driver's evaluation of
`getB("Class", observers, position=…, orientation=…, **kwargs)` with octahedral orientation matrices returns, then the
call is the inclusion of a call over the group `Oct`, it has a well-defined number of rows n, the result has n rows, and
row i is `Level2.level1` of the one-pose source at the i-th pose and parameter set at the i-th observer — evaluated with
the integer matrix operations (what the driver does), which is the same vector as `level1` evaluated at the group `Oct`
(the object C03–C06 reason about). -/
theorem dict_interface_is_level1_rowwise_on_driver_carrier {α : Type} (tables : List (String × List (String × Nat)))
    (cls : String) (F : List (String × Arr α) → V3 Int → V3 Int) (c : CallZ α) (out : Level2.Out (V3 Int))
    (hc : c.RotsOct) (h : call tables cls F c = .ok out) :
    ∃ (c' : Call Oct (V3 Int) α) (table : List (String × Nat)) (m : Marshalled Oct (V3 Int) α),
      c'.toM3 = c ∧ tables.lookup cls = some table ∧ marshal table c' = .ok m ∧
      marshal table c = .ok (m.mapG Oct.toM3) ∧
      out.data.length = m.n ∧
      out.shape = (if c.squeeze then [m.n].filter (· ≠ 1) else [m.n]) ∧
      ∀ i, i < m.n → ∃ (x p : V3 Int) (r : Oct),
        pick i c.observers = some x ∧ pick i c.position = some p ∧ pick i c.orientation = some r.toM3 ∧
        out.data[i]? = some (Level2.level1 (G := M3 Int) { pos := [p], ori := [r.toM3], F := F (paramSet m i) } 0 x) ∧
        out.data[i]? = some (Level2.level1 (G := Oct) { pos := [p], ori := [r], F := F (paramSet m i) } 0 x) := by
  obtain ⟨c', rfl⟩ := exists_oct_call c hc
  rw [call_at_Oct_eq_at_M3Int] at h
  obtain ⟨table, m, htab, hm, hlen, hshape, hrows⟩ := dict_interface_is_level1_rowwise tables cls F c' out h
  refine ⟨c', table, m, rfl, htab, hm, ?_, hlen, hshape, ?_⟩
  · rw [marshal_at_Oct_eq_at_M3Int, hm]; rfl
  · intro i hi
    obtain ⟨x, p, r, hx, hp, hr, hrow, _⟩ := hrows i hi
    refine ⟨x, p, r, hx, hp, ?_, ?_, hrow⟩
    · show pick i (c'.orientation.map Oct.toM3) = some r.toM3
      rw [pick_map, hr]; rfl
    · rw [hrow]
      exact congrArg some (level1_at_Oct_eq_at_M3Int { pos := [p], ori := [r], F := F (paramSet m i) } 0 x).symm

-- non-vacuity, driver-style data: the dict call of `DictExample` (orientation stack [1, 90° about z]) is octahedral and
-- returns, so the theorem applies to it; a source turned by 90° about z read by a sensor turned by 90° about x through
-- the three method forms (octahedral world: the hypotheses of `interface_on_driver_carrier_is_group_model` hold)
open DictExample in
example : exCall.RotsOct ∧ ∃ out, call exTables "Cuboid" exF exCall = .ok out := by
  refine ⟨?_, ?_⟩
  · intro r hr
    simp only [exCall, Given.toList, List.mem_cons, List.not_mem_nil, or_false] at hr
    rcases hr with rfl | rfl <;> decide
  · cases h : call exTables "Cuboid" exF exCall with
    | ok o => exact ⟨o, rfl⟩
    | error e =>
      have : (call exTables "Cuboid" exF exCall).toOption.isSome = true := by decide
      rw [h] at this; cases this
open Level2.DriverExample in
example :
    let s : SrcZ := ⟨[⟨3, 0, 0⟩, ⟨4, 0, 0⟩], [1, rotZ90], fun x => x + ⟨1, 0, 0⟩⟩
    let k : SensZ := ⟨[⟨7, 0, 0⟩], [rotX90], [⟨0, 0, 0⟩, ⟨1, 0, 0⟩], [2], true⟩
    (∀ r ∈ s.ori, IsOct r) ∧ k.RotsOct ∧ Inp.RotsOctL [Inp.obj (.sens 1 k)] ∧ Inp.RotsOctL [Inp.obj (.src 0 s)] ∧
    (∃ out, srcMethod drvFlip (fun a _ => a) (fun a _ => a) 0 s [.obj (.sens 1 k)] false (.agg .none) true = .ok out ∧
      out.shape = [1, 2, 1, 2]) := by
  intro s k
  have hs : ∀ r ∈ s.ori, IsOct r := by
    simp only [s, List.mem_cons, List.not_mem_nil, or_false, forall_eq_or_imp, forall_eq]; decide
  have hk : k.RotsOct := by
    simp only [Sens.RotsOct, k, List.mem_cons, List.not_mem_nil, or_false, forall_eq]; decide
  refine ⟨hs, hk, ?_, ?_, ?_⟩
  · intro o ho
    simp only [Inp.objsL, Inp.objs, List.append_nil, List.mem_singleton] at ho
    subst ho
    exact ⟨by simp [Iface.Obj.sourcesAll], by
      intro p hp r hr
      simp only [Iface.Obj.sensorsAll, List.mem_singleton] at hp
      subst hp
      exact hk r hr⟩
  · intro o ho
    simp only [Inp.objsL, Inp.objs, List.append_nil, List.mem_singleton] at ho
    subst ho
    exact ⟨by simpa [Iface.Obj.sourcesAll] using hs, by simp [Iface.Obj.sensorsAll]⟩
  · refine ⟨_, getBtop_ok _ _ _ _ _ _ ⟨[.src 0 s], [(0, s)]⟩ .none [(.user 1, k)] ?_ rfl ?_ ?_, ?_⟩
    · simp [formatSrc_eq, items, checkSrcEntries, checkSrcEntry, Iface.Obj.sourcesAll]
    · simp [starInput, formatObs_sensor]
    · simp [BadInput, SrcFmt.entries, Iface.Obj.toEntries, Iface.Obj.toEntry?, Entry.leaves, k]
    · simp [shape0, pathLen, SrcFmt.entries, Iface.Obj.toEntries, Iface.Obj.toEntry?, Entry.leaves, s, k]
end driverCarrier

end MagpyVerif.C07
